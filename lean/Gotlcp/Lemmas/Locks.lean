/-
Helper lemmas for C13: the interleaving semantics (`Model/Locks.lean`), the verified checker of
`Spec/LocksSpec.lean`, deadlock freedom of ordered lock programs, the Write / Read critical
sections, handshake-once and the activeCall interlock.  Property theorems are in `Props/C13.lean`.
-/
import Gotlcp.Model.Locks
import Gotlcp.Spec.LocksSpec

set_option linter.unusedSimpArgs false

namespace Gotlcp.Lemmas.Locks
open Gotlcp.Model.Locks Gotlcp.Spec.Locks

/-! ## The checker `isWholeInterleaving` -/

theorem wholeAux_sound {α : Type} [BEq α] [LawfulBEq α] :
    ∀ (fuel : Nat) (ps : List (List α)) (s : List α), wholeAux fuel ps s = true → WholeInterleaving s ps := by
  intro fuel
  induction fuel with
  | zero =>
    intro ps s h
    simp only [wholeAux, Bool.and_eq_true, List.isEmpty_iff] at h
    obtain ⟨rfl, rfl⟩ := h
    exact ⟨[], List.Perm.refl _, rfl⟩
  | succ n ih =>
    intro ps s h
    unfold wholeAux at h
    split at h
    · rename_i he
      simp only [List.isEmpty_iff] at he h
      subst he; subst h
      exact ⟨[], List.Perm.refl _, rfl⟩
    · simp only [List.any_eq_true, Bool.and_eq_true] at h
      obtain ⟨p, hp, hpre, hrec⟩ := h
      obtain ⟨order, hperm, hflat⟩ := ih _ _ hrec
      refine ⟨p :: order, ?_, ?_⟩
      · exact (List.Perm.cons p hperm).trans (List.perm_cons_erase hp).symm
      · have := List.prefix_iff_eq_append.mp (List.isPrefixOf_iff_prefix.mp hpre)
        rw [List.flatten_cons, ← hflat, this]

theorem wholeAux_complete {α : Type} [BEq α] [LawfulBEq α] :
    ∀ (fuel : Nat) (ps : List (List α)) (s : List α), ps.length ≤ fuel → WholeInterleaving s ps →
      wholeAux fuel ps s = true := by
  intro fuel
  induction fuel with
  | zero =>
    intro ps s hl ⟨order, hperm, hflat⟩
    have hps : ps = [] := List.length_eq_zero_iff.mp (Nat.le_zero.mp hl)
    subst hps
    have : order = [] := List.Perm.eq_nil hperm
    subst this
    simp [wholeAux, hflat]
  | succ n ih =>
    intro ps s hl ⟨order, hperm, hflat⟩
    unfold wholeAux
    split
    · rename_i he
      simp only [List.isEmpty_iff] at he
      subst he
      have : order = [] := List.Perm.eq_nil hperm
      subst this
      simp [hflat]
    · rename_i hne
      cases order with
      | nil =>
        have : ps = [] := List.Perm.eq_nil hperm.symm
        simp [this] at hne
      | cons q order' =>
        obtain ⟨hq, hrest⟩ := List.cons_perm_iff_perm_erase.mp hperm
        simp only [List.any_eq_true, Bool.and_eq_true]
        refine ⟨q, hq, ?_, ?_⟩
        · rw [hflat, List.flatten_cons]
          exact List.isPrefixOf_iff_prefix.mpr (List.prefix_append _ _)
        · apply ih
          · rw [List.length_erase_of_mem hq]; omega
          · refine ⟨order', hrest, ?_⟩
            rw [hflat, List.flatten_cons, List.drop_left]

theorem isWhole_iff {α : Type} [BEq α] [LawfulBEq α] (s : List α) (ps : List (List α)) :
    isWholeInterleaving s ps = true ↔ WholeInterleaving s ps :=
  ⟨wholeAux_sound _ _ _, wholeAux_complete _ _ _ (Nat.le_refl _)⟩

/-! ## Interleaving semantics, deadlock freedom -/

theorem split_at {β : Type} (l : List β) (i : Nat) (a : β) (h : l[i]? = some a) :
    l = l.take i ++ a :: l.drop (i + 1) := by
  induction l generalizing i with
  | nil => simp at h
  | cons x xs ih =>
    cases i with
    | zero => simp at h; simp [h]
    | succ n => simp at h; simp; exact ih n h

theorem step_split {M : Machine} {s s' : State M} (h : Step M s s') :
    ∃ pre th post th', s.ths = pre ++ th :: post ∧ M.step (pre ++ post) s.sh th = some (th', s'.sh) ∧
      s'.ths = pre ++ th' :: post := by
  cases h with
  | mk i hi =>
    unfold stepAt at hi
    split at hi
    · cases hi
    · rename_i th hth
      split at hi
      · cases hi
      · rename_i th' sh' hst
        cases hi
        exact ⟨_, th, _, th', split_at _ _ _ hth, hst, rfl⟩

theorem stepAt_of_split {M : Machine} (s : State M) (pre post : List M.Local) (th th' : M.Local) (sh' : M.Shared)
    (hs : s.ths = pre ++ th :: post) (hst : M.step (pre ++ post) s.sh th = some (th', sh')) :
    stepAt M s pre.length = some ⟨pre ++ th' :: post, sh'⟩ := by
  unfold stepAt
  have h1 : s.ths[pre.length]? = some th := by rw [hs]; simp
  have h2 : s.ths.take pre.length = pre := by rw [hs]; simp
  have h3 : s.ths.drop (pre.length + 1) = post := by rw [hs]; simp
  rw [h1]; simp only [h2, h3, hst]

theorem Reach.inv {M : Machine} (P : State M → Prop) {s0 s : State M} (hr : Reach M s0 s)
    (h0 : P s0) (hs : ∀ a b, P a → Step M a b → P b) : P s := by
  induction hr with
  | refl => exact h0
  | tail _ st ih => exact hs _ _ ih st

theorem lockStep_ordered {α : Type} (rank : Nat → Nat) (others : List (Thread α)) (sh sh' : Shared α)
    (th th' : Thread α) (h : lockStep others sh th = some (th', sh'))
    (ho : ordered rank th.held th.prog = true) : ordered rank th'.held th'.prog = true := by
  unfold lockStep at h
  split at h
  · cases h
  · rename_i l p heq
    rw [heq] at ho
    simp only [ordered, Bool.and_eq_true] at ho
    split at h
    · cases h; exact ho.2
    · cases h
  · rename_i l p heq
    rw [heq] at ho
    simp only [ordered, Bool.and_eq_true] at ho
    cases h; exact ho.2
  all_goals
    rename_i heq
    rw [heq] at ho
    simp only [ordered] at ho
    cases h; exact ho

def OrdInv {α : Type} (rank : Nat → Nat) (s : State (LockM α)) : Prop :=
  ∀ th ∈ s.ths, ordered rank th.held th.prog = true

theorem ordInv_step {α : Type} (rank : Nat → Nat) (a b : State (LockM α)) (h : OrdInv rank a)
    (st : Step (LockM α) a b) : OrdInv rank b := by
  obtain ⟨pre, th, post, th', hs, hst, hs'⟩ := step_split st
  intro u hu
  rw [hs'] at hu
  rcases List.mem_append.mp hu with hu | hu
  · exact h u (by rw [hs]; exact List.mem_append_left _ hu)
  · rcases List.mem_cons.mp hu with rfl | hu
    · exact lockStep_ordered rank _ _ _ _ _ hst (h th (by rw [hs]; simp))
    · exact h u (by rw [hs]; simp [hu])

theorem le_sum_of_mem (l : List Nat) (x : Nat) (h : x ∈ l) : x ≤ l.sum := by
  induction l with
  | nil => cases h
  | cons y ys ih =>
    simp only [List.sum_cons]
    rcases List.mem_cons.mp h with rfl | h
    · omega
    · have := ih h; omega

/-- in a state where nobody can move, an unfinished ordered thread waits for a held mutex -/
theorem stuck_wants {α : Type} (s : State (LockM α)) (hstuck : ∀ i, stepAt (LockM α) s i = none)
    (th : Thread α) (hth : th ∈ s.ths) (hne : th.prog ≠ []) :
    ∃ l p, th.prog = .acq l :: p ∧ ∃ u ∈ s.ths, l ∈ u.held := by
  obtain ⟨pre, post, hs⟩ := List.mem_iff_append.mp hth
  have hnone : lockStep (pre ++ post) s.sh th = none := by
    cases hst : lockStep (pre ++ post) s.sh th with
    | none => rfl
    | some r =>
      have := stepAt_of_split (M := LockM α) s pre post th r.1 r.2 hs hst
      rw [hstuck] at this; cases this
  unfold lockStep at hnone
  split at hnone
  · rename_i heq; exact absurd heq hne
  · rename_i l p heq
    refine ⟨l, p, heq, ?_⟩
    split at hnone
    · cases hnone
    · rename_i hc
      by_cases h1 : holds l th = true
      · exact ⟨th, hth, by simpa [holds] using h1⟩
      · have h1' : holds l th = false := by simpa using h1
        have h2 : ((pre ++ post).all fun u => !holds l u) = false := by
          cases hh : ((pre ++ post).all fun u => !holds l u) with
          | false => rfl
          | true => exact absurd (by simp [hh, h1']) hc
        obtain ⟨u, hu, hh⟩ := List.all_eq_false.mp h2
        have hh' : holds l u = true := by simpa using hh
        refine ⟨u, ?_, by simpa [holds] using hh'⟩
        rw [hs]
        rcases List.mem_append.mp hu with h | h
        · exact List.mem_append_left _ h
        · exact List.mem_append_right _ (List.mem_cons_of_mem _ h)
  all_goals cases hnone

theorem no_deadlock_of_ordered {α : Type} (rank : Nat → Nat) (s : State (LockM α)) (hord : OrdInv rank s) :
    ¬ Deadlocked (LockM α) s := by
  intro ⟨⟨t0, ht0, hf0⟩, hstuck⟩
  have hne0 : t0.prog ≠ [] := by
    intro h; simp [h] at hf0
  -- the rank a thread waits for
  let f : Thread α → Nat := fun th => match th.prog with | .acq l :: _ => rank l | _ => 0
  have climb : ∀ n : Nat, ∃ th ∈ s.ths, ∃ l p, th.prog = .acq l :: p ∧ n ≤ rank l := by
    intro n
    induction n with
    | zero =>
      obtain ⟨l, p, hp, _⟩ := stuck_wants s hstuck t0 ht0 hne0
      exact ⟨t0, ht0, l, p, hp, Nat.zero_le _⟩
    | succ n ih =>
      obtain ⟨th, hth, l, p, hp, hle⟩ := ih
      obtain ⟨l1, p1, hp1, u, hu, hheld⟩ := stuck_wants s hstuck th hth (by rw [hp]; simp)
      rw [hp] at hp1; cases hp1
      have hou := hord u hu
      have hune : u.prog ≠ [] := by
        intro h
        rw [h] at hou
        simp only [ordered, List.isEmpty_iff] at hou
        rw [hou] at hheld; cases hheld
      obtain ⟨l2, p2, hp2, _⟩ := stuck_wants s hstuck u hu hune
      rw [hp2] at hou
      simp only [ordered, Bool.and_eq_true, List.all_eq_true, decide_eq_true_eq] at hou
      have := hou.1 l hheld
      exact ⟨u, hu, l2, p2, hp2, by omega⟩
  obtain ⟨th, hth, l, p, hp, hle⟩ := climb ((s.ths.map f).sum + 1)
  have h1 : f th ≤ (s.ths.map f).sum := le_sum_of_mem _ _ (List.mem_map.mpr ⟨th, hth, rfl⟩)
  have h2 : f th = rank l := by simp only [f, hp]
  omega

/-! ## Critical sections of Write and Read -/

theorem lockStep_acq {α : Type} {o : List (Thread α)} {sh sh' : Shared α} {th th' : Thread α} {l : Nat}
    {p : List (Act α)} (hp : th.prog = .acq l :: p) (h : lockStep o sh th = some (th', sh')) :
    (∀ u ∈ o, holds l u = false) ∧ holds l th = false ∧
      th' = { th with held := l :: th.held, prog := p } ∧ sh' = sh := by
  unfold lockStep at h
  rw [hp] at h
  simp only at h
  split at h
  · rename_i hc
    simp only [Bool.and_eq_true, List.all_eq_true, Bool.not_eq_true'] at hc
    cases h
    exact ⟨hc.1, hc.2, rfl, rfl⟩
  · cases h

theorem lockStep_rel {α : Type} {o : List (Thread α)} {sh sh' : Shared α} {th th' : Thread α} {l : Nat}
    {p : List (Act α)} (hp : th.prog = .rel l :: p) (h : lockStep o sh th = some (th', sh')) :
    th' = { th with held := th.held.erase l, prog := p } ∧ sh' = sh := by
  unfold lockStep at h
  rw [hp] at h
  simp only at h
  cases h; exact ⟨rfl, rfl⟩

theorem lockStep_emit {α : Type} {o : List (Thread α)} {sh sh' : Shared α} {th th' : Thread α} {x : α}
    {p : List (Act α)} (hp : th.prog = .emit x :: p) (h : lockStep o sh th = some (th', sh')) :
    th' = { th with prog := p } ∧ sh' = { sh with stream := sh.stream ++ [x] } := by
  unfold lockStep at h
  rw [hp] at h
  simp only at h
  cases h; exact ⟨rfl, rfl⟩

theorem lockStep_copy {α : Type} {o : List (Thread α)} {sh sh' : Shared α} {th th' : Thread α} {n : Nat}
    {p : List (Act α)} (hp : th.prog = .copy n :: p) (h : lockStep o sh th = some (th', sh')) :
    th' = { th with prog := p, loc := sh.input.take n } ∧ sh' = sh := by
  unfold lockStep at h
  rw [hp] at h
  simp only at h
  cases h; exact ⟨rfl, rfl⟩

theorem lockStep_advance {α : Type} {o : List (Thread α)} {sh sh' : Shared α} {th th' : Thread α}
    {p : List (Act α)} (hp : th.prog = .advance :: p) (h : lockStep o sh th = some (th', sh')) :
    th' = { th with prog := p, loc := [] } ∧
      sh' = { sh with input := sh.input.drop th.loc.length, reads := sh.reads ++ [th.loc] } := by
  unfold lockStep at h
  rw [hp] at h
  simp only at h
  cases h; exact ⟨rfl, rfl⟩

theorem filter_len_split {β : Type} (p : β → Bool) (pre post : List β) (x : β) :
    ((pre ++ x :: post).filter p).length =
      (pre.filter p).length + (if p x then 1 else 0) + (post.filter p).length := by
  simp only [List.filter_append, List.filter_cons, List.length_append]
  split <;> simp <;> omega

theorem others_not {β : Type} (p : β → Bool) (pre post : List β) (x : β)
    (h : ((pre ++ x :: post).filter p).length ≤ 1) (hx : p x = true) : ∀ u ∈ pre ++ post, p u = false := by
  rw [filter_len_split, hx] at h
  simp only [if_true] at h
  have h1 : pre.filter p = [] := List.length_eq_zero_iff.mp (by omega)
  have h2 : post.filter p = [] := List.length_eq_zero_iff.mp (by omega)
  intro u hu
  rcases List.mem_append.mp hu with hu | hu
  · simpa using List.filter_eq_nil_iff.mp h1 u hu
  · simpa using List.filter_eq_nil_iff.mp h2 u hu

section Write
variable {α : Type}

def WFresh (u : Thread α) : Prop := u.held = [] ∧ u.prog = writerProg u.pay
def WDone (u : Thread α) : Prop := u.held = [] ∧ u.prog = []
def WMid (cur : List α) (u : Thread α) : Prop :=
  ∃ rest, u.pay = cur ++ rest ∧ u.held = [lkOut] ∧ u.prog = rest.map .emit ++ [.rel lkOut]
def isFin (u : Thread α) : Bool := u.prog.isEmpty
def holdsOut (u : Thread α) : Bool := holds lkOut u

def WInv (s : State (LockM α)) : Prop :=
  ∃ (D : List (List α)) (cur : List α),
    s.sh.stream = D.flatten ++ cur ∧
    D.Perm ((s.ths.filter isFin).map (·.pay)) ∧
    (∀ u ∈ s.ths, WFresh u ∨ WDone u ∨ WMid cur u) ∧
    (s.ths.filter holdsOut).length ≤ 1 ∧
    (cur = [] ∨ ∃ u ∈ s.ths, holdsOut u = true)

theorem mid_holds {cur : List α} {u : Thread α} (h : WMid cur u) : holdsOut u = true := by
  obtain ⟨_, _, hh, _⟩ := h
  simp [holdsOut, holds, hh]

theorem mid_notFin {cur : List α} {u : Thread α} (h : WMid cur u) : isFin u = false := by
  obtain ⟨rest, _, _, hp⟩ := h
  simp [isFin, hp]

theorem filter_replace (p : Thread α → Bool) (pre post : List (Thread α)) (x y : Thread α)
    (hx : p x = false) (hy : p y = false) :
    (pre ++ y :: post).filter p = (pre ++ x :: post).filter p := by
  simp [List.filter_append, List.filter_cons, hx, hy]

theorem winv_step (a b : State (LockM α)) (h : WInv a) (st : Step (LockM α) a b) : WInv b := by
  obtain ⟨pre, th, post, th', hs, hst, hs'⟩ := step_split st
  obtain ⟨D, cur, h1, h2, h3, h4, h5⟩ := h
  have hth : th ∈ a.ths := by rw [hs]; simp
  have memb : ∀ u, u ∈ pre ++ th' :: post → u ∈ pre ++ post ∨ u = th' := by
    intro u hu
    rcases List.mem_append.mp hu with hu | hu
    · exact Or.inl (List.mem_append_left _ hu)
    · rcases List.mem_cons.mp hu with rfl | hu
      · exact Or.inr rfl
      · exact Or.inl (List.mem_append_right _ hu)
  have old : ∀ u, u ∈ pre ++ post → u ∈ a.ths := by
    intro u hu
    rw [hs]
    rcases List.mem_append.mp hu with hu | hu
    · exact List.mem_append_left _ hu
    · exact List.mem_append_right _ (List.mem_cons_of_mem _ hu)
  rcases h3 th hth with hF | hF | hM
  · -- a fresh writer takes `out`
    obtain ⟨hheld, hprog⟩ := hF
    obtain ⟨ho, hself, hth', hsh⟩ := lockStep_acq (l := lkOut) (by rw [hprog]; rfl) hst
    have hcur : cur = [] := by
      rcases h5 with h | ⟨u, hu, hh⟩
      · exact h
      · rw [hs] at hu
        rcases List.mem_append.mp hu with hu | hu
        · have := ho u (List.mem_append_left _ hu); simp [holdsOut] at hh; rw [this] at hh; cases hh
        · rcases List.mem_cons.mp hu with rfl | hu
          · simp [holdsOut] at hh; rw [hself] at hh; cases hh
          · have := ho u (List.mem_append_right _ hu); simp [holdsOut] at hh; rw [this] at hh; cases hh
    subst hcur
    have hmid : WMid ([] : List α) th' := by
      refine ⟨th.pay, ?_, ?_, ?_⟩ <;> simp [hth', hheld]
    refine ⟨D, [], by rw [hsh, h1], ?_, ?_, ?_, Or.inr ⟨th', by rw [hs']; simp, mid_holds hmid⟩⟩
    · rw [hs', filter_replace isFin pre post th th' (by simp [isFin, hprog, writerProg]) (mid_notFin hmid), ← hs]
      exact h2
    · intro u hu
      rw [hs'] at hu
      rcases memb u hu with hu | rfl
      · exact h3 u (old u hu)
      · exact Or.inr (Or.inr hmid)
    · rw [hs', filter_len_split]
      have e1 : pre.filter holdsOut = [] :=
        List.filter_eq_nil_iff.mpr (fun u hu => by simp [holdsOut, ho u (List.mem_append_left _ hu)])
      have e2 : post.filter holdsOut = [] :=
        List.filter_eq_nil_iff.mpr (fun u hu => by simp [holdsOut, ho u (List.mem_append_right _ hu)])
      rw [e1, e2]; split <;> simp
  · -- a finished writer has no action
    obtain ⟨_, hprog⟩ := hF
    have hst' : lockStep (pre ++ post) a.sh th = some (th', b.sh) := hst
    unfold lockStep at hst'
    rw [hprog] at hst'
    cases hst'
  · -- the writer inside the critical section
    have hold := mid_holds hM
    have hoth : ∀ u ∈ pre ++ post, holdsOut u = false := others_not holdsOut pre post th (by rw [← hs]; exact h4) hold
    have hothers : ∀ u ∈ pre ++ post, WFresh u ∨ WDone u := by
      intro u hu
      rcases h3 u (old u hu) with h | h | h
      · exact Or.inl h
      · exact Or.inr h
      · have := mid_holds h; rw [hoth u hu] at this; cases this
    obtain ⟨rest, hpay, hheld, hprog⟩ := hM
    cases rest with
    | nil =>
      -- releases `out`: the payload is complete
      simp only [List.map_nil, List.nil_append] at hprog
      simp only [List.append_nil] at hpay
      obtain ⟨hth', hsh⟩ := lockStep_rel hprog hst
      have hfin : WDone th' := by simp [WDone, hth', hheld, lkOut]
      have hnh : holdsOut th' = false := by simp [holdsOut, holds, hfin.1]
      refine ⟨D ++ [cur], [], ?_, ?_, ?_, ?_, Or.inl rfl⟩
      · rw [hsh, h1]; simp
      · rw [hs'] 
        have e : ((pre ++ th' :: post).filter isFin).map (·.pay) =
            (pre.filter isFin).map (·.pay) ++ cur :: (post.filter isFin).map (·.pay) := by
          have : isFin th' = true := by simp [isFin, hfin.2]
          have hp' : th'.pay = cur := by rw [hth']; exact hpay
          simp only [List.filter_append, List.filter_cons, this, if_true, List.map_append, List.map_cons, hp']
        have e0 : ((a.ths).filter isFin).map (·.pay) =
            (pre.filter isFin).map (·.pay) ++ (post.filter isFin).map (·.pay) := by
          have : isFin th = false := by simp [isFin, hprog]
          rw [hs]; simp [List.filter_append, List.filter_cons, this]
        rw [e]
        rw [e0] at h2
        exact (List.perm_append_comm.trans (List.Perm.cons cur h2)).trans List.perm_middle.symm
      · intro u hu
        rw [hs'] at hu
        rcases memb u hu with hu | rfl
        · rcases hothers u hu with h | h
          · exact Or.inl h
          · exact Or.inr (Or.inl h)
        · exact Or.inr (Or.inl hfin)
      · rw [hs', filter_len_split, hnh]
        rw [hs, filter_len_split, hold] at h4
        simp at h4 ⊢; omega
    | cons x rest' =>
      simp only [List.map_cons, List.cons_append] at hprog
      obtain ⟨hth', hsh⟩ := lockStep_emit hprog hst
      have hmid : WMid (cur ++ [x]) th' := by
        refine ⟨rest', ?_, ?_, ?_⟩ <;> simp [hth', hheld, hpay]
      refine ⟨D, cur ++ [x], ?_, ?_, ?_, ?_, Or.inr ⟨th', by rw [hs']; simp, mid_holds hmid⟩⟩
      · rw [hsh]; simp [h1]
      · rw [hs', filter_replace isFin pre post th th' (by simp [isFin, hprog]) (mid_notFin hmid), ← hs]
        exact h2
      · intro u hu
        rw [hs'] at hu
        rcases memb u hu with hu | rfl
        · rcases hothers u hu with h | h
          · exact Or.inl h
          · exact Or.inr (Or.inl h)
        · exact Or.inr (Or.inr hmid)
      · rw [hs', filter_len_split, mid_holds hmid]
        rw [hs, filter_len_split, hold] at h4
        exact h4

end Write

section WriteFinal
variable {α : Type}

def writers (ps : List (List α)) : State (LockM α) := ⟨ps.map mkWriter, {}⟩

theorem lockStep_pay {o : List (Thread α)} {sh sh' : Shared α} {th th' : Thread α}
    (h : lockStep o sh th = some (th', sh')) : th'.pay = th.pay := by
  unfold lockStep at h
  split at h
  · cases h
  · split at h
    · cases h; rfl
    · cases h
  all_goals (cases h; rfl)

theorem pays_step (a b : State (LockM α)) (st : Step (LockM α) a b) :
    b.ths.map (·.pay) = a.ths.map (·.pay) := by
  obtain ⟨pre, th, post, th', hs, hst, hs'⟩ := step_split st
  rw [hs, hs']
  simp [lockStep_pay hst]

theorem winv_init (ps : List (List α)) : WInv (writers ps) := by
  refine ⟨[], [], rfl, ?_, ?_, ?_, Or.inl rfl⟩
  · have : (writers ps).ths.filter isFin = [] := by
      apply List.filter_eq_nil_iff.mpr
      intro u hu
      simp only [writers, List.mem_map] at hu
      obtain ⟨p, _, rfl⟩ := hu
      simp [isFin, mkWriter, writerProg]
    rw [this]; exact List.Perm.refl _
  · intro u hu
    simp only [writers, List.mem_map] at hu
    obtain ⟨p, _, rfl⟩ := hu
    exact Or.inl ⟨rfl, rfl⟩
  · have : (writers ps).ths.filter holdsOut = [] := by
      apply List.filter_eq_nil_iff.mpr
      intro u hu
      simp only [writers, List.mem_map] at hu
      obtain ⟨p, _, rfl⟩ := hu
      simp [holdsOut, holds, mkWriter]
    rw [this]; simp

theorem winv_reach (ps : List (List α)) (s : State (LockM α)) (hr : Reach (LockM α) (writers ps) s) :
    WInv s ∧ s.ths.map (·.pay) = ps := by
  refine Reach.inv (fun s => WInv s ∧ s.ths.map (·.pay) = ps) hr ⟨winv_init ps, ?_⟩ ?_
  · simp [writers, mkWriter, Function.comp_def]
  · intro a b ⟨h1, h2⟩ st
    exact ⟨winv_step a b h1 st, by rw [pays_step a b st, h2]⟩

end WriteFinal

section Read
variable {α : Type}

def holdsIn (u : Thread α) : Bool := holds lkIn u
def RIdle (u : Thread α) : Prop := u.held = [] ∧ ∃ ns, u.prog = readerProg true ns
def RCopy (u : Thread α) : Prop :=
  u.held = [lkIn] ∧ ∃ n ns, u.prog = .copy n :: .advance :: .rel lkIn :: readerProg true ns
def RAdv (inp : List α) (u : Thread α) : Prop :=
  u.held = [lkIn] ∧ u.loc <+: inp ∧ ∃ ns, u.prog = .advance :: .rel lkIn :: readerProg true ns
def RRel (u : Thread α) : Prop := u.held = [lkIn] ∧ ∃ ns, u.prog = .rel lkIn :: readerProg true ns

def RInv (inp0 : List α) (s : State (LockM α)) : Prop :=
  inp0 = s.sh.reads.flatten ++ s.sh.input ∧
  (∀ u ∈ s.ths, RIdle u ∨ RCopy u ∨ RAdv s.sh.input u ∨ RRel u) ∧
  (s.ths.filter holdsIn).length ≤ 1

theorem rinv_step (inp0 : List α) (a b : State (LockM α)) (h : RInv inp0 a) (st : Step (LockM α) a b) :
    RInv inp0 b := by
  obtain ⟨pre, th, post, th', hs, hst, hs'⟩ := step_split st
  obtain ⟨h1, h3, h4⟩ := h
  have hth : th ∈ a.ths := by rw [hs]; simp
  have memb : ∀ u, u ∈ pre ++ th' :: post → u ∈ pre ++ post ∨ u = th' := by
    intro u hu
    rcases List.mem_append.mp hu with hu | hu
    · exact Or.inl (List.mem_append_left _ hu)
    · rcases List.mem_cons.mp hu with rfl | hu
      · exact Or.inr rfl
      · exact Or.inl (List.mem_append_right _ hu)
  have old : ∀ u, u ∈ pre ++ post → u ∈ a.ths := by
    intro u hu
    rw [hs]
    rcases List.mem_append.mp hu with hu | hu
    · exact List.mem_append_left _ hu
    · exact List.mem_append_right _ (List.mem_cons_of_mem _ hu)
  -- when the stepping thread holds `in`, every other thread is idle
  have idle_of : holdsIn th = true → ∀ u ∈ pre ++ post, RIdle u := by
    intro hh u hu
    have hno := others_not holdsIn pre post th (by rw [← hs]; exact h4) hh u hu
    rcases h3 u (old u hu) with h | ⟨hh', _⟩ | ⟨hh', _⟩ | ⟨hh', _⟩
    · exact h
    all_goals (simp [holdsIn, holds, hh'] at hno)
  have keep : holdsIn th = true → holdsIn th' = true → (b.ths.filter holdsIn).length ≤ 1 := by
    intro e1 e2
    rw [hs', filter_len_split, e2]
    rw [hs, filter_len_split, e1] at h4
    exact h4
  rcases h3 th hth with hI | hC | hA | hR
  · obtain ⟨hheld, ns, hprog⟩ := hI
    cases ns with
    | nil =>
      have hst' : lockStep (pre ++ post) a.sh th = some (th', b.sh) := hst
      unfold lockStep at hst'
      rw [hprog] at hst'
      simp [readerProg] at hst'
    | cons n ns =>
      simp only [readerProg, if_true] at hprog
      obtain ⟨ho, hself, hth', hsh⟩ := lockStep_acq hprog hst
      refine ⟨by rw [hsh]; exact h1, ?_, ?_⟩
      · intro u hu
        rw [hs'] at hu
        rcases memb u hu with hu | rfl
        · rw [hsh]; exact h3 u (old u hu)
        · exact Or.inr (Or.inl ⟨by simp [hth', hheld], n, ns, by simp [hth']⟩)
      · rw [hs', filter_len_split]
        have e1 : pre.filter holdsIn = [] :=
          List.filter_eq_nil_iff.mpr (fun u hu => by simp [holdsIn, ho u (List.mem_append_left _ hu)])
        have e2 : post.filter holdsIn = [] :=
          List.filter_eq_nil_iff.mpr (fun u hu => by simp [holdsIn, ho u (List.mem_append_right _ hu)])
        rw [e1, e2]; split <;> simp
  · obtain ⟨hheld, n, ns, hprog⟩ := hC
    obtain ⟨hth', hsh⟩ := lockStep_copy hprog hst
    have hh : holdsIn th = true := by simp [holdsIn, holds, hheld]
    have hh' : holdsIn th' = true := by simp [holdsIn, holds, hth', hheld]
    refine ⟨by rw [hsh]; exact h1, ?_, keep hh hh'⟩
    intro u hu
    rw [hs'] at hu
    rcases memb u hu with hu | rfl
    · exact Or.inl (idle_of hh u hu)
    · refine Or.inr (Or.inr (Or.inl ⟨by simp [hth', hheld], ?_, ns, by simp [hth']⟩))
      rw [hth', hsh]; exact List.take_prefix _ _
  · obtain ⟨hheld, hpre, ns, hprog⟩ := hA
    obtain ⟨hth', hsh⟩ := lockStep_advance hprog hst
    have hh : holdsIn th = true := by simp [holdsIn, holds, hheld]
    have hh' : holdsIn th' = true := by simp [holdsIn, holds, hth', hheld]
    refine ⟨?_, ?_, keep hh hh'⟩
    · rw [hsh]
      simp only [List.flatten_append, List.flatten_cons, List.flatten_nil, List.append_nil, List.append_assoc]
      rw [List.prefix_iff_eq_append.mp hpre]; exact h1
    · intro u hu
      rw [hs'] at hu
      rcases memb u hu with hu | rfl
      · exact Or.inl (idle_of hh u hu)
      · exact Or.inr (Or.inr (Or.inr ⟨by simp [hth', hheld], ns, by simp [hth']⟩))
  · obtain ⟨hheld, ns, hprog⟩ := hR
    obtain ⟨hth', hsh⟩ := lockStep_rel hprog hst
    have hh : holdsIn th = true := by simp [holdsIn, holds, hheld]
    have hh' : holdsIn th' = false := by simp [holdsIn, holds, hth', hheld, lkIn]
    refine ⟨by rw [hsh]; exact h1, ?_, ?_⟩
    · intro u hu
      rw [hs'] at hu
      rcases memb u hu with hu | rfl
      · exact Or.inl (idle_of hh u hu)
      · exact Or.inl ⟨by simp [hth', hheld, lkIn], ns, by simp [hth']⟩
    · rw [hs', filter_len_split, hh']
      rw [hs, filter_len_split, hh] at h4
      simp at h4 ⊢; omega

def readers (sizes : List (List Nat)) (inp : List α) : State (LockM α) :=
  ⟨sizes.map (mkReader true), { input := inp }⟩

theorem rinv_reach (sizes : List (List Nat)) (inp : List α) (s : State (LockM α))
    (hr : Reach (LockM α) (readers sizes inp) s) : RInv inp s := by
  refine Reach.inv (RInv inp) hr ⟨by simp [readers], ?_, ?_⟩ (fun a b h st => rinv_step inp a b h st)
  · intro u hu
    simp only [readers, List.mem_map] at hu
    obtain ⟨ns, _, rfl⟩ := hu
    exact Or.inl ⟨rfl, ns, rfl⟩
  · have : (readers sizes inp).ths.filter holdsIn = [] := by
      apply List.filter_eq_nil_iff.mpr
      intro u hu
      simp only [readers, List.mem_map] at hu
      obtain ⟨p, _, rfl⟩ := hu
      simp [holdsIn, holds, mkReader]
    rw [this]; simp

end Read

/-! ## handshakeContext runs handshakeFn once -/
section Handshake
variable {ε : Type}

def inHm : HsPc ε → Bool
  | .gotHm | .wantIn | .running | .relIn _ | .relHm _ => true
  | _ => false

structure HInv (outcome : Nat → Option ε) (s : State (HsM ε true outcome)) : Prop where
  runs_le : s.sh.runs ≤ 1
  before : s.sh.runs = 0 → s.sh.status = false ∧ s.sh.err = none
  after : s.sh.runs = 1 → s.sh.err = outcome 0 ∧ s.sh.status = (outcome 0).isNone
  cnt : (s.ths.filter inHm).length = if s.sh.hm then 1 else 0
  pre : ∀ pc ∈ s.ths, (pc = .wantIn ∨ pc = .running) → s.sh.runs = 0
  res : ∀ pc ∈ s.ths, ∀ r, (pc = .relIn r ∨ pc = .relHm r ∨ pc = .done r) → s.sh.runs = 1 ∧ r = outcome 0

theorem hinv_step (outcome : Nat → Option ε) (a b : State (HsM ε true outcome)) (h : HInv outcome a)
    (st : Step (HsM ε true outcome) a b) : HInv outcome b := by
  obtain ⟨pre, th, post, th', hs, hst, hs'⟩ := step_split st
  obtain ⟨bths, bsh⟩ := b
  obtain ⟨aths, ash⟩ := a
  simp only at hs hs' hst
  subst hs; subst hs'
  have hst' : hsStep true outcome (pre ++ post) ash th = some (th', bsh) := hst
  clear hst
  have hth : th ∈ pre ++ th :: post := by simp
  have memb : ∀ u, u ∈ pre ++ th' :: post → (u ∈ pre ++ th :: post ∧ u ∈ pre ++ post) ∨ u = th' := by
    intro u hu
    rcases List.mem_append.mp hu with hu | hu
    · exact Or.inl ⟨List.mem_append_left _ hu, List.mem_append_left _ hu⟩
    · rcases List.mem_cons.mp hu with rfl | hu
      · exact Or.inr rfl
      · exact Or.inl ⟨List.mem_append_right _ (List.mem_cons_of_mem _ hu), List.mem_append_right _ hu⟩
  obtain ⟨hle, hbef, haft, hcnt, hpre, hres⟩ := h
  simp only at hle hbef haft hcnt hpre hres
  -- status set means one successful run
  have stat : ash.status = true → ash.runs = 1 ∧ outcome 0 = none := by
    intro hs
    have h1 : ash.runs = 1 := by
      rcases Nat.lt_or_ge ash.runs 1 with h | h
      · have := (hbef (by omega)).1; rw [hs] at this; cases this
      · omega
    refine ⟨h1, ?_⟩
    have := (haft h1).2
    rw [hs] at this
    cases ho : outcome 0 with
    | none => rfl
    | some e => rw [ho] at this; cases this
  have errset : ∀ e, ash.err = some e → ash.runs = 1 ∧ some e = outcome 0 := by
    intro e he
    have h1 : ash.runs = 1 := by
      rcases Nat.lt_or_ge ash.runs 1 with h | h
      · have := (hbef (by omega)).2; rw [he] at this; cases this
      · omega
    exact ⟨h1, by rw [← he]; exact (haft h1).1⟩
  -- bookkeeping of the handshakeMutex section
  have cntNew : ∀ (hmNew : Bool), (if inHm th' then 1 else 0) + (if ash.hm then 1 else 0) =
      (if inHm th then 1 else 0) + (if hmNew then 1 else 0) →
      ((pre ++ th' :: post).filter inHm).length = if hmNew then 1 else 0 := by
    intro hmNew he
    rw [filter_len_split] at hcnt ⊢
    omega
  have othersOut : inHm th = true → ∀ u ∈ pre ++ post, inHm u = false := by
    intro hh
    apply others_not inHm pre post th _ hh
    rw [hcnt]; split <;> omega
  cases th with
  | start =>
    simp only [hsStep] at hst'
    split at hst'
    · rename_i hstat
      cases hst'
      obtain ⟨h1, ho⟩ := stat hstat
      refine ⟨hle, hbef, haft, cntNew _ (by simp [inHm]), ?_, ?_⟩
      · intro pc hpc hc
        rcases memb pc hpc with ⟨hpc, _⟩ | rfl
        · exact hpre pc hpc hc
        · rcases hc with hc | hc <;> cases hc
      · intro pc hpc r hc
        rcases memb pc hpc with ⟨hpc, _⟩ | rfl
        · exact hres pc hpc r hc
        · rcases hc with hc | hc | hc <;> cases hc
          exact ⟨h1, ho.symm⟩
    · cases hst'
      refine ⟨hle, hbef, haft, cntNew _ (by simp [inHm]), ?_, ?_⟩
      · intro pc hpc hc
        rcases memb pc hpc with ⟨hpc, _⟩ | rfl
        · exact hpre pc hpc hc
        · rcases hc with hc | hc <;> cases hc
      · intro pc hpc r hc
        rcases memb pc hpc with ⟨hpc, _⟩ | rfl
        · exact hres pc hpc r hc
        · rcases hc with hc | hc | hc <;> cases hc
  | wantHm =>
    simp only [hsStep] at hst'
    split at hst'
    · cases hst'
    · rename_i hhm
      cases hst'
      refine ⟨hle, hbef, haft, cntNew _ (by simp [inHm, hhm]), ?_, ?_⟩
      · intro pc hpc hc
        rcases memb pc hpc with ⟨hpc, _⟩ | rfl
        · exact hpre pc hpc hc
        · rcases hc with hc | hc <;> cases hc
      · intro pc hpc r hc
        rcases memb pc hpc with ⟨hpc, _⟩ | rfl
        · exact hres pc hpc r hc
        · rcases hc with hc | hc | hc <;> cases hc
  | gotHm =>
    simp only [hsStep, if_true] at hst'
    split at hst'
    · rename_i e he
      cases hst'
      obtain ⟨h1, ho⟩ := errset e he
      refine ⟨hle, hbef, haft, cntNew _ (by simp [inHm]), ?_, ?_⟩
      · intro pc hpc hc
        rcases memb pc hpc with ⟨hpc, _⟩ | rfl
        · exact hpre pc hpc hc
        · rcases hc with hc | hc <;> cases hc
      · intro pc hpc r hc
        rcases memb pc hpc with ⟨hpc, _⟩ | rfl
        · exact hres pc hpc r hc
        · rcases hc with hc | hc | hc <;> cases hc
          exact ⟨h1, ho⟩
    · rename_i he
      split at hst'
      · rename_i hstat
        cases hst'
        obtain ⟨h1, ho⟩ := stat hstat
        refine ⟨hle, hbef, haft, cntNew _ (by simp [inHm]), ?_, ?_⟩
        · intro pc hpc hc
          rcases memb pc hpc with ⟨hpc, _⟩ | rfl
          · exact hpre pc hpc hc
          · rcases hc with hc | hc <;> cases hc
        · intro pc hpc r hc
          rcases memb pc hpc with ⟨hpc, _⟩ | rfl
          · exact hres pc hpc r hc
          · rcases hc with hc | hc | hc <;> cases hc
            exact ⟨h1, ho.symm⟩
      · rename_i hstat
        have hr0 : ash.runs = 0 := by
          rcases Nat.lt_or_ge ash.runs 1 with h | h
          · omega
          · have h1 : ash.runs = 1 := by omega
            obtain ⟨e1, e2⟩ := haft h1
            cases ho : outcome 0 with
            | none => rw [ho] at e2; simp at e2; exact absurd e2 hstat
            | some e => rw [ho] at e1; rw [e1] at he; cases he
        cases hst'
        refine ⟨hle, hbef, haft, cntNew _ (by simp [inHm]), ?_, ?_⟩
        · intro pc hpc hc
          rcases memb pc hpc with ⟨hpc, _⟩ | rfl
          · exact hpre pc hpc hc
          · exact hr0
        · intro pc hpc r hc
          rcases memb pc hpc with ⟨hpc, _⟩ | rfl
          · exact hres pc hpc r hc
          · rcases hc with hc | hc | hc <;> cases hc
  | wantIn =>
    simp only [hsStep] at hst'
    split at hst'
    · cases hst'
    · cases hst'
      have hr0 := hpre _ hth (Or.inl rfl)
      refine ⟨hle, hbef, haft, cntNew _ (by simp [inHm]), ?_, ?_⟩
      · intro pc hpc hc
        rcases memb pc hpc with ⟨hpc, _⟩ | rfl
        · exact hpre pc hpc hc
        · exact hr0
      · intro pc hpc r hc
        rcases memb pc hpc with ⟨hpc, _⟩ | rfl
        · exact hres pc hpc r hc
        · rcases hc with hc | hc | hc <;> cases hc
  | running =>
    simp only [hsStep] at hst'
    cases hst'
    have hr0 : ash.runs = 0 := hpre _ hth (Or.inr rfl)
    obtain ⟨hs0, he0⟩ := hbef hr0
    have hout := othersOut (by simp [inHm])
    refine ⟨by simp [hr0], by simp, ?_, cntNew _ (by simp [inHm]), ?_, ?_⟩
    · intro _; simp [hr0, hs0]
    · intro pc hpc hc
      rcases memb pc hpc with ⟨_, hpc⟩ | rfl
      · have := hout pc hpc
        rcases hc with rfl | rfl <;> simp [inHm] at this
      · rcases hc with hc | hc <;> cases hc
    · intro pc hpc r hc
      rcases memb pc hpc with ⟨hpc, _⟩ | rfl
      · have := (hres pc hpc r hc).1; omega
      · rcases hc with hc | hc | hc <;> cases hc
        simp [hr0]
  | relIn r =>
    simp only [hsStep] at hst'
    cases hst'
    have hr := hres _ hth r (Or.inl rfl)
    refine ⟨hle, hbef, haft, cntNew _ (by simp [inHm]), ?_, ?_⟩
    · intro pc hpc hc
      rcases memb pc hpc with ⟨hpc, _⟩ | rfl
      · exact hpre pc hpc hc
      · rcases hc with hc | hc <;> cases hc
    · intro pc hpc r' hc
      rcases memb pc hpc with ⟨hpc, _⟩ | rfl
      · exact hres pc hpc r' hc
      · rcases hc with hc | hc | hc <;> cases hc
        exact hr
  | relHm r =>
    simp only [hsStep] at hst'
    cases hst'
    have hr := hres _ hth r (Or.inr (Or.inl rfl))
    have hhm : ash.hm = true := by
      rw [filter_len_split] at hcnt
      cases hh : ash.hm with
      | true => rfl
      | false => rw [hh] at hcnt; simp [inHm] at hcnt
    refine ⟨hle, hbef, haft, cntNew _ (by simp [inHm, hhm]), ?_, ?_⟩
    · intro pc hpc hc
      rcases memb pc hpc with ⟨hpc, _⟩ | rfl
      · exact hpre pc hpc hc
      · rcases hc with hc | hc <;> cases hc
    · intro pc hpc r' hc
      rcases memb pc hpc with ⟨hpc, _⟩ | rfl
      · exact hres pc hpc r' hc
      · rcases hc with hc | hc | hc <;> cases hc
        exact hr
  | done r =>
    simp only [hsStep] at hst'
    cases hst'

def hsInit (outcome : Nat → Option ε) (n : Nat) : State (HsM ε true outcome) :=
  ⟨List.replicate n .start, {}⟩

theorem hinv_reach (outcome : Nat → Option ε) (n : Nat) (s : State (HsM ε true outcome))
    (hr : Reach _ (hsInit outcome n) s) : HInv outcome s := by
  refine Reach.inv (HInv outcome) hr ?_ (fun a b h st => hinv_step outcome a b h st)
  refine ⟨by simp [hsInit], by simp [hsInit], by simp [hsInit], ?_, ?_, ?_⟩
  · have : (hsInit outcome n).ths.filter inHm = [] := by
      apply List.filter_eq_nil_iff.mpr
      intro u hu
      simp only [hsInit, List.mem_replicate] at hu
      simp [hu.2, inHm]
    rw [this]; simp [hsInit]
  · intro pc hpc hc
    simp only [hsInit, List.mem_replicate] at hpc
    rcases hc with hc | hc <;> rw [hpc.2] at hc <;> cases hc
  · intro pc hpc r hc
    simp only [hsInit, List.mem_replicate] at hpc
    rcases hc with hc | hc | hc <;> rw [hpc.2] at hc <;> cases hc

end Handshake

/-! ## activeCall interlock -/
section ActiveCall

def isIn : AcPc → Bool | .wIn => true | _ => false
def isWon : AcPc → Bool | .cWon _ => true | _ => false

structure AInv (s : State AcM) : Prop where
  /-- a value loaded for a CAS was seen with the closed bit clear -/
  loaded : ∀ pc ∈ s.ths, ∀ x, (pc = .wCas x ∨ pc = .cCas x) → x % 2 = 0
  /-- activeCall = 2 · (calls in flight) + (closed bit) -/
  value : s.sh = 2 * ((s.ths.filter isIn).length : Int) + ((s.ths.filter isWon).length : Int)
  once : (s.ths.filter isWon).length ≤ 1

theorem ainv_step (a b : State AcM) (h : AInv a) (st : Step AcM a b) :
    AInv b ∧ (a.sh % 2 = 1 → b.sh % 2 = 1 ∧ (b.ths.filter isIn).length ≤ (a.ths.filter isIn).length) := by
  obtain ⟨pre, th, post, th', hs, hst, hs'⟩ := step_split st
  obtain ⟨bths, bsh⟩ := b
  obtain ⟨aths, ash⟩ := a
  simp only at hs hs' hst
  subst hs; subst hs'
  have hst' : acStep (pre ++ post) ash th = some (th', bsh) := hst
  clear hst
  obtain ⟨hl, hv, ho⟩ := h
  simp only at hl hv ho
  have hth : th ∈ pre ++ th :: post := by simp
  have memb : ∀ u, u ∈ pre ++ th' :: post → u ∈ pre ++ th :: post ∨ u = th' := by
    intro u hu
    rcases List.mem_append.mp hu with hu | hu
    · exact Or.inl (List.mem_append_left _ hu)
    · rcases List.mem_cons.mp hu with rfl | hu
      · exact Or.inr rfl
      · exact Or.inl (List.mem_append_right _ (List.mem_cons_of_mem _ hu))
  rw [filter_len_split] at ho
  rw [filter_len_split, filter_len_split] at hv
  simp only
  rw [filter_len_split isIn pre post th', filter_len_split isIn pre post th]
  have build : ∀ (hl' : ∀ x, (th' = .wCas x ∨ th' = .cCas x) → x % 2 = 0)
      (hv' : bsh = 2 * (((pre.filter isIn).length + (if isIn th' then 1 else 0) + (post.filter isIn).length : Nat) : Int) +
        (((pre.filter isWon).length + (if isWon th' then 1 else 0) + (post.filter isWon).length : Nat) : Int))
      (ho' : (pre.filter isWon).length + (if isWon th' then 1 else 0) + (post.filter isWon).length ≤ 1),
      AInv (⟨pre ++ th' :: post, bsh⟩ : State AcM) := by
    intro hl' hv' ho'
    refine ⟨?_, ?_, ?_⟩
    · intro pc hpc x hc
      rcases memb pc hpc with hpc | rfl
      · exact hl pc hpc x hc
      · exact hl' x hc
    · simp only; rw [filter_len_split, filter_len_split]; exact hv'
    · simp only; rw [filter_len_split]; exact ho'
  cases th with
  | wLoad =>
    simp only [acStep] at hst'
    split at hst'
    · cases hst'
      refine ⟨build ?_ ?_ ?_, ?_⟩
      · intro x hc; rcases hc with hc | hc <;> cases hc
      · simpa [isIn, isWon] using hv
      · simpa [isWon] using ho
      · intro hodd; exact ⟨hodd, by simp [isIn]⟩
    · rename_i hev
      cases hst'
      refine ⟨build ?_ ?_ ?_, ?_⟩
      · intro x hc
        rcases hc with hc | hc <;> cases hc
        omega
      · simpa [isIn, isWon] using hv
      · simpa [isWon] using ho
      · intro hodd; exact ⟨hodd, by simp [isIn]⟩
  | wCas x =>
    have hx := hl _ hth x (Or.inl rfl)
    simp only [acStep] at hst'
    split at hst'
    · rename_i heq
      cases hst'
      refine ⟨build ?_ ?_ ?_, ?_⟩
      · intro x hc; rcases hc with hc | hc <;> cases hc
      · simp [isIn, isWon] at hv ⊢; omega
      · simpa [isWon] using ho
      · intro hodd; omega
    · cases hst'
      refine ⟨build ?_ ?_ ?_, ?_⟩
      · intro x hc; rcases hc with hc | hc <;> cases hc
      · simpa [isIn, isWon] using hv
      · simpa [isWon] using ho
      · intro hodd; exact ⟨hodd, by simp [isIn]⟩
  | wIn =>
    simp only [acStep] at hst'
    cases hst'
    refine ⟨build ?_ ?_ ?_, ?_⟩
    · intro x hc; rcases hc with hc | hc <;> cases hc
    · simp [isIn, isWon] at hv ⊢; omega
    · simpa [isWon] using ho
    · intro hodd; refine ⟨by omega, by simp [isIn]⟩
  | cLoad =>
    simp only [acStep] at hst'
    split at hst'
    · cases hst'
      refine ⟨build ?_ ?_ ?_, ?_⟩
      · intro x hc; rcases hc with hc | hc <;> cases hc
      · simpa [isIn, isWon] using hv
      · simpa [isWon] using ho
      · intro hodd; exact ⟨hodd, by simp [isIn]⟩
    · rename_i hev
      cases hst'
      refine ⟨build ?_ ?_ ?_, ?_⟩
      · intro x hc
        rcases hc with hc | hc <;> cases hc
        omega
      · simpa [isIn, isWon] using hv
      · simpa [isWon] using ho
      · intro hodd; exact ⟨hodd, by simp [isIn]⟩
  | cCas x =>
    have hx := hl _ hth x (Or.inr rfl)
    simp only [acStep] at hst'
    split at hst'
    · rename_i heq
      cases hst'
      refine ⟨build ?_ ?_ ?_, ?_⟩
      · intro x hc; rcases hc with hc | hc <;> cases hc
      · simp [isIn, isWon] at hv ⊢; omega
      · simp [isIn, isWon] at hv ho ⊢; omega
      · intro hodd; omega
    · cases hst'
      refine ⟨build ?_ ?_ ?_, ?_⟩
      · intro x hc; rcases hc with hc | hc <;> cases hc
      · simpa [isIn, isWon] using hv
      · simpa [isWon] using ho
      · intro hodd; exact ⟨hodd, by simp [isIn]⟩
  | wOut => simp only [acStep] at hst'; cases hst'
  | wRefused => simp only [acStep] at hst'; cases hst'
  | cWon x => simp only [acStep] at hst'; cases hst'
  | cRefused => simp only [acStep] at hst'; cases hst'

/-- `w` Write-like calls and `c` Close calls about to start on a fresh connection -/
def acInit (w c : Nat) : State AcM := ⟨List.replicate w .wLoad ++ List.replicate c .cLoad, 0⟩

theorem ainv_init (w c : Nat) : AInv (acInit w c) := by
  have e1 : (acInit w c).ths.filter isIn = [] := by
    apply List.filter_eq_nil_iff.mpr
    intro u hu
    simp only [acInit, List.mem_append, List.mem_replicate] at hu
    rcases hu with hu | hu <;> simp [hu.2, isIn]
  have e2 : (acInit w c).ths.filter isWon = [] := by
    apply List.filter_eq_nil_iff.mpr
    intro u hu
    simp only [acInit, List.mem_append, List.mem_replicate] at hu
    rcases hu with hu | hu <;> simp [hu.2, isWon]
  refine ⟨?_, ?_, ?_⟩
  · intro pc hpc x hc
    simp only [acInit, List.mem_append, List.mem_replicate] at hpc
    rcases hpc with hpc | hpc <;> rcases hc with hc | hc <;> rw [hpc.2] at hc <;> cases hc
  · rw [e1, e2]; simp [acInit]
  · rw [e2]; simp

theorem ainv_reach (w c : Nat) (s : State AcM) (hr : Reach AcM (acInit w c) s) : AInv s :=
  Reach.inv AInv hr (ainv_init w c) (fun a b h st => (ainv_step a b h st).1)

/-- once the closed bit is set it stays set and the number of calls inside never grows -/
theorem closed_forever (s t : State AcM) (hs : AInv s) (hodd : s.sh % 2 = 1) (hr : Reach AcM s t) :
    AInv t ∧ t.sh % 2 = 1 ∧ (t.ths.filter isIn).length ≤ (s.ths.filter isIn).length := by
  induction hr with
  | refl => exact ⟨hs, hodd, Nat.le_refl _⟩
  | tail _ st ih =>
    obtain ⟨hi, ho, hn⟩ := ih
    obtain ⟨hi', hrest⟩ := ainv_step _ _ hi st
    obtain ⟨ho', hn'⟩ := hrest ho
    exact ⟨hi', ho', Nat.le_trans hn' hn⟩

end ActiveCall

/-! ## sequences of API calls -/

theorem ordered_append {α : Type} (rank : Nat → Nat) (p q : List (Act α)) :
    ∀ held, ordered rank held p = true → ordered rank [] q = true → ordered rank held (p ++ q) = true := by
  induction p with
  | nil =>
    intro held h hq
    simp only [ordered, List.isEmpty_iff] at h
    subst h; exact hq
  | cons a p ih =>
    intro held h hq
    cases a <;> simp only [List.cons_append, ordered, Bool.and_eq_true] at h ⊢
    · exact ⟨h.1, ih _ h.2 hq⟩
    · exact ⟨h.1, ih _ h.2 hq⟩
    all_goals exact ih _ h hq

/-- a goroutine that performs a sequence of API calls, each call being one of the extracted
per-method programs -/
def callerThread (calls : List (List (Nat × Nat))) : Thread Unit :=
  { prog := (calls.map (ofEvents Unit)).flatten }

theorem ordered_calls (progs : List (List (Nat × Nat)))
    (hp : ∀ p ∈ progs, ordered id [] (ofEvents Unit p) = true) :
    ∀ calls : List (List (Nat × Nat)), (∀ c ∈ calls, c ∈ progs) →
      ordered id [] ((calls.map (ofEvents Unit)).flatten) = true := by
  intro calls
  induction calls with
  | nil => intro _; rfl
  | cons c cs ih =>
    intro h
    simp only [List.map_cons, List.flatten_cons]
    exact ordered_append id _ _ [] (hp c (h c (by simp))) (ih (fun c' hc' => h c' (by simp [hc'])))


/-! ## a thread that needs no mutex held by parked threads runs on its own -/
section Solo
variable {α : Type}

theorem Reach.trans {M : Machine} {a b c : State M} (h1 : Reach M a b) (h2 : Reach M b c) : Reach M a c := by
  induction h2 with
  | refl => exact h1
  | tail _ st ih => exact Reach.tail ih st

/-- mutexes a program acquires -/
def acquires : List (Act α) → List Nat
  | [] => []
  | .acq l :: p => l :: acquires p
  | _ :: p => acquires p

/-- one enabled step of an ordered thread whose next action needs no mutex held by the others -/
theorem solo_step (rank : Nat → Nat) (o : List (Thread α)) (sh : Shared α) (th : Thread α)
    (act : Act α) (p : List (Act α)) (hp : th.prog = act :: p)
    (hord : ordered rank th.held th.prog = true)
    (hfree : ∀ u ∈ o, ∀ l ∈ u.held, l ∉ acquires [act]) :
    ∃ th' sh', lockStep o sh th = some (th', sh') ∧ th'.prog = p := by
  unfold lockStep
  rw [hp]
  cases act with
  | acq l =>
    have h1 : (o.all fun u => !holds l u) = true := by
      simp only [List.all_eq_true, Bool.not_eq_true', holds]
      intro u hu
      cases hc : u.held.contains l with
      | false => rfl
      | true =>
        have : l ∈ u.held := by simpa using hc
        exact absurd (by simp [acquires]) (hfree u hu l this)
    have h2 : holds l th = false := by
      rw [hp] at hord
      simp only [ordered, Bool.and_eq_true, List.all_eq_true, decide_eq_true_eq] at hord
      cases hc : holds l th with
      | false => rfl
      | true =>
        have : l ∈ th.held := by simpa [holds] using hc
        have := hord.1 l this
        omega
    simp only [h1, h2, Bool.not_false, Bool.and_self, if_true]
    exact ⟨_, _, rfl, rfl⟩
  | rel l => exact ⟨_, _, rfl, rfl⟩
  | emit x => exact ⟨_, _, rfl, rfl⟩
  | copy n => exact ⟨_, _, rfl, rfl⟩
  | advance => exact ⟨_, _, rfl, rfl⟩
  | skip => exact ⟨_, _, rfl, rfl⟩

theorem acquires_cons_sub (act : Act α) (p : List (Act α)) (l : Nat) :
    (l ∈ acquires [act] → l ∈ acquires (act :: p)) ∧ (l ∈ acquires p → l ∈ acquires (act :: p)) := by
  cases act <;> simp [acquires] <;> exact ⟨Or.inl, Or.inr⟩

/-- a thread whose next `pre` actions acquire only mutexes that no OTHER thread holds can run
through `pre` on its own, whatever the others are parked on -/
theorem solo_run (rank : Nat → Nat) (a b : List (Thread α)) :
    ∀ (pre rest : List (Act α)) (th : Thread α) (sh : Shared α),
      th.prog = pre ++ rest → ordered rank th.held th.prog = true →
      (∀ u ∈ a ++ b, ∀ l ∈ u.held, l ∉ acquires pre) →
      ∃ th' sh', Reach (LockM α) ⟨a ++ th :: b, sh⟩ ⟨a ++ th' :: b, sh'⟩ ∧ th'.prog = rest := by
  intro pre
  induction pre with
  | nil => intro rest th sh hp _ _; exact ⟨th, sh, Reach.refl _, by simpa using hp⟩
  | cons act pre ih =>
    intro rest th sh hp hord hfree
    have hp' : th.prog = act :: (pre ++ rest) := by simpa using hp
    obtain ⟨th1, sh1, hst, hp1⟩ := solo_step rank (a ++ b) sh th act (pre ++ rest) hp' hord
      (fun u hu l hl hc => hfree u hu l hl ((acquires_cons_sub act pre l).1 hc))
    have hord1 := lockStep_ordered rank _ _ _ _ _ hst hord
    have step1 : Step (LockM α) ⟨a ++ th :: b, sh⟩ ⟨a ++ th1 :: b, sh1⟩ :=
      Step.mk a.length (stepAt_of_split (M := LockM α) ⟨a ++ th :: b, sh⟩ a b th th1 sh1 rfl hst)
    obtain ⟨th', sh', hr, hp2⟩ := ih rest th1 sh1 hp1 hord1
      (fun u hu l hl hc => hfree u hu l hl ((acquires_cons_sub act pre l).2 hc))
    exact ⟨th', sh', Reach.trans (Reach.tail (Reach.refl _) step1) hr, hp2⟩

end Solo

theorem ofEvents_append (α : Type) (x y : List (Nat × Nat)) :
    ofEvents α (x ++ y) = ofEvents α x ++ ofEvents α y := by
  induction x with
  | nil => rfl
  | cons e x ih =>
    obtain ⟨k, l⟩ := e
    match k with
    | 0 => simp [ofEvents, ih]
    | 1 => simp [ofEvents, ih]
    | k + 2 => simp [ofEvents, ih]


end Gotlcp.Lemmas.Locks

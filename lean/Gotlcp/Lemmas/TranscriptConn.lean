/-
The connection (record layer) and the global run only ever drive the handshake layer through
`HS.onMsg` (with messages split off the handshake buffer, hence well framed), `HS.onCCS` and
`HS.fail`; a connection reports `done` only when its handshake layer is `done`.
Core Lean only.
-/
import Gotlcp.Lemmas.TranscriptDone

set_option linter.unusedSimpArgs false
set_option linter.unusedVariables false

namespace Gotlcp.Lemmas.Transcript
open Gotlcp.Model.Transcript

variable {P : Prims} {k : Codes} {f : TFlags} {W : World P}

/-- the connection invariant -/
structure ConnOK (k : Codes) (f : TFlags) (W : World P) (r : Role) (c : Conn P) : Prop where
  reach : ReachR k f W r c.hs
  done : c.status = .done → c.hs.ctl = .done
  /-- when `handshake()` marks completion as its last step, the mark and the result agree -/
  mark : f.doneMarkedLast = true → (c.marked = true ↔ c.status = .done)

theorem flushEntries_hs : ∀ (l : List Entry) (c : Conn P),
    (Conn.flushEntries k c l).hs = c.hs ∧ (Conn.flushEntries k c l).status = c.status ∧
    (Conn.flushEntries k c l).marked = c.marked
  | [], c => ⟨rfl, rfl, rfl⟩
  | .msg true m :: r, c => by simp only [Conn.flushEntries]; exact flushEntries_hs r _
  | .msg false m :: r, c => by simp only [Conn.flushEntries]; exact flushEntries_hs r _
  | .ccs true :: r, c => by simp only [Conn.flushEntries]; exact flushEntries_hs r _
  | .ccs false :: r, c => by simp only [Conn.flushEntries]; exact flushEntries_hs r _

theorem failLocal_ok {r : Role} {c : Conn P} (h : ConnOK k f W r c) (hrun : c.status = .running) (a : Nat) :
    ConnOK k f W r (Conn.failLocal k c a) :=
  ⟨h.reach, by intro hd; simp [Conn.failLocal] at hd, by
    intro hm
    have := (h.mark hm)
    simp [Conn.failLocal, hrun] at this ⊢
    exact this⟩

/-- `sync` after the handshake layer moved to a reachable state -/
theorem sync_ok {r : Role} {c : Conn P} (hr : ReachR k f W r c.hs) (hst : c.status = .running)
    (hmk : f.doneMarkedLast = true → c.marked = false) :
    ConnOK k f W r (Conn.sync k f c) := by
  unfold Conn.sync
  simp only []
  -- the early mark of the defect branch
  have h0 : ∀ c0 : Conn P, c0 = (if (!f.doneMarkedLast && decide (c.hs.ctl = .done)) = true then { c with marked := true } else c) →
      c0.hs = c.hs ∧ c0.status = c.status ∧ (f.doneMarkedLast = true → c0.marked = false) := by
    intro c0 hc0
    subst hc0
    split
    · rename_i hcond
      refine ⟨rfl, rfl, fun hm => ?_⟩
      simp [hm] at hcond
    · exact ⟨rfl, rfl, hmk⟩
  generalize (if (!f.doneMarkedLast && decide (c.hs.ctl = .done)) = true then { c with marked := true } else c) = c0 at h0 ⊢
  obtain ⟨a1, a2, a3⟩ := h0 c0 rfl
  split
  · refine ⟨by simpa [a1] using hr, fun hd => by simp at hd, fun hm => ?_⟩
    simp [a3 hm]
  · have h1 := flushEntries_hs (k := k) (c0.hs.log.drop c0.flushed) c0
    generalize Conn.flushEntries k c0 (c0.hs.log.drop c0.flushed) = c1 at h1
    obtain ⟨e1, e2, e3⟩ := h1
    split
    · rename_i hctl
      exact ⟨by simpa [e1, a1] using hr, fun _ => by simpa [e1] using hctl, fun _ => by simp⟩
    · rename_i a hctl
      split
      · refine ⟨by simpa [Conn.failLocal, e1, a1] using hr, fun hd => ?_, fun hm => ?_⟩
        · simp [Conn.failLocal] at hd
        · simp [Conn.failLocal, e3, a3 hm]
      · rename_i hns
        exact absurd (by simp [e2, a2, hst]) hns
    · rename_i hn1 hn2
      refine ⟨by simpa [e1, a1] using hr, fun hd => ?_, fun hm => ?_⟩
      · simp [e2, a2, hst] at hd
      · simp [e2, e3, a2, a3 hm, hst]

theorem pump_reach {r : Role} : ∀ (n : Nat) (c : Conn P), ReachR k f W r c.hs → ReachR k f W r (Conn.pump k f W c n).hs
  | 0, c, h => h
  | n + 1, c, h => by
    unfold Conn.pump
    split
    · exact h
    · exact h
    · split
      · split
        · exact ReachR.fail _ h
        · split
          · exact h
          · rename_i m rest hsp
            exact pump_reach n _ (ReachR.msg m h (splitMsg_wellFramed hsp).1)
      · exact h

theorem pump_status : ∀ (n : Nat) (c : Conn P), (Conn.pump k f W c n).status = c.status
  | 0, c => rfl
  | n + 1, c => by
    unfold Conn.pump
    split
    · rfl
    · rfl
    · split
      · split
        · rfl
        · split
          · rfl
          · rw [pump_status n]
      · rfl

/-- a running connection is not marked complete (when the mark is the last step) -/
theorem ConnOK.unmarked {r : Role} {c : Conn P} (h : ConnOK k f W r c) (hrun : c.status = .running) :
    f.doneMarkedLast = true → c.marked = false := by
  intro hm
  have := h.mark hm
  simp [hrun] at this
  exact this

theorem pump_marked : ∀ (n : Nat) (c : Conn P), (Conn.pump k f W c n).marked = c.marked
  | 0, c => rfl
  | n + 1, c => by
    unfold Conn.pump
    split
    · rfl
    · rfl
    · split
      · split
        · rfl
        · split
          · rfl
          · rw [pump_marked n]
      · rfl

theorem init_ok (r : Role) : ConnOK k f W r (Conn.init k f W r) := by
  show ConnOK k f W r (Conn.sync k f _)
  exact sync_ok ReachR.init rfl (fun _ => rfl)

theorem onAlert_ok {r : Role} {c : Conn P} (h : ConnOK k f W r c) (hrun : c.status = .running) (data : Bytes) :
    ConnOK k f W r (Conn.onAlert k c data) := by
  have hu := h.unmarked hrun
  unfold Conn.onAlert
  split
  · split
    · exact ⟨h.reach, by intro hd; simp at hd, fun hm => by simp [hu hm]⟩
    · split
      · split
        · exact failLocal_ok h hrun _
        · exact ⟨h.reach, by intro hd; simp [hrun] at hd, fun hm => by simp [hu hm, hrun]⟩
      · split
        · exact ⟨h.reach, by intro hd; simp at hd, fun hm => by simp [hu hm]⟩
        · exact failLocal_ok h hrun _
  · exact failLocal_ok h hrun _

theorem onCCSRecord_ok {r : Role} {c : Conn P} (h : ConnOK k f W r c) (hrun : c.status = .running) (data : Bytes) :
    ConnOK k f W r (Conn.onCCSRecord k f c data) := by
  unfold Conn.onCCSRecord
  split
  · exact failLocal_ok h hrun _
  · split
    · exact failLocal_ok h hrun _
    · split
      · exact failLocal_ok h hrun _
      · exact sync_ok (ReachR.ccs h.reach) hrun (h.unmarked hrun)

theorem onHandshakeRecord_ok {r : Role} {c : Conn P} (h : ConnOK k f W r c) (hrun : c.status = .running) (data : Bytes) :
    ConnOK k f W r (Conn.onHandshakeRecord k f W c data) := by
  unfold Conn.onHandshakeRecord
  split
  · exact failLocal_ok h hrun _
  · apply sync_ok
    · exact pump_reach _ _ h.reach
    · rw [pump_status]; exact hrun
    · rw [pump_marked]; exact h.unmarked hrun

theorem dispatch_ok {r : Role} {c : Conn P} (h : ConnOK k f W r c) (hrun : c.status = .running) (typ : Nat) (data : Bytes) :
    ConnOK k f W r (Conn.dispatch k f W c typ data) := by
  unfold Conn.dispatch
  split
  · exact failLocal_ok h hrun _
  · split
    · exact onAlert_ok h hrun _
    · split
      · exact onCCSRecord_ok h hrun _
      · split
        · exact failLocal_ok h hrun _
        · split
          · exact onHandshakeRecord_ok h hrun _
          · exact failLocal_ok h hrun _

theorem headerCheck_ok {r : Role} {c c' : Conn P} (h : ConnOK k f W r c) (hrun : c.status = .running) {rec : Record}
    (hc : Conn.headerCheck k f c rec = some c') : ConnOK k f W r c' := by
  unfold Conn.headerCheck at hc
  by_cases h1 : (if f.versCheckedOnlyWhenHave = true then c.haveVers else true) = true ∧ rec.vers ≠ k.vers
  · rw [if_pos h1] at hc
    simp only [Option.some.injEq] at hc; rw [← hc]; exact failLocal_ok h hrun _
  · rw [if_neg h1] at hc
    by_cases h2 : ¬ c.haveVers = true ∧ ((rec.typ ≠ k.rtAlert ∧ rec.typ ≠ k.rtHS) ∨ rec.vers ≥ 4096)
    · rw [if_pos h2] at hc
      simp only [Option.some.injEq] at hc; rw [← hc]
      exact ⟨h.reach, by intro hd; simp at hd, fun hm => by simp [h.unmarked hrun hm]⟩
    · rw [if_neg h2] at hc
      by_cases h3 : rec.payload.length > k.maxCiphertext
      · rw [if_pos h3] at hc
        simp only [Option.some.injEq] at hc; rw [← hc]; exact failLocal_ok h hrun _
      · rw [if_neg h3] at hc; cases hc

/-- the implicit cipher switch of the defect branch keeps the invariant (it is a `skip` move) -/
theorem implicitSwitch_ok {r : Role} {c : Conn P} (h : ConnOK k f W r c) (hrun : c.status = .running) (rec : Record) :
    ConnOK k f W r (Conn.implicitSwitch k f c rec) ∧ (Conn.implicitSwitch k f c rec).status = .running := by
  unfold Conn.implicitSwitch
  split
  · refine ⟨⟨ReachR.skip h.reach, fun hd => ?_, fun hm => ?_⟩, hrun⟩
    · simp [hrun] at hd
    · simpa using h.mark hm
  · exact ⟨h, hrun⟩

theorem deliver_ok {r : Role} {c : Conn P} (h : ConnOK k f W r c) (rec : Record) :
    ConnOK k f W r (Conn.deliver k f W c rec) := by
  unfold Conn.deliver
  split
  · exact h
  · rename_i hrun
    have hrun' : c.status = .running := by simpa using hrun
    split
    · rename_i c' hc; exact headerCheck_ok h hrun' hc
    · obtain ⟨hi, hirun⟩ := implicitSwitch_ok h hrun' rec
      simp only []
      generalize Conn.implicitSwitch k f c rec = ci at hi hirun
      split
      · exact failLocal_ok hi hirun _
      · rename_i data seq _
        exact dispatch_ok (c := { ci with inSeq := seq }) ⟨hi.reach, hi.done, hi.mark⟩ hirun _ _

/-! ### the global run: whatever the attacker does -/

structure GlobalOK (k : Codes) (f : TFlags) (W : World P) (g : Global P) : Prop where
  c : ConnOK k f W .client g.c
  s : ConnOK k f W .server g.s

theorem global_init_ok : GlobalOK k f W (Global.init k f W) := ⟨init_ok _, init_ok _⟩

/-- closing an endpoint's transport changes nothing the invariant talks about -/
theorem wbroken_ok {r : Role} {c : Conn P} (h : ConnOK k f W r c) (b : Bool) : ConnOK k f W r { c with wbroken := b } :=
  ⟨h.reach, h.done, h.mark⟩

theorem global_step_ok {att : Attacker} {g g' : Global P} (h : GlobalOK k f W g)
    (hs : Global.step k f W att g = some g') : GlobalOK k f W g' := by
  unfold Global.step at hs
  simp only [] at hs
  split at hs
  · cases hs
  · simp only [Option.some.injEq] at hs; rw [← hs]; exact ⟨deliver_ok (wbroken_ok h.c _) _, wbroken_ok h.s _⟩
  · simp only [Option.some.injEq] at hs; rw [← hs]; exact ⟨wbroken_ok h.c _, deliver_ok (wbroken_ok h.s _) _⟩

theorem global_run_ok (att : Attacker) : ∀ (n : Nat) (g : Global P), GlobalOK k f W g →
    GlobalOK k f W (Global.run k f W att n g)
  | 0, g, h => h
  | n + 1, g, h => by
    unfold Global.run
    split
    · exact h
    · rename_i g' hs
      exact global_run_ok att n g' (global_step_ok h hs)

/-- the invariant rules out the two panics of `handshakeContext` -/
theorem ConnOK.no_panic {r : Role} {c : Conn P} (h : ConnOK k f W r c) (hm : f.doneMarkedLast = true) :
    c.panics = false := by
  have := h.mark hm
  unfold Conn.panics
  split
  · rename_i cls hst
    simp [hst] at this
    exact this
  · rename_i hst
    simp [hst] at this
    simp [this]
  · rfl

end Gotlcp.Lemmas.Transcript

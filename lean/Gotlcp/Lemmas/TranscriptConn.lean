/-
The connection (record layer) and the global run only ever drive the handshake layer through
`HS.onMsg` (with messages split off the handshake buffer, hence well framed), `HS.onCCS` and
`HS.fail`; a connection reports `done` only when its handshake layer is `done`.
Core Lean only.
-/
import Gotlcp.Lemmas.TranscriptDone

set_option linter.unusedSimpArgs false
set_option linter.unusedVariables false

namespace Gotlcp.Lemmas.Transcript
open Gotlcp.Model.Transcript

variable {P : Prims} {k : Codes} {f : TFlags} {W : World P}

/-- the connection invariant -/
structure ConnOK (k : Codes) (f : TFlags) (W : World P) (r : Role) (c : Conn P) : Prop where
  reach : ReachR k f W r c.hs
  done : c.status = .done → c.hs.ctl = .done

theorem flushEntries_hs : ∀ (l : List Entry) (c : Conn P),
    (Conn.flushEntries k c l).hs = c.hs ∧ (Conn.flushEntries k c l).status = c.status
  | [], c => ⟨rfl, rfl⟩
  | .msg true m :: r, c => by simp only [Conn.flushEntries]; exact flushEntries_hs r _
  | .msg false m :: r, c => by simp only [Conn.flushEntries]; exact flushEntries_hs r _
  | .ccs true :: r, c => by simp only [Conn.flushEntries]; exact flushEntries_hs r _
  | .ccs false :: r, c => by simp only [Conn.flushEntries]; exact flushEntries_hs r _

theorem failLocal_ok {r : Role} {c : Conn P} (h : ConnOK k f W r c) (a : Nat) : ConnOK k f W r (Conn.failLocal k c a) :=
  ⟨h.reach, by intro hd; simp [Conn.failLocal] at hd⟩

/-- `sync` after the handshake layer moved to a reachable state -/
theorem sync_ok {r : Role} {c : Conn P} (hr : ReachR k f W r c.hs) (hst : c.status = .running) :
    ConnOK k f W r (Conn.sync k c) := by
  unfold Conn.sync
  simp only []
  have h1 := flushEntries_hs (k := k) (c.hs.log.drop c.flushed) c
  generalize Conn.flushEntries k c (c.hs.log.drop c.flushed) = c1 at h1
  obtain ⟨e1, e2⟩ := h1
  split
  · rename_i hctl
    exact ⟨by simpa [e1] using hr, fun _ => by simpa [e1] using hctl⟩
  · rename_i a hctl
    split
    · refine ⟨by simpa [Conn.failLocal, e1] using hr, fun hd => ?_⟩
      simp [Conn.failLocal] at hd
    · rename_i hns
      exact absurd (by simp [e2, hst]) hns
  · rename_i hn1 hn2
    refine ⟨by simpa [e1] using hr, fun hd => ?_⟩
    simp [e2, hst] at hd

theorem pump_reach {r : Role} : ∀ (n : Nat) (c : Conn P), ReachR k f W r c.hs → ReachR k f W r (Conn.pump k f W c n).hs
  | 0, c, h => h
  | n + 1, c, h => by
    unfold Conn.pump
    split
    · exact h
    · exact h
    · split
      · split
        · exact ReachR.fail _ h
        · split
          · exact h
          · rename_i m rest hsp
            exact pump_reach n _ (ReachR.msg m h (splitMsg_wellFramed hsp).1)
      · exact h

theorem pump_status : ∀ (n : Nat) (c : Conn P), (Conn.pump k f W c n).status = c.status
  | 0, c => rfl
  | n + 1, c => by
    unfold Conn.pump
    split
    · rfl
    · rfl
    · split
      · split
        · rfl
        · split
          · rfl
          · rw [pump_status n]
      · rfl

theorem init_ok (r : Role) : ConnOK k f W r (Conn.init k W r) := by
  show ConnOK k f W r (Conn.sync k _)
  exact sync_ok ReachR.init rfl

theorem onAlert_ok {r : Role} {c : Conn P} (h : ConnOK k f W r c) (hrun : c.status = .running) (data : Bytes) :
    ConnOK k f W r (Conn.onAlert k c data) := by
  unfold Conn.onAlert
  split
  · split
    · exact ⟨h.reach, by intro hd; simp at hd⟩
    · split
      · split
        · exact failLocal_ok h _
        · exact ⟨h.reach, by intro hd; simp [hrun] at hd⟩
      · split
        · exact ⟨h.reach, by intro hd; simp at hd⟩
        · exact failLocal_ok h _
  · exact failLocal_ok h _

theorem onCCSRecord_ok {r : Role} {c : Conn P} (h : ConnOK k f W r c) (hrun : c.status = .running) (data : Bytes) :
    ConnOK k f W r (Conn.onCCSRecord k f c data) := by
  unfold Conn.onCCSRecord
  split
  · exact failLocal_ok h _
  · split
    · exact failLocal_ok h _
    · split
      · exact failLocal_ok h _
      · exact sync_ok (ReachR.ccs h.reach) hrun

theorem onHandshakeRecord_ok {r : Role} {c : Conn P} (h : ConnOK k f W r c) (hrun : c.status = .running) (data : Bytes) :
    ConnOK k f W r (Conn.onHandshakeRecord k f W c data) := by
  unfold Conn.onHandshakeRecord
  split
  · exact failLocal_ok h _
  · apply sync_ok
    · exact pump_reach _ _ h.reach
    · rw [pump_status]; exact hrun

theorem dispatch_ok {r : Role} {c : Conn P} (h : ConnOK k f W r c) (hrun : c.status = .running) (typ : Nat) (data : Bytes) :
    ConnOK k f W r (Conn.dispatch k f W c typ data) := by
  unfold Conn.dispatch
  split
  · exact failLocal_ok h _
  · split
    · exact onAlert_ok h hrun _
    · split
      · exact onCCSRecord_ok h hrun _
      · split
        · exact failLocal_ok h _
        · split
          · exact onHandshakeRecord_ok h hrun _
          · exact failLocal_ok h _

theorem headerCheck_ok {r : Role} {c c' : Conn P} (h : ConnOK k f W r c) {rec : Record}
    (hc : Conn.headerCheck k f c rec = some c') : ConnOK k f W r c' := by
  unfold Conn.headerCheck at hc
  by_cases h1 : (if f.versCheckedOnlyWhenHave = true then c.haveVers else true) = true ∧ rec.vers ≠ k.vers
  · rw [if_pos h1] at hc
    simp only [Option.some.injEq] at hc; rw [← hc]; exact failLocal_ok h _
  · rw [if_neg h1] at hc
    by_cases h2 : ¬ c.haveVers = true ∧ ((rec.typ ≠ k.rtAlert ∧ rec.typ ≠ k.rtHS) ∨ rec.vers ≥ 4096)
    · rw [if_pos h2] at hc
      simp only [Option.some.injEq] at hc; rw [← hc]; exact ⟨h.reach, by intro hd; simp at hd⟩
    · rw [if_neg h2] at hc
      by_cases h3 : rec.payload.length > k.maxCiphertext
      · rw [if_pos h3] at hc
        simp only [Option.some.injEq] at hc; rw [← hc]; exact failLocal_ok h _
      · rw [if_neg h3] at hc; cases hc

theorem deliver_ok {r : Role} {c : Conn P} (h : ConnOK k f W r c) (rec : Record) :
    ConnOK k f W r (Conn.deliver k f W c rec) := by
  unfold Conn.deliver
  split
  · exact h
  · rename_i hrun
    have hrun' : c.status = .running := by simpa using hrun
    split
    · rename_i c' hc; exact headerCheck_ok h hc
    · split
      · exact failLocal_ok h _
      · rename_i data seq _
        exact dispatch_ok (c := { c with inSeq := seq }) ⟨h.reach, h.done⟩ hrun' _ _

/-! ### the global run: whatever the attacker does -/

structure GlobalOK (k : Codes) (f : TFlags) (W : World P) (g : Global P) : Prop where
  c : ConnOK k f W .client g.c
  s : ConnOK k f W .server g.s

theorem global_init_ok : GlobalOK k f W (Global.init k W) := ⟨init_ok _, init_ok _⟩

theorem global_step_ok {att : Attacker} {g g' : Global P} (h : GlobalOK k f W g)
    (hs : Global.step k f W att g = some g') : GlobalOK k f W g' := by
  unfold Global.step at hs
  split at hs
  · cases hs
  · simp only [Option.some.injEq] at hs; rw [← hs]; exact ⟨deliver_ok h.c _, h.s⟩
  · simp only [Option.some.injEq] at hs; rw [← hs]; exact ⟨h.c, deliver_ok h.s _⟩

theorem global_run_ok (att : Attacker) : ∀ (n : Nat) (g : Global P), GlobalOK k f W g →
    GlobalOK k f W (Global.run k f W att n g)
  | 0, g, h => h
  | n + 1, g, h => by
    unfold Global.run
    split
    · exact h
    · rename_i g' hs
      exact global_run_ok att n g' (global_step_ok h hs)

end Gotlcp.Lemmas.Transcript

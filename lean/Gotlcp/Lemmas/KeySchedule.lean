/-
Helper lemmas for C04 (key schedule and record protection): big-endian encoding, the
`pHash` loop invariant, `incSeq` arithmetic, CBC round trip for any block permutation.
Core Lean only (no Mathlib needed).
-/
import Gotlcp.Model.KeyScheduleSrc
import Gotlcp.Spec.KeySchedule

set_option linter.unusedSimpArgs false
set_option linter.unusedVariables false

namespace Gotlcp.Lemmas.KeySchedule
open Gotlcp.Crypto
open Gotlcp.Model.KeySchedule

/-! ### big-endian encoding -/


theorem length_be (k n : Nat) : (be k n).length = k := by
  induction k generalizing n with
  | zero => rfl
  | succ k ih => simp [be, ih]

theorem fromBE_snoc (l : Bytes) (b : UInt8) : fromBE (l ++ [b]) = fromBE l * 256 + b.toNat := by
  simp [fromBE, List.foldl_append]

theorem fromBE_be (k n : Nat) : fromBE (be k n) = n % 256 ^ k := by
  induction k generalizing n with
  | zero => simp [be, fromBE, Nat.mod_one]
  | succ k ih =>
    simp only [be, fromBE_snoc, ih]
    have h1 : (UInt8.ofNat (n % 256)).toNat = n % 256 := by simp
    rw [h1, Nat.pow_succ, Nat.mul_comm (256 ^ k) 256, Nat.mod_mul]
    omega

theorem be_inj (k i j : Nat) (hi : i < 256 ^ k) (hj : j < 256 ^ k) (h : be k i = be k j) : i = j := by
  have := congrArg fromBE h
  rw [fromBE_be, fromBE_be, Nat.mod_eq_of_lt hi, Nat.mod_eq_of_lt hj] at this
  exact this


/-! ### P_hash: the Go loop against the recursive definition -/

section phash


variable (hm : Bytes → Bytes → Bytes) (h : Nat) (secret seed : Bytes)

theorem length_blocks (hl : ∀ k m, (hm k m).length = h) (i : Nat) :
    (PRF.blocks hm secret seed i).length = h * i := by
  induction i with
  | zero => simp [PRF.blocks]
  | succ i ih => simp [PRF.blocks, PRF.block, ih, hl, Nat.mul_succ]

theorem blocks_prefix (i d : Nat) :
    ∃ x, PRF.blocks hm secret seed (i + d) = PRF.blocks hm secret seed i ++ x := by
  induction d with
  | zero => exact ⟨[], by simp⟩
  | succ d ih =>
    obtain ⟨x, hx⟩ := ih
    refine ⟨x ++ PRF.block hm secret seed (i + d + 1), ?_⟩
    rw [← Nat.add_assoc]
    simp [PRF.blocks, hx]

/-- two block counts that both cover `n` bytes give the same `n`-byte prefix -/
theorem take_blocks_eq (hl : ∀ k m, (hm k m).length = h) (n i k : Nat) (hi : n ≤ h * i) (hk : n ≤ h * k) :
    (PRF.blocks hm secret seed i).take n = (PRF.blocks hm secret seed k).take n := by
  have key : ∀ a d, n ≤ h * a → (PRF.blocks hm secret seed (a + d)).take n = (PRF.blocks hm secret seed a).take n := by
    intro a d ha
    obtain ⟨x, hx⟩ := blocks_prefix hm secret seed a d
    rw [hx, List.take_append_of_le_length]
    rw [length_blocks hm h secret seed hl]; exact ha
  rcases Nat.le_total i k with hik | hki
  · obtain ⟨d, rfl⟩ := Nat.exists_eq_add_of_le hik
    exact (key i d hi).symm
  · obtain ⟨d, rfl⟩ := Nat.exists_eq_add_of_le hki
    exact key k d hk

theorem loop_inv (hl : ∀ k m, (hm k m).length = h) (hpos : 0 < h) (n N : Nat) (hN : n ≤ h * N) :
    ∀ fuel i, n < fuel + i →
      pHashLoop hm secret seed n fuel ((PRF.blocks hm secret seed i).take n) (h * i) (PRF.a hm secret seed (i + 1))
        = (PRF.blocks hm secret seed N).take n := by
  intro fuel
  induction fuel with
  | zero =>
    intro i hi
    simp only [pHashLoop]
    apply take_blocks_eq hm h secret seed hl n i N _ hN
    have : i ≤ h * i := Nat.le_mul_of_pos_left i hpos
    omega
  | succ fuel ih =>
    intro i hi
    simp only [pHashLoop]
    split
    · rename_i hlt
      have hlen := length_blocks hm h secret seed hl i
      have e1 : (PRF.blocks hm secret seed i).take n = PRF.blocks hm secret seed i := by
        apply List.take_of_length_le; omega
      have e2 : PRF.blocks hm secret seed i ++ (hm secret (PRF.a hm secret seed (i + 1) ++ seed)).take (n - h * i)
          = (PRF.blocks hm secret seed (i + 1)).take n := by
        simp only [PRF.blocks, PRF.block]
        rw [List.take_append, hlen, e1]
      have e3 : h * i + (hm secret (PRF.a hm secret seed (i + 1) ++ seed)).length = h * (i + 1) := by
        rw [hl, Nat.mul_succ]
      rw [e1, e2, e3]
      have := ih (i + 1) (by omega)
      simpa [PRF.a] using this
    · rename_i hge
      apply take_blocks_eq hm h secret seed hl n i N _ hN
      omega

theorem pHash_eq (hl : ∀ k m, (hm k m).length = h) (hpos : 0 < h) (n : Nat) :
    pHash hm secret seed n = PRF.pHash hm h secret seed n := by
  unfold pHash PRF.pHash
  have hN : n ≤ h * ((n + h - 1) / h) := by
    have := Nat.div_add_mod (n + h - 1) h
    have := Nat.mod_lt (n + h - 1) hpos
    omega
  have := loop_inv hm h secret seed hl hpos n ((n + h - 1) / h) hN (n + 1) 0 (by omega)
  simpa [PRF.blocks, PRF.a] using this


end phash

/-! ### incSeq -/


/-- little-endian value (least significant byte first) -/
def fromLE : Bytes → Nat
  | [] => 0
  | b :: rest => b.toNat + 256 * fromLE rest


theorem fromBE_reverse (l : Bytes) : fromBE l.reverse = fromLE l := by
  induction l with
  | nil => rfl
  | cons b rest ih => rw [List.reverse_cons, fromBE_snoc, ih, fromLE]; omega

theorem fromBE_eq_fromLE_reverse (l : Bytes) : fromBE l = fromLE l.reverse := by
  rw [← fromBE_reverse, List.reverse_reverse]

theorem incSeqRev_some (s s' : Bytes) (h : incSeqRev s = some s') :
    fromLE s' = fromLE s + 1 ∧ s'.length = s.length := by
  induction s generalizing s' with
  | nil => simp [incSeqRev] at h
  | cons b rest ih =>
    simp only [incSeqRev] at h
    split at h
    · rename_i hb
      injection h with h; subst h
      have : (b + 1).toNat = b.toNat + 1 := by
        have hne : b + 1 ≠ 0 := by simpa using hb
        have h2 : (b + 1).toNat = (b.toNat + 1) % 256 := by simp [UInt8.toNat_add]
        have hlt := b.toNat_lt
        rcases Nat.lt_or_ge (b.toNat + 1) 256 with hl | hg
        · rw [h2, Nat.mod_eq_of_lt hl]
        · exfalso
          have : b.toNat = 255 := by omega
          apply hne
          apply UInt8.toNat_inj.mp
          simp [UInt8.toNat_add, this]
      simp [fromLE, this]; omega
    · rename_i hb
      cases hr : incSeqRev rest with
      | none => simp [hr] at h
      | some r =>
        simp [hr] at h; subst h
        obtain ⟨h1, h2⟩ := ih r hr
        have hb0 : b + 1 = 0 := by simpa using hb
        have : b.toNat = 255 := by
          have h2 : (b + 1).toNat = (b.toNat + 1) % 256 := by simp [UInt8.toNat_add]
          rw [hb0] at h2
          have hlt := b.toNat_lt
          simp at h2; omega
        simp [fromLE, h1, h2, this]; omega

theorem incSeq_some (s s' : Bytes) (h : incSeq s = some s') :
    fromBE s' = fromBE s + 1 ∧ s'.length = s.length := by
  unfold incSeq at h
  cases hr : incSeqRev s.reverse with
  | none => simp [hr] at h
  | some r =>
    simp [hr] at h; subst h
    obtain ⟨h1, h2⟩ := incSeqRev_some _ _ hr
    constructor
    · rw [fromBE_eq_fromLE_reverse, fromBE_eq_fromLE_reverse, List.reverse_reverse, h1]
    · simpa using h2

theorem incSeqRev_none (s : Bytes) : incSeqRev s = none ↔ ∀ b ∈ s, b = 255 := by
  induction s with
  | nil => simp [incSeqRev]
  | cons b rest ih =>
    simp only [incSeqRev]
    split
    · rename_i hb
      simp only [reduceCtorEq, false_iff]
      intro hall
      have : b = 255 := hall b (by simp)
      subst this
      simp at hb
    · rename_i hb
      have hb0 : b + 1 = 0 := by simpa using hb
      have hb255 : b = 255 := by
        apply UInt8.toNat_inj.mp
        have h2 : (b + 1).toNat = (b.toNat + 1) % 256 := by simp [UInt8.toNat_add]
        rw [hb0] at h2
        have hlt := b.toNat_lt
        simp at h2 ⊢; omega
      simp [ih, hb255]


/-! ### CBC -/


theorem u8_xor_cancel (x y : UInt8) : (x ^^^ y) ^^^ y = x := by
  rw [UInt8.xor_assoc, UInt8.xor_self, UInt8.xor_zero]

theorem xor_length (a b : Bytes) : (CBC.xor a b).length = min a.length b.length := by
  simp [CBC.xor]

theorem xor_cancel (a b : Bytes) (h : a.length ≤ b.length) : CBC.xor (CBC.xor a b) b = a := by
  induction a generalizing b with
  | nil => simp [CBC.xor]
  | cons x xs ih =>
    cases b with
    | nil => simp at h
    | cons y ys =>
      simp only [CBC.xor, List.zipWith_cons_cons, u8_xor_cancel]
      congr 1
      exact ih ys (by simpa using h)

/-- CBC decryption inverts CBC encryption for any block function pair with D ∘ E = id on
16-byte blocks, E length preserving -/
theorem cbc_roundtrip (E D : Bytes → Bytes)
    (hlen : ∀ b, b.length = 16 → (E b).length = 16)
    (hinv : ∀ b, b.length = 16 → D (E b) = b) :
    ∀ n (prev data : Bytes), prev.length = 16 → data.length = 16 * n →
      CBC.decN D n prev (CBC.encN E n prev data) = data ∧ (CBC.encN E n prev data).length = 16 * n := by
  intro n
  induction n with
  | zero =>
    intro prev data _ hd
    have : data = [] := List.eq_nil_of_length_eq_zero (by simpa using hd)
    simp [CBC.decN, CBC.encN, this]
  | succ n ih =>
    intro prev data hp hd
    simp only [CBC.encN, CBC.decN]
    have htake : (data.take 16).length = 16 := by simp [List.length_take]; omega
    have hx : (CBC.xor (data.take 16) prev).length = 16 := by rw [xor_length]; omega
    have hc := hlen _ hx
    have hdrop : (data.drop 16).length = 16 * n := by simp [List.length_drop]; omega
    obtain ⟨ih1, ih2⟩ := ih (E (CBC.xor (data.take 16) prev)) (data.drop 16) hc hdrop
    have t1 : (E (CBC.xor (data.take 16) prev) ++ CBC.encN E n (E (CBC.xor (data.take 16) prev)) (data.drop 16)).take 16
        = E (CBC.xor (data.take 16) prev) := by
      rw [List.take_append_of_le_length (by omega), List.take_of_length_le (by omega)]
    have t2 : (E (CBC.xor (data.take 16) prev) ++ CBC.encN E n (E (CBC.xor (data.take 16) prev)) (data.drop 16)).drop 16
        = CBC.encN E n (E (CBC.xor (data.take 16) prev)) (data.drop 16) := by
      rw [List.drop_append_of_le_length (by omega), List.drop_of_length_le (by omega)]; simp
    rw [t1, t2, hinv _ hx, xor_cancel _ _ (by omega), ih1]
    constructor
    · exact List.take_append_drop 16 data
    · simp [hc, ih2]; omega


end Gotlcp.Lemmas.KeySchedule

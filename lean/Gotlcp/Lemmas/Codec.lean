/-
Lemmas for C14, tlcp side and shared bodies: per message
  * `rt_…`      decode (encode m) = ok m            (under the standard's ranges)
  * `total_…`   decode never panics
  * `strict_…`  an accepted input has the spec's shape (under the stated framing hypothesis)
  * `canon_…`   the spec's strict decoder only accepts what encode produces, and the model
                decoder agrees with it there
stated for arbitrary `Codes` with the few equations they need as hypotheses.
-/
import Gotlcp.Model.Codec
import Gotlcp.Spec.CodecSpec

set_option linter.unusedSimpArgs false
set_option linter.unusedVariables false

namespace Gotlcp.Lemmas.Codec
open Gotlcp Gotlcp.Wire Gotlcp.Wire.Msg Gotlcp.Model.Codec
open Gotlcp.Spec.Codec (Stack Kind)
namespace S
export Gotlcp.Spec.Codec (framed shape bodyShape splitHeader headerOk strictHeader strictBlob isNil)
end S

/-! ### small facts -/

theorem isEmpty_iff (s : Bytes) : isEmpty s = true ↔ s = [] := by
  cases s <;> simp [isEmpty]

theorem isNil_iff (s : Bytes) : Spec.Codec.isNil s = true ↔ s = [] := by
  cases s <;> simp [Spec.Codec.isNil]

theorem u8_toNat_of_lt {n : Nat} (h : n < 256) : (u8 n).toNat = n := by
  rw [u8_toNat]; omega

theorem nat24_be24 {n : Nat} (h : n < 16777216) :
    nat24 (u8 (n / 65536)) (u8 (n / 256)) (u8 n) = n := by
  simp only [nat24, u8_toNat]; omega

theorem nat16_be16 {n : Nat} (h : n < 65536) : nat16 (u8 (n / 256)) (u8 n) = n := by
  simp only [nat16, u8_toNat]; omega

def zeroH : DHdr := ⟨(0, 0), 0, 0⟩

theorem code_lt (k : Kind) : k.code < 256 := by cases k <;> decide

theorem u8_code_toNat (k : Kind) : (u8 k.code).toNat = k.code := u8_toNat_of_lt (code_lt k)

/-- TLCP header split of `t :: be24 n ++ body` -/
theorem splitHeader_tlcp (t : UInt8) (n : Nat) (body : Bytes) :
    Spec.Codec.splitHeader .tlcp (t :: (be24 n ++ body)) =
      some (⟨t, nat24 (u8 (n / 65536)) (u8 (n / 256)) (u8 n), zeroH⟩, body) := by
  simp [be24, Spec.Codec.splitHeader, zeroH]

/-- a TLCP string that splits has this form -/
theorem splitHeader_tlcp_eq {b body : Bytes} {h : Spec.Codec.Header}
    (hs : Spec.Codec.splitHeader .tlcp b = some (h, body)) :
    b = h.msgType :: (be24 h.length ++ body) ∧ h.length < 16777216 ∧ h.dh = zeroH := by
  match b, hs with
  | t :: a :: b' :: c :: rest, hs =>
    simp only [Spec.Codec.splitHeader, Option.some.injEq, Prod.mk.injEq] at hs
    obtain ⟨h1, h2⟩ := hs
    subst h1; subst h2
    refine ⟨?_, nat24_lt a b' c, rfl⟩
    simp only [be24_nat24]; rfl

theorem framed_tlcp_mk (t : UInt8) {body : Bytes} (hl : body.length < 16777216) :
    Spec.Codec.framed .tlcp (t :: (be24 body.length ++ body)) = true := by
  simp [Spec.Codec.framed, splitHeader_tlcp, Spec.Codec.headerOk, nat24_be24 hl]

theorem framed_tlcp_eq {b : Bytes} (h : Spec.Codec.framed .tlcp b = true) :
    ∃ t body, b = t :: (be24 body.length ++ body) ∧ body.length < 16777216 := by
  unfold Spec.Codec.framed at h
  cases hs : Spec.Codec.splitHeader .tlcp b with
  | none => rw [hs] at h; cases h
  | some p =>
    obtain ⟨hd, body⟩ := p
    rw [hs] at h
    simp only [Spec.Codec.headerOk, Bool.and_true, beq_iff_eq] at h
    obtain ⟨hb, hl, _⟩ := splitHeader_tlcp_eq hs
    exact ⟨hd.msgType, body, by rw [hb, h], by omega⟩

theorem shape_tlcp_mk (k : Kind) (t : UInt8) {body : Bytes} (hl : body.length < 16777216)
    (hb : Spec.Codec.bodyShape .tlcp k body = true) :
    Spec.Codec.shape .tlcp k (t :: (be24 body.length ++ body)) = true := by
  simp [Spec.Codec.shape, splitHeader_tlcp, Spec.Codec.headerOk, nat24_be24 hl, hb]

theorem strictHeader_tlcp_eq {k : Kind} {b body : Bytes} {h : DHdr}
    (hs : Spec.Codec.strictHeader .tlcp k b = some (h, body)) :
    b = u8 k.code :: (be24 body.length ++ body) ∧ body.length < 16777216 ∧ h = zeroH := by
  unfold Spec.Codec.strictHeader at hs
  cases hsp : Spec.Codec.splitHeader .tlcp b with
  | none => rw [hsp] at hs; cases hs
  | some p =>
    obtain ⟨hd, bd⟩ := p
    rw [hsp] at hs
    simp only at hs
    split at hs
    · rename_i hc
      simp only [Option.some.injEq, Prod.mk.injEq] at hs
      obtain ⟨h1, h2⟩ := hs
      subst h2
      obtain ⟨hb, hl, hz⟩ := splitHeader_tlcp_eq hsp
      obtain ⟨hty, hok⟩ := hc
      simp only [Spec.Codec.headerOk, Bool.and_true, beq_iff_eq] at hok
      have hty' : hd.msgType = u8 k.code := by
        apply UInt8.toNat_inj.mp; rw [hty, u8_code_toNat]
      refine ⟨by rw [hb, hty', hok], by omega, by rw [← h1, hz]⟩
    · cases hs

theorem strictHeader_tlcp_mk (k : Kind) {body : Bytes} (hl : body.length < 16777216) :
    Spec.Codec.strictHeader .tlcp k (u8 k.code :: (be24 body.length ++ body)) = some (zeroH, body) := by
  simp [Spec.Codec.strictHeader, splitHeader_tlcp, Spec.Codec.headerOk, nat24_be24 hl, u8_code_toNat]

/-! ### finished (tlcp) -/

theorem rt_finished (c : Codes) (m : Blob) (h : m.data.length < 16777216) :
    encFinished c m = some (u8 c.tFinished :: (be24 m.data.length ++ m.data)) ∧
    decFinished (u8 c.tFinished :: (be24 m.data.length ++ m.data)) = .ok m := by
  refine ⟨?_, ?_⟩
  · simp [encFinished, vec24_of_lt h]
  · have := readVec24_append h ([] : Bytes)
    simp only [List.append_nil] at this
    simp [decFinished, skip, this, isEmpty]

theorem total_finished (b : Bytes) : decFinished b ≠ .panic := by
  unfold decFinished
  split
  · simp
  · split
    · simp
    · split <;> simp

/-- what a successful tlcp finished decode says about the input -/
theorem decFinished_ok {b : Bytes} {m : Blob} (h : decFinished b = .ok m) :
    ∃ t, b = t :: (be24 m.data.length ++ m.data) ∧ m.data.length < 16777216 := by
  unfold decFinished at h
  cases b with
  | nil => simp [skip] at h
  | cons t s =>
    simp only [skip, List.length_cons, Nat.le_add_left, ↓reduceIte, List.drop_succ_cons, List.drop_zero] at h
    cases hv : readVec24 s with
    | none => rw [hv] at h; cases h
    | some p =>
      obtain ⟨vd, r⟩ := p
      rw [hv] at h
      simp only at h
      split at h
      · rename_i he
        simp only [Outcome.ok.injEq] at h
        subst h
        obtain ⟨h1, h2⟩ := readVec24_eq_some hv
        rw [(isEmpty_iff r).mp he, List.append_nil] at h1
        exact ⟨t, by rw [h1], h2⟩
      · cases h

theorem strict_finished {b : Bytes} {m : Blob} (h : decFinished b = .ok m) :
    Spec.Codec.shape .tlcp .finished b = true := by
  obtain ⟨t, hb, hl⟩ := decFinished_ok h
  subst hb
  exact shape_tlcp_mk _ _ hl rfl

theorem canon_finished (c : Codes) (ht : c.tFinished = 20) {b : Bytes} {h : DHdr} {m : Blob}
    (hs : Spec.Codec.strictBlob .tlcp .finished b = some (h, m)) :
    encFinished c m = some b ∧ decFinished b = .ok m ∧ Spec.Codec.wfBlob .finished m = true := by
  unfold Spec.Codec.strictBlob at hs
  cases hsh : Spec.Codec.strictHeader .tlcp .finished b with
  | none => rw [hsh] at hs; cases hs
  | some p =>
    obtain ⟨hd, body⟩ := p
    rw [hsh] at hs
    simp only at hs
    split at hs
    · rename_i hlen
      simp only [Option.some.injEq, Prod.mk.injEq] at hs
      obtain ⟨_, hm⟩ := hs
      subst hm
      obtain ⟨hb, hl, _⟩ := strictHeader_tlcp_eq hsh
      have hk : Kind.finished.code = c.tFinished := by rw [ht]; rfl
      rw [hk] at hb
      obtain ⟨h1, h2⟩ := rt_finished c ⟨body⟩ hl
      subst hb
      exact ⟨h1, h2, by simp [Spec.Codec.wfBlob, hlen]⟩
    · cases hs

theorem complete_finished (c : Codes) (ht : c.tFinished = 20) (m : Blob)
    (hw : Spec.Codec.wfBlob .finished m = true) :
    Spec.Codec.strictBlob .tlcp .finished (u8 c.tFinished :: (be24 m.data.length ++ m.data)) = some (zeroH, m) := by
  have hlen : m.data.length = 12 := by simpa [Spec.Codec.wfBlob] using hw
  have hlt : m.data.length < 16777216 := by omega
  have hk : c.tFinished = Kind.finished.code := by rw [ht]; rfl
  rw [hk]
  unfold Spec.Codec.strictBlob
  rw [strictHeader_tlcp_mk _ hlt]
  simp [hlen]

/-! ### checked accessors -/

theorem idx_eq {d : Bytes} {i : Nat} (h : i < d.length) : idx d i = .ok d[i] := by
  simp [idx, List.getElem?_eq_getElem h]

theorem idx_ne_panic {d : Bytes} {i : Nat} (h : i < d.length) : idx d i ≠ .panic := by
  rw [idx_eq h]; simp

theorem idx24_eq {d : Bytes} {i : Nat} (h : i + 2 < d.length) :
    idx24 d i = .ok (nat24 (d[i]'(by omega)) (d[i+1]'(by omega)) (d[i+2]'h)) := by
  simp [idx24, idx_eq (show i < d.length by omega), idx_eq (show i + 1 < d.length by omega), idx_eq h]

theorem idx16_eq {d : Bytes} {i : Nat} (h : i + 1 < d.length) :
    idx16 d i = .ok (nat16 (d[i]'(by omega)) (d[i+1]'h)) := by
  simp [idx16, idx_eq (show i < d.length by omega), idx_eq h]

theorem idxW16_eq {d : Bytes} {i : Nat} (h : i + 1 < d.length) :
    idxW16 d i = .ok ((d[i]'(by omega)), (d[i+1]'h)) := by
  simp [idxW16, idx_eq (show i < d.length by omega), idx_eq h]

theorem sliceFrom_eq {d : Bytes} {i : Nat} (h : i ≤ d.length) : sliceFrom d i = .ok (d.drop i) := by
  simp [sliceFrom, h]

theorem slice_eq {d : Bytes} {i j : Nat} (h1 : i ≤ j) (h2 : j ≤ d.length) :
    slice d i j = .ok ((d.drop i).take (j - i)) := by
  simp [slice, h1, h2]

@[simp] theorem bind_ok {α β : Type} (a : α) (f : α → Outcome β) : (Outcome.ok a >>= f) = f a := rfl
@[simp] theorem bind_reject {α β : Type} (f : α → Outcome β) : (Outcome.reject >>= f) = .reject := rfl
@[simp] theorem bind_panic {α β : Type} (f : α → Outcome β) : (Outcome.panic >>= f) = .panic := rfl
@[simp] theorem pure_eq {α : Type} (a : α) : (pure a : Outcome α) = .ok a := rfl

/-! ### serverHelloDone (tlcp) -/

theorem rt_serverHelloDone (c : Codes) :
    encServerHelloDone c = some [u8 c.tServerHelloDone, 0, 0, 0] ∧
    decServerHelloDone [u8 c.tServerHelloDone, 0, 0, 0] = .ok () := by
  simp [encServerHelloDone, decServerHelloDone]

theorem total_serverHelloDone (b : Bytes) : decServerHelloDone b ≠ .panic := by
  unfold decServerHelloDone; split <;> simp

/-- the 24-bit length is not looked at: strict only for framed input -/
theorem strict_serverHelloDone {b : Bytes} (h : decServerHelloDone b = .ok ())
    (hf : Spec.Codec.framed .tlcp b = true) : Spec.Codec.shape .tlcp .serverHelloDone b = true := by
  obtain ⟨t, body, hb, hl⟩ := framed_tlcp_eq hf
  subst hb
  unfold decServerHelloDone at h
  split at h
  · rename_i hlen
    simp only [List.length_cons, List.length_append, be24_length] at hlen
    have : body = [] := List.eq_nil_of_length_eq_zero (by omega)
    subst this
    exact shape_tlcp_mk _ _ hl rfl
  · cases h

theorem canon_serverHelloDone (c : Codes) (ht : c.tServerHelloDone = 14) {b : Bytes} {h : DHdr}
    (hs : Spec.Codec.strictServerHelloDone .tlcp b = some (h, ())) :
    encServerHelloDone c = some b ∧ decServerHelloDone b = .ok () := by
  unfold Spec.Codec.strictServerHelloDone at hs
  cases hsh : Spec.Codec.strictHeader .tlcp .serverHelloDone b with
  | none => rw [hsh] at hs; cases hs
  | some p =>
    obtain ⟨hd, body⟩ := p
    rw [hsh] at hs
    cases body with
    | cons x xs => simp at hs
    | nil =>
      obtain ⟨hb, _, _⟩ := strictHeader_tlcp_eq hsh
      have hk : Kind.serverHelloDone.code = c.tServerHelloDone := by rw [ht]; rfl
      rw [hk] at hb
      subst hb
      simp [encServerHelloDone, decServerHelloDone, be24, u8]

theorem complete_serverHelloDone (c : Codes) (ht : c.tServerHelloDone = 14) :
    Spec.Codec.strictServerHelloDone .tlcp [u8 c.tServerHelloDone, 0, 0, 0] = some (zeroH, ()) := by
  have hk : c.tServerHelloDone = Kind.serverHelloDone.code := by rw [ht]; rfl
  have := strictHeader_tlcp_mk .serverHelloDone (body := []) (by simp)
  simp only [be24, List.length_nil, List.append_nil] at this
  unfold Spec.Codec.strictServerHelloDone
  rw [hk]
  have this' : Spec.Codec.strictHeader .tlcp .serverHelloDone [u8 Kind.serverHelloDone.code, 0, 0, 0] = some (zeroH, []) := this
  rw [this']

/-! ### certificateVerify (tlcp) -/

theorem rt_certificateVerify (c : Codes) (m : Blob) (h : m.data.length < 65536) :
    encCertificateVerify c m = some (u8 c.tCertificateVerify :: (be24 (2 + m.data.length) ++ (be16 m.data.length ++ m.data))) ∧
    decCertificateVerify (u8 c.tCertificateVerify :: (be24 (2 + m.data.length) ++ (be16 m.data.length ++ m.data))) = .ok m := by
  have hl : (be16 m.data.length ++ m.data).length < 16777216 := by rw [List.length_append, be16_length]; omega
  refine ⟨?_, ?_⟩
  · have hbl : (be16 m.data.length ++ m.data).length = 2 + m.data.length := by
      rw [List.length_append, be16_length]
    simp only [encCertificateVerify, vec16_of_lt h, vec24_of_lt hl, hbl]
  · have := readVec16_append h ([] : Bytes)
    simp only [List.append_nil] at this
    simp [decCertificateVerify, skip, be24, this, isEmpty]

theorem total_certificateVerify (b : Bytes) : decCertificateVerify b ≠ .panic := by
  unfold decCertificateVerify
  split
  · simp
  · split
    · simp
    · split <;> simp

theorem strict_certificateVerify {b : Bytes} {m : Blob} (h : decCertificateVerify b = .ok m)
    (hf : Spec.Codec.framed .tlcp b = true) : Spec.Codec.shape .tlcp .certificateVerify b = true := by
  obtain ⟨t, body, hb, hl⟩ := framed_tlcp_eq hf
  subst hb
  apply shape_tlcp_mk _ _ hl
  unfold decCertificateVerify at h
  simp only [skip, be24, List.length_cons, List.cons_append, List.nil_append, List.drop_succ_cons, List.drop_zero] at h
  split at h
  · cases h
  · rename_i s hs
    have : s = body := by
      split at hs
      · simpa using hs.symm
      · cases hs
    subst this
    cases hv : readVec16 s with
    | none => rw [hv] at h; cases h
    | some p =>
      obtain ⟨sig, r⟩ := p
      rw [hv] at h
      simp only at h
      split at h
      · rename_i he
        simp [Spec.Codec.bodyShape, Spec.Codec.oneVec16, hv, (isEmpty_iff r).mp he, Spec.Codec.isNil]
      · cases h

theorem canon_certificateVerify (c : Codes) (ht : c.tCertificateVerify = 15) {b : Bytes} {h : DHdr} {m : Blob}
    (hs : Spec.Codec.strictBlob .tlcp .certificateVerify b = some (h, m)) :
    encCertificateVerify c m = some b ∧ decCertificateVerify b = .ok m ∧
      Spec.Codec.wfBlob .certificateVerify m = true := by
  unfold Spec.Codec.strictBlob at hs
  cases hsh : Spec.Codec.strictHeader .tlcp .certificateVerify b with
  | none => rw [hsh] at hs; cases hs
  | some p =>
    obtain ⟨hd, body⟩ := p
    rw [hsh] at hs
    simp only at hs
    cases hv : readVec16 body with
    | none => rw [hv] at hs; cases hs
    | some q =>
      obtain ⟨sig, r⟩ := q
      rw [hv] at hs
      cases r with
      | cons x xs => simp at hs
      | nil =>
        simp only [Option.some.injEq, Prod.mk.injEq] at hs
        obtain ⟨_, hm⟩ := hs
        subst hm
        obtain ⟨hb, hl, _⟩ := strictHeader_tlcp_eq hsh
        obtain ⟨hbody, hsl⟩ := readVec16_eq_some hv
        rw [List.append_nil] at hbody
        have hk : Kind.certificateVerify.code = c.tCertificateVerify := by rw [ht]; rfl
        rw [hk] at hb
        obtain ⟨h1, h2⟩ := rt_certificateVerify c ⟨sig⟩ hsl
        have hlen : body.length = 2 + sig.length := by rw [hbody]; simp [be16]; omega
        rw [hb, hlen, hbody]
        exact ⟨h1, h2, by simp [Spec.Codec.wfBlob, hsl]⟩

theorem complete_certificateVerify (c : Codes) (ht : c.tCertificateVerify = 15) (m : Blob)
    (hw : Spec.Codec.wfBlob .certificateVerify m = true) :
    Spec.Codec.strictBlob .tlcp .certificateVerify
      (u8 c.tCertificateVerify :: (be24 (2 + m.data.length) ++ (be16 m.data.length ++ m.data))) = some (zeroH, m) := by
  have hlen : m.data.length < 65536 := by simpa [Spec.Codec.wfBlob] using hw
  have hk : c.tCertificateVerify = Kind.certificateVerify.code := by rw [ht]; rfl
  have hl : (be16 m.data.length ++ m.data).length < 16777216 := by rw [List.length_append, be16_length]; omega
  have hbl : (be16 m.data.length ++ m.data).length = 2 + m.data.length := by rw [List.length_append, be16_length]
  rw [hk, ← hbl]
  unfold Spec.Codec.strictBlob
  rw [strictHeader_tlcp_mk _ hl]
  have := readVec16_append hlen ([] : Bytes)
  simp only [List.append_nil] at this
  simp [this]

/-! ### key exchange messages (tlcp, hand-indexed) -/

theorem data4 {d : Bytes} (h : ¬ d.length < 4) : ∃ a b c e r, d = a :: b :: c :: e :: r := by
  match d, h with
  | a :: b :: c :: e :: r, _ => exact ⟨a, b, c, e, r, rfl⟩
  | [], h => simp at h
  | [_], h => simp at h
  | [_, _], h => simp at h
  | [_, _, _], h => simp at h

theorem rt_clientKeyExchange (t : Nat) (m : Blob) (h : m.data.length < 16777216) :
    encKeyMsg t m = some (u8 t :: (be24 m.data.length ++ m.data)) ∧
    decClientKeyExchange (u8 t :: (be24 m.data.length ++ m.data)) = .ok m := by
  refine ⟨rfl, ?_⟩
  simp [decClientKeyExchange, be24, idx24, idx, sliceFrom, nat24_be24 h]

theorem rt_serverKeyExchange (t : Nat) (m : Blob) :
    decServerKeyExchange (u8 t :: (be24 m.data.length ++ m.data)) = .ok m := by
  simp [decServerKeyExchange, be24, sliceFrom]

theorem total_clientKeyExchange (b : Bytes) : decClientKeyExchange b ≠ .panic := by
  unfold decClientKeyExchange
  split
  · simp
  · rename_i h
    obtain ⟨a, b', c, e, r, hd⟩ := data4 h
    subst hd
    simp [idx24, idx, sliceFrom]
    split <;> simp

theorem total_serverKeyExchange (b : Bytes) : decServerKeyExchange b ≠ .panic := by
  unfold decServerKeyExchange
  split
  · simp
  · rename_i h
    rw [sliceFrom_eq (by omega)]; simp

theorem decClientKeyExchange_ok {b : Bytes} {m : Blob} (h : decClientKeyExchange b = .ok m) :
    ∃ t, b = t :: (be24 m.data.length ++ m.data) ∧ m.data.length < 16777216 := by
  unfold decClientKeyExchange at h
  split at h
  · cases h
  · rename_i hl
    obtain ⟨a, b', c, e, r, hd⟩ := data4 hl
    subst hd
    simp only [idx24, idx, List.getElem?_cons_succ, List.getElem?_cons_zero, bind_ok, sliceFrom,
      List.length_cons, List.drop_succ_cons, List.drop_zero] at h
    split at h
    · cases h
    · rename_i hn
      simp only [Nat.le_add_left, ↓reduceIte, bind_ok, pure_eq, Outcome.ok.injEq] at h
      subst h
      simp only [ne_eq, Decidable.not_not] at hn
      have hn' : nat24 b' c e = r.length := by omega
      refine ⟨a, ?_, by show r.length < 16777216; rw [← hn']; exact nat24_lt _ _ _⟩
      show a :: b' :: c :: e :: r = a :: (be24 r.length ++ r)
      rw [← hn', be24_nat24]; rfl

theorem strict_clientKeyExchange {b : Bytes} {m : Blob} (h : decClientKeyExchange b = .ok m) :
    Spec.Codec.shape .tlcp .clientKeyExchange b = true := by
  obtain ⟨t, hb, hl⟩ := decClientKeyExchange_ok h
  subst hb
  exact shape_tlcp_mk _ _ hl rfl

/-- the 24-bit length is not looked at: strict only for framed input -/
theorem strict_serverKeyExchange {b : Bytes} (hf : Spec.Codec.framed .tlcp b = true) :
    Spec.Codec.shape .tlcp .serverKeyExchange b = true := by
  obtain ⟨t, body, hb, hl⟩ := framed_tlcp_eq hf
  subst hb
  exact shape_tlcp_mk _ _ hl rfl

/-- strictBlob on the opaque-body kinds -/
theorem strictBlob_opaque {k : Kind} (hk : k = .clientKeyExchange ∨ k = .serverKeyExchange)
    {b : Bytes} {h : DHdr} {m : Blob} (hs : Spec.Codec.strictBlob .tlcp k b = some (h, m)) :
    b = u8 k.code :: (be24 m.data.length ++ m.data) ∧ m.data.length < 16777216 := by
  unfold Spec.Codec.strictBlob at hs
  cases hsh : Spec.Codec.strictHeader .tlcp k b with
  | none => rw [hsh] at hs; cases hs
  | some p =>
    obtain ⟨hd, body⟩ := p
    rw [hsh] at hs
    obtain ⟨hb, hl, _⟩ := strictHeader_tlcp_eq hsh
    rcases hk with hk | hk <;> subst hk <;>
      (simp only [Option.some.injEq, Prod.mk.injEq] at hs
       obtain ⟨_, hm⟩ := hs
       subst hm
       exact ⟨hb, hl⟩)

theorem strictBlob_opaque_mk {k : Kind} (hk : k = .clientKeyExchange ∨ k = .serverKeyExchange)
    (m : Blob) (hl : m.data.length < 16777216) :
    Spec.Codec.strictBlob .tlcp k (u8 k.code :: (be24 m.data.length ++ m.data)) = some (zeroH, m) := by
  unfold Spec.Codec.strictBlob
  rw [strictHeader_tlcp_mk _ hl]
  rcases hk with hk | hk <;> subst hk <;> rfl

theorem canon_clientKeyExchange (c : Codes) (ht : c.tClientKeyExchange = 16) {b : Bytes} {h : DHdr} {m : Blob}
    (hs : Spec.Codec.strictBlob .tlcp .clientKeyExchange b = some (h, m)) :
    encKeyMsg c.tClientKeyExchange m = some b ∧ decClientKeyExchange b = .ok m ∧
      Spec.Codec.wfBlob .clientKeyExchange m = true := by
  obtain ⟨hb, hl⟩ := strictBlob_opaque (Or.inl rfl) hs
  have hk : Kind.clientKeyExchange.code = c.tClientKeyExchange := by rw [ht]; rfl
  rw [hk] at hb
  subst hb
  obtain ⟨h1, h2⟩ := rt_clientKeyExchange c.tClientKeyExchange m hl
  exact ⟨h1, h2, by simp [Spec.Codec.wfBlob, hl]⟩

theorem canon_serverKeyExchange (c : Codes) (ht : c.tServerKeyExchange = 12) {b : Bytes} {h : DHdr} {m : Blob}
    (hs : Spec.Codec.strictBlob .tlcp .serverKeyExchange b = some (h, m)) :
    encKeyMsg c.tServerKeyExchange m = some b ∧ decServerKeyExchange b = .ok m ∧
      Spec.Codec.wfBlob .serverKeyExchange m = true := by
  obtain ⟨hb, hl⟩ := strictBlob_opaque (Or.inr rfl) hs
  have hk : Kind.serverKeyExchange.code = c.tServerKeyExchange := by rw [ht]; rfl
  rw [hk] at hb
  subst hb
  exact ⟨rfl, rt_serverKeyExchange _ m, by simp [Spec.Codec.wfBlob, hl]⟩

/-! ### certificate (hand-indexed, both stacks) -/

theorem idx24_cons3 (a b c : UInt8) (r : Bytes) : idx24 (a :: b :: c :: r) 0 = .ok (nat24 a b c) := by
  simp [idx24, idx]

theorem idx24_be24 {n : Nat} (h : n < 16777216) (r : Bytes) : idx24 (be24 n ++ r) 0 = .ok n := by
  simp only [be24, List.cons_append, List.nil_append, idx24_cons3, nat24_be24 h]

theorem idx16_be16 {n : Nat} (h : n < 65536) (r : Bytes) : idx16 (be16 n ++ r) 0 = .ok n := by
  simp [be16, idx16, idx, nat16_be16 h]

theorem idx_append_right (a b : Bytes) (i : Nat) : idx (a ++ b) (a.length + i) = idx b i := by
  simp [idx, List.getElem?_append_right]

theorem idx24_append_right (a b : Bytes) (i : Nat) : idx24 (a ++ b) (a.length + i) = idx24 b i := by
  simp only [idx24, Nat.add_assoc, idx_append_right]

theorem idx16_append_right (a b : Bytes) (i : Nat) : idx16 (a ++ b) (a.length + i) = idx16 b i := by
  simp only [idx16, Nat.add_assoc, idx_append_right]

theorem sliceFrom_append_right (a b : Bytes) (i : Nat) (h : i ≤ b.length) :
    sliceFrom (a ++ b) (a.length + i) = .ok (b.drop i) := by
  rw [sliceFrom_eq (by simp; omega)]
  simp [List.drop_append]

def CertsOk (certs : List Bytes) : Prop := ∀ x ∈ certs, 0 < x.length ∧ x.length < 16777216

theorem certItem_length (x : Bytes) : (certItem x).length = 3 + x.length := by
  simp [certItem, be24]; omega

theorem certCount_enc (certs : List Bytes) (hc : CertsOk certs) :
    ∀ (fuel k : Nat) (tail : Nat), (concatMap certItem certs).length < 4294967296 → certs.length < fuel →
      certCount fuel (concatMap certItem certs) (concatMap certItem certs).length k = .ok (k + certs.length) := by
  induction certs with
  | nil =>
    intro fuel k _ _ hf
    cases fuel with
    | zero => omega
    | succ f => simp [concatMap, certCount]
  | cons x xs ih =>
    intro fuel k t hlen hf
    cases fuel with
    | zero => omega
    | succ f =>
      obtain ⟨hx0, hx1⟩ := hc x List.mem_cons_self
      have hxs : CertsOk xs := fun y hy => hc y (List.mem_cons_of_mem _ hy)
      simp only [concatMap, List.length_append, certItem_length] at hlen ⊢
      have hne : ¬ (3 + x.length + (concatMap certItem xs).length = 0) := by omega
      have hge : ¬ ((certItem x ++ concatMap certItem xs).length < 4) := by
        simp only [List.length_append, certItem_length]; omega
      have hidx : idx24 (certItem x ++ concatMap certItem xs) 0 = .ok x.length := by
        simp only [certItem, List.append_assoc]; exact idx24_be24 hx1 _
      have hge2 : ¬ ((certItem x ++ concatMap certItem xs).length < 3 + x.length) := by
        simp only [List.length_append, certItem_length]; omega
      have hsl : sliceFrom (certItem x ++ concatMap certItem xs) (3 + x.length) = .ok (concatMap certItem xs) := by
        have := sliceFrom_append_right (certItem x) (concatMap certItem xs) 0 (by omega)
        simpa [certItem_length] using this
      have hmod : (3 + x.length + (concatMap certItem xs).length + 4294967296 - (3 + x.length)) % 4294967296 =
          (concatMap certItem xs).length := by omega
      simp only [certCount, hne, ↓reduceIte, hge, hidx, bind_ok, hge2, hsl, hmod]
      rw [ih hxs f (k + 1) t (by omega) (by simp at hf; omega)]
      simp only [List.length_cons]; congr 1; omega

theorem certSplit_enc (certs : List Bytes) (hc : CertsOk certs) :
    certSplit certs.length (concatMap certItem certs) = .ok certs := by
  induction certs with
  | nil => rfl
  | cons x xs ih =>
    obtain ⟨hx0, hx1⟩ := hc x List.mem_cons_self
    have hxs : CertsOk xs := fun y hy => hc y (List.mem_cons_of_mem _ hy)
    have hidx : idx24 (certItem x ++ concatMap certItem xs) 0 = .ok x.length := by
      simp only [certItem, List.append_assoc]; exact idx24_be24 hx1 _
    have hsl : sliceFrom (certItem x ++ concatMap certItem xs) (3 + x.length) = .ok (concatMap certItem xs) := by
      have := sliceFrom_append_right (certItem x) (concatMap certItem xs) 0 (by omega)
      simpa [certItem_length] using this
    have hs : slice (certItem x ++ concatMap certItem xs) 3 (3 + x.length) = .ok x := by
      rw [slice_eq (by omega) (by simp [certItem_length])]
      simp [certItem, be24]
    simp only [List.length_cons, concatMap, certSplit, hidx, bind_ok, hs, hsl, ih hxs, pure_eq]

theorem sumLen_eq (certs : List Bytes) : Spec.Codec.sumLen certs 3 = (concatMap certItem certs).length := by
  induction certs with
  | nil => rfl
  | cons x xs ih =>
    simp only [Spec.Codec.sumLen, List.foldr_cons, concatMap, List.length_append, certItem_length] at ih ⊢
    omega

theorem concat_ge_length (certs : List Bytes) : certs.length ≤ (concatMap certItem certs).length := by
  induction certs with
  | nil => simp [concatMap]
  | cons x xs ih => simp only [concatMap, List.length_append, certItem_length, List.length_cons]; omega

/-- decoding `hdr ++ encCertificateBody m` with `hdr.length = hl` -/
theorem rt_certificateAt (hdr : Bytes) (m : Certificate) (hc : CertsOk m.certs)
    (hl : (concatMap certItem m.certs).length < 16777216) :
    decCertificateAt hdr.length (hdr ++ encCertificateBody m) = .ok m := by
  unfold decCertificateAt encCertificateBody
  simp only
  have h1 : ¬ ((hdr ++ (be24 (concatMap certItem m.certs).length ++ concatMap certItem m.certs)).length < hdr.length + 3) := by
    simp [be24]
  have h2 : idx24 (hdr ++ (be24 (concatMap certItem m.certs).length ++ concatMap certItem m.certs)) hdr.length =
      .ok (concatMap certItem m.certs).length := by
    have := idx24_append_right hdr (be24 (concatMap certItem m.certs).length ++ concatMap certItem m.certs) 0
    rw [Nat.add_zero] at this
    rw [this, idx24_be24 hl]
  have h3 : ¬ ((hdr ++ (be24 (concatMap certItem m.certs).length ++ concatMap certItem m.certs)).length ≠
      (concatMap certItem m.certs).length + hdr.length + 3) := by
    simp [be24]; omega
  have h4 : sliceFrom (hdr ++ (be24 (concatMap certItem m.certs).length ++ concatMap certItem m.certs)) (hdr.length + 3) =
      .ok (concatMap certItem m.certs) := by
    rw [sliceFrom_append_right _ _ 3 (by simp [be24])]
    simp [be24]
  simp only [h1, ↓reduceIte, h2, bind_ok, h3, h4]
  rw [certCount_enc m.certs hc _ 0 0 (by omega) (by have := concat_ge_length m.certs; omega)]
  simp only [bind_ok, Nat.zero_add, certSplit_enc m.certs hc, pure_eq]

theorem data3 {d : Bytes} (h : ¬ d.length < 4) : ∃ a b c r, d = a :: b :: c :: r ∧ 0 < r.length := by
  obtain ⟨a, b, c, e, r, hd⟩ := data4 h
  exact ⟨a, b, c, e :: r, hd, by simp⟩

theorem certCount_ne_panic : ∀ (f : Nat) (d : Bytes) (L k : Nat), certCount f d L k ≠ .panic := by
  intro f
  induction f with
  | zero => intro d L k; simp [certCount]
  | succ f ih =>
    intro d L k
    unfold certCount
    split
    · simp
    · split
      · simp
      · rename_i h4
        obtain ⟨a, b, c, r, hd, _⟩ := data3 h4
        subst hd
        simp only [idx24_cons3, bind_ok]
        split
        · simp
        · rename_i hlen
          rw [sliceFrom_eq (by omega)]
          simp only [bind_ok]
          exact ih _ _ _

/-- the second loop runs without a length check; the first loop has established what it needs -/
theorem certSplit_ok_of_count : ∀ (f : Nat) (d : Bytes) (L k n : Nat),
    certCount f d L k = .ok n → k ≤ n ∧ ∃ cs, certSplit (n - k) d = .ok cs := by
  intro f
  induction f with
  | zero => intro d L k n h; simp [certCount] at h
  | succ f ih =>
    intro d L k n h
    unfold certCount at h
    split at h
    · simp only [Outcome.ok.injEq] at h
      subst h
      exact ⟨Nat.le_refl _, [], by simp [certSplit]⟩
    · split at h
      · cases h
      · rename_i h4
        obtain ⟨a, b, c, r, hd, _⟩ := data3 h4
        subst hd
        simp only [idx24_cons3, bind_ok] at h
        split at h
        · cases h
        · rename_i hlen
          rw [sliceFrom_eq (by omega)] at h
          simp only [bind_ok] at h
          obtain ⟨hle, cs, hcs⟩ := ih _ _ _ _ h
          refine ⟨by omega, ?_⟩
          have hn : n - k = (n - (k + 1)) + 1 := by omega
          rw [hn]
          simp only [certSplit, idx24_cons3, bind_ok]
          rw [slice_eq (by omega) (by omega), sliceFrom_eq (by omega)]
          simp only [bind_ok, hcs, pure_eq]
          exact ⟨_, rfl⟩

theorem total_certificateAt (hl : Nat) (data : Bytes) : decCertificateAt hl data ≠ .panic := by
  unfold decCertificateAt
  split
  · simp
  · rename_i h1
    rw [idx24_eq (by omega)]
    simp only [bind_ok]
    split
    · simp
    · rw [sliceFrom_eq (by omega)]
      simp only [bind_ok]
      cases hc : certCount ((data.drop (hl + 3)).length + 1) (data.drop (hl + 3)) _ 0 with
      | panic => exact absurd hc (certCount_ne_panic _ _ _ _)
      | reject => simp
      | ok n =>
        obtain ⟨_, cs, hcs⟩ := certSplit_ok_of_count _ _ _ _ _ hc
        simp only [Nat.sub_zero] at hcs
        simp [hcs]

theorem drop3 {α : Type} (n : Nat) (a b c : α) (r : List α) : List.drop (3 + n) (a :: b :: c :: r) = List.drop n r := by
  rw [Nat.add_comm]; rfl

theorem readVec24_cons3 (a b c : UInt8) (r : Bytes) (h : nat24 a b c ≤ r.length) :
    readVec24 (a :: b :: c :: r) = some (r.take (nat24 a b c), r.drop (nat24 a b c)) := by
  simp [readVec24, readU24, readBytes, h]

theorem itemsOk_of_count : ∀ (f : Nat) (d : Bytes) (L k n g : Nat),
    certCount f d L k = .ok n → L = d.length → d.length < 4294967296 → d.length ≤ g →
    Spec.Codec.itemsOk Spec.Codec.dropVec24 g d = true := by
  intro f
  induction f with
  | zero => intro d L k n g h; simp [certCount] at h
  | succ f ih =>
    intro d L k n g h hL hlt hg
    unfold certCount at h
    split at h
    · rename_i h0
      have : d = [] := List.eq_nil_of_length_eq_zero (by omega)
      subst this
      cases g <;> rfl
    · split at h
      · cases h
      · rename_i h4
        obtain ⟨a, b, c, r, hd, _⟩ := data3 h4
        subst hd
        simp only [idx24_cons3, bind_ok] at h
        split at h
        · cases h
        · rename_i hlen
          rw [sliceFrom_eq (by omega)] at h
          simp only [bind_ok] at h
          simp only [List.length_cons] at hlen hg hL hlt
          have hr : nat24 a b c ≤ r.length := by omega
          cases g with
          | zero => omega
          | succ g' =>
            simp only [Spec.Codec.itemsOk, Spec.Codec.dropVec24, readVec24_cons3 a b c r hr, Option.map_some]
            have hdrop : (a :: b :: c :: r).drop (3 + nat24 a b c) = r.drop (nat24 a b c) := by
              exact drop3 _ a b c r
            rw [hdrop] at h
            refine ih _ _ _ _ g' h ?_ ?_ ?_
            · subst hL; simp only [List.length_drop]; omega
            · simp only [List.length_drop]; omega
            · simp only [List.length_drop]; omega

/-- an accepted certificate message (header `hdr`, anything of that length) has an exact body -/
theorem decCertificateAt_shape (st : Stack) (hdr body : Bytes) {m : Certificate}
    (h : decCertificateAt hdr.length (hdr ++ body) = .ok m) (hb : body.length < 4294967296) :
    Spec.Codec.bodyShape st .certificate body = true := by
  unfold decCertificateAt at h
  split at h
  · cases h
  · rename_i h1
    simp only [List.length_append] at h1
    have hidx := idx24_append_right hdr body 0
    rw [Nat.add_zero] at hidx
    rw [hidx] at h
    match body, h1, hb, h with
    | a :: b :: c :: inner, _, hb, h =>
      simp only [idx24_cons3, bind_ok] at h
      split at h
      · cases h
      · rename_i hlen
        simp only [List.length_append, List.length_cons, ne_eq, Decidable.not_not] at hlen hb
        rw [sliceFrom_append_right hdr _ 3 (by simp)] at h
        simp only [List.drop_succ_cons, List.drop_zero, bind_ok] at h
        cases hc : certCount (inner.length + 1) inner (nat24 a b c) 0 with
        | panic => rw [hc] at h; cases h
        | reject => rw [hc] at h; cases h
        | ok n =>
          have hin : nat24 a b c = inner.length := by omega
          have := itemsOk_of_count _ _ _ _ _ inner.length hc hin (by omega) (Nat.le_refl _)
          simp only [Spec.Codec.bodyShape, Spec.Codec.oneVec24, readVec24_cons3 a b c inner (by omega)]
          rw [hin]
          simp [Spec.Codec.isNil, Spec.Codec.seqOk, this]
    | [], h1, _, _ => simp at h1
    | [_], h1, _, _ => simp at h1
    | [_, _], h1, _, _ => simp at h1

theorem strict_certificate {b : Bytes} {m : Certificate} (h : decCertificateAt 4 b = .ok m)
    (hf : Spec.Codec.framed .tlcp b = true) : Spec.Codec.shape .tlcp .certificate b = true := by
  obtain ⟨t, body, hb, hl⟩ := framed_tlcp_eq hf
  subst hb
  apply shape_tlcp_mk _ _ hl
  have : (t :: (be24 body.length ++ body)) = (t :: be24 body.length) ++ body := rfl
  rw [this] at h
  exact decCertificateAt_shape .tlcp (t :: be24 body.length) body h (by omega)

theorem many_all {α : Type} (p : Parser α) (P : α → Prop)
    (hp : ∀ s x r, p s = some (x, r) → P x) :
    ∀ (fuel : Nat) (s : Bytes) (xs : List α), many p fuel s = some xs → ∀ x ∈ xs, P x := by
  intro fuel
  induction fuel with
  | zero =>
    intro s xs h
    cases s with
    | nil => simp only [many, Option.some.injEq] at h; subst h; simp
    | cons a t => simp [many] at h
  | succ f ih =>
    intro s xs h
    cases s with
    | nil => simp only [many, Option.some.injEq] at h; subst h; simp
    | cons a t =>
      simp only [many] at h
      cases hps : p (a :: t) with
      | none => rw [hps] at h; cases h
      | some pr =>
        obtain ⟨x, r⟩ := pr
        rw [hps] at h
        simp only at h
        cases hm : many p f r with
        | none => rw [hm] at h; cases h
        | some ys =>
          rw [hm] at h
          simp only [Option.some.injEq] at h
          subst h
          intro y hy
          rcases List.mem_cons.mp hy with hy | hy
          · subst hy; exact hp _ _ _ hps
          · exact ih r ys hm y hy

theorem nonEmptyVec24_eq_some {s c r : Bytes} (h : Spec.Codec.nonEmptyVec24 s = some (c, r)) :
    s = certItem c ++ r ∧ 0 < c.length ∧ c.length < 16777216 := by
  unfold Spec.Codec.nonEmptyVec24 at h
  cases hv : readVec24 s with
  | none => rw [hv] at h; cases h
  | some p =>
    obtain ⟨c', r'⟩ := p
    rw [hv] at h
    simp only at h
    split at h
    · cases h
    · rename_i hne
      simp only [Option.some.injEq, Prod.mk.injEq] at h
      obtain ⟨h1, h2⟩ := h
      subst h1; subst h2
      obtain ⟨hs, hl⟩ := readVec24_eq_some hv
      refine ⟨hs, ?_, hl⟩
      cases c' with
      | nil => simp [Spec.Codec.isNil] at hne
      | cons _ _ => simp

theorem nonEmptyVec24_append {c : Bytes} (h0 : 0 < c.length) (h1 : c.length < 16777216) (r : Bytes) :
    Spec.Codec.nonEmptyVec24 (certItem c ++ r) = some (c, r) := by
  unfold Spec.Codec.nonEmptyVec24 certItem
  rw [readVec24_append h1]
  cases c with
  | nil => simp at h0
  | cons _ _ => simp [Spec.Codec.isNil]

theorem allB_nonempty_of {certs : List Bytes} (h : ∀ x ∈ certs, 0 < x.length ∧ x.length < 16777216) :
    Spec.Codec.allB (fun c => decide (0 < c.length)) certs = true := by
  simp only [Spec.Codec.allB, List.all_eq_true, decide_eq_true_eq]
  intro x hx; exact (h x hx).1

theorem length_le_concat (l : List Bytes) (x : Bytes) (hx : x ∈ l) : x.length ≤ (concatMap certItem l).length := by
  induction l with
  | nil => cases hx
  | cons y ys ih =>
    simp only [concatMap, List.length_append, certItem_length]
    rcases List.mem_cons.mp hx with hx | hx
    · subst hx; omega
    · have := ih hx; omega

theorem canon_certificate (c : Codes) (ht : c.tCertificate = 11) (hhl : c.hl = 4) {b : Bytes} {h : DHdr} {m : Certificate}
    (hs : Spec.Codec.strictCertificate .tlcp b = some (h, m)) :
    encCertificate c m = some b ∧ decCertificate c b = .ok m ∧ Spec.Codec.wfCertificate m = true := by
  unfold Spec.Codec.strictCertificate at hs
  cases hsh : Spec.Codec.strictHeader .tlcp .certificate b with
  | none => rw [hsh] at hs; cases hs
  | some p =>
    obtain ⟨hd, body⟩ := p
    rw [hsh] at hs
    simp only at hs
    cases hv : readVec24 body with
    | none => rw [hv] at hs; cases hs
    | some q =>
      obtain ⟨lst, r⟩ := q
      rw [hv] at hs
      cases r with
      | cons x xs => simp at hs
      | nil =>
        simp only at hs
        cases hm : many Spec.Codec.nonEmptyVec24 lst.length lst with
        | none => rw [hm] at hs; cases hs
        | some cs =>
          rw [hm] at hs
          simp only [Option.some.injEq, Prod.mk.injEq] at hs
          obtain ⟨_, hmm⟩ := hs
          subst hmm
          obtain ⟨hb, hl, _⟩ := strictHeader_tlcp_eq hsh
          obtain ⟨hbody, hll⟩ := readVec24_eq_some hv
          rw [List.append_nil] at hbody
          have hlst := many_eq_some Spec.Codec.nonEmptyVec24 certItem
            (fun s x r hh => (nonEmptyVec24_eq_some hh).1) _ _ _ hm
          have hok : CertsOk cs := many_all Spec.Codec.nonEmptyVec24 (fun x => 0 < x.length ∧ x.length < 16777216)
            (fun s x r hh => (nonEmptyVec24_eq_some hh).2) _ _ _ hm
          have hk : Kind.certificate.code = c.tCertificate := by rw [ht]; rfl
          rw [hk] at hb
          have hbody' : body = encCertificateBody ⟨cs⟩ := by
            rw [hbody, hlst]; simp [encCertificateBody]
          refine ⟨?_, ?_, ?_⟩
          · simp only [encCertificate]; rw [hb, hbody']
          · have := rt_certificateAt (u8 c.tCertificate :: be24 body.length) ⟨cs⟩ hok (by rw [← hlst]; exact hll)
            simp only [List.length_cons, be24_length] at this
            rw [decCertificate, hhl, hb, hbody']
            exact this
          · have hsum : Spec.Codec.sumLen cs 3 = lst.length := by rw [sumLen_eq, hlst]
            have hbl : body.length = 3 + lst.length := by rw [hbody]; simp [be24]; omega
            simp only [Spec.Codec.wfCertificate, allB_nonempty_of hok, hsum, Bool.true_and, decide_eq_true_eq]
            omega

theorem complete_certificate (c : Codes) (ht : c.tCertificate = 11) (m : Certificate)
    (hw : Spec.Codec.wfCertificate m = true) :
    ∃ b, encCertificate c m = some b ∧ Spec.Codec.strictCertificate .tlcp b = some (zeroH, m) ∧
      CertsOk m.certs ∧ (concatMap certItem m.certs).length < 16777216 := by
  simp only [Spec.Codec.wfCertificate, Bool.and_eq_true, decide_eq_true_eq, Spec.Codec.allB, List.all_eq_true] at hw
  obtain ⟨hne, hsum⟩ := hw
  rw [sumLen_eq] at hsum
  have hok : CertsOk m.certs := by
    intro x hx
    refine ⟨hne x hx, ?_⟩
    have := length_le_concat m.certs x hx
    omega
  refine ⟨_, rfl, ?_, hok, by omega⟩
  have hk : c.tCertificate = Kind.certificate.code := by rw [ht]; rfl
  have hbl : (encCertificateBody m).length < 16777216 := by simp [encCertificateBody, be24]; omega
  unfold Spec.Codec.strictCertificate
  rw [hk, strictHeader_tlcp_mk _ hbl]
  have hv := readVec24_append (c := concatMap certItem m.certs) (by omega) ([] : Bytes)
  simp only [List.append_nil] at hv
  simp only [encCertificateBody, hv]
  have hm := many_concatMap Spec.Codec.nonEmptyVec24 certItem (fun x => 0 < x.length ∧ x.length < 16777216)
    (fun x r hx => nonEmptyVec24_append hx.1 hx.2 r)
    (fun x _ => by simp [certItem, be24]) m.certs (concatMap certItem m.certs).length hok (concat_ge_length _)
  rw [hm]

/-! ### certificate request (hand-indexed, both stacks) -/

def CasOk (cas : List Bytes) : Prop := ∀ x ∈ cas, x.length < 65536

theorem caItem_length (x : Bytes) : (caItem x).length = 2 + x.length := by
  simp [caItem, be16]; omega

theorem cas_ge_length (cas : List Bytes) : cas.length ≤ (concatMap caItem cas).length := by
  induction cas with
  | nil => simp [concatMap]
  | cons x xs ih => simp only [concatMap, List.length_append, caItem_length, List.length_cons]; omega

theorem casLoop_enc (cas : List Bytes) (hc : CasOk cas) :
    ∀ fuel, cas.length < fuel → casLoop fuel (concatMap caItem cas) = .ok cas := by
  induction cas with
  | nil => intro fuel hf; cases fuel with
    | zero => omega
    | succ f => simp [concatMap, casLoop]
  | cons x xs ih =>
    intro fuel hf
    cases fuel with
    | zero => omega
    | succ f =>
      have hx := hc x List.mem_cons_self
      have hxs : CasOk xs := fun y hy => hc y (List.mem_cons_of_mem _ hy)
      have h0 : ¬ ((concatMap caItem (x :: xs)).length = 0) := by
        simp only [concatMap, List.length_append, caItem_length]; omega
      have h2 : ¬ ((concatMap caItem (x :: xs)).length < 2) := by
        simp only [concatMap, List.length_append, caItem_length]; omega
      have hidx : idx16 (concatMap caItem (x :: xs)) 0 = .ok x.length := by
        simp only [concatMap, caItem, List.append_assoc]; exact idx16_be16 hx _
      have hs1 : sliceFrom (concatMap caItem (x :: xs)) 2 = .ok (x ++ concatMap caItem xs) := by
        rw [sliceFrom_eq (by omega)]; simp [concatMap, caItem, be16]
      have hlt : ¬ ((x ++ concatMap caItem xs).length < x.length) := by simp
      have hs2 : slice (x ++ concatMap caItem xs) 0 x.length = .ok x := by
        rw [slice_eq (by omega) (by simp)]; simp
      have hs3 : sliceFrom (x ++ concatMap caItem xs) x.length = .ok (concatMap caItem xs) := by
        rw [sliceFrom_eq (by simp)]; simp
      simp only [casLoop, h0, ↓reduceIte, h2, hidx, bind_ok, hs1, hlt, hs2, hs3,
        ih hxs f (by simp at hf; omega), pure_eq]

theorem casLoop_ne_panic : ∀ (f : Nat) (cas : Bytes), casLoop f cas ≠ .panic := by
  intro f
  induction f with
  | zero => intro cas; simp [casLoop]
  | succ f ih =>
    intro cas
    unfold casLoop
    split
    · simp
    · split
      · simp
      · rename_i h0 h2
        rw [idx16_eq (by omega), sliceFrom_eq (by omega)]
        simp only [bind_ok]
        split
        · simp
        · rename_i hlen
          rw [slice_eq (by omega) (by omega), sliceFrom_eq (by omega)]
          simp only [bind_ok]
          cases hr : casLoop f _ with
          | panic => exact absurd hr (ih _)
          | reject => simp
          | ok l => simp

/-- decoding `t :: be24 |body| ++ ext ++ body` where the header is `4 + |ext|` bytes long -/
theorem rt_certificateRequestAt (t : UInt8) (ext : Bytes) (m : CertificateRequest)
    (ht : 0 < m.types.length ∧ m.types.length < 256) (hc : CasOk m.cas)
    (hcl : (concatMap caItem m.cas).length < 65536) :
    decCertificateRequestAt (4 + ext.length)
      ((t :: (be24 (encCertificateRequestBody m).length ++ ext)) ++ encCertificateRequestBody m) = .ok m := by
  have hbl : (encCertificateRequestBody m).length = 1 + m.types.length + 2 + (concatMap caItem m.cas).length := by
    simp [encCertificateRequestBody, be16]; omega
  have hbl2 : (encCertificateRequestBody m).length < 16777216 := by omega
  have hhl : (t :: (be24 (encCertificateRequestBody m).length ++ ext)).length = 4 + ext.length := by
    simp [be24]; omega
  unfold decCertificateRequestAt
  have h1 : ¬ (((t :: (be24 (encCertificateRequestBody m).length ++ ext)) ++ encCertificateRequestBody m).length < 4 + ext.length + 1) := by
    rw [List.length_append, hhl]; omega
  have h2 : idx24 ((t :: (be24 (encCertificateRequestBody m).length ++ ext)) ++ encCertificateRequestBody m) 1 =
      .ok (encCertificateRequestBody m).length := by
    simp only [be24, List.cons_append, List.nil_append, idx24, idx, List.getElem?_cons_succ, List.getElem?_cons_zero,
      nat24_be24 hbl2]
  have h3 : ¬ (((t :: (be24 (encCertificateRequestBody m).length ++ ext)) ++ encCertificateRequestBody m).length - (4 + ext.length) ≠
      (encCertificateRequestBody m).length) := by
    rw [List.length_append, hhl]; omega
  have h4 : idx ((t :: (be24 (encCertificateRequestBody m).length ++ ext)) ++ encCertificateRequestBody m) (4 + ext.length) =
      .ok (u8 m.types.length) := by
    have := idx_append_right (t :: (be24 (encCertificateRequestBody m).length ++ ext)) (encCertificateRequestBody m) 0
    rw [hhl, Nat.add_zero] at this
    rw [this]; simp [encCertificateRequestBody, idx]
  have h5 : sliceFrom ((t :: (be24 (encCertificateRequestBody m).length ++ ext)) ++ encCertificateRequestBody m) (4 + ext.length + 1) =
      .ok (m.types ++ (be16 (concatMap caItem m.cas).length ++ concatMap caItem m.cas)) := by
    have := sliceFrom_append_right (t :: (be24 (encCertificateRequestBody m).length ++ ext)) (encCertificateRequestBody m) 1 (by omega)
    rw [hhl] at this
    rw [this]; simp [encCertificateRequestBody]
  have hn : (u8 m.types.length).toNat = m.types.length := u8_toNat_of_lt ht.2
  simp only [h1, ↓reduceIte, h2, bind_ok, h3, h4, h5, hn]
  have h6 : ¬ (m.types.length = 0 ∨
      (m.types ++ (be16 (concatMap caItem m.cas).length ++ concatMap caItem m.cas)).length ≤ m.types.length) := by
    rw [List.length_append, List.length_append, be16_length]; omega
  have h7 : (m.types ++ (be16 (concatMap caItem m.cas).length ++ concatMap caItem m.cas)).take m.types.length = m.types := by
    simp
  have h8 : sliceFrom (m.types ++ (be16 (concatMap caItem m.cas).length ++ concatMap caItem m.cas)) m.types.length =
      .ok (be16 (concatMap caItem m.cas).length ++ concatMap caItem m.cas) := by
    rw [sliceFrom_eq (by simp)]; simp
  simp only [h6, ↓reduceIte, h7, ne_eq, not_true_eq_false, h8, bind_ok]
  have h9 : ¬ ((be16 (concatMap caItem m.cas).length ++ concatMap caItem m.cas).length < 2) := by simp [be16]
  have h10 : sliceFrom (be16 (concatMap caItem m.cas).length ++ concatMap caItem m.cas) 2 = .ok (concatMap caItem m.cas) := by
    rw [sliceFrom_eq (by simp [be16])]; simp [be16]
  have h11 : sliceFrom (concatMap caItem m.cas) (concatMap caItem m.cas).length = .ok [] := by
    rw [sliceFrom_eq (Nat.le_refl _)]; simp
  have h12 := casLoop_enc m.cas hc ((concatMap caItem m.cas).length + 1) (by have := cas_ge_length m.cas; omega)
  simp only [h9, ↓reduceIte, idx16_be16 hcl, bind_ok, h10, Nat.lt_irrefl, List.take_length, h11, h12, List.length_nil]

theorem total_certificateRequestAt (hl : Nat) (h3 : 3 ≤ hl) (data : Bytes) : decCertificateRequestAt hl data ≠ .panic := by
  unfold decCertificateRequestAt
  split
  · simp
  · rename_i h1
    rw [idx24_eq (by omega)]
    simp only [bind_ok]
    split
    · simp
    · rw [idx_eq (by omega), sliceFrom_eq (by omega)]
      simp only [bind_ok]
      split
      · simp
      · rename_i hn
        split
        · simp
        · rw [sliceFrom_eq (by simp only [List.length_drop] at hn ⊢; omega)]
          simp only [bind_ok]
          split
          · simp
          · rename_i h2
            rw [idx16_eq (by omega), sliceFrom_eq (by omega)]
            simp only [bind_ok]
            split
            · simp
            · rename_i hcl
              rw [sliceFrom_eq (by omega)]
              simp only [bind_ok]
              cases hr : casLoop _ _ with
              | panic => exact absurd hr (casLoop_ne_panic _ _)
              | reject => simp
              | ok l => simp only [bind_ok]; split <;> simp

theorem readVec16_cons2 (a b : UInt8) (r : Bytes) (h : nat16 a b ≤ r.length) :
    readVec16 (a :: b :: r) = some (r.take (nat16 a b), r.drop (nat16 a b)) := by
  simp [readVec16, readU16, readBytes, h]

theorem data2 {d : Bytes} (h : ¬ d.length < 2) : ∃ a b r, d = a :: b :: r := by
  match d, h with
  | a :: b :: r, _ => exact ⟨a, b, r, rfl⟩
  | [], h => simp at h
  | [_], h => simp at h

theorem itemsOk_of_casLoop : ∀ (f : Nat) (cas : Bytes) (l : List Bytes) (g : Nat),
    casLoop f cas = .ok l → cas.length ≤ g → Spec.Codec.itemsOk Spec.Codec.dropVec16 g cas = true := by
  intro f
  induction f with
  | zero => intro cas l g h; simp [casLoop] at h
  | succ f ih =>
    intro cas l g h hg
    unfold casLoop at h
    split at h
    · rename_i h0
      have : cas = [] := List.eq_nil_of_length_eq_zero h0
      subst this
      cases g <;> rfl
    · split at h
      · cases h
      · rename_i h0 h2
        obtain ⟨a, b, r, hd⟩ := data2 h2
        subst hd
        simp only [idx16, idx, List.getElem?_cons_zero, List.getElem?_cons_succ, bind_ok, sliceFrom,
          List.length_cons, Nat.le_add_left, ↓reduceIte, List.drop_succ_cons, List.drop_zero] at h
        split at h
        · cases h
        · rename_i hlen
          have hr : nat16 a b ≤ r.length := by omega
          rw [slice_eq (by omega) hr] at h
          simp only [hr, ↓reduceIte, bind_ok] at h
          cases hrec : casLoop f (r.drop (nat16 a b)) with
          | panic => rw [hrec] at h; cases h
          | reject => rw [hrec] at h; cases h
          | ok l' =>
            cases g with
            | zero => simp at hg
            | succ g' =>
              simp only [Spec.Codec.itemsOk, Spec.Codec.dropVec16, readVec16_cons2 a b r hr, Option.map_some]
              exact ih _ _ g' hrec (by simp only [List.length_drop, List.length_cons] at hg ⊢; omega)

/-- an accepted certificate request (header `hdr`, anything of that length) has an exact body -/
theorem decCertificateRequestAt_shape (st : Stack) (hdr body : Bytes) {m : CertificateRequest}
    (h : decCertificateRequestAt hdr.length (hdr ++ body) = .ok m) :
    Spec.Codec.bodyShape st .certificateRequest body = true := by
  unfold decCertificateRequestAt at h
  split at h
  · cases h
  · rename_i h1
    cases hi : idx24 (hdr ++ body) 1 with
    | panic => rw [hi] at h; cases h
    | reject => rw [hi] at h; cases h
    | ok length =>
      rw [hi] at h
      simp only [bind_ok] at h
      split at h
      · cases h
      · have hidx := idx_append_right hdr body 0
        rw [Nat.add_zero] at hidx
        rw [hidx] at h
        simp only [List.length_append] at h1
        cases body with
        | nil => simp at h1
        | cons n d =>
          rw [sliceFrom_append_right hdr _ 1 (by simp)] at h
          simp only [idx, List.getElem?_cons_zero, bind_ok, List.drop_succ_cons, List.drop_zero] at h
          split at h
          · cases h
          · rename_i hn
            split at h
            · cases h
            · have hnd : n.toNat ≤ d.length := by omega
              rw [sliceFrom_eq hnd] at h
              simp only [bind_ok] at h
              split at h
              · cases h
              · rename_i h2
                obtain ⟨x, y, d2, hd1⟩ := data2 h2
                rw [hd1] at h
                simp only [idx16, idx, List.getElem?_cons_zero, List.getElem?_cons_succ, bind_ok, sliceFrom,
                  List.length_cons, Nat.le_add_left, ↓reduceIte, List.drop_succ_cons, List.drop_zero] at h
                split at h
                · cases h
                · rename_i hcl
                  have hc : nat16 x y ≤ d2.length := by omega
                  simp only [hc, ↓reduceIte, bind_ok] at h
                  cases hloop : casLoop ((d2.take (nat16 x y)).length + 1) (d2.take (nat16 x y)) with
                  | panic => rw [hloop] at h; cases h
                  | reject => rw [hloop] at h; cases h
                  | ok l =>
                    rw [hloop] at h
                    simp only [bind_ok] at h
                    split at h
                    · rename_i h3
                      have hd3 : d2.drop (nat16 x y) = [] := List.eq_nil_of_length_eq_zero h3
                      have hit := itemsOk_of_casLoop _ _ _ (d2.take (nat16 x y)).length hloop (Nat.le_refl _)
                      simp only [Spec.Codec.bodyShape, Spec.Codec.dropVec8, readVec8, readU8, readBytes, hnd,
                        ↓reduceIte, Option.map_some, hd1, Spec.Codec.oneVec16, readVec16_cons2 x y d2 hc, hd3,
                        Spec.Codec.isNil, Spec.Codec.seqOk, hit, Bool.and_self]
                    · cases h

theorem nonEmptyVec16_eq_some {s c r : Bytes} (h : Spec.Codec.nonEmptyVec16 s = some (c, r)) :
    s = caItem c ++ r ∧ 0 < c.length ∧ c.length < 65536 := by
  unfold Spec.Codec.nonEmptyVec16 at h
  cases hv : readVec16 s with
  | none => rw [hv] at h; cases h
  | some p =>
    obtain ⟨c', r'⟩ := p
    rw [hv] at h
    simp only at h
    split at h
    · cases h
    · rename_i hne
      simp only [Option.some.injEq, Prod.mk.injEq] at h
      obtain ⟨h1, h2⟩ := h
      subst h1; subst h2
      obtain ⟨hs, hl⟩ := readVec16_eq_some hv
      refine ⟨hs, ?_, hl⟩
      cases c' with
      | nil => simp [Spec.Codec.isNil] at hne
      | cons _ _ => simp

theorem nonEmptyVec16_append {c : Bytes} (h0 : 0 < c.length) (h1 : c.length < 65536) (r : Bytes) :
    Spec.Codec.nonEmptyVec16 (caItem c ++ r) = some (c, r) := by
  unfold Spec.Codec.nonEmptyVec16 caItem
  rw [readVec16_append h1]
  cases c with
  | nil => simp at h0
  | cons _ _ => simp [Spec.Codec.isNil]

theorem nonEmptyVec8_eq_some {s c r : Bytes} (h : Spec.Codec.nonEmptyVec8 s = some (c, r)) :
    s = u8 c.length :: (c ++ r) ∧ 0 < c.length ∧ c.length < 256 := by
  unfold Spec.Codec.nonEmptyVec8 at h
  cases hv : readVec8 s with
  | none => rw [hv] at h; cases h
  | some p =>
    obtain ⟨c', r'⟩ := p
    rw [hv] at h
    simp only at h
    split at h
    · cases h
    · rename_i hne
      simp only [Option.some.injEq, Prod.mk.injEq] at h
      obtain ⟨h1, h2⟩ := h
      subst h1; subst h2
      obtain ⟨hs, hl⟩ := readVec8_eq_some hv
      refine ⟨hs, ?_, hl⟩
      cases c' with
      | nil => simp [Spec.Codec.isNil] at hne
      | cons _ _ => simp

theorem nonEmptyVec8_append {c : Bytes} (h0 : 0 < c.length) (h1 : c.length < 256) (r : Bytes) :
    Spec.Codec.nonEmptyVec8 (u8 c.length :: (c ++ r)) = some (c, r) := by
  unfold Spec.Codec.nonEmptyVec8
  have := readVec8_append h1 r
  simp only [List.cons_append] at this
  rw [this]
  cases c with
  | nil => simp at h0
  | cons _ _ => simp [Spec.Codec.isNil]

theorem sumLen2_eq (cas : List Bytes) : Spec.Codec.sumLen cas 2 = (concatMap caItem cas).length := by
  induction cas with
  | nil => rfl
  | cons x xs ih =>
    simp only [Spec.Codec.sumLen, List.foldr_cons, concatMap, List.length_append, caItem_length] at ih ⊢
    omega

/-- the body the spec's strict certificate-request decoder accepts is the encoder's -/
theorem strictCertReq_body {body : Bytes} {types lst r : Bytes} {cas : List Bytes}
    (h1 : Spec.Codec.nonEmptyVec8 body = some (types, r)) (h2 : readVec16 r = some (lst, []))
    (h3 : many Spec.Codec.nonEmptyVec16 lst.length lst = some cas) :
    body = encCertificateRequestBody ⟨types, cas⟩ ∧ (0 < types.length ∧ types.length < 256) ∧
      (∀ x ∈ cas, 0 < x.length ∧ x.length < 65536) ∧ (concatMap caItem cas).length < 65536 := by
  obtain ⟨hb, ht0, ht1⟩ := nonEmptyVec8_eq_some h1
  obtain ⟨hr, hll⟩ := readVec16_eq_some h2
  rw [List.append_nil] at hr
  have hlst := many_eq_some Spec.Codec.nonEmptyVec16 caItem (fun s x r hh => (nonEmptyVec16_eq_some hh).1) _ _ _ h3
  have hok := many_all Spec.Codec.nonEmptyVec16 (fun x => 0 < x.length ∧ x.length < 65536)
    (fun s x r hh => (nonEmptyVec16_eq_some hh).2) _ _ _ h3
  refine ⟨?_, ⟨ht0, ht1⟩, hok, by rw [← hlst]; exact hll⟩
  rw [hb, hr, hlst]; rfl

theorem canon_certificateRequest (c : Codes) (ht : c.tCertificateRequest = 13) (hhl : c.hl = 4)
    {b : Bytes} {h : DHdr} {m : CertificateRequest}
    (hs : Spec.Codec.strictCertificateRequest .tlcp b = some (h, m)) :
    encCertificateRequest c m = some b ∧ decCertificateRequest c b = .ok m ∧
      Spec.Codec.wfCertificateRequest m = true := by
  unfold Spec.Codec.strictCertificateRequest at hs
  cases hsh : Spec.Codec.strictHeader .tlcp .certificateRequest b with
  | none => rw [hsh] at hs; cases hs
  | some p =>
    obtain ⟨hd, body⟩ := p
    rw [hsh] at hs
    simp only at hs
    cases h1 : Spec.Codec.nonEmptyVec8 body with
    | none => rw [h1] at hs; cases hs
    | some q =>
      obtain ⟨types, r⟩ := q
      rw [h1] at hs
      simp only at hs
      cases h2 : readVec16 r with
      | none => rw [h2] at hs; cases hs
      | some q2 =>
        obtain ⟨lst, r2⟩ := q2
        rw [h2] at hs
        cases r2 with
        | cons x xs => simp at hs
        | nil =>
          simp only at hs
          cases h3 : many Spec.Codec.nonEmptyVec16 lst.length lst with
          | none => rw [h3] at hs; cases hs
          | some cas =>
            rw [h3] at hs
            simp only [Option.some.injEq, Prod.mk.injEq] at hs
            obtain ⟨_, hmm⟩ := hs
            subst hmm
            obtain ⟨hb, hl, _⟩ := strictHeader_tlcp_eq hsh
            obtain ⟨hbody, hty, hok, hcl⟩ := strictCertReq_body h1 h2 h3
            have hk : Kind.certificateRequest.code = c.tCertificateRequest := by rw [ht]; rfl
            rw [hk] at hb
            refine ⟨?_, ?_, ?_⟩
            · simp only [encCertificateRequest]; rw [hb, hbody]
            · have := rt_certificateRequestAt (u8 c.tCertificateRequest) [] ⟨types, cas⟩ hty
                (fun x hx => (hok x hx).2) hcl
              simp only [List.length_nil, Nat.add_zero, List.append_nil] at this
              rw [decCertificateRequest, hhl, hb, hbody]
              exact this
            · simp only [Spec.Codec.wfCertificateRequest, hty, and_self, decide_true, Bool.true_and,
                sumLen2_eq, hcl, Bool.and_true, Spec.Codec.allB, List.all_eq_true, decide_eq_true_eq]
              intro x hx; exact (hok x hx).1

theorem wfCertReq_parts {m : CertificateRequest} (hw : Spec.Codec.wfCertificateRequest m = true) :
    (0 < m.types.length ∧ m.types.length < 256) ∧ (∀ x ∈ m.cas, 0 < x.length ∧ x.length < 65536) ∧
      (concatMap caItem m.cas).length < 65536 := by
  simp only [Spec.Codec.wfCertificateRequest, Bool.and_eq_true, decide_eq_true_eq, Spec.Codec.allB,
    List.all_eq_true, sumLen2_eq] at hw
  obtain ⟨⟨ht, hne⟩, hsum⟩ := hw
  refine ⟨ht, ?_, hsum⟩
  intro x hx
  refine ⟨hne x hx, ?_⟩
  have : x.length ≤ (concatMap caItem m.cas).length := by
    generalize m.cas = l at hx
    induction l with
    | nil => cases hx
    | cons y ys ih =>
      simp only [concatMap, List.length_append, caItem_length]
      rcases List.mem_cons.mp hx with hx | hx
      · subst hx; omega
      · have := ih hx; omega
  omega

theorem complete_certificateRequest (c : Codes) (ht : c.tCertificateRequest = 13) (m : CertificateRequest)
    (hw : Spec.Codec.wfCertificateRequest m = true) :
    ∃ b, encCertificateRequest c m = some b ∧ Spec.Codec.strictCertificateRequest .tlcp b = some (zeroH, m) := by
  obtain ⟨hty, hok, hcl⟩ := wfCertReq_parts hw
  refine ⟨_, rfl, ?_⟩
  have hk : c.tCertificateRequest = Kind.certificateRequest.code := by rw [ht]; rfl
  have hbl : (encCertificateRequestBody m).length < 16777216 := by
    simp [encCertificateRequestBody, be16]; omega
  unfold Spec.Codec.strictCertificateRequest
  rw [hk, strictHeader_tlcp_mk _ hbl]
  simp only [encCertificateRequestBody, nonEmptyVec8_append hty.1 hty.2]
  have hv := readVec16_append hcl ([] : Bytes)
  simp only [List.append_nil] at hv
  rw [hv]
  have hm := many_concatMap Spec.Codec.nonEmptyVec16 caItem (fun x => 0 < x.length ∧ x.length < 65536)
    (fun x r hx => nonEmptyVec16_append hx.1 hx.2 r)
    (fun x _ => by simp [caItem, be16]) m.cas (concatMap caItem m.cas).length hok (cas_ge_length _)
  simp only [hm]

/-! ### the tlcp complete-message guard (repair F18b) -/

theorem tlcpIsComplete_ne_panic (data : Bytes) (t : Nat) : tlcpIsCompleteMessage data t ≠ .panic := by
  unfold tlcpIsCompleteMessage
  split
  · simp
  · rename_i h
    obtain ⟨a, b, c, e, r, hd⟩ := data4 h
    subst hd
    simp only [idx, List.getElem?_cons_zero, bind_ok, idx24, List.getElem?_cons_succ]
    split <;> simp

theorem tlcpIsComplete_mk (t : Nat) {body : Bytes} (hl : body.length < 16777216) :
    tlcpIsCompleteMessage (u8 t :: (be24 body.length ++ body)) t = .ok true := by
  simp [tlcpIsCompleteMessage, be24, idx, idx24, nat24_be24 hl]

theorem tlcpIsComplete_true {data : Bytes} {t : Nat} (h : tlcpIsCompleteMessage data t = .ok true) :
    ∃ body, data = u8 t :: (be24 body.length ++ body) ∧ body.length < 16777216 := by
  unfold tlcpIsCompleteMessage at h
  split at h
  · simp at h
  · rename_i hl
    obtain ⟨a, b, c, e, r, hd⟩ := data4 hl
    subst hd
    simp only [idx, List.getElem?_cons_zero, bind_ok, idx24, List.getElem?_cons_succ] at h
    split at h
    · simp at h
    · rename_i hty
      simp only [ne_eq, Decidable.not_not] at hty
      simp only [List.length_cons, Outcome.ok.injEq, decide_eq_true_eq] at h
      have hn : nat24 b c e = r.length := by omega
      refine ⟨r, ?_, by rw [← hn]; exact nat24_lt _ _ _⟩
      rw [← hn, be24_nat24, hty]; rfl

theorem guardT_pass {α : Type} (c : Codes) (t : Nat) {body : Bytes} (hl : body.length < 16777216) (k : Outcome α) :
    guardT c t (u8 t :: (be24 body.length ++ body)) k = k := by
  unfold guardT guardWith
  split
  · rw [tlcpIsComplete_mk t hl]
  · rfl

theorem guardT_ok {α : Type} {c : Codes} {t : Nat} {data : Bytes} {k : Outcome α} {m : α}
    (hon : c.complete.contains t = true) (h : guardT c t data k = .ok m) :
    k = .ok m ∧ ∃ body, data = u8 t :: (be24 body.length ++ body) ∧ body.length < 16777216 := by
  unfold guardT guardWith at h
  rw [hon] at h
  simp only [↓reduceIte] at h
  split at h
  · rename_i hc
    exact ⟨h, tlcpIsComplete_true hc⟩
  · cases h
  · cases h
  · cases h

theorem guardT_ne_panic {α : Type} (c : Codes) (t : Nat) (data : Bytes) {k : Outcome α} (hk : k ≠ .panic) :
    guardT c t data k ≠ .panic := by
  unfold guardT guardWith
  split
  · split
    · exact hk
    · simp
    · simp
    · rename_i hc; exact absurd hc (tlcpIsComplete_ne_panic _ _)
  · exact hk

/-- what the guard gives: the accepted input is well framed -/
theorem framed_of_guardT {α : Type} {c : Codes} {t : Nat} {data : Bytes} {k : Outcome α} {m : α}
    (hon : c.complete.contains t = true) (h : guardT c t data k = .ok m) :
    k = .ok m ∧ Spec.Codec.framed .tlcp data = true := by
  obtain ⟨hk, body, hd, hl⟩ := guardT_ok hon h
  subst hd
  exact ⟨hk, framed_tlcp_mk _ hl⟩

/-- every strict decoder starts with `strictHeader` -/
theorem strictBlob_header {st : Stack} {k : Kind} {b : Bytes} {h : DHdr} {m : Blob}
    (hs : Spec.Codec.strictBlob st k b = some (h, m)) : ∃ hd body, Spec.Codec.strictHeader st k b = some (hd, body) := by
  unfold Spec.Codec.strictBlob at hs
  cases hsh : Spec.Codec.strictHeader st k b with
  | none => rw [hsh] at hs; cases hs
  | some p => exact ⟨p.1, p.2, rfl⟩

theorem strictServerHelloDone_header {st : Stack} {b : Bytes} {h : DHdr}
    (hs : Spec.Codec.strictServerHelloDone st b = some (h, ())) :
    ∃ hd body, Spec.Codec.strictHeader st .serverHelloDone b = some (hd, body) := by
  unfold Spec.Codec.strictServerHelloDone at hs
  cases hsh : Spec.Codec.strictHeader st .serverHelloDone b with
  | none => rw [hsh] at hs; simp at hs
  | some p => exact ⟨p.1, p.2, rfl⟩

theorem strictCertificate_header {st : Stack} {b : Bytes} {h : DHdr} {m : Certificate}
    (hs : Spec.Codec.strictCertificate st b = some (h, m)) :
    ∃ hd body, Spec.Codec.strictHeader st .certificate b = some (hd, body) := by
  unfold Spec.Codec.strictCertificate at hs
  cases hsh : Spec.Codec.strictHeader st .certificate b with
  | none => rw [hsh] at hs; cases hs
  | some p => exact ⟨p.1, p.2, rfl⟩

theorem strictCertificateRequest_header {st : Stack} {b : Bytes} {h : DHdr} {m : CertificateRequest}
    (hs : Spec.Codec.strictCertificateRequest st b = some (h, m)) :
    ∃ hd body, Spec.Codec.strictHeader st .certificateRequest b = some (hd, body) := by
  unfold Spec.Codec.strictCertificateRequest at hs
  cases hsh : Spec.Codec.strictHeader st .certificateRequest b with
  | none => rw [hsh] at hs; cases hs
  | some p => exact ⟨p.1, p.2, rfl⟩

/-- the guard lets through whatever has a strict tlcp header of that kind -/
theorem guardT_of_strictHeader {α : Type} (c : Codes) {k : Kind} {t : Nat} (ht : t = k.code) {b : Bytes} {hd : DHdr}
    {body : Bytes} (hsh : Spec.Codec.strictHeader .tlcp k b = some (hd, body)) (K : Outcome α) :
    guardT c t b K = K := by
  obtain ⟨hb, hl, _⟩ := strictHeader_tlcp_eq hsh
  subst hb; subst ht
  exact guardT_pass c _ hl K

end Gotlcp.Lemmas.Codec

/-
Kernel evaluation of the executable model `Gotlcp.Model.Flights` over every small fault pattern
(C19 liveness, PARTIAL).  The evaluations are stated for the literal parameter record `repairedAt`
(what the facts extracted from the repaired tree amount to); `Props/C19.lean` proves that the
regenerated facts give exactly this record, so these modules are re-checked only when the model changes
while a moved fact breaks the equality there.  `decide +kernel` = plain `decide` evaluated by the kernel
(no `native_decide`, no extra axiom).  The 2-fault patterns are split over four modules
(`FlightsEval2*.lean`, by resumed × tie) so that lake checks them in parallel.
-/
import Gotlcp.Model.Flights
import Gotlcp.Spec.FlightsSpec

namespace Gotlcp.Lemmas.FlightsEval
open Gotlcp.Model.Flights
open Gotlcp.Spec.Flights (budget)

/-- the model parameters of the repaired tree, as literals -/
def repairedAt (init max : Nat) (resume auth : Bool) : Params :=
  { init := init, max := max, resume := resume, auth := auth,
    law := ⟨2, true⟩, helloLaw := ⟨2, true⟩,
    cookieBreakLeaves := true, dupHvrBreakLeaves := false,
    dropBadAfterHandshake := true, firstRecordOnlyEmptyHand := true,
    appNeedsComplete := true, serverResumeArmsTimer := false }

def bools : List Bool := [false, true]

/-- one run, judged as the spec judges it (unit timer setting: initial 1, max 4, horizon 24), outside
`KnownFatal`: both complete within the first |fs| timeouts of the schedule, data flows both ways, both
hashed the same ClientHello, nothing was handed over by an incomplete end -/
def patternOkP (p : Params) (tie : Bool) (fs : List Fault) : Bool :=
  let n := run p fs tie 24
  KnownFatal p.resume n.hits ||
    (success n && n.c.tag == n.s.tag &&
      (match n.c.hsAt, n.s.hsAt with
       | some a, some b => decide (a ≤ budget 1 4 fs.length) && decide (b ≤ budget 1 4 fs.length)
       | _, _ => false) &&
      !(decide (n.c.delivered > 0) && !n.c.complete) && !(decide (n.s.delivered > 0) && !n.s.complete))

/-- all patterns of a list, for one (resumed, tie) and both client-auth settings -/
def sliceOk (mk : Bool → Bool → Params) (r t : Bool) (pats : List (List Fault)) : Bool :=
  bools.all fun a => pats.all fun fs => patternOkP (mk r a) t fs

def noFaultOkP (p : Params) (tie : Bool) : Bool :=
  let n := run p [] tie (6 * p.max)
  success n && n.c.timeouts == 0 && n.s.timeouts == 0 && n.c.hsAt == some 0 && n.s.hsAt == some 0 &&
    n.c.tag == n.s.tag

/-- timer settings (initial, max) for which the fault-free statement is evaluated: the unit setting, the
driver's, the documented defaults (1 s / 60 s, in ms), a setting where the cap equals the initial value,
and a small initial value with the default cap -/
def settings : List (Nat × Nat) := [(1, 4), (1000, 4000), (1000, 60000), (1, 1), (500, 60000)]

theorem noFault_all :
    (bools.all fun r => bools.all fun a => bools.all fun t => settings.all fun im =>
      noFaultOkP (repairedAt im.1 im.2 r a) t) = true := by decide +kernel

def pats1 : List (List Fault) := [] :: (singleFaults 6).map ([·])
def pats2 : List (List Fault) := pairsOf (singleFaults 6)

theorem single_all :
    (bools.all fun r => bools.all fun t => sliceOk (repairedAt 1 4) r t pats1) = true := by decide +kernel

end Gotlcp.Lemmas.FlightsEval

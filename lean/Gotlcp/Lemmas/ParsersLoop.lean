/-
Helper lemmas for C09 (b), (c): what one pass through the stream-stack receive loops does to
the remaining input, the retry counter and the buffers (`Gotlcp.Model.ParsersLoop`).
-/
import Gotlcp.Model.ParsersLoop
import Gotlcp.Lemmas.Parsers

namespace Gotlcp.Lemmas.ParsersLoop
open Gotlcp Gotlcp.Model.Parsers Gotlcp.Model.ParsersLoop Gotlcp.Lemmas.Parsers

/-! ### the transport -/

theorem readSize_pos (lib : Lib) (w : Bytes) (h : w.length ≠ 0) :
    1 ≤ readSize lib w ∧ readSize lib w ≤ w.length := by
  unfold readSize
  simp only
  split
  · omega
  · split <;> omega

theorem readSize_le (lib : Lib) (cm : Nat) (hc : ∀ m, lib.seg m ≤ cm) (h1 : 1 ≤ cm) (w : Bytes) :
    readSize lib w ≤ cm := by
  unfold readSize
  simp only
  have := hc w.length
  split
  · omega
  · split <;> omega

/-- `fill` moves bytes from the wire to the raw buffer: nothing is lost or invented -/
theorem fill_total (lib : Lib) (n : Nat) (w r : Bytes) :
    (fill lib w r n).1.length + (fill lib w r n).2.1.length = w.length + r.length := by
  induction w, r using fill.induct lib n with
  | case1 w r h => unfold fill; simp [h]
  | case2 w r h h0 => unfold fill; simp [h, h0]
  | case3 w r h h0 k hk ih =>
    unfold fill
    simp only [h, h0, ↓reduceIte]
    simp only [k] at hk ih
    simp only [hk, ↓reduceDIte]
    rw [ih]
    simp only [List.length_drop, List.length_append, List.length_take]
    have := readSize_pos lib w h0
    omega
  | case4 w r h h0 k hk =>
    exfalso
    have := readSize_pos lib w h0
    simp only [k, List.length_drop] at hk
    omega

/-- a successful `fill` leaves at least `n` bytes in the raw buffer -/
theorem fill_ok (lib : Lib) (n : Nat) (w r : Bytes) (h : (fill lib w r n).2.2 = true) :
    n ≤ (fill lib w r n).2.1.length := by
  induction w, r using fill.induct lib n with
  | case1 w r h' => unfold fill; simp only [h', ↓reduceIte]
  | case2 w r h' h0 => unfold fill at h; simp [h', h0] at h
  | case3 w r h' h0 k hk ih =>
    unfold fill at h ⊢
    simp only [h', h0, ↓reduceIte] at h ⊢
    simp only [k] at hk ih
    simp only [hk, ↓reduceDIte] at h ⊢
    exact ih h
  | case4 w r h' h0 k hk =>
    exfalso
    have := readSize_pos lib w h0
    simp only [k, List.length_drop] at hk
    omega

/-- the raw buffer never holds more than what was asked for plus one transport read -/
theorem fill_raw_le (lib : Lib) (cm : Nat) (hc : ∀ m, lib.seg m ≤ cm) (h1 : 1 ≤ cm) (n : Nat) (w r : Bytes) (B : Nat)
    (hr : r.length ≤ B) (hn : n + cm ≤ B + 1) : (fill lib w r n).2.1.length ≤ B := by
  induction w, r using fill.induct lib n with
  | case1 w r h' => unfold fill; simp only [h', ↓reduceIte]; exact hr
  | case2 w r h' h0 => unfold fill; simp only [h', h0, ↓reduceIte]; exact hr
  | case3 w r h' h0 k hk ih =>
    unfold fill
    simp only [h', h0, ↓reduceIte]
    simp only [k] at hk ih
    simp only [hk, ↓reduceDIte]
    apply ih
    have := readSize_le lib cm hc h1 w
    simp only [List.length_append, List.length_take]
    omega
  | case4 w r h' h0 k hk =>
    exfalso
    have := readSize_pos lib w h0
    simp only [k, List.length_drop] at hk
    omega

theorem fill_raw_ge (lib : Lib) (n : Nat) (w r : Bytes) : r.length ≤ (fill lib w r n).2.1.length := by
  induction w, r using fill.induct lib n with
  | case1 w r h' => unfold fill; simp [h']
  | case2 w r h' h0 => unfold fill; simp [h', h0]
  | case3 w r h' h0 k hk ih =>
    unfold fill
    simp only [h', h0, ↓reduceIte]
    simp only [k] at hk ih
    simp only [hk, ↓reduceDIte]
    refine Nat.le_trans ?_ ih
    simp
  | case4 w r h' h0 k hk =>
    exfalso
    have := readSize_pos lib w h0
    simp only [k, List.length_drop] at hk
    omega

/-! ### one pass through readRecordOrCCS -/

/-- everything `dispatch` can do to a state -/
theorem dispatch_spec (L : Limits) (s : St) (e : Bool) (typ : UInt8) (data : Bytes) :
    let r := dispatch L s e typ data
    r.1.wire = s.wire ∧ r.1.raw = s.raw ∧ r.1.complete = s.complete ∧
    (r.2 = .retry → r.1.retry = s.retry ∧ r.1.hand = s.hand) ∧
    (r.1.retry = s.retry ∨ r.1.retry = 0) ∧
    (r.1.hand = s.hand ∨
      (r.1.hand = s.hand ++ data ∧ 1 ≤ data.length ∧ data.length ≤ L.maxPlaintext ∧
       ¬(s.complete = true ∧ L.refusePostHs = true) ∧ r.2 = .done (.ok ()) ∧ e = false)) ∧
    r.2 ≠ .done .panic ∧ r.2 ≠ .done (.err .stuck) := by
  unfold dispatch
  simp only [setErr]
  split
  · simp
  split
  · simp
  split
  · split
    · simp
    · rename_i h2
      have h2' : data.length = 2 := by omega
      rw [idx_lt (by omega), idx_lt (by omega)]
      simp only
      split
      · simp
      · split <;> simp
  split
  · split
    · simp
    · rename_i h1
      have h1' : data.length = 1 := by omega
      rw [idx_lt (by omega)]
      simp only
      repeat (split <;> try (simp; done))
  split
  · repeat (split <;> try (simp; done))
    all_goals (simp; try omega)
  split
  · repeat (split <;> try (simp; done))
    all_goals (first | (simp; done) | (cases data <;> simp_all; done) | skip)
  · cases data <;> simp

/-- everything `fetch` can do to a state; `B` is any bound on the raw buffer that leaves room
for one maximum record plus one transport read of at most `cm` bytes -/
theorem fetch_spec (L : Limits) (lib : Lib) (s : St) (h5 : 5 ≤ L.hdr) :
    let r := fetch L lib s
    r.1.total ≤ s.total ∧
    r.1.hand = s.hand ∧ r.1.retry = s.retry ∧ r.1.complete = s.complete ∧ r.1.input = s.input ∧
    (∀ h rec, r.2 = .got h rec → r.1.total + L.hdr ≤ s.total ∧ rec.length = L.hdr + h.n ∧ r.1.inErr = s.inErr) ∧
    (∀ p, r.2 = .fail p → ∃ e, p = .done (.err e) ∧ e ≠ .stuck) ∧
    (∀ cm B, (∀ m, lib.seg m ≤ cm) → 1 ≤ cm → s.raw.length ≤ B → L.hdr + L.maxCiphertext + cm ≤ B + 1 → r.1.raw.length ≤ B) := by
  unfold fetch
  simp only [setErr, St.total]
  have t1 := fill_total lib L.hdr s.wire s.raw
  have o1 := fill_ok lib L.hdr s.wire s.raw
  have b1 := fun cm B hc h1 hr hn => fill_raw_le lib cm hc h1 L.hdr s.wire s.raw B hr hn
  generalize fill lib s.wire s.raw L.hdr = f1 at *
  obtain ⟨w1, r1, ok1⟩ := f1
  simp only at t1 o1 b1 ⊢
  cases ok1 with
  | false =>
    simp
    refine ⟨by omega, ?_⟩
    intro cm B hc h1 hr hn
    exact b1 cm B hc h1 hr (by omega)
  | true =>
    have hr1 := o1 rfl
    simp only [Bool.not_true, Bool.false_eq_true, ↓reduceIte]
    have hh := headerT_no_panic L.hdr h5 r1 hr1
    cases hhd : headerT L.hdr r1 with
    | panic => exact absurd hhd hh
    | err e =>
      exfalso
      unfold headerT at hhd
      revert hhd
      orun
    | ok h =>
      simp only
      have t2 := fill_total lib (L.hdr + h.n) w1 r1
      have o2 := fill_ok lib (L.hdr + h.n) w1 r1
      have g2 := fill_raw_ge lib (L.hdr + h.n) w1 r1
      have b2 := fun cm B hc h1 hr hn => fill_raw_le lib cm hc h1 (L.hdr + h.n) w1 r1 B hr hn
      generalize fill lib w1 r1 (L.hdr + h.n) = f2 at *
      obtain ⟨w2, r2, ok2⟩ := f2
      simp only at t2 o2 b2 g2 ⊢
      have fin : ∀ (x : St) (e : Why), e ≠ .stuck → x.wire = w1 → x.raw = r1 → x.hand = s.hand → x.retry = s.retry →
          x.complete = s.complete → x.input = s.input →
          (x.wire.length + x.raw.length ≤ s.wire.length + s.raw.length ∧
           x.hand = s.hand ∧ x.retry = s.retry ∧ x.complete = s.complete ∧ x.input = s.input ∧
           (∀ h' rec, Fetched.fail (.done (.err e)) = .got h' rec → x.wire.length + x.raw.length + L.hdr ≤ s.wire.length + s.raw.length ∧ rec.length = L.hdr + h'.n ∧ x.inErr = s.inErr) ∧
           (∀ p, Fetched.fail (.done (.err e)) = .fail p → ∃ e', p = .done (.err e') ∧ e' ≠ .stuck) ∧
           (∀ cm B, (∀ m, lib.seg m ≤ cm) → 1 ≤ cm → s.raw.length ≤ B → L.hdr + L.maxCiphertext + cm ≤ B + 1 → x.raw.length ≤ B)) := by
        intro x e he hw hr hh hrt hc hi
        refine ⟨by rw [hw, hr]; omega, hh, hrt, hc, hi, ?_, ?_, ?_⟩
        · intro _ _ h; cases h
        · intro p hp; cases hp; exact ⟨e, rfl, he⟩
        · intro cm B hcm h1 hrb hn; rw [hr]; exact b1 cm B hcm h1 hrb (by omega)
      split
      · exact fin _ _ (by decide) rfl rfl rfl rfl rfl rfl
      split
      · exact fin _ _ (by decide) rfl rfl rfl rfl rfl rfl
      split
      · exact fin _ _ (by decide) rfl rfl rfl rfl rfl rfl
      split
      · exact fin _ _ (by decide) rfl rfl rfl rfl rfl rfl
      rename_i hn
      cases ok2 with
      | false =>
        simp
        refine ⟨by omega, ?_⟩
        intro cm B hc h1 hr hn'
        exact b2 cm B hc h1 (b1 cm B hc h1 hr (by omega)) (by omega)
      | true =>
        have hr2 := o2 rfl
        simp
        refine ⟨by omega, by omega, ?_⟩
        intro cm B hc h1 hr hn'
        have := b2 cm B hc h1 (b1 cm B hc h1 hr (by omega)) (by omega)
        omega

/-- the effect of one pass through readRecordOrCCS -/
structure StepSpec (L : Limits) (lib : Lib) (s : St) (e : Bool) (s' : St) (p : Pass) : Prop where
  total_le : s'.total ≤ s.total
  consumed : (p = .retry ∨ p = .done (.ok ())) → s'.total + L.hdr ≤ s.total
  retry_keeps : p = .retry → s'.retry = s.retry ∧ s'.hand = s.hand
  retry_cases : s'.retry = s.retry ∨ s'.retry = 0
  hand_cases : s'.hand = s.hand ∨
    (∃ data, s'.hand = s.hand ++ data ∧ 1 ≤ data.length ∧ data.length ≤ L.maxPlaintext ∧
      ¬(s.complete = true ∧ L.refusePostHs = true) ∧ p = .done (.ok ()) ∧ e = false)
  complete_eq : s'.complete = s.complete
  raw_le : ∀ cm B, (∀ m, lib.seg m ≤ cm) → 1 ≤ cm → s.raw.length ≤ B → L.hdr + L.maxCiphertext + cm ≤ B + 1 → s'.raw.length ≤ B
  no_panic : p ≠ .done .panic
  no_stuck : p ≠ .done (.err .stuck)

theorem step_spec (L : Limits) (lib : Lib) (s : St) (e : Bool) (h5 : 5 ≤ L.hdr) :
    StepSpec L lib s e (step L lib s e).1 (step L lib s e).2 := by
  unfold step
  split
  · exact ⟨Nat.le_refl _, by simp, by simp, Or.inl rfl, Or.inl rfl, rfl, fun _ _ _ _ h _ => h, by simp, by simp⟩
  split
  · exact ⟨Nat.le_refl _, by simp, by simp, Or.inl rfl, Or.inl rfl, rfl, fun _ _ _ _ h _ => h, by simp, by simp⟩
  have fs := fetch_spec L lib s h5
  simp only at fs
  obtain ⟨ft, fh, frt, fc, fi, fgot, ffail, fraw⟩ := fs
  generalize fetch L lib s = f at *
  obtain ⟨s1, fd⟩ := f
  simp only at ft fh frt fc fi fgot ffail fraw ⊢
  cases fd with
  | fail p =>
    obtain ⟨e', rfl, hne⟩ := ffail p rfl
    simp only
    exact ⟨ft, by simp, by simp, Or.inl frt, Or.inl fh, fc, fraw, by simp, by simpa using hne⟩
  | got h rec =>
    obtain ⟨g1, g2, g3⟩ := fgot h rec rfl
    simp only
    cases hp : (if s1.prot = true then lib.dec s1.seq rec else some (List.drop L.hdr rec)) with
    | none =>
      simp only [setErr]
      exact ⟨ft, by simp, by simp, Or.inl frt, Or.inl fh, fc, fraw, by simp, by simp⟩
    | some data =>
      simp only
      have ds := dispatch_spec L { s1 with seq := s1.seq + 1 } e h.typ data
      simp only at ds
      obtain ⟨dw, dr, dc, dretry, drc, dhand, dnp, dns⟩ := ds
      generalize dispatch L { s1 with seq := s1.seq + 1 } e h.typ data = d at *
      obtain ⟨s2, p2⟩ := d
      simp only at dw dr dc dretry drc dhand dnp dns ⊢
      have ht : s2.total = s1.total := by simp [St.total, dw, dr]
      refine ⟨by omega, fun _ => by omega, ?_, ?_, ?_, by rw [dc, fc], ?_, dnp, dns⟩
      · intro hr; obtain ⟨a, b⟩ := dretry hr; exact ⟨by rw [a, frt], by rw [b, fh]⟩
      · rcases drc with h1 | h1
        · left; rw [h1, frt]
        · right; exact h1
      · rcases dhand with h1 | ⟨h1, h2, h3, h4, h5', h6⟩
        · left; rw [h1, fh]
        · right; exact ⟨data, by rw [h1, fh], h2, h3, by rw [← fc]; exact h4, h5', h6⟩
      · intro cm B hc h1 hr hn; rw [dr]; exact fraw cm B hc h1 hr hn

/-! ### readRecordOrCCS with its retries -/

/-- the effect of `readRecord` (one record delivered, or an error) -/
structure RecSpec (L : Limits) (lib : Lib) (s : St) (e : Bool) (s' : St) (r : Outcome Unit) : Prop where
  total_le : s'.total ≤ s.total
  consumed : r = .ok () → s'.total + L.hdr ≤ s.total
  hand_cases : s'.hand = s.hand ∨
    (∃ data, s'.hand = s.hand ++ data ∧ 1 ≤ data.length ∧ data.length ≤ L.maxPlaintext ∧
      ¬(s.complete = true ∧ L.refusePostHs = true) ∧ r = .ok () ∧ e = false)
  complete_eq : s'.complete = s.complete
  raw_le : ∀ cm B, (∀ m, lib.seg m ≤ cm) → 1 ≤ cm → s.raw.length ≤ B → L.hdr + L.maxCiphertext + cm ≤ B + 1 → s'.raw.length ≤ B
  no_panic : r ≠ .panic
  no_stuck : r ≠ .err .stuck
  retry_le : s.retry ≤ L.maxUseless → s'.retry ≤ L.maxUseless + 1 ∧ (r = .ok () → s'.retry ≤ L.maxUseless)

theorem readRecord_spec (L : Limits) (lib : Lib) (e : Bool) (h5 : 5 ≤ L.hdr) (s : St) :
    RecSpec L lib s e (readRecord L lib s e).1 (readRecord L lib s e).2 := by
  induction s using readRecord.induct L lib e with
  | case1 s s1 r hs =>
    have sp := step_spec L lib s e h5
    rw [hs] at sp
    unfold readRecord
    simp only [hs]
    refine ⟨sp.total_le, fun h => sp.consumed (Or.inr (by rw [h])), ?_, sp.complete_eq, sp.raw_le, ?_, ?_, ?_⟩
    · rcases sp.hand_cases with h | ⟨d, h1, h2, h3, h4, h5', h6⟩
      · exact Or.inl h
      · exact Or.inr ⟨d, h1, h2, h3, h4, by simpa using h5', h6⟩
    · intro h; exact sp.no_panic (by rw [h])
    · intro h; exact sp.no_stuck (by rw [h])
    · intro hr
      rcases sp.retry_cases with h | h <;> (rw [h]; exact ⟨by omega, fun _ => by omega⟩)
  | case2 s s1 hs s2 hgt =>
    have sp := step_spec L lib s e h5
    rw [hs] at sp
    have k1 : s1.retry = s.retry := (sp.retry_keeps rfl).1
    have k2 : s1.hand = s.hand := (sp.retry_keeps rfl).2
    have tl : s1.total ≤ s.total := sp.total_le
    have ce : s1.complete = s.complete := sp.complete_eq
    have rl : ∀ cm B, (∀ m, lib.seg m ≤ cm) → 1 ≤ cm → s.raw.length ≤ B → L.hdr + L.maxCiphertext + cm ≤ B + 1 → s1.raw.length ≤ B := sp.raw_le
    unfold readRecord
    simp only [hs]
    simp only [s2] at hgt
    simp only [hgt, ↓reduceIte, setErr]
    refine ⟨tl, by simp, Or.inl k2, ce, rl, by simp, by simp, ?_⟩
    intro hr
    exact ⟨by simp only; omega, by simp⟩
  | case3 s s1 hs s2 hle hlt ih =>
    have sp := step_spec L lib s e h5
    rw [hs] at sp
    have k1 : s1.retry = s.retry := (sp.retry_keeps rfl).1
    have k2 : s1.hand = s.hand := (sp.retry_keeps rfl).2
    have hc : s1.total + L.hdr ≤ s.total := sp.consumed (Or.inl rfl)
    have ce : s1.complete = s.complete := sp.complete_eq
    have rl : ∀ cm B, (∀ m, lib.seg m ≤ cm) → 1 ≤ cm → s.raw.length ≤ B → L.hdr + L.maxCiphertext + cm ≤ B + 1 → s1.raw.length ≤ B := sp.raw_le
    unfold readRecord
    simp only [hs]
    simp only [s2] at hle hlt ih
    simp only [hle, ↓reduceIte, hlt, ↓reduceDIte]
    have t2 : St.total { s1 with retry := s1.retry + 1 } = s1.total := rfl
    refine ⟨by have := ih.total_le; omega, fun h => by have := ih.consumed h; omega, ?_, by rw [ih.complete_eq]; exact ce, ?_, ih.no_panic, ih.no_stuck, ?_⟩
    · rcases ih.hand_cases with h | ⟨d, h1, h2, h3, h4, h5', h6⟩
      · left; rw [h]; exact k2
      · right; refine ⟨d, by rw [h1]; simp only; rw [k2], h2, h3, ?_, h5', h6⟩
        simp only at h4; rw [← ce]; exact h4
    · intro cm B hcm h1 hr hn
      exact ih.raw_le cm B hcm h1 (rl cm B hcm h1 hr hn) hn
    · intro hr
      exact ih.retry_le (by simp only; omega)
  | case4 s s1 hs s2 hle hnlt =>
    exfalso
    have sp := step_spec L lib s e h5
    rw [hs] at sp
    have k1 : s1.retry = s.retry := (sp.retry_keeps rfl).1
    simp only [s2] at hle hnlt
    omega

/-! ### the loops of readHandshake -/

structure UntilSpec (L : Limits) (lib : Lib) (s : St) (need : Nat) (s' : St) (r : Outcome Unit) : Prop where
  total_le : s'.total ≤ s.total
  enough : r = .ok () → need ≤ s'.hand.length
  hand_le : ∀ B, s.hand.length ≤ B → need + L.maxPlaintext ≤ B + 1 → s'.hand.length ≤ B
  hand_frozen : s.complete = true → L.refusePostHs = true → s'.hand = s.hand
  complete_eq : s'.complete = s.complete
  raw_le : ∀ cm B, (∀ m, lib.seg m ≤ cm) → 1 ≤ cm → s.raw.length ≤ B → L.hdr + L.maxCiphertext + cm ≤ B + 1 → s'.raw.length ≤ B
  no_panic : r ≠ .panic
  no_stuck : r ≠ .err .stuck
  retry_le : s.retry ≤ L.maxUseless → s'.retry ≤ L.maxUseless + 1 ∧ (r = .ok () → s'.retry ≤ L.maxUseless)

theorem readUntil_spec (L : Limits) (lib : Lib) (need : Nat) (h5 : 5 ≤ L.hdr) (s : St) :
    UntilSpec L lib s need (readUntil L lib s need).1 (readUntil L lib s need).2 := by
  induction s using readUntil.induct L lib need with
  | case1 s h =>
    unfold readUntil
    simp only [h, ↓reduceIte]
    exact ⟨Nat.le_refl _, fun _ => h, fun B hb _ => hb, fun _ _ => rfl, rfl, fun _ _ _ _ hr _ => hr, by simp, by simp,
      fun hr => ⟨by omega, fun _ => hr⟩⟩
  | case2 s h s1 hr hlt ih =>
    have rs := readRecord_spec L lib false h5 s
    rw [hr] at rs
    have tl : s1.total ≤ s.total := rs.total_le
    have ce : s1.complete = s.complete := rs.complete_eq
    have rl : ∀ cm B, (∀ m, lib.seg m ≤ cm) → 1 ≤ cm → s.raw.length ≤ B → L.hdr + L.maxCiphertext + cm ≤ B + 1 → s1.raw.length ≤ B := rs.raw_le
    have hc : s1.hand = s.hand ∨ (∃ data, s1.hand = s.hand ++ data ∧ 1 ≤ data.length ∧ data.length ≤ L.maxPlaintext ∧
      ¬(s.complete = true ∧ L.refusePostHs = true) ∧ (Outcome.ok () : Outcome Unit) = .ok () ∧ false = false) := rs.hand_cases
    have rt : s.retry ≤ L.maxUseless → s1.retry ≤ L.maxUseless + 1 ∧ ((Outcome.ok () : Outcome Unit) = .ok () → s1.retry ≤ L.maxUseless) := rs.retry_le
    unfold readUntil
    simp only [h, ↓reduceIte, hr, hlt, ↓reduceDIte]
    refine ⟨by have := ih.total_le; omega, ih.enough, ?_, ?_, by rw [ih.complete_eq, ce], ?_, ih.no_panic, ih.no_stuck, ?_⟩
    · intro B hb hn
      apply ih.hand_le B _ hn
      rcases hc with h1 | ⟨d, h1, h2, h3, _⟩
      · rw [h1]; exact hb
      · rw [h1, List.length_append]; omega
    · intro hcp hrf
      rw [ih.hand_frozen (by rw [ce]; exact hcp) hrf]
      rcases hc with h1 | ⟨d, h1, h2, h3, h4, _⟩
      · exact h1
      · exact absurd ⟨hcp, hrf⟩ h4
    · intro cm B hcm h1 hrb hn
      exact ih.raw_le cm B hcm h1 (rl cm B hcm h1 hrb hn) hn
    · intro hrt
      exact ih.retry_le ((rt hrt).2 rfl)
  | case3 s h s1 hr hnlt =>
    exfalso
    have rs := readRecord_spec L lib false h5 s
    rw [hr] at rs
    have hc : s1.total + L.hdr ≤ s.total := rs.consumed rfl
    omega
  | case4 s h s1 r hne hr =>
    have rs := readRecord_spec L lib false h5 s
    rw [hr] at rs
    have tl : s1.total ≤ s.total := rs.total_le
    have ce : s1.complete = s.complete := rs.complete_eq
    have rl : ∀ cm B, (∀ m, lib.seg m ≤ cm) → 1 ≤ cm → s.raw.length ≤ B → L.hdr + L.maxCiphertext + cm ≤ B + 1 → s1.raw.length ≤ B := rs.raw_le
    have hc : s1.hand = s.hand ∨ (∃ data, s1.hand = s.hand ++ data ∧ 1 ≤ data.length ∧ data.length ≤ L.maxPlaintext ∧
      ¬(s.complete = true ∧ L.refusePostHs = true) ∧ r = .ok () ∧ false = false) := rs.hand_cases
    have rt : s.retry ≤ L.maxUseless → s1.retry ≤ L.maxUseless + 1 ∧ (r = .ok () → s1.retry ≤ L.maxUseless) := rs.retry_le
    have np : r ≠ .panic := rs.no_panic
    have ns : r ≠ .err .stuck := rs.no_stuck
    have hs1 : s1.hand = s.hand := by
      rcases hc with h1 | ⟨d, _, _, _, _, h6, _⟩
      · exact h1
      · exact absurd h6 hne
    unfold readUntil
    simp only [h, ↓reduceIte, hr]
    cases r with
    | ok u => exact absurd rfl hne
    | err w =>
      exact ⟨tl, by simp, fun B hb _ => by rw [hs1]; exact hb, fun _ _ => hs1, ce, rl, by simp, ns, fun hrt => ⟨(rt hrt).1, by simp⟩⟩
    | panic => exact absurd rfl np

theorem frameT_ok_n (mh : Nat) (hand : Bytes) (f : Frame) (h : frameT mh hand = .ok f) (h4 : 4 ≤ hand.length) :
    announced hand ≤ mh := by
  match hand, h4 with
  | a :: b1 :: b2 :: b3 :: tl, _ =>
    unfold frameT at h
    simp only [List.length_cons] at h
    rw [if_neg (by omega)] at h
    simp only [idx, List.length_cons, show 1 < tl.length + 1 + 1 + 1 + 1 by omega, show 2 < tl.length + 1 + 1 + 1 + 1 by omega,
      show 3 < tl.length + 1 + 1 + 1 + 1 by omega, ↓reduceDIte, bind_ok, List.getElem_cons_succ, List.getElem_cons_zero] at h
    unfold announced
    simp only
    split at h
    · simp at h
    · omega

theorem frameT_msg (mh : Nat) (hand : Bytes) (t : UInt8) (data rest : Bytes) (h : frameT mh hand = .ok (.msg t data rest)) :
    rest.length ≤ hand.length := by
  unfold frameT at h
  split at h
  · simp at h
  rename_i h4
  rw [idx_lt (by omega), bind_ok, idx_lt (by omega), bind_ok, idx_lt (by omega), bind_ok] at h
  simp only at h
  split at h
  · simp at h
  split at h
  · simp at h
  rename_i hl
  rw [sliceTo_le (by omega), bind_ok, sliceFrom_le (by omega), bind_ok, idx_lt (by simp only [List.length_take]; omega), bind_ok] at h
  simp only [pure_eq, Outcome.ok.injEq, Frame.msg.injEq] at h
  obtain ⟨_, _, h3⟩ := h
  rw [← h3, List.length_drop]
  omega


structure HsSpec (L : Limits) (lib : Lib) (s : St) (s' : St) (r : Outcome (UInt8 × Nat)) : Prop where
  total_le : s'.total ≤ s.total
  hand_le : ∀ B, s.hand.length ≤ B → 4 + L.maxHandshake + L.maxPlaintext ≤ B + 1 → s'.hand.length ≤ B
  hand_frozen : s.complete = true → L.refusePostHs = true → s'.hand.length ≤ s.hand.length
  complete_eq : s'.complete = s.complete
  raw_le : ∀ cm B, (∀ m, lib.seg m ≤ cm) → 1 ≤ cm → s.raw.length ≤ B → L.hdr + L.maxCiphertext + cm ≤ B + 1 → s'.raw.length ≤ B
  no_panic : r ≠ .panic
  no_stuck : r ≠ .err .stuck

theorem finishHandshake_spec (L : Limits) (lib : Lib) (h5 : 5 ≤ L.hdr) (s1 : St) :
    let r := finishHandshake L lib s1
    r.1.total ≤ s1.total ∧
    (∀ B, s1.hand.length ≤ B → 4 + announced s1.hand + L.maxPlaintext ≤ B + 1 → r.1.hand.length ≤ B) ∧
    (s1.complete = true → L.refusePostHs = true → r.1.hand.length ≤ s1.hand.length) ∧
    r.1.complete = s1.complete ∧
    (∀ cm B, (∀ m, lib.seg m ≤ cm) → 1 ≤ cm → s1.raw.length ≤ B → L.hdr + L.maxCiphertext + cm ≤ B + 1 → r.1.raw.length ≤ B) ∧
    r.2 ≠ .panic ∧ r.2 ≠ .err .stuck := by
  unfold finishHandshake
  have u2 := readUntil_spec L lib (4 + announced s1.hand) h5 s1
  generalize readUntil L lib s1 (4 + announced s1.hand) = q2 at *
  obtain ⟨s2, r2⟩ := q2
  simp only at u2 ⊢
  have step2 : ∀ x : St, x.total = s2.total → x.hand.length ≤ s2.hand.length → x.complete = s2.complete → x.raw = s2.raw →
      ∀ r : Outcome (UInt8 × Nat), r ≠ Outcome.panic → r ≠ .err .stuck →
      (x.total ≤ s1.total ∧
      (∀ B, s1.hand.length ≤ B → 4 + announced s1.hand + L.maxPlaintext ≤ B + 1 → x.hand.length ≤ B) ∧
      (s1.complete = true → L.refusePostHs = true → x.hand.length ≤ s1.hand.length) ∧
      x.complete = s1.complete ∧
      (∀ cm B, (∀ m, lib.seg m ≤ cm) → 1 ≤ cm → s1.raw.length ≤ B → L.hdr + L.maxCiphertext + cm ≤ B + 1 → x.raw.length ≤ B) ∧
      r ≠ .panic ∧ r ≠ .err .stuck) := by
    intro x ht hh hc hr r hnp hns
    refine ⟨by rw [ht]; exact u2.total_le, ?_, ?_, by rw [hc, u2.complete_eq], ?_, hnp, hns⟩
    · intro B hb hB
      have := u2.hand_le B hb hB
      omega
    · intro hcp hrf
      have e2 := u2.hand_frozen hcp hrf
      rw [e2] at hh; exact hh
    · intro cm B hcm h1 hrb hB
      rw [hr]; exact u2.raw_le cm B hcm h1 hrb hB
  cases r2 with
  | err e =>
    apply step2
    · rfl
    · exact Nat.le_refl _
    · rfl
    · rfl
    · simp
    · intro h; injection h with h; exact u2.no_stuck (by rw [h])
  | panic => exact absurd rfl u2.no_panic
  | ok u' =>
    simp only
    cases hf2 : frameT L.maxHandshake s2.hand with
    | panic => exact absurd hf2 (frameT_no_panic _ _)
    | err e =>
      simp only [setErr]
      apply step2
      · rfl
      · exact Nat.le_refl _
      · rfl
      · rfl
      · simp
      · intro h; injection h with h; subst h
        unfold frameT at hf2
        revert hf2
        orun
    | ok f2 =>
      cases f2 with
      | needMore =>
        apply step2
        · rfl
        · exact Nat.le_refl _
        · rfl
        · rfl
        · simp
        · simp
      | msg t data rest =>
        have hl := frameT_msg _ _ _ _ _ hf2
        simp only [setErr]
        split
        · apply step2
          · rfl
          · exact hl
          · rfl
          · rfl
          · simp
          · simp
        split
        · apply step2
          · rfl
          · exact hl
          · rfl
          · rfl
          · simp
          · simp
        · apply step2
          · rfl
          · exact hl
          · rfl
          · rfl
          · simp
          · simp

theorem readHandshake_spec (L : Limits) (lib : Lib) (h5 : 5 ≤ L.hdr) (s : St) :
    HsSpec L lib s (readHandshake L lib s).1 (readHandshake L lib s).2 := by
  unfold readHandshake
  have u1 := readUntil_spec L lib 4 h5 s
  generalize readUntil L lib s 4 = q1 at *
  obtain ⟨s1, r1⟩ := q1
  simp only at u1 ⊢
  have base : HsSpec L lib s s1 (.err .short) :=
    ⟨u1.total_le, fun B hb hn => u1.hand_le B hb (by omega),
     fun hc hr => by rw [u1.hand_frozen hc hr]; exact Nat.le_refl _, u1.complete_eq, u1.raw_le, by simp, by simp⟩
  cases r1 with
  | err e =>
    simp only
    exact { base with no_panic := by simp, no_stuck := by intro h; injection h with h; exact u1.no_stuck (by rw [h]) }
  | panic => exact absurd rfl u1.no_panic
  | ok u =>
    have h4 : 4 ≤ s1.hand.length := u1.enough rfl
    simp only
    cases hf : frameT L.maxHandshake s1.hand with
    | panic => exact absurd hf (frameT_no_panic _ _)
    | err e =>
      simp only [setErr]
      refine { base with no_panic := by simp, no_stuck := ?_ }
      intro h; injection h with h; subst h
      unfold frameT at hf
      revert hf
      orun
    | ok f =>
      have hn := frameT_ok_n L.maxHandshake s1.hand f hf h4
      have fs := finishHandshake_spec L lib h5 s1
      simp only at fs ⊢
      obtain ⟨f1, f2, f3, f4, f5, f6, f7⟩ := fs
      refine ⟨by have := u1.total_le; omega, ?_, ?_, by rw [f4, u1.complete_eq], ?_, f6, f7⟩
      · intro B hb hB
        exact f2 B (u1.hand_le B hb (by omega)) (by omega)
      · intro hcp hrf
        have := f3 (by rw [u1.complete_eq]; exact hcp) hrf
        rw [u1.hand_frozen hcp hrf] at this
        exact this
      · intro cm B hcm h1 hrb hB
        exact f5 cm B hcm h1 (u1.raw_le cm B hcm h1 hrb hB) hB

/-! ### Conn.Read -/

structure AppSpec (L : Limits) (lib : Lib) (s : St) (s' : St) (r : Outcome Nat) : Prop where
  total_le : s'.total ≤ s.total
  hand_frozen : s.complete = true → L.refusePostHs = true → s'.hand = s.hand
  complete_eq : s'.complete = s.complete
  raw_le : ∀ cm B, (∀ m, lib.seg m ≤ cm) → 1 ≤ cm → s.raw.length ≤ B → L.hdr + L.maxCiphertext + cm ≤ B + 1 → s'.raw.length ≤ B
  no_panic : r ≠ .panic
  no_stuck : r ≠ .err .stuck

theorem recSpec_frozen {L : Limits} {lib : Lib} {s : St} {e : Bool} {s' : St} {r : Outcome Unit}
    (rs : RecSpec L lib s e s' r) (hc : s.complete = true) (hr : L.refusePostHs = true) : s'.hand = s.hand := by
  rcases rs.hand_cases with h | ⟨d, _, _, _, h4, _⟩
  · exact h
  · exact absurd ⟨hc, hr⟩ h4

theorem takeInput_spec (L : Limits) (lib : Lib) (h5 : 5 ≤ L.hdr) (s : St) :
    AppSpec L lib s (takeInput L lib s).1 (takeInput L lib s).2 := by
  unfold takeInput
  simp only
  have triv : AppSpec L lib s { s with input := 0 } (.ok s.input) :=
    ⟨Nat.le_refl _, fun _ _ => rfl, rfl, fun _ _ _ _ h _ => h, by simp, by simp⟩
  split
  · rename_i t tl hraw
    split
    · have rs := readRecord_spec L lib false h5 { s with input := 0 }
      generalize readRecord L lib { s with input := 0 } false = q at *
      obtain ⟨s1, r1⟩ := q
      simp only at rs ⊢
      have tl' : s1.total ≤ s.total := rs.total_le
      have ce : s1.complete = s.complete := rs.complete_eq
      have fz : s.complete = true → L.refusePostHs = true → s1.hand = s.hand :=
        fun a b => recSpec_frozen (s := { s with input := 0 }) rs a b
      have rl : ∀ cm B, (∀ m, lib.seg m ≤ cm) → 1 ≤ cm → s.raw.length ≤ B → L.hdr + L.maxCiphertext + cm ≤ B + 1 → s1.raw.length ≤ B := rs.raw_le
      cases r1 with
      | ok u => exact ⟨tl', fz, ce, rl, by simp, by simp⟩
      | err e => exact ⟨tl', fz, ce, rl, by simp, by intro h; injection h with h; exact rs.no_stuck (by rw [h])⟩
      | panic => exact absurd rfl rs.no_panic
    · exact triv
  · exact triv

theorem readApp_spec (L : Limits) (lib : Lib) (h5 : 5 ≤ L.hdr) (s : St) :
    AppSpec L lib s (readApp L lib s).1 (readApp L lib s).2 := by
  induction s using readApp.induct L lib with
  | case1 s h =>
    unfold readApp
    simp only [h, ↓reduceIte, ne_eq, not_false_eq_true]
    exact takeInput_spec L lib h5 s
  | case2 s h s1 hr hi =>
    have rs := readRecord_spec L lib false h5 s
    rw [hr] at rs
    have ts := takeInput_spec L lib h5 s1
    unfold readApp
    simp only [h, ↓reduceIte, hr, hi, ne_eq, not_false_eq_true]
    have tl' : s1.total ≤ s.total := rs.total_le
    have ce : s1.complete = s.complete := rs.complete_eq
    have fz : s.complete = true → L.refusePostHs = true → s1.hand = s.hand := fun a b => recSpec_frozen rs a b
    have rl : ∀ cm B, (∀ m, lib.seg m ≤ cm) → 1 ≤ cm → s.raw.length ≤ B → L.hdr + L.maxCiphertext + cm ≤ B + 1 → s1.raw.length ≤ B := rs.raw_le
    exact ⟨by have := ts.total_le; omega, fun a b => by rw [ts.hand_frozen (by rw [ce]; exact a) b]; exact fz a b,
      by rw [ts.complete_eq, ce], fun cm B hcm h1 hrb hB => ts.raw_le cm B hcm h1 (rl cm B hcm h1 hrb hB) hB, ts.no_panic, ts.no_stuck⟩
  | case3 s h s1 hr hi hlt ih =>
    have rs := readRecord_spec L lib false h5 s
    rw [hr] at rs
    unfold readApp
    simp only [h, ↓reduceIte, hr, hi, hlt, ↓reduceDIte]
    have tl' : s1.total ≤ s.total := rs.total_le
    have ce : s1.complete = s.complete := rs.complete_eq
    have fz : s.complete = true → L.refusePostHs = true → s1.hand = s.hand := fun a b => recSpec_frozen rs a b
    have rl : ∀ cm B, (∀ m, lib.seg m ≤ cm) → 1 ≤ cm → s.raw.length ≤ B → L.hdr + L.maxCiphertext + cm ≤ B + 1 → s1.raw.length ≤ B := rs.raw_le
    exact ⟨by have := ih.total_le; omega, fun a b => by rw [ih.hand_frozen (by rw [ce]; exact a) b]; exact fz a b,
      by rw [ih.complete_eq, ce], fun cm B hcm h1 hrb hB => ih.raw_le cm B hcm h1 (rl cm B hcm h1 hrb hB) hB, ih.no_panic, ih.no_stuck⟩
  | case4 s h s1 hr hi hnlt =>
    exfalso
    have rs := readRecord_spec L lib false h5 s
    rw [hr] at rs
    have hc : s1.total + L.hdr ≤ s.total := rs.consumed rfl
    omega
  | case5 s h s1 e hr =>
    have rs := readRecord_spec L lib false h5 s
    rw [hr] at rs
    unfold readApp
    simp only [h, ↓reduceIte, hr]
    have tl' : s1.total ≤ s.total := rs.total_le
    have ce : s1.complete = s.complete := rs.complete_eq
    have fz : s.complete = true → L.refusePostHs = true → s1.hand = s.hand := fun a b => recSpec_frozen rs a b
    have rl : ∀ cm B, (∀ m, lib.seg m ≤ cm) → 1 ≤ cm → s.raw.length ≤ B → L.hdr + L.maxCiphertext + cm ≤ B + 1 → s1.raw.length ≤ B := rs.raw_le
    exact ⟨tl', fz, ce, rl, by simp, by intro h; injection h with h; exact rs.no_stuck (by rw [h])⟩
  | case6 s h s1 hr =>
    exfalso
    have rs := readRecord_spec L lib false h5 s
    rw [hr] at rs
    exact rs.no_panic rfl

/-! ### sequences of receive operations -/

/-- the memory invariant: bounds on the handshake buffer and on the raw input buffer -/
def MemInv (Bh Br : Nat) (s : St) : Prop := s.hand.length ≤ Bh ∧ s.raw.length ≤ Br

theorem apply_inv (L : Limits) (lib : Lib) (h5 : 5 ≤ L.hdr) (hrf : L.refusePostHs = true) (cm Bh Br : Nat)
    (hseg : ∀ m, lib.seg m ≤ cm) (h1 : 1 ≤ cm) (hBh : 4 + L.maxHandshake + L.maxPlaintext ≤ Bh + 1)
    (hBr : L.hdr + L.maxCiphertext + cm ≤ Br + 1) (s : St) (op : Op) (hi : MemInv Bh Br s) :
    MemInv Bh Br (apply L lib s op) := by
  obtain ⟨ih, ir⟩ := hi
  cases op with
  | hs =>
    have sp := readHandshake_spec L lib h5 s
    exact ⟨sp.hand_le Bh ih hBh, sp.raw_le cm Br hseg h1 ir hBr⟩
  | ccs =>
    have sp := readRecord_spec L lib true h5 { s with nextCipher := true }
    refine ⟨?_, sp.raw_le cm Br hseg h1 ir hBr⟩
    show (readRecord L lib { s with nextCipher := true } true).1.hand.length ≤ Bh
    rcases sp.hand_cases with h | ⟨d, _, _, _, _, _, h6⟩
    · rw [h]; exact ih
    · cases h6
  | finish => exact ⟨ih, ir⟩
  | read =>
    show MemInv Bh Br (if s.complete = true then (readApp L lib s).1 else s)
    split
    · rename_i hc
      have sp := readApp_spec L lib h5 s
      exact ⟨by rw [sp.hand_frozen hc hrf]; exact ih, sp.raw_le cm Br hseg h1 ir hBr⟩
    · exact ⟨ih, ir⟩

theorem run_inv (L : Limits) (lib : Lib) (h5 : 5 ≤ L.hdr) (hrf : L.refusePostHs = true) (cm Bh Br : Nat)
    (hseg : ∀ m, lib.seg m ≤ cm) (h1 : 1 ≤ cm) (hBh : 4 + L.maxHandshake + L.maxPlaintext ≤ Bh + 1)
    (hBr : L.hdr + L.maxCiphertext + cm ≤ Br + 1) (ops : List Op) (s : St) (hi : MemInv Bh Br s) :
    MemInv Bh Br (run L lib s ops) := by
  induction ops generalizing s with
  | nil => exact hi
  | cons op ops ih =>
    unfold run
    exact ih _ (apply_inv L lib h5 hrf cm Bh Br hseg h1 hBh hBr s op hi)

end Gotlcp.Lemmas.ParsersLoop

/-
The SERVER's view of its peer across a history (C10, "a resumed connection has the same peer
identity as the original", server side).

`SExt R w`: every record reachable through a server cache of the world `w` is filed under its own
identifier and `(server, identifier, recorded client certificate)` is in the ghost list `R` of
sessions that a server of the history issued in a completed full handshake, together with the
client identity the server reported for that handshake.  The invariant needs no hypothesis on the
parameters or on the random source: server caches only receive records from `createSessionState`,
records are never modified (the heap only grows), and everything else only re-orders or removes
entries.
-/
import Gotlcp.Lemmas.ResumptionInv

set_option linter.unusedSimpArgs false
set_option linter.unusedVariables false

namespace Gotlcp.Lemmas.ResumptionPeer
open Gotlcp.Model
open Gotlcp.Model.Resumption
open Gotlcp.Model.LRU (Entry State)
open Gotlcp.Lemmas.Resumption
open Gotlcp.Lemmas.ResumptionInv

/-- (server, session identifier, client identity recorded / reported by the server) -/
abbrev Rec := Nat × Nat × Option Nat

def SExt (R : List Rec) (w : World) : Prop :=
  ∀ i, ∀ e ∈ (w.servers i).q, ∀ o : Nat, e.val = some o →
    o < w.nObj ∧ e.key = idKey (w.heap o).id ∧ (i, (w.heap o).id, (w.heap o).cpeer) ∈ R

/-- `w'` is reached from `w` without adding entries to a server cache and without touching
allocated records -/
structure FrameS (w w' : World) : Prop where
  sub  : ∀ i, ∀ e ∈ (w'.servers i).q, e ∈ (w.servers i).q
  heap : ∀ o : Nat, o < w.nObj → w'.heap o = w.heap o
  mono : w.nObj ≤ w'.nObj

theorem FrameS.refl (w : World) : FrameS w w := ⟨fun _ _ h => h, fun _ _ => rfl, Nat.le_refl _⟩

theorem FrameS.trans {a b c : World} (h1 : FrameS a b) (h2 : FrameS b c) : FrameS a c :=
  ⟨fun i e he => h1.sub i e (h2.sub i e he),
   fun o ho => (h2.heap o (Nat.lt_of_lt_of_le ho h1.mono)).trans (h1.heap o ho),
   Nat.le_trans h1.mono h2.mono⟩

theorem FrameS.of_eq {w w' : World} (hs : w'.servers = w.servers) (hh : w'.heap = w.heap) (hn : w'.nObj = w.nObj) :
    FrameS w w' :=
  ⟨fun i e he => by rw [hs] at he; exact he, fun o _ => by rw [hh], by rw [hn]; exact Nat.le_refl _⟩

theorem frame_alloc (w : World) (s : Session) : FrameS w (alloc w s).1 :=
  ⟨fun _ _ h => h, fun o ho => heap_alloc_old w s ho, Nat.le_succ _⟩

theorem frame_cput (p : Params) (w : World) (k : String) (v : Option ObjId) : FrameS w (cput p w k v) :=
  FrameS.of_eq rfl rfl rfl

theorem frame_allocPutC (p : Params) (w : World) (s : Session) (k : String) :
    FrameS w (cput p (alloc w s).1 k (some (alloc w s).2)) :=
  (frame_alloc w s).trans (frame_cput p _ _ _)

theorem frame_getS (w : World) (i : Nat) (k : String) :
    FrameS w { w with servers := setServer w.servers i (LRU.get (w.servers i) k).1 } := by
  refine ⟨?_, fun _ _ => rfl, Nat.le_refl _⟩
  intro j e he
  rcases mem_setServer he with ⟨rfl, he⟩ | ⟨_, he⟩
  · exact mem_get he
  · exact he

theorem frame_dropServer (w : World) (i : Nat) :
    FrameS w { w with servers := setServer w.servers i { cap := (w.servers i).cap, q := [], zeroed := [] } } := by
  refine ⟨?_, fun _ _ => rfl, Nat.le_refl _⟩
  intro j e he
  rcases mem_setServer he with ⟨rfl, he⟩ | ⟨_, he⟩
  · simp at he
  · exact he

variable {R : List Rec}

theorem sext_frame {w w' : World} (f : FrameS w w') (h : SExt R w) : SExt R w' := by
  intro i e he o hv
  obtain ⟨a, b, c⟩ := h i e (f.sub i e he) o hv
  rw [f.heap o a]
  exact ⟨Nat.lt_of_lt_of_le a f.mono, b, c⟩

theorem sext_mono {R' : List Rec} {w : World} (hsub : ∀ t ∈ R, t ∈ R') (h : SExt R w) : SExt R' w := by
  intro i e he o hv
  obtain ⟨a, b, c⟩ := h i e he o hv
  exact ⟨a, b, hsub _ c⟩

/-- createSessionState: the one place where a server cache receives a record -/
theorem sext_createSessionState (p : Params) {w : World} (h : SExt R w) (i : Nat) (s : Session) :
    SExt ((i, s.id, s.cpeer) :: R) (createSessionState p w i s) := by
  unfold createSessionState
  show SExt _ (sput p (alloc w s).1 i (idKey s.id) (some (alloc w s).2))
  intro j e he o hv
  have hsrv : (sput p (alloc w s).1 i (idKey s.id) (some (alloc w s).2)).servers =
      setServer w.servers i (LRU.put p.strictDelete (w.servers i) (idKey s.id) (some w.nObj)) := rfl
  have hheap : (sput p (alloc w s).1 i (idKey s.id) (some (alloc w s).2)).heap = (alloc w s).1.heap := rfl
  have hobj : (sput p (alloc w s).1 i (idKey s.id) (some (alloc w s).2)).nObj = w.nObj + 1 := rfl
  rw [hsrv] at he
  rw [hheap, hobj]
  have old : e ∈ (w.servers j).q → o < w.nObj + 1 ∧ e.key = idKey ((alloc w s).1.heap o).id ∧
      (j, ((alloc w s).1.heap o).id, ((alloc w s).1.heap o).cpeer) ∈ (i, s.id, s.cpeer) :: R := by
    intro he
    obtain ⟨a, b, c⟩ := h j e he o hv
    rw [heap_alloc_old w s a]
    exact ⟨Nat.lt_succ_of_lt a, b, List.mem_cons_of_mem _ c⟩
  rcases mem_setServer he with ⟨rfl, he⟩ | ⟨_, he⟩
  · rcases mem_put he with rfl | he
    · have : w.nObj = o := by simpa using hv
      subst this
      rw [heap_alloc_new]
      exact ⟨Nat.lt_succ_self _, rfl, List.mem_cons_self⟩
    · exact old he
  · exact old he

/-! ### composite steps that do not add server entries -/

theorem frame_madeUpPut (p : Params) (src : Nat → Nat) (w : World) (suite : Nat) (peer : Option Nat) (k : String) :
    FrameS w (cput p (alloc (madeUp p src w suite peer).1 (madeUp p src w suite peer).2).1 k
      (some (alloc (madeUp p src w suite peer).1 (madeUp p src w suite peer).2).2)) :=
  FrameS.trans (b := (madeUp p src w suite peer).1) (FrameS.of_eq rfl rfl rfl) (frame_allocPutC p _ _ _)

theorem frame_junkPuts (p : Params) (src : Nat → Nat) (suite : Nat) (k : Nat) :
    ∀ w : World, FrameS w (junkPuts p src suite w k) := by
  induction k with
  | zero => intro w; exact FrameS.refl w
  | succ k ih =>
    intro w
    unfold junkPuts
    simp only []
    refine FrameS.trans ?_ (ih _)
    exact (frame_madeUpPut p src w suite none (junkKey w.nJunk)).trans (FrameS.of_eq rfl rfl rfl)

theorem frame_runPre (p : Params) (src : Nat → Nat) (c : Conn) (w : World) (a : Pre) : FrameS w (runPre p src c w a) := by
  cases a with
  | junk k => exact frame_junkPuts p src _ k w
  | forge certs => exact frame_madeUpPut p src w _ _ _
  | dropServer => exact frame_dropServer w c.server
  | stale d =>
    unfold runPre
    simp only []
    have f1 : FrameS w { w with client := (LRU.get w.client (dstKey d)).1 } := FrameS.of_eq rfl rfl rfl
    split
    · split
      · exact f1
      · exact f1.trans (frame_allocPutC p _ _ _)
    · exact f1

theorem frame_runPres (p : Params) (src : Nat → Nat) (c : Conn) (as : List Pre) :
    ∀ w : World, FrameS w (runPres p src c w as) := by
  induction as with
  | nil => intro w; exact FrameS.refl w
  | cons a as ih => intro w; exact (frame_runPre p src c w a).trans (ih _)

theorem frame_cleanup (p : Params) (w : World) (d : Nat) (l : Option ObjId) : FrameS w (cleanup p w d l) := by
  cases l with
  | none => exact FrameS.refl w
  | some o => exact (frame_cput p w _ none).trans (frame_cput p _ _ none)

theorem frame_createNewSession (p : Params) (w : World) (d : Nat) (s : Session) : FrameS w (createNewSession p w d s) := by
  unfold createNewSession
  simp only []
  split
  · exact (frame_allocPutC p w s _).trans (frame_allocPutC p _ s _)
  · exact (frame_allocPutC p w s _).trans (frame_cput p _ _ _)

theorem frame_afterLoad (p : Params) (w : World) (c : Conn) : FrameS w (afterLoad p w c) := by
  have a := afterLoad_frame p w c
  exact FrameS.of_eq a.1 a.2.1 a.2.2.1

theorem frame_checkForResumption (p : Params) (w : World) (c : Conn) (off : List Nat) (x : Option Nat) :
    FrameS w (checkForResumption p w c off x).1 := by
  unfold checkForResumption
  cases x with
  | none => exact FrameS.refl w
  | some x =>
    simp only []
    split
    · split <;> exact frame_getS w c.server (idKey x)
    · exact frame_getS w c.server (idKey x)

theorem frame_afterCheck (p : Params) (w : World) (c : Conn) : FrameS w (afterCheck p w c).1 := by
  unfold afterCheck
  exact (frame_afterLoad p w c).trans (frame_checkForResumption p _ c _ _)

theorem frame_resumeBranch (p : Params) (w : World) (c : Conn) (l : Option ObjId) (so : ObjId)
    (rnd : Nat × Nat) (full : Option Nat) : FrameS w (resumeBranch p w c l so rnd full).1 := by
  unfold resumeBranch
  simp only []
  split
  · exact frame_cleanup p w _ _
  · split
    · exact FrameS.refl w
    · split
      · rename_i lo _
        exact frame_cleanup p w c.dst (some lo)
      · exact FrameS.refl w

/-! ### what a connection adds to the ghost list -/

/-- the session a connection issued: the server completed a FULL handshake whose ServerHello
carried `x`; recorded with the client identity the server reports for that connection -/
def issued (c : Conn) (o : Obs) : List Rec :=
  if o.sOk && !o.sRes then (o.returned.map (fun x => (c.server, x, o.speer))).toList else []

theorem issued_failed (c : Conn) (a b : Option Nat) (rnd : Nat × Nat) (full : Option Nat) :
    issued c (failed a b rnd full) = [] := by
  simp [issued, failed]

theorem sext_resumeBranch (p : Params) {w : World} (h : SExt R w) (c : Conn) (l : Option ObjId) (so : ObjId)
    (rnd : Nat × Nat) (full : Option Nat) :
    SExt (issued c (resumeBranch p w c l so rnd full).2 ++ R) (resumeBranch p w c l so rnd full).1 := by
  have h1 := sext_frame (frame_resumeBranch p w c l so rnd full) h
  refine sext_mono ?_ h1
  intro t ht
  exact List.mem_append_right _ ht

theorem sext_fullBranch (p : Params) (src : Nat → Nat) {w : World} (h : SExt R w) (c : Conn) (l : Option ObjId) (su : Nat)
    (rnd : Nat × Nat) (full : Option Nat) :
    SExt (issued c (fullBranch p src w c l su rnd full).2 ++ R) (fullBranch p src w c l su rnd full).1 := by
  unfold fullBranch
  simp only []
  have f4 : FrameS w { w with nId := w.nId + 1, nSec := w.nSec + 1 } := FrameS.of_eq rfl rfl rfl
  have h4 := sext_frame f4 h
  have h5 := sext_createSessionState p h4 c.server
    { id := src w.nId, vers := p.version, suite := su, ms := w.nSec, peer := none, cpeer := sentCert p c }
  split
  · rw [issued_failed]; exact sext_frame (frame_cleanup p _ _ _) h4
  · split
    · rw [issued_failed]
      refine sext_frame (frame_cleanup p _ _ _) ?_
      split
      · exact h4
      · exact sext_frame (frame_createNewSession p _ _ _) h4
    · have hiss : issued c (withPeer p c.auth (requestsCert p c.auth) (sentCert p c)
          { failed (offeredId w l) (some (src w.nId)) rnd full with sOk := true, suite := some su }) =
          [(c.server, src w.nId, sentCert p c)] := by
        simp [issued, failed]
      rw [hiss]
      refine sext_frame (frame_cleanup p _ _ _) ?_
      split
      · exact h5
      · exact sext_frame (frame_createNewSession p _ _ _) h5
    · have hiss : issued c (withPeer p c.auth (requestsCert p c.auth) (sentCert p c)
          { cOk := true, sOk := true, cRes := false, sRes := false, offered := offeredId w l, returned := some (src w.nId),
            suite := some su, peer := some c.server, ms := some w.nSec, rnd := rnd, full := full }) =
          [(c.server, src w.nId, sentCert p c)] := by
        simp [issued]
      rw [hiss]
      exact sext_frame (frame_createNewSession p _ _ _) h5

theorem sext_connect (p : Params) (src : Nat → Nat) {w : World} (h : SExt R w) (c : Conn) :
    SExt (issued c (connect p src w c).2 ++ R) (connect p src w c).1 := by
  have h3 := sext_frame (frame_afterCheck p w c) h
  unfold connect
  simp only []
  split
  · exact sext_resumeBranch p h3 c _ _ _ _
  · split
    · rw [issued_failed]; exact sext_frame (frame_cleanup p _ _ _) h3
    · exact sext_fullBranch p src h3 c _ _ _ _

theorem sext_step (p : Params) (src : Nat → Nat) {w : World} (h : SExt R w) (c : Conn) :
    SExt (issued c (step p src w c).2 ++ R) (step p src w c).1 := by
  unfold step
  exact sext_connect p src (sext_frame (frame_runPres p src c c.pre w) h) c

/-- everything the connections of a history issued -/
def issuedAll : List Conn → List Obs → List Rec
  | c :: cs, o :: os => issuedAll cs os ++ issued c o
  | _, _ => []

theorem sext_run (p : Params) (src : Nat → Nat) (cs : List Conn) :
    ∀ (R : List Rec) (w : World), SExt R w → SExt (issuedAll cs (run p src w cs).2 ++ R) (run p src w cs).1 := by
  induction cs with
  | nil => intro R w h; exact h
  | cons c cs ih =>
    intro R w h
    unfold run
    simp only [issuedAll]
    have := ih _ _ (sext_step p src h c)
    rw [List.append_assoc]
    exact this

theorem sext_init (d : Nat) (ccap scap : Int) : SExt [] (Resumption.init d ccap scap) := by
  intro i e he
  simp [Resumption.init, LRU.init] at he

theorem mem_issuedAll {t : Rec} : ∀ (cs : List Conn) (os : List Obs), t ∈ issuedAll cs os →
    ∃ (i : Nat) (ci : Conn) (oi : Obs), cs[i]? = some ci ∧ os[i]? = some oi ∧ t ∈ issued ci oi := by
  intro cs
  induction cs with
  | nil => intro os h; simp [issuedAll] at h
  | cons c cs ih =>
    intro os h
    cases os with
    | nil => simp [issuedAll] at h
    | cons o os =>
      simp only [issuedAll, List.mem_append] at h
      rcases h with h | h
      · obtain ⟨i, ci, oi, a, b, m⟩ := ih os h
        exact ⟨i + 1, ci, oi, by simpa using a, by simpa using b, m⟩
      · exact ⟨0, c, o, rfl, rfl, h⟩

theorem mem_issued {t : Rec} {c : Conn} {o : Obs} (h : t ∈ issued c o) :
    o.sOk = true ∧ o.sRes = false ∧ t.1 = c.server ∧ o.returned = some t.2.1 ∧ o.speer = t.2.2 := by
  unfold issued at h
  split at h
  · rename_i hc
    simp only [Bool.and_eq_true, Bool.not_eq_true'] at hc
    cases hr : o.returned with
    | none => simp [hr] at h
    | some x =>
      simp only [hr, Option.map_some, Option.toList_some, List.mem_singleton] at h
      subst h
      exact ⟨hc.1, hc.2, rfl, rfl, rfl⟩
  · simp at h

/-! ### a resumption reports what the session records -/

theorem resume_speer (p : Params) (w : World) (c : Conn) (loaded : Option ObjId) (so : ObjId) (rnd : Nat × Nat)
    (full : Option Nat) (h : (resumeBranch p w c loaded so rnd full).2.sRes = true) :
    (resumeBranch p w c loaded so rnd full).2.speer = (w.heap so).cpeer ∧
    (resumeBranch p w c loaded so rnd full).2.vpc = some (w.heap so).cpeer ∧
    (resumeBranch p w c loaded so rnd full).2.vc = some (w.heap so).cpeer ∧
    (resumeBranch p w c loaded so rnd full).2.sver = (verifiesCert p c.auth && (w.heap so).cpeer.isSome) ∧
    (resumeBranch p w c loaded so rnd full).2.offered = offeredId w loaded := by
  unfold resumeBranch at h ⊢
  simp only [] at h ⊢
  repeat' split at h
  all_goals simp_all [failed, withPeer]

/-- the server side of a connection reports resumption: the session it found is in its cache
under the offered identifier, and the peer identity it reports — and runs both callbacks on — is
the one recorded in that session -/
theorem connect_resumed_server (p : Params) (src : Nat → Nat) (w : World) (c : Conn)
    (h : (connect p src w c).2.sRes = true) :
    ∃ x so, (connect p src w c).2.offered = some x ∧
      (⟨idKey x, some so⟩ : Entry) ∈ (w.servers c.server).q ∧
      (connect p src w c).2.speer = (w.heap so).cpeer ∧
      (connect p src w c).2.vpc = some (w.heap so).cpeer ∧
      (connect p src w c).2.vc = some (w.heap so).cpeer ∧
      (connect p src w c).2.sver = (verifiesCert p c.auth && (w.heap so).cpeer.isSome) ∧
      ((w.heap so).cpeer.isNone = true → requiresCert p c.auth = false) ∧
      ((w.heap so).cpeer.isSome = true → c.auth ≠ 0) := by
  have hfr := afterCheck_frame p w c
  have hal := afterLoad_frame p w c
  unfold connect at h ⊢
  simp only [] at h ⊢
  split at h
  · rename_i so hr
    obtain ⟨a1, a2, a3, a4, a5⟩ := resume_speer p _ c _ so _ _ h
    unfold afterCheck at hr
    obtain ⟨x, hx, hso, _, _, _, _, hcert, hno⟩ := checkForResumption_some hr
    rw [hal.1] at hso
    rw [hal.2.1] at hcert hno
    refine ⟨x, so, ?_, hso, ?_, ?_, ?_, ?_, ?_, hno⟩
    · rw [a5]
      have : offeredId (afterCheck p w c).1 (loadedOf p w c) = offeredId (afterLoad p w c) (loadedOf p w c) := by
        unfold offeredId; rw [hfr.1, hal.2.1]
      rw [this]; exact hx
    · rw [a1, hfr.1]
    · rw [a2, hfr.1]
    · rw [a3, hfr.1]
    · rw [a4, hfr.1]
    · intro hn
      unfold certsOk at hcert
      rw [hn] at hcert
      simpa using hcert
  · rename_i hr
    split at h
    · simp [failed] at h
    · rw [(full_obs ..).2] at h; cases h

theorem resume_sRes_of_sOk (p : Params) (w : World) (c : Conn) (loaded : Option ObjId) (so : ObjId) (rnd : Nat × Nat)
    (full : Option Nat) (h : (resumeBranch p w c loaded so rnd full).2.sOk = true) :
    (resumeBranch p w c loaded so rnd full).2.sRes = true := by
  unfold resumeBranch at h ⊢
  simp only [] at h ⊢
  repeat' split at h
  all_goals simp_all [failed, withPeer]

theorem full_speer (p : Params) (src : Nat → Nat) (w : World) (c : Conn) (l : Option ObjId) (su : Nat) (rnd : Nat × Nat)
    (full : Option Nat) (h : (fullBranch p src w c l su rnd full).2.sOk = true) :
    (fullBranch p src w c l su rnd full).2.speer = sentCert p c ∧
    (fullBranch p src w c l su rnd full).2.vpc = (if requestsCert p c.auth then some (sentCert p c) else none) ∧
    (fullBranch p src w c l su rnd full).2.vc = some (sentCert p c) ∧
    (fullBranch p src w c l su rnd full).2.sver = (verifiesCert p c.auth && (sentCert p c).isSome) ∧
    certMissing p c = false := by
  unfold fullBranch at h ⊢
  simp only [] at h ⊢
  split at h
  · simp [failed] at h
  · rename_i hc
    simp only [hc, if_false] at h ⊢
    cases hm : certMissing p c with
    | true => simp [hm, failed] at h
    | false =>
      simp only [hm, Bool.false_eq_true, if_false] at h ⊢
      split at h <;> simp_all [failed, withPeer]

/-- the server side of a connection completes a FULL handshake: its view of the peer is the
certificate the client sent — the configured one when the policy asks for a certificate, nothing
otherwise — and a required certificate was not missing -/
theorem connect_full_server (p : Params) (src : Nat → Nat) (w : World) (c : Conn)
    (hs : (connect p src w c).2.sOk = true) (hr : (connect p src w c).2.sRes = false) :
    (connect p src w c).2.speer = sentCert p c ∧
    (connect p src w c).2.vpc = (if requestsCert p c.auth then some (sentCert p c) else none) ∧
    (connect p src w c).2.vc = some (sentCert p c) ∧
    (connect p src w c).2.sver = (verifiesCert p c.auth && (sentCert p c).isSome) ∧
    certMissing p c = false := by
  unfold connect at hs hr ⊢
  simp only [] at hs hr ⊢
  cases hc : (afterCheck p w c).2 with
  | some so =>
    simp only [hc] at hs hr
    rw [resume_sRes_of_sOk _ _ _ _ _ _ _ hs] at hr; cases hr
  | none =>
    simp only [hc] at hs ⊢
    cases hp : pickSuite p c.ssuites (offer p c.csuites) with
    | none => simp [hp, failed] at hs
    | some su =>
      simp only [hp] at hs ⊢
      exact full_speer p src _ c _ _ _ _ hs

end Gotlcp.Lemmas.ResumptionPeer

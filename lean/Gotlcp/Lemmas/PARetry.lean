/-
Helper lemmas for C20, third round: the PUBLIC object (`Model.PA.Pub`, `call`, `calls`) and the
accounting of read time-outs — every failed detection of a connection whose client did send a
full record header has consumed one time-out of the transport script.
-/
import Gotlcp.Lemmas.PA

set_option linter.unusedSimpArgs false
set_option linter.unusedVariables false

namespace Gotlcp.Lemmas.PA
open Gotlcp.Model.PA

/-- `io.ReadFull` over a script: it never adds time-outs; an error other than a time-out means
the script ran out before `n` bytes; a time-out error has consumed one time-out event -/
theorem readFull_nT (evs : List Ev) : ∀ n,
    nTimeouts (readFull evs n).2.2 ≤ nTimeouts evs ∧
    ((readFull evs n).2.1 = some .timeout → nTimeouts (readFull evs n).2.2 + 1 ≤ nTimeouts evs) ∧
    ((readFull evs n).2.1 = some .eof → (pending evs).length < n) ∧
    (readFull evs n).2.1 ≠ some .unexpectedEOF := by
  induction evs with
  | nil => intro n; cases n <;> simp [readFull, pending, nTimeouts]
  | cons e r ih =>
    intro n
    cases n with
    | zero => simp [readFull]
    | succ n =>
      cases e with
      | timeout => simp [readFull, nTimeouts]
      | data c =>
        simp only [readFull]
        split
        · rename_i hc
          obtain ⟨i1, i2, i3, i4⟩ := ih (n + 1 - c.length)
          refine ⟨by simpa [nTimeouts] using i1, by simpa [nTimeouts] using i2, ?_, i4⟩
          intro h
          have := i3 h
          simp only [pending, List.length_append]; omega
        · simp [nTimeouts]

theorem hdrStart_spec (P : Params) (s : PD) (hs : HOK P s) :
    (hdrStart P s).1.length = P.headerLen ∧ (hdrStart P s).2 ≤ P.headerLen ∧
    (hdrStart P s).1.take (hdrStart P s).2 = (if isFresh P s then [] else s.hdr.take s.filled) := by
  unfold hdrStart isFresh at *
  split
  · simp
  · rename_i hf
    rcases hs with h | h
    · exact absurd h hf
    · simp [h.1, h.2]

/-- `ReadFirstHeader` on a connection whose client sent a full header: it fails only with a
time-out, and then one time-out event of the script is gone -/
theorem rfh_nT (P : Params) (s : PD) (hv : Valid P) (hs : HOK P s)
    (hfull : P.headerLen ≤ (accounted P s).length) :
    nTimeouts (readFirstHeader P s).2.evs ≤ nTimeouts s.evs ∧
    ∀ e, (readFirstHeader P s).1 = .err e →
      e = .timeout ∧ nTimeouts (readFirstHeader P s).2.evs + 1 ≤ nTimeouts s.evs := by
  obtain ⟨hlen, hfill, htake⟩ := hdrStart_spec P s hs
  have hneed : (hdrStart P s).1.length - (hdrStart P s).2 ≤ (pending s.evs).length := by
    have : (accounted P s).length = (hdrStart P s).2 + (pending s.evs).length := by
      unfold accounted; rw [← htake]; simp [List.length_take]; omega
    omega
  obtain ⟨h1, h2, h3, h4⟩ := readFull_nT s.evs ((hdrStart P s).1.length - (hdrStart P s).2)
  have hrl := readFull_length s.evs ((hdrStart P s).1.length - (hdrStart P s).2)
  have hsl := splice_length (hdrStart P s).1 (hdrStart P s).2
    (readFull s.evs ((hdrStart P s).1.length - (hdrStart P s).2)).1 (by omega)
  have hmi : P.majorIndex < (splice (hdrStart P s).1 (hdrStart P s).2
    (readFull s.evs ((hdrStart P s).1.length - (hdrStart P s).2)).1).length := by
    rw [hsl, hlen]; exact hv.mi
  have hni : P.minorIndex < (splice (hdrStart P s).1 (hdrStart P s).2
    (readFull s.evs ((hdrStart P s).1.length - (hdrStart P s).2)).1).length := by
    rw [hsl, hlen]; exact hv.ni
  unfold readFirstHeader
  simp only []
  rw [List.getElem?_eq_getElem hmi, List.getElem?_eq_getElem hni]
  simp only []
  split
  · exact ⟨h1, by intro e he; simp at he⟩
  · rename_i e' herr
    refine ⟨h1, ?_⟩
    intro e he
    have hee : e' = e := by simpa using he
    subst hee
    unfold readFullErr at herr
    split at herr
    · simp at herr
    · split at herr
      · rename_i hx
        exact absurd (h3 hx.2) (by omega)
      · cases e' with
        | eof => exact absurd (h3 herr) (by omega)
        | unexpectedEOF => exact absurd herr h4
        | timeout => exact ⟨rfl, h2 herr⟩

theorem route_not_io (P : Params) (cfg : Cfg) (v : UInt8) : (route P cfg v).isIO = false := by
  unfold route
  split
  · split
    · rfl
    · unfold ctorRoute; split
      · rfl
      · split <;> rfl
  · split <;> rfl

/-- `detect` on a connection without a stack whose client sent a full header -/
theorem detect_nT (P : Params) (cfg : Cfg) (c : SC) (hv : Valid P)
    (hw : c.wrapped = none) (hs : HOK P c.p) (hfull : P.headerLen ≤ (accounted P c.p).length) :
    nTimeouts (detect P cfg c).2.p.evs ≤ nTimeouts c.p.evs ∧
    ∀ e, (detect P cfg c).1 = .io e →
      e = .timeout ∧ nTimeouts (detect P cfg c).2.p.evs + 1 ≤ nTimeouts c.p.evs := by
  obtain ⟨g1, g2⟩ := rfh_nT P c.p hv hs hfull
  unfold detect
  rw [hw]
  simp only []
  cases hres : readFirstHeader P c.p with
  | mk r p1 =>
    rw [hres] at g1 g2
    simp only [] at g1 g2
    cases r with
    | panic => exact ⟨g1, by intro e he; simp at he⟩
    | err e0 =>
      refine ⟨g1, ?_⟩
      intro e he
      have : e0 = e := by simpa using he
      subst this
      exact g2 e0 rfl
    | ok =>
      simp only []
      split
      · refine ⟨g1, ?_⟩
        intro e he
        have := route_not_io P cfg p1.major
        simp only [] at he
        rw [he] at this; simp [Route.isIO] at this
      · refine ⟨g1, ?_⟩
        intro e he
        have := route_not_io P cfg p1.major
        simp only [] at he
        rw [he] at this; simp [Route.isIO] at this

theorem detect_wrapped (P : Params) (cfg : Cfg) (c : SC) (w : Route) (hw : c.wrapped = some w) :
    detect P cfg c = (w, c) := by
  unfold detect; rw [hw]

/-- the state of the public object between calls: the header bytes are accounted for, and a stack
is installed only as the routing decision on the first record's major version byte -/
def PubInv (P : Params) (cfg : Cfg) (sent : Bytes) (u : Pub) : Prop :=
  HOK P u.c.p ∧ accounted P u.c.p = sent ∧
  (u.c.wrapped = none ∨ ∃ mj, sent[P.majorIndex]? = some mj ∧ P.headerLen ≤ sent.length ∧
      u.c.wrapped = some (route P cfg mj))

/-- `k` calls on the public object when `conn()` keeps nothing of a failed detection -/
theorem calls_spec (P : Params) (cfg : Cfg) (hv : Valid P) (hr : P.resumable = true)
    (hrd : P.retriesDetect = true) (sent : Bytes) :
    ∀ (k : Nat) (u : Pub), PubInv P cfg sent u →
      (calls P cfg k u).1.length = k ∧
      (∀ x ∈ (calls P cfg k u).1, (∃ e, x = .io e) ∨
        ∃ mj, sent[P.majorIndex]? = some mj ∧ P.headerLen ≤ sent.length ∧ x = route P cfg mj) ∧
      (P.headerLen ≤ sent.length →
        (∀ x ∈ (calls P cfg k u).1, ∀ e, x = .io e → e = .timeout) ∧
        ((calls P cfg k u).1.filter Route.isIO).length + nTimeouts (calls P cfg k u).2.c.p.evs
          ≤ nTimeouts u.c.p.evs) := by
  intro k
  induction k with
  | zero => intro u _; simp [calls]
  | succ k ih =>
    intro u hu
    obtain ⟨hs, hacc, hwr⟩ := hu
    have hcall : call P cfg u = ((detect P cfg u.c).1, { u with c := (detect P cfg u.c).2 }) := by
      unfold call; simp [hrd]
    simp only [calls, hcall]
    rcases hwr with hw | ⟨mj, hmj, hlen, hw⟩
    · -- no stack yet: detect runs
      obtain ⟨⟨hs', hacc'⟩, hstep⟩ := detect_step P cfg u.c hv hr hw hs
      rw [hacc] at hacc' hstep
      have hinv' : PubInv P cfg sent { u with c := (detect P cfg u.c).2 } := by
        refine ⟨hs', hacc', ?_⟩
        rcases hstep with ⟨e, _, hwn⟩ | ⟨mj, hr1, hidx, hlen, hwr, _⟩
        · exact Or.inl hwn
        · by_cases hsv : (route P cfg mj).served = true
          · exact Or.inr ⟨mj, hidx, hlen, by simp [hwr, hsv]⟩
          · exact Or.inl (by simp [hwr, hsv])
      obtain ⟨i1, i2, i3⟩ := ih _ hinv'
      have hthis : (∃ e, (detect P cfg u.c).1 = .io e) ∨
          ∃ mj, sent[P.majorIndex]? = some mj ∧ P.headerLen ≤ sent.length ∧
            (detect P cfg u.c).1 = route P cfg mj := by
        rcases hstep with ⟨e, he, _⟩ | ⟨mj, hr1, hidx, hlen, _, _⟩
        · exact Or.inl ⟨e, he⟩
        · exact Or.inr ⟨mj, hidx, hlen, hr1⟩
      refine ⟨by simp [i1], ?_, ?_⟩
      · intro x hx
        simp only [List.mem_cons] at hx
        rcases hx with hx | hx
        · rw [hx]; exact hthis
        · exact i2 x hx
      · intro hfull
        obtain ⟨j1, j2⟩ := i3 hfull
        obtain ⟨d1, d2⟩ := detect_nT P cfg u.c hv hw hs (by rw [hacc]; exact hfull)
        refine ⟨?_, ?_⟩
        · intro x hx e he
          simp only [List.mem_cons] at hx
          rcases hx with hx | hx
          · rw [hx] at he; exact (d2 e he).1
          · exact j1 x hx e he
        · simp only [List.filter_cons]
          split
          · rename_i hio
            cases hd : (detect P cfg u.c).1 with
            | io e =>
              have := (d2 e hd).2
              simp only [List.length_cons]
              simp only [] at j2
              omega
            | tlcp => rw [hd] at hio; simp [Route.isIO] at hio
            | tls => rw [hd] at hio; simp [Route.isIO] at hio
            | unsupported => rw [hd] at hio; simp [Route.isIO] at hio
            | config => rw [hd] at hio; simp [Route.isIO] at hio
            | panic => rw [hd] at hio; simp [Route.isIO] at hio
          · simp only [] at j2
            omega
    · -- a stack is installed: every call goes to it
      have hd := detect_wrapped P cfg u.c _ hw
      have hu' : ({ u with c := (detect P cfg u.c).2 } : Pub) = u := by rw [hd]
      rw [hu']
      have hinv' : PubInv P cfg sent u := ⟨hs, hacc, Or.inr ⟨mj, hmj, hlen, hw⟩⟩
      obtain ⟨i1, i2, i3⟩ := ih u hinv'
      have hans : (detect P cfg u.c).1 = route P cfg mj := by rw [hd]
      refine ⟨by simp [i1], ?_, ?_⟩
      · intro x hx
        simp only [List.mem_cons] at hx
        rcases hx with hx | hx
        · rw [hx, hans]; exact Or.inr ⟨mj, hmj, hlen, rfl⟩
        · exact i2 x hx
      · intro hfull
        obtain ⟨j1, j2⟩ := i3 hfull
        have hnio := route_not_io P cfg mj
        refine ⟨?_, ?_⟩
        · intro x hx e he
          simp only [List.mem_cons] at hx
          rcases hx with hx | hx
          · rw [hx, hans] at he; rw [he] at hnio; simp [Route.isIO] at hnio
          · exact j1 x hx e he
        · rw [hans]
          simp only [List.filter_cons, hnio]
          exact j2

end Gotlcp.Lemmas.PA

/-
Two finished endpoints: from the shape of their histories, the PRF / hash laws and the
secrecy assumption, both histories consist of the same items.  Core Lean only.
-/
import Gotlcp.Lemmas.TranscriptInv

set_option linter.unusedSimpArgs false
set_option linter.unusedVariables false

namespace Gotlcp.Lemmas.Transcript
open Gotlcp.Model.Transcript

variable {P : Prims} {k : Codes}

theorem itemsOf_noCCS : ∀ {A : List Entry}, noCCS A = true → itemsOf A = (msgsOf A).map Item.msg
  | [], _ => rfl
  | .msg _ m :: r, h => by
    simp only [noCCS] at h
    simp [itemsOf, msgsOf, itemsOf_noCCS h]
  | .ccs _ :: r, h => by simp [noCCS] at h

/-- the Finished values a finished endpoint wrote and accepted -/
theorem done_fins (ne : CodesNe k) {h : HS P} {A : List Entry} {s : P.Secret} {d : Bool} {F1 F2 : Msg}
    (ht : Tail k h A [.ccs d, .msg d F1, .ccs (!d), .msg (!d) F2] s)
    (h1 : mtype F1 = k.tFin) (h2 : mtype F2 = k.tFin) :
    finSent k h.log = (if d then [mbody F1] else [mbody F2]) ∧
    finAccepted k h.log = (if d then [mbody F2] else [mbody F1]) := by
  rw [ht.log, finSent_append, finAccepted_append, finSent_nil_of_nFin ht.nofin, finAccepted_nil_of_nFin ht.nofin]
  cases d <;> simp [finSent, finAccepted, h1, h2]

theorem mbody_finMsg (s : P.Secret) (l : Bool) (pre : List Msg) :
    mbody (finMsg k P s l pre) = P.prf s l (hashT P pre) := mbody_frame _ _

theorem mtype_finMsg (ne : CodesNe k) (s : P.Secret) (l : Bool) (pre : List Msg) :
    mtype (finMsg k P s l pre) = k.tFin := mtype_frame ne.lt_Fin _

/-- the core of C03 -/
theorem done_agree (ne : CodesNe k) {c s : HS P} (hc : DoneShape k c) (hs : DoneShape k s)
    (rc : c.role = .client) (rs : s.role = .server)
    (hfr : ∀ m, m ∈ msgsOf c.log ++ msgsOf s.log → WellFramed m)
    (hsm : ∀ vd, vd ∈ finAccepted k c.log ++ finAccepted k s.log → vd ∈ finSent k c.log ++ finSent k s.log) :
    itemsOf c.log = itemsOf s.log ∧ c.ms = s.ms := by
  obtain ⟨Ac, sc, tc⟩ := hc
  obtain ⟨As, ss, ts⟩ := hs
  dsimp only at tc ts
  have icc : c.role.isClient = true := by rw [rc]; rfl
  have ics : s.role.isClient = false := by rw [rs]; rfl
  rw [icc] at tc
  rw [ics] at ts
  simp only [beq_true, beq_false] at tc ts
  -- names
  generalize hshc : hasSHD k Ac = shc at tc
  generalize hshs : hasSHD k As = shs at ts
  have fc := done_fins ne tc (mtype_finMsg ne _ _ _) (mtype_finMsg ne _ _ _)
  have fs := done_fins ne ts (mtype_finMsg ne _ _ _) (mtype_finMsg ne _ _ _)
  simp only [mbody_finMsg] at fc fs
  -- message lists of both histories
  have mc : msgsOf c.log = msgsOf Ac ++ [finMsg k P sc shc (msgsOf Ac),
      finMsg k P sc (!shc) (msgsOf Ac ++ [finMsg k P sc shc (msgsOf Ac)])] := by
    rw [tc.log]; simp [msgsOf_append, msgsOf]
  have ms' : msgsOf s.log = msgsOf As ++ [finMsg k P ss shs (msgsOf As),
      finMsg k P ss (!shs) (msgsOf As ++ [finMsg k P ss shs (msgsOf As)])] := by
    rw [ts.log]; simp [msgsOf_append, msgsOf]
  have wAc : ∀ m ∈ msgsOf Ac, WellFramed m := fun m hm => hfr m (by rw [mc]; simp [hm])
  have wAs : ∀ m ∈ msgsOf As, WellFramed m := fun m hm => hfr m (by rw [ms']; simp [hm])
  have wF1c : WellFramed (finMsg k P sc shc (msgsOf Ac)) := hfr _ (by rw [mc]; simp)
  have wF1s : WellFramed (finMsg k P ss shs (msgsOf As)) := hfr _ (by rw [ms']; simp)
  have nfc := not_fin_of_nFin tc.nofin
  have nfs := not_fin_of_nFin ts.nofin
  -- the two prefixes and secrets agree
  have key : msgsOf Ac = msgsOf As ∧ sc = ss ∧ shc = shs := by
    cases shc <;> cases shs
    · -- both resumed: the client accepted the first Finished
      simp only [Bool.false_eq_true, if_false, if_true, Bool.not_false, Bool.not_true] at fc fs
      have := hsm (P.prf sc false (hashT P (msgsOf Ac))) (by rw [fc.2]; simp)
      rw [fc.1, fs.1] at this
      simp only [List.cons_append, List.nil_append, List.mem_cons, List.not_mem_nil, or_false] at this
      rcases this with e | e
      · have := (P.prf_inj _ _ _ _ _ _ e).2.1; simp at this
      · obtain ⟨e1, _, e3⟩ := P.prf_inj _ _ _ _ _ _ e
        exact ⟨hashT_injective P wAc wAs e3, e1, rfl⟩
    · -- client resumed, server full: impossible
      simp only [Bool.false_eq_true, if_false, if_true, Bool.not_false, Bool.not_true] at fc fs
      have := hsm (P.prf ss true (hashT P (msgsOf As))) (by rw [fs.2]; simp)
      rw [fc.1, fs.1] at this
      simp only [List.cons_append, List.nil_append, List.mem_cons, List.not_mem_nil, or_false] at this
      rcases this with e | e
      · obtain ⟨_, _, e3⟩ := P.prf_inj _ _ _ _ _ _ e
        have hl := hashT_injective P wAs (by
          intro m hm; simp only [List.mem_append, List.mem_singleton] at hm
          rcases hm with hm | rfl
          · exact wAc m hm
          · exact wF1c) e3
        exact absurd (mtype_finMsg ne sc false (msgsOf Ac)) (nfs _ (by rw [hl]; simp))
      · have := (P.prf_inj _ _ _ _ _ _ e).2.1; simp at this
    · -- client full, server resumed: impossible
      simp only [Bool.false_eq_true, if_false, if_true, Bool.not_false, Bool.not_true] at fc fs
      have := hsm (P.prf sc false (hashT P (msgsOf Ac ++ [finMsg k P sc true (msgsOf Ac)]))) (by rw [fc.2]; simp)
      rw [fc.1, fs.1] at this
      simp only [List.cons_append, List.nil_append, List.mem_cons, List.not_mem_nil, or_false] at this
      rcases this with e | e
      · have := (P.prf_inj _ _ _ _ _ _ e).2.1; simp at this
      · obtain ⟨_, _, e3⟩ := P.prf_inj _ _ _ _ _ _ e
        have hl := hashT_injective P (by
          intro m hm; simp only [List.mem_append, List.mem_singleton] at hm
          rcases hm with hm | rfl
          · exact wAc m hm
          · exact wF1c) wAs e3
        exact absurd (mtype_finMsg ne sc true (msgsOf Ac)) (nfs _ (by rw [← hl]; simp))
    · -- both full: the server accepted the first Finished
      simp only [Bool.false_eq_true, if_false, if_true, Bool.not_false, Bool.not_true] at fc fs
      have := hsm (P.prf ss true (hashT P (msgsOf As))) (by rw [fs.2]; simp)
      rw [fc.1, fs.1] at this
      simp only [List.cons_append, List.nil_append, List.mem_cons, List.not_mem_nil, or_false] at this
      rcases this with e | e
      · obtain ⟨e1, _, e3⟩ := P.prf_inj _ _ _ _ _ _ e
        exact ⟨(hashT_injective P wAs wAc e3).symm, e1.symm, rfl⟩
      · have := (P.prf_inj _ _ _ _ _ _ e).2.1; simp at this
  obtain ⟨e1, e2, e3⟩ := key
  subst e2 e3
  refine ⟨?_, by rw [tc.ms, ts.ms]⟩
  rw [tc.log, ts.log, itemsOf_append, itemsOf_append, itemsOf_noCCS tc.noccs, itemsOf_noCCS ts.noccs, e1]
  simp [itemsOf]

end Gotlcp.Lemmas.Transcript

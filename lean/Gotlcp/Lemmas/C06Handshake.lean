/-
Helper lemmas for C06: the boundary between the handshake and the application phase on the
receiving side (model `Gotlcp.Model.RecordRxHandshake`).  An honest last flight
(ChangeCipherSpec, Finished) followed by an honest application stream, cut into transport
reads in any way, is consumed by `readFinished` up to exactly the end of the Finished record;
everything behind it — buffered in `rawInput` or still on the transport — is an honest
stream for `Conn.Read` at the next sequence number.
-/
import Gotlcp.Model.RecordRxHandshake
import Gotlcp.Lemmas.C06Rx

set_option linter.unusedSimpArgs false
set_option linter.unusedVariables false

namespace Gotlcp.Lemmas.C06Hs
open Gotlcp.Model.RecordRx
open Gotlcp.Lemmas.C06Rx
open Gotlcp

/-- the constants the argument needs (all pinned by `C06_facts`) -/
structure HsOK (P : Params) : Prop where
  ok : ParamsOK P
  hsNeAlert : P.typeHandshake ≠ P.typeAlert
  hsNeCCS : P.typeHandshake ≠ P.typeCCS
  hsNeApp : P.typeHandshake ≠ P.typeAppData
  ccsNeAlert : P.typeCCS ≠ P.typeAlert
  ccsNotV2 : P.typeCCS ≠ 0x80
  hsNotV2 : P.typeHandshake ≠ 0x80
  one : 1 ≤ P.maxPlaintext

/-- `w` is what an honest peer sends from its ChangeCipherSpec on, as a receiver without a read
cipher sees it: the ChangeCipherSpec record (one byte, 1, not protected), one record that opens
under the new keys at sequence number 0 to a complete Finished message `fin` the key schedule
accepts, then an honest application stream from sequence number 1 (`Honest`). -/
def HonestFlight (P : Params) (H : HsParams) (dec : Dec) (okFin : Bytes → Bool)
    (tc th ta tl cn : UInt8) (w : Bytes) (ps : List Bytes) (closed : Bool) : Prop :=
  ∃ w1 body w2 fin, parseOne P w = (.frame tc [1], w1) ∧ parseOne P w1 = (.frame th body, w2) ∧
    dec 0 th body = some fin ∧
    fin.length = 4 + be24 (fin.getD 1 0) (fin.getD 2 0) (fin.getD 3 0) ∧
    be24 (fin.getD 1 0) (fin.getD 2 0) (fin.getD 3 0) ≤ H.maxHandshake ∧
    fin.length ≤ P.maxPlaintext ∧ (fin.getD 0 0).toNat = H.typeFinished ∧ okFin fin = true ∧
    Honest P dec ta tl cn 1 w2 ps closed

/-- the SSLv2 pre-check does not fire on a record of another type -/
theorem precheck (P : Params) (h5 : 5 ≤ P.recordHeaderLen) (hg : P.eofShortOnlyWhenShort = true)
    (r : Raw) (hx : r.expired = false) (t : UInt8) (b w' : Bytes)
    (hp : parseOne P r.all = (.frame t b, w')) (ht : t.toNat ≠ 0x80) :
    ¬ ((r.fill P P.recordHeaderLen).2.2 = true ∧
       ((r.fill P P.recordHeaderLen).1.getD 0 0).toNat = 0x80) := by
  simp only [Raw.fill, hg, hx]
  rintro ⟨hok, h80⟩
  have hl := fill_len _ _ _ _ hok
  have ha : (fill true r.eofWithLast false P.recordHeaderLen r.raw r.chunks).1 ++
      (fill true r.eofWithLast false P.recordHeaderLen r.raw r.chunks).2.1.flatten = r.all :=
    fill_all true r.eofWithLast false P.recordHeaderLen r.chunks r.raw
  have hg' := prefix_getD r.all ha 0 (by omega)
  rw [hg', (parseOne_typ P h5 _ _ _ _ hp).1] at h80
  exact ht h80

/-- one pass over the peer's ChangeCipherSpec -/
theorem readOneHs_ccs (P : Params) (dec : Dec) (ok : HsOK P) (s : HsRx) (tc : UInt8)
    (htc : tc.toNat = P.typeCCS) (w' : Bytes) (hk : s.keyed = false) (hh : s.hand = [])
    (hx : s.io.expired = false)
    (hp : parseOne P s.io.all = (.frame tc [1], w')) :
    ∃ s1, readOneHs P dec true s = (.ccs, s1) ∧ s1.io.all = w' ∧ s1.keyed = true ∧ s1.seq = 0 ∧
      s1.hand = [] ∧ s1.err = s.err ∧ s1.io.expired = false := by
  have h5 : 5 ≤ P.recordHeaderLen := by rw [ok.ok.hdr]; omega
  obtain ⟨a, b⟩ := nextFrame_parse P h5 ok.ok.guard s.io hx
  have hfl := (nextFrame_flags P s.io).1
  rw [hp] at a b
  have hpre := precheck P h5 ok.ok.guard s.io hx tc [1] w' hp (by rw [htc]; exact ok.ccsNotV2)
  unfold readOneHs
  simp only [hpre, ↓reduceIte]
  cases hn : nextFrame P s.io with
  | mk f io' =>
    rw [hn] at a b hfl
    simp only [] at a b hfl
    subst a
    have h1 : ¬ P.maxPlaintext < 1 := by have := ok.one; omega
    have h2 : ¬ P.typeCCS = P.typeAppData := fun h => ok.ok.appNeCCS h.symm
    simp only [hsDec, hk, Bool.false_eq_true, ↓reduceIte, List.length_cons, List.length_nil, Nat.zero_add, h1,
      htc, h2, and_false, ok.ccsNeAlert, ne_eq, not_true_eq_false, false_and, hh, Nat.lt_irrefl,
      gt_iff_lt, Bool.true_eq_false]
    exact ⟨_, rfl, b, rfl, rfl, rfl, rfl, by rw [← hx]; exact hfl⟩

/-- one pass over a protected handshake record while the handshake is running -/
theorem readOneHs_hs (P : Params) (dec : Dec) (ok : HsOK P) (s : HsRx) (th : UInt8)
    (hth : th.toNat = P.typeHandshake) (body w' m : Bytes) (hk : s.keyed = true)
    (hx : s.io.expired = false)
    (hp : parseOne P s.io.all = (.frame th body, w')) (hd : dec s.seq th body = some m)
    (h0 : 0 < m.length) (hm : m.length ≤ P.maxPlaintext) :
    ∃ s1, readOneHs P dec false s = (.grew, s1) ∧ s1.io.all = w' ∧ s1.keyed = true ∧
      s1.seq = s.seq + 1 ∧ s1.hand = s.hand ++ m ∧ s1.err = s.err ∧ s1.io.expired = false := by
  have h5 : 5 ≤ P.recordHeaderLen := by rw [ok.ok.hdr]; omega
  obtain ⟨a, b⟩ := nextFrame_parse P h5 ok.ok.guard s.io hx
  have hfl := (nextFrame_flags P s.io).1
  rw [hp] at a b
  have hpre := precheck P h5 ok.ok.guard s.io hx th body w' hp (by rw [hth]; exact ok.hsNotV2)
  unfold readOneHs
  simp only [hpre, ↓reduceIte]
  cases hn : nextFrame P s.io with
  | mk f io' =>
    rw [hn] at a b hfl
    simp only [] at a b hfl
    subst a
    have h1 : ¬ P.maxPlaintext < m.length := by omega
    have h4 : ¬ m.length = 0 := by omega
    simp only [hsDec, hk, ↓reduceIte, hd, h1, hth, ok.hsNeAlert, ok.hsNeCCS, ok.hsNeApp, h4, h0,
      Bool.true_eq_false, false_and, and_false, ne_eq, not_false_eq_true, true_and, and_true, gt_iff_lt,
      or_self, Bool.false_eq_true]
    exact ⟨_, rfl, b, rfl, rfl, rfl, rfl, by rw [← hx]; exact hfl⟩

theorem readRecordHs_ccs (P : Params) (dec : Dec) (ok : HsOK P) (s : HsRx) (tc : UInt8)
    (htc : tc.toNat = P.typeCCS) (w' : Bytes) (he : s.err = none) (hk : s.keyed = false) (hh : s.hand = [])
    (hx : s.io.expired = false)
    (hp : parseOne P s.io.all = (.frame tc [1], w')) :
    ∃ s1, readRecordHs P dec true (recFuel P) s = (none, s1) ∧ s1.io.all = w' ∧ s1.keyed = true ∧
      s1.seq = 0 ∧ s1.hand = [] ∧ s1.err = none ∧ s1.io.expired = false := by
  obtain ⟨s1, h1, h2, h3, h4, h5, h6, h7⟩ := readOneHs_ccs P dec ok s tc htc w' hk hh hx hp
  refine ⟨s1, ?_, h2, h3, h4, h5, by rw [h6, he], h7⟩
  rw [recFuel_succ]
  simp [readRecordHs, he, h1]

theorem readRecordHs_hs (P : Params) (dec : Dec) (ok : HsOK P) (s : HsRx) (th : UInt8)
    (hth : th.toNat = P.typeHandshake) (body w' m : Bytes) (he : s.err = none) (hk : s.keyed = true)
    (hx : s.io.expired = false)
    (hp : parseOne P s.io.all = (.frame th body, w')) (hd : dec s.seq th body = some m)
    (h0 : 0 < m.length) (hm : m.length ≤ P.maxPlaintext) :
    ∃ s1, readRecordHs P dec false (recFuel P) s = (none, s1) ∧ s1.io.all = w' ∧ s1.keyed = true ∧
      s1.seq = s.seq + 1 ∧ s1.hand = s.hand ++ m ∧ s1.err = none ∧ s1.io.expired = false := by
  obtain ⟨s1, h1, h2, h3, h4, h5, h6, h7⟩ := readOneHs_hs P dec ok s th hth body w' m hk hx hp hd h0 hm
  refine ⟨s1, ?_, h2, h3, h4, h5, by rw [h6, he], h7⟩
  rw [recFuel_succ]
  simp [readRecordHs, he, h1]

theorem fillHand_ready (P : Params) (dec : Dec) (k fuel : Nat) (s : HsRx) (h : k ≤ s.hand.length) :
    fillHand P dec k (fuel + 1) s = (none, s) := by
  simp [fillHand, h]

theorem fillHand_one (P : Params) (dec : Dec) (k fuel : Nat) (s s1 : HsRx) (hk : ¬ k ≤ s.hand.length)
    (h : readRecordHs P dec false (recFuel P) s = (none, s1)) (h1 : k ≤ s1.hand.length) :
    fillHand P dec k (fuel + 2) s = (none, s1) := by
  have : fillHand P dec k (fuel + 2) s = fillHand P dec k (fuel + 1) s1 := by
    simp [fillHand, hk, h]
  rw [this, fillHand_ready P dec k fuel s1 h1]

/-- `readHandshake` on a Finished that arrives whole in one record -/
theorem readHandshakeMsg_one (P : Params) (H : HsParams) (dec : Dec) (ok : HsOK P) (s : HsRx) (th : UInt8)
    (hth : th.toNat = P.typeHandshake) (body w' m : Bytes) (he : s.err = none) (hk : s.keyed = true)
    (hh : s.hand = []) (hx : s.io.expired = false)
    (hp : parseOne P s.io.all = (.frame th body, w')) (hd : dec s.seq th body = some m)
    (hlen : m.length = 4 + be24 (m.getD 1 0) (m.getD 2 0) (m.getD 3 0))
    (hmax : be24 (m.getD 1 0) (m.getD 2 0) (m.getD 3 0) ≤ H.maxHandshake)
    (hm : m.length ≤ P.maxPlaintext) :
    ∃ s2, readHandshakeMsg P H dec s = (some m, none, s2) ∧ s2.io.all = w' ∧ s2.seq = s.seq + 1 ∧
      s2.hand = [] ∧ s2.err = none ∧ s2.io.expired = false := by
  have h0 : 0 < m.length := by omega
  obtain ⟨s1, r1, r2, r3, r4, r5, r6, r7⟩ := readRecordHs_hs P dec ok s th hth body w' m he hk hx hp hd h0 hm
  rw [hh, List.nil_append] at r5
  have hk4 : ¬ 4 ≤ s.hand.length := by rw [hh]; simp
  have h4 : 4 ≤ s1.hand.length := by rw [r5]; omega
  have f1 : fillHand P dec 4 (hsFuel s) s = (none, s1) := fillHand_one P dec 4 _ s s1 hk4 r1 h4
  have hn : 4 + be24 (s1.hand.getD 1 0) (s1.hand.getD 2 0) (s1.hand.getD 3 0) ≤ s1.hand.length := by
    rw [r5]; omega
  have f2 : fillHand P dec (4 + be24 (s1.hand.getD 1 0) (s1.hand.getD 2 0) (s1.hand.getD 3 0)) (hsFuel s1) s1
      = (none, s1) := fillHand_ready P dec _ (s1.io.all.length + 1) s1 hn
  have hmax' : ¬ H.maxHandshake < be24 (s1.hand.getD 1 0) (s1.hand.getD 2 0) (s1.hand.getD 3 0) := by
    rw [r5]; omega
  unfold readHandshakeMsg
  rw [f1]
  simp only [hmax', ↓reduceIte]
  rw [f2]
  simp only []
  have htake : s1.hand.take (4 + be24 (s1.hand.getD 1 0) (s1.hand.getD 2 0) (s1.hand.getD 3 0)) = m := by
    rw [r5, ← hlen]; exact List.take_length
  have hdrop : s1.hand.drop (4 + be24 (s1.hand.getD 1 0) (s1.hand.getD 2 0) (s1.hand.getD 3 0)) = [] := by
    rw [r5, ← hlen]; exact List.drop_length
  rw [htake, hdrop]
  exact ⟨_, rfl, r2, r4, rfl, r6, r7⟩

/-- **the boundary.**  `readFinished` on an honest last flight, whatever the chunking and
whatever was already buffered: it succeeds, and the connection it hands to `Conn.Read`
(`finishHandshake`) satisfies the invariant of an honest application stream with nothing
delivered yet — the bytes behind the Finished record are all still there. -/
theorem lastFlight_honest (P : Params) (H : HsParams) (dec : Dec) (okFin : Bytes → Bool) (ok : HsOK P)
    (tc th ta tl cn : UInt8) (htc : tc.toNat = P.typeCCS) (hth : th.toNat = P.typeHandshake)
    (s : HsRx) (he : s.err = none) (hk : s.keyed = false) (hh : s.hand = []) (hx : s.io.expired = false)
    (ps : List Bytes) (closed : Bool)
    (hf : HonestFlight P H dec okFin tc th ta tl cn s.io.all ps closed) :
    ∃ s2, readLastFlight P H dec okFin s = (none, s2) ∧
      Inv P dec ta tl cn ps.flatten (finishHandshake s2) [] := by
  obtain ⟨w1, body, w2, fin, p1, p2, hd, hlen, hmax, hm, hty, hokf, hon⟩ := hf
  obtain ⟨s1, c1, c2, c3, c4, c5, c6, c7⟩ := readRecordHs_ccs P dec ok s tc htc w1 he hk hh hx p1
  obtain ⟨s2, m1, m2, m3, m4, m5, m6⟩ := readHandshakeMsg_one P H dec ok s1 th hth body w2 fin c6 c3 c5 c7
    (by rw [c2]; exact p2) (by rw [c4]; exact hd) hlen hmax hm
  refine ⟨s2, ?_, ?_⟩
  · unfold readLastFlight
    rw [c1]
    simp only []
    rw [m1]
    simp only [hty, ne_eq, not_true_eq_false, ↓reduceIte, hokf, Bool.true_eq_false]
  · left
    refine ⟨m5, m6, ps, closed, ?_, by simp [finishHandshake]⟩
    show Honest P dec ta tl cn s2.seq s2.io.all ps closed
    rw [m3, c4, m2]
    exact hon

end Gotlcp.Lemmas.C06Hs

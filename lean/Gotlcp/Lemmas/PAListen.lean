/-
Helper lemmas for the listener part of C20 (model `Gotlcp.Model.PAListen`).
-/
import Gotlcp.Lemmas.PARetry
import Gotlcp.Model.PAListen

set_option linter.unusedSimpArgs false
set_option linter.unusedVariables false

namespace Gotlcp.Lemmas.PA
open Gotlcp.Model.PA

theorem evCount_eq (evs : List Ev) : evCount evs = evMeasure evs := by
  induction evs with
  | nil => rfl
  | cons e r ih => cases e <;> simp [evCount, evMeasure, ih]

theorem pending_script (acts : List (Nat × PAct)) : pending (script acts) = stream acts := by
  induction acts with
  | nil => rfl
  | cons x r ih =>
    obtain ⟨g, a⟩ := x
    cases a with
    | send c => simp [script, stream, pending, ih]
    | close => simp [script, stream, pending]

theorem nTimeouts_script (acts : List (Nat × PAct)) : nTimeouts (script acts) = 0 := by
  induction acts with
  | nil => rfl
  | cons x r ih =>
    obtain ⟨g, a⟩ := x
    cases a with
    | send c => simp [script, nTimeouts, ih]
    | close => simp [script, nTimeouts]

/-- a blocking read of `need` bytes returns once the peer has sent that many — at a tick that is read
off the peer's own acts -/
theorem readyAt_of_stream : ∀ (acts : List (Nat × PAct)) (need t : Nat),
    need ≤ (stream acts).length → ∃ r, readyAt need t acts = some r ∧ t ≤ r := by
  intro acts
  induction acts with
  | nil =>
    intro need t h
    have : need = 0 := by simpa [stream] using h
    subst this
    exact ⟨t, by simp [readyAt], Nat.le_refl t⟩
  | cons x r ih =>
    intro need t h
    obtain ⟨g, a⟩ := x
    cases need with
    | zero => exact ⟨t, by simp [readyAt], Nat.le_refl t⟩
    | succ n =>
      cases a with
      | close => simp [stream] at h
      | send c =>
        simp only [stream, List.length_append] at h
        obtain ⟨r', hr, hle⟩ := ih (n + 1 - c.length) (t + g) (by omega)
        exact ⟨r', by simpa [readyAt] using hr, by omega⟩

theorem readyAt_ge : ∀ (acts : List (Nat × PAct)) (need t r : Nat),
    readyAt need t acts = some r → t ≤ r := by
  intro acts
  induction acts with
  | nil =>
    intro need t r h
    cases need with
    | zero => simp [readyAt] at h; omega
    | succ n => simp [readyAt] at h
  | cons x rest ih =>
    intro need t r h
    obtain ⟨g, a⟩ := x
    cases need with
    | zero => simp [readyAt] at h; omega
    | succ n =>
      cases a with
      | close => simp [readyAt] at h; omega
      | send c =>
        simp only [readyAt] at h
        have := ih _ _ _ h
        omega

/-- without a peek inside `Accept` the accept loop takes every connection the tick it arrives, and each
connection's outcome is the one it has on its own -/
theorem listenRun_solo (P : Params) (cfg : Cfg) (rb : Nat) : ∀ (peers : List Peer) (f t0 : Nat), f ≤ t0 →
    listenRun P cfg false rb (some f) t0 peers =
      (arrivals t0 peers).map (fun ap => solo P cfg rb ap.1 ap.2) := by
  intro peers
  induction peers with
  | nil => intro f t0 _; rfl
  | cons p ps ih =>
    intro f t0 h
    have hm : max f (t0 + p.arrive) = t0 + p.arrive := by omega
    simp only [listenRun, arrivals, List.map_cons, hm, Bool.false_eq_true, ↓reduceIte]
    rw [ih (t0 + p.arrive) (t0 + p.arrive) (Nat.le_refl _)]
    rfl

end Gotlcp.Lemmas.PA

/-
The invariant of the handshake-layer state machines of `Gotlcp.Model.Transcript` (for sound
transcript flags): every reachable state has a history that is the canonical direction
assignment of its items, its `finishedHash` content is the message list of the history, and
the tail of the history has the ChangeCipherSpec / Finished shape of its control state with
Finished = PRF(master, label, H(everything before)).  Core Lean only.
-/
import Gotlcp.Lemmas.Transcript

set_option linter.unusedSimpArgs false
set_option linter.unusedSectionVars false
set_option linter.unusedVariables false

namespace Gotlcp.Lemmas.Transcript
open Gotlcp.Model.Transcript

/-! ### canonical histories grow canonically -/

def CanonL (k : Codes) (c : Bool) (L : List Entry) : Prop := L = assign k c false 0 (itemsOf L)

theorem canonL_nil (k : Codes) (c : Bool) : CanonL k c [] := rfl

theorem itemsOf_tag (s : Bool) (it : Item) : itemsOf [tag s it] = [it] := by cases it <;> rfl

theorem canonL_snoc {k : Codes} {c : Bool} {L : List Entry} (hL : CanonL k c L) (it : Item) (sent : Bool)
    (hs : sent = (clientWrote k (hasSHD k L) (nFin k L) it == c)) : CanonL k c (L ++ [tag sent it]) := by
  unfold CanonL at *
  rw [itemsOf_append, assign_append, ← hL, itemsSHD_itemsOf, itemsFin_itemsOf, itemsOf_tag]
  simp only [assign, Bool.false_or, Nat.zero_add, hs]

/-- history before any ChangeCipherSpec / Finished -/
def Pre (k : Codes) (shd : Bool) (A : List Entry) : Prop := nFin k A = 0 ∧ noCCS A = true ∧ hasSHD k A = shd

theorem pre_snoc {k : Codes} {shd : Bool} {A : List Entry} (h : Pre k shd A) (d : Bool) (m : Msg)
    (hm : mtype m ≠ k.tFin) : Pre k (shd || decide (mtype m = k.tSHD)) (A ++ [.msg d m]) := by
  obtain ⟨h1, h2, h3⟩ := h
  refine ⟨?_, ?_, ?_⟩
  · rw [nFin_append, h1]; simp [nFin, hm]
  · rw [noCCS_append, h2]; simp [noCCS]
  · rw [hasSHD_append, h3]; simp [hasSHD]

/-- the Finished message over a history prefix -/
def finMsg (k : Codes) (P : Prims) (s : P.Secret) (lab : Bool) (pre : List Msg) : Msg :=
  frame k.tFin (P.prf s lab (hashT P pre))

/-- the state of an endpoint before its first ChangeCipherSpec -/
structure Mid {P : Prims} (k : Codes) (h : HS P) (shd : Bool) : Prop where
  canon : CanonL k h.role.isClient h.log
  pre : Pre k shd h.log
  trans : h.transcript = msgsOf h.log

/-- an endpoint whose history ends with `tail` after a CCS-free prefix `A` -/
structure Tail {P : Prims} (k : Codes) (h : HS P) (A tail : List Entry) (s : P.Secret) : Prop where
  canon : CanonL k h.role.isClient h.log
  log : h.log = A ++ tail
  nofin : nFin k A = 0
  noccs : noCCS A = true
  trans : h.transcript = msgsOf h.log
  ms : h.ms = some s

/-- the complete history of a finished endpoint: a CCS-free prefix `A`, then
ChangeCipherSpec + Finished of one side, then of the other.  The first Finished carries the
client label exactly when `A` contains a ServerHelloDone (full handshake); this endpoint wrote
the first pair iff (`A` has a ServerHelloDone) = (it is the client). -/
def DoneShape {P : Prims} (k : Codes) (h : HS P) : Prop :=
  ∃ (A : List Entry) (s : P.Secret),
    let shd := hasSHD k A
    let d := (shd == h.role.isClient)
    let F1 := finMsg k P s shd (msgsOf A)
    let F2 := finMsg k P s (!shd) (msgsOf A ++ [F1])
    Tail k h A [.ccs d, .msg d F1, .ccs (!d), .msg (!d) F2] s

def Shape {P : Prims} (k : Codes) (h : HS P) : Prop :=
  match h.ctl with
  | .cSH => h.role = .client ∧ CanonL k true h.log ∧ ∃ ch, h.log = [.msg true ch] ∧ mtype ch = k.tCH
  | .cCert => h.role = .client ∧ Mid k h false
  | .cSKX => h.role = .client ∧ Mid k h false
  | .cCR => h.role = .client ∧ Mid k h false
  | .cSHD => h.role = .client ∧ Mid k h false
  | .cCCS false => h.role = .client ∧ ∃ A s, hasSHD k A = true ∧
      Tail k h A [.ccs true, .msg true (finMsg k P s true (msgsOf A))] s
  | .cFin false => h.role = .client ∧ ∃ A s, hasSHD k A = true ∧
      Tail k h A [.ccs true, .msg true (finMsg k P s true (msgsOf A)), .ccs false] s
  | .cCCS true => h.role = .client ∧ Mid k h false ∧ ∃ s, h.ms = some s
  | .cFin true => h.role = .client ∧ ∃ A s, hasSHD k A = false ∧ Tail k h A [.ccs false] s
  | .sCH => h.role = .server ∧ h.log = []
  | .sCert => h.role = .server ∧ Mid k h true
  | .sCKX _ => h.role = .server ∧ Mid k h true
  | .sCV => h.role = .server ∧ Mid k h true ∧ ∃ s, h.ms = some s
  | .sCCS false => h.role = .server ∧ Mid k h true ∧ ∃ s, h.ms = some s
  | .sFin false => h.role = .server ∧ ∃ A s, hasSHD k A = true ∧ Tail k h A [.ccs false] s
  | .sCCS true => h.role = .server ∧ ∃ A s, hasSHD k A = false ∧
      Tail k h A [.ccs true, .msg true (finMsg k P s false (msgsOf A))] s
  | .sFin true => h.role = .server ∧ ∃ A s, hasSHD k A = false ∧
      Tail k h A [.ccs true, .msg true (finMsg k P s false (msgsOf A)), .ccs false] s
  | .done => DoneShape k h
  | .failed _ => True

/-! ### who writes a message of a given type -/

section cw
variable {k : Codes} (ne : CodesNe k) (shd : Bool) (n : Nat) {m : Msg}
include ne

theorem cw_CH (h : mtype m = k.tCH) : clientWrote k shd n (.msg m) = true := by
  simp [clientWrote, h, ne.ne_CH_Fin, ne.ne_CH_Cert]
theorem cw_CKX (h : mtype m = k.tCKX) : clientWrote k shd n (.msg m) = true := by
  simp [clientWrote, h, ne.ne_CKX_Fin, ne.ne_CKX_Cert]
theorem cw_CV (h : mtype m = k.tCV) : clientWrote k shd n (.msg m) = true := by
  simp [clientWrote, h, ne.ne_CV_Fin, ne.ne_CV_Cert]
theorem cw_SH (h : mtype m = k.tSH) : clientWrote k shd n (.msg m) = false := by
  simp [clientWrote, h, ne.ne_SH_Fin, ne.ne_SH_Cert, ne.ne_SH_CH, ne.ne_SH_CKX, ne.ne_SH_CV]
theorem cw_SKX (h : mtype m = k.tSKX) : clientWrote k shd n (.msg m) = false := by
  simp [clientWrote, h, ne.ne_SKX_Fin, ne.ne_SKX_Cert, ne.ne_SKX_CH, ne.ne_SKX_CKX, ne.ne_SKX_CV]
theorem cw_CR (h : mtype m = k.tCR) : clientWrote k shd n (.msg m) = false := by
  simp [clientWrote, h, ne.ne_CR_Fin, ne.ne_CR_Cert, ne.ne_CR_CH, ne.ne_CR_CKX, ne.ne_CR_CV]
theorem cw_SHD (h : mtype m = k.tSHD) : clientWrote k shd n (.msg m) = false := by
  simp [clientWrote, h, ne.ne_SHD_Fin, ne.ne_SHD_Cert, ne.ne_SHD_CH, ne.ne_SHD_CKX, ne.ne_SHD_CV]
theorem cw_Cert (h : mtype m = k.tCert) : clientWrote k shd n (.msg m) = shd := by
  simp [clientWrote, h, ne.ne_Cert_Fin]
theorem cw_Fin (h : mtype m = k.tFin) : clientWrote k shd n (.msg m) = (if n = 0 then shd else !shd) := by
  simp [clientWrote, h]
end cw

/-! ### building blocks: reading, writing, Finished -/

section blocks
variable {P : Prims} {k : Codes} (W : World P)

theorem Mid.ctl {h : HS P} {shd : Bool} (hm : Mid k h shd) (c : Ctl) : Mid k { h with ctl := c } shd :=
  ⟨hm.canon, hm.pre, hm.trans⟩

theorem Mid.setMs {h : HS P} {shd : Bool} (hm : Mid k h shd) (s : Option P.Secret) : Mid k { h with ms := s } shd :=
  ⟨hm.canon, hm.pre, hm.trans⟩

/-- `readHandshake(&hash)` of a message the peer writes in this phase -/
theorem Mid.take {h : HS P} {shd : Bool} (hm : Mid k h shd) (m : Msg) (hfin : mtype m ≠ k.tFin)
    (hd : (clientWrote k shd 0 (.msg m) == h.role.isClient) = false) :
    Mid k (HS.take h m true) (shd || decide (mtype m = k.tSHD)) := by
  obtain ⟨hc, hp, ht⟩ := hm
  refine ⟨?_, ?_, ?_⟩
  · have := canonL_snoc hc (.msg m) false (by rw [hp.2.2, hp.1, hd])
    simpa [HS.take, tag] using this
  · simpa [HS.take] using pre_snoc hp false m hfin
  · simp [HS.take, ht, msgsOf_append, msgsOf]

/-- `writeHandshakeRecord(msg, &hash)` of a message this endpoint writes in this phase -/
theorem Mid.emit {h : HS P} {shd : Bool} (hm : Mid k h shd) (t : Nat) (ht : t < 256) (hfin : t ≠ k.tFin)
    (hd : ∀ m, mtype m = t → (clientWrote k shd 0 (.msg m) == h.role.isClient) = true) :
    Mid k (HS.emit W h t true) (shd || decide (t = k.tSHD)) := by
  obtain ⟨hc, hp, htr⟩ := hm
  have hty : mtype (frame t (W.say h.role t h.log)) = t := mtype_frame ht _
  refine ⟨?_, ?_, ?_⟩
  · have := canonL_snoc hc (.msg (frame t (W.say h.role t h.log))) true (by rw [hp.2.2, hp.1, hd _ hty])
    simpa [HS.emit, tag] using this
  · have := pre_snoc hp true (frame t (W.say h.role t h.log)) (by rw [hty]; exact hfin)
    rw [hty] at this
    simpa [HS.emit] using this
  · simp [HS.emit, htr, msgsOf_append, msgsOf]

/-- `sendFinished` as the FIRST ChangeCipherSpec + Finished pair of the handshake -/
theorem Mid.sendFinished {h : HS P} {shd : Bool} (hm : Mid k h shd) (ne : CodesNe k) (s : P.Secret)
    (hd : (shd == h.role.isClient) = true) :
    Tail k { HS.sendFinished k h s true with ms := some s } h.log
      [.ccs true, .msg true (finMsg k P s h.role.isClient (msgsOf h.log))] s := by
  obtain ⟨hc, hp, htr⟩ := hm
  have hF : mtype (finMsg k P s h.role.isClient (msgsOf h.log)) = k.tFin := mtype_frame ne.lt_Fin _
  refine ⟨?_, ?_, hp.1, hp.2.1, ?_, rfl⟩
  · have h1 := canonL_snoc hc .ccs true (by rw [hp.2.2, hp.1]; simp [clientWrote, hd])
    have h2 := canonL_snoc h1 (.msg (finMsg k P s h.role.isClient (msgsOf h.log))) true (by
      rw [hasSHD_append, nFin_append, hp.2.2, hp.1, cw_Fin ne _ _ hF]
      simp [tag, hasSHD, nFin, hd])
    simpa [HS.sendFinished, tag, finMsg, htr] using h2
  · simp [HS.sendFinished, finMsg, htr]
  · simp [HS.sendFinished, finMsg, htr, msgsOf_append, msgsOf]

end blocks

/-! ### the flags -/

structure FlagsTrue (f : TFlags) : Prop where
  cHelloAdded : f.cHelloAdded = true
  cServerHelloAdded : f.cServerHelloAdded = true
  cReadsHashed : f.cReadsHashed = true
  cWritesHashed : f.cWritesHashed = true
  cFinReadNil : f.cFinReadNil = true
  cFinAddedAfter : f.cFinAddedAfter = true
  sHelloAdded : f.sHelloAdded = true
  sWritesHashed : f.sWritesHashed = true
  sReadsHashed : f.sReadsHashed = true
  sCVReadNil : f.sCVReadNil = true
  sCVAddedAfter : f.sCVAddedAfter = true
  sFinReadNil : f.sFinReadNil = true
  sFinAddedAfter : f.sFinAddedAfter = true
  finFullCompare : f.finFullCompare = true
  decodedKeepRaw : f.decodedKeepRaw = true
  ccsOnlyByRecord : f.ccsOnlyByRecord = true

theorem flagsTrue {f : TFlags} (h : f.sound = true) : FlagsTrue f := by
  simp only [TFlags.sound, Bool.and_eq_true] at h
  obtain ⟨⟨⟨⟨⟨⟨⟨⟨⟨⟨⟨⟨⟨⟨⟨h1, h2⟩, h3⟩, h4⟩, h5⟩, h6⟩, h7⟩, h8⟩, h9⟩, h10⟩, h11⟩, h12⟩, h13⟩, h17⟩, h18⟩, h19⟩ := h
  exact ⟨h1, h2, h3, h4, h5, h6, h7, h8, h9, h10, h11, h12, h13, h17, h18, h19⟩

/-- the read cipher is switched by ChangeCipherSpec records only: the implicit switch never fires -/
theorem skipCCS_eq {P : Prims} {f : TFlags} (ft : FlagsTrue f) (h : HS P) : HS.skipCCS f h = h := by
  simp [HS.skipCCS, ft.ccsOnlyByRecord]

/-- with `raw` kept, `transcriptMsg` of a decoded message hashes the received bytes -/
theorem asMarshalled_eq {P : Prims} {f : TFlags} (ft : FlagsTrue f) (W : World P) (r : Role) (m : Msg) :
    asMarshalled f W r m = m := by
  simp [asMarshalled, ft.decodedKeepRaw]

/-- … and the two ways the server reads the client's second flight hash the same thing -/
theorem takeS_eq {P : Prims} {f : TFlags} (ft : FlagsTrue f) (W : World P) (h : HS P) (m : Msg) :
    HS.takeS f W h m = HS.take h m true := by
  unfold HS.takeS
  split
  · simp [HS.take, ft.sReadsHashed, asMarshalled_eq ft]
  · simp [ft.sReadsHashed]

/-! ### more building blocks: ChangeCipherSpec and Finished on a tail -/

section blocks2
variable {P : Prims} {k : Codes} {W : World P}

/-- accepting the peer's ChangeCipherSpec as the first one of the handshake -/
theorem Mid.recvCCS {h : HS P} {shd : Bool} (hm : Mid k h shd) (s : P.Secret) (hms : h.ms = some s)
    (hd : (shd == h.role.isClient) = false) (c : Ctl) :
    Tail k { h with log := h.log ++ [.ccs false], ctl := c } h.log [.ccs false] s := by
  obtain ⟨hc, hp, htr⟩ := hm
  refine ⟨?_, rfl, hp.1, hp.2.1, ?_, hms⟩
  · have := canonL_snoc hc .ccs false (by rw [hp.2.2, hp.1]; simp [clientWrote, hd])
    simpa [tag] using this
  · simp [htr, msgsOf_append, msgsOf]

/-- accepting the peer's ChangeCipherSpec after this endpoint's own pair -/
theorem Tail.recvCCS {h : HS P} {A : List Entry} {s : P.Secret} {F : Msg} (ne : CodesNe k)
    (ht : Tail k h A [.ccs true, .msg true F] s) (hF : mtype F = k.tFin)
    (hd : (hasSHD k A == h.role.isClient) = true) (c : Ctl) :
    Tail k { h with log := h.log ++ [.ccs false], ctl := c } A [.ccs true, .msg true F, .ccs false] s := by
  obtain ⟨hc, hl, hnf, hnc, htr, hms⟩ := ht
  refine ⟨?_, by simp [hl], hnf, hnc, ?_, hms⟩
  · have hsh : hasSHD k h.log = hasSHD k A := by
      rw [hl, hasSHD_append]; simp [hasSHD, hF, ne.ne_Fin_SHD]
    have hn : nFin k h.log = 1 := by rw [hl, nFin_append, hnf]; simp [nFin, hF]
    have := canonL_snoc hc .ccs false (by rw [hsh, hn]; simp [clientWrote]; cases hA : hasSHD k A <;> cases hr : h.role.isClient <;> simp_all)
    simpa [tag] using this
  · simp [htr, msgsOf_append, msgsOf]

/-- what a successful `readFinished` comparison tells -/
theorem recvFinished_some {f : TFlags} (ft : FlagsTrue f) {h h1 : HS P} {s : P.Secret} {m : Msg}
    (hw : WellFramed m) (hty : mtype m = k.tFin)
    (hr : HS.recvFinished f W h s m true true = some h1) :
    m = finMsg k P s (!h.role.isClient) h.transcript ∧
    h1 = { h with log := h.log ++ [.msg false m], transcript := h.transcript ++ [m] } := by
  unfold HS.recvFinished at hr
  simp only [ft.finFullCompare, finMatches, if_true, asMarshalled_eq ft] at hr
  split at hr
  · rename_i heq
    simp only [Option.some.injEq] at hr
    refine ⟨?_, hr.symm⟩
    have hb : mbody m = P.prf s (!h.role.isClient) (hashT P h.transcript) := by simpa using heq
    rw [wellFramed_eq_frame hw, hty, hb]; rfl
  · cases hr

/-- own pair first (client of a full handshake, server of a resumed one): the peer's Finished
is accepted as the second one -/
theorem done_own_first {f : TFlags} (ft : FlagsTrue f) (ne : CodesNe k) {h h1 : HS P} {A : List Entry} {s : P.Secret}
    {m : Msg} (hw : WellFramed m) (hty : mtype m = k.tFin)
    (ht : Tail k h A [.ccs true, .msg true (finMsg k P s h.role.isClient (msgsOf A)), .ccs false] s)
    (hd : (hasSHD k A == h.role.isClient) = true)
    (hr : HS.recvFinished f W h s m true true = some h1) (c : Ctl) :
    DoneShape k { h1 with ctl := c } := by
  obtain ⟨hm, rfl⟩ := recvFinished_some ft hw hty hr
  obtain ⟨hc, hl, hnf, hnc, htr, hms⟩ := ht
  have hshd : hasSHD k A = h.role.isClient := by simpa using hd
  have hF1 : mtype (finMsg k P s h.role.isClient (msgsOf A)) = k.tFin := mtype_frame ne.lt_Fin _
  have htr2 : h.transcript = msgsOf A ++ [finMsg k P s h.role.isClient (msgsOf A)] := by
    rw [htr, hl]; simp [msgsOf_append, msgsOf]
  refine ⟨A, s, ?_⟩
  simp only [hshd, beq_self_eq_true, Bool.not_true]
  have hm2 : m = finMsg k P s (!h.role.isClient) (msgsOf A ++ [finMsg k P s h.role.isClient (msgsOf A)]) := by
    rw [hm, htr2]
  refine ⟨?_, ?_, hnf, hnc, ?_, hms⟩
  · have hsh : hasSHD k h.log = h.role.isClient := by
      rw [hl, hasSHD_append, hshd]; simp [hasSHD, hF1, ne.ne_Fin_SHD]
    have hn : nFin k h.log = 1 := by rw [hl, nFin_append, hnf]; simp [nFin, hF1]
    have := canonL_snoc hc (.msg m) false (by rw [hsh, hn, cw_Fin ne _ _ hty]; simp)
    simpa [tag] using this
  · simp [hl, hm2]
  · simp [htr, msgsOf_append, msgsOf]

/-- peer's pair first (server of a full handshake, client of a resumed one): the peer's
Finished is accepted as the first one, then the own pair is written -/
theorem done_peer_first {f : TFlags} (ft : FlagsTrue f) (ne : CodesNe k) {h h1 : HS P} {A : List Entry} {s : P.Secret}
    {m : Msg} (hw : WellFramed m) (hty : mtype m = k.tFin)
    (ht : Tail k h A [.ccs false] s)
    (hd : (hasSHD k A == h.role.isClient) = false)
    (hr : HS.recvFinished f W h s m true true = some h1) (c : Ctl) :
    DoneShape k { HS.sendFinished k h1 s true with ctl := c } := by
  obtain ⟨hm, rfl⟩ := recvFinished_some ft hw hty hr
  obtain ⟨hc, hl, hnf, hnc, htr, hms⟩ := ht
  have hshd : hasSHD k A = !h.role.isClient := by
    cases hA : hasSHD k A <;> cases hR : h.role.isClient <;> simp_all
  have htr2 : h.transcript = msgsOf A := by rw [htr, hl]; simp [msgsOf_append, msgsOf]
  have hm2 : m = finMsg k P s (!h.role.isClient) (msgsOf A) := by rw [hm, htr2]
  refine ⟨A, s, ?_⟩
  have hbeq : ((!h.role.isClient) == h.role.isClient) = false := by cases h.role.isClient <;> rfl
  simp only [hshd, hbeq, Bool.not_not, Bool.not_false]
  have hsh1 : hasSHD k h.log = !h.role.isClient := by rw [hl, hasSHD_append, hshd]; simp [hasSHD]
  have hn1 : nFin k h.log = 0 := by rw [hl, nFin_append, hnf]; simp [nFin]
  have c1 := canonL_snoc hc (.msg m) false (by rw [hsh1, hn1, cw_Fin ne _ _ hty]; simp [hbeq])
  have hsh2 : hasSHD k (h.log ++ [tag false (.msg m)]) = !h.role.isClient := by
    rw [hasSHD_append, hsh1]; simp [tag, hasSHD, hty, ne.ne_Fin_SHD]
  have hn2 : nFin k (h.log ++ [tag false (.msg m)]) = 1 := by rw [nFin_append, hn1]; simp [tag, nFin, hty]
  have c2 := canonL_snoc c1 .ccs true (by rw [hsh2, hn2]; simp [clientWrote])
  let F2 := finMsg k P s h.role.isClient (msgsOf A ++ [m])
  have hF2 : mtype F2 = k.tFin := mtype_frame ne.lt_Fin _
  have hsh3 : hasSHD k (h.log ++ [tag false (.msg m)] ++ [tag true .ccs]) = !h.role.isClient := by
    rw [hasSHD_append, hsh2]; simp [tag, hasSHD]
  have hn3 : nFin k (h.log ++ [tag false (.msg m)] ++ [tag true .ccs]) = 1 := by
    rw [nFin_append, hn2]; simp [tag, nFin]
  have c3 := canonL_snoc c2 (.msg F2) true (by rw [hsh3, hn3, cw_Fin ne _ _ hF2]; simp)
  refine ⟨?_, ?_, hnf, hnc, ?_, hms⟩
  · simpa [HS.sendFinished, tag, F2, finMsg, htr2] using c3
  · simp only [HS.sendFinished, hl, htr2, List.append_assoc, List.cons_append, List.nil_append]
    rw [show finMsg k P s (!h.role.isClient) (msgsOf A) = m from hm2.symm]
    simp only [hbeq, Bool.not_false, finMsg]
  · simp [HS.sendFinished, htr, msgsOf_append, msgsOf]

end blocks2

/-! ### the flights -/

section flights
variable {P : Prims} {k : Codes} {f : TFlags} (W : World P)

theorem Tail.ctl {h : HS P} {A tl : List Entry} {s : P.Secret} (ht : Tail k h A tl s) (c : Ctl) :
    Tail k { h with ctl := c } A tl s :=
  ⟨ht.canon, ht.log, ht.nofin, ht.noccs, ht.trans, ht.ms⟩

theorem clientFlight_shape (ft : FlagsTrue f) (ne : CodesNe k) {h : HS P} (hm : Mid k h true)
    (hr : h.role = .client) (req : Bool) : Shape k (HS.clientFlight k f W h req) := by
  have hic : h.role.isClient = true := by rw [hr]; rfl
  unfold HS.clientFlight
  simp only [ft.cWritesHashed]
  -- Certificate (when requested)
  have m1 : Mid k (if req then HS.emit W h k.tCert true else h) true := by
    split
    · have := Mid.emit W hm k.tCert ne.lt_Cert ne.ne_Cert_Fin (fun m hm' => by rw [cw_Cert ne _ _ hm', hic]; rfl)
      simpa using this
    · exact hm
  have r1 : (if req then HS.emit W h k.tCert true else h).role = .client := by split <;> simp [HS.emit, hr]
  generalize (if req then HS.emit W h k.tCert true else h) = h1 at m1 r1 ⊢
  have hic1 : h1.role.isClient = true := by rw [r1]; rfl
  -- ClientKeyExchange
  have m2 : Mid k (HS.emit W h1 k.tCKX true) true := by
    have := Mid.emit W m1 k.tCKX ne.lt_CKX ne.ne_CKX_Fin (fun m hm' => by rw [cw_CKX ne _ _ hm', hic1]; rfl)
    simpa using this
  have r2 : (HS.emit W h1 k.tCKX true).role = .client := by simp [HS.emit, r1]
  generalize HS.emit W h1 k.tCKX true = h2 at m2 r2 ⊢
  have hic2 : h2.role.isClient = true := by rw [r2]; rfl
  -- CertificateVerify (when a certificate is proved)
  have m3 : Mid k (if (req && W.choice .client .sendCertVerify h2.log) = true then HS.emit W h2 k.tCV true else h2) true := by
    split
    · have := Mid.emit W m2 k.tCV ne.lt_CV ne.ne_CV_Fin (fun m hm' => by rw [cw_CV ne _ _ hm', hic2]; rfl)
      simpa using this
    · exact m2
  have r3 : (if (req && W.choice .client .sendCertVerify h2.log) = true then HS.emit W h2 k.tCV true else h2).role = .client := by
    split <;> simp [HS.emit, r2]
  generalize (if (req && W.choice .client .sendCertVerify h2.log) = true then HS.emit W h2 k.tCV true else h2) = h3 at m3 r3 ⊢
  have hic3 : h3.role.isClient = true := by rw [r3]; rfl
  have t := Mid.sendFinished m3 ne (W.master .client h3.log) (by rw [hic3]; rfl)
  have hshd : hasSHD k h3.log = true := m3.pre.2.2
  simp only [Shape]
  refine ⟨by simp [HS.sendFinished, r3], h3.log, W.master .client h3.log, hshd, ?_⟩
  rw [hic3] at t
  exact Tail.ctl t _

theorem serverFlight_shape (ft : FlagsTrue f) (ne : CodesNe k) {h : HS P} (hm : Mid k h false)
    (hr : h.role = .server) : Shape k (HS.serverFlight k f W h) := by
  have hic : h.role.isClient = false := by rw [hr]; rfl
  unfold HS.serverFlight
  simp only [ft.sWritesHashed]
  have m1 : Mid k (HS.emit W h k.tSH true) false := by
    have := Mid.emit W hm k.tSH ne.lt_SH ne.ne_SH_Fin (fun m hm' => by rw [cw_SH ne _ _ hm', hic]; rfl)
    simpa [ne.ne_SH_SHD] using this
  have r1 : (HS.emit W h k.tSH true).role = .server := by simp [HS.emit, hr]
  generalize HS.emit W h k.tSH true = h1 at m1 r1 ⊢
  have hic1 : h1.role.isClient = false := by rw [r1]; rfl
  have m2 : Mid k (HS.emit W h1 k.tCert true) false := by
    have := Mid.emit W m1 k.tCert ne.lt_Cert ne.ne_Cert_Fin (fun m hm' => by rw [cw_Cert ne _ _ hm', hic1]; rfl)
    simpa [ne.ne_Cert_SHD] using this
  have r2 : (HS.emit W h1 k.tCert true).role = .server := by simp [HS.emit, r1]
  generalize HS.emit W h1 k.tCert true = h2 at m2 r2 ⊢
  have hic2 : h2.role.isClient = false := by rw [r2]; rfl
  have m3 : Mid k (if W.choice .server .sendSKX h2.log = true then HS.emit W h2 k.tSKX true else h2) false := by
    split
    · have := Mid.emit W m2 k.tSKX ne.lt_SKX ne.ne_SKX_Fin (fun m hm' => by rw [cw_SKX ne _ _ hm', hic2]; rfl)
      simpa [ne.ne_SKX_SHD] using this
    · exact m2
  have r3 : (if W.choice .server .sendSKX h2.log = true then HS.emit W h2 k.tSKX true else h2).role = .server := by
    split <;> simp [HS.emit, r2]
  generalize (if W.choice .server .sendSKX h2.log = true then HS.emit W h2 k.tSKX true else h2) = h3 at m3 r3 ⊢
  have hic3 : h3.role.isClient = false := by rw [r3]; rfl
  have m4 : Mid k (if W.choice .server .sendCertReq h3.log = true then HS.emit W h3 k.tCR true else h3) false := by
    split
    · have := Mid.emit W m3 k.tCR ne.lt_CR ne.ne_CR_Fin (fun m hm' => by rw [cw_CR ne _ _ hm', hic3]; rfl)
      simpa [ne.ne_CR_SHD] using this
    · exact m3
  have r4 : (if W.choice .server .sendCertReq h3.log = true then HS.emit W h3 k.tCR true else h3).role = .server := by
    split <;> simp [HS.emit, r3]
  generalize (if W.choice .server .sendCertReq h3.log = true then HS.emit W h3 k.tCR true else h3) = h4 at m4 r4 ⊢
  have hic4 : h4.role.isClient = false := by rw [r4]; rfl
  have m5 : Mid k (HS.emit W h4 k.tSHD true) true := by
    have := Mid.emit W m4 k.tSHD ne.lt_SHD ne.ne_SHD_Fin (fun m hm' => by rw [cw_SHD ne _ _ hm', hic4]; rfl)
    simpa using this
  have r5 : (HS.emit W h4 k.tSHD true).role = .server := by simp [HS.emit, r4]
  generalize HS.emit W h4 k.tSHD true = h5 at m5 r5 ⊢
  split
  · simp only [Shape]; exact ⟨r5, Mid.ctl m5 _⟩
  · simp only [Shape]; exact ⟨r5, Mid.ctl m5 _⟩

end flights

/-! ### the invariant is established and preserved -/

section inv
variable {P : Prims} {k : Codes} {f : TFlags} (W : World P)

theorem shape_init (ne : CodesNe k) (r : Role) : Shape k (HS.init k W r) := by
  cases r with
  | server => simp [HS.init, Shape]
  | client =>
    simp only [HS.init, HS.emit, Shape, List.nil_append, if_false]
    refine ⟨trivial, ?_, _, rfl, mtype_frame ne.lt_CH _⟩
    have := canonL_snoc (canonL_nil k true) (.msg (frame k.tCH (W.say .client k.tCH []))) true
      (by rw [cw_CH ne _ _ (mtype_frame ne.lt_CH _)]; rfl)
    simpa [tag] using this

theorem shape_fail (h : HS P) (a : Nat) : Shape k (HS.fail h a) := by simp [HS.fail, Shape]

theorem shape_onCCS (ne : CodesNe k) {h : HS P} (hs : Shape k h) : Shape k (HS.onCCS k h) := by
  unfold HS.onCCS
  split
  · rename_i r hctl
    simp only [Shape, hctl] at hs
    cases r with
    | false =>
      obtain ⟨hr, A, s, hA, ht⟩ := hs
      simp only [Shape]
      exact ⟨hr, A, s, hA, Tail.recvCCS ne ht (mtype_frame ne.lt_Fin _) (by rw [hA, hr]; rfl) _⟩
    | true =>
      obtain ⟨hr, hm, s, hms⟩ := hs
      simp only [Shape]
      exact ⟨hr, h.log, s, hm.pre.2.2, Mid.recvCCS hm s hms (by rw [hr]; rfl) _⟩
  · rename_i r hctl
    simp only [Shape, hctl] at hs
    cases r with
    | false =>
      obtain ⟨hr, hm, s, hms⟩ := hs
      simp only [Shape]
      exact ⟨hr, h.log, s, hm.pre.2.2, Mid.recvCCS hm s hms (by rw [hr]; rfl) _⟩
    | true =>
      obtain ⟨hr, A, s, hA, ht⟩ := hs
      simp only [Shape]
      exact ⟨hr, A, s, hA, Tail.recvCCS ne ht (mtype_frame ne.lt_Fin _) (by rw [hA, hr]; rfl) _⟩
  · exact hs
  · exact hs
  · exact shape_fail h _

theorem shape_onMsg (ft : FlagsTrue f) (ne : CodesNe k) {h : HS P} (hs : Shape k h) {m : Msg} (hw : WellFramed m) :
    Shape k (HS.onMsg k f W h m) := by
  unfold HS.onMsg
  simp only []
  split
  · -- cSH
    rename_i hctl
    simp only [Shape, hctl] at hs
    obtain ⟨hr, hc, ch, hl, hch⟩ := hs
    split
    · rename_i hcond
      have hty : mtype m = k.tSH := hcond.1
      have hic : h.role.isClient = true := by rw [hr]; rfl
      -- the state after `handshake()` created the hash and added both hellos
      have hmid : ∀ (c : Ctl) (ms : Option P.Secret),
          Mid k ({ role := h.role, ctl := c, log := h.log ++ [.msg false m], transcript := [ch, m], ms := ms } : HS P) false := by
        intro c ms
        refine ⟨?_, ?_, ?_⟩
        · have := canonL_snoc hc (.msg m) false (by rw [cw_SH ne _ _ hty]; rfl)
          simpa [tag, hic] using this
        · have p0 : Pre k false h.log := by
            rw [hl]; refine ⟨by simp [nFin, hch, ne.ne_CH_Fin], by simp [noCCS], by simp [hasSHD, hch, ne.ne_CH_SHD]⟩
          have := pre_snoc p0 false m (by rw [hty]; exact ne.ne_SH_Fin)
          simpa [hty, ne.ne_SH_SHD] using this
        · simp [hl, msgsOf]
      simp only [HS.take, ft.cHelloAdded, ft.cServerHelloAdded, if_true, hl, List.singleton_append, if_false, asMarshalled_eq ft]
      split
      · simp only [Shape]
        exact ⟨hr, by simpa [hl] using hmid _ _, _, rfl⟩
      · simp only [Shape]
        exact ⟨hr, by simpa [hl] using hmid _ _⟩
    · exact shape_fail h _
  · -- cCert
    rename_i hctl
    simp only [Shape, hctl] at hs
    obtain ⟨hr, hm⟩ := hs
    have hic : h.role.isClient = true := by rw [hr]; rfl
    split
    · rename_i hcond
      have hty : mtype m = k.tCert := hcond.1
      simp only [ft.cReadsHashed, Shape]
      have := Mid.take hm m (by rw [hty]; exact ne.ne_Cert_Fin) (by rw [cw_Cert ne _ _ hty, hic]; rfl)
      refine ⟨by simp [HS.take, hr], ?_⟩
      simpa [hty, ne.ne_Cert_SHD] using Mid.ctl this _
    · exact shape_fail h _
  · -- cSKX
    rename_i hctl
    simp only [Shape, hctl] at hs
    obtain ⟨hr, hm⟩ := hs
    have hic : h.role.isClient = true := by rw [hr]; rfl
    split
    · exact shape_fail h _
    · split
      · rename_i hty
        simp only [ft.cReadsHashed, Shape]
        have := Mid.take hm m (by rw [hty]; exact ne.ne_SKX_Fin) (by rw [cw_SKX ne _ _ hty, hic]; rfl)
        refine ⟨by simp [HS.take, hr], ?_⟩
        simpa [hty, ne.ne_SKX_SHD] using Mid.ctl this _
      · split
        · rename_i hty
          simp only [ft.cReadsHashed, Shape]
          have := Mid.take hm m (by rw [hty]; exact ne.ne_CR_Fin) (by rw [cw_CR ne _ _ hty, hic]; rfl)
          refine ⟨by simp [HS.take, hr], ?_⟩
          simpa [hty, ne.ne_CR_SHD] using Mid.ctl this _
        · split
          · rename_i hty
            simp only [ft.cReadsHashed]
            have := Mid.take hm m (by rw [hty]; exact ne.ne_SHD_Fin) (by rw [cw_SHD ne _ _ hty, hic]; rfl)
            exact clientFlight_shape W ft ne (by simpa [hty] using this) (by simp [HS.take, hr]) _
          · exact shape_fail h _
  · -- cCR
    rename_i hctl
    simp only [Shape, hctl] at hs
    obtain ⟨hr, hm⟩ := hs
    have hic : h.role.isClient = true := by rw [hr]; rfl
    split
    · exact shape_fail h _
    · split
      · rename_i hty
        simp only [ft.cReadsHashed, Shape]
        have := Mid.take hm m (by rw [hty]; exact ne.ne_CR_Fin) (by rw [cw_CR ne _ _ hty, hic]; rfl)
        refine ⟨by simp [HS.take, hr], ?_⟩
        simpa [hty, ne.ne_CR_SHD] using Mid.ctl this _
      · split
        · rename_i hty
          simp only [ft.cReadsHashed]
          have := Mid.take hm m (by rw [hty]; exact ne.ne_SHD_Fin) (by rw [cw_SHD ne _ _ hty, hic]; rfl)
          exact clientFlight_shape W ft ne (by simpa [hty] using this) (by simp [HS.take, hr]) _
        · exact shape_fail h _
  · -- cSHD
    rename_i hctl
    simp only [Shape, hctl] at hs
    obtain ⟨hr, hm⟩ := hs
    have hic : h.role.isClient = true := by rw [hr]; rfl
    split
    · rename_i hcond
      have hty : mtype m = k.tSHD := hcond.1
      simp only [ft.cReadsHashed]
      have := Mid.take hm m (by rw [hty]; exact ne.ne_SHD_Fin) (by rw [cw_SHD ne _ _ hty, hic]; rfl)
      exact clientFlight_shape W ft ne (by simpa [hty] using this) (by simp [HS.take, hr]) _
    · exact shape_fail h _
  · -- cFin
    rename_i resumed hctl
    split
    · exact shape_fail h _
    · rename_i ms hms
      split
      · rename_i hty
        simp only [ft.cFinReadNil, ft.cFinAddedAfter, ft.cWritesHashed]
        split
        · exact shape_fail h _
        · rename_i h1 hrecv
          simp only [Shape, hctl] at hs
          cases resumed with
          | false =>
            obtain ⟨hr, A, s, hA, ht⟩ := hs
            have hss : ms = s := by have := ht.ms; rw [hms] at this; exact Option.some.inj this
            subst hss
            have hic : h.role.isClient = true := by rw [hr]; rfl
            simp only [Bool.false_eq_true, if_false, Shape]
            exact done_own_first ft ne hw hty (by rw [hic]; exact ht) (by rw [hA, hic]; rfl) hrecv _
          | true =>
            obtain ⟨hr, A, s, hA, ht⟩ := hs
            have hss : ms = s := by have := ht.ms; rw [hms] at this; exact Option.some.inj this
            subst hss
            have hic : h.role.isClient = true := by rw [hr]; rfl
            simp only [if_true, Shape]
            exact done_peer_first ft ne hw hty ht (by rw [hA, hic]; rfl) hrecv _
      · exact shape_fail h _
  · -- sCH
    rename_i hctl
    simp only [Shape, hctl] at hs
    obtain ⟨hr, hl⟩ := hs
    have hic : h.role.isClient = false := by rw [hr]; rfl
    split
    · rename_i hcond
      have hty : mtype m = k.tCH := hcond.1
      have hmid : Mid k ({ role := h.role, ctl := h.ctl, log := [.msg false m], transcript := [m], ms := h.ms } : HS P) false := by
        refine ⟨?_, ?_, ?_⟩
        · have := canonL_snoc (canonL_nil k false) (.msg m) false (by rw [cw_CH ne _ _ hty]; rfl)
          simpa [tag, hic] using this
        · exact ⟨by simp [nFin, hty, ne.ne_CH_Fin], by simp [noCCS], by simp [hasSHD, hty, ne.ne_CH_SHD]⟩
        · simp [msgsOf]
      simp only [HS.take, ft.sHelloAdded, if_true, hl, List.nil_append, if_false, ft.sWritesHashed, asMarshalled_eq ft]
      split
      · -- resumed: ServerHello, ChangeCipherSpec, Finished
        have m1 : Mid k (HS.emit W ({ role := h.role, ctl := h.ctl, log := [.msg false m], transcript := [m], ms := h.ms } : HS P) k.tSH true) false := by
          have := Mid.emit W hmid k.tSH ne.lt_SH ne.ne_SH_Fin (fun x hx => by rw [cw_SH ne _ _ hx]; simp [hic])
          simpa [ne.ne_SH_SHD] using this
        generalize hg : HS.emit W ({ role := h.role, ctl := h.ctl, log := [.msg false m], transcript := [m], ms := h.ms } : HS P) k.tSH true = h2 at m1 ⊢
        have r2 : h2.role = .server := by rw [← hg]; simp [HS.emit, hr]
        have hic2 : h2.role.isClient = false := by rw [r2]; rfl
        have t := Mid.sendFinished m1 ne (W.master .server h2.log) (by rw [hic2]; rfl)
        simp only [Shape]
        refine ⟨by simp [HS.sendFinished, r2], h2.log, W.master .server h2.log, m1.pre.2.2, ?_⟩
        rw [hic2] at t
        exact Tail.ctl t _
      · exact serverFlight_shape W ft ne hmid hr
    · exact shape_fail h _
  · -- sCert
    rename_i hctl
    simp only [Shape, hctl] at hs
    obtain ⟨hr, hm⟩ := hs
    have hic : h.role.isClient = false := by rw [hr]; rfl
    split
    · rename_i hcond
      have hty : mtype m = k.tCert := hcond.1
      simp only [takeS_eq ft, Shape]
      have := Mid.take hm m (by rw [hty]; exact ne.ne_Cert_Fin) (by rw [cw_Cert ne _ _ hty, hic]; rfl)
      refine ⟨by simp [HS.take, hr], ?_⟩
      simpa using Mid.ctl this _
    · exact shape_fail h _
  · -- sCKX
    rename_i requested hctl
    simp only [Shape, hctl] at hs
    obtain ⟨hr, hm⟩ := hs
    have hic : h.role.isClient = false := by rw [hr]; rfl
    split
    · rename_i hcond
      have hty : mtype m = k.tCKX := hcond.1
      simp only [takeS_eq ft]
      have := Mid.take hm m (by rw [hty]; exact ne.ne_CKX_Fin) (by rw [cw_CKX ne _ _ hty, hic]; rfl)
      have hm2 : Mid k (HS.take h m true) true := by simpa using this
      split
      · simp only [Shape]
        exact ⟨by simp [HS.take, hr], ⟨hm2.canon, hm2.pre, hm2.trans⟩, _, rfl⟩
      · simp only [Shape]
        exact ⟨by simp [HS.take, hr], ⟨hm2.canon, hm2.pre, hm2.trans⟩, _, rfl⟩
    · exact shape_fail h _
  · -- sCV
    rename_i hctl
    simp only [Shape, hctl] at hs
    obtain ⟨hr, hm, s, hms⟩ := hs
    have hic : h.role.isClient = false := by rw [hr]; rfl
    split
    · rename_i hcond
      have hty : mtype m = k.tCV := hcond.1
      simp only [ft.sCVReadNil, ft.sCVAddedAfter, Bool.not_true, if_true, Shape, asMarshalled_eq ft]
      have := Mid.take hm m (by rw [hty]; exact ne.ne_CV_Fin) (by rw [cw_CV ne _ _ hty, hic]; rfl)
      have hm2 : Mid k (HS.take h m true) true := by simpa using this
      refine ⟨by simp [HS.take, hr], ⟨?_, ?_, ?_⟩, s, by simp [HS.take, hms]⟩
      · simpa [HS.take] using hm2.canon
      · simpa [HS.take] using hm2.pre
      · simpa [HS.take] using hm2.trans
    · exact shape_fail h _
  · -- sFin
    rename_i resumed hctl
    split
    · exact shape_fail h _
    · rename_i ms hms
      split
      · rename_i hty
        simp only [ft.sFinReadNil, ft.sFinAddedAfter, ft.sWritesHashed]
        split
        · exact shape_fail h _
        · rename_i h1 hrecv
          simp only [Shape, hctl] at hs
          cases resumed with
          | false =>
            obtain ⟨hr, A, s, hA, ht⟩ := hs
            have hss : ms = s := by have := ht.ms; rw [hms] at this; exact Option.some.inj this
            subst hss
            have hic : h.role.isClient = false := by rw [hr]; rfl
            simp only [Bool.false_eq_true, if_false, Shape]
            exact done_peer_first ft ne hw hty ht (by rw [hA, hic]; rfl) hrecv _
          | true =>
            obtain ⟨hr, A, s, hA, ht⟩ := hs
            have hss : ms = s := by have := ht.ms; rw [hms] at this; exact Option.some.inj this
            subst hss
            have hic : h.role.isClient = false := by rw [hr]; rfl
            simp only [if_true, Shape]
            exact done_own_first ft ne hw hty (by rw [hic]; exact ht) (by rw [hA, hic]; rfl) hrecv _
      · exact shape_fail h _
  · exact shape_fail h _
  · exact shape_fail h _
  · exact hs
  · exact hs

/-- every reachable handshake state satisfies the invariant -/
theorem reach_shape (hk : k.ok = true) (hf : f.sound = true) {h : HS P} (hr : Reach k f W h) : Shape k h := by
  induction hr with
  | init r => exact shape_init W (codesNe hk) r
  | msg m _ hw ih => exact shape_onMsg W (flagsTrue hf) (codesNe hk) ih hw
  | ccs _ ih => exact shape_onCCS (codesNe hk) ih
  | skip _ ih => rw [skipCCS_eq (flagsTrue hf)]; exact ih
  | fail a _ _ => exact shape_fail _ a

/-! ### roles never change -/

theorem emit_role (h : HS P) (t : Nat) (b : Bool) : (HS.emit W h t b).role = h.role := rfl
theorem sendFinished_role (h : HS P) (s : P.Secret) (b : Bool) : (HS.sendFinished k h s b).role = h.role := rfl

theorem recvFinished_role {h h1 : HS P} {s : P.Secret} {m : Msg} {a b : Bool}
    (hr : HS.recvFinished f W h s m a b = some h1) : h1.role = h.role := by
  unfold HS.recvFinished at hr
  by_cases hc : finMatches f.finFullCompare (mbody m)
      (P.prf s (!h.role.isClient) (hashT P (if a = true then h.transcript else h.transcript ++ [m]))) = true
  · simp only [hc, if_true, Option.some.injEq] at hr; rw [← hr]
  · simp [hc] at hr

theorem takeS_role (h : HS P) (m : Msg) : (HS.takeS f W h m).role = h.role := by
  unfold HS.takeS; split <;> rfl

theorem clientFlight_role (h : HS P) (r : Bool) : (HS.clientFlight k f W h r).role = h.role := by
  unfold HS.clientFlight
  simp only [sendFinished_role]
  split <;> split <;> simp [emit_role]

theorem serverFlight_role (h : HS P) : (HS.serverFlight k f W h).role = h.role := by
  unfold HS.serverFlight
  simp only []
  split <;> split <;> simp [emit_role]

theorem onCCS_role (h : HS P) : (HS.onCCS k h).role = h.role := by
  unfold HS.onCCS; split <;> rfl

theorem skipCCS_role (h : HS P) : (HS.skipCCS f h).role = h.role := by
  unfold HS.skipCCS
  split
  · rfl
  · split <;> rfl

theorem skipCCS_log (h : HS P) : (HS.skipCCS f h).log = h.log := by
  unfold HS.skipCCS
  split
  · rfl
  · split <;> rfl

theorem onMsg_role (h : HS P) (m : Msg) : (HS.onMsg k f W h m).role = h.role := by
  unfold HS.onMsg
  simp only []
  split
  all_goals (repeat' split)
  all_goals first
    | rfl
    | exact recvFinished_role W (by assumption)
    | (simp only [sendFinished_role]; exact recvFinished_role W (by assumption))
    | (simp [HS.fail, HS.take, clientFlight_role, serverFlight_role, sendFinished_role, emit_role, takeS_role]; done)

/-- states reachable by the endpoint of role `r` -/
inductive ReachR (k : Codes) (f : TFlags) (W : World P) (r : Role) : HS P → Prop where
  | init : ReachR k f W r (HS.init k W r)
  | msg {h : HS P} (m : Msg) : ReachR k f W r h → WellFramed m → ReachR k f W r (HS.onMsg k f W h m)
  | ccs {h : HS P} : ReachR k f W r h → ReachR k f W r (HS.onCCS k h)
  | skip {h : HS P} : ReachR k f W r h → ReachR k f W r (HS.skipCCS f h)
  | fail {h : HS P} (a : Nat) : ReachR k f W r h → ReachR k f W r (HS.fail h a)

theorem ReachR.reach {r : Role} {h : HS P} (hr : ReachR k f W r h) : Reach k f W h := by
  induction hr with
  | init => exact .init r
  | msg m _ hw ih => exact .msg m ih hw
  | ccs _ ih => exact .ccs ih
  | skip _ ih => exact .skip ih
  | fail a _ ih => exact .fail a ih

theorem ReachR.role {r : Role} {h : HS P} (hr : ReachR k f W r h) : h.role = r := by
  induction hr with
  | init => cases r <;> rfl
  | msg m _ _ ih => rw [onMsg_role]; exact ih
  | ccs _ ih => rw [onCCS_role]; exact ih
  | skip _ ih => rw [skipCCS_role]; exact ih
  | fail a _ ih => exact ih

end inv

end Gotlcp.Lemmas.Transcript

/-
Lemmas for C14: the spec's strict hello decoders accept what the model encoders produce from
in-range fields (the library's own emission order of the extensions is the canonical one).
-/
import Gotlcp.Lemmas.CodecHelloCanon

set_option linter.unusedSimpArgs false
set_option linter.unusedVariables false

namespace Gotlcp.Lemmas.CodecHelloAccept
open Gotlcp Gotlcp.Wire Gotlcp.Wire.Msg
open Gotlcp.Model.Codec
open Gotlcp.Lemmas.Codec Gotlcp.Lemmas.CodecHello Gotlcp.Lemmas.CodecHelloCanon
open Gotlcp.Spec.Codec (Stack Kind)

/-! ### `optExt` forwards -/

/-- the block does not start with an extension of type `code` -/
def NoLead (code : Nat) (s : Bytes) : Prop := ∀ ty r, readU16 s = some (ty, r) → ty ≠ code

theorem noLead_nil (code : Nat) : NoLead code [] := by
  intro ty r h; simp [readU16] at h

theorem noLead_be16 {code k : Nat} (hk : k < 65536) (hne : k ≠ code) (r : Bytes) : NoLead code (be16 k ++ r) := by
  intro ty r' h
  rw [readU16_be16 hk] at h
  simp only [Option.some.injEq, Prod.mk.injEq] at h
  rw [← h.1]; exact hne

theorem optExt_none {code : Nat} {s : Bytes} (h : NoLead code s) : Spec.Codec.optExt code s = some (none, s) := by
  unfold Spec.Codec.optExt
  cases hr : readU16 s with
  | none => rfl
  | some p =>
    obtain ⟨ty, s1⟩ := p
    simp only
    have := h ty s1 hr
    simp [this]

theorem optExt_some {code : Nat} (hc : code < 65536) {d : Bytes} (hd : d.length < 65536) (r : Bytes) :
    Spec.Codec.optExt code (be16 code ++ (be16 d.length ++ d) ++ r) = some (some d, r) := by
  unfold Spec.Codec.optExt
  have hv := readVec16_append hd r
  simp only [List.append_assoc] at hv ⊢
  simp only [readU16_be16 hc, ↓reduceIte, hv]

theorem optExt_wrap2 {code : Nat} (hc : code < 65536) {inner : Bytes} (h : inner.length + 2 < 65536) (r : Bytes) :
    Spec.Codec.optExt code (wrap2 code inner ++ r) = some (some (be16 inner.length ++ inner), r) := by
  have h2 : (be16 inner.length ++ inner).length < 65536 := by rw [List.length_append, be16_length]; omega
  exact optExt_some hc h2 r

theorem inVec16_mk {inner : Bytes} (h0 : 0 < inner.length) (h : inner.length + 2 < 65536) :
    Spec.Codec.inVec16 (be16 inner.length ++ inner) = some inner := by
  unfold Spec.Codec.inVec16
  rw [readVec16_inner h]
  cases inner with
  | nil => simp at h0
  | cons _ _ => simp [Spec.Codec.isNil]

/-! ### ServerHello -/

theorem strictServerExts_mk (c : Codes) (hc : HelloCodes c) (m : ServerHello) (hw : SHwf m) :
    Spec.Codec.strictServerExts (shE1 c m ++ shE2 c m ++ shE3 c m) =
      some (m.ocsp, m.ocspResponse, m.alpn, m.sniAck) := by
  have ho := hw.ocsp
  have hr := hw.resp
  have ha := hw.alpn
  -- what may follow: pieces of later types
  have n3 : ∀ code, code ≠ 0 → NoLead code (shE3 c m) := by
    intro code hne
    unfold shE3
    split
    · rw [hc.sni]; exact noLead_be16 (by decide) (fun h => hne h.symm) _
    · exact noLead_nil _
  have n23 : NoLead 5 (shE2 c m ++ shE3 c m) := by
    unfold shE2
    split
    · rw [hc.alpn]; simp only [List.append_assoc]; exact noLead_be16 (by decide) (by decide) _
    · simpa using n3 5 (by decide)
  -- status_request
  have s1 : ∃ o, Spec.Codec.optExt 5 (shE1 c m ++ (shE2 c m ++ shE3 c m)) = some (o, shE2 c m ++ shE3 c m) ∧
      Spec.Codec.sOcspOf o = some (m.ocsp, m.ocspResponse) := by
    by_cases hp : (m.ocsp && decide (m.ocspResponse.length > 0)) = true
    · have hl : (1 :: (be24 m.ocspResponse.length ++ m.ocspResponse)).length < 65536 := by simp [be24]; omega
      refine ⟨some (1 :: (be24 m.ocspResponse.length ++ m.ocspResponse)), ?_, ?_⟩
      · simp only [shE1, hp, ↓reduceIte, hc.status]
        have := optExt_some (code := 5) (by decide) hl (shE2 c m ++ shE3 c m)
        simpa using this
      · simp only [Bool.and_eq_true, decide_eq_true_eq] at hp
        have hv := readVec24_append (c := m.ocspResponse) (by omega) ([] : Bytes)
        simp only [List.append_nil] at hv
        have hne : Spec.Codec.isNil m.ocspResponse = false := by
          cases hm : m.ocspResponse with
          | nil => rw [hm] at hp; simp at hp
          | cons _ _ => rfl
        simp [Spec.Codec.sOcspOf, hv, hne, hp.1]
    · have he : shE1 c m = [] := by simp [shE1, hp]
      refine ⟨none, by rw [he]; exact optExt_none n23, ?_⟩
      have hoc : m.ocsp = false ∧ m.ocspResponse = [] := by
        cases hoo : m.ocsp with
        | false =>
          rw [hoo] at ho
          refine ⟨rfl, ?_⟩
          apply List.eq_nil_of_length_eq_zero
          have : ¬ (0 < m.ocspResponse.length) := by simpa using ho.symm
          omega
        | true =>
          rw [hoo] at ho hp
          exfalso; apply hp
          simpa using ho.symm
      simp [Spec.Codec.sOcspOf, hoc.1, hoc.2]
  obtain ⟨o1, a1, b1⟩ := s1
  -- ALPN
  have s2 : ∃ o, Spec.Codec.optExt 16 (shE2 c m ++ shE3 c m) = some (o, shE3 c m) ∧
      Spec.Codec.sAlpnOf o = some m.alpn := by
    by_cases hp : m.alpn.length > 0
    · have hl1 : (u8 m.alpn.length :: m.alpn).length < 65536 := by simp; omega
      have hl2 : (be16 (u8 m.alpn.length :: m.alpn).length ++ (u8 m.alpn.length :: m.alpn)).length < 65536 := by
        simp [be16]; omega
      refine ⟨some (be16 (u8 m.alpn.length :: m.alpn).length ++ (u8 m.alpn.length :: m.alpn)), ?_, ?_⟩
      · simp only [shE2, hp, ↓reduceIte, hc.alpn]
        have := optExt_some (code := 16) (by decide) hl2 (shE3 c m)
        simpa using this
      · have h2 := readVec16_append hl1 ([] : Bytes)
        simp only [List.append_nil] at h2
        have h3 := nonEmptyVec8_append hp ha ([] : Bytes)
        simp only [List.append_nil] at h3
        simp only [Spec.Codec.sAlpnOf, h2, h3]
    · have he : shE2 c m = [] := by simp [shE2, hp]
      refine ⟨none, by rw [he]; simpa using optExt_none (n3 16 (by decide)), ?_⟩
      have : m.alpn = [] := len0 hp
      simp [Spec.Codec.sAlpnOf, this]
  obtain ⟨o2, a2, b2⟩ := s2
  -- server_name acknowledgement
  have s3 : ∃ o, Spec.Codec.optExt 0 (shE3 c m) = some (o, []) ∧ Spec.Codec.sAckOf o = some m.sniAck := by
    cases hk : m.sniAck with
    | true =>
      refine ⟨some [], ?_, rfl⟩
      simp only [shE3, hk, ↓reduceIte, hc.sni]
      have := optExt_some (code := 0) (by decide) (d := []) (by decide) []
      exact this
    | false =>
      refine ⟨none, ?_, rfl⟩
      simp only [shE3, hk, Bool.false_eq_true, ↓reduceIte]
      exact optExt_none (noLead_nil 0)
  obtain ⟨o3, a3, b3⟩ := s3
  unfold Spec.Codec.strictServerExts
  rw [List.append_assoc, a1]
  simp only [b1, a2, b2, a3, b3, Spec.Codec.isNil, ↓reduceIte]

theorem strictExtBlock_mk {E : Bytes} (hl : E.length < 65536) :
    ∃ ex, extBlock E = some ex ∧ Spec.Codec.strictExtBlock ex = some E ∧ ex.length ≤ 2 + E.length := by
  by_cases he : E.length > 0
  · refine ⟨be16 E.length ++ E, by simp only [extBlock, he, ↓reduceIte, vec16_of_lt hl], ?_,
      by rw [List.length_append, be16_length]; omega⟩
    have hv := readVec16_append hl ([] : Bytes)
    simp only [List.append_nil] at hv
    have hne : Spec.Codec.isNil E = false := by
      cases E with
      | nil => simp at he
      | cons _ _ => rfl
    unfold Spec.Codec.strictExtBlock
    split
    · rename_i heq; simp [be16] at heq
    · simp [hv, hne]
  · have : E = [] := len0 he
    subst this
    exact ⟨[], by simp [extBlock], rfl, by simp⟩

/-- the strict body parse of the encoder's ServerHello body -/
theorem strictServerHello_body (c : Codes) (hc : HelloCodes c) (m : ServerHello) (hw : SHwf m) :
    ∃ body, encServerHelloBody c m = some body ∧ body.length < 16777216 ∧
      ∀ (st : Stack) (hd : DHdr) (b : Bytes), Spec.Codec.strictHeader st .serverHello b = some (hd, body) →
        Spec.Codec.strictServerHello st b = some (hd, m) := by
  have hsid : m.sessionId.length < 256 := by have := hw.sid; omega
  have hel := shE_length c m hw
  have htot := hw.total
  obtain ⟨ex, hex1, hex2, hex3⟩ := strictExtBlock_mk (E := shE1 c m ++ shE2 c m ++ shE3 c m) (by omega)
  have hrl : m.random.length = c.randomLen := by rw [hc.rnd]; exact hw.rnd
  refine ⟨m.vers.bytes ++ m.random ++ (u8 m.sessionId.length :: m.sessionId) ++ m.suite.bytes ++ [m.compression] ++ ex,
    ?_, ?_, ?_⟩
  · simp only [encServerHelloBody, encServerExtensions_eq c m hw, exactly, hrl, ↓reduceIte, vec8_of_lt hsid, hex1]
  · simp only [List.length_append, W16.bytes, List.length_cons, List.length_nil]
    have := hw.rnd
    omega
  · intro st hd b hsh
    have h1 := readBytes_append m.random ((u8 m.sessionId.length :: m.sessionId) ++ m.suite.bytes ++ [m.compression] ++ ex)
    rw [hw.rnd] at h1
    have h2 := readVec8_append hsid (m.suite.bytes ++ [m.compression] ++ ex)
    simp only [List.append_assoc, List.cons_append, W16.bytes, List.nil_append] at h1 h2
    have hx := strictServerExts_mk c hc m hw
    rw [List.append_assoc] at hx
    unfold Spec.Codec.strictServerHello
    rw [hsh]
    simp only [W16.bytes, List.append_assoc, List.cons_append, List.nil_append, readW16, h1, h2, readU8, hex2,
      hx, hw.sid, ↓reduceIte]

/-! ### ClientHello -/

def codeOf (c : Codes) : CExt → Nat
  | .sni => c.extServerName
  | .tas => c.extTrustedCAKeys
  | .status => c.extStatusRequest
  | .curves => c.extSupportedCurves
  | .sigs => c.extSignatureAlgorithms
  | .alpn => c.extALPN
  | .cid => c.extClientID

theorem codeOf_lt (c : Codes) (hc : HelloCodes c) (x : CExt) : codeOf c x < 65536 := by
  cases x <;> simp only [codeOf, hc.sni, hc.tca, hc.status, hc.curves, hc.sigs, hc.alpn, hc.cid] <;> decide

theorem cEnc_head (c : Codes) (m : ClientHello) (x : CExt) : ∃ t, cEnc c m x = be16 (codeOf c x) ++ t := by
  cases x <;> simp only [cEnc, codeOf, wrap2, statusExt] <;> exact ⟨_, rfl⟩

theorem noLead_piece (c : Codes) (hc : HelloCodes c) (m : ClientHello) (x : CExt) {code : Nat} (hne : codeOf c x ≠ code)
    {rest : Bytes} (h : NoLead code rest) : NoLead code (piece c m x ++ rest) := by
  unfold piece
  split
  · obtain ⟨t, ht⟩ := cEnc_head c m x
    rw [ht, List.append_assoc]
    exact noLead_be16 (codeOf_lt c hc x) hne _
  · simpa using h

theorem strictTA_mk (t : TA) (hw : Spec.Codec.wfTA t = true) (r : Bytes) :
    Spec.Codec.strictTA (taEnc t ++ r) = some (t, r) := by
  unfold Spec.Codec.wfTA at hw
  cases t with
  | mk ty id =>
    simp only at hw
    by_cases h0 : ty = 0
    · subst h0
      have : id = [] := by
        simp only [beq_self_eq_true, ↓reduceIte, beq_iff_eq] at hw
        exact List.eq_nil_of_length_eq_zero hw
      subst this
      simp [Spec.Codec.strictTA, taEnc, readU8]
    · have b0 : (ty == 0) = false := by simpa using h0
      by_cases h45 : (ty == 4 || ty == 5) = true
      · have hl : id.length = 32 := by simpa [b0, h45] using hw
        have h2 : (ty == 2) = false := by
          simp only [Bool.or_eq_true, beq_iff_eq] at h45
          rcases h45 with h | h <;> simp [h]
        have hrb := readBytes_append id r
        rw [hl] at hrb
        simp [Spec.Codec.strictTA, taEnc, readU8, b0, h45, h2, hrb]
      · have b45 : (ty == 4 || ty == 5) = false := by simpa using h45
        by_cases h2 : (ty == 2) = true
        · have hl : 0 < id.length ∧ id.length < 65536 := by simpa [b0, b45, h2] using hw
          have := nonEmptyVec16_append hl.1 hl.2 r
          simp only [caItem, List.append_assoc] at this
          simp [Spec.Codec.strictTA, taEnc, readU8, b0, b45, h2, this]
        · have b2 : (ty == 2) = false := by simpa using h2
          simp [b0, b45, b2] at hw

theorem many_strictTA (tas : List TA) (hw : ∀ t ∈ tas, Spec.Codec.wfTA t = true) :
    many Spec.Codec.strictTA (concatMap taEnc tas).length (concatMap taEnc tas) = some tas :=
  many_concatMap Spec.Codec.strictTA taEnc (fun t => Spec.Codec.wfTA t = true) (fun x r hx => strictTA_mk x hx r)
    (fun x _ => taEnc_ne x) tas _ hw
    (concatMap_length_ge taEnc (fun _ => True) (fun x _ => taEnc_ne x) tas (fun _ _ => trivial))

theorem many_alpn (l : List Bytes) (hw : ∀ p ∈ l, AlpnOk p) :
    many Spec.Codec.nonEmptyVec8 (concatMap alpnEnc l).length (concatMap alpnEnc l) = some l :=
  many_concatMap Spec.Codec.nonEmptyVec8 alpnEnc AlpnOk
    (fun x r hx => by simpa [alpnEnc] using nonEmptyVec8_append hx.1 hx.2 r)
    (fun x _ => by simp [alpnEnc]) l _ hw
    (concatMap_length_ge alpnEnc (fun _ => True) (fun x _ => by simp [alpnEnc]) l (fun _ _ => trivial))

/-- generic forward step for the list-shaped client extensions -/
theorem fwd_wrap2 (c : Codes) (hc : HelloCodes c) (m : ClientHello) (dt : Bool) (hw : CHwf dt m) (x : CExt) (code : Nat)
    (hcode : codeOf c x = code) {α : Type} (dflt : α) (f : Bytes → Option α) (v : α) (inner : Bytes)
    (henc : cEnc c m x = wrap2 code inner)
    (hon : cOn m x = true → 0 < inner.length ∧ f (be16 inner.length ++ inner) = some v)
    (hoff : cOn m x = false → v = dflt)
    {T : Bytes} (hT : NoLead code T) :
    ∃ o, Spec.Codec.optExt code (piece c m x ++ T) = some (o, T) ∧ Spec.Codec.withExt o dflt f = some v := by
  have hx : x ∈ cAll := by cases x <;> simp [cAll]
  have hlt : code < 65536 := by rw [← hcode]; exact codeOf_lt c hc x
  cases hb : cOn m x with
  | true =>
    have hbnd := inner_bound c m dt hw x hx hb henc
    obtain ⟨_, hf⟩ := hon hb
    refine ⟨some (be16 inner.length ++ inner), ?_, hf⟩
    simp only [piece, hb, ↓reduceIte, henc]
    exact optExt_wrap2 hlt hbnd T
  | false =>
    refine ⟨none, ?_, by simp [Spec.Codec.withExt, hoff hb]⟩
    simp only [piece, hb, Bool.false_eq_true, ↓reduceIte, List.nil_append]
    exact optExt_none hT

theorem strictClientExts_mk (c : Codes) (hc : HelloCodes c) (m : ClientHello) (dt : Bool) (hw : CHwf dt m) :
    Spec.Codec.strictClientExts (concatMap (cEnc c m) (cAll.filter (cOn m))) =
      some ⟨m.serverName, m.tas, m.ocsp, m.curves, m.sigAlgs, m.alpn, m.clientId⟩ := by
  rw [pieces_concat]
  have b (x : CExt) (hon : cOn m x = true) {inner : Bytes} {code : Nat} (he : cEnc c m x = wrap2 code inner) :=
    inner_bound c m dt hw x (by cases x <;> simp [cAll]) hon he
  -- tails and what they cannot start with
  have nl (x : CExt) (code : Nat) (hne : codeOf c x ≠ code) {rest : Bytes} (h : NoLead code rest) :=
    noLead_piece c hc m x hne h
  have cd : codeOf c .sni = 0 ∧ codeOf c .tas = 3 ∧ codeOf c .status = 5 ∧ codeOf c .curves = 10 ∧
      codeOf c .sigs = 13 ∧ codeOf c .alpn = 16 ∧ codeOf c .cid = 66 :=
    ⟨hc.sni, hc.tca, hc.status, hc.curves, hc.sigs, hc.alpn, hc.cid⟩
  obtain ⟨c0, c3, c5, c10, c13, c16, c66⟩ := cd
  have t7 : ∀ code, code ≠ 66 → NoLead code (piece c m .cid) := by
    intro code hne
    have := nl .cid code (by rw [c66]; exact fun h => hne h.symm) (noLead_nil code)
    simpa using this
  have t6 : ∀ code, code ≠ 66 → code ≠ 16 → NoLead code (piece c m .alpn ++ piece c m .cid) :=
    fun code h1 h2 => nl .alpn code (by rw [c16]; exact fun h => h2 h.symm) (t7 code h1)
  have t5 : ∀ code, code ≠ 66 → code ≠ 16 → code ≠ 13 → NoLead code (piece c m .sigs ++ (piece c m .alpn ++ piece c m .cid)) :=
    fun code h1 h2 h3 => nl .sigs code (by rw [c13]; exact fun h => h3 h.symm) (t6 code h1 h2)
  have t4 : ∀ code, code ≠ 66 → code ≠ 16 → code ≠ 13 → code ≠ 10 →
      NoLead code (piece c m .curves ++ (piece c m .sigs ++ (piece c m .alpn ++ piece c m .cid))) :=
    fun code h1 h2 h3 h4 => nl .curves code (by rw [c10]; exact fun h => h4 h.symm) (t5 code h1 h2 h3)
  have t3 : ∀ code, code ≠ 66 → code ≠ 16 → code ≠ 13 → code ≠ 10 → code ≠ 5 →
      NoLead code (piece c m .status ++ (piece c m .curves ++ (piece c m .sigs ++ (piece c m .alpn ++ piece c m .cid)))) :=
    fun code h1 h2 h3 h4 h5 => nl .status code (by rw [c5]; exact fun h => h5 h.symm) (t4 code h1 h2 h3 h4)
  have t2 : ∀ code, code ≠ 66 → code ≠ 16 → code ≠ 13 → code ≠ 10 → code ≠ 5 → code ≠ 3 →
      NoLead code (piece c m .tas ++ (piece c m .status ++ (piece c m .curves ++ (piece c m .sigs ++
        (piece c m .alpn ++ piece c m .cid))))) :=
    fun code h1 h2 h3 h4 h5 h6 => nl .tas code (by rw [c3]; exact fun h => h6 h.symm) (t3 code h1 h2 h3 h4 h5)
  -- the seven steps
  obtain ⟨o1, a1, b1⟩ := fwd_wrap2 c hc m dt hw .sni 0 c0 [] Spec.Codec.cSniOf m.serverName (sniInner m.serverName)
    (by simp [cEnc, hc.sni])
    (fun hon => by
      have h0 : m.serverName.length > 0 := by simpa [cOn] using hon
      have hb := b .sni hon (code := c.extServerName) rfl
      refine ⟨by simp [sniInner], ?_⟩
      have hi := inVec16_mk (inner := sniInner m.serverName) (by simp [sniInner]) hb
      have hl : m.serverName.length < 65536 := by simp [sniInner, be16] at hb; omega
      have hn := nonEmptyVec16_append h0 hl ([] : Bytes)
      simp only [caItem, List.append_nil] at hn
      unfold Spec.Codec.cSniOf
      rw [hi]
      simp only [Option.bind_some, sniInner, hn, hw.dot, ↓reduceIte])
    (fun hoff => by
      have : ¬ m.serverName.length > 0 := by simpa [cOn] using hoff
      exact len0 this)
    (t2 0 (by decide) (by decide) (by decide) (by decide) (by decide) (by decide))
  obtain ⟨o2, a2, b2⟩ := fwd_wrap2 c hc m dt hw .tas 3 c3 [] Spec.Codec.cTasOf m.tas (concatMap taEnc m.tas)
    (by simp [cEnc, hc.tca])
    (fun hon => by
      have h0 : m.tas.length > 0 := by simpa [cOn] using hon
      have hb := b .tas hon (code := c.extTrustedCAKeys) rfl
      have hge := concatMap_length_ge taEnc (fun _ => True) (fun x _ => taEnc_ne x) m.tas (fun _ _ => trivial)
      have hpos : 0 < (concatMap taEnc m.tas).length := by omega
      exact ⟨hpos, by simp [Spec.Codec.cTasOf, inVec16_mk hpos hb, many_strictTA m.tas hw.tas]⟩)
    (fun hoff => by
      have : ¬ m.tas.length > 0 := by simpa [cOn] using hoff
      exact len0 this)
    (t3 3 (by decide) (by decide) (by decide) (by decide) (by decide))
  have a3 : ∃ o, Spec.Codec.optExt 5 (piece c m .status ++ (piece c m .curves ++ (piece c m .sigs ++
      (piece c m .alpn ++ piece c m .cid)))) = some (o, piece c m .curves ++ (piece c m .sigs ++
      (piece c m .alpn ++ piece c m .cid))) ∧ Spec.Codec.withExt o false Spec.Codec.cStatusOf = some m.ocsp := by
    cases hb : m.ocsp with
    | true =>
      refine ⟨some [1, 0, 0, 0, 0], ?_, by simp [Spec.Codec.withExt, Spec.Codec.cStatusOf]⟩
      have : piece c m .status = be16 5 ++ (be16 ([1, 0, 0, 0, 0] : Bytes).length ++ [1, 0, 0, 0, 0]) := by
        simp [piece, cOn, hb, cEnc, statusExt, hc.status]
      rw [this]
      exact optExt_some (by decide) (by decide) _
    | false =>
      refine ⟨none, ?_, by simp [Spec.Codec.withExt]⟩
      have : piece c m .status = [] := by simp [piece, cOn, hb]
      rw [this, List.nil_append]
      exact optExt_none (t4 5 (by decide) (by decide) (by decide) (by decide))
  obtain ⟨o3, a3, b3⟩ := a3
  obtain ⟨o4, a4, b4⟩ := fwd_wrap2 c hc m dt hw .curves 10 c10 [] Spec.Codec.cW16sOf m.curves (w16s m.curves)
    (by simp [cEnc, hc.curves])
    (fun hon => by
      have h0 : m.curves.length > 0 := by simpa [cOn] using hon
      have hb := b .curves hon (code := c.extSupportedCurves) rfl
      have hpos : 0 < (w16s m.curves).length := by rw [w16s_length]; omega
      exact ⟨hpos, by simp [Spec.Codec.cW16sOf, inVec16_mk hpos hb,
        many_w16s m.curves (w16s m.curves).length (by rw [w16s_length]; omega)]⟩)
    (fun hoff => by
      have : ¬ m.curves.length > 0 := by simpa [cOn] using hoff
      exact len0 this)
    (t5 10 (by decide) (by decide) (by decide))
  obtain ⟨o5, a5, b5⟩ := fwd_wrap2 c hc m dt hw .sigs 13 c13 [] Spec.Codec.cW16sOf m.sigAlgs (w16s m.sigAlgs)
    (by simp [cEnc, hc.sigs])
    (fun hon => by
      have h0 : m.sigAlgs.length > 0 := by simpa [cOn] using hon
      have hb := b .sigs hon (code := c.extSignatureAlgorithms) rfl
      have hpos : 0 < (w16s m.sigAlgs).length := by rw [w16s_length]; omega
      exact ⟨hpos, by simp [Spec.Codec.cW16sOf, inVec16_mk hpos hb,
        many_w16s m.sigAlgs (w16s m.sigAlgs).length (by rw [w16s_length]; omega)]⟩)
    (fun hoff => by
      have : ¬ m.sigAlgs.length > 0 := by simpa [cOn] using hoff
      exact len0 this)
    (t6 13 (by decide) (by decide))
  obtain ⟨o6, a6, b6⟩ := fwd_wrap2 c hc m dt hw .alpn 16 c16 [] Spec.Codec.cAlpnOf m.alpn (concatMap alpnEnc m.alpn)
    (by simp [cEnc, hc.alpn])
    (fun hon => by
      have h0 : m.alpn.length > 0 := by simpa [cOn] using hon
      have hb := b .alpn hon (code := c.extALPN) rfl
      have hge := concatMap_length_ge alpnEnc (fun _ => True) (fun x _ => by simp [alpnEnc]) m.alpn (fun _ _ => trivial)
      have hpos : 0 < (concatMap alpnEnc m.alpn).length := by omega
      exact ⟨hpos, by simp [Spec.Codec.cAlpnOf, inVec16_mk hpos hb, many_alpn m.alpn hw.alpn]⟩)
    (fun hoff => by
      have : ¬ m.alpn.length > 0 := by simpa [cOn] using hoff
      exact len0 this)
    (t7 16 (by decide))
  obtain ⟨o7, a7, b7⟩ := fwd_wrap2 c hc m dt hw .cid 66 c66 [] Spec.Codec.inVec16 m.clientId m.clientId
    (by simp [cEnc, hc.cid])
    (fun hon => by
      have h0 : m.clientId.length > 0 := by simpa [cOn] using hon
      have hb := b .cid hon (code := c.extClientID) rfl
      exact ⟨h0, inVec16_mk h0 hb⟩)
    (fun hoff => by
      have : ¬ m.clientId.length > 0 := by simpa [cOn] using hoff
      exact len0 this)
    (T := []) (noLead_nil 66)
  simp only [List.append_nil] at a7
  unfold Spec.Codec.strictClientExts
  simp only [a1, b1, a2, b2, a3, b3, a4, b4, a5, b5, a6, b6, a7, b7, Spec.Codec.isNil, ↓reduceIte]

/-- the strict body parse of the encoder's ClientHello body -/
theorem strictClientHello_body (c : Codes) (hc : HelloCodes c) (st : Stack) (m : ClientHello)
    (hw : CHwf (decide (st = .dtlcp)) m) :
    ∃ body, encClientHelloBody c (decide (st = .dtlcp)) m = some body ∧ body.length < 16777216 ∧
      ∀ (hd : DHdr) (b : Bytes), Spec.Codec.strictHeader st .clientHello b = some (hd, body) →
        Spec.Codec.strictClientHello st b = some (hd, m) := by
  have hsid : m.sessionId.length < 256 := by have := hw.sid; omega
  have hcs : (w16s m.suites).length < 65536 := by rw [w16s_length]; have := hw.suites; omega
  have hcs0 : 0 < (w16s m.suites).length := by rw [w16s_length]; have := hw.suites; omega
  have hcm := hw.comp
  have hrl : m.random.length = c.randomLen := by rw [hc.rnd]; exact hw.rnd
  have hel := cE_length c m
  have htot := hw.total
  obtain ⟨ex, hex1, hex2, hex3⟩ := strictExtBlock_mk (E := concatMap (cEnc c m) (cAll.filter (cOn m))) (by omega)
  have hck : ∃ ck, optBytes (decide (st = .dtlcp)) (vec8 m.cookie) = some ck ∧ ck.length ≤ 256 ∧
      (∀ rest, Spec.Codec.readCookie st (ck ++ rest) = some (m.cookie, rest)) := by
    have hc' := hw.cookie
    cases st with
    | dtlcp =>
      simp only [decide_true, ↓reduceIte] at hc'
      refine ⟨u8 m.cookie.length :: m.cookie, by simp [optBytes, vec8_of_lt hc'], by simp; omega, ?_⟩
      intro rest
      have := readVec8_append hc' rest
      simpa [Spec.Codec.readCookie] using this
    | tlcp =>
      simp only [reduceCtorEq, decide_false, Bool.false_eq_true, ↓reduceIte] at hc'
      exact ⟨[], by simp [optBytes], by simp, by intro rest; simp [Spec.Codec.readCookie, hc']⟩
  obtain ⟨ck, hck1, hck2, hck3⟩ := hck
  refine ⟨m.vers.bytes ++ m.random ++ (u8 m.sessionId.length :: m.sessionId) ++ ck ++
    (be16 (w16s m.suites).length ++ w16s m.suites) ++ (u8 m.compression.length :: m.compression) ++ ex, ?_, ?_, ?_⟩
  · simp only [encClientHelloBody, encClientExtensions_eq c hc m _ hw, exactly, hrl, ↓reduceIte, vec8_of_lt hsid, hck1,
      vec16_of_lt hcs, vec8_of_lt hcm.2, hex1]
  · simp only [List.length_append, W16.bytes, List.length_cons, List.length_nil, be16_length]
    have := hw.rnd
    omega
  · intro hd b hsh
    have h1 := readBytes_append m.random ((u8 m.sessionId.length :: m.sessionId) ++ ck ++
      (be16 (w16s m.suites).length ++ w16s m.suites) ++ (u8 m.compression.length :: m.compression) ++ ex)
    rw [hw.rnd] at h1
    have h2 := readVec8_append hsid (ck ++ (be16 (w16s m.suites).length ++ w16s m.suites) ++
      (u8 m.compression.length :: m.compression) ++ ex)
    have h3 := hck3 ((be16 (w16s m.suites).length ++ w16s m.suites) ++ (u8 m.compression.length :: m.compression) ++ ex)
    have h4 := nonEmptyVec16_append hcs0 hcs ((u8 m.compression.length :: m.compression) ++ ex)
    have h5 := many_w16s m.suites (w16s m.suites).length (by rw [w16s_length]; omega)
    have h6 := nonEmptyVec8_append hcm.1 hcm.2 ex
    simp only [List.append_assoc, List.cons_append, W16.bytes, List.nil_append, caItem] at h1 h2 h3 h4 h6
    unfold Spec.Codec.strictClientHello
    rw [hsh]
    simp only [W16.bytes, List.append_assoc, List.cons_append, List.nil_append, readW16, h1, h2, h3, h4, h5, h6, hex2,
      strictClientExts_mk c hc m _ hw, hw.sid, ↓reduceIte]

/-! ### message level -/

theorem accept_serverHello_tlcp (c : Codes) (hc : HelloCodes c) (ht : c.tServerHello = 2) (m : ServerHello)
    (hw : Spec.Codec.wfServerHello m = true) :
    ∃ b, encServerHello c m = some b ∧ Spec.Codec.strictServerHello .tlcp b = some (zeroH, m) := by
  obtain ⟨body, h1, h2, h3⟩ := strictServerHello_body c hc m (shwf_of hw)
  have hk : c.tServerHello = Kind.serverHello.code := by rw [ht]; rfl
  refine ⟨u8 c.tServerHello :: (be24 body.length ++ body), by simp only [encServerHello, h1, vec24_of_lt h2], ?_⟩
  rw [hk]
  exact h3 .tlcp zeroH _ (strictHeader_tlcp_mk _ h2)

theorem accept_clientHello_tlcp (c : Codes) (hc : HelloCodes c) (ht : c.tClientHello = 1) (m : ClientHello)
    (hw : Spec.Codec.wfClientHello .tlcp m = true) :
    ∃ b, encClientHello c m = some b ∧ Spec.Codec.strictClientHello .tlcp b = some (zeroH, m) := by
  obtain ⟨body, h1, h2, h3⟩ := strictClientHello_body c hc .tlcp m (chwf_of hw)
  have hd : decide (Stack.tlcp = Stack.dtlcp) = false := by decide
  rw [hd] at h1
  have hk : c.tClientHello = Kind.clientHello.code := by rw [ht]; rfl
  refine ⟨u8 c.tClientHello :: (be24 body.length ++ body), by simp only [encClientHello, h1, vec24_of_lt h2], ?_⟩
  rw [hk]
  exact h3 zeroH _ (strictHeader_tlcp_mk _ h2)

theorem accept_serverHello_dtlcp (c : Codes) (hc : HelloCodes c) (ht : c.tServerHello = 2) (h : DHdr) (m : ServerHello)
    (hw : Spec.Codec.wfServerHello m = true)
    (hh : ∀ body, encServerHelloBody c m = some body → Spec.Codec.wfDHdr h body.length = true) :
    ∃ b body, encServerHelloBody c m = some body ∧ Model.CodecDtlcp.encServerHello c h m = some b ∧
      Spec.Codec.strictServerHello .dtlcp b = some (⟨h.seq, 0, body.length⟩, m) := by
  obtain ⟨body, h1, h2, h3⟩ := strictServerHello_body c hc m (shwf_of hw)
  have hk : c.tServerHello = Kind.serverHello.code := by rw [ht]; rfl
  refine ⟨Lemmas.CodecDtlcp.chdr (u8 c.tServerHello) body.length h.seq ++ body, body, h1, ?_, ?_⟩
  · simp only [Model.CodecDtlcp.encServerHello, h1, Lemmas.CodecDtlcp.header_complete _ _ _ (hh body h1)]
  · rw [hk]
    exact h3 .dtlcp _ _ (Lemmas.CodecDtlcp.strictHeader_dtlcp_mk _ _ h2)

theorem accept_clientHello_dtlcp (c : Codes) (hc : HelloCodes c) (ht : c.tClientHello = 1) (h : DHdr) (m : ClientHello)
    (hw : Spec.Codec.wfClientHello .dtlcp m = true)
    (hh : ∀ body, encClientHelloBody c true m = some body → Spec.Codec.wfDHdr h body.length = true) :
    ∃ b body, encClientHelloBody c true m = some body ∧ Model.CodecDtlcp.encClientHello c h m = some b ∧
      Spec.Codec.strictClientHello .dtlcp b = some (⟨h.seq, 0, body.length⟩, m) := by
  obtain ⟨body, h1, h2, h3⟩ := strictClientHello_body c hc .dtlcp m (chwf_of hw)
  have hd : decide (Stack.dtlcp = Stack.dtlcp) = true := by decide
  rw [hd] at h1
  have hk : c.tClientHello = Kind.clientHello.code := by rw [ht]; rfl
  refine ⟨Lemmas.CodecDtlcp.chdr (u8 c.tClientHello) body.length h.seq ++ body, body, h1, ?_, ?_⟩
  · simp only [Model.CodecDtlcp.encClientHello, h1, Lemmas.CodecDtlcp.header_complete _ _ _ (hh body h1)]
  · rw [hk]
    exact h3 _ _ (Lemmas.CodecDtlcp.strictHeader_dtlcp_mk _ _ h2)

end Gotlcp.Lemmas.CodecHelloAccept

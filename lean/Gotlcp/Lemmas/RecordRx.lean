/-
Helper lemmas for C05 (`Gotlcp.Model.RecordRx`).

Part 1: the constant-time padding check, bit level (`msbMask`, `padStep`, `padLoop`, `collapse`).
Part 2: one wire record through `rx` under the ideal-protection law; invariants of `pump`,
        `read`, `reads`.
-/
import Gotlcp.Model.RecordRx
import Gotlcp.Spec.RecordRxSpec

set_option linter.unusedSimpArgs false
set_option linter.unusedVariables false

namespace Gotlcp.Lemmas.RecordRx
open Gotlcp.Model.RecordRx

/-! ## Part 1 — `extractPadding` -/

theorem msbMask_eq (t : BitVec 64) : msbMask t = if t.getLsbD 31 then 0#8 else 255#8 := by
  unfold msbMask
  apply BitVec.eq_of_getLsbD_eq
  intro i hi
  simp only [BitVec.getLsbD_setWidth, BitVec.getLsbD_sshiftRight, BitVec.getLsbD_not, BitVec.msb_eq_getLsbD_last,
    show (32 - 1 : Nat) = 31 from rfl]
  have hc : i = 0 ∨ i = 1 ∨ i = 2 ∨ i = 3 ∨ i = 4 ∨ i = 5 ∨ i = 6 ∨ i = 7 := by omega
  rcases hc with h|h|h|h|h|h|h|h <;> subst h <;> cases hb : t.getLsbD 31 <;> simp <;> decide

theorem msbMask_small (t : BitVec 64) (h : t.toNat < 2^31) : msbMask t = 255#8 := by
  rw [msbMask_eq]
  have : t.getLsbD 31 = false := by
    rw [BitVec.getLsbD, Nat.testBit_eq_decide_div_mod_eq]
    simp only [decide_eq_false_iff_not]; omega
  rw [this]; rfl

theorem msbMask_neg (t : BitVec 64) (h : 2^64 - 2^31 ≤ t.toNat) : msbMask t = 0#8 := by
  rw [msbMask_eq]
  have : t.getLsbD 31 = true := by
    rw [BitVec.getLsbD, Nat.testBit_eq_decide_div_mod_eq]
    have := t.isLt
    simp only [decide_eq_true_eq]; omega
  rw [this]; rfl

theorem collapse_eq : ∀ g : BitVec 8, collapse g = if g = 255#8 then 255#8 else 0#8 := by
  decide

theorem and_not_eq_ones (g x : BitVec 8) : g &&& ~~~x = 255#8 ↔ g = 255#8 ∧ x = 0#8 := by
  constructor
  · intro h
    have hb : ∀ i, i < 8 → (g.getLsbD i = true ∧ x.getLsbD i = false) := by
      intro i hi
      have := congrArg (fun v => v.getLsbD i) h
      have h255 : (255#8).getLsbD i = true := by
        have hc : i = 0 ∨ i = 1 ∨ i = 2 ∨ i = 3 ∨ i = 4 ∨ i = 5 ∨ i = 6 ∨ i = 7 := by omega
        rcases hc with h|h|h|h|h|h|h|h <;> subst h <;> decide
      simp only [BitVec.getLsbD_and, BitVec.getLsbD_not, h255, hi, decide_true, Bool.true_and, Bool.and_eq_true, Bool.not_eq_true'] at this
      exact this
    constructor
    · apply BitVec.eq_of_getLsbD_eq; intro i hi
      rw [(hb i hi).1]
      have hc : i = 0 ∨ i = 1 ∨ i = 2 ∨ i = 3 ∨ i = 4 ∨ i = 5 ∨ i = 6 ∨ i = 7 := by omega
      rcases hc with h|h|h|h|h|h|h|h <;> subst h <;> decide
    · apply BitVec.eq_of_getLsbD_eq; intro i hi
      rw [(hb i hi).2]; simp
  · rintro ⟨rfl, rfl⟩; decide

theorem padStep_le (pl b g : BitVec 8) (i : Nat) (h : i ≤ pl.toNat) :
    padStep pl i b g = g &&& ~~~(pl ^^^ b) := by
  unfold padStep
  have : msbMask (pl.setWidth 64 - BitVec.ofNat 64 i) = 255#8 := by
    apply msbMask_small
    have := pl.isLt
    simp only [BitVec.toNat_sub, BitVec.toNat_ofNat, BitVec.toNat_setWidth]
    omega
  simp only [this]
  have e : ∀ v : BitVec 8, 255#8 &&& v = v := by
    intro v; apply BitVec.eq_of_getLsbD_eq; intro i hi
    have hc : i = 0 ∨ i = 1 ∨ i = 2 ∨ i = 3 ∨ i = 4 ∨ i = 5 ∨ i = 6 ∨ i = 7 := by omega
    rcases hc with h|h|h|h|h|h|h|h <;> subst h <;> simp <;> decide
  rw [e, e]

theorem padStep_gt (pl b g : BitVec 8) (i : Nat) (h : pl.toNat < i) (hi : i ≤ 2^31) :
    padStep pl i b g = g := by
  unfold padStep
  have : msbMask (pl.setWidth 64 - BitVec.ofNat 64 i) = 0#8 := by
    apply msbMask_neg
    have := pl.isLt
    simp only [BitVec.toNat_sub, BitVec.toNat_ofNat, BitVec.toNat_setWidth]
    omega
  simp only [this]
  have e : (0#8 &&& pl) ^^^ (0#8 &&& b) = 0#8 := by simp
  rw [e]
  show g &&& ~~~(0#8) = g
  have : ~~~(0#8) = BitVec.allOnes 8 := by decide
  rw [this, BitVec.and_allOnes]

theorem xor_eq_zero (a b : BitVec 8) : a ^^^ b = 0#8 ↔ b = a := by
  constructor
  · intro h
    have := congrArg (fun v => v ^^^ a) h
    simp only [BitVec.zero_xor] at this
    rw [BitVec.xor_comm a b, BitVec.xor_assoc, BitVec.xor_self, BitVec.xor_zero] at this
    exact this
  · rintro rfl; exact BitVec.xor_self

theorem padLoop_full (pl : BitVec 8) : ∀ (bs : Bytes) (i : Nat) (g : BitVec 8), i + bs.length ≤ 2^31 →
    (padLoop pl i bs g = 255#8 ↔ g = 255#8 ∧ ∀ j (hj : j < bs.length), i + j ≤ pl.toNat → bs[j].toBitVec = pl) := by
  intro bs
  induction bs with
  | nil => intro i g _; simp [padLoop]
  | cons b bs ih =>
    intro i g hlen
    simp only [List.length_cons] at hlen
    rw [padLoop, ih (i+1) _ (by omega)]
    by_cases hi : i ≤ pl.toNat
    · rw [padStep_le _ _ _ _ hi, and_not_eq_ones, xor_eq_zero]
      constructor
      · rintro ⟨⟨hg, hb⟩, hall⟩
        refine ⟨hg, ?_⟩
        intro j hj hle
        cases j with
        | zero => exact hb
        | succ j => 
          simp only [List.getElem_cons_succ]
          exact hall j (by simpa using hj) (by omega)
      · rintro ⟨hg, hall⟩
        refine ⟨⟨hg, ?_⟩, ?_⟩
        · exact hall 0 (by simp) (by omega)
        · intro j hj hle
          have := hall (j+1) (by simp; omega) (by omega)
          simpa using this
    · rw [padStep_gt _ _ _ _ (by omega) (by omega)]
      constructor
      · rintro ⟨hg, _⟩
        exact ⟨hg, fun j hj hle => by omega⟩
      · rintro ⟨hg, _⟩
        exact ⟨hg, fun j hj hle => by omega⟩

/-- RFC padding validity: the last `pl+1` bytes all equal `pl` -/
def ValidPad (p : Bytes) (pl : UInt8) : Prop :=
  pl.toNat + 1 ≤ p.length ∧ ∀ j (hj : j < p.reverse.length), j ≤ pl.toNat → p.reverse[j] = pl

instance (p : Bytes) (pl : UInt8) : Decidable (ValidPad p pl) := by
  unfold ValidPad; exact inferInstance

theorem extractPadding_nil : extractPadding [] = (0, 0) := rfl

theorem toBitVec_inj (a b : UInt8) : a.toBitVec = b.toBitVec ↔ a = b := by
  constructor
  · intro h; cases a; cases b; simp_all
  · rintro rfl; rfl

theorem extractPadding_correct (p : Bytes) (l : UInt8) (hl : p.getLast? = some l) (hlen : p.length ≤ 2^31) :
    (ValidPad p l → extractPadding p = (l.toNat + 1, 255)) ∧
    (¬ ValidPad p l → extractPadding p = (1, 0)) := by
  have hne : p ≠ [] := by intro h; subst h; simp at hl
  have hpos : 0 < p.length := List.length_pos_iff.mpr hne
  -- the loop window
  let toCheck := if 256 > p.length then p.length else 256
  let g0 := msbMask (BitVec.ofNat 64 (p.length - 1) - l.toBitVec.setWidth 64)
  have hlt := l.toBitVec.isLt
  have hltn : l.toNat < 256 := hlt
  have hg0 : g0 = 255#8 ↔ l.toNat + 1 ≤ p.length := by
    by_cases h : l.toNat + 1 ≤ p.length
    · have : g0 = 255#8 := by
        apply msbMask_small
        simp only [BitVec.toNat_sub, BitVec.toNat_ofNat, BitVec.toNat_setWidth]
        have : l.toBitVec.toNat = l.toNat := rfl
        omega
      simp [this, h]
    · have : g0 = 0#8 := by
        apply msbMask_neg
        simp only [BitVec.toNat_sub, BitVec.toNat_ofNat, BitVec.toNat_setWidth]
        have : l.toBitVec.toNat = l.toNat := rfl
        omega
      rw [this]; simp [h]
  have hloop := padLoop_full l.toBitVec (p.reverse.take toCheck) 0 g0 (by
    simp only [List.length_take, List.length_reverse]; omega)
  have hval : (padLoop l.toBitVec 0 (p.reverse.take toCheck) g0 = 255#8) ↔ ValidPad p l := by
    rw [hloop, hg0]
    unfold ValidPad
    constructor
    · rintro ⟨h1, h2⟩
      refine ⟨h1, ?_⟩
      intro j hj hle
      have hjt : j < (p.reverse.take toCheck).length := by
        simp only [List.length_take, List.length_reverse, toCheck]
        split <;> omega
      have := h2 j hjt (by have : l.toBitVec.toNat = l.toNat := rfl; omega)
      rw [toBitVec_inj] at this
      rw [← this]; simp
    · rintro ⟨h1, h2⟩
      refine ⟨h1, ?_⟩
      intro j hj hle
      rw [toBitVec_inj]
      have hj' : j < p.reverse.length := by
        simp only [List.length_take] at hj; omega
      have := h2 j hj' (by have : l.toBitVec.toNat = l.toNat := rfl; omega)
      rw [← this]; simp
  have hex : extractPadding p =
      ((l.toBitVec &&& collapse (padLoop l.toBitVec 0 (p.reverse.take toCheck) g0)).toNat + 1,
        UInt8.ofBitVec (collapse (padLoop l.toBitVec 0 (p.reverse.take toCheck) g0))) := by
    unfold extractPadding; rw [hl]
  constructor
  · intro hv
    have := hval.mpr hv
    rw [hex, this, collapse_eq]
    simp only [if_true]
    have e : l.toBitVec &&& 255#8 = l.toBitVec := by
      show l.toBitVec &&& BitVec.allOnes 8 = _; exact BitVec.and_allOnes
    rw [e]; rfl
  · intro hv
    have : padLoop l.toBitVec 0 (p.reverse.take toCheck) g0 ≠ 255#8 := fun h => hv (hval.mp h)
    rw [hex, collapse_eq, if_neg this]
    have e : l.toBitVec &&& 0#8 = 0#8 := by simp
    rw [e]; rfl

/-! ## Part 2 — the record layer under the ideal-protection law -/

/-- the record-type codes the switch distinguishes are distinct (true of the extracted facts) -/
structure WF (p : Params) : Prop where
  alert_ne_app : p.tAlert ≠ p.tApp
  ccs_ne_app : p.tCCS ≠ p.tApp

/-- what one successfully decrypted record may do on an established connection: fail (latched),
or leave `err`/`seq`/`input` alone and either hand over exactly its plaintext (a non-empty
application-data record) or hand over nothing (anything else that is tolerated) -/
def StepPost (p : Params) (s : RxState) (typ : Nat) (data : Bytes) (r : RxState × RxOut) : Prop :=
  (∃ e, r.2 = .err e ∧ r.1.err = some e ∧ r.1.input = s.input) ∨
  (r.1.err = s.err ∧ r.1.seq = s.seq ∧ r.1.input = s.input ∧
    ((r.2 = .data data ∧ typ = p.tApp ∧ data ≠ []) ∨
     ((r.2 = .cont ∨ r.2 = .hand) ∧ ¬ (typ = p.tApp ∧ data ≠ []))))

theorem resetRetry_fields (p : Params) (s : RxState) (typ : Nat) (data : Bytes) :
    (resetRetry p s typ data).err = s.err ∧ (resetRetry p s typ data).seq = s.seq ∧
    (resetRetry p s typ data).input = s.input ∧ (resetRetry p s typ data).hand = s.hand ∧
    (resetRetry p s typ data).alerts = s.alerts := by
  unfold resetRetry; split <;> simp

theorem dispatch_est (p : Params) (hp : WF p) (s : RxState) (typ : Nat) (data : Bytes) :
    StepPost p s typ data (dispatch p Ctx.established s typ data) := by
  have h1 := hp.alert_ne_app
  have h2 := hp.ccs_ne_app
  obtain ⟨e1, e2, e3, _, _⟩ := resetRetry_fields p s typ data
  generalize hr : dispatch p Ctx.established s typ data = r
  simp [dispatch, Ctx.established, failAlert, fail, failWith, retry] at hr
  generalize resetRetry p s typ data = s1 at *
  unfold StepPost
  repeat' split at hr
  all_goals (subst hr; simp_all)

/-- what one wire record may do on an established connection when protection is ideal: fail
(latched), or be the sender's next record, untouched, and then behave as `StepPost` says -/
def RxPost {β : Type} (p : Params) (sent : List Sent) (wire : Nat → β) (s : RxState) (w : Wire β)
    (r : RxState × RxOut) : Prop :=
  (∃ e, r.2 = .err e ∧ r.1.err = some e ∧ r.1.input = s.input) ∨
  (w = honest p sent wire s.seq ∧ ∃ h : s.seq < sent.length,
    r.1.err = s.err ∧ r.1.seq = s.seq + 1 ∧ r.1.input = s.input ∧
    ((r.2 = .data sent[s.seq].payload ∧ sent[s.seq].typ = p.tApp ∧ sent[s.seq].payload ≠ []) ∨
     ((r.2 = .cont ∨ r.2 = .hand) ∧ ¬ (sent[s.seq].typ = p.tApp ∧ sent[s.seq].payload ≠ []))))

theorem rx_est {β : Type} (p : Params) (hp : WF p) (D : Dec β) (sent : List Sent) (wire : Nat → β)
    (L : IdealLaw p D sent wire) (s : RxState) (w : Wire β) :
    RxPost p sent wire s w (rx p D Ctx.established s w) := by
  unfold rx
  cases hh : hdrCheck p Ctx.established w.typ w.vers (D.len w.body) with
  | some r =>
    left
    obtain ⟨a, e⟩ := r
    cases a <;> simp [failHdr, fail, failWith]
  | none =>
    simp only [Ctx.established, if_true]
    cases hd : D.decrypt s.seq w.typ w.vers w.body with
    | fail a why => left; simp [failAlert]
    | ok data =>
      obtain ⟨h, hb, ht, hv, hpt⟩ := L.only _ _ _ _ _ hd
      have hw : w = honest p sent wire s.seq := by
        cases w with
        | mk typ vers body =>
          simp only [honest, Wire.mk.injEq]
          simp only at hb ht hv
          refine ⟨?_, hv, hb⟩
          rw [ht]; simp [List.getD_eq_getElem?_getD, h]
      have := dispatch_est p hp { s with seq := s.seq + 1 } w.typ data
      simp only
      rcases this with ⟨e, h1, h2, h3⟩ | ⟨h1, h2, h3, h4⟩
      · left; exact ⟨e, h1, h2, h3⟩
      · right
        refine ⟨hw, h, h1, h2, h3, ?_⟩
        rw [← hpt, ← ht]; exact h4

/-- an untouched, in-order, non-empty application-data record within the size limits is
delivered whole -/
theorem rx_genuine_app {β : Type} (p : Params) (hp : WF p) (D : Dec β) (sent : List Sent) (wire : Nat → β)
    (L : IdealLaw p D sent wire) (s : RxState) (k : Nat) (hk : s.seq = k) (hklt : k < sent.length)
    (happ : sent[k].typ = p.tApp) (hne : sent[k].payload ≠ [])
    (hlen : D.len (wire k) ≤ p.maxCiphertext) (hpl : sent[k].payload.length ≤ p.maxPlaintext) :
    (rx p D Ctx.established s (honest p sent wire k)).2 = .data sent[k].payload ∧
    (rx p D Ctx.established s (honest p sent wire k)).1.err = s.err ∧
    (rx p D Ctx.established s (honest p sent wire k)).1.seq = k + 1 := by
  have hty : (sent.getD k ⟨0, []⟩).typ = p.tApp := by
    simp [List.getD_eq_getElem?_getD, hklt, happ]
  have hh : hdrCheck p Ctx.established p.tApp p.vers (D.len (wire k)) = none := by
    simp [hdrCheck, Ctx.established, Nat.not_lt.mpr hlen]
  simp only [Ctx.established] at hh
  subst hk
  have hd := L.opens s.seq hklt
  rw [happ] at hd
  have h1 := hp.alert_ne_app
  have h2 := hp.ccs_ne_app
  have hl0 : sent[s.seq].payload.length ≠ 0 := by
    intro h; exact hne (List.length_eq_zero_iff.mp h)
  obtain ⟨e1, e2, e3, _, _⟩ := resetRetry_fields p { s with seq := s.seq + 1 } p.tApp sent[s.seq].payload
  simp only [rx, honest, hty, hh, Ctx.established, if_true, hd, dispatch, Nat.not_lt.mpr hpl,
    Bool.not_true, Bool.false_and, Bool.false_eq_true, if_false, beq_iff_eq, Ne.symm h1, Ne.symm h2,
    Bool.or_false, hl0, decide_false]
  simp only at e1 e2 e3
  exact ⟨trivial, e1, e2⟩

/-! ### bookkeeping of the entitled bytes -/

theorem appBytes_succ (p : Params) (sent : List Sent) (k : Nat) (h : k < sent.length) :
    appBytes p sent (k+1) = appBytes p sent k ++ (if sent[k].typ = p.tApp then sent[k].payload else []) := by
  unfold appBytes appPayloads
  rw [List.take_add_one]
  simp [List.flatten_append, h]

theorem appBytes_mono (p : Params) (sent : List Sent) {k n : Nat} (h : k ≤ n) :
    appBytes p sent k <+: appBytes p sent n := by
  unfold appBytes
  obtain ⟨t, ht⟩ := (List.take_prefix_take_left (l := appPayloads p sent) h)
  rw [← ht, List.flatten_append]
  exact List.prefix_append _ _

/-- invariant of the receiving side relative to what it has handed to the application (`del`):
`N` is the index of the first damaged wire record of the whole attack -/
def Inv {β : Type} [DecidableEq β] (p : Params) (sent : List Sent) (wire : Nat → β) (N : Nat)
    (s : RxState) (ws : List (Wire β)) (del : Bytes) : Prop :=
  (s.err = none → s.seq + goodPrefix p sent wire s.seq ws = N ∧ del ++ s.input = appBytes p sent s.seq) ∧
  (∀ e, s.err = some e → s.input = [] ∧ ∃ m, m ≤ N ∧ del = appBytes p sent m)

theorem atTail_cases (p : Params) (c : Ctx) (s : RxState) (t : Tail) :
    ((atTail p c s t).2 = .blocked ∧ (atTail p c s t).1 = s) ∨
    (∃ e, (atTail p c s t).2 = .err e ∧ (atTail p c s t).1.err = some e ∧ (atTail p c s t).1.input = s.input) := by
  unfold atTail
  split
  · split <;> simp
  · split <;> simp
  · split
    · rename_i r _
      obtain ⟨a, e⟩ := r
      cases a <;> simp [failHdr, fail, failWith]
    · split <;> simp

theorem pump_inv {β : Type} [DecidableEq β] (p : Params) (hp : WF p) (D : Dec β) (sent : List Sent)
    (wire : Nat → β) (L : IdealLaw p D sent wire) (t : Tail) (stop : Bool) (N : Nat) (del : Bytes) :
    ∀ (ws : List (Wire β)) (s : RxState), Inv p sent wire N s ws del → (s.err = none → s.input = []) →
      Inv p sent wire N (pump p D Ctx.established t stop s ws).1 (pump p D Ctx.established t stop s ws).2.1 del ∧
      (∀ e, (pump p D Ctx.established t stop s ws).2.2 = .err e → (pump p D Ctx.established t stop s ws).1.err = some e) ∧
      ((pump p D Ctx.established t stop s ws).2.2 = .filled →
          (pump p D Ctx.established t stop s ws).1.err = none ∧ (pump p D Ctx.established t stop s ws).1.input ≠ []) ∧
      (((pump p D Ctx.established t stop s ws).2.2 = .nil ∨ (pump p D Ctx.established t stop s ws).2.2 = .blocked) →
          (pump p D Ctx.established t stop s ws).1.err = none ∧ (pump p D Ctx.established t stop s ws).1.input = []) ∧
      (∀ e, s.err = some e → pump p D Ctx.established t stop s ws = (s, ws, .err e)) := by
  intro ws
  induction ws with
  | nil =>
    intro s hinv hin
    cases he : s.err with
    | some e =>
      have : pump p D Ctx.established t stop s [] = (s, [], .err e) := by simp [pump, he]
      rw [this]
      exact ⟨hinv, by simp [he], by simp, by simp, by simp⟩
    | none =>
      have hp' : pump p D Ctx.established t stop s [] =
          ((atTail p Ctx.established s t).1, [], (atTail p Ctx.established s t).2) := by simp [pump, he]
      rw [hp']
      obtain ⟨hseq, hdel⟩ := hinv.1 he
      have hi := hin he
      rcases atTail_cases p Ctx.established s t with ⟨h1, h2⟩ | ⟨e, h1, h2, h3⟩
      · rw [h1, h2]
        exact ⟨hinv, by simp, by simp, by simp [he, hi], by simp⟩
      · refine ⟨⟨?_, ?_⟩, ?_, ?_, ?_, ?_⟩
        · intro hn; simp [h2] at hn
        · intro e' he'
          refine ⟨by simpa [hi] using h3, s.seq, ?_, ?_⟩
          · simp only [goodPrefix] at hseq; omega
          · rw [hi] at hdel; simpa using hdel
        · intro e' he'; simp only [h1] at he'; simp only [h2]; cases he'; rfl
        · simp [h1]
        · simp [h1]
        · simp
  | cons w ws ih =>
    intro s hinv hin
    cases he : s.err with
    | some e =>
      have : pump p D Ctx.established t stop s (w :: ws) = (s, w :: ws, .err e) := by simp [pump, he]
      rw [this]
      exact ⟨hinv, by simp [he], by simp, by simp, by simp⟩
    | none =>
      obtain ⟨hseq, hdel⟩ := hinv.1 he
      have hi := hin he
      rw [hi] at hdel
      simp only [List.append_nil] at hdel
      have hpost := rx_est p hp D sent wire L s w
      generalize hr : rx p D Ctx.established s w = r at hpost
      obtain ⟨s', o⟩ := r
      rcases hpost with ⟨e, h1, h2, h3⟩ | ⟨hw, hlt, h1, h2, h3, h4⟩
      · -- refused
        simp only at h1 h2 h3
        subst h1
        have : pump p D Ctx.established t stop s (w :: ws) = (s', ws, .err e) := by
          simp [pump, he, hi, hr]
        rw [this]
        refine ⟨⟨?_, ?_⟩, by simp [h2], by simp, by simp, by simp⟩
        · intro hn; simp [h2] at hn
        · intro e' _
          refine ⟨by rw [h3, hi], s.seq, by omega, hdel⟩
      · -- the sender's next record, untouched
        simp only at h1 h2 h3 h4
        have hgp : goodPrefix p sent wire s.seq (w :: ws) = 1 + goodPrefix p sent wire (s.seq + 1) ws := by
          simp [goodPrefix, hw, hlt]
        have hN : s'.seq + goodPrefix p sent wire s'.seq ws = N := by rw [h2]; omega
        have herr' : s'.err = none := by rw [h1, he]
        have hin' : s'.input = [] := by rw [h3, hi]
        have hsucc := appBytes_succ p sent s.seq hlt
        rcases h4 with ⟨ho, hta, hne⟩ | ⟨ho, hnot⟩
        · subst ho
          have : pump p D Ctx.established t stop s (w :: ws) = ({ s' with input := sent[s.seq].payload }, ws, .filled) := by
            simp [pump, he, hi, hr]
          rw [this]
          refine ⟨⟨?_, ?_⟩, by simp, ?_, by simp, by simp⟩
          · intro _
            refine ⟨hN, ?_⟩
            simp only [h2, hsucc, hta, if_true, hdel]
          · intro e' he'; simp [herr'] at he'
          · intro _; exact ⟨herr', hne⟩
        · have hinv' : Inv p sent wire N s' ws del := by
            refine ⟨?_, ?_⟩
            · intro _
              refine ⟨hN, ?_⟩
              rw [hin', h2, hsucc, hdel]
              by_cases hta : sent[s.seq].typ = p.tApp
              · have : sent[s.seq].payload = [] := by
                  cases hpl : sent[s.seq].payload with
                  | nil => rfl
                  | cons _ _ => exact absurd ⟨hta, by simp [hpl]⟩ hnot
                simp [hta, this]
              · simp [hta]
            · intro e' he'; simp [herr'] at he'
          have ihs := ih s' hinv' (fun _ => hin')
          rcases ho with ho | ho
          · subst ho
            have : pump p D Ctx.established t stop s (w :: ws) = pump p D Ctx.established t stop s' ws := by
              simp [pump, he, hi, hr]
            rw [this]
            exact ⟨ihs.1, ihs.2.1, ihs.2.2.1, ihs.2.2.2.1, by simp⟩
          · subst ho
            cases stop with
            | true =>
              have : pump p D Ctx.established t true s (w :: ws) = (s', ws, .nil) := by
                simp [pump, he, hi, hr]
              rw [this]
              exact ⟨hinv', by simp, by simp, by simp [herr', hin'], by simp⟩
            | false =>
              have : pump p D Ctx.established t false s (w :: ws) = pump p D Ctx.established t false s' ws := by
                simp [pump, he, hi, hr]
              rw [this]
              exact ⟨ihs.1, ihs.2.1, ihs.2.2.1, ihs.2.2.2.1, by simp⟩

theorem read_inv {β : Type} [DecidableEq β] (p : Params) (hp : WF p) (D : Dec β) (sent : List Sent)
    (wire : Nat → β) (L : IdealLaw p D sent wire) (t : Tail) (N : Nat) (del : Bytes)
    (s : RxState) (ws : List (Wire β)) (n : Nat) (pk : Bool) (hinv : Inv p sent wire N s ws del) :
    Inv p sent wire N (readCall p D Ctx.established t s ws n pk).1.1 (readCall p D Ctx.established t s ws n pk).1.2
        (del ++ (readCall p D Ctx.established t s ws n pk).2.data) ∧
    (∀ e, (readCall p D Ctx.established t s ws n pk).2.error = some e →
        (readCall p D Ctx.established t s ws n pk).1.1.err = some e) ∧
    (∀ e, s.err = some e → (readCall p D Ctx.established t s ws n pk).1.1.err = some e) ∧
    (∀ e, s.err = some e → n ≠ 0 → (readCall p D Ctx.established t s ws n pk).2 = .err e) := by
  unfold readCall
  by_cases hn : n = 0
  · simp only [hn, if_true, ReadRes.data, ReadRes.error, List.append_nil]
    exact ⟨hinv, by simp, fun e he => he, fun e he h => absurd rfl h⟩
  simp only [hn, if_false]
  -- the first phase: make `c.input` non-empty
  have hphase : ∃ s1 ws1 st, (if s.input ≠ [] then (s, ws, Stop.filled) else pump p D Ctx.established t false s ws) = (s1, ws1, st) ∧
      Inv p sent wire N s1 ws1 del ∧ (∀ e, st = .err e → s1.err = some e) ∧
      ((st = .filled ∨ st = .nil ∨ st = .blocked) → s1.err = none) ∧
      (∀ e, s.err = some e → s1 = s ∧ st = .err e) := by
    by_cases hi : s.input ≠ []
    · have he : s.err = none := by
        cases h : s.err with
        | none => rfl
        | some e => exact absurd (hinv.2 e h).1 hi
      exact ⟨s, ws, .filled, by simp [hi], hinv, by simp, fun _ => he, by simp [he]⟩
    · have hi' : s.input = [] := by simpa using hi
      have := pump_inv p hp D sent wire L t false N del ws s hinv (fun _ => hi')
      generalize pump p D Ctx.established t false s ws = r at this
      obtain ⟨s1, ws1, st⟩ := r
      refine ⟨s1, ws1, st, by simp [hi'], this.1, this.2.1, ?_, ?_⟩
      · rintro (h | h | h)
        · exact (this.2.2.1 h).1
        · exact (this.2.2.2.1 (Or.inl h)).1
        · exact (this.2.2.2.1 (Or.inr h)).1
      · intro e he
        have := this.2.2.2.2 e he
        simp only [Prod.mk.injEq] at this
        exact ⟨this.1, this.2.2⟩
  obtain ⟨s1, ws1, st, hr, hinv1, herr1, hok1, hst1⟩ := hphase
  rw [hr]
  cases st with
  | err e =>
    simp only [ReadRes.data, ReadRes.error, List.append_nil]
    refine ⟨hinv1, ?_, ?_, ?_⟩
    · intro e' he'; cases he'; exact herr1 e rfl
    · intro e' he'; rw [(hst1 e' he').1]; exact he'
    · intro e' he' _
      have := (hst1 e' he').2; cases this; rfl
  | blocked =>
    simp only [ReadRes.data, ReadRes.error, List.append_nil]
    have hnone := hok1 (Or.inr (Or.inr rfl))
    refine ⟨hinv1, by simp, ?_, ?_⟩
    · intro e' he'; have := (hst1 e' he').2; cases this
    · intro e' he'; have := (hst1 e' he').2; cases this
  | filled | nil =>
    all_goals
    (first
      | have hnone := hok1 (Or.inl rfl)
      | have hnone := hok1 (Or.inr (Or.inl rfl)))
    all_goals
    have hs2 : Inv p sent wire N { s1 with input := s1.input.drop n } ws1 (del ++ s1.input.take n) := by
      refine ⟨?_, ?_⟩
      · intro _
        obtain ⟨h1, h2⟩ := hinv1.1 hnone
        refine ⟨h1, ?_⟩
        simp only [List.append_assoc, List.take_append_drop]
        exact h2
      · intro e' he'; simp [hnone] at he'
    all_goals
    have hstick : ∀ e, s.err = some e → False := by
      intro e' he'; have := (hst1 e' he').2; cases this
    all_goals simp only
    all_goals split
    all_goals try
      (rename_i hcond
       have hin2 : ({ s1 with input := s1.input.drop n } : RxState).input = [] := by
         simp only [Bool.and_eq_true, beq_iff_eq] at hcond
         exact hcond.1.1.2
       have := pump_inv p hp D sent wire L t true N (del ++ s1.input.take n) ws1
          { s1 with input := s1.input.drop n } hs2 (fun _ => hin2)
       generalize pump p D Ctx.established t true { s1 with input := s1.input.drop n } ws1 = r3 at this
       obtain ⟨s3, ws3, st3⟩ := r3
       cases st3 <;> simp only [ReadRes.data, ReadRes.error]
       all_goals refine ⟨this.1, ?_, fun e he => (hstick e he).elim, fun e he _ => (hstick e he).elim⟩
       all_goals try (intro e' he'; cases he')
       all_goals try exact this.2.1 _ rfl)
    all_goals try
      (simp only [ReadRes.data, ReadRes.error]
       exact ⟨hs2, by simp, fun e he => (hstick e he).elim, fun e he _ => (hstick e he).elim⟩)

/-! ### histories of `Read` calls -/

/-- a model result as the application observes it -/
def toObs (r : ReadRes) : Spec.RecordRx.Obs := ⟨r.data, r.error.isSome⟩

def dataOf (rs : List ReadRes) : Bytes := (rs.map ReadRes.data).flatten

theorem delivered_toObs (rs : List ReadRes) : Spec.RecordRx.delivered (rs.map toObs) = dataOf rs := by
  simp [Spec.RecordRx.delivered, dataOf, toObs, Function.comp_def]

theorem reads_cons {β : Type} (p : Params) (D : Dec β) (c : Ctx) (t : Tail) (s : RxState) (ws : List (Wire β))
    (n : Nat) (pk : Bool) (calls : List (Nat × Bool)) :
    reads p D c t s ws ((n, pk) :: calls) =
      (readCall p D c t s ws n pk).2 ::
        reads p D c t (readCall p D c t s ws n pk).1.1 (readCall p D c t s ws n pk).1.2 calls := by
  simp [reads]

theorem reads_inv {β : Type} [DecidableEq β] (p : Params) (hp : WF p) (D : Dec β) (sent : List Sent)
    (wire : Nat → β) (L : IdealLaw p D sent wire) (t : Tail) (N : Nat) :
    ∀ (calls : List (Nat × Bool)) (s : RxState) (ws : List (Wire β)) (del : Bytes), Inv p sent wire N s ws del →
      (del ++ dataOf (reads p D Ctx.established t s ws calls)) <+: appBytes p sent N ∧
      ((s.err ≠ none ∨ ∃ r ∈ reads p D Ctx.established t s ws calls, r.error ≠ none) →
        ∃ m, m ≤ N ∧ del ++ dataOf (reads p D Ctx.established t s ws calls) = appBytes p sent m) := by
  intro calls
  induction calls with
  | nil =>
    intro s ws del hinv
    simp only [reads, dataOf, List.map_nil, List.flatten_nil, List.append_nil, List.not_mem_nil, false_and,
      exists_false, or_false]
    constructor
    · cases he : s.err with
      | none =>
        obtain ⟨h1, h2⟩ := hinv.1 he
        have : del <+: appBytes p sent s.seq := by rw [← h2]; exact List.prefix_append _ _
        exact List.IsPrefix.trans this (appBytes_mono p sent (by omega))
      | some e =>
        obtain ⟨_, m, hm, hd⟩ := hinv.2 e he
        rw [hd]; exact appBytes_mono p sent hm
    · intro hne
      cases he : s.err with
      | none => exact absurd he hne
      | some e => exact (hinv.2 e he).2
  | cons c calls ih =>
    intro s ws del hinv
    obtain ⟨n, pk⟩ := c
    rw [reads_cons]
    obtain ⟨h1, h2, h3, h4⟩ := read_inv p hp D sent wire L t N del s ws n pk hinv
    have ihs := ih _ _ _ h1
    have hd : ∀ rest, del ++ dataOf ((readCall p D Ctx.established t s ws n pk).2 :: rest) =
        del ++ (readCall p D Ctx.established t s ws n pk).2.data ++ dataOf rest := by
      intro rest; simp [dataOf, List.append_assoc]
    rw [hd]
    refine ⟨ihs.1, ?_⟩
    intro hor
    apply ihs.2
    rcases hor with hs | ⟨r, hr, hre⟩
    · left
      cases he : s.err with
      | none => exact absurd he hs
      | some e => rw [h3 e he]; simp
    · rcases List.mem_cons.mp hr with rfl | hr'
      · left
        cases he : (readCall p D Ctx.established t s ws n pk).2.error with
        | none => exact absurd he hre
        | some e => rw [h2 e he]; simp
      · right; exact ⟨r, hr', hre⟩

theorem reads_latched {β : Type} [DecidableEq β] (p : Params) (hp : WF p) (D : Dec β) (sent : List Sent)
    (wire : Nat → β) (L : IdealLaw p D sent wire) (t : Tail) (N : Nat) :
    ∀ (calls : List (Nat × Bool)) (s : RxState) (ws : List (Wire β)) (del : Bytes) (e : RxErr),
      Inv p sent wire N s ws del → s.err = some e → (∀ c ∈ calls, c.1 ≠ 0) →
      reads p D Ctx.established t s ws calls = calls.map (fun _ => ReadRes.err e) := by
  intro calls
  induction calls with
  | nil => intro s ws del e _ _ _; simp [reads]
  | cons c calls ih =>
    intro s ws del e hinv he hpos
    obtain ⟨n, pk⟩ := c
    rw [reads_cons]
    obtain ⟨h1, h2, h3, h4⟩ := read_inv p hp D sent wire L t N del s ws n pk hinv
    have hn : n ≠ 0 := hpos (n, pk) (by simp)
    rw [h4 e he hn]
    simp only [List.map_cons, List.cons.injEq, true_and]
    exact ih _ _ _ e h1 (h3 e he) (fun c hc => hpos c (List.mem_cons_of_mem _ hc))

theorem reads_sticky {β : Type} [DecidableEq β] (p : Params) (hp : WF p) (D : Dec β) (sent : List Sent)
    (wire : Nat → β) (L : IdealLaw p D sent wire) (t : Tail) (N : Nat) :
    ∀ (calls : List (Nat × Bool)) (s : RxState) (ws : List (Wire β)) (del : Bytes),
      Inv p sent wire N s ws del → (∀ c ∈ calls, c.1 ≠ 0) →
      Spec.RecordRx.sticky ((reads p D Ctx.established t s ws calls).map toObs) = true := by
  intro calls
  induction calls with
  | nil => intro s ws del _ _; simp [reads, Spec.RecordRx.sticky]
  | cons c calls ih =>
    intro s ws del hinv hpos
    obtain ⟨n, pk⟩ := c
    rw [reads_cons]
    obtain ⟨h1, h2, h3, h4⟩ := read_inv p hp D sent wire L t N del s ws n pk hinv
    have hpos' : ∀ c ∈ calls, c.1 ≠ 0 := fun c hc => hpos c (List.mem_cons_of_mem _ hc)
    simp only [List.map_cons, Spec.RecordRx.sticky]
    cases he : (readCall p D Ctx.established t s ws n pk).2.error with
    | none =>
      simp only [toObs, he, Option.isSome_none, Bool.false_eq_true, if_false]
      exact ih _ _ _ h1 hpos'
    | some e =>
      simp only [toObs, he, Option.isSome_some, if_true]
      rw [reads_latched p hp D sent wire L t N calls _ _ _ e h1 (h2 e he) hpos']
      simp [toObs, ReadRes.data, ReadRes.error]

end Gotlcp.Lemmas.RecordRx

/-
Helper lemmas for C06: the sender's records, framed and protected, are an honest stream for
the receiver (composition of `Model.RecordTx` with `Model.RecordRx`).
-/
import Gotlcp.Lemmas.C06Rx
import Gotlcp.Lemmas.C06Tx

set_option linter.unusedSimpArgs false
set_option linter.unusedVariables false

namespace Gotlcp.Lemmas.C06Compose
open Gotlcp.Model.RecordRx
open Gotlcp.Lemmas.C06Rx
open Gotlcp

/-- the five header bytes `writeRecordLocked` + `encrypt` put before a protected fragment -/
def header (P : Params) (typ : UInt8) (n : Nat) : Bytes :=
  [typ, UInt8.ofNat (P.version / 256), UInt8.ofNat P.version, UInt8.ofNat (n / 256), UInt8.ofNat n]

/-- one record on the wire -/
def frameBytes (P : Params) (typ : UInt8) (body : Bytes) : Bytes := header P typ body.length ++ body

theorem be16_ofNat (n : Nat) (h : n < 65536) : be16 (UInt8.ofNat (n / 256)) (UInt8.ofNat n) = n := by
  unfold be16
  simp only [UInt8.toNat_ofNat']
  omega

theorem take_drop_frame (hdr body w' : Bytes) (h : hdr.length = 5) :
    ((hdr ++ body ++ w').take (5 + body.length)).drop 5 = body ∧
    (hdr ++ body ++ w').drop (5 + body.length) = w' := by
  have hl : (hdr ++ body).length = 5 + body.length := by simp [h]
  constructor
  · rw [List.take_left' hl, List.drop_left' h]
  · rw [List.drop_left' hl]

/-- reading back what was framed: any record whose fragment is within the ciphertext limit -/
theorem parseOne_frame (P : Params) (hh : P.recordHeaderLen = 5) (hv : P.version < 65536)
    (hm : P.maxCiphertext < 65536) (typ : UInt8) (body w' : Bytes) (hb : body.length ≤ P.maxCiphertext) :
    parseOne P (frameBytes P typ body ++ w') = (.frame typ body, w') := by
  have hlen : (frameBytes P typ body ++ w').length = 5 + body.length + w'.length := by
    simp [frameBytes, header]; omega
  have g0 : (frameBytes P typ body ++ w').getD 0 0 = typ := by simp [frameBytes, header]
  have g1 : (frameBytes P typ body ++ w').getD 1 0 = UInt8.ofNat (P.version / 256) := by simp [frameBytes, header]
  have g2 : (frameBytes P typ body ++ w').getD 2 0 = UInt8.ofNat P.version := by simp [frameBytes, header]
  have g3 : (frameBytes P typ body ++ w').getD 3 0 = UInt8.ofNat (body.length / 256) := by simp [frameBytes, header]
  have g4 : (frameBytes P typ body ++ w').getD 4 0 = UInt8.ofNat body.length := by simp [frameBytes, header]
  have hv' := be16_ofNat P.version hv
  have hn' := be16_ofNat body.length (by omega)
  obtain ⟨t1, t2⟩ := take_drop_frame (header P typ body.length) body w' (by simp [header])
  unfold parseOne
  rw [hlen, hh, g0, g1, g2, g3, g4, hv', hn']
  have c1 : ¬ (5 + body.length + w'.length < 5) := by omega
  have c2 : ¬ (P.maxCiphertext < body.length) := by omega
  have c3 : ¬ (5 + body.length + w'.length < 5 + body.length) := by omega
  simp only [c1, c2, c3, ↓reduceIte, ne_eq, not_true_eq_false]
  unfold frameBytes
  rw [t1, t2]

end Gotlcp.Lemmas.C06Compose

/-
Helper lemmas for C11 (model `Gotlcp.Model.LRU` against spec `Gotlcp.Spec.LRUMap`).
-/
import Gotlcp.Model.LRU
import Gotlcp.Spec.LRUMap

set_option linter.unusedSimpArgs false

namespace Gotlcp.Lemmas.LRU
open Gotlcp.Model.LRU
open Gotlcp.Spec

/-- abstraction of one entry (entries with a nil state have no image) -/
def toPair (e : Entry) : Option (Key × ObjId) := e.val.map (fun v => (e.key, v))

def absItems (q : List Entry) : List (Key × ObjId) := q.filterMap toPair

def abs (s : State) : LRUMap.Map ObjId := { cap := s.cap, items := absItems s.q }

/-- all entries carry a non-nil state -/
def AllSome (q : List Entry) : Prop := ∀ e ∈ q, e.val.isSome = true

def NodupKeys (q : List Entry) : Prop := (q.map (·.key)).Nodup

structure Inv (s : State) : Prop where
  capPos : 0 < s.cap
  size   : s.q.length ≤ s.cap
  nodup  : NodupKeys s.q

theorem remove_length_le (q : List Entry) (k : Key) : (remove q k).length ≤ q.length := by
  unfold remove; exact List.length_filter_le _ _

theorem hasKey_iff (q : List Entry) (k : Key) : hasKey q k = true ↔ k ∈ q.map (·.key) := by
  unfold hasKey
  simp only [List.any_eq_true, List.mem_map, beq_iff_eq]

theorem remove_of_not_hasKey (q : List Entry) (k : Key) (h : hasKey q k = false) : remove q k = q := by
  unfold remove
  apply List.filter_eq_self.mpr
  intro e he
  have : ¬ (hasKey q k = true) := by simp [h]
  rw [hasKey_iff] at this
  simp only [bne_iff_ne, ne_eq]
  intro hk
  exact this (List.mem_map.mpr ⟨e, he, hk⟩)

theorem not_mem_keys_remove (q : List Entry) (k : Key) : k ∉ (remove q k).map (·.key) := by
  unfold remove
  simp only [List.mem_map, List.mem_filter, bne_iff_ne, ne_eq, not_exists, not_and]
  intro e ⟨_, hne⟩ heq
  exact hne heq

theorem keys_remove_sublist (q : List Entry) (k : Key) :
    ((remove q k).map (·.key)).Sublist (q.map (·.key)) := by
  unfold remove
  exact (List.filter_sublist).map _

theorem nodup_remove {q : List Entry} (k : Key) (h : NodupKeys q) : NodupKeys (remove q k) := by
  unfold NodupKeys at *
  exact List.Nodup.sublist (keys_remove_sublist q k) h

theorem nodup_cons_remove {q : List Entry} (k : Key) (v) (h : NodupKeys q) :
    NodupKeys (⟨k, v⟩ :: remove q k) := by
  unfold NodupKeys
  simp only [List.map_cons, List.nodup_cons]
  exact ⟨not_mem_keys_remove q k, nodup_remove k h⟩

theorem length_remove_lt {q : List Entry} {k : Key} (h : hasKey q k = true) :
    (remove q k).length < q.length := by
  unfold remove
  rw [hasKey_iff] at h
  obtain ⟨e, he, hk⟩ := List.mem_map.mp h
  apply List.length_filter_lt_length_iff_exists.mpr
  exact ⟨e, he, by simp [hk]⟩

theorem mem_dropLast_of {α} {l : List α} {a : α} (h : a ∈ l.dropLast) : a ∈ l :=
  (List.dropLast_sublist l).subset h

theorem nodup_dropLast {q : List Entry} (h : NodupKeys q) : NodupKeys q.dropLast := by
  unfold NodupKeys at *
  exact List.Nodup.sublist ((List.dropLast_sublist q).map _) h

theorem allSome_remove {q : List Entry} (k) (h : AllSome q) : AllSome (remove q k) := by
  intro e he; unfold remove at he; exact h e (List.mem_filter.mp he).1

theorem allSome_dropLast {q : List Entry} (h : AllSome q) : AllSome q.dropLast :=
  fun e he => h e (mem_dropLast_of he)

theorem absItems_of_allSome {q : List Entry} (h : AllSome q) :
    absItems q = q.map (fun e => (e.key, e.val.getD 0)) := by
  induction q with
  | nil => rfl
  | cons e q ih =>
    have he := h e (List.mem_cons_self)
    have hq : AllSome q := fun x hx => h x (List.mem_cons_of_mem _ hx)
    unfold absItems at *
    cases hv : e.val with
    | none => simp [hv] at he
    | some v => simp [List.filterMap_cons, toPair, hv, ih hq]

theorem absItems_length {q : List Entry} (h : AllSome q) : (absItems q).length = q.length := by
  rw [absItems_of_allSome h]; simp

theorem absItems_remove (q : List Entry) (k : Key) :
    absItems (remove q k) = LRUMap.erase (absItems q) k := by
  unfold absItems remove LRUMap.erase
  induction q with
  | nil => rfl
  | cons e q ih =>
    by_cases hk : e.key = k
    · cases hv : e.val with
      | none => simp [List.filter_cons, hk, toPair, hv, List.filterMap_cons, ih]
      | some v => simp [List.filter_cons, hk, toPair, hv, List.filterMap_cons, ih]
    · cases hv : e.val with
      | none => simp [List.filter_cons, hk, toPair, hv, List.filterMap_cons, ih]
      | some v => simp [List.filter_cons, hk, toPair, hv, List.filterMap_cons, ih]

theorem absItems_dropLast {q : List Entry} (h : AllSome q) :
    absItems q.dropLast = (absItems q).dropLast := by
  rw [absItems_of_allSome h, absItems_of_allSome (allSome_dropLast h)]
  simp [List.map_dropLast]

theorem lookup_abs {q : List Entry} (h : AllSome q) (k : Key) :
    LRUMap.lookup (absItems q) k = (findVal q k).bind id := by
  rw [absItems_of_allSome h]
  unfold LRUMap.lookup findVal
  rw [List.find?_map]
  have hp : ((fun x : Key × ObjId => x.1 == k) ∘ fun e : Entry => (e.key, e.val.getD 0))
      = fun e : Entry => e.key == k := rfl
  rw [hp]
  cases hf : List.find? (fun e : Entry => e.key == k) q with
  | none => rfl
  | some e =>
    have he := h e (List.mem_of_find?_eq_some hf)
    cases hv : e.val with
    | none => simp [hv] at he
    | some v => simp [hv]

theorem findVal_none_iff (q : List Entry) (k : Key) : findVal q k = none ↔ hasKey q k = false := by
  unfold findVal hasKey
  simp only [Option.map_eq_none_iff, List.find?_eq_none, beq_iff_eq, List.any_eq_false]

theorem findVal_some_of_allSome {q : List Entry} (h : AllSome q) {k : Key} {v}
    (hf : findVal q k = some v) : v.isSome = true := by
  unfold findVal at hf
  obtain ⟨e, he, rfl⟩ := Option.map_eq_some_iff.mp hf
  exact h e (List.mem_of_find?_eq_some he)

theorem take_of_length_le {α} (l : List α) (n : Nat) (h : l.length ≤ n) : l.take n = l :=
  List.take_of_length_le h

theorem take_cons_full {α} (a : α) (l : List α) (n : Nat) (hn : 0 < n) (h : l.length = n) :
    (a :: l).take n = a :: l.dropLast := by
  obtain ⟨m, rfl⟩ : ∃ m, n = m + 1 := ⟨n - 1, by omega⟩
  simp only [List.take_succ_cons, List.dropLast_eq_take, h]
  rfl

end Gotlcp.Lemmas.LRU

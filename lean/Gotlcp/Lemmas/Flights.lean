/-
Helper lemmas for C19: the back-off arithmetic and the safety invariant of one endpoint of
`Gotlcp.Model.Flights`, preserved by every step for EVERY input (any datagram content, any time).
-/
import Gotlcp.Model.Flights

namespace Gotlcp.Lemmas.Flights
open Gotlcp.Model.Flights

/-! ### back-off arithmetic -/

theorem backoffValue_step (i m k : Nat) :
    backoffValue ⟨2, true⟩ (Nat.min (i * 2 ^ k) m) m = Nat.min (i * 2 ^ (k + 1)) m := by
  have hp : i * 2 ^ (k + 1) = i * 2 ^ k * 2 := by rw [Nat.pow_succ, Nat.mul_assoc]
  rw [hp]
  generalize i * 2 ^ k = a
  unfold backoffValue
  simp only [Bool.true_and, decide_eq_true_eq]
  have hmin : Nat.min a m = if a ≤ m then a else m := by
    by_cases h : a ≤ m
    · simp [h, Nat.min_def]
    · simp [h, Nat.min_def]
  have hmin2 : Nat.min (a * 2) m = if a * 2 ≤ m then a * 2 else m := by
    by_cases h : a * 2 ≤ m
    · simp [h, Nat.min_def]
    · simp [h, Nat.min_def]
  rw [hmin, hmin2]
  by_cases h1 : a ≤ m
  · simp only [h1, if_true]
    by_cases h2 : a * 2 ≤ m
    · have : ¬ (a * 2 > m) := by omega
      simp [h2, this]
    · have : a * 2 > m := by omega
      simp [h2, this]
  · simp only [h1, if_false]
    have h2 : ¬ (a * 2 ≤ m) := by omega
    simp only [h2, if_false]
    by_cases h3 : m * 2 > m
    · simp [h3]
    · have : m = 0 := by omega
      simp [this]

/-! ### the endpoint invariant -/

/-- what must hold of an endpoint at every moment:
  * `hsState = stateFinished` only after the peer's Finished was verified,
  * application data is handed over only by a completed endpoint,
  * the Finished that was accepted carried this end's own transcript identity, and from then on the
    endpoint is past the handshake (its transcript identity can no longer change). -/
structure Inv (e : Ep) : Prop where
  completeVerified : e.complete = true → e.verified = true
  deliveredComplete : 0 < e.delivered → e.complete = true
  acceptedOwn : e.verified = true → e.peerTag = some e.tag ∧ (e.pc = .app ∨ e.pc = .stop)

/-- a step that leaves the safety-relevant fields alone (the program counter may move freely while the
peer's Finished has not been verified, and may only stop afterwards) -/
theorem Inv.frame {e e' : Ep} (h : Inv e)
    (hc : e'.complete = e.complete) (hv : e'.verified = e.verified) (hd : e'.delivered = e.delivered)
    (ht : e'.peerTag = e.peerTag) (hg : e'.tag = e.tag ∨ e.verified = false)
    (hp : e'.pc = e.pc ∨ e'.pc = .stop ∨ e.verified = false) : Inv e' := by
  refine ⟨?_, ?_, ?_⟩
  · rw [hc, hv]; exact h.completeVerified
  · rw [hd, hc]; exact h.deliveredComplete
  · rw [hv]; intro hvv
    obtain ⟨h1, h2⟩ := h.acceptedOwn hvv
    have hg' : e'.tag = e.tag := by
      rcases hg with hg | hg
      · exact hg
      · rw [hvv] at hg; cases hg
    refine ⟨by rw [ht, hg']; exact h1, ?_⟩
    rcases hp with hp | hp | hp
    · rw [hp]; exact h2
    · exact Or.inr hp
    · rw [hvv] at hp; cases hp

theorem failWith_inv {e : Ep} (a : Bool) (h : Inv e) : Inv (failWith e a).e := by
  unfold failWith
  split
  · exact h.frame rfl rfl rfl rfl (Or.inl rfl) (Or.inr (Or.inl rfl))
  · exact h.frame rfl rfl rfl rfl (Or.inl rfl) (Or.inr (Or.inl rfl))


/-- a field update that does not touch the safety-relevant fields -/
macro "frame_tac" h:ident : tactic =>
  `(tactic| exact Inv.frame $h rfl rfl rfl rfl (Or.inl rfl) (Or.inl rfl))

def PreGood : Pre → Prop
  | .reject _ => True
  | .skip e => Inv e
  | .pass e => Inv e

theorem preRec_inv (p : Params) {e : Ep} (r : Rec) (h : Inv e) : PreGood (preRec p e r) := by
  unfold preRec
  repeat' split
  all_goals first
    | exact True.intro
    | exact h
    | exact Inv.frame h rfl rfl rfl rfl (Or.inl rfl) (Or.inl rfl)

def ActGood : Act → Prop
  | .cont e _ _ => Inv e
  | .ret e _ => Inv e
  | .fail e _ _ => Inv e

theorem handleRec_inv (p : Params) (hp : p.appNeedsComplete = true) {e : Ep} (x : Bool) (out : List Dgram)
    (r : Rec) (last : Bool) (h : Inv e) : ActGood (handleRec p e x out r last) := by
  unfold handleRec
  repeat' split
  all_goals first
    | exact h
    | exact Inv.frame h rfl rfl rfl rfl (Or.inl rfl) (Or.inl rfl)
    | skip
  all_goals
    rename_i hc _
    have hcomp : e.complete = true := by
      simp only [hp, Bool.true_and, Bool.or_eq_true, Bool.not_eq_true', not_or, Bool.not_eq_false] at hc
      exact hc.1
    exact ⟨fun _ => h.completeVerified hcomp, fun _ => hcomp, h.acceptedOwn⟩

theorem readRecs_inv (p : Params) (hp : p.appNeedsComplete = true) (now : Nat) :
    ∀ (recs : List Rec) (e : Ep) (x : Bool) (out : List Dgram), Inv e → Inv (readRecs p now e x out recs).e := by
  intro recs
  induction recs with
  | nil => intro e x out h; unfold readRecs; frame_tac h
  | cons r rest ih =>
    intro e x out h
    unfold readRecs
    have h1 := preRec_inv p r h
    split
    · exact failWith_inv _ h
    · rename_i e1 heq
      rw [heq] at h1
      exact ih _ _ _ h1
    · rename_i e1 heq
      rw [heq] at h1
      have h2 := handleRec_inv p hp x out r rest.isEmpty h1
      split
      · rename_i heq2; rw [heq2] at h2; exact ih _ _ _ h2
      · rename_i heq2; rw [heq2] at h2
        exact Inv.frame h2 rfl rfl rfl rfl (Or.inl rfl) (Or.inl rfl)
      · rename_i heq2; rw [heq2] at h2; exact failWith_inv _ h2


/-- before the peer's Finished is verified every field but the three counters of the invariant may change -/
theorem Inv.frameU {e e' : Ep} (h : Inv e) (hv : e.verified = false)
    (hc : e'.complete = e.complete) (hv' : e'.verified = e.verified) (hd : e'.delivered = e.delivered)
    (ht : e'.peerTag = e.peerTag) : Inv e' :=
  h.frame hc hv' hd ht (Or.inr hv) (Or.inr (Or.inr hv))

theorem Inv.verified_pc {e : Ep} (h : Inv e) (hv : e.verified = true) : e.pc = .app ∨ e.pc = .stop :=
  (h.acceptedOwn hv).2

theorem Inv.unverified {e : Ep} (h : Inv e) (h1 : e.pc ≠ .app) (h2 : e.pc ≠ .stop) : e.verified = false := by
  cases hv : e.verified with
  | false => rfl
  | true => rcases h.verified_pc hv with hp | hp <;> contradiction

theorem sendHello_inv (now : Nat) {e : Ep} (h : Inv e) (hv : e.verified = false) : Inv (sendHello now e).e :=
  h.frameU hv rfl rfl rfl rfl

theorem serverLoopHead_inv (p : Params) (now : Nat) {e : Ep} (h : Inv e) : Inv (serverLoopHead p now e).e := by
  unfold serverLoopHead
  split <;> exact h.frame rfl rfl rfl rfl (Or.inl rfl) (Or.inl rfl)

theorem serverOnHello_inv (p : Params) (now : Nat) {e : Ep} (seq : Nat) (cookie : Bool) (h : Inv e)
    (hv : e.verified = false) : Inv (serverOnHello p now e seq cookie).e := by
  unfold serverOnHello
  repeat' split
  all_goals first
    | exact h.frameU hv rfl rfl rfl rfl
    | (apply serverLoopHead_inv; exact h.frameU hv rfl rfl rfl rfl)

/-- the only place where `complete` is set: right after the peer's Finished matched the own transcript -/
theorem completeHs_inv (now : Nat) {e : Ep} (hd : 0 < e.delivered → e.complete = true)
    (hv : e.verified = true) (ht : e.peerTag = some e.tag) : Inv (completeHs now e).e :=
  ⟨fun _ => hv, fun _ => rfl, fun _ => ⟨ht, Or.inl rfl⟩⟩

theorem clientFlight5_inv (p : Params) (now : Nat) {e : Ep} (h : Inv e) (hv : e.verified = false) :
    Inv (clientFlight5 p now e).e := h.frameU hv rfl rfl rfl rfl

theorem clientOnServerHello_inv (p : Params) (now : Nat) {e : Ep} (r : Bool) (h : Inv e) (hv : e.verified = false) :
    Inv (clientOnServerHello p now e r).e := by
  unfold clientOnServerHello
  split <;> exact h.frameU hv rfl rfl rfl rfl

theorem clientOnHelloVerify_inv (p : Params) (now : Nat) {e : Ep} (h : Inv e) (hv : e.verified = false) :
    Inv (clientOnHelloVerify p now e).e := by
  unfold clientOnHelloVerify
  repeat' split
  all_goals first
    | exact sendHello_inv _ h hv
    | exact sendHello_inv _ (h.frameU hv rfl rfl rfl rfl) hv
    | exact h.frameU hv rfl rfl rfl rfl

theorem serverOnFlight5_inv (p : Params) (now : Nat) {e : Ep} (sig : Option Nat) (h : Inv e)
    (hv : e.verified = false) : Inv (serverOnFlight5 p now e sig).e := by
  unfold serverOnFlight5
  dsimp only
  split
  · exact failWith_inv _ (h.frameU hv rfl rfl rfl rfl)
  · exact serverLoopHead_inv _ _ (h.frameU hv rfl rfl rfl rfl)

theorem serverOnRetransmittedHello_inv (p : Params) (now : Nat) {e : Ep} (h : Inv e) :
    Inv (serverOnRetransmittedHello p now e).e := by
  unfold serverOnRetransmittedHello
  exact serverLoopHead_inv _ _ (h.frame rfl rfl rfl rfl (Or.inl rfl) (Or.inl rfl))

theorem clientAccept_inv (now : Nat) {e : Ep} (t : Nat) (h : Inv e) (ht : (t == e.tag) = true) :
    Inv (clientAccept now e t).e := by
  have ht' : t = e.tag := by simpa using ht
  unfold clientAccept
  dsimp only
  split
  · exact completeHs_inv now (fun hd => h.deliveredComplete hd) rfl (by subst ht'; rfl)
  · exact completeHs_inv now (fun hd => h.deliveredComplete hd) rfl (by subst ht'; rfl)

theorem serverAccept_inv (now : Nat) {e : Ep} (t : Nat) (h : Inv e) (ht : (t == e.tag) = true) :
    Inv (serverAccept now e t).e := by
  have ht' : t = e.tag := by simpa using ht
  unfold serverAccept
  dsimp only
  split
  · exact completeHs_inv now (fun hd => h.deliveredComplete hd) rfl (by subst ht'; rfl)
  · exact completeHs_inv now (fun hd => h.deliveredComplete hd) rfl (by subst ht'; rfl)

theorem onMsg_inv (p : Params) (now : Nat) {e : Ep} (m : Msg) (h : Inv e) : Inv (onMsg p now e m).e := by
  cases hv : e.verified with
  | true =>
    have : onMsg p now e m = failWith e false := by
      rcases h.verified_pc hv with hp | hp <;> (unfold onMsg; rw [hp])
    rw [this]; exact failWith_inv _ h
  | false =>
    unfold onMsg
    split
    all_goals first
      | exact failWith_inv _ h
      | (unfold onMsgCHello; split
         · exact clientOnHelloVerify_inv _ _ h hv
         · exact clientOnServerHello_inv _ _ _ h hv
         · exact failWith_inv _ h)
      | (unfold onMsgCFlight4; split
         · exact clientFlight5_inv _ _ h hv
         · exact failWith_inv _ h)
      | (unfold onMsgCFinMsg; split
         · split
           · apply clientAccept_inv _ _ h; assumption
           · exact failWith_inv _ h
         · exact failWith_inv _ h)
      | (unfold onMsgSHello; split
         · exact serverOnHello_inv _ _ _ _ h hv
         · exact failWith_inv _ (h.frameU hv rfl rfl rfl rfl))
      | (unfold onMsgSFlight5; split
         · exact serverOnRetransmittedHello_inv _ _ h
         · exact serverOnFlight5_inv _ _ _ h hv
         · exact failWith_inv _ (h.frameU hv rfl rfl rfl rfl))
      | (unfold onMsgSFinMsg; split
         · split
           · apply serverAccept_inv _ _ h; assumption
           · exact failWith_inv _ h
         · exact failWith_inv _ h)

theorem onCCS_inv {e : Ep} (h : Inv e) : Inv (onCCS e) := by
  cases hv : e.verified with
  | true =>
    have : onCCS e = e := by
      rcases h.verified_pc hv with hp | hp <;> (unfold onCCS; rw [hp])
    rw [this]; exact h
  | false =>
    unfold onCCS
    split
    all_goals first
      | exact h
      | exact h.frameU hv rfl rfl rfl rfl

theorem onTimeoutAt_inv (p : Params) (now : Nat) {e : Ep} (h : Inv e) : Inv (onTimeoutAt p now e).e := by
  cases hv : e.verified with
  | true =>
    have : (onTimeoutAt p now e).e = e := by
      rcases h.verified_pc hv with hp | hp <;> (unfold onTimeoutAt; rw [hp])
    rw [this]; exact h
  | false =>
    unfold onTimeoutAt
    split
    all_goals first
      | exact h
      | exact sendHello_inv _ (h.frameU hv rfl rfl rfl rfl) hv
      | exact h.frameU hv rfl rfl rfl rfl
      | exact serverLoopHead_inv _ _ h

theorem onTimeout_inv (p : Params) (now : Nat) {e : Ep} (h : Inv e) : Inv (onTimeout p now e).e :=
  onTimeoutAt_inv p now (h.frame rfl rfl rfl rfl (Or.inl rfl) (Or.inl rfl))

theorem afterRead_inv (p : Params) (now : Nat) {res : RRes} (h : Inv res.e) : Inv (afterRead p now res).1.e := by
  unfold afterRead
  repeat' split
  all_goals first
    | exact h
    | exact onCCS_inv h
    | exact onTimeout_inv _ _ h

theorem readStep_inv (p : Params) (hp : p.appNeedsComplete = true) (now : Nat) {e : Ep} (out : List Dgram)
    (h : Inv e) : Inv (readStep p now e out).1.e := by
  unfold readStep
  exact afterRead_inv p now (readRecs_inv p hp now _ _ _ _ (h.frame rfl rfl rfl rfl (Or.inl rfl) (Or.inl rfl)))

theorem stepEp_inv (p : Params) (hp : p.appNeedsComplete = true) (now : Nat) {e : Ep} (out : List Dgram)
    (h : Inv e) : Inv (stepEp p now e out).1.e := by
  unfold stepEp
  repeat' split
  all_goals first
    | exact h
    | exact readStep_inv p hp now out h
    | exact onMsg_inv _ _ _ (h.frame rfl rfl rfl rfl (Or.inl rfl) (Or.inl rfl))
    | exact failWith_inv _ h
    | exact onCCS_inv (h.frame rfl rfl rfl rfl (Or.inl rfl) (Or.inl rfl))
    | exact h.frame rfl rfl rfl rfl (Or.inl rfl) (Or.inr (Or.inl rfl))

theorem advance_inv (p : Params) (hp : p.appNeedsComplete = true) (now : Nat) :
    ∀ (fuel : Nat) (e : Ep) (out : List Dgram), Inv e → Inv (advance p now fuel e out).e := by
  intro fuel
  induction fuel with
  | zero => intro e out h; exact h
  | succ n ih =>
    intro e out h
    unfold advance
    have h1 := stepEp_inv p hp now out h
    dsimp only
    split
    · exact ih _ _ h1
    · exact h1

theorem onDatagram_inv (p : Params) (hp : p.appNeedsComplete = true) (now : Nat) {e : Ep} (d : Dgram)
    (h : Inv e) : Inv (onDatagram p now e d).e :=
  advance_inv p hp now _ _ _ (h.frame rfl rfl rfl rfl (Or.inl rfl) (Or.inl rfl))

theorem onDeadline_inv (p : Params) (hp : p.appNeedsComplete = true) (now : Nat) {e : Ep}
    (h : Inv e) : Inv (onDeadline p now e).e :=
  advance_inv p hp now _ _ _ (onTimeout_inv p now h)

end Gotlcp.Lemmas.Flights

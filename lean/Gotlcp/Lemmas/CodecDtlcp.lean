/-
Lemmas for C14, dtlcp side: the complete-message guardD (repair F18a), `dtlcpUnmarshalHeader`
on complete messages, and per message the same four facts as in `Lemmas/Codec.lean`.
-/
import Gotlcp.Lemmas.Codec
import Gotlcp.Model.CodecDtlcp

set_option linter.unusedSimpArgs false
set_option linter.unusedVariables false

namespace Gotlcp.Lemmas.CodecDtlcp
open Gotlcp Gotlcp.Wire Gotlcp.Wire.Msg Gotlcp.Model.CodecDtlcp
open Gotlcp.Model.Codec hiding encFinished decFinished encServerHelloDone decServerHelloDone encCertificateVerify
  decCertificateVerify encKeyMsg decServerKeyExchange decClientKeyExchange encCertificate decCertificate
  encCertificateRequest decCertificateRequest encClientHello decClientHello encServerHello decServerHello
open Gotlcp.Lemmas.Codec
open Gotlcp.Spec.Codec (Stack Kind)

/-- the header of a complete message: fragment_offset 0, fragment_length = length -/
def chdr (t : UInt8) (n : Nat) (seq : W16) : Bytes :=
  [t, u8 (n / 65536), u8 (n / 256), u8 n, seq.1, seq.2, 0, 0, 0, u8 (n / 65536), u8 (n / 256), u8 n]

theorem chdr_length (t : UInt8) (n : Nat) (seq : W16) : (chdr t n seq).length = 12 := rfl

theorem writeHeader_complete (t n : Nat) (seq : W16) : writeHeader t n seq 0 n = chdr (u8 t) n seq := by
  simp [writeHeader, be24, W16.bytes, chdr]
  decide

/-- a message object describing a complete message writes the complete header -/
theorem header_complete (t n : Nat) (h : DHdr) (hw : Spec.Codec.wfDHdr h n = true) :
    header t n h = chdr (u8 t) n h.seq := by
  simp only [Spec.Codec.wfDHdr, Bool.and_eq_true, beq_iff_eq, Bool.or_eq_true, decide_eq_true_eq] at hw
  obtain ⟨⟨ho, hf⟩, _⟩ := hw
  unfold header
  rw [ho]
  rcases hf with hf | hf
  · rw [hf]; simp only [↓reduceIte]; exact writeHeader_complete t n h.seq
  · rw [hf]
    split
    · rename_i h0; rw [h0]; exact writeHeader_complete t 0 h.seq
    · exact writeHeader_complete t n h.seq

theorem splitHeader_dtlcp (t : UInt8) (n : Nat) (seq : W16) (body : Bytes) (hl : n < 16777216) :
    Spec.Codec.splitHeader .dtlcp (chdr t n seq ++ body) = some (⟨t, n, ⟨seq, 0, n⟩⟩, body) := by
  simp only [chdr, List.cons_append, List.nil_append, Spec.Codec.splitHeader, nat24_be24 hl]
  rfl

theorem framed_dtlcp_mk (t : UInt8) (seq : W16) {body : Bytes} (hl : body.length < 16777216) :
    Spec.Codec.framed .dtlcp (chdr t body.length seq ++ body) = true := by
  simp [Spec.Codec.framed, splitHeader_dtlcp _ _ _ _ hl, Spec.Codec.headerOk]

theorem shape_dtlcp_mk (k : Kind) (t : UInt8) (seq : W16) {body : Bytes} (hl : body.length < 16777216)
    (hb : Spec.Codec.bodyShape .dtlcp k body = true) :
    Spec.Codec.shape .dtlcp k (chdr t body.length seq ++ body) = true := by
  simp [Spec.Codec.shape, splitHeader_dtlcp _ _ _ _ hl, Spec.Codec.headerOk, hb]

theorem strictHeader_dtlcp_mk (k : Kind) (seq : W16) {body : Bytes} (hl : body.length < 16777216) :
    Spec.Codec.strictHeader .dtlcp k (chdr (u8 k.code) body.length seq ++ body) =
      some (⟨seq, 0, body.length⟩, body) := by
  simp [Spec.Codec.strictHeader, splitHeader_dtlcp _ _ _ _ hl, Spec.Codec.headerOk, u8_code_toNat]

theorem strictHeader_dtlcp_eq {k : Kind} {b body : Bytes} {h : DHdr}
    (hs : Spec.Codec.strictHeader .dtlcp k b = some (h, body)) :
    b = chdr (u8 k.code) body.length h.seq ++ body ∧ body.length < 16777216 ∧ h = ⟨h.seq, 0, body.length⟩ := by
  unfold Spec.Codec.strictHeader at hs
  match b, hs with
  | t :: a :: b' :: c :: s1 :: s2 :: o1 :: o2 :: o3 :: l1 :: l2 :: l3 :: rest, hs =>
    simp only [Spec.Codec.splitHeader] at hs
    split at hs
    · rename_i hc
      simp only [Option.some.injEq, Prod.mk.injEq] at hs
      obtain ⟨h1, h2⟩ := hs
      subst h1; subst h2
      obtain ⟨hty, hok⟩ := hc
      simp only [Spec.Codec.headerOk, Bool.and_eq_true, beq_iff_eq] at hok
      obtain ⟨hlen, hfo, hfl⟩ := hok
      have hty' : t = u8 k.code := by apply UInt8.toNat_inj.mp; rw [hty, u8_code_toNat]
      have hlt : rest.length < 16777216 := by rw [← hlen]; exact nat24_lt _ _ _
      have ho : o1 = 0 ∧ o2 = 0 ∧ o3 = 0 := by
        have h1 := toNat_lt o1; have h2 := toNat_lt o2; have h3 := toNat_lt o3
        simp only [nat24] at hfo
        refine ⟨?_, ?_, ?_⟩ <;> (apply UInt8.toNat_inj.mp; simp; omega)
      obtain ⟨ho1, ho2, ho3⟩ := ho
      subst ho1; subst ho2; subst ho3
      have e1 : [a, b', c] = be24 rest.length := by rw [← hlen, be24_nat24]
      have e2 : [l1, l2, l3] = be24 rest.length := by rw [← hlen, ← hfl, be24_nat24]
      simp only [be24, List.cons.injEq, and_true] at e1 e2
      refine ⟨?_, hlt, ?_⟩
      · simp only [chdr, List.cons_append, List.nil_append, hty', e1.1, e1.2.1, e1.2.2, e2.1, e2.2.1, e2.2.2]
      · simp only [hfo, hfl, hlen]
    · cases hs
  | [], hs => simp [Spec.Codec.splitHeader] at hs
  | [_], hs => simp [Spec.Codec.splitHeader] at hs
  | [_, _], hs => simp [Spec.Codec.splitHeader] at hs
  | [_, _, _], hs => simp [Spec.Codec.splitHeader] at hs
  | [_, _, _, _], hs => simp [Spec.Codec.splitHeader] at hs
  | [_, _, _, _, _], hs => simp [Spec.Codec.splitHeader] at hs
  | [_, _, _, _, _, _], hs => simp [Spec.Codec.splitHeader] at hs
  | [_, _, _, _, _, _, _], hs => simp [Spec.Codec.splitHeader] at hs
  | [_, _, _, _, _, _, _, _], hs => simp [Spec.Codec.splitHeader] at hs
  | [_, _, _, _, _, _, _, _, _], hs => simp [Spec.Codec.splitHeader] at hs
  | [_, _, _, _, _, _, _, _, _, _], hs => simp [Spec.Codec.splitHeader] at hs
  | [_, _, _, _, _, _, _, _, _, _, _], hs => simp [Spec.Codec.splitHeader] at hs

/-! ### the guardD -/

theorem data12 {d : Bytes} (h : ¬ d.length < 12) :
    ∃ t a b c s1 s2 o1 o2 o3 l1 l2 l3 r, d = t :: a :: b :: c :: s1 :: s2 :: o1 :: o2 :: o3 :: l1 :: l2 :: l3 :: r := by
  match d, h with
  | t :: a :: b :: c :: s1 :: s2 :: o1 :: o2 :: o3 :: l1 :: l2 :: l3 :: r, _ => exact ⟨t, a, b, c, s1, s2, o1, o2, o3, l1, l2, l3, r, rfl⟩
  | [], h => simp at h
  | [_], h => simp at h
  | [_, _], h => simp at h
  | [_, _, _], h => simp at h
  | [_, _, _, _], h => simp at h
  | [_, _, _, _, _], h => simp at h
  | [_, _, _, _, _, _], h => simp at h
  | [_, _, _, _, _, _, _], h => simp at h
  | [_, _, _, _, _, _, _, _], h => simp at h
  | [_, _, _, _, _, _, _, _, _], h => simp at h
  | [_, _, _, _, _, _, _, _, _, _], h => simp at h
  | [_, _, _, _, _, _, _, _, _, _, _], h => simp at h

theorem isComplete_ne_panic (data : Bytes) (t : Nat) : isCompleteMessage 12 data t ≠ .panic := by
  unfold isCompleteMessage
  split
  · simp
  · rename_i h
    obtain ⟨t', a, b, c, s1, s2, o1, o2, o3, l1, l2, l3, r, hd⟩ := data12 h
    subst hd
    simp only [idx, List.getElem?_cons_zero, bind_ok, idx24, List.getElem?_cons_succ]
    split <;> simp

theorem isComplete_mk (t : Nat) (seq : W16) {body : Bytes} (hl : body.length < 16777216) :
    isCompleteMessage 12 (chdr (u8 t) body.length seq ++ body) t = .ok true := by
  have h0 : nat24 0 0 0 = 0 := rfl
  simp [isCompleteMessage, chdr, idx, idx24, nat24_be24 hl, h0]

theorem isComplete_true {data : Bytes} {t : Nat} (h : isCompleteMessage 12 data t = .ok true) :
    ∃ seq body, data = chdr (u8 t) body.length seq ++ body ∧ body.length < 16777216 := by
  unfold isCompleteMessage at h
  split at h
  · simp at h
  · rename_i hl
    obtain ⟨t', a, b, c, s1, s2, o1, o2, o3, l1, l2, l3, r, hd⟩ := data12 hl
    subst hd
    simp only [idx, List.getElem?_cons_zero, bind_ok, idx24, List.getElem?_cons_succ] at h
    split at h
    · simp at h
    · rename_i hty
      simp only [ne_eq, Decidable.not_not] at hty
      simp only [List.length_cons, Outcome.ok.injEq, decide_eq_true_eq] at h
      obtain ⟨hfo, hfl, hlen⟩ := h
      have hn : nat24 a b c = r.length := by omega
      have hlt : r.length < 16777216 := by rw [← hn]; exact nat24_lt _ _ _
      have ho : o1 = 0 ∧ o2 = 0 ∧ o3 = 0 := by
        have h1 := toNat_lt o1; have h2 := toNat_lt o2; have h3 := toNat_lt o3
        simp only [nat24] at hfo
        refine ⟨?_, ?_, ?_⟩ <;> (apply UInt8.toNat_inj.mp; simp; omega)
      obtain ⟨ho1, ho2, ho3⟩ := ho
      subst ho1; subst ho2; subst ho3
      have e1 : [a, b, c] = be24 r.length := by rw [← hn, be24_nat24]
      have e2 : [l1, l2, l3] = be24 r.length := by rw [← hn, ← hfl, be24_nat24]
      simp only [be24, List.cons.injEq, and_true] at e1 e2
      refine ⟨(s1, s2), r, ?_, hlt⟩
      simp only [chdr, List.cons_append, List.nil_append, hty, e1.1, e1.2.1, e1.2.2, e2.1, e2.2.1, e2.2.2]

theorem guard_pass {α : Type} (c : Codes) (hhl : c.hl = 12) (t : Nat) (seq : W16) {body : Bytes}
    (hl : body.length < 16777216) (k : Outcome α) :
    guardD c t (chdr (u8 t) body.length seq ++ body) k = k := by
  unfold guardD guardWith
  split
  · rw [hhl, isComplete_mk t seq hl]
  · rfl

theorem guard_ok {α : Type} {c : Codes} (hhl : c.hl = 12) {t : Nat} {data : Bytes} {k : Outcome α} {m : α}
    (hon : c.complete.contains t = true) (h : guardD c t data k = .ok m) :
    k = .ok m ∧ ∃ seq body, data = chdr (u8 t) body.length seq ++ body ∧ body.length < 16777216 := by
  unfold guardD guardWith at h
  rw [hon, hhl] at h
  simp only [↓reduceIte] at h
  split at h
  · rename_i hc
    exact ⟨h, isComplete_true hc⟩
  · cases h
  · cases h
  · cases h

theorem guard_ne_panic {α : Type} (c : Codes) (hhl : c.hl = 12) (t : Nat) (data : Bytes) {k : Outcome α}
    (hk : k ≠ .panic) : guardD c t data k ≠ .panic := by
  unfold guardD guardWith
  split
  · split
    · exact hk
    · simp
    · simp
    · rename_i hc; rw [hhl] at hc; exact absurd hc (isComplete_ne_panic _ _)
  · exact hk

theorem guard_of_strictHeader {α : Type} (c : Codes) (hhl : c.hl = 12) {k : Kind} {t : Nat} (ht : t = k.code)
    {b : Bytes} {hd : DHdr} {body : Bytes} (hsh : Spec.Codec.strictHeader .dtlcp k b = some (hd, body))
    (K : Outcome α) : guardD c t b K = K := by
  obtain ⟨hb, hl, _⟩ := strictHeader_dtlcp_eq hsh
  subst ht
  rw [hb]
  exact guard_pass c hhl _ _ hl K

/-! ### dtlcpUnmarshalHeader and the hand-indexed header reads on a complete message -/

theorem unmarshalHeader_complete (t : UInt8) (seq : W16) {body : Bytes} (hl : body.length < 16777216) :
    unmarshalHeader (chdr t body.length seq ++ body) = some (t, body.length, ⟨seq, 0, body.length⟩, body) := by
  simp only [unmarshalHeader, chdr, List.cons_append, List.nil_append, readU8, readU24, readW16, nat24_be24 hl]
  have h0 : nat24 0 0 0 = 0 := rfl
  rw [h0]
  split
  · simp
  · rename_i hz
    have : body = [] := List.eq_nil_of_length_eq_zero (by omega)
    subst this; rfl

theorem hdrFields_complete (t : UInt8) (seq : W16) {body : Bytes} (hl : body.length < 16777216) :
    hdrFields (chdr t body.length seq ++ body) = .ok ⟨seq, 0, body.length⟩ := by
  have h0 : nat24 0 0 0 = 0 := rfl
  simp [hdrFields, chdr, idxW16, idx, idx24, nat24_be24 hl, h0]

theorem hdrFields_ne_panic {data : Bytes} (h : ¬ data.length < 12) : ∃ hd, hdrFields data = .ok hd := by
  obtain ⟨t', a, b, c, s1, s2, o1, o2, o3, l1, l2, l3, r, hd⟩ := data12 h
  subst hd
  exact ⟨_, by simp [hdrFields, idxW16, idx, idx24]; rfl⟩

/-- hypotheses every dtlcp statement needs about the constants: header length 12 and the guard
in place for type code `t` -/
structure Ready (c : Codes) (t : Nat) : Prop where
  hl : c.hl = 12
  on : c.complete.contains t = true

/-! ### Finished -/

theorem rt_finished (c : Codes) (r : Ready c c.tFinished) (h : DHdr) (m : Blob)
    (hw : Spec.Codec.wfDHdr h m.data.length = true) (hmax : m.data.length ≤ c.maxHandshake) :
    encFinished c h m = some (chdr (u8 c.tFinished) m.data.length h.seq ++ m.data) ∧
    decFinished c (chdr (u8 c.tFinished) m.data.length h.seq ++ m.data) = .ok (⟨h.seq, 0, m.data.length⟩, m) := by
  have hl : m.data.length < 16777216 := by
    simp only [Spec.Codec.wfDHdr, Bool.and_eq_true, decide_eq_true_eq] at hw; exact hw.2
  refine ⟨by simp only [encFinished, header_complete _ _ _ hw], ?_⟩
  unfold decFinished
  rw [guard_pass c r.hl _ _ hl, unmarshalHeader_complete _ _ hl]
  have : ¬ m.data.length > c.maxHandshake := by omega
  simp [this, padTo]

theorem total_finished (c : Codes) (r : Ready c c.tFinished) (b : Bytes) : decFinished c b ≠ .panic := by
  unfold decFinished
  apply guard_ne_panic c r.hl
  split
  · simp
  · split
    · simp
    · split <;> simp

theorem strict_finished (c : Codes) (r : Ready c c.tFinished) {b : Bytes} {x : DHdr × Blob}
    (h : decFinished c b = .ok x) : Spec.Codec.shape .dtlcp .finished b = true := by
  obtain ⟨_, seq, body, hb, hl⟩ := guard_ok r.hl r.on h
  subst hb
  exact shape_dtlcp_mk _ _ _ hl rfl

theorem canon_finished (c : Codes) (r : Ready c c.tFinished) (ht : c.tFinished = 20) (hmax : 12 ≤ c.maxHandshake)
    {b : Bytes} {h : DHdr} {m : Blob} (hs : Spec.Codec.strictBlob .dtlcp .finished b = some (h, m)) :
    encFinished c h m = some b ∧ decFinished c b = .ok (h, m) ∧ Spec.Codec.wfBlob .finished m = true ∧
      Spec.Codec.wfDHdr h m.data.length = true := by
  unfold Spec.Codec.strictBlob at hs
  cases hsh : Spec.Codec.strictHeader .dtlcp .finished b with
  | none => rw [hsh] at hs; cases hs
  | some p =>
    obtain ⟨hd, body⟩ := p
    rw [hsh] at hs
    simp only at hs
    split at hs
    · rename_i hlen
      simp only [Option.some.injEq, Prod.mk.injEq] at hs
      obtain ⟨h1, hm⟩ := hs
      subst hm; subst h1
      obtain ⟨hb, hl, hh⟩ := strictHeader_dtlcp_eq hsh
      have hk : Kind.finished.code = c.tFinished := by rw [ht]; rfl
      rw [hk] at hb
      have hw : Spec.Codec.wfDHdr hd body.length = true := by
        rw [hh]; simp [Spec.Codec.wfDHdr, hl]
      obtain ⟨e1, e2⟩ := rt_finished c r hd ⟨body⟩ hw (by simp only; omega)
      rw [hb]
      refine ⟨e1, ?_, by simp [Spec.Codec.wfBlob, hlen], hw⟩
      rw [e2]; congr 2; exact hh.symm
    · cases hs

theorem complete_finished (c : Codes) (ht : c.tFinished = 20) (seq : W16) (m : Blob)
    (hw : Spec.Codec.wfBlob .finished m = true) :
    Spec.Codec.strictBlob .dtlcp .finished (chdr (u8 c.tFinished) m.data.length seq ++ m.data) =
      some (⟨seq, 0, m.data.length⟩, m) := by
  have hlen : m.data.length = 12 := by simpa [Spec.Codec.wfBlob] using hw
  have hlt : m.data.length < 16777216 := by omega
  have hk : c.tFinished = Kind.finished.code := by rw [ht]; rfl
  unfold Spec.Codec.strictBlob
  rw [hk, strictHeader_dtlcp_mk _ _ hlt]
  simp [hlen]

/-! ### ServerHelloDone -/

theorem encServerHelloDone_eq (c : Codes) (h : DHdr) :
    encServerHelloDone c h = some (chdr (u8 c.tServerHelloDone) 0 h.seq ++ []) := by
  simp [encServerHelloDone, chdr, W16.bytes, u8]

theorem rt_serverHelloDone (c : Codes) (r : Ready c c.tServerHelloDone) (h : DHdr) :
    decServerHelloDone c (chdr (u8 c.tServerHelloDone) 0 h.seq ++ []) = .ok (⟨h.seq, 0, 0⟩, ()) := by
  unfold decServerHelloDone
  have hg := guard_pass c r.hl c.tServerHelloDone h.seq (body := []) (by simp)
    (if (chdr (u8 c.tServerHelloDone) 0 h.seq ++ []).length < c.hl then Outcome.reject else do
      let hd ← hdrFields (chdr (u8 c.tServerHelloDone) 0 h.seq ++ [])
      let bodyLen ← idx24 (chdr (u8 c.tServerHelloDone) 0 h.seq ++ []) 1
      let t ← idx (chdr (u8 c.tServerHelloDone) 0 h.seq ++ []) 0
      if bodyLen = 0 ∧ t = u8 c.tServerHelloDone then Outcome.ok (hd, ()) else Outcome.reject)
  simp only [List.length_nil] at hg
  rw [hg]
  have hf := hdrFields_complete (u8 c.tServerHelloDone) h.seq (body := []) (by simp)
  simp only [List.length_nil] at hf
  rw [hf, r.hl]
  simp [chdr, idx24, idx]
  rfl

theorem total_serverHelloDone (c : Codes) (r : Ready c c.tServerHelloDone) (b : Bytes) :
    decServerHelloDone c b ≠ .panic := by
  unfold decServerHelloDone
  apply guard_ne_panic c r.hl
  rw [r.hl]
  split
  · simp
  · rename_i h
    obtain ⟨hd, hhd⟩ := hdrFields_ne_panic h
    rw [hhd, idx24_eq (by omega), idx_eq (by omega)]
    simp only [bind_ok]
    split <;> simp

theorem strict_serverHelloDone (c : Codes) (r : Ready c c.tServerHelloDone) {b : Bytes} {x : DHdr × Unit}
    (h : decServerHelloDone c b = .ok x) : Spec.Codec.shape .dtlcp .serverHelloDone b = true := by
  obtain ⟨hk, seq, body, hb, hl⟩ := guard_ok r.hl r.on h
  subst hb
  apply shape_dtlcp_mk _ _ _ hl
  rw [r.hl] at hk
  split at hk
  · cases hk
  · rw [hdrFields_complete _ _ hl] at hk
    simp only [bind_ok, chdr, List.cons_append, List.nil_append, idx24, idx, List.getElem?_cons_succ,
      List.getElem?_cons_zero, nat24_be24 hl] at hk
    split at hk
    · rename_i h0
      have : body = [] := List.eq_nil_of_length_eq_zero h0.1
      subst this; rfl
    · cases hk

theorem canon_serverHelloDone (c : Codes) (r : Ready c c.tServerHelloDone) (ht : c.tServerHelloDone = 14)
    {b : Bytes} {h : DHdr} (hs : Spec.Codec.strictServerHelloDone .dtlcp b = some (h, ())) :
    encServerHelloDone c h = some b ∧ decServerHelloDone c b = .ok (h, ()) ∧ Spec.Codec.wfDHdr h 0 = true := by
  unfold Spec.Codec.strictServerHelloDone at hs
  cases hsh : Spec.Codec.strictHeader .dtlcp .serverHelloDone b with
  | none => rw [hsh] at hs; simp at hs
  | some p =>
    obtain ⟨hd, body⟩ := p
    rw [hsh] at hs
    cases body with
    | cons x xs => simp at hs
    | nil =>
      simp only [Option.some.injEq, Prod.mk.injEq, and_true] at hs
      subst hs
      obtain ⟨hb, hl, hh⟩ := strictHeader_dtlcp_eq hsh
      have hk : Kind.serverHelloDone.code = c.tServerHelloDone := by rw [ht]; rfl
      rw [hk] at hb
      simp only [List.length_nil] at hb hh
      refine ⟨by rw [hb]; exact encServerHelloDone_eq c hd, ?_, by rw [hh]; rfl⟩
      rw [hb, rt_serverHelloDone c r hd]
      congr 2; exact hh.symm

theorem complete_serverHelloDone (c : Codes) (ht : c.tServerHelloDone = 14) (seq : W16) :
    Spec.Codec.strictServerHelloDone .dtlcp (chdr (u8 c.tServerHelloDone) 0 seq ++ []) = some (⟨seq, 0, 0⟩, ()) := by
  have hk : c.tServerHelloDone = Kind.serverHelloDone.code := by rw [ht]; rfl
  have := strictHeader_dtlcp_mk .serverHelloDone seq (body := []) (by simp)
  simp only [List.length_nil] at this
  unfold Spec.Codec.strictServerHelloDone
  rw [hk, this]

/-! ### key exchanges (opaque bodies) -/

theorem wfDHdr_lt {h : DHdr} {n : Nat} (hw : Spec.Codec.wfDHdr h n = true) : n < 16777216 := by
  simp only [Spec.Codec.wfDHdr, Bool.and_eq_true, decide_eq_true_eq] at hw; exact hw.2

theorem wfDHdr_of_strict {h : DHdr} {n : Nat} (hh : h = ⟨h.seq, 0, n⟩) (hl : n < 16777216) :
    Spec.Codec.wfDHdr h n = true := by
  rw [hh]; simp [Spec.Codec.wfDHdr, hl]

theorem rt_serverKeyExchange (c : Codes) (r : Ready c c.tServerKeyExchange) (h : DHdr) (m : Blob)
    (hw : Spec.Codec.wfDHdr h m.data.length = true) :
    encKeyMsg c.tServerKeyExchange h m = some (chdr (u8 c.tServerKeyExchange) m.data.length h.seq ++ m.data) ∧
    decServerKeyExchange c (chdr (u8 c.tServerKeyExchange) m.data.length h.seq ++ m.data) =
      .ok (⟨h.seq, 0, m.data.length⟩, m) := by
  have hl := wfDHdr_lt hw
  refine ⟨by simp only [encKeyMsg, header_complete _ _ _ hw], ?_⟩
  unfold decServerKeyExchange
  rw [guard_pass c r.hl _ _ hl, hdrFields_complete _ _ hl, r.hl]
  have hs := sliceFrom_append_right (chdr (u8 c.tServerKeyExchange) m.data.length h.seq) m.data 0 (by omega)
  simp only [chdr_length, Nat.add_zero, List.drop_zero] at hs
  simp [hs, chdr_length]

theorem rt_clientKeyExchange (c : Codes) (r : Ready c c.tClientKeyExchange) (h : DHdr) (m : Blob)
    (hw : Spec.Codec.wfDHdr h m.data.length = true) :
    encKeyMsg c.tClientKeyExchange h m = some (chdr (u8 c.tClientKeyExchange) m.data.length h.seq ++ m.data) ∧
    decClientKeyExchange c (chdr (u8 c.tClientKeyExchange) m.data.length h.seq ++ m.data) =
      .ok (⟨h.seq, 0, m.data.length⟩, m) := by
  have hl := wfDHdr_lt hw
  refine ⟨by simp only [encKeyMsg, header_complete _ _ _ hw], ?_⟩
  unfold decClientKeyExchange
  rw [guard_pass c r.hl _ _ hl, hdrFields_complete _ _ hl, r.hl]
  have hs := sliceFrom_append_right (chdr (u8 c.tClientKeyExchange) m.data.length h.seq) m.data 0 (by omega)
  simp only [chdr_length, Nat.add_zero, List.drop_zero] at hs
  have hi : idx24 (chdr (u8 c.tClientKeyExchange) m.data.length h.seq ++ m.data) 1 = .ok m.data.length := by
    simp [chdr, idx24, idx, nat24_be24 hl]
  simp [hs, hi, chdr_length]

theorem total_serverKeyExchange (c : Codes) (r : Ready c c.tServerKeyExchange) (b : Bytes) :
    decServerKeyExchange c b ≠ .panic := by
  unfold decServerKeyExchange
  apply guard_ne_panic c r.hl
  rw [r.hl]
  split
  · simp
  · rename_i h
    obtain ⟨hd, hhd⟩ := hdrFields_ne_panic h
    rw [hhd, sliceFrom_eq (by omega)]
    simp

theorem total_clientKeyExchange (c : Codes) (r : Ready c c.tClientKeyExchange) (b : Bytes) :
    decClientKeyExchange c b ≠ .panic := by
  unfold decClientKeyExchange
  apply guard_ne_panic c r.hl
  rw [r.hl]
  split
  · simp
  · rename_i h
    obtain ⟨hd, hhd⟩ := hdrFields_ne_panic h
    rw [hhd, idx24_eq (by omega)]
    simp only [bind_ok]
    split
    · simp
    · rw [sliceFrom_eq (by omega)]; simp

theorem strict_opaque (c : Codes) {t : Nat} (r : Ready c t) {α : Type} {k : Outcome α} {b : Bytes} {x : α}
    {kind : Kind} (hk : kind = .serverKeyExchange ∨ kind = .clientKeyExchange ∨ kind = .finished)
    (h : guardD c t b k = .ok x) : Spec.Codec.shape .dtlcp kind b = true := by
  obtain ⟨_, seq, body, hb, hl⟩ := guard_ok r.hl r.on h
  subst hb
  apply shape_dtlcp_mk _ _ _ hl
  rcases hk with hk | hk | hk <;> subst hk <;> rfl

theorem strictBlob_opaque_eq {k : Kind} (hk : k = .clientKeyExchange ∨ k = .serverKeyExchange)
    {b : Bytes} {h : DHdr} {m : Blob} (hs : Spec.Codec.strictBlob .dtlcp k b = some (h, m)) :
    b = chdr (u8 k.code) m.data.length h.seq ++ m.data ∧ m.data.length < 16777216 ∧ h = ⟨h.seq, 0, m.data.length⟩ := by
  unfold Spec.Codec.strictBlob at hs
  cases hsh : Spec.Codec.strictHeader .dtlcp k b with
  | none => rw [hsh] at hs; cases hs
  | some p =>
    obtain ⟨hd, body⟩ := p
    rw [hsh] at hs
    obtain ⟨hb, hl, hh⟩ := strictHeader_dtlcp_eq hsh
    rcases hk with hk | hk <;> subst hk <;>
      (simp only [Option.some.injEq, Prod.mk.injEq] at hs
       obtain ⟨h1, hm⟩ := hs
       subst hm; subst h1
       exact ⟨hb, hl, hh⟩)

theorem strictBlob_opaque_mk {k : Kind} (hk : k = .clientKeyExchange ∨ k = .serverKeyExchange) (seq : W16)
    (m : Blob) (hl : m.data.length < 16777216) :
    Spec.Codec.strictBlob .dtlcp k (chdr (u8 k.code) m.data.length seq ++ m.data) = some (⟨seq, 0, m.data.length⟩, m) := by
  unfold Spec.Codec.strictBlob
  rw [strictHeader_dtlcp_mk _ _ hl]
  rcases hk with hk | hk <;> subst hk <;> rfl

theorem canon_serverKeyExchange (c : Codes) (r : Ready c c.tServerKeyExchange) (ht : c.tServerKeyExchange = 12)
    {b : Bytes} {h : DHdr} {m : Blob} (hs : Spec.Codec.strictBlob .dtlcp .serverKeyExchange b = some (h, m)) :
    encKeyMsg c.tServerKeyExchange h m = some b ∧ decServerKeyExchange c b = .ok (h, m) ∧
      Spec.Codec.wfBlob .serverKeyExchange m = true ∧ Spec.Codec.wfDHdr h m.data.length = true := by
  obtain ⟨hb, hl, hh⟩ := strictBlob_opaque_eq (Or.inr rfl) hs
  have hk : Kind.serverKeyExchange.code = c.tServerKeyExchange := by rw [ht]; rfl
  rw [hk] at hb
  have hw := wfDHdr_of_strict hh hl
  obtain ⟨e1, e2⟩ := rt_serverKeyExchange c r h m hw
  rw [hb]
  exact ⟨e1, by rw [e2]; congr 2; exact hh.symm, by simp [Spec.Codec.wfBlob, hl], hw⟩

theorem canon_clientKeyExchange (c : Codes) (r : Ready c c.tClientKeyExchange) (ht : c.tClientKeyExchange = 16)
    {b : Bytes} {h : DHdr} {m : Blob} (hs : Spec.Codec.strictBlob .dtlcp .clientKeyExchange b = some (h, m)) :
    encKeyMsg c.tClientKeyExchange h m = some b ∧ decClientKeyExchange c b = .ok (h, m) ∧
      Spec.Codec.wfBlob .clientKeyExchange m = true ∧ Spec.Codec.wfDHdr h m.data.length = true := by
  obtain ⟨hb, hl, hh⟩ := strictBlob_opaque_eq (Or.inl rfl) hs
  have hk : Kind.clientKeyExchange.code = c.tClientKeyExchange := by rw [ht]; rfl
  rw [hk] at hb
  have hw := wfDHdr_of_strict hh hl
  obtain ⟨e1, e2⟩ := rt_clientKeyExchange c r h m hw
  rw [hb]
  exact ⟨e1, by rw [e2]; congr 2; exact hh.symm, by simp [Spec.Codec.wfBlob, hl], hw⟩

/-! ### CertificateVerify, HelloVerifyRequest (body parsed by cryptobyte after dtlcpUnmarshalHeader) -/

theorem rt_certificateVerify (c : Codes) (r : Ready c c.tCertificateVerify) (h : DHdr) (m : Blob)
    (hm : m.data.length < 65536) (hw : Spec.Codec.wfDHdr h (2 + m.data.length) = true) :
    encCertificateVerify c h m =
      some (chdr (u8 c.tCertificateVerify) (be16 m.data.length ++ m.data).length h.seq ++ (be16 m.data.length ++ m.data)) ∧
    decCertificateVerify c (chdr (u8 c.tCertificateVerify) (be16 m.data.length ++ m.data).length h.seq ++
      (be16 m.data.length ++ m.data)) = .ok (⟨h.seq, 0, 2 + m.data.length⟩, m) := by
  have hbl : (be16 m.data.length ++ m.data).length = 2 + m.data.length := by rw [List.length_append, be16_length]
  have hl : (be16 m.data.length ++ m.data).length < 16777216 := by omega
  refine ⟨by simp only [encCertificateVerify, header_complete _ _ _ hw, hbl, List.append_assoc], ?_⟩
  unfold decCertificateVerify
  rw [guard_pass c r.hl _ _ hl, unmarshalHeader_complete _ _ hl]
  have := readVec16_append hm ([] : Bytes)
  simp only [List.append_nil] at this
  simp [this, isEmpty, hbl]

theorem total_certificateVerify (c : Codes) (r : Ready c c.tCertificateVerify) (b : Bytes) :
    decCertificateVerify c b ≠ .panic := by
  unfold decCertificateVerify
  apply guard_ne_panic c r.hl
  split
  · simp
  · split
    · simp
    · split
      · simp
      · split <;> simp

theorem strict_certificateVerify (c : Codes) (r : Ready c c.tCertificateVerify) {b : Bytes} {x : DHdr × Blob}
    (h : decCertificateVerify c b = .ok x) : Spec.Codec.shape .dtlcp .certificateVerify b = true := by
  obtain ⟨hk, seq, body, hb, hl⟩ := guard_ok r.hl r.on h
  subst hb
  apply shape_dtlcp_mk _ _ _ hl
  rw [unmarshalHeader_complete _ _ hl] at hk
  simp only at hk
  split at hk
  · cases hk
  · cases hv : readVec16 body with
    | none => rw [hv] at hk; cases hk
    | some p =>
      obtain ⟨sig, rr⟩ := p
      rw [hv] at hk
      simp only at hk
      split at hk
      · rename_i he
        simp [Spec.Codec.bodyShape, Spec.Codec.oneVec16, hv, (isEmpty_iff rr).mp he, Spec.Codec.isNil]
      · cases hk

theorem canon_certificateVerify (c : Codes) (r : Ready c c.tCertificateVerify) (ht : c.tCertificateVerify = 15)
    {b : Bytes} {h : DHdr} {m : Blob} (hs : Spec.Codec.strictBlob .dtlcp .certificateVerify b = some (h, m)) :
    encCertificateVerify c h m = some b ∧ decCertificateVerify c b = .ok (h, m) ∧
      Spec.Codec.wfBlob .certificateVerify m = true ∧ Spec.Codec.wfDHdr h (2 + m.data.length) = true := by
  unfold Spec.Codec.strictBlob at hs
  cases hsh : Spec.Codec.strictHeader .dtlcp .certificateVerify b with
  | none => rw [hsh] at hs; cases hs
  | some p =>
    obtain ⟨hd, body⟩ := p
    rw [hsh] at hs
    simp only at hs
    cases hv : readVec16 body with
    | none => rw [hv] at hs; cases hs
    | some q =>
      obtain ⟨sig, rr⟩ := q
      rw [hv] at hs
      cases rr with
      | cons x xs => simp at hs
      | nil =>
        simp only [Option.some.injEq, Prod.mk.injEq] at hs
        obtain ⟨h1, hm⟩ := hs
        subst hm; subst h1
        obtain ⟨hb, hl, hh⟩ := strictHeader_dtlcp_eq hsh
        obtain ⟨hbody, hsl⟩ := readVec16_eq_some hv
        rw [List.append_nil] at hbody
        have hk : Kind.certificateVerify.code = c.tCertificateVerify := by rw [ht]; rfl
        rw [hk] at hb
        have hlen : body.length = 2 + sig.length := by rw [hbody, List.length_append, be16_length]
        have hw : Spec.Codec.wfDHdr hd (2 + sig.length) = true := by rw [← hlen]; exact wfDHdr_of_strict hh hl
        obtain ⟨e1, e2⟩ := rt_certificateVerify c r hd ⟨sig⟩ hsl hw
        rw [hb, hbody]
        refine ⟨e1, ?_, by simp [Spec.Codec.wfBlob, hsl], hw⟩
        rw [e2]; congr 2; rw [hh, hlen]

theorem complete_certificateVerify (c : Codes) (ht : c.tCertificateVerify = 15) (seq : W16) (m : Blob)
    (hw : Spec.Codec.wfBlob .certificateVerify m = true) :
    Spec.Codec.strictBlob .dtlcp .certificateVerify
      (chdr (u8 c.tCertificateVerify) (be16 m.data.length ++ m.data).length seq ++ (be16 m.data.length ++ m.data)) =
      some (⟨seq, 0, 2 + m.data.length⟩, m) := by
  have hlen : m.data.length < 65536 := by simpa [Spec.Codec.wfBlob] using hw
  have hk : c.tCertificateVerify = Kind.certificateVerify.code := by rw [ht]; rfl
  have hbl : (be16 m.data.length ++ m.data).length = 2 + m.data.length := by rw [List.length_append, be16_length]
  have hl : (be16 m.data.length ++ m.data).length < 16777216 := by omega
  unfold Spec.Codec.strictBlob
  rw [hk, strictHeader_dtlcp_mk _ _ hl]
  have := readVec16_append hlen ([] : Bytes)
  simp only [List.append_nil] at this
  simp [this, hbl]

def hvrBody (m : HelloVerifyRequest) : Bytes := m.vers.bytes ++ (u8 m.cookie.length :: m.cookie)

theorem hvrBody_length (m : HelloVerifyRequest) : (hvrBody m).length = 3 + m.cookie.length := by
  simp [hvrBody, W16.bytes]; omega

theorem rt_helloVerifyRequest (c : Codes) (r : Ready c c.tHelloVerifyRequest) (h : DHdr) (m : HelloVerifyRequest)
    (hm : m.cookie.length < 256) (hw : Spec.Codec.wfDHdr h (3 + m.cookie.length) = true) :
    encHelloVerifyRequest c h m = some (chdr (u8 c.tHelloVerifyRequest) (hvrBody m).length h.seq ++ hvrBody m) ∧
    decHelloVerifyRequest c (chdr (u8 c.tHelloVerifyRequest) (hvrBody m).length h.seq ++ hvrBody m) =
      .ok (⟨h.seq, 0, 3 + m.cookie.length⟩, m) := by
  have hbl := hvrBody_length m
  have hl : (hvrBody m).length < 16777216 := by omega
  refine ⟨by rw [hbl]; simp only [encHelloVerifyRequest, header_complete _ _ _ hw, hvrBody, List.append_assoc,
    List.cons_append, List.nil_append], ?_⟩
  unfold decHelloVerifyRequest
  rw [guard_pass c r.hl _ _ hl, unmarshalHeader_complete _ _ hl]
  have := readVec8_append hm ([] : Bytes)
  simp only [List.append_nil] at this
  simp [hvrBody, W16.bytes, readW16, this, isEmpty]
  omega

theorem total_helloVerifyRequest (c : Codes) (r : Ready c c.tHelloVerifyRequest) (b : Bytes) :
    decHelloVerifyRequest c b ≠ .panic := by
  unfold decHelloVerifyRequest
  apply guard_ne_panic c r.hl
  split
  · simp
  · split
    · simp
    · split
      · simp
      · split
        · simp
        · split <;> simp

theorem strict_helloVerifyRequest (c : Codes) (r : Ready c c.tHelloVerifyRequest) {b : Bytes}
    {x : DHdr × HelloVerifyRequest} (h : decHelloVerifyRequest c b = .ok x) :
    Spec.Codec.shape .dtlcp .helloVerifyRequest b = true := by
  obtain ⟨hk, seq, body, hb, hl⟩ := guard_ok r.hl r.on h
  subst hb
  apply shape_dtlcp_mk _ _ _ hl
  rw [unmarshalHeader_complete _ _ hl] at hk
  simp only at hk
  split at hk
  · cases hk
  · cases hw16 : readW16 body with
    | none => rw [hw16] at hk; cases hk
    | some q =>
      obtain ⟨vers, rest⟩ := q
      rw [hw16] at hk
      simp only at hk
      have hb1 := readW16_eq_some hw16
      cases hv : readVec8 rest with
      | none => rw [hv] at hk; cases hk
      | some p =>
        obtain ⟨ck, rr⟩ := p
        rw [hv] at hk
        simp only at hk
        split at hk
        · rename_i he
          rw [hb1]
          simp [Spec.Codec.bodyShape, Spec.Codec.dropN, skip, W16.bytes, Spec.Codec.dropVec8, hv,
            (isEmpty_iff rr).mp he, Spec.Codec.isNil]
        · cases hk

theorem canon_helloVerifyRequest (c : Codes) (r : Ready c c.tHelloVerifyRequest) (ht : c.tHelloVerifyRequest = 3)
    {b : Bytes} {h : DHdr} {m : HelloVerifyRequest} (hs : Spec.Codec.strictHelloVerifyRequest b = some (h, m)) :
    encHelloVerifyRequest c h m = some b ∧ decHelloVerifyRequest c b = .ok (h, m) ∧
      Spec.Codec.wfHelloVerifyRequest m = true ∧ Spec.Codec.wfDHdr h (3 + m.cookie.length) = true := by
  unfold Spec.Codec.strictHelloVerifyRequest at hs
  cases hsh : Spec.Codec.strictHeader .dtlcp .helloVerifyRequest b with
  | none => rw [hsh] at hs; cases hs
  | some p =>
    obtain ⟨hd, body⟩ := p
    rw [hsh] at hs
    simp only at hs
    cases hv : readW16 body with
    | none => rw [hv] at hs; cases hs
    | some q =>
      obtain ⟨vers, r1⟩ := q
      rw [hv] at hs
      simp only at hs
      cases hc : readVec8 r1 with
      | none => rw [hc] at hs; cases hs
      | some q2 =>
        obtain ⟨ck, rr⟩ := q2
        rw [hc] at hs
        cases rr with
        | cons x xs => simp at hs
        | nil =>
          simp only [Option.some.injEq, Prod.mk.injEq] at hs
          obtain ⟨h1, hm⟩ := hs
          subst hm; subst h1
          obtain ⟨hb, hl, hh⟩ := strictHeader_dtlcp_eq hsh
          have hb1 := readW16_eq_some hv
          obtain ⟨hb2, hcl⟩ := readVec8_eq_some hc
          rw [List.append_nil] at hb2
          have hbody : body = hvrBody ⟨vers, ck⟩ := by rw [hb1, hb2]; rfl
          have hk : Kind.helloVerifyRequest.code = c.tHelloVerifyRequest := by rw [ht]; rfl
          rw [hk] at hb
          have hlen : body.length = 3 + ck.length := by rw [hbody]; exact hvrBody_length _
          have hw : Spec.Codec.wfDHdr hd (3 + ck.length) = true := by rw [← hlen]; exact wfDHdr_of_strict hh hl
          obtain ⟨e1, e2⟩ := rt_helloVerifyRequest c r hd ⟨vers, ck⟩ hcl hw
          rw [hb, hbody]
          refine ⟨e1, ?_, by simp [Spec.Codec.wfHelloVerifyRequest, hcl], hw⟩
          rw [e2]; congr 2; rw [hh, hlen]

theorem complete_helloVerifyRequest (c : Codes) (ht : c.tHelloVerifyRequest = 3) (seq : W16) (m : HelloVerifyRequest)
    (hw : Spec.Codec.wfHelloVerifyRequest m = true) :
    Spec.Codec.strictHelloVerifyRequest (chdr (u8 c.tHelloVerifyRequest) (hvrBody m).length seq ++ hvrBody m) =
      some (⟨seq, 0, 3 + m.cookie.length⟩, m) := by
  have hlen : m.cookie.length < 256 := by simpa [Spec.Codec.wfHelloVerifyRequest] using hw
  have hk : c.tHelloVerifyRequest = Kind.helloVerifyRequest.code := by rw [ht]; rfl
  have hbl := hvrBody_length m
  have hl : (hvrBody m).length < 16777216 := by omega
  unfold Spec.Codec.strictHelloVerifyRequest
  rw [hk, strictHeader_dtlcp_mk _ _ hl]
  have := readVec8_append hlen ([] : Bytes)
  simp only [List.append_nil] at this
  simp [hvrBody, W16.bytes, readW16, this]
  omega

/-! ### Certificate, CertificateRequest (hand-indexed; shared body code with header length 12) -/

theorem strictCert_body {body lst : Bytes} {cs : List Bytes}
    (h1 : readVec24 body = some (lst, [])) (h2 : many Spec.Codec.nonEmptyVec24 lst.length lst = some cs) :
    body = encCertificateBody ⟨cs⟩ ∧ CertsOk cs ∧ (concatMap certItem cs).length < 16777216 := by
  obtain ⟨hbody, hll⟩ := readVec24_eq_some h1
  rw [List.append_nil] at hbody
  have hlst := many_eq_some Spec.Codec.nonEmptyVec24 certItem (fun s x r hh => (nonEmptyVec24_eq_some hh).1) _ _ _ h2
  have hok : CertsOk cs := many_all Spec.Codec.nonEmptyVec24 (fun x => 0 < x.length ∧ x.length < 16777216)
    (fun s x r hh => (nonEmptyVec24_eq_some hh).2) _ _ _ h2
  refine ⟨?_, hok, by rw [← hlst]; exact hll⟩
  rw [hbody, hlst]; simp [encCertificateBody]

theorem wfCertificate_parts {m : Certificate} (hw : Spec.Codec.wfCertificate m = true) :
    CertsOk m.certs ∧ (concatMap certItem m.certs).length < 16777216 ∧ (encCertificateBody m).length < 16777216 := by
  simp only [Spec.Codec.wfCertificate, Bool.and_eq_true, decide_eq_true_eq, Spec.Codec.allB, List.all_eq_true] at hw
  obtain ⟨hne, hsum⟩ := hw
  rw [sumLen_eq] at hsum
  refine ⟨?_, by omega, by simp [encCertificateBody, be24]; omega⟩
  intro x hx
  exact ⟨hne x hx, by have := length_le_concat m.certs x hx; omega⟩

theorem rt_certificate (c : Codes) (r : Ready c c.tCertificate) (h : DHdr) (m : Certificate)
    (hm : Spec.Codec.wfCertificate m = true) (hw : Spec.Codec.wfDHdr h (encCertificateBody m).length = true) :
    encCertificate c h m = some (chdr (u8 c.tCertificate) (encCertificateBody m).length h.seq ++ encCertificateBody m) ∧
    decCertificate c (chdr (u8 c.tCertificate) (encCertificateBody m).length h.seq ++ encCertificateBody m) =
      .ok (⟨h.seq, 0, (encCertificateBody m).length⟩, m) := by
  obtain ⟨hok, hcl, hl⟩ := wfCertificate_parts hm
  refine ⟨by simp only [encCertificate, header_complete _ _ _ hw], ?_⟩
  unfold decCertificate
  rw [guard_pass c r.hl _ _ hl, hdrFields_complete _ _ hl, r.hl]
  have := rt_certificateAt (chdr (u8 c.tCertificate) (encCertificateBody m).length h.seq) m hok hcl
  rw [chdr_length] at this
  have hlen : ¬ ((chdr (u8 c.tCertificate) (encCertificateBody m).length h.seq ++ encCertificateBody m).length < 12 + 3) := by
    simp [chdr_length, encCertificateBody, be24]; omega
  simp only [hlen, ↓reduceIte, bind_ok, this, pure_eq]

theorem total_certificate (c : Codes) (r : Ready c c.tCertificate) (b : Bytes) : decCertificate c b ≠ .panic := by
  unfold decCertificate
  apply guard_ne_panic c r.hl
  rw [r.hl]
  split
  · simp
  · rename_i h
    obtain ⟨hd, hhd⟩ := hdrFields_ne_panic (data := b) (by omega)
    rw [hhd]
    simp only [bind_ok]
    cases hc : decCertificateAt 12 b with
    | panic => exact absurd hc (total_certificateAt _ _)
    | reject => simp
    | ok m => simp

theorem strict_certificate (c : Codes) (r : Ready c c.tCertificate) {b : Bytes} {x : DHdr × Certificate}
    (h : decCertificate c b = .ok x) : Spec.Codec.shape .dtlcp .certificate b = true := by
  obtain ⟨hk, seq, body, hb, hl⟩ := guard_ok r.hl r.on h
  subst hb
  apply shape_dtlcp_mk _ _ _ hl
  rw [r.hl] at hk
  split at hk
  · cases hk
  · rw [hdrFields_complete _ _ hl] at hk
    simp only [bind_ok] at hk
    cases hc : decCertificateAt 12 (chdr (u8 c.tCertificate) body.length seq ++ body) with
    | panic => rw [hc] at hk; cases hk
    | reject => rw [hc] at hk; cases hk
    | ok m =>
      have := decCertificateAt_shape .dtlcp (chdr (u8 c.tCertificate) body.length seq) body (m := m)
        (by rw [chdr_length]; exact hc) (by omega)
      exact this

theorem canon_certificate (c : Codes) (r : Ready c c.tCertificate) (ht : c.tCertificate = 11)
    {b : Bytes} {h : DHdr} {m : Certificate} (hs : Spec.Codec.strictCertificate .dtlcp b = some (h, m)) :
    encCertificate c h m = some b ∧ decCertificate c b = .ok (h, m) ∧ Spec.Codec.wfCertificate m = true ∧
      Spec.Codec.wfDHdr h (encCertificateBody m).length = true := by
  unfold Spec.Codec.strictCertificate at hs
  cases hsh : Spec.Codec.strictHeader .dtlcp .certificate b with
  | none => rw [hsh] at hs; cases hs
  | some p =>
    obtain ⟨hd, body⟩ := p
    rw [hsh] at hs
    simp only at hs
    cases hv : readVec24 body with
    | none => rw [hv] at hs; cases hs
    | some q =>
      obtain ⟨lst, rr⟩ := q
      rw [hv] at hs
      cases rr with
      | cons x xs => simp at hs
      | nil =>
        simp only at hs
        cases hm : many Spec.Codec.nonEmptyVec24 lst.length lst with
        | none => rw [hm] at hs; cases hs
        | some cs =>
          rw [hm] at hs
          simp only [Option.some.injEq, Prod.mk.injEq] at hs
          obtain ⟨h1, hmm⟩ := hs
          subst hmm; subst h1
          obtain ⟨hb, hl, hh⟩ := strictHeader_dtlcp_eq hsh
          obtain ⟨hbody, hok, hcl⟩ := strictCert_body hv hm
          have hk : Kind.certificate.code = c.tCertificate := by rw [ht]; rfl
          rw [hk] at hb
          have hwf : Spec.Codec.wfCertificate ⟨cs⟩ = true := by
            have hbl : body.length = 3 + (concatMap certItem cs).length := by
              rw [hbody]; simp [encCertificateBody, be24]; omega
            simp only [Spec.Codec.wfCertificate, allB_nonempty_of hok, sumLen_eq, Bool.true_and, decide_eq_true_eq]
            omega
          have hw : Spec.Codec.wfDHdr hd (encCertificateBody ⟨cs⟩).length = true := by
            rw [← hbody]; exact wfDHdr_of_strict hh hl
          obtain ⟨e1, e2⟩ := rt_certificate c r hd ⟨cs⟩ hwf hw
          rw [hb, hbody]
          refine ⟨e1, ?_, hwf, hw⟩
          rw [e2]; congr 2; rw [hh, hbody]

theorem complete_certificate (c : Codes) (ht : c.tCertificate = 11) (seq : W16) (m : Certificate)
    (hw : Spec.Codec.wfCertificate m = true) :
    Spec.Codec.strictCertificate .dtlcp
      (chdr (u8 c.tCertificate) (encCertificateBody m).length seq ++ encCertificateBody m) =
      some (⟨seq, 0, (encCertificateBody m).length⟩, m) := by
  obtain ⟨hok, hcl, hl⟩ := wfCertificate_parts hw
  have hk : c.tCertificate = Kind.certificate.code := by rw [ht]; rfl
  unfold Spec.Codec.strictCertificate
  rw [hk, strictHeader_dtlcp_mk _ _ hl]
  have hv := readVec24_append (c := concatMap certItem m.certs) hcl ([] : Bytes)
  simp only [List.append_nil] at hv
  simp only [encCertificateBody, hv]
  have hm := many_concatMap Spec.Codec.nonEmptyVec24 certItem (fun x => 0 < x.length ∧ x.length < 16777216)
    (fun x r hx => nonEmptyVec24_append hx.1 hx.2 r)
    (fun x _ => by simp [certItem, be24]) m.certs (concatMap certItem m.certs).length hok (concat_ge_length _)
  rw [hm]

theorem chdr_as_ext (t : UInt8) (n : Nat) (seq : W16) :
    chdr t n seq = t :: (be24 n ++ [seq.1, seq.2, 0, 0, 0, u8 (n / 65536), u8 (n / 256), u8 n]) := rfl

theorem encCertReqBody_lt {m : CertificateRequest} (hw : Spec.Codec.wfCertificateRequest m = true) :
    (encCertificateRequestBody m).length < 16777216 := by
  obtain ⟨hty, hok, hcl⟩ := wfCertReq_parts hw
  simp [encCertificateRequestBody, be16]; omega

theorem rt_certificateRequest (c : Codes) (r : Ready c c.tCertificateRequest) (h : DHdr) (m : CertificateRequest)
    (hm : Spec.Codec.wfCertificateRequest m = true)
    (hw : Spec.Codec.wfDHdr h (encCertificateRequestBody m).length = true) :
    encCertificateRequest c h m =
      some (chdr (u8 c.tCertificateRequest) (encCertificateRequestBody m).length h.seq ++ encCertificateRequestBody m) ∧
    decCertificateRequest c (chdr (u8 c.tCertificateRequest) (encCertificateRequestBody m).length h.seq ++
      encCertificateRequestBody m) = .ok (⟨h.seq, 0, (encCertificateRequestBody m).length⟩, m) := by
  obtain ⟨hty, hok, hcl⟩ := wfCertReq_parts hm
  have hl := encCertReqBody_lt hm
  refine ⟨by simp only [encCertificateRequest, header_complete _ _ _ hw], ?_⟩
  unfold decCertificateRequest
  rw [guard_pass c r.hl _ _ hl, hdrFields_complete _ _ hl, r.hl]
  have := rt_certificateRequestAt (u8 c.tCertificateRequest)
    [h.seq.1, h.seq.2, 0, 0, 0, u8 ((encCertificateRequestBody m).length / 65536),
      u8 ((encCertificateRequestBody m).length / 256), u8 (encCertificateRequestBody m).length] m hty
    (fun x hx => (hok x hx).2) hcl
  rw [← chdr_as_ext] at this
  simp only [List.length_cons, List.length_nil] at this
  have hlen : ¬ ((chdr (u8 c.tCertificateRequest) (encCertificateRequestBody m).length h.seq ++
      encCertificateRequestBody m).length < 12 + 1) := by
    simp [chdr_length, encCertificateRequestBody]; omega
  have this' : decCertificateRequestAt 12 (chdr (u8 c.tCertificateRequest) (encCertificateRequestBody m).length h.seq ++
      encCertificateRequestBody m) = .ok m := this
  simp only [hlen, ↓reduceIte, bind_ok, this', pure_eq]

theorem total_certificateRequest (c : Codes) (r : Ready c c.tCertificateRequest) (b : Bytes) :
    decCertificateRequest c b ≠ .panic := by
  unfold decCertificateRequest
  apply guard_ne_panic c r.hl
  rw [r.hl]
  split
  · simp
  · rename_i h
    obtain ⟨hd, hhd⟩ := hdrFields_ne_panic (data := b) (by omega)
    rw [hhd]
    simp only [bind_ok]
    cases hc : decCertificateRequestAt 12 b with
    | panic => exact absurd hc (total_certificateRequestAt _ (by decide) _)
    | reject => simp
    | ok m => simp

theorem strict_certificateRequest (c : Codes) (r : Ready c c.tCertificateRequest) {b : Bytes}
    {x : DHdr × CertificateRequest} (h : decCertificateRequest c b = .ok x) :
    Spec.Codec.shape .dtlcp .certificateRequest b = true := by
  obtain ⟨hk, seq, body, hb, hl⟩ := guard_ok r.hl r.on h
  subst hb
  apply shape_dtlcp_mk _ _ _ hl
  rw [r.hl] at hk
  split at hk
  · cases hk
  · rw [hdrFields_complete _ _ hl] at hk
    simp only [bind_ok] at hk
    cases hc : decCertificateRequestAt 12 (chdr (u8 c.tCertificateRequest) body.length seq ++ body) with
    | panic => rw [hc] at hk; cases hk
    | reject => rw [hc] at hk; cases hk
    | ok m =>
      exact decCertificateRequestAt_shape .dtlcp (chdr (u8 c.tCertificateRequest) body.length seq) body (m := m)
        (by rw [chdr_length]; exact hc)

theorem canon_certificateRequest (c : Codes) (r : Ready c c.tCertificateRequest) (ht : c.tCertificateRequest = 13)
    {b : Bytes} {h : DHdr} {m : CertificateRequest}
    (hs : Spec.Codec.strictCertificateRequest .dtlcp b = some (h, m)) :
    encCertificateRequest c h m = some b ∧ decCertificateRequest c b = .ok (h, m) ∧
      Spec.Codec.wfCertificateRequest m = true ∧
      Spec.Codec.wfDHdr h (encCertificateRequestBody m).length = true := by
  unfold Spec.Codec.strictCertificateRequest at hs
  cases hsh : Spec.Codec.strictHeader .dtlcp .certificateRequest b with
  | none => rw [hsh] at hs; cases hs
  | some p =>
    obtain ⟨hd, body⟩ := p
    rw [hsh] at hs
    simp only at hs
    cases h1 : Spec.Codec.nonEmptyVec8 body with
    | none => rw [h1] at hs; cases hs
    | some q =>
      obtain ⟨types, r1⟩ := q
      rw [h1] at hs
      simp only at hs
      cases h2 : readVec16 r1 with
      | none => rw [h2] at hs; cases hs
      | some q2 =>
        obtain ⟨lst, r2⟩ := q2
        rw [h2] at hs
        cases r2 with
        | cons x xs => simp at hs
        | nil =>
          simp only at hs
          cases h3 : many Spec.Codec.nonEmptyVec16 lst.length lst with
          | none => rw [h3] at hs; cases hs
          | some cas =>
            rw [h3] at hs
            simp only [Option.some.injEq, Prod.mk.injEq] at hs
            obtain ⟨hh1, hmm⟩ := hs
            subst hmm; subst hh1
            obtain ⟨hb, hl, hh⟩ := strictHeader_dtlcp_eq hsh
            obtain ⟨hbody, hty, hok, hcl⟩ := strictCertReq_body h1 h2 h3
            have hk : Kind.certificateRequest.code = c.tCertificateRequest := by rw [ht]; rfl
            rw [hk] at hb
            have hwf : Spec.Codec.wfCertificateRequest ⟨types, cas⟩ = true := by
              simp only [Spec.Codec.wfCertificateRequest, hty, and_self, decide_true, Bool.true_and,
                sumLen2_eq, hcl, Bool.and_true, Spec.Codec.allB, List.all_eq_true, decide_eq_true_eq]
              intro x hx; exact (hok x hx).1
            have hw : Spec.Codec.wfDHdr hd (encCertificateRequestBody ⟨types, cas⟩).length = true := by
              rw [← hbody]; exact wfDHdr_of_strict hh hl
            obtain ⟨e1, e2⟩ := rt_certificateRequest c r hd ⟨types, cas⟩ hwf hw
            rw [hb, hbody]
            refine ⟨e1, ?_, hwf, hw⟩
            rw [e2]; congr 2; rw [hh, hbody]

theorem complete_certificateRequest (c : Codes) (ht : c.tCertificateRequest = 13) (seq : W16) (m : CertificateRequest)
    (hw : Spec.Codec.wfCertificateRequest m = true) :
    Spec.Codec.strictCertificateRequest .dtlcp
      (chdr (u8 c.tCertificateRequest) (encCertificateRequestBody m).length seq ++ encCertificateRequestBody m) =
      some (⟨seq, 0, (encCertificateRequestBody m).length⟩, m) := by
  obtain ⟨hty, hok, hcl⟩ := wfCertReq_parts hw
  have hl := encCertReqBody_lt hw
  have hk : c.tCertificateRequest = Kind.certificateRequest.code := by rw [ht]; rfl
  unfold Spec.Codec.strictCertificateRequest
  rw [hk, strictHeader_dtlcp_mk _ _ hl]
  simp only [encCertificateRequestBody, nonEmptyVec8_append hty.1 hty.2]
  have hv := readVec16_append hcl ([] : Bytes)
  simp only [List.append_nil] at hv
  rw [hv]
  have hm := many_concatMap Spec.Codec.nonEmptyVec16 caItem (fun x => 0 < x.length ∧ x.length < 65536)
    (fun x r hx => nonEmptyVec16_append hx.1 hx.2 r)
    (fun x _ => by simp [caItem, be16]) m.cas (concatMap caItem m.cas).length hok (cas_ge_length _)
  simp only [hm]

end Gotlcp.Lemmas.CodecDtlcp

/-
Helper lemmas for C18: big-endian 8/16-bit encodings are injective on their range, the
length-prefixed layouts are injective, and a decoded ClientHello body has its minimum size.
-/
import Gotlcp.Model.Cookie

namespace Gotlcp.Lemmas.Cookie
open Gotlcp Gotlcp.Model.Cookie

theorem b8_toNat (n : Nat) : (b8 n).toNat = n % 256 := by
  simp [b8, UInt8.toNat_ofNat']

theorem b8_inj {a b : Nat} (ha : a < 256) (hb : b < 256) (h : b8 a = b8 b) : a = b := by
  have := congrArg UInt8.toNat h
  rw [b8_toNat, b8_toNat] at this
  omega

theorem u16_length (n : Nat) : (u16 n).length = 2 := rfl

theorem u16_inj {a b : Nat} (ha : a < 65536) (hb : b < 65536) (h : u16 a = u16 b) : a = b := by
  simp only [u16, List.cons.injEq, and_true] at h
  obtain ⟨h1, h2⟩ := h
  have e1 := congrArg UInt8.toNat h1
  have e2 := congrArg UInt8.toNat h2
  rw [b8_toNat, b8_toNat] at e1 e2
  omega

theorem flatMap_u16_length (l : List Nat) : (l.flatMap u16).length = 2 * l.length := by
  induction l with
  | nil => rfl
  | cons x xs ih => simp only [List.flatMap_cons, List.length_append, u16_length, ih, List.length_cons]; omega

theorem flatMap_u16_inj : ∀ (l l' : List Nat), (∀ s ∈ l, s < 65536) → (∀ s ∈ l', s < 65536) →
    l.length = l'.length → l.flatMap u16 = l'.flatMap u16 → l = l'
  | [], [], _, _, _, _ => rfl
  | [], _ :: _, _, _, hl, _ => by simp at hl
  | _ :: _, [], _, _, hl, _ => by simp at hl
  | x :: xs, y :: ys, hx, hy, hl, h => by
    simp only [List.flatMap_cons] at h
    obtain ⟨h1, h2⟩ := List.append_inj h (by simp [u16_length])
    have := u16_inj (hx x (by simp)) (hy y (by simp)) h1
    subst this
    have := flatMap_u16_inj xs ys (fun s hs => hx s (by simp [hs])) (fun s hs => hy s (by simp [hs]))
      (by simpa using hl) h2
    rw [this]

/-- `marshalForCookie` is injective on decodable hellos -/
theorem marshalForCookie_inj {h h' : Hello} (w : h.WF) (w' : h'.WF)
    (e : marshalForCookie h = marshalForCookie h') : h = h' := by
  unfold marshalForCookie at e
  obtain ⟨e1, e⟩ := List.append_inj e (by simp [u16_length])
  have hv := u16_inj w.vers w'.vers e1
  obtain ⟨e2, e⟩ := List.append_inj e (by rw [w.random, w'.random])
  obtain ⟨e3, e⟩ := List.append_inj e (by simp)
  have hsl : h.sessionId.length = h'.sessionId.length := by
    simp only [List.cons.injEq, and_true] at e3
    exact b8_inj w.sid w'.sid e3
  obtain ⟨e4, e⟩ := List.append_inj e hsl
  obtain ⟨e5, e⟩ := List.append_inj e (by simp [u16_length])
  have hnl := u16_inj w.suites w'.suites e5
  obtain ⟨e6, e⟩ := List.append_inj e (by rw [flatMap_u16_length, flatMap_u16_length, hnl])
  have hs := flatMap_u16_inj _ _ w.suiteVals w'.suiteVals hnl e6
  simp only [List.cons_append, List.nil_append, List.cons.injEq] at e
  cases h; cases h'
  simp_all

/-- the repaired MAC input is injective in (address, parameters) -/
theorem cookieInputFramed_inj {a a' p p' : Bytes} (la : a.length < 65536) (la' : a'.length < 65536)
    (e : cookieInputFramed a p = cookieInputFramed a' p') : a = a' ∧ p = p' := by
  unfold cookieInputFramed at e
  obtain ⟨e1, e⟩ := List.append_inj e (by simp [u16_length])
  have hl := u16_inj la la' e1
  exact List.append_inj e hl

/-- with equal address lengths even the unframed input is injective (`C18_binding_partial`) -/
theorem cookieInputPlain_inj_of_length {a a' p p' : Bytes} (hl : a.length = a'.length)
    (e : cookieInputPlain a p = cookieInputPlain a' p') : a = a' ∧ p = p' :=
  List.append_inj e hl

/-- changing one byte of a byte string changes the byte string -/
theorem set_xor_ne (t : Bytes) (i : Nat) (d : UInt8) (hi : i < t.length) (hd : d ≠ 0) :
    t.set i (t[i] ^^^ d) ≠ t := by
  intro h
  have := congrArg (fun l => l[i]?) h
  simp only [List.getElem?_set_self hi, List.getElem?_eq_getElem hi, Option.some.injEq] at this
  apply hd
  have h2 : t[i] ^^^ d ^^^ t[i] = t[i] ^^^ t[i] := by rw [this]
  rw [UInt8.xor_comm (t[i]) d, UInt8.xor_assoc, UInt8.xor_self, UInt8.xor_zero] at h2
  exact h2

/-! ### take? / decodeCore sizes -/

theorem take?_some {n : Nat} {bs a r : Bytes} (h : take? n bs = some (a, r)) :
    bs.length = n + r.length ∧ a.length = n := by
  unfold take? at h
  split at h
  · rename_i hle
    simp only [Option.some.injEq, Prod.mk.injEq] at h
    obtain ⟨rfl, rfl⟩ := h
    simp only [List.length_drop, List.length_take]; omega
  · simp at h

theorem pairs_length : ∀ (bs : Bytes), bs.length % 2 = 0 → 2 * (pairs bs).length = bs.length
  | [], _ => rfl
  | [_], h => by simp at h
  | _ :: _ :: rest, h => by
    have := pairs_length rest (by simp only [List.length_cons] at h; omega)
    simp only [pairs, List.length_cons]; omega

/-- exact size of a ClientHello body that decodes: version(2) + random(32) + four length
fields (1+1+2+1) + the variable parts -/
theorem decodeCore_length {body : Bytes} {d : Decoded} (h : decodeCore body = some d) :
    body.length = 39 + d.hello.sessionId.length + d.cookie.length + 2 * d.hello.suites.length
      + d.hello.compression.length + d.rest.length := by
  unfold decodeCore at h
  simp only [Option.bind_eq_bind, Option.bind_eq_some_iff, Prod.exists, bne_iff_ne, ne_eq,
    ite_not, Option.pure_def] at h
  obtain ⟨v, r1, h1, rnd, r2, h2, sl, r3, h3, sid, r4, h4, cl, r5, h5, ck, r6, h6, ssl, r7, h7, ss, r8, h8, h9⟩ := h
  split at h9
  · rename_i hev
    simp only [Option.bind_eq_some_iff, Prod.exists, Option.some.injEq] at h9
    obtain ⟨cml, r9, h10, cm, r10, h11, hd⟩ := h9
    subst hd
    have := take?_some h1; have := take?_some h2; have := take?_some h3; have := take?_some h4
    have := take?_some h5; have := take?_some h6; have := take?_some h7; have := take?_some h8
    have := take?_some h10; have := take?_some h11
    have := pairs_length ss hev
    simp only
    omega
  · simp at h9

theorem decodeCore_min {body : Bytes} {d : Decoded} (h : decodeCore body = some d) : 39 ≤ body.length := by
  have := decodeCore_length h; omega

/-! ### io.ReadFull over short reads -/

/-- whatever the sizes of the reads (each at least one byte), `io.ReadFull` of `n` bytes returns
the first `n` bytes of the stream once `n` reads have been allowed -/
theorem readFull_eq_take : ∀ (chunks : List Nat) (stream : Bytes) (n : Nat), n ≤ chunks.length →
    readFull stream chunks n = stream.take n
  | _, _, 0, _ => by cases ‹List Nat› <;> simp [readFull]
  | [], _, n + 1, h => by simp at h
  | c :: cs, stream, n + 1, h => by
    simp only [readFull]
    have hk1 : 1 ≤ min (max c 1) (n + 1) := by omega
    have hk2 : min (max c 1) (n + 1) ≤ n + 1 := by omega
    generalize min (max c 1) (n + 1) = k at hk1 hk2
    rw [readFull_eq_take cs (stream.drop k) (n + 1 - k) (by simp only [List.length_cons] at h; omega)]
    have : n + 1 = k + (n + 1 - k) := by omega
    conv => rhs; rw [this, List.take_add]

/-! ### the address text host:port -/

theorem dec_ne_nil (n : Nat) : dec n ≠ [] := by
  unfold dec; split <;> simp

theorem dec_length_pos (n : Nat) : 0 < (dec n).length :=
  List.length_pos_iff.mpr (dec_ne_nil n)

/-- decimal digits never contain a colon -/
theorem colon_not_mem_dec : ∀ (n : Nat), colon ∉ dec n := by
  intro n
  induction n using Nat.strongRecOn with
  | _ n ih =>
    unfold dec
    have hd : ∀ k, k < 10 → colon ≠ b8 (48 + k) := by
      intro k hk e
      have := congrArg UInt8.toNat e
      rw [b8_toNat] at this
      simp only [colon] at this
      have h58 : (0x3a : UInt8).toNat = 58 := by decide
      omega
    split
    · rename_i h; simp only [List.mem_singleton]; exact hd n h
    · rename_i h
      simp only [List.mem_append, List.mem_singleton, not_or]
      exact ⟨ih (n / 10) (by omega), hd (n % 10) (by omega)⟩

/-- `strconv.Itoa` is injective -/
theorem dec_inj : ∀ (n m : Nat), dec n = dec m → n = m := by
  intro n
  induction n using Nat.strongRecOn with
  | _ n ih =>
    intro m e
    have hb : ∀ a b, a < 10 → b < 10 → b8 (48 + a) = b8 (48 + b) → a = b := by
      intro a b ha hb' e
      have := b8_inj (by omega) (by omega) e
      omega
    unfold dec at e
    split at e <;> split at e
    · rename_i hn hm
      simp only [List.cons.injEq, and_true] at e
      exact hb _ _ hn hm e
    · rename_i hn hm
      have := congrArg List.length e
      have := dec_length_pos (m / 10)
      simp only [List.length_cons, List.length_nil, List.length_append] at *
      omega
    · rename_i hn hm
      have := congrArg List.length e
      have := dec_length_pos (n / 10)
      simp only [List.length_cons, List.length_nil, List.length_append] at *
      omega
    · rename_i hn hm
      obtain ⟨e1, e2⟩ := List.append_inj' e (by simp)
      have h1 := ih (n / 10) (by omega) (m / 10) e1
      simp only [List.cons.injEq, and_true] at e2
      have h2 := hb _ _ (Nat.mod_lt _ (by omega)) (Nat.mod_lt _ (by omega)) e2
      omega

/-- a list is split in one way only at the first occurrence of `c` -/
theorem append_cons_unique {α : Type} {c : α} : ∀ {u u' v v' : List α}, c ∉ u → c ∉ u' →
    u ++ c :: v = u' ++ c :: v' → u = u' ∧ v = v'
  | [], [], _, _, _, _, e => by simpa using e
  | [], y :: ys, _, _, _, h', e => by
    simp only [List.nil_append, List.cons_append, List.cons.injEq] at e
    exact absurd e.1 (by intro h; apply h'; simp [h])
  | x :: xs, [], _, _, h, _, e => by
    simp only [List.nil_append, List.cons_append, List.cons.injEq] at e
    exact absurd e.1.symm (by intro h'; apply h; simp [h'])
  | x :: xs, y :: ys, _, _, h, h', e => by
    simp only [List.cons_append, List.cons.injEq] at e
    have := append_cons_unique (u := xs) (u' := ys) (fun m => h (by simp [m])) (fun m => h' (by simp [m])) e.2
    exact ⟨by rw [e.1, this.1], this.2⟩

/-- the address text determines the printed host and the port -/
theorem hostPort_inj {h h' : Bytes} {p p' : Nat} (e : hostPort h p = hostPort h' p') : h = h' ∧ p = p' := by
  unfold hostPort at e
  have e' := congrArg List.reverse e
  simp only [List.reverse_append, List.reverse_cons, List.append_assoc, List.singleton_append] at e'
  have := append_cons_unique (c := colon) (by simpa using colon_not_mem_dec p) (by simpa using colon_not_mem_dec p') e'
  exact ⟨List.reverse_inj.mp this.2, dec_inj _ _ (List.reverse_inj.mp this.1)⟩

end Gotlcp.Lemmas.Cookie

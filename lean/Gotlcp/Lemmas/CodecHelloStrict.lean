/-
Lemmas for C14: an accepted hello has the spec's shape (every extension loop of the model
consumed exactly what the grammar of `Spec.CodecSpec` allows).
-/
import Gotlcp.Lemmas.CodecHello

set_option linter.unusedSimpArgs false
set_option linter.unusedVariables false

namespace Gotlcp.Lemmas.CodecHelloStrict
open Gotlcp Gotlcp.Wire Gotlcp.Wire.Msg
open Gotlcp.Model.Codec
open Gotlcp.Lemmas.Codec Gotlcp.Lemmas.CodecHello
open Gotlcp.Spec.Codec (Stack Kind)

/-! ### loops against item recognisers -/

theorem itemsOk_of_foldMany {σ : Type} (step : σ → Bytes → Option (σ × Bytes)) (item : Bytes → Option Bytes)
    (h : ∀ st s st' r, step st s = some (st', r) → item s = some r ∧ r.length < s.length) :
    ∀ (f : Nat) (st : σ) (s : Bytes) (st' : σ) (g : Nat), foldMany step f st s = some st' → s.length ≤ g →
      Spec.Codec.itemsOk item g s = true := by
  intro f
  induction f with
  | zero =>
    intro st s st' g hf hg
    cases s with
    | nil => cases g <;> rfl
    | cons a t => simp [foldMany] at hf
  | succ f ih =>
    intro st s st' g hf hg
    cases s with
    | nil => cases g <;> rfl
    | cons a t =>
      simp only [foldMany] at hf
      cases hs : step st (a :: t) with
      | none => rw [hs] at hf; cases hf
      | some p =>
        obtain ⟨st1, r⟩ := p
        rw [hs] at hf
        obtain ⟨hi, hl⟩ := h _ _ _ _ hs
        cases g with
        | zero => simp at hg
        | succ g' =>
          simp only [Spec.Codec.itemsOk, hi]
          exact ih st1 r st' g' hf (by simp only [List.length_cons] at hl hg; omega)

theorem itemsOk_of_many {α : Type} (p : Parser α) (item : Bytes → Option Bytes)
    (h : ∀ s x r, p s = some (x, r) → item s = some r ∧ r.length < s.length) :
    ∀ (f : Nat) (s : Bytes) (xs : List α) (g : Nat), many p f s = some xs → s.length ≤ g →
      Spec.Codec.itemsOk item g s = true := by
  intro f
  induction f with
  | zero =>
    intro s xs g hf hg
    cases s with
    | nil => cases g <;> rfl
    | cons a t => simp [many] at hf
  | succ f ih =>
    intro s xs g hf hg
    cases s with
    | nil => cases g <;> rfl
    | cons a t =>
      simp only [many] at hf
      cases hs : p (a :: t) with
      | none => rw [hs] at hf; cases hf
      | some q =>
        obtain ⟨x, r⟩ := q
        rw [hs] at hf
        simp only at hf
        cases hm : many p f r with
        | none => rw [hm] at hf; cases hf
        | some ys =>
          obtain ⟨hi, hl⟩ := h _ _ _ hs
          cases g with
          | zero => simp at hg
          | succ g' =>
            simp only [Spec.Codec.itemsOk, hi]
            exact ih r ys g' hm (by simp only [List.length_cons] at hl hg; omega)

/-! ### how much the primitive reads consume -/

theorem readU8_len {s r : Bytes} {a : UInt8} (h : readU8 s = some (a, r)) : s.length = r.length + 1 := by
  rw [readU8_eq_some h]; simp

theorem readW16_len {s r : Bytes} {w : W16} (h : readW16 s = some (w, r)) : s.length = r.length + 2 := by
  rw [readW16_eq_some h]; simp [W16.bytes]

theorem readU16_len {s r : Bytes} {n : Nat} (h : readU16 s = some (n, r)) : s.length = r.length + 2 := by
  rw [(readU16_eq_some h).1]; simp [be16]

theorem readVec8_len {s c r : Bytes} (h : readVec8 s = some (c, r)) : s.length = 1 + c.length + r.length := by
  rw [(readVec8_eq_some h).1]; simp; omega

theorem readVec16_len {s c r : Bytes} (h : readVec16 s = some (c, r)) : s.length = 2 + c.length + r.length := by
  rw [(readVec16_eq_some h).1]; simp [be16]; omega

theorem readVec24_len {s c r : Bytes} (h : readVec24 s = some (c, r)) : s.length = 3 + c.length + r.length := by
  rw [(readVec24_eq_some h).1]; simp [be24]; omega

theorem readBytes_len {n : Nat} {s c r : Bytes} (h : readBytes n s = some (c, r)) : s.length = n + r.length := by
  obtain ⟨h1, h2⟩ := readBytes_eq_some h
  rw [h1, List.length_append, h2]

theorem skip_of_readBytes {n : Nat} {s c r : Bytes} (h : readBytes n s = some (c, r)) : skip n s = some r := by
  unfold readBytes at h
  unfold skip
  split at h
  · rename_i hn
    simp only [Option.some.injEq, Prod.mk.injEq] at h
    simp [hn, h.2]
  · cases h

theorem skip1_of_readU8 {s r : Bytes} {a : UInt8} (h : readU8 s = some (a, r)) : skip 1 s = some r := by
  rw [readU8_eq_some h]; simp [skip]

theorem skip2_of_readW16 {s r : Bytes} {w : W16} (h : readW16 s = some (w, r)) : skip 2 s = some r := by
  rw [readW16_eq_some h]; simp [skip, W16.bytes]

theorem dropVec8_of {s c r : Bytes} (h : readVec8 s = some (c, r)) : Spec.Codec.dropVec8 s = some r := by
  simp [Spec.Codec.dropVec8, h]
theorem dropVec16_of {s c r : Bytes} (h : readVec16 s = some (c, r)) : Spec.Codec.dropVec16 s = some r := by
  simp [Spec.Codec.dropVec16, h]
theorem dropVec24_of {s c r : Bytes} (h : readVec24 s = some (c, r)) : Spec.Codec.dropVec24 s = some r := by
  simp [Spec.Codec.dropVec24, h]

theorem isNil_of_isEmpty {s : Bytes} (h : isEmpty s = true) : Spec.Codec.isNil s = true := by
  rw [(isEmpty_iff s).mp h]; rfl

/-! ### ServerHello -/

theorem serverCase_ok (c : Codes) (hc : HelloCodes c) {st m' : ServerHello} {ty : Nat} {data d : Bytes} {cont : Bool}
    (h : serverExtCase c st ty data = some (m', d, cont)) (he : (cont || isEmpty d) = true) :
    Spec.Codec.serverExtDataOk ty data = true := by
  unfold serverExtCase at h
  rw [hc.status, hc.alpn, hc.sni] at h
  unfold Spec.Codec.serverExtDataOk
  by_cases h5 : ty = 5
  · simp only [h5, ↓reduceIte] at h ⊢
    cases h1 : readU8 data with
    | none => rw [h1] at h; cases h
    | some p =>
      obtain ⟨stt, d1⟩ := p
      rw [h1] at h
      simp only at h
      split at h
      · cases h
      · cases h2 : readVec24 d1 with
        | none => rw [h2] at h; cases h
        | some q =>
          obtain ⟨resp, d2⟩ := q
          rw [h2] at h
          simp only [Option.some.injEq, Prod.mk.injEq] at h
          obtain ⟨_, hd, hcnt⟩ := h
          subst hd; subst hcnt
          simp only [Bool.false_or] at he
          simp [Spec.Codec.dropN, skip1_of_readU8 h1, dropVec24_of h2, isNil_of_isEmpty he]
  · by_cases h16 : ty = 16
    · simp only [h16, show ¬ (16 = 5) by decide, ↓reduceIte] at h ⊢
      cases h1 : readVec16 data with
      | none => rw [h1] at h; cases h
      | some p =>
        obtain ⟨pl, d1⟩ := p
        rw [h1] at h
        simp only at h
        split at h
        · cases h
        · cases h2 : readVec8 pl with
          | none => rw [h2] at h; cases h
          | some q =>
            obtain ⟨proto, rest⟩ := q
            rw [h2] at h
            simp only at h
            split at h
            · cases h
            · rename_i hne
              simp only [Option.some.injEq, Prod.mk.injEq] at h
              obtain ⟨_, hd, hcnt⟩ := h
              subst hd; subst hcnt
              simp only [Bool.false_or] at he
              have hrest : rest = [] := by
                cases rest with
                | nil => rfl
                | cons _ _ => simp [isEmpty] at hne
              subst hrest
              have hpl := readVec8_len h2
              have : Spec.Codec.seqOk Spec.Codec.dropVec8 pl = true := by
                unfold Spec.Codec.seqOk
                cases hpc : pl with
                | nil => rfl
                | cons a t =>
                  rw [hpc] at h2
                  simp only [List.length_cons, Spec.Codec.itemsOk, dropVec8_of h2]
              simp [Spec.Codec.oneVec16, h1, (isEmpty_iff d1).mp he, Spec.Codec.isNil, this]
    · by_cases h0 : ty = 0
      · simp only [h0, show ¬ ((0 : Nat) = 5) by decide, show ¬ ((0 : Nat) = 16) by decide, ↓reduceIte] at h ⊢
        split at h
        · cases h
        · rename_i hl
          simp only [ne_eq, Decidable.not_not] at hl
          rw [List.eq_nil_of_length_eq_zero hl]; rfl
      · simp [h5, h16, h0]

theorem serverStep_item (c : Codes) (hc : HelloCodes c) (st : ServerHello) (s : Bytes) (st' : ServerHello) (r : Bytes)
    (h : serverExtStep c st s = some (st', r)) :
    Spec.Codec.extItem Spec.Codec.serverExtDataOk s = some r ∧ r.length < s.length := by
  unfold serverExtStep at h
  cases h1 : readU16 s with
  | none => rw [h1] at h; cases h
  | some p =>
    obtain ⟨ty, s1⟩ := p
    rw [h1] at h
    simp only at h
    cases h2 : readVec16 s1 with
    | none => rw [h2] at h; cases h
    | some q =>
      obtain ⟨data, s2⟩ := q
      rw [h2] at h
      simp only at h
      cases h3 : serverExtCase c st ty data with
      | none => rw [h3] at h; cases h
      | some t =>
        obtain ⟨m', d, cont⟩ := t
        rw [h3] at h
        simp only at h
        split at h
        · rename_i he
          simp only [Option.some.injEq, Prod.mk.injEq] at h
          obtain ⟨_, hr⟩ := h
          subst hr
          have := serverCase_ok c hc h3 he
          refine ⟨by simp [Spec.Codec.extItem, h1, h2, this], ?_⟩
          have l1 := readU16_len h1
          have l2 := readVec16_len h2
          omega
        · cases h

theorem extTail_of_loop {σ : Type} (step : σ → Bytes → Option (σ × Bytes)) (dataOk : Nat → Bytes → Bool)
    (hstep : ∀ st s st' r, step st s = some (st', r) → Spec.Codec.extItem dataOk s = some r ∧ r.length < s.length)
    {s5 : Bytes} {m0 m : σ}
    (h : (if isEmpty s5 then some m0 else
          match readVec16 s5 with
          | none => none
          | some (exts, s6) => if !isEmpty s6 then none else foldMany step exts.length m0 exts) = some m) :
    Spec.Codec.extTail dataOk s5 = true := by
  unfold Spec.Codec.extTail
  split at h
  · rename_i he; simp [isNil_of_isEmpty he]
  · cases h1 : readVec16 s5 with
    | none => rw [h1] at h; cases h
    | some p =>
      obtain ⟨exts, s6⟩ := p
      rw [h1] at h
      simp only at h
      split at h
      · cases h
      · rename_i he
        have he' : isEmpty s6 = true := by simpa using he
        have := itemsOk_of_foldMany step (Spec.Codec.extItem dataOk) hstep _ _ _ _ exts.length h (Nat.le_refl _)
        simp [Spec.Codec.oneVec16, h1, isNil_of_isEmpty he', Spec.Codec.seqOk, this]

theorem serverBody_shape (c : Codes) (hc : HelloCodes c) {body : Bytes} {m : ServerHello}
    (h : decServerHelloBody c body = some m) : Spec.Codec.serverHelloShape body = true := by
  unfold decServerHelloBody at h
  rw [hc.rnd] at h
  cases h1 : readW16 body with
  | none => rw [h1] at h; cases h
  | some p1 =>
    obtain ⟨vers, s1⟩ := p1
    rw [h1] at h; simp only at h
    cases h2 : readBytes 32 s1 with
    | none => rw [h2] at h; cases h
    | some p2 =>
      obtain ⟨rnd, s2⟩ := p2
      rw [h2] at h; simp only at h
      cases h3 : readVec8 s2 with
      | none => rw [h3] at h; cases h
      | some p3 =>
        obtain ⟨sid, s3⟩ := p3
        rw [h3] at h; simp only at h
        cases h4 : readW16 s3 with
        | none => rw [h4] at h; cases h
        | some p4 =>
          obtain ⟨suite, s4⟩ := p4
          rw [h4] at h; simp only at h
          cases h5 : readU8 s4 with
          | none => rw [h5] at h; cases h
          | some p5 =>
            obtain ⟨cm, s5⟩ := p5
            rw [h5] at h; simp only at h
            have ht := extTail_of_loop (serverExtStep c) Spec.Codec.serverExtDataOk (serverStep_item c hc) h
            have e1 : skip 34 body = some s2 := by
              rw [readW16_eq_some h1]
              obtain ⟨hs1, hl⟩ := readBytes_eq_some h2
              rw [hs1]
              have : (vers.bytes ++ (rnd ++ s2)) = (vers.bytes ++ rnd) ++ s2 := by simp
              rw [this]
              have hlen : (vers.bytes ++ rnd).length = 34 := by simp [W16.bytes, hl]
              rw [← hlen]; exact skip_append _ _
            have e2 : skip 3 s3 = some s5 := by
              rw [readW16_eq_some h4, readU8_eq_some h5]; simp [skip, W16.bytes]
            simp [Spec.Codec.serverHelloShape, Spec.Codec.dropN, e1, dropVec8_of h3, e2, ht]

/-! ### ClientHello -/

theorem sniStep_item (st : ClientHello) (s : Bytes) (st' : ClientHello) (r : Bytes) (h : sniStep st s = some (st', r)) :
    Spec.Codec.sniItem s = some r ∧ r.length < s.length := by
  unfold sniStep at h
  cases h1 : readU8 s with
  | none => rw [h1] at h; cases h
  | some p =>
    obtain ⟨nt, s1⟩ := p
    rw [h1] at h; simp only at h
    cases h2 : readVec16 s1 with
    | none => rw [h2] at h; cases h
    | some q =>
      obtain ⟨name, s2⟩ := q
      rw [h2] at h; simp only at h
      have hr : r = s2 := by
        split at h
        · cases h
        · split at h
          · simp only [Option.some.injEq, Prod.mk.injEq] at h; exact h.2.symm
          · split at h
            · simp only [Option.some.injEq, Prod.mk.injEq] at h; exact h.2.symm
            · split at h
              · cases h
              · simp only [Option.some.injEq, Prod.mk.injEq] at h; exact h.2.symm
      subst hr
      refine ⟨by simp [Spec.Codec.sniItem, Spec.Codec.dropN, skip1_of_readU8 h1, dropVec16_of h2], ?_⟩
      have l1 := readU8_len h1
      have l2 := readVec16_len h2
      omega

theorem taStep_itemOk (c : Codes) (hc : HelloCodes c) (st : ClientHello) (s : Bytes) (st' : ClientHello) (r : Bytes)
    (h : taStep c st s = some (st', r)) : Spec.Codec.taItem s = some r ∧ r.length < s.length := by
  unfold taStep at h
  rw [hc.pre, hc.keyH, hc.certH, hc.x509, hc.hash] at h
  cases h1 : readU8 s with
  | none => rw [h1] at h; cases h
  | some p =>
    obtain ⟨ty, s1⟩ := p
    rw [h1] at h; simp only at h
    have l1 := readU8_len h1
    unfold Spec.Codec.taItem
    rw [h1]
    simp only
    by_cases h0 : ty = 0
    · subst h0
      simp only [show (0 : UInt8).toNat = 0 from rfl, ↓reduceIte, Option.some.injEq, Prod.mk.injEq] at h
      obtain ⟨_, hr⟩ := h
      subst hr
      exact ⟨by simp, by omega⟩
    · have h0n : ¬ (ty.toNat = 0) := fun hh => h0 (UInt8.toNat_inj.mp hh)
      have b0 : (ty == 0) = false := by simpa using h0
      by_cases h45 : ty = 4 ∨ ty = 5
      · have hn : ty.toNat = 4 ∨ ty.toNat = 5 := by rcases h45 with hh | hh <;> simp [hh]
        have b45 : (ty == 4 || ty == 5) = true := by rcases h45 with hh | hh <;> simp [hh]
        simp only [h0n, ↓reduceIte, hn] at h
        cases h2 : readBytes 32 s1 with
        | none => rw [h2] at h; cases h
        | some q =>
          obtain ⟨id, s2⟩ := q
          rw [h2] at h
          simp only [Option.some.injEq, Prod.mk.injEq] at h
          obtain ⟨_, hr⟩ := h
          subst hr
          have l2 := readBytes_len h2
          exact ⟨by simp [b0, b45, Spec.Codec.dropN, skip_of_readBytes h2], by omega⟩
      · have hn : ¬ (ty.toNat = 4 ∨ ty.toNat = 5) := by
          intro hh; apply h45
          rcases hh with hh | hh
          · left; exact UInt8.toNat_inj.mp hh
          · right; exact UInt8.toNat_inj.mp hh
        have b45 : (ty == 4 || ty == 5) = false := by
          simp only [Bool.or_eq_false_iff, beq_eq_false_iff_ne, ne_eq]
          exact ⟨fun hh => h45 (Or.inl hh), fun hh => h45 (Or.inr hh)⟩
        simp only [h0n, ↓reduceIte, hn] at h
        by_cases h2 : ty = 2
        · subst h2
          simp only [show (2 : UInt8).toNat = 2 from rfl, ↓reduceIte] at h
          cases h3 : readVec16 s1 with
          | none => rw [h3] at h; cases h
          | some q =>
            obtain ⟨id, s2⟩ := q
            rw [h3] at h
            simp only [Option.some.injEq, Prod.mk.injEq] at h
            obtain ⟨_, hr⟩ := h
            subst hr
            have l2 := readVec16_len h3
            exact ⟨by simp [dropVec16_of h3], by omega⟩
        · have h2n : ¬ (ty.toNat = 2) := fun hh => h2 (UInt8.toNat_inj.mp hh)
          have b2 : (ty == 2) = false := by simpa using h2
          simp only [h2n, ↓reduceIte, Option.some.injEq, Prod.mk.injEq] at h
          obtain ⟨_, hr⟩ := h
          subst hr
          exact ⟨by simp [b0, b45, b2], by omega⟩

theorem alpnStep_itemOk (st : ClientHello) (s : Bytes) (st' : ClientHello) (r : Bytes) (h : alpnStep st s = some (st', r)) :
    Spec.Codec.dropVec8 s = some r ∧ r.length < s.length := by
  unfold alpnStep at h
  cases h1 : readVec8 s with
  | none => rw [h1] at h; cases h
  | some p =>
    obtain ⟨pr, s1⟩ := p
    rw [h1] at h; simp only at h
    split at h
    · cases h
    · simp only [Option.some.injEq, Prod.mk.injEq] at h
      obtain ⟨_, hr⟩ := h
      subst hr
      have := readVec8_len h1
      exact ⟨dropVec8_of h1, by omega⟩

theorem readW16_itemOk (s : Bytes) (x : W16) (r : Bytes) (h : readW16 s = some (x, r)) :
    Spec.Codec.dropN 2 s = some r ∧ r.length < s.length := by
  have := readW16_len h
  exact ⟨skip2_of_readW16 h, by omega⟩

theorem clientCase_ok (c : Codes) (hc : HelloCodes c) {st m' : ClientHello} {ty : Nat} {data d : Bytes} {cont : Bool}
    (h : clientExtCase c st ty data = some (m', d, cont)) (he : (cont || isEmpty d) = true) :
    Spec.Codec.clientExtDataOk ty data = true := by
  unfold clientExtCase at h
  rw [hc.sni, hc.tca, hc.status, hc.curves, hc.sigs, hc.alpn, hc.cid] at h
  unfold Spec.Codec.clientExtDataOk
  -- the six list-shaped extensions share the same skeleton: a vec16, a loop over it, nothing after it
  have list16 : ∀ (item : Bytes → Option Bytes) (lst dd : Bytes),
      readVec16 data = some (lst, dd) → isEmpty dd = true → Spec.Codec.itemsOk item lst.length lst = true →
      Spec.Codec.oneVec16 (Spec.Codec.seqOk item) data = true := by
    intro item lst dd h1 h2 h3
    simp [Spec.Codec.oneVec16, h1, isNil_of_isEmpty h2, Spec.Codec.seqOk, h3]
  by_cases t0 : ty = 0
  · simp only [t0, ↓reduceIte] at h ⊢
    cases h1 : readVec16 data with
    | none => rw [h1] at h; cases h
    | some p =>
      obtain ⟨lst, dd⟩ := p
      rw [h1] at h; simp only at h
      split at h
      · cases h
      · cases h2 : foldMany sniStep lst.length st lst with
        | none => rw [h2] at h; cases h
        | some m2 =>
          rw [h2] at h
          simp only [Option.some.injEq, Prod.mk.injEq] at h
          obtain ⟨_, hd, hcnt⟩ := h
          subst hd; subst hcnt
          simp only [Bool.false_or] at he
          exact list16 _ _ _ h1 he (itemsOk_of_foldMany sniStep Spec.Codec.sniItem sniStep_item _ _ _ _ _ h2 (Nat.le_refl _))
  · by_cases t3 : ty = 3
    · simp only [t3, show ¬ ((3 : Nat) = 0) by decide, ↓reduceIte] at h ⊢
      cases h1 : readVec16 data with
      | none => rw [h1] at h; cases h
      | some p =>
        obtain ⟨lst, dd⟩ := p
        rw [h1] at h; simp only at h
        split at h
        · cases h
        · cases h2 : foldMany (taStep c) lst.length st lst with
          | none => rw [h2] at h; cases h
          | some m2 =>
            rw [h2] at h
            simp only [Option.some.injEq, Prod.mk.injEq] at h
            obtain ⟨_, hd, hcnt⟩ := h
            subst hd; subst hcnt
            simp only [Bool.false_or] at he
            exact list16 _ _ _ h1 he
              (itemsOk_of_foldMany (taStep c) Spec.Codec.taItem (taStep_itemOk c hc) _ _ _ _ _ h2 (Nat.le_refl _))
    · by_cases t5 : ty = 5
      · simp only [t5, show ¬ ((5 : Nat) = 0) by decide, show ¬ ((5 : Nat) = 3) by decide, ↓reduceIte] at h ⊢
        cases h1 : readU8 data with
        | none => rw [h1] at h; cases h
        | some p =>
          obtain ⟨stt, d1⟩ := p
          rw [h1] at h; simp only at h
          cases h2 : readVec16 d1 with
          | none => rw [h2] at h; cases h
          | some q =>
            obtain ⟨x1, d2⟩ := q
            rw [h2] at h; simp only at h
            cases h3 : readVec16 d2 with
            | none => rw [h3] at h; cases h
            | some q2 =>
              obtain ⟨x2, d3⟩ := q2
              rw [h3] at h
              simp only [Option.some.injEq, Prod.mk.injEq] at h
              obtain ⟨_, hd, hcnt⟩ := h
              subst hd; subst hcnt
              simp only [Bool.false_or] at he
              simp [Spec.Codec.dropN, skip1_of_readU8 h1, dropVec16_of h2, dropVec16_of h3, isNil_of_isEmpty he]
      · by_cases t10 : ty = 10
        · simp only [t10, show ¬ ((10 : Nat) = 0) by decide, show ¬ ((10 : Nat) = 3) by decide,
            show ¬ ((10 : Nat) = 5) by decide, true_or, ↓reduceIte] at h ⊢
          cases h1 : readVec16 data with
          | none => rw [h1] at h; cases h
          | some p =>
            obtain ⟨lst, dd⟩ := p
            rw [h1] at h; simp only at h
            split at h
            · cases h
            · cases h2 : many readW16 lst.length lst with
              | none => rw [h2] at h; cases h
              | some l =>
                rw [h2] at h
                simp only [Option.some.injEq, Prod.mk.injEq] at h
                obtain ⟨_, hd, hcnt⟩ := h
                subst hd; subst hcnt
                simp only [Bool.false_or] at he
                exact list16 _ _ _ h1 he
                  (itemsOk_of_many readW16 (Spec.Codec.dropN 2) readW16_itemOk _ _ _ _ h2 (Nat.le_refl _))
        · by_cases t13 : ty = 13
          · simp only [t13, show ¬ ((13 : Nat) = 0) by decide, show ¬ ((13 : Nat) = 3) by decide,
              show ¬ ((13 : Nat) = 5) by decide, show ¬ ((13 : Nat) = 10) by decide, or_true, ↓reduceIte] at h ⊢
            cases h1 : readVec16 data with
            | none => rw [h1] at h; cases h
            | some p =>
              obtain ⟨lst, dd⟩ := p
              rw [h1] at h; simp only at h
              split at h
              · cases h
              · cases h2 : many readW16 lst.length lst with
                | none => rw [h2] at h; cases h
                | some l =>
                  rw [h2] at h
                  simp only [Option.some.injEq, Prod.mk.injEq] at h
                  obtain ⟨_, hd, hcnt⟩ := h
                  subst hd; subst hcnt
                  simp only [Bool.false_or] at he
                  exact list16 _ _ _ h1 he
                    (itemsOk_of_many readW16 (Spec.Codec.dropN 2) readW16_itemOk _ _ _ _ h2 (Nat.le_refl _))
          · by_cases t16 : ty = 16
            · simp only [t16, show ¬ ((16 : Nat) = 0) by decide, show ¬ ((16 : Nat) = 3) by decide,
                show ¬ ((16 : Nat) = 5) by decide, show ¬ ((16 : Nat) = 10) by decide,
                show ¬ ((16 : Nat) = 13) by decide, or_self, ↓reduceIte] at h ⊢
              cases h1 : readVec16 data with
              | none => rw [h1] at h; cases h
              | some p =>
                obtain ⟨lst, dd⟩ := p
                rw [h1] at h; simp only at h
                split at h
                · cases h
                · cases h2 : foldMany alpnStep lst.length st lst with
                  | none => rw [h2] at h; cases h
                  | some m2 =>
                    rw [h2] at h
                    simp only [Option.some.injEq, Prod.mk.injEq] at h
                    obtain ⟨_, hd, hcnt⟩ := h
                    subst hd; subst hcnt
                    simp only [Bool.false_or] at he
                    exact list16 _ _ _ h1 he
                      (itemsOk_of_foldMany alpnStep Spec.Codec.dropVec8 alpnStep_itemOk _ _ _ _ _ h2 (Nat.le_refl _))
            · by_cases t66 : ty = 66
              · simp only [t66, show ¬ ((66 : Nat) = 0) by decide, show ¬ ((66 : Nat) = 3) by decide,
                  show ¬ ((66 : Nat) = 5) by decide, show ¬ ((66 : Nat) = 10) by decide,
                  show ¬ ((66 : Nat) = 13) by decide, show ¬ ((66 : Nat) = 16) by decide, or_self, ↓reduceIte] at h ⊢
                cases h1 : readVec16 data with
                | none => rw [h1] at h; cases h
                | some p =>
                  obtain ⟨id, dd⟩ := p
                  rw [h1] at h
                  simp only [Option.some.injEq, Prod.mk.injEq] at h
                  obtain ⟨_, hd, hcnt⟩ := h
                  subst hd; subst hcnt
                  simp only [Bool.false_or] at he
                  simp [Spec.Codec.oneVec16, h1, isNil_of_isEmpty he]
              · simp [t0, t3, t5, t10, t13, t16, t66]

theorem clientStep_item (c : Codes) (hc : HelloCodes c) (st : ClientHello) (s : Bytes) (st' : ClientHello) (r : Bytes)
    (h : clientExtStep c st s = some (st', r)) :
    Spec.Codec.extItem Spec.Codec.clientExtDataOk s = some r ∧ r.length < s.length := by
  unfold clientExtStep at h
  cases h1 : readU16 s with
  | none => rw [h1] at h; cases h
  | some p =>
    obtain ⟨ty, s1⟩ := p
    rw [h1] at h
    simp only at h
    cases h2 : readVec16 s1 with
    | none => rw [h2] at h; cases h
    | some q =>
      obtain ⟨data, s2⟩ := q
      rw [h2] at h
      simp only at h
      cases h3 : clientExtCase c st ty data with
      | none => rw [h3] at h; cases h
      | some t =>
        obtain ⟨m', d, cont⟩ := t
        rw [h3] at h
        simp only at h
        split at h
        · rename_i he
          simp only [Option.some.injEq, Prod.mk.injEq] at h
          obtain ⟨_, hr⟩ := h
          subst hr
          have := clientCase_ok c hc h3 he
          refine ⟨by simp [Spec.Codec.extItem, h1, h2, this], ?_⟩
          have l1 := readU16_len h1
          have l2 := readVec16_len h2
          omega
        · cases h

theorem clientBody_shape (c : Codes) (hc : HelloCodes c) (st : Stack) {body : Bytes} {m : ClientHello}
    (h : decClientHelloBody c (decide (st = .dtlcp)) body = some m) : Spec.Codec.clientHelloShape st body = true := by
  unfold decClientHelloBody at h
  rw [hc.rnd] at h
  cases h1 : readW16 body with
  | none => rw [h1] at h; cases h
  | some p1 =>
    obtain ⟨vers, s1⟩ := p1
    rw [h1] at h; simp only at h
    cases h2 : readBytes 32 s1 with
    | none => rw [h2] at h; cases h
    | some p2 =>
      obtain ⟨rnd, s2⟩ := p2
      rw [h2] at h; simp only at h
      cases h3 : readVec8 s2 with
      | none => rw [h3] at h; cases h
      | some p3 =>
        obtain ⟨sid, s3⟩ := p3
        rw [h3] at h; simp only at h
        cases h4 : (if decide (st = .dtlcp) = true then readVec8 s3 else some ([], s3)) with
        | none => rw [h4] at h; cases h
        | some p4 =>
          obtain ⟨ck, s4⟩ := p4
          rw [h4] at h; simp only at h
          cases h5 : readVec16 s4 with
          | none => rw [h5] at h; cases h
          | some p5 =>
            obtain ⟨csb, s5⟩ := p5
            rw [h5] at h; simp only at h
            cases h6 : many readW16 csb.length csb with
            | none => rw [h6] at h; cases h
            | some suites =>
              rw [h6] at h; simp only at h
              cases h7 : readVec8 s5 with
              | none => rw [h7] at h; cases h
              | some p7 =>
                obtain ⟨cm, s6⟩ := p7
                rw [h7] at h; simp only at h
                have ht := extTail_of_loop (clientExtStep c) Spec.Codec.clientExtDataOk (clientStep_item c hc) h
                have e1 : skip 34 body = some s2 := by
                  rw [readW16_eq_some h1]
                  obtain ⟨hs1, hl⟩ := readBytes_eq_some h2
                  rw [hs1]
                  have : (vers.bytes ++ (rnd ++ s2)) = (vers.bytes ++ rnd) ++ s2 := by simp
                  rw [this]
                  have hlen : (vers.bytes ++ rnd).length = 34 := by simp [W16.bytes, hl]
                  rw [← hlen]; exact skip_append _ _
                have e4 : (if st = .dtlcp then Spec.Codec.dropVec8 s3 else some s3) = some s4 := by
                  by_cases hst : st = .dtlcp
                  · simp only [hst, decide_true, ↓reduceIte] at h4 ⊢
                    exact dropVec8_of h4
                  · simp only [hst, decide_false, Bool.false_eq_true, ↓reduceIte, Option.some.injEq, Prod.mk.injEq] at h4 ⊢
                    exact h4.2
                have hs := itemsOk_of_many readW16 (Spec.Codec.dropN 2) readW16_itemOk _ _ _ _ h6 (Nat.le_refl _)
                simp [Spec.Codec.clientHelloShape, Spec.Codec.dropN, e1, dropVec8_of h3, e4, h5, Spec.Codec.seqOk, hs,
                  dropVec8_of h7, ht]

/-! ### message level -/

theorem ofOption_ok {α : Type} {o : Option α} {m : α} (h : Outcome.ofOption o = .ok m) : o = some m := by
  cases o with
  | none => simp [Outcome.ofOption] at h
  | some x => simp only [Outcome.ofOption, Outcome.ok.injEq] at h; rw [h]

theorem strict_serverHello_tlcp (c : Codes) (hc : HelloCodes c) (hon : c.complete.contains c.tServerHello = true)
    {b : Bytes} {m : ServerHello} (h : unmarshalServerHello c b = .ok m) :
    Spec.Codec.shape .tlcp .serverHello b = true := by
  obtain ⟨hk, body, hb, hl⟩ := guardT_ok hon h
  subst hb
  apply shape_tlcp_mk _ _ hl
  rw [decServerHello, skip4] at hk
  exact serverBody_shape c hc (ofOption_ok hk)

theorem strict_clientHello_tlcp (c : Codes) (hc : HelloCodes c) (hon : c.complete.contains c.tClientHello = true)
    {b : Bytes} {m : ClientHello} (h : unmarshalClientHello c b = .ok m) :
    Spec.Codec.shape .tlcp .clientHello b = true := by
  obtain ⟨hk, body, hb, hl⟩ := guardT_ok hon h
  subst hb
  apply shape_tlcp_mk _ _ hl
  rw [decClientHello, skip4] at hk
  exact clientBody_shape c hc .tlcp (ofOption_ok hk)

theorem strict_serverHello_dtlcp (c : Codes) (hc : HelloCodes c) (r : Lemmas.CodecDtlcp.Ready c c.tServerHello)
    {b : Bytes} {x : DHdr × ServerHello} (h : Model.CodecDtlcp.decServerHello c b = .ok x) :
    Spec.Codec.shape .dtlcp .serverHello b = true := by
  obtain ⟨hk, seq, body, hb, hl⟩ := Lemmas.CodecDtlcp.guard_ok r.hl r.on h
  subst hb
  apply Lemmas.CodecDtlcp.shape_dtlcp_mk _ _ _ hl
  rw [Lemmas.CodecDtlcp.unmarshalHeader_complete _ _ hl] at hk
  simp only at hk
  split at hk
  · cases hk
  · cases hd : decServerHelloBody c body with
    | none => rw [hd] at hk; cases hk
    | some m => exact serverBody_shape c hc hd

theorem strict_clientHello_dtlcp (c : Codes) (hc : HelloCodes c) (r : Lemmas.CodecDtlcp.Ready c c.tClientHello)
    {b : Bytes} {x : DHdr × ClientHello} (h : Model.CodecDtlcp.decClientHello c b = .ok x) :
    Spec.Codec.shape .dtlcp .clientHello b = true := by
  obtain ⟨hk, seq, body, hb, hl⟩ := Lemmas.CodecDtlcp.guard_ok r.hl r.on h
  subst hb
  apply Lemmas.CodecDtlcp.shape_dtlcp_mk _ _ _ hl
  rw [Lemmas.CodecDtlcp.unmarshalHeader_complete _ _ hl] at hk
  simp only at hk
  split at hk
  · cases hk
  · cases hd : decClientHelloBody c true body with
    | none => rw [hd] at hk; cases hk
    | some m => exact clientBody_shape c hc .dtlcp hd

end Gotlcp.Lemmas.CodecHelloStrict

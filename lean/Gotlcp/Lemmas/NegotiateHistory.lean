/-
Helper lemmas for the history part of C01: several connections between the same two parties,
the reconfigurable settings (`Reconf`) possibly changing in between.  With the documented
tables (`refParams`) every connection of every history is judged `connOK` by the spec.
-/
import Gotlcp.Lemmas.Negotiate

set_option linter.unusedSimpArgs false
set_option linter.unusedVariables false

namespace Gotlcp.Lemmas.Negotiate
open Gotlcp.Negotiate
open Gotlcp.Model.Negotiate
open Gotlcp.Spec.Negotiate

/-- the key flags `processClientHello` finds for an SM2 signing and an SM2 encryption key -/
def kSM2 : KeyFlags := { ecSignOk := true, ecDecryptOk := true, rsaDecryptOk := false, rsaSignOk := false }

/-! ### what a compatible pair consists of -/

theorem compatible_facts (c : ClientCfg) (s : ServerCfg) (h : compatible c s = true) :
    versionOK c.minV c.maxV = true ∧ versionOK s.minV s.maxV = true ∧
    serverHasCerts s = true ∧ s.sigKey = .sm2 ∧ s.encKey = .sm2 ∧
    ∃ suite, mutualSuite c s = some suite ∧ suite ∈ docOrder ∧ usable c s suite = true ∧
      authOK c s suite = true := by
  obtain ⟨hvc, hvs, _, ⟨suite, hm, hao⟩⟩ := compatible_parts c s h
  have hmem : suite ∈ docOrder := List.mem_of_find?_eq_some hm
  have hus : usable c s suite = true := List.find?_some hm
  obtain ⟨hkeys, _⟩ := usable_keys c s suite hus
  unfold serverHasKeys at hkeys
  simp only [Bool.and_eq_true, beq_iff_eq] at hkeys
  obtain ⟨⟨hcerts, hsig⟩, henc⟩ := hkeys
  have hsc : serverHasCerts s = true := by rw [serverHasCerts_eq]; simpa using hcerts
  exact ⟨hvc, hvs, hsc, hsig, henc, suite, hm, hmem, hus, hao⟩

/-! ### the three ways a handshake that was offered a session can go -/

/-- no common application protocol: the handshake fails before anything else is looked at -/
theorem handshake_alpn_none (sess : Option Session) (c : ClientCfg) (s : ServerCfg)
    (hvc : versionOK c.minV c.maxV = true) (hvs : versionOK s.minV s.maxV = true)
    (ha : alpnRule s.alpn c.alpn = none) :
    handshake refParams sess c s = .error .alpn := by
  unfold handshake
  simp only [cloneClient_ref, cloneServer_ref, supportedVersions_ref, negotiateALPN_ref, hvc, hvs, if_true,
    versionsFromMax_ref, mutualVersion_ref, ha]

/-- the server does not resume: the handshake is the one of a first connection -/
theorem handshake_not_resumed (ss : Session) (c : ClientCfg) (s : ServerCfg)
    (hvc : versionOK c.minV c.maxV = true) (hvs : versionOK s.minV s.maxV = true)
    (hsc : serverHasCerts s = true) (hsig : s.sigKey = .sm2) (henc : s.encKey = .sm2)
    (hres : (c.cache && s.cache && serverResumes refParams kSM2 s 257 (offeredSuites refParams c) ss) = false) :
    handshake refParams (some ss) c s = negotiate refParams c s := by
  unfold negotiate handshake
  simp only [cloneClient_ref, cloneServer_ref, supportedVersions_ref, negotiateALPN_ref, hvc, hvs, if_true,
    versionsFromMax_ref, mutualVersion_ref, hsc, Bool.not_true, Bool.false_eq_true, if_false, keyFlags, hsig, henc]
  cases ha : alpnRule s.alpn c.alpn with
  | none => rfl
  | some proto =>
    simp only []
    have hcv : ([257] : List Nat).contains 257 = true := by decide
    simp only [hcv, Bool.not_true, Bool.false_eq_true, if_false]
    unfold kSM2 at hres
    simp only [hres, Bool.false_eq_true, if_false]

/-- the server resumes: both ends report the session's suite and certificates -/
theorem handshake_resumed (ss : Session) (c : ClientCfg) (s : ServerCfg) (proto : String)
    (hvc : versionOK c.minV c.maxV = true) (hvs : versionOK s.minV s.maxV = true)
    (hsc : serverHasCerts s = true) (hsig : s.sigKey = .sm2) (henc : s.encKey = .sm2)
    (ha : alpnRule s.alpn c.alpn = some proto)
    (hres : (c.cache && s.cache && serverResumes refParams kSM2 s 257 (offeredSuites refParams c) ss) = true)
    (hmut : mutualCipherSuite refParams (offeredSuites refParams c) ss.suite = true)
    (hv : ss.vers = 257)
    (hchk : isOk (serverCheckCerts refParams c s ss.suite ss.serverPeer true) = true) :
    handshake refParams (some ss) c s =
      .ok { client := { vers := 257, suite := ss.suite, alpn := proto, resumed := true,
                        peerCerts := ss.clientPeer, serverName := c.serverName },
            server := { vers := 257, suite := ss.suite, alpn := proto, resumed := true,
                        peerCerts := ss.serverPeer, serverName := sniOf c } } := by
  unfold handshake
  simp only [cloneClient_ref, cloneServer_ref, supportedVersions_ref, negotiateALPN_ref, hvc, hvs, if_true,
    versionsFromMax_ref, mutualVersion_ref, hsc, Bool.not_true, Bool.false_eq_true, if_false, keyFlags, hsig, henc, ha]
  have hcv : ([257] : List Nat).contains 257 = true := by decide
  simp only [hcv, Bool.not_true, Bool.false_eq_true, if_false]
  unfold kSM2 at hres
  simp only [hres, if_true, hmut, checkALPN_of_rule _ _ _ ha, hv, bne_self_eq_false, hchk,
    show refParams.resumeHonoursPolicy = true from rfl, Bool.true_and,
    Bool.not_true, Bool.false_eq_true, if_false]

/-! ### `checkForResumption`, in the words of the spec -/

theorem configSuites_contains_ref (cs : Option (List Nat)) (id : Nat) (hid : id ∈ docOrder) :
    (configSuites refParams cs).contains id = enabled cs id := by
  have := mutual_ref cs id hid
  unfold mutualCipherSuite at this
  rcases mem_docOrder hid with h | h | h | h <;> subst h <;>
    simpa [flagsOf, refParams, List.find?] using this

theorem serverResumes_ref (c : ClientCfg) (s : ServerCfg) (X : Nat) (hmem : X ∈ docOrder)
    (cp certs : List CertSym) :
    serverResumes refParams kSM2 s 257 (offeredSuites refParams c)
      { vers := 257, suite := X, clientPeer := cp, serverPeer := certs } =
    (!(requiresClientCert refParams s.auth && !decide (certs.length ≠ 0)) &&
     !(decide (certs.length ≠ 0) && authVal refParams s.auth == authVal refParams .noClientCert) &&
     ((enabled c.suites X && (!isECDHE X || (clientHasSig c && clientHasEnc c))) && enabled s.suites X)) := by
  have h2 := configSuites_contains_ref s.suites X hmem
  unfold serverResumes selectCipherSuite
  rw [offered_ref, contains_filter', docOrder_contains hmem]
  simp only [show refParams.resumeHonoursPolicy = true from rfl, show refParams.resumeSuiteGuards = true from rfl,
    if_true, Bool.true_and, List.find?, h2]
  generalize requiresClientCert refParams s.auth = a1
  generalize (authVal refParams s.auth == authVal refParams .noClientCert) = a2
  rcases mem_docOrder hmem with e | e | e | e <;> subst e <;>
    simp [flagsOf, refParams, List.find?, cipherSuiteOk, kSM2] <;>
    cases enabled s.suites _ <;> rfl

/-! ### the client-authentication rule looks at a suite only through its key exchange -/

theorem authOK_congr (c : ClientCfg) (s : ServerCfg) (a b : Nat) (h : isECDHE a = isECDHE b) :
    authOK c s a = authOK c s b := by
  unfold authOK clientCertsSeen requested
  rw [h]

/-- whoever satisfies the server's policy under ECDHE (two certificates, verified when the
policy verifies) satisfies it under ECC -/
theorem authOK_ecc_of_ecdhe (c : ClientCfg) (s : ServerCfg) (a b : Nat)
    (ha : isECDHE a = true) (hb : isECDHE b = false) (h : authOK c s a = true) : authOK c s b = true := by
  revert h
  unfold authOK clientCertsSeen requested presented clientHasSig clientHasEnc
  rw [ha, hb]
  cases c with | mk csu n gc gk fam al sn ip ca mn mx cl =>
  cases s with | mk ssu sn2 sgc sgk sk ek sal auth cas sca smn smx scl =>
  simp only
  rcases n with _ | _ | n <;> cases gc <;> cases gk <;> cases fam <;> cases auth <;> cases cas <;>
    simp [CAKind.accepts, CAKind.verifies, requiresCert, verifiesCert]

/-- a session's suite that both configurations in use enable, under a policy the recorded
certificates satisfy: the configurations are compatible -/
theorem compatible_of_usable (c : ClientCfg) (s : ServerCfg) (X : Nat) (proto : String) (hmem : X ∈ docOrder)
    (hvc : versionOK c.minV c.maxV = true) (hvs : versionOK s.minV s.maxV = true)
    (ha : alpnRule s.alpn c.alpn = some proto) (hus : usable c s X = true) (hao : authOK c s X = true) :
    compatible c s = true := by
  unfold compatible
  rw [hvc, hvs, ha]
  simp only [Bool.true_and, Option.isSome_some, Bool.and_self]
  cases hm : mutualSuite c s with
  | none =>
    exfalso
    unfold mutualSuite at hm
    rw [List.find?_eq_none] at hm
    exact absurd hus (hm X hmem)
  | some X' =>
    simp only
    have hmem' : X' ∈ docOrder := List.mem_of_find?_eq_some hm
    unfold mutualSuite docOrder at hm
    rcases mem_docOrder hmem with e | e | e | e <;> rcases mem_docOrder hmem' with e' | e' | e' | e' <;>
      subst e <;> subst e' <;>
      first
      | exact hao
      | exact (authOK_congr c s _ _ (by decide)).trans hao
      | exact authOK_ecc_of_ecdhe c s _ _ (by decide) (by decide) hao
      | (exfalso; cases h1 : usable c s 0xe053 <;>
          simp_all [List.find?, ECC_GCM, ECC_CBC, ECDHE_GCM, ECDHE_CBC])

/-! ### one connection of a history -/

def offeredOf (st : Caches) (c : ClientCfg) : Option Session := if c.cache then st.sess else none

def foundOf (st : Caches) (c : ClientCfg) (s : ServerCfg) : Option Session :=
  if s.cache && st.known then offeredOf st c else none

def cachesAfter (st : Caches) (c : ClientCfg) (s : ServerCfg) (r : Except Failure Agreed) : Caches :=
  match r with
  | .error _ => if (offeredOf st c).isSome then {} else st
  | .ok a =>
    if a.client.resumed then st
    else if c.cache then { sess := some (sessionOf a), known := s.cache }
    else st

theorem connect_unfold (st : Caches) (c : ClientCfg) (s : ServerCfg) :
    connect refParams st c s =
      (handshake refParams (foundOf st c s) c s,
       cachesAfter st c s (handshake refParams (foundOf st c s) c s)) := by
  unfold connect
  simp only [cloneClient_ref, cloneServer_ref]
  rfl

/-- Invariant of a history of the parties `c0`, `s0`: the session the client's cache holds,
if any, is the one of the most recent successful full handshake `o`, and that was the first
connection of a compatible reconfiguration of the same two parties. -/
def HInv (c0 : ClientCfg) (s0 : ServerCfg) (st : Caches) (o : Option Agreed) : Prop :=
  st.sess = none ∨
  ∃ r' : Reconf, c0.cache = true ∧ compatible (r'.client c0) (r'.server s0) = true ∧
    o = some (expected (r'.client c0) (r'.server s0)) ∧
    st.sess = some (sessionOf (expected (r'.client c0) (r'.server s0)))

/-- a connection that runs a full handshake is judged like a first connection and keeps the invariant -/
theorem full_step (c0 : ClientCfg) (s0 : ServerCfg) (r : Reconf) (st : Caches) (o : Option Agreed)
    (hinv : HInv c0 s0 st o) :
    connOK (r.client c0) (r.server s0) o (outcome (negotiate refParams (r.client c0) (r.server s0))) = true ∧
    HInv c0 s0 (cachesAfter st (r.client c0) (r.server s0) (negotiate refParams (r.client c0) (r.server s0)))
      (nextOrigin o (outcome (negotiate refParams (r.client c0) (r.server s0)))) := by
  obtain ⟨h1, h2⟩ := negotiate_ref (r.client c0) (r.server s0)
  cases hc : compatible (r.client c0) (r.server s0) with
  | true =>
    rw [h1 hc]
    have hres : (expected (r.client c0) (r.server s0)).client.resumed = false := rfl
    have hres' : (expected (r.client c0) (r.server s0)).server.resumed = false := rfl
    refine ⟨?_, ?_⟩
    · simp [outcome, Except.toOption, connOK, hc, hres, hres']
    · simp only [outcome, Except.toOption, nextOrigin, cachesAfter, hres, hres', Bool.or_self, Bool.false_eq_true, if_false]
      have hcc : (r.client c0).cache = c0.cache := rfl
      rw [hcc]
      cases hca : c0.cache with
      | true => exact Or.inr ⟨r, hca, hc, rfl, rfl⟩
      | false =>
        simp only [Bool.false_eq_true, if_false]
        rcases hinv with h | ⟨_, h, _⟩
        · exact Or.inl h
        · rw [hca] at h; cases h
  | false =>
    have hf := h2 hc
    cases hn : negotiate refParams (r.client c0) (r.server s0) with
    | ok a => rw [hn] at hf; simp [isOk] at hf
    | error e =>
      refine ⟨?_, ?_⟩
      · simp [outcome, Except.toOption, connOK, hc]
      · simp only [outcome, Except.toOption, nextOrigin, cachesAfter]
        split
        · exact Or.inl rfl
        · exact hinv

/-- Every connection of a history — full, resumed, or refused — is judged `connOK` by the
spec, and leaves the caches in a state that keeps the invariant. -/
theorem connect_ref (c0 : ClientCfg) (s0 : ServerCfg) (r : Reconf) (st : Caches) (o : Option Agreed)
    (hinv : HInv c0 s0 st o) :
    connOK (r.client c0) (r.server s0) o (outcome (connect refParams st (r.client c0) (r.server s0)).1) = true ∧
    HInv c0 s0 (connect refParams st (r.client c0) (r.server s0)).2
      (nextOrigin o (outcome (connect refParams st (r.client c0) (r.server s0)).1)) := by
  rw [connect_unfold]
  simp only
  cases hf : foundOf st (r.client c0) (r.server s0) with
  | none => exact full_step c0 s0 r st o hinv
  | some ss =>
    have hfs : (r.server s0).cache = true ∧ st.known = true ∧ c0.cache = true ∧ st.sess = some ss := by
      unfold foundOf offeredOf at hf
      have hcc : (r.client c0).cache = c0.cache := rfl
      rw [hcc] at hf
      cases h1 : (r.server s0).cache <;> cases h2 : st.known <;> cases h3 : c0.cache <;> simp_all
    obtain ⟨hsca, hkn, hcca, hsess⟩ := hfs
    rcases hinv with h | ⟨r', _, hc', ho, hs'⟩
    · rw [h] at hsess; cases hsess
    · have hss : ss = sessionOf (expected (r'.client c0) (r'.server s0)) := by
        rw [hs'] at hsess; exact (Option.some.inj hsess).symm
      obtain ⟨hvc, hvs, hsc, hsig, henc, X, hm, hmem, hus', hao'⟩ := compatible_facts _ _ hc'
      -- the two parties are the same: identity fields carry over by definition
      have hvc2 : versionOK (r.client c0).minV (r.client c0).maxV = true := hvc
      have hvs2 : versionOK (r.server s0).minV (r.server s0).maxV = true := hvs
      have hsc2 : serverHasCerts (r.server s0) = true := hsc
      have hsig2 : (r.server s0).sigKey = .sm2 := hsig
      have henc2 : (r.server s0).encKey = .sm2 := henc
      have hao : authOK (r.client c0) (r.server s0) X = true := hao'
      have hkeys : serverHasKeys (r.server s0) = true := (usable_keys _ _ _ hus').1
      have hssv : ss = { vers := 257, suite := X, clientPeer := [.S, .E],
                         serverPeer := clientCertsSeen (r.client c0) (r.server s0) X } := by
        rw [hss]
        unfold sessionOf expected expectedWith
        simp only [hm, Option.getD_some]
        rfl
      have hinv' : HInv c0 s0 st o := Or.inr ⟨r', hcca, hc', ho, hs'⟩
      cases ha : alpnRule (r.server s0).alpn (r.client c0).alpn with
      | none =>
        rw [handshake_alpn_none _ _ _ hvc2 hvs2 ha]
        have hcomp : compatible (r.client c0) (r.server s0) = false := by
          unfold compatible; rw [ha]; simp
        refine ⟨by simp [outcome, Except.toOption, connOK, hcomp], ?_⟩
        simp only [outcome, Except.toOption, nextOrigin, cachesAfter]
        split
        · exact Or.inl rfl
        · exact hinv'
      | some proto =>
        cases hres : ((r.client c0).cache && (r.server s0).cache &&
            serverResumes refParams kSM2 (r.server s0) 257 (offeredSuites refParams (r.client c0)) ss) with
        | false =>
          rw [handshake_not_resumed ss _ _ hvc2 hvs2 hsc2 hsig2 henc2 hres]
          exact full_step c0 s0 r st o hinv'
        | true =>
          have hres2 := hres
          rw [show (r.client c0).cache = true from hcca, hsca, Bool.true_and, Bool.true_and, hssv,
            serverResumes_ref _ _ X hmem] at hres2
          simp only [Bool.and_eq_true] at hres2
          obtain ⟨_, ⟨hA1, hA2⟩, hB⟩ := hres2
          have hus : usable (r.client c0) (r.server s0) X = true := by
            unfold usable
            rw [hkeys, hA1, hA2, hB]
            rfl
          obtain ⟨hr1, hr2, hr3⟩ := resume_checks_ref (r.client c0) (r.server s0) X hmem hao
          have hmut : mutualCipherSuite refParams (offeredSuites refParams (r.client c0)) ss.suite = true := by
            rw [hssv]; exact offered_contains_of_usable _ _ X hmem hus
          have hv : ss.vers = 257 := by rw [hssv]
          have hchk : isOk (serverCheckCerts refParams (r.client c0) (r.server s0) ss.suite ss.serverPeer true) = true := by
            rw [hssv]; exact hr3
          rw [handshake_resumed ss _ _ proto hvc2 hvs2 hsc2 hsig2 henc2 ha hres hmut hv hchk]
          have hcomp := compatible_of_usable _ _ X proto hmem hvc2 hvs2 ha hus hao
          have hsuite : (expected (r'.client c0) (r'.server s0)).client.suite = X := by
            show (mutualSuite _ _).getD 0 = X
            rw [hm]; rfl
          have heq : ({ client := { vers := 257, suite := ss.suite, alpn := proto, resumed := true,
                                    peerCerts := ss.clientPeer, serverName := (r.client c0).serverName },
                        server := { vers := 257, suite := ss.suite, alpn := proto, resumed := true,
                                    peerCerts := ss.serverPeer, serverName := sniOf (r.client c0) } } : Agreed) =
              resumedFrom (expected (r'.client c0) (r'.server s0)) (r.client c0) (r.server s0) := by
            have hpeer : (expected (r'.client c0) (r'.server s0)).server.peerCerts =
                clientCertsSeen (r.client c0) (r.server s0) X := by
              show clientCertsSeen _ _ ((mutualSuite _ _).getD 0) = _
              rw [hm]; rfl
            rw [hssv]
            unfold resumedFrom
            rw [hsuite, ha, hpeer]
            rfl
          refine ⟨?_, ?_⟩
          · rw [heq, ho]
            have hcc : (r.client c0).cache = true := hcca
            simp [outcome, Except.toOption, connOK, hcomp, resumedFrom, hcc, hsca, hsuite, hus]
          · simp only [outcome, Except.toOption, nextOrigin, cachesAfter, Bool.true_or, if_true]
            exact hinv'

/-- the whole history, from any state that satisfies the invariant -/
theorem history_ref (c0 : ClientCfg) (s0 : ServerCfg) (rs : List Reconf) (st : Caches) (o : Option Agreed)
    (hinv : HInv c0 s0 st o) :
    historyOK c0 s0 o rs ((runHistory refParams c0 s0 st rs).map outcome) = true := by
  induction rs generalizing st o with
  | nil => rfl
  | cons r rs ih =>
    obtain ⟨h1, h2⟩ := connect_ref c0 s0 r st o hinv
    simp only [runHistory, List.map_cons, historyOK, h1, Bool.true_and]
    exact ih _ _ h2

/-! ### reading `historyOK` connection by connection -/

/-- what `connOK` says about a connection that succeeded -/
theorem connOK_some (c : ClientCfg) (s : ServerCfg) (o : Option Agreed) (a : Agreed)
    (h : connOK c s o (some a) = true) :
    compatible c s = true ∧ a.client.vers = docVersion ∧ viewsAgree a = true ∧
    usable c s a.client.suite = true ∧ alpnRule s.alpn c.alpn = some a.client.alpn ∧
    ((a.client.resumed || a.server.resumed) = false → a = expected c s) ∧
    ((a.client.resumed || a.server.resumed) = true →
      c.cache = true ∧ s.cache = true ∧ ∃ b, o = some b ∧ a = resumedFrom b c s) := by
  unfold connOK at h
  simp only [Bool.and_eq_true] at h
  obtain ⟨hc, h2⟩ := h
  obtain ⟨_, _, ⟨proto, ha⟩, ⟨suite, hm, _⟩⟩ := compatible_parts c s hc
  have hus : usable c s suite = true := List.find?_some hm
  cases hr : (a.client.resumed || a.server.resumed) with
  | false =>
    rw [hr] at h2
    simp only [Bool.false_eq_true, if_false, beq_iff_eq] at h2
    subst h2
    refine ⟨hc, rfl, ?_, ?_, ?_, fun _ => rfl, fun h => by cases h⟩
    · simp [viewsAgree, expected, expectedWith]
    · show usable c s ((mutualSuite c s).getD 0) = true
      rw [hm]; exact hus
    · show alpnRule s.alpn c.alpn = some ((alpnRule s.alpn c.alpn).getD "")
      rw [ha]; rfl
  | true =>
    rw [hr] at h2
    simp only [if_true] at h2
    cases o with
    | none => cases h2
    | some b =>
      simp only [Bool.and_eq_true, beq_iff_eq] at h2
      obtain ⟨⟨⟨h3, h4⟩, h5⟩, h6⟩ := h2
      subst h6
      refine ⟨hc, rfl, ?_, h5, ?_, fun h => (by cases h), fun _ => ⟨h3, h4, b, rfl, rfl⟩⟩
      · simp [viewsAgree, resumedFrom]
      · show alpnRule s.alpn c.alpn = some ((alpnRule s.alpn c.alpn).getD "")
        rw [ha]; rfl

/-- every connection of an accepted history is accepted against an origin that is the report
of an earlier successful full handshake of the same history (or the origin it started with) -/
theorem historyOK_nth (c : ClientCfg) (s : ServerCfg) (rs : List Reconf) :
    ∀ (o : Option Agreed) (xs : List (Option Agreed)), historyOK c s o rs xs = true →
    ∀ (i : Nat) (r : Reconf) (x : Option Agreed), rs[i]? = some r → xs[i]? = some x →
    ∃ o', connOK (r.client c) (r.server s) o' x = true ∧
      ∀ b, o' = some b → o = some b ∨
        ∃ j, j < i ∧ xs[j]? = some (some b) ∧ (b.client.resumed || b.server.resumed) = false := by
  induction rs with
  | nil => intro o xs _ i r x hr; simp at hr
  | cons r0 rs ih =>
    intro o xs h i r x hr hx
    cases xs with
    | nil => simp [historyOK] at h
    | cons x0 xs' =>
      simp only [historyOK, Bool.and_eq_true] at h
      obtain ⟨h0, hrest⟩ := h
      cases i with
      | zero =>
        simp only [List.getElem?_cons_zero, Option.some.injEq] at hr hx
        subst hr; subst hx
        exact ⟨o, h0, fun b hb => Or.inl hb⟩
      | succ i' =>
        simp only [List.getElem?_cons_succ] at hr hx
        obtain ⟨o', hok, hfrom⟩ := ih _ _ hrest i' r x hr hx
        refine ⟨o', hok, fun b hb => ?_⟩
        rcases hfrom b hb with hn | ⟨j, hj, hxj, hnr⟩
        · unfold nextOrigin at hn
          cases x0 with
          | none => exact Or.inl hn
          | some a =>
            simp only at hn
            cases hra : (a.client.resumed || a.server.resumed) with
            | true => rw [hra] at hn; exact Or.inl hn
            | false =>
              rw [hra] at hn
              simp only [Bool.false_eq_true, if_false, Option.some.injEq] at hn
              subst hn
              exact Or.inr ⟨0, Nat.succ_pos _, rfl, hra⟩
        · exact Or.inr ⟨j + 1, Nat.succ_lt_succ hj, by simpa using hxj, hnr⟩

/-! ### histories without reconfiguration: the same two configurations, any number of times -/

/-- the caches after the first connection of a compatible pair -/
def cachesOf (c : ClientCfg) (s : ServerCfg) : Caches :=
  if c.cache then { sess := some (sessionOf (expected c s)), known := s.cache } else {}

theorem first_step (c : ClientCfg) (s : ServerCfg) (h : compatible c s = true) :
    connect refParams {} c s = (.ok (expected c s), cachesOf c s) := by
  rw [connect_unfold]
  have hf : foundOf {} c s = none := by
    unfold foundOf offeredOf
    cases s.cache <;> cases c.cache <;> rfl
  rw [hf]
  have hn : handshake refParams none c s = .ok (expected c s) := (negotiate_ref c s).1 h
  rw [hn]
  unfold cachesAfter cachesOf
  have hres : (expected c s).client.resumed = false := rfl
  simp only [hres, Bool.false_eq_true, if_false]

theorem next_step (c : ClientCfg) (s : ServerCfg) (h : compatible c s = true) :
    connect refParams (cachesOf c s) c s = (.ok (expectedNext c s), cachesOf c s) := by
  rw [connect_unfold]
  have hn : handshake refParams none c s = .ok (expected c s) := (negotiate_ref c s).1 h
  have hnn : handshake refParams (some (sessionOf (expected c s))) c s = .ok (expectedNext c s) :=
    negotiateNext_ref c s h
  have hso : sessionOf (expectedNext c s) = sessionOf (expected c s) := rfl
  cases hcc : c.cache with
  | false =>
    have hf : foundOf (cachesOf c s) c s = none := by
      unfold foundOf offeredOf cachesOf
      rw [hcc]; cases s.cache <;> rfl
    have he : expectedNext c s = expected c s := by
      unfold expectedNext expected resumable; rw [hcc]; rfl
    rw [hf, hn, he]
    unfold cachesAfter cachesOf
    have hres : (expected c s).client.resumed = false := rfl
    simp only [hres, hcc, Bool.false_eq_true, if_false]
  | true =>
    cases hsc : s.cache with
    | false =>
      have hf : foundOf (cachesOf c s) c s = none := by
        unfold foundOf offeredOf cachesOf
        rw [hsc]; rfl
      have he : expectedNext c s = expected c s := by
        unfold expectedNext expected resumable; rw [hcc, hsc]; rfl
      rw [hf, hn, he]
      unfold cachesAfter cachesOf
      have hres : (expected c s).client.resumed = false := rfl
      simp only [hres, hcc, hsc, Bool.false_eq_true, if_false, if_true]
    | true =>
      have hf : foundOf (cachesOf c s) c s = some (sessionOf (expected c s)) := by
        unfold foundOf offeredOf cachesOf
        simp only [hcc, hsc, if_true, Bool.and_self]
      rw [hf, hnn]
      unfold cachesAfter cachesOf
      simp only [hcc, hsc, if_true, hso]
      split <;> rfl

theorem constant_history (c0 : ClientCfg) (s0 : ServerCfg) (r : Reconf) (n : Nat)
    (h : compatible (r.client c0) (r.server s0) = true) :
    runHistory refParams c0 s0 {} (List.replicate (n + 1) r) =
      .ok (expected (r.client c0) (r.server s0)) ::
        List.replicate n (.ok (expectedNext (r.client c0) (r.server s0))) := by
  have hrest : ∀ m, runHistory refParams c0 s0 (cachesOf (r.client c0) (r.server s0)) (List.replicate m r) =
      List.replicate m (.ok (expectedNext (r.client c0) (r.server s0))) := by
    intro m
    induction m with
    | zero => rfl
    | succ m ih =>
      simp only [List.replicate_succ, runHistory, next_step _ _ h, ih]
  simp only [List.replicate_succ, runHistory, first_step _ _ h, hrest]

end Gotlcp.Lemmas.Negotiate

/- C19: kernel evaluation of every 2-fault pattern, slice resumed=false tie(client first)=false (see FlightsEval.lean) -/
import Gotlcp.Lemmas.FlightsEval

namespace Gotlcp.Lemmas.FlightsEval
open Gotlcp.Model.Flights

theorem pairs_FF : sliceOk (repairedAt 1 4) false false pats2 = true := by decide +kernel

end Gotlcp.Lemmas.FlightsEval

/-
Helper definitions and lemmas for C02: the link between the views of
`Gotlcp.Model.ClientAuthn` and the evidence of `Gotlcp.Spec.ClientAuthn`, the
characterisation of when the model completes, and the symbolic (Dolev–Yao) structures used by
`C02_pop_means_key`.
-/
import Gotlcp.Model.ClientAuthn
import Gotlcp.Spec.ClientAuthnSpec

namespace Gotlcp.Lemmas.ClientAuthn
open Gotlcp.Model.ClientAuthn
open Gotlcp.Spec.ClientAuthn

variable {K R P S : Type}

/-! ### evidence of a view -/

/-- does the signature of the view's ServerKeyExchange verify with `certs[0]`'s key over this
handshake's randoms and parameters? -/
def sigValidOverThis (verify : K → Tbs R P → S → Bool) (v : FullView K R P S) : Bool :=
  match v.skx, v.certs with
  | some skx, c0 :: c1 :: _ => verify c0.key (clientTbs v skx c1.der) skx.sig
  | _, _ => false

def chainAt (certs : List (CertView K P)) (i : Nat) : Bool :=
  match certs[i]? with
  | some c => c.chainOK
  | none => false

/-- the spec-level evidence a full-handshake view carries -/
def evidenceOf (verify : K → Tbs R P → S → Bool) (v : FullView K R P S) : Evidence :=
  { certCount := v.certs.length,
    sigChainOK := chainAt v.certs 0,
    encChainOK := chainAt v.certs 1,
    skxPresent := v.skx.isSome,
    sigValidOverThis := sigValidOverThis verify v,
    finishedCorrect := v.finishedOK }

/-- the spec-level evidence of a resumed connection: the peer's Finished is the correct one
exactly when it was computed with the master secret of the session being resumed -/
def sessEvidenceOf (s : SessView) : SessionEvidence :=
  { certCount := s.nCerts, sigChainNow := s.chainSig, encChainNow := s.chainEnc,
    finishedCorrect := s.peerFin == some .session }

/-! ### the shape of the source the theorems need -/

/-- everything about the full handshake except "ServerKeyExchange is mandatory" -/
structure GoodFullBase (p : Params) : Prop where
  minCerts : p.minCerts = 2
  idx0 : 0 ∈ p.verifiedIdx
  idx1 : 1 ∈ p.verifiedIdx
  stepFull : "doFullHandshake" ∈ p.fullSteps
  stepFin : "readFinished" ∈ p.fullSteps

structure GoodFull (p : Params) : Prop extends GoodFullBase p where
  skx : p.skxMandatory = true

/-- resumption, everything except the re-verification of F13: Finished is read, and what a
cache eviction leaves in the `SessionState` a handshake may still point to is never a public
value the handshake goes on with: either the secret is left alone, or it is removed
altogether (not merely wiped — an all-zero secret is known to everybody) and a session
without a secret is refused -/
structure GoodResumeBase (p : Params) : Prop where
  stepFin : "readFinished" ∈ p.resumeSteps
  evictSafe : evictedSecret p = .session ∨ (evictedSecret p = .empty ∧ p.secretGuard = true)

structure GoodResume (p : Params) : Prop extends GoodResumeBase p where
  reverify : p.resumeReverify = true
  minCerts : p.resumeMinCerts = 2
  idx0 : 0 ∈ p.resumeIdx
  idx1 : 1 ∈ p.resumeIdx

instance (p : Params) : Decidable (GoodFullBase p) :=
  decidable_of_iff (p.minCerts = 2 ∧ 0 ∈ p.verifiedIdx ∧ 1 ∈ p.verifiedIdx ∧
      "doFullHandshake" ∈ p.fullSteps ∧ "readFinished" ∈ p.fullSteps)
    ⟨fun ⟨a, b, c, d, e⟩ => ⟨a, b, c, d, e⟩, fun ⟨a, b, c, d, e⟩ => ⟨a, b, c, d, e⟩⟩
instance (p : Params) : Decidable (GoodFull p) :=
  decidable_of_iff (GoodFullBase p ∧ p.skxMandatory = true)
    ⟨fun ⟨a, b⟩ => ⟨a, b⟩, fun ⟨a, b⟩ => ⟨a, b⟩⟩
instance (p : Params) : Decidable (GoodResumeBase p) :=
  decidable_of_iff ("readFinished" ∈ p.resumeSteps ∧
      (evictedSecret p = .session ∨ (evictedSecret p = .empty ∧ p.secretGuard = true)))
    ⟨fun ⟨a, b⟩ => ⟨a, b⟩, fun ⟨a, b⟩ => ⟨a, b⟩⟩
instance (p : Params) : Decidable (GoodResume p) :=
  decidable_of_iff (GoodResumeBase p ∧ p.resumeReverify = true ∧ p.resumeMinCerts = 2 ∧
      0 ∈ p.resumeIdx ∧ 1 ∈ p.resumeIdx)
    ⟨fun ⟨a, b, c, d, e⟩ => ⟨a, b, c, d, e⟩, fun ⟨a, b, c, d, e⟩ => ⟨a, b, c, d, e⟩⟩

/-! ### `Step` plumbing -/

theorem failWith_ne_ok (a b : String) : failWith a b ≠ (.ok () : Step) := by
  simp [failWith]

theorem firstError_ok {l : List Step} : firstError l = .ok () ↔ ∀ s ∈ l, s = .ok () := by
  induction l with
  | nil => simp [firstError]
  | cons a rest ih =>
    cases a with
    | error e => simp [firstError]
    | ok u => cases u; simp [firstError, ih]

theorem check_ok {c : Bool} {a b : String} : check c a b = .ok () ↔ c = false := by
  cases c <;> simp [check, failWith]

theorem runSteps_ok {d : Step} {f : Bool} {cb : Callbacks} {steps : List String}
    (h : runSteps d f cb steps = .ok ()) : ∀ s ∈ steps, runStep d f cb s = .ok () := by
  intro s hs
  exact firstError_ok.mp h _ (List.mem_map.mpr ⟨s, hs, rfl⟩)

theorem runSteps_ok_of_all {d : Step} {f : Bool} {cb : Callbacks} {steps : List String}
    (h : ∀ s ∈ steps, runStep d f cb s = .ok ()) : runSteps d f cb steps = .ok () := by
  apply firstError_ok.mpr
  intro x hx
  obtain ⟨s, hs, rfl⟩ := List.mem_map.mp hx
  exact h s hs

theorem runStep_doFull {d : Step} {f : Bool} {cb : Callbacks}
    (h : runStep d f cb "doFullHandshake" = .ok ()) : d = .ok () := by
  simpa [runStep] using h

theorem runStep_fin {d : Step} {f : Bool} {cb : Callbacks}
    (h : runStep d f cb "readFinished" = .ok ()) : f = true := by
  have : ("readFinished" == "doFullHandshake") = false := by decide
  simp only [runStep, this] at h
  cases f with
  | true => rfl
  | false => simp [failWith] at h

theorem finish_completed {r : Step} : (finish r).outcome = .completed ↔ r = .ok () := by
  cases r with
  | error e => obtain ⟨a, b⟩ := e; simp [finish]
  | ok u => cases u; simp [finish]

theorem finish_status {r : Step} : (finish r).handshakeStatus = 1 ↔ (finish r).outcome = .completed := by
  cases r with
  | error e => obtain ⟨a, b⟩ := e; simp [finish]
  | ok u => cases u; simp [finish]

/-! ### user callbacks -/

/-- the same view / session / connection with no callback installed -/
def _root_.Gotlcp.Model.ClientAuthn.FullView.noCallbacks (v : FullView K R P S) : FullView K R P S :=
  { v with cb := {} }
def _root_.Gotlcp.Model.ClientAuthn.SessView.noCallbacks (s : SessView) : SessView := { s with cb := {} }
def _root_.Gotlcp.Model.ClientAuthn.ConnView.noCallbacks (c : ConnView K R P S) : ConnView K R P S :=
  { session := c.session.map SessView.noCallbacks, full := c.full.noCallbacks }

/-- no callback of `cb` returns an error on this connection -/
def Callbacks.accept (cb : Callbacks) : Prop := cb.vpc ≠ some false ∧ cb.vc ≠ some false

instance (cb : Callbacks) : Decidable (Callbacks.accept cb) := by unfold Callbacks.accept; infer_instance

theorem callback_ok {b : Option Bool} {st : String} : callback b st = .ok () ↔ b ≠ some false := by
  rcases b with _ | b
  · simp [callback]
  · cases b <;> simp [callback, failWith]

theorem runCallback_none (n : String) : runCallback {} n = .ok () := by
  unfold runCallback callback
  split
  · rfl
  · split <;> rfl

/-- callbacks that accept are as good as none -/
theorem runCallback_accept {cb : Callbacks} (h : Callbacks.accept cb) : runCallback cb = runCallback {} := by
  funext n
  rw [runCallback_none]
  unfold runCallback
  split
  · exact callback_ok.mpr h.1
  · split
    · exact callback_ok.mpr h.2
    · rfl

theorem runCallback_vpc {cb : Callbacks} (h : runCallback cb "VerifyPeerCertificate" = .ok ()) :
    cb.vpc ≠ some false := by
  simp only [runCallback, beq_self_eq_true, if_true] at h
  exact callback_ok.mp h

theorem runCallback_vc {cb : Callbacks} (h : runCallback cb "VerifyConnection" = .ok ()) :
    cb.vc ≠ some false := by
  have : ("VerifyConnection" == "VerifyPeerCertificate") = false := by decide
  simp only [runCallback, this, beq_self_eq_true, if_true] at h
  exact callback_ok.mp h

/-- a step that passes with callbacks installed passes without them -/
theorem runStep_mono {d d' : Step} {f : Bool} {cb : Callbacks} {n : String} (hd : d = .ok () → d' = .ok ())
    (h : runStep d f cb n = .ok ()) : runStep d' f {} n = .ok () := by
  unfold runStep at h ⊢
  split
  · rename_i hn; rw [if_pos hn] at h; exact hd h
  · rename_i hn; rw [if_neg hn] at h
    split
    · rename_i hm; rw [if_pos hm] at h; exact h
    · exact runCallback_none n

/-! ### when the pieces succeed -/

theorem chainsOK_mem {idx : List Nat} {certs : List (CertView K P)} (h : chainsOK idx certs = true)
    {i : Nat} (hi : i ∈ idx) : chainAt certs i = true := by
  unfold chainsOK at h
  have := List.all_eq_true.mp h i hi
  unfold chainAt
  exact this

theorem verify_ok {p : Params} {skip : Bool} {v : FullView K R P S}
    (h : verifyServerCertificate p skip v = .ok ()) :
    v.parseOK = true ∧ p.minCerts ≤ v.certs.length ∧ (skip = false → chainsOK p.verifiedIdx v.certs = true) := by
  unfold verifyServerCertificate at h
  split at h
  · exact absurd h (failWith_ne_ok _ _)
  · rename_i h1
    split at h
    · exact absurd h (failWith_ne_ok _ _)
    · rename_i h2
      split at h
      · exact absurd h (failWith_ne_ok _ _)
      · rename_i h3
        refine ⟨by simpa using h1, by omega, ?_⟩
        intro hs
        subst hs
        simpa using h3

/-- … and every callback it consults accepted -/
theorem verify_ok_callbacks {p : Params} {skip : Bool} {v : FullView K R P S}
    (h : verifyServerCertificate p skip v = .ok ()) :
    ∀ n ∈ p.fullCallbacks, runCallback v.cb n = .ok () := by
  unfold verifyServerCertificate at h
  split at h
  · exact absurd h (failWith_ne_ok _ _)
  · split at h
    · exact absurd h (failWith_ne_ok _ _)
    · split at h
      · exact absurd h (failWith_ne_ok _ _)
      · split at h
        · exact absurd h (failWith_ne_ok _ _)
        · split at h
          · exact absurd h (failWith_ne_ok _ _)
          · intro n hn
            exact firstError_ok.mp h _ (List.mem_map.mpr ⟨n, hn, rfl⟩)

/-- the built-in checks of `verifyServerCertificate` do not look at the callbacks: what passes
with callbacks installed passes without them … -/
theorem verify_mono {p : Params} {skip : Bool} {v : FullView K R P S}
    (h : verifyServerCertificate p skip v = .ok ()) :
    verifyServerCertificate p skip v.noCallbacks = .ok () := by
  cases v
  simp only [FullView.noCallbacks]
  unfold verifyServerCertificate at h ⊢
  simp only at h ⊢
  split
  · rename_i h1; rw [if_pos h1] at h; exact h
  · rename_i h1; rw [if_neg h1] at h
    split
    · rename_i h2; rw [if_pos h2] at h; exact h
    · rename_i h2; rw [if_neg h2] at h
      split
      · rename_i h3; rw [if_pos h3] at h; exact h
      · rename_i h3; rw [if_neg h3] at h
        split
        · rename_i h4; simp only [h4] at h; exact h
        · rename_i c0 h4; simp only [h4] at h
          split
          · rename_i h5; rw [if_pos h5] at h; exact h
          · apply firstError_ok.mpr
            intro x hx
            obtain ⟨n, _, rfl⟩ := List.mem_map.mp hx
            exact runCallback_none n

/-- … and with callbacks that accept the function is the same -/
theorem verify_accept {p : Params} {skip : Bool} {v : FullView K R P S} (h : Callbacks.accept v.cb) :
    verifyServerCertificate p skip v = verifyServerCertificate p skip v.noCallbacks := by
  cases v
  simp only [FullView.noCallbacks] at h ⊢
  unfold verifyServerCertificate
  simp only [runCallback_accept h]

theorem pskx_ok {verify : K → Tbs R P → S → Bool} {v : FullView K R P S} {skx : Skx P S}
    (h : processServerKeyExchange verify v skx = .ok ()) :
    ∃ c0 c1 rest, v.certs = c0 :: c1 :: rest ∧ skx.wellFormed = true ∧ c0.kind = .ecdsa ∧
      verify c0.key (clientTbs v skx c1.der) skx.sig = true := by
  unfold processServerKeyExchange at h
  split at h
  · rename_i c0 c1 rest hc
    split at h
    · exact absurd h (failWith_ne_ok _ _)
    · rename_i h1
      split at h
      · exact absurd h (failWith_ne_ok _ _)
      · rename_i h2
        split at h
        · exact absurd h (failWith_ne_ok _ _)
        · rename_i h3
          exact ⟨c0, c1, rest, hc, by simpa using h1, by simpa using h2, by simpa using h3⟩
  · exact absurd h (failWith_ne_ok _ _)

theorem gckx_ecdhe_needs_skx {v : FullView K R P S} (hk : v.kex = .ecdhe)
    (h : generateClientKeyExchange v = .ok ()) : v.skx.isSome = true := by
  unfold generateClientKeyExchange at h
  split at h
  · rw [hk] at h
    simp only at h
    split at h
    · exact absurd h (failWith_ne_ok _ _)
    · rename_i hn
      cases hs : v.skx with
      | none => simp [hs] at hn
      | some _ => rfl
  · exact absurd h (failWith_ne_ok _ _)

/-- what a successful `doFullHandshake` of the model implies, whatever the ServerKeyExchange
policy: certificates, chains, and — when the message was there — its signature -/
theorem doFull_ok_base {p : Params} {verify : K → Tbs R P → S → Bool} {skip : Bool}
    {v : FullView K R P S} (h : doFullHandshake p verify skip v = .ok ()) :
    p.minCerts ≤ v.certs.length ∧
    (skip = false → chainsOK p.verifiedIdx v.certs = true) ∧
    (v.skx.isSome = true → sigValidOverThis verify v = true) ∧
    (p.skxMandatory = true → v.skx.isSome = true) ∧
    (v.kex = .ecdhe → v.skx.isSome = true) := by
  unfold doFullHandshake at h
  simp only [firstError_ok, List.mem_cons, List.mem_nil_iff, or_false, forall_eq_or_imp, forall_eq] at h
  obtain ⟨_, hv, hskx, _, _, hg⟩ := h
  obtain ⟨_, hlen, hch⟩ := verify_ok hv
  refine ⟨hlen, hch, ?_, ?_, fun hk => gckx_ecdhe_needs_skx hk hg⟩
  · intro hs
    cases hx : v.skx with
    | none => simp [hx] at hs
    | some skx =>
      rw [hx] at hskx
      obtain ⟨c0, c1, rest, hc, _, _, hver⟩ := pskx_ok hskx
      simp [sigValidOverThis, hx, hc, hver]
  · intro hm
    cases hx : v.skx with
    | none =>
      rw [hx] at hskx
      simp only [hm] at hskx
      exact absurd (check_ok.mp hskx) (by simp)
    | some _ => rfl

/-- completion of the full branch gives a successful `doFullHandshake` and a correct Finished -/
theorem full_completed {p : Params} {verify : K → Tbs R P → S → Bool} {skip : Bool}
    {v : FullView K R P S} (hd : "doFullHandshake" ∈ p.fullSteps) (hf : "readFinished" ∈ p.fullSteps)
    (h : (fullHandshake p verify skip v).outcome = .completed) :
    doFullHandshake p verify skip v = .ok () ∧ v.finishedOK = true := by
  have h' := runSteps_ok (finish_completed.mp h)
  exact ⟨runStep_doFull (h' _ hd), runStep_fin (h' _ hf)⟩

/-- the generic form of `C02_full` -/
theorem full_authenticated {p : Params} (gp : GoodFullBase p) {verify : K → Tbs R P → S → Bool}
    {skip : Bool} {v : FullView K R P S}
    (h : (fullHandshake p verify skip v).outcome = .completed)
    (hx : p.skxMandatory = true ∨ v.kex = .ecdhe ∨ v.skx.isSome = true) :
    Authenticated (!skip) (evidenceOf verify v) := by
  obtain ⟨hd, hfin⟩ := full_completed gp.stepFull gp.stepFin h
  obtain ⟨hlen, hch, hsig, hm, he⟩ := doFull_ok_base hd
  have hskx : v.skx.isSome = true := by
    rcases hx with h1 | h2 | h3
    · exact hm h1
    · exact he h2
    · exact h3
  refine ⟨?_, ?_, hskx, hsig hskx, hfin⟩
  · have := gp.minCerts; simp only [evidenceOf]; omega
  · intro hv
    have hs : skip = false := by cases skip <;> simp_all
    exact ⟨chainsOK_mem (hch hs) gp.idx0, chainsOK_mem (hch hs) gp.idx1⟩

/-! ### a callback can only add a refusal -/

theorem runSteps_accept {d : Step} {f : Bool} {cb : Callbacks} (h : Callbacks.accept cb) (steps : List String) :
    runSteps d f cb steps = runSteps d f {} steps := by
  have : runStep d f cb = runStep d f {} := by
    funext n; unfold runStep; rw [runCallback_accept h]
  unfold runSteps; rw [this]

theorem doFull_mono {p : Params} {verify : K → Tbs R P → S → Bool} {skip : Bool} {v : FullView K R P S}
    (h : doFullHandshake p verify skip v = .ok ()) : doFullHandshake p verify skip v.noCallbacks = .ok () := by
  unfold doFullHandshake at h ⊢
  simp only [firstError_ok, List.mem_cons, List.mem_nil_iff, or_false, forall_eq_or_imp, forall_eq] at h ⊢
  obtain ⟨a, b, c, d, e, g⟩ := h
  exact ⟨a, verify_mono b, c, d, e, g⟩

theorem doFull_accept {p : Params} {verify : K → Tbs R P → S → Bool} {skip : Bool} {v : FullView K R P S}
    (h : Callbacks.accept v.cb) : doFullHandshake p verify skip v = doFullHandshake p verify skip v.noCallbacks := by
  unfold doFullHandshake
  rw [verify_accept h]
  rfl

/-- the full branch: what completes with callbacks installed completes without them -/
theorem full_mono {p : Params} {verify : K → Tbs R P → S → Bool} {skip : Bool} {v : FullView K R P S}
    (h : (fullHandshake p verify skip v).outcome = .completed) :
    (fullHandshake p verify skip v.noCallbacks).outcome = .completed := by
  unfold fullHandshake at h ⊢
  rw [finish_completed] at h ⊢
  exact runSteps_ok_of_all fun n hn => runStep_mono doFull_mono (runSteps_ok h n hn)

/-- … and callbacks that accept change nothing at all -/
theorem full_accept {p : Params} {verify : K → Tbs R P → S → Bool} {skip : Bool} {v : FullView K R P S}
    (h : Callbacks.accept v.cb) : fullHandshake p verify skip v = fullHandshake p verify skip v.noCallbacks := by
  unfold fullHandshake
  rw [doFull_accept h, runSteps_accept h]
  rfl

/-- a refusing callback among those `verifyServerCertificate` consults is honoured -/
theorem full_completed_callbacks {p : Params} {verify : K → Tbs R P → S → Bool} {skip : Bool}
    {v : FullView K R P S} (hd : "doFullHandshake" ∈ p.fullSteps)
    (h : (fullHandshake p verify skip v).outcome = .completed) :
    ∀ n ∈ p.fullCallbacks, runCallback v.cb n = .ok () := by
  have hdf := runStep_doFull (runSteps_ok (finish_completed.mp h) _ hd)
  unfold doFullHandshake at hdf
  simp only [firstError_ok, List.mem_cons, List.mem_nil_iff, or_false, forall_eq_or_imp, forall_eq] at hdf
  exact verify_ok_callbacks hdf.2.1

/-! ### resumption -/

theorem processResumed_ok {p : Params} {s : SessView} (h : processResumed p s = .ok ()) :
    s.versOK = true ∧ s.suiteOK = true ∧ (p.secretGuard = true → heldSecret p s ≠ .empty) := by
  unfold processResumed at h
  split at h
  · exact absurd h (failWith_ne_ok _ _)
  · rename_i h1
    split at h
    · exact absurd h (failWith_ne_ok _ _)
    · rename_i h2
      split at h
      · exact absurd h (failWith_ne_ok _ _)
      · rename_i h3
        refine ⟨by simpa using h1, by simpa using h2, ?_⟩
        intro hg he
        simp [hg, he] at h3

theorem prfKey_eq_session {k : Secret} : k.prfKey = .session ↔ k = .session := by
  cases k <;> simp [Secret.prfKey]

/-- what a completed resumption branch of the model implies, whatever the source looks like:
the guard of `processServerHello` passed and the peer computed its Finished with the PRF key
the client holds -/
theorem resumed_completed_raw {p : Params} (hf : "readFinished" ∈ p.resumeSteps) {s : SessView}
    (h : (resumedHandshake p s).outcome = .completed) :
    (p.secretGuard = true → heldSecret p s ≠ .empty) ∧
      s.peerFin.map Secret.prfKey = some (heldSecret p s).prfKey := by
  unfold resumedHandshake at h
  have h' := finish_completed.mp h
  simp only [firstError_ok, List.mem_cons, List.mem_nil_iff, or_false, forall_eq_or_imp, forall_eq] at h'
  have hfin := runStep_fin (runSteps_ok h'.2 _ hf)
  unfold resumeFinishedOK at hfin
  exact ⟨(processResumed_ok h'.1).2.2, by simpa using hfin⟩

/-- a completed resumption computed with the session's secret — never with what an eviction
left behind -/
theorem resumed_held_session {p : Params} (gr : GoodResumeBase p) {s : SessView}
    (h : (resumedHandshake p s).outcome = .completed) : heldSecret p s = .session := by
  obtain ⟨hg, _⟩ := resumed_completed_raw gr.stepFin h
  cases he : readsEvicted p s with
  | false => simp [heldSecret, he]
  | true =>
    rcases gr.evictSafe with h1 | ⟨h2, h3⟩
    · simp [heldSecret, he, h1]
    · exact absurd (by simp [heldSecret, he, h2]) (hg h3)

/-- … hence the Finished it accepted was computed with the session's secret -/
theorem resumed_completed {p : Params} (gr : GoodResumeBase p) {s : SessView}
    (h : (resumedHandshake p s).outcome = .completed) : s.peerFin = some .session := by
  obtain ⟨_, hp⟩ := resumed_completed_raw gr.stepFin h
  rw [resumed_held_session gr h] at hp
  cases hk : s.peerFin with
  | none => simp [hk] at hp
  | some k =>
    simp only [hk, Option.map_some, Option.some.injEq] at hp
    rw [prfKey_eq_session.mp hp]

/-- when the eviction removes the secret and the guard is there, a session evicted under the
handshake's feet is never resumed to completion -/
theorem resumed_not_evicted {p : Params} (hf : "readFinished" ∈ p.resumeSteps)
    (hd : p.evictDrops = true) (hgd : p.secretGuard = true) {s : SessView}
    (h : (resumedHandshake p s).outcome = .completed) : readsEvicted p s = false := by
  obtain ⟨hg, _⟩ := resumed_completed_raw hf h
  cases he : readsEvicted p s with
  | false => rfl
  | true => exact absurd (by simp [heldSecret, he, evictedSecret, hd]) (hg hgd)

/-- the resumption branch: what completes with a callback installed completes without it -/
theorem resumed_mono {p : Params} {s : SessView} (h : (resumedHandshake p s).outcome = .completed) :
    (resumedHandshake p s.noCallbacks).outcome = .completed := by
  unfold resumedHandshake at h ⊢
  rw [finish_completed] at h ⊢
  simp only [firstError_ok, List.mem_cons, List.mem_nil_iff, or_false, forall_eq_or_imp, forall_eq] at h ⊢
  exact ⟨h.1, runSteps_ok_of_all fun n hn => runStep_mono id (runSteps_ok h.2 n hn)⟩

theorem resumed_accept {p : Params} {s : SessView} (h : Callbacks.accept s.cb) :
    resumedHandshake p s = resumedHandshake p s.noCallbacks := by
  unfold resumedHandshake
  rw [runSteps_accept h]
  rfl

/-- a refusing `VerifyConnection` is honoured on the resumption branch when `handshake()` consults it there -/
theorem resumed_completed_vc {p : Params} (hv : "VerifyConnection" ∈ p.resumeSteps) {s : SessView}
    (h : (resumedHandshake p s).outcome = .completed) : s.cb.vc ≠ some false := by
  unfold resumedHandshake at h
  have h' := finish_completed.mp h
  simp only [firstError_ok, List.mem_cons, List.mem_nil_iff, or_false, forall_eq_or_imp, forall_eq] at h'
  have := runSteps_ok h'.2 _ hv
  have e1 : ("VerifyConnection" == "doFullHandshake") = false := by decide
  have e2 : ("VerifyConnection" == "readFinished") = false := by decide
  simp only [runStep, e1, e2] at this
  exact runCallback_vc this

theorem takesResume_noCallbacks (p : Params) (skip : Bool) (s : SessView) :
    takesResume p skip s.noCallbacks = takesResume p skip s := rfl

theorem sessChains_mem {idx : List Nat} {s : SessView} (h : sessChains idx s = true) :
    (0 ∈ idx → s.chainSig = true) ∧ (1 ∈ idx → s.chainEnc = true) := by
  unfold sessChains at h
  have h' := List.all_eq_true.mp h
  constructor
  · intro h0; simpa using h' 0 h0
  · intro h1; simpa using h' 1 h1

/-- the generic form of `C02_resumed` -/
theorem resumed_authenticated {p : Params} (gr : GoodResume p) {skip : Bool} {s : SessView}
    (ht : takesResume p skip s = true)
    (h : (resumedHandshake p s).outcome = .completed) :
    ResumedAuthenticated (!skip) (sessEvidenceOf s) := by
  refine ⟨?_, by simp [sessEvidenceOf, resumed_completed gr.toGoodResumeBase h]⟩
  intro hv
  have hs : skip = false := by cases skip <;> simp_all
  unfold takesResume offers at ht
  simp only [gr.reverify, hs, gr.minCerts, Bool.not_true, Bool.false_or, Bool.and_eq_true,
    decide_eq_true_eq] at ht
  obtain ⟨⟨hn, hc⟩, _⟩ := ht
  obtain ⟨h0, h1⟩ := sessChains_mem hc
  exact ⟨hn, h0 gr.idx0, h1 gr.idx1⟩

/-! ### symbolic (Dolev–Yao) layer for `C02_pop_means_key`

The laws are *fields* (hypotheses of the theorems), never axioms; `termSig` / `termKex` below
instantiate them, so they are jointly satisfiable. -/

/-- An ideal signature scheme together with the history of signing operations: `Signed k m t`
= "the private half of `k` was used to sign `m` at time `t`". -/
structure IdealSig (K M S : Type) where
  verify : K → M → S → Bool
  Signed : K → M → Nat → Prop
  /-- unforgeability: a signature that verifies was made with the private key, over exactly
  that message, at some time -/
  unforgeable : ∀ k m s, verify k m s = true → ∃ t, Signed k m t
  /-- a signature value is a signature of one message only -/
  binding : ∀ k m m' s, verify k m s = true → verify k m' s = true → m = m'

/-- `r` was drawn at time `t0` and could not be predicted: nothing containing it as the client
random was signed before -/
def FreshClientRandom (W : IdealSig K (Tbs R P) S) (r : R) (t0 : Nat) : Prop :=
  ∀ k m t, W.Signed k m t → m.clientRandom = r → t0 ≤ t

/-- Ideal key exchange + PRF, as far as the Finished check is concerned.  `A` = agents other
than the client.  `finishedOK` of the model is `accepts`. -/
structure IdealKex (K A : Type) where
  /-- the Finished the client received is the correct one for its master secret and transcript -/
  accepts : Bool
  /-- agent `a` computed the Finished value the client accepted -/
  ProducedFinished : A → Prop
  KnowsMaster : A → Prop
  KnowsPreMaster : A → Prop
  /-- holds the private key of `k` (ECC: decrypts the pre-master secret; ECDHE: runs the SM2
  key agreement as the owner of `k`) -/
  HoldsPrivate : A → K → Prop
  /-- PRF: a value accepted as PRF(master, "server finished", transcript) was produced by someone -/
  prf_unforgeable : accepts = true → ∃ a, ProducedFinished a
  /-- … who knows the master secret -/
  prf_needs_key : ∀ a, ProducedFinished a → KnowsMaster a
  /-- the master secret is only derivable from the pre-master secret -/
  master_from_premaster : ∀ a, KnowsMaster a → KnowsPreMaster a
  /-- the key the client encrypted to (ECC) / agreed with (ECDHE) -/
  encKey : K
  /-- secrecy of the SM2-encrypted / SM2-agreed pre-master secret -/
  premaster_secret : ∀ a, KnowsPreMaster a → HoldsPrivate a encKey

/-- term-algebra instance: a signature *is* the pair (key, message); the history says every
pair was signed at time 7 -/
def termSig (K M : Type) [DecidableEq K] [DecidableEq M] : IdealSig K M (K × M) where
  verify k m s := decide (s = (k, m))
  Signed _ _ t := t = 7
  unforgeable := fun _ _ _ _ => ⟨7, rfl⟩
  binding := by
    intro k m m' s h1 h2
    simp only [decide_eq_true_eq] at h1 h2
    rw [h1] at h2
    exact (Prod.mk.inj h2).2

/-- term-algebra instance of the key-exchange laws with one agent who holds everything -/
def termKex (K : Type) (k : K) (ok : Bool) : IdealKex K Unit where
  accepts := ok
  ProducedFinished _ := True
  KnowsMaster _ := True
  KnowsPreMaster _ := True
  HoldsPrivate _ k' := k' = k
  prf_unforgeable := fun _ => ⟨(), trivial⟩
  prf_needs_key := fun _ _ => trivial
  master_from_premaster := fun _ _ => trivial
  encKey := k
  premaster_secret := fun _ _ => rfl

/-! ### the entropy source -/

/-- whatever the reader's schedule — short reads, zero-length reads — `io.ReadFull` returns the
next `want` bytes of its stream, all of them, or fails -/
theorem readFull_take (sched : List Nat) : ∀ (stream : List Nat) (want : Nat) bs s' sc',
    readFull sched stream want = some (bs, s', sc') →
      bs = stream.take want ∧ s' = stream.drop want ∧ bs.length = want := by
  induction sched with
  | nil =>
    intro stream want bs s' sc' h
    cases want with
    | zero => simp [readFull] at h; obtain ⟨rfl, rfl, _⟩ := h; simp
    | succ w => simp [readFull] at h
  | cons k rest ih =>
    intro stream want bs s' sc' h
    cases want with
    | zero => simp [readFull] at h; obtain ⟨rfl, rfl, _⟩ := h; simp
    | succ w =>
      simp only [readFull] at h
      split at h
      · cases h
      · rename_i hlen
        split at h
        · cases h
        · rename_i bs0 s0 sc0 hrec
          simp only [Option.some.injEq, Prod.mk.injEq] at h
          obtain ⟨rfl, rfl, rfl⟩ := h
          obtain ⟨hb, hs, hl⟩ := ih _ _ _ _ _ hrec
          have hn : min k (w + 1) ≤ w + 1 := Nat.min_le_right _ _
          have hlen' : min k (w + 1) ≤ stream.length := Nat.le_of_not_lt hlen
          refine ⟨?_, ?_, ?_⟩
          · rw [hb, List.take_drop]
            have : min k (w + 1) + (w + 1 - min k (w + 1)) = w + 1 := by omega
            rw [this]
            conv => rhs; rw [← List.take_append_drop (min k (w + 1)) (stream.take (w + 1))]
            rw [List.take_take, Nat.min_eq_left hn, List.drop_take]
          · rw [hs, List.drop_drop]
            congr 1; omega
          · rw [List.length_append, hl, List.length_take, Nat.min_eq_left hlen']; omega

end Gotlcp.Lemmas.ClientAuthn

/-
Lemmas for C14: the hello messages (cryptobyte based in both stacks, one shared body model).
Round trip through the extension loops, totality.
-/
import Gotlcp.Lemmas.CodecDtlcp

set_option linter.unusedSimpArgs false
set_option linter.unusedVariables false

namespace Gotlcp.Lemmas.CodecHello
open Gotlcp Gotlcp.Wire Gotlcp.Wire.Msg
open Gotlcp.Model.Codec
open Gotlcp.Lemmas.Codec
open Gotlcp.Spec.Codec (Stack Kind)

/-- the constants the hello codecs need to have the standard's values -/
structure HelloCodes (c : Codes) : Prop where
  sni : c.extServerName = 0
  tca : c.extTrustedCAKeys = 3
  status : c.extStatusRequest = 5
  curves : c.extSupportedCurves = 10
  sigs : c.extSignatureAlgorithms = 13
  alpn : c.extALPN = 16
  cid : c.extClientID = 66
  pre : c.taPreAgreed = 0
  x509 : c.taX509Name = 2
  keyH : c.taKeyHash = 4
  certH : c.taCertHash = 5
  rnd : c.randomLen = 32
  hash : c.hashLen = 32

/-! ### loops -/

theorem foldMany_step {σ : Type} (step : σ → Bytes → Option (σ × Bytes)) (f : Nat) (st st' : σ) (x r : Bytes)
    (hx : x ≠ []) (h : step st (x ++ r) = some (st', r)) :
    foldMany step (f + 1) st (x ++ r) = foldMany step f st' r := by
  cases x with
  | nil => exact absurd rfl hx
  | cons a t =>
    simp only [List.cons_append] at h ⊢
    simp only [foldMany, h]

theorem foldMany_nil {σ : Type} (step : σ → Bytes → Option (σ × Bytes)) (f : Nat) (st : σ) :
    foldMany step f st [] = some st := by
  cases f <;> rfl

/-- a loop over a concatenation of items, one iteration per item -/
theorem foldMany_concat {σ α : Type} (step : σ → Bytes → Option (σ × Bytes)) (enc : α → Bytes) (upd : σ → α → σ)
    (P : α → Prop) (hne : ∀ x, P x → enc x ≠ [])
    (hstep : ∀ st x r, P x → step st (enc x ++ r) = some (upd st x, r)) :
    ∀ (xs : List α) (f : Nat) (st : σ) (r : Bytes), (∀ x ∈ xs, P x) → xs.length ≤ f →
      foldMany step (f + r.length) st (concatMap enc xs ++ r) = foldMany step (f - xs.length + r.length) (xs.foldl upd st) r := by
  intro xs
  induction xs with
  | nil => intro f st r _ _; simp [concatMap]
  | cons x xs ih =>
    intro f st r hP hf
    have hx := hP x List.mem_cons_self
    cases f with
    | zero => simp at hf
    | succ f' =>
      simp only [concatMap, List.append_assoc, List.foldl_cons, List.length_cons]
      have e : f' + 1 + r.length = (f' + r.length) + 1 := by omega
      rw [e, foldMany_step step _ st (upd st x) (enc x) _ (hne x hx) (hstep st x _ hx)]
      rw [ih f' (upd st x) r (fun y hy => hP y (List.mem_cons_of_mem _ hy)) (by simp at hf; omega)]
      congr 1; omega

theorem foldMany_concat' {σ α : Type} (step : σ → Bytes → Option (σ × Bytes)) (enc : α → Bytes) (upd : σ → α → σ)
    (P : α → Prop) (hne : ∀ x, P x → enc x ≠ [])
    (hstep : ∀ st x r, P x → step st (enc x ++ r) = some (upd st x, r))
    (xs : List α) (f : Nat) (st : σ) (hP : ∀ x ∈ xs, P x) (hf : xs.length ≤ f) :
    foldMany step f st (concatMap enc xs) = some (xs.foldl upd st) := by
  have := foldMany_concat step enc upd P hne hstep xs f st [] hP hf
  simp only [List.length_nil, Nat.add_zero, List.append_nil] at this
  rw [this, foldMany_nil]

theorem isEmpty_nil : isEmpty ([] : Bytes) = true := rfl

theorem be16_ne_nil (n : Nat) (r : Bytes) : be16 n ++ r ≠ [] := by simp [be16]

theorem readU16_code {n : Nat} (h : n < 65536) (r : Bytes) : readU16 (be16 n ++ r) = some (n, r) := readU16_be16 h r

/-! ### ServerHello -/

def shE1 (c : Codes) (m : ServerHello) : Bytes :=
  if m.ocsp && decide (m.ocspResponse.length > 0) then
    be16 c.extStatusRequest ++ (be16 (1 :: (be24 m.ocspResponse.length ++ m.ocspResponse)).length ++
      (1 :: (be24 m.ocspResponse.length ++ m.ocspResponse)))
  else []

def shE2 (c : Codes) (m : ServerHello) : Bytes :=
  if m.alpn.length > 0 then
    be16 c.extALPN ++ (be16 (be16 (u8 m.alpn.length :: m.alpn).length ++ (u8 m.alpn.length :: m.alpn)).length ++
      (be16 (u8 m.alpn.length :: m.alpn).length ++ (u8 m.alpn.length :: m.alpn)))
  else []

def shE3 (c : Codes) (m : ServerHello) : Bytes :=
  if m.sniAck then be16 c.extServerName ++ [0, 0] else []

structure SHwf (m : ServerHello) : Prop where
  rnd : m.random.length = 32
  sid : m.sessionId.length ≤ 32
  ocsp : m.ocsp = decide (0 < m.ocspResponse.length)
  resp : 1 + 3 + m.ocspResponse.length < 65536
  alpn : m.alpn.length < 256
  total : Spec.Codec.serverExtLen m < 65536

theorem shwf_of {m : ServerHello} (h : Spec.Codec.wfServerHello m = true) : SHwf m := by
  simp only [Spec.Codec.wfServerHello, Bool.and_eq_true, beq_iff_eq, decide_eq_true_eq] at h
  obtain ⟨⟨⟨⟨⟨h1, h2⟩, h3⟩, h4⟩, h5⟩, h6⟩ := h
  exact ⟨h1, h2, h3, h4, h5, h6⟩

theorem encServerExtensions_eq (c : Codes) (m : ServerHello) (hw : SHwf m) :
    encServerExtensions c m = some (shE1 c m ++ shE2 c m ++ shE3 c m) := by
  have hr := hw.resp
  have ha := hw.alpn
  have h1 : optBytes (m.ocsp && decide (m.ocspResponse.length > 0))
      (ext c.extStatusRequest (prefixed 1 (vec24 m.ocspResponse))) =
      some (shE1 c m) := by
    unfold shE1 optBytes
    split
    · have hv : vec24 m.ocspResponse = some (be24 m.ocspResponse.length ++ m.ocspResponse) := vec24_of_lt (by omega)
      have hl : (1 :: (be24 m.ocspResponse.length ++ m.ocspResponse)).length < 65536 := by
        simp [be24]; omega
      simp only [hv, prefixed, ext, vec16_of_lt hl]
    · rfl
  have h2 : optBytes (decide (m.alpn.length > 0)) (ext c.extALPN (vec16x2 (vec8 m.alpn))) = some (shE2 c m) := by
    unfold shE2 optBytes
    split
    · rename_i hp
      have hp' : m.alpn.length > 0 := by simpa using hp
      have hl1 : (u8 m.alpn.length :: m.alpn).length < 65536 := by simp; omega
      have hl2 : (be16 (u8 m.alpn.length :: m.alpn).length ++ (u8 m.alpn.length :: m.alpn)).length < 65536 := by
        simp [be16]; omega
      simp only [vec8_of_lt ha, vec16x2, vec16_of_lt hl1, ext, vec16_of_lt hl2, hp', ↓reduceIte]
    · rename_i hp
      have hp' : ¬ m.alpn.length > 0 := by simpa using hp
      simp only [hp', ↓reduceIte]
  have h3 : optBytes m.sniAck (some (be16 c.extServerName ++ [0, 0])) = some (shE3 c m) := by
    unfold shE3 optBytes; split <;> rfl
  unfold encServerExtensions
  rw [h1, h2, h3]

theorem serverExtStep_e1 (c : Codes) (hc : HelloCodes c) (m : ServerHello) (hw : SHwf m)
    (hp : (m.ocsp && decide (m.ocspResponse.length > 0)) = true) (st : ServerHello) (r : Bytes) :
    serverExtStep c st (shE1 c m ++ r) = some ({ st with ocsp := true, ocspResponse := m.ocspResponse }, r) := by
  have hr := hw.resp
  have hl : (1 :: (be24 m.ocspResponse.length ++ m.ocspResponse)).length < 65536 := by simp [be24]; omega
  have hv := readVec24_append (c := m.ocspResponse) (by omega) ([] : Bytes)
  simp only [List.append_nil] at hv
  simp only [shE1, hp, ↓reduceIte, List.append_assoc, serverExtStep, readU16_be16 (show c.extStatusRequest < 65536 by rw [hc.status]; decide)]
  have := readVec16_append hl r
  simp only [List.append_assoc] at this
  simp only [this, serverExtCase, ↓reduceIte, readU8, ne_eq, not_true_eq_false, hv, isEmpty_nil, Bool.or_true]

theorem serverExtStep_e2 (c : Codes) (hc : HelloCodes c) (m : ServerHello) (hw : SHwf m)
    (hp : m.alpn.length > 0) (st : ServerHello) (r : Bytes) :
    serverExtStep c st (shE2 c m ++ r) = some ({ st with alpn := m.alpn }, r) := by
  have ha := hw.alpn
  have hl1 : (u8 m.alpn.length :: m.alpn).length < 65536 := by simp; omega
  have hl2 : (be16 (u8 m.alpn.length :: m.alpn).length ++ (u8 m.alpn.length :: m.alpn)).length < 65536 := by
    simp [be16]; omega
  have hne : c.extALPN ≠ c.extStatusRequest := by rw [hc.alpn, hc.status]; decide
  have h1 := readVec16_append hl2 r
  have h2 := readVec16_append hl1 ([] : Bytes)
  have h3 := readVec8_append ha ([] : Bytes)
  simp only [List.append_nil, List.append_assoc] at h1 h2 h3
  have hne2 : isEmpty m.alpn = false := by
    cases hm : m.alpn with
    | nil => rw [hm] at hp; simp at hp
    | cons _ _ => rfl
  have hne3 : isEmpty (u8 m.alpn.length :: m.alpn) = false := rfl
  simp only [shE2, hp, ↓reduceIte, List.append_assoc, serverExtStep,
    readU16_be16 (show c.extALPN < 65536 by rw [hc.alpn]; decide), h1, serverExtCase, hne, h2, hne3,
    Bool.false_eq_true, h3, hne2, isEmpty_nil, Bool.not_true, Bool.or_self, Bool.or_true, ↓reduceIte]

theorem serverExtStep_e3 (c : Codes) (hc : HelloCodes c) (m : ServerHello) (hp : m.sniAck = true) (st : ServerHello) (r : Bytes) :
    serverExtStep c st (shE3 c m ++ r) = some ({ st with sniAck := true }, r) := by
  have hne1 : c.extServerName ≠ c.extStatusRequest := by rw [hc.sni, hc.status]; decide
  have hne2 : c.extServerName ≠ c.extALPN := by rw [hc.sni, hc.alpn]; decide
  have h1 : readVec16 (0 :: 0 :: r) = some ([], r) := by simp [readVec16, readU16, readBytes, nat16]
  simp only [shE3, hp, ↓reduceIte, List.append_assoc, serverExtStep,
    readU16_be16 (show c.extServerName < 65536 by rw [hc.sni]; decide), List.cons_append, List.nil_append, h1,
    serverExtCase, hne1, hne2, List.length_nil, ne_eq, not_true_eq_false, isEmpty_nil, Bool.or_true, ↓reduceIte]

theorem shE1_ne (c : Codes) (m : ServerHello) (hp : (m.ocsp && decide (m.ocspResponse.length > 0)) = true) : shE1 c m ≠ [] := by
  simp [shE1, hp, be16]
theorem shE2_ne (c : Codes) (m : ServerHello) (hp : m.alpn.length > 0) : shE2 c m ≠ [] := by
  simp [shE2, hp, be16]
theorem shE3_ne (c : Codes) (m : ServerHello) (hp : m.sniAck = true) : shE3 c m ≠ [] := by
  simp [shE3, hp, be16]

inductive SExt where
  | ocsp | alpn | ack

def sEnc (c : Codes) (m : ServerHello) : SExt → Bytes
  | .ocsp => shE1 c m
  | .alpn => shE2 c m
  | .ack => shE3 c m

def sUpd (m : ServerHello) (st : ServerHello) : SExt → ServerHello
  | .ocsp => { st with ocsp := true, ocspResponse := m.ocspResponse }
  | .alpn => { st with alpn := m.alpn }
  | .ack => { st with sniAck := true }

def sPresent (m : ServerHello) : SExt → Prop
  | .ocsp => (m.ocsp && decide (m.ocspResponse.length > 0)) = true
  | .alpn => m.alpn.length > 0
  | .ack => m.sniAck = true

def sItems (m : ServerHello) : List SExt :=
  (if m.ocsp && decide (m.ocspResponse.length > 0) then [SExt.ocsp] else []) ++
  (if m.alpn.length > 0 then [SExt.alpn] else []) ++ (if m.sniAck then [SExt.ack] else [])

theorem sItems_concat (c : Codes) (m : ServerHello) :
    concatMap (sEnc c m) (sItems m) = shE1 c m ++ shE2 c m ++ shE3 c m := by
  unfold sItems shE1 shE2 shE3
  split <;> split <;> split <;> simp [concatMap, sEnc, shE1, shE2, shE3, *]

theorem sItems_present (m : ServerHello) : ∀ x ∈ sItems m, sPresent m x := by
  intro x hx
  unfold sItems at hx
  simp only [List.mem_append] at hx
  rcases hx with (hx | hx) | hx
  · split at hx
    · rename_i h; simp at hx; subst hx; exact h
    · simp at hx
  · split at hx
    · rename_i h; simp at hx; subst hx; exact h
    · simp at hx
  · split at hx
    · rename_i h; simp at hx; subst hx; exact h
    · simp at hx

theorem sItems_length (m : ServerHello) : (sItems m).length ≤ 3 := by
  unfold sItems
  split <;> split <;> split <;> simp

theorem sItems_fold (m : ServerHello) (hw : SHwf m) :
    (sItems m).foldl (sUpd m) ⟨m.vers, m.random, m.sessionId, m.suite, m.compression, false, [], [], false⟩ = m := by
  have ho := hw.ocsp
  cases m with
  | mk vers random sid suite cm ocsp resp alpn ack =>
    clear hw
    cases resp <;> cases alpn <;> cases ack <;> cases ocsp <;>
      first
        | (exfalso; simp at ho; done)
        | simp [sItems, sUpd]

/-- the extension loop over the optional server extensions gives back the message -/
theorem server_loop (c : Codes) (hc : HelloCodes c) (m : ServerHello) (hw : SHwf m) (f : Nat) (hf : 3 ≤ f) :
    foldMany (serverExtStep c) f ⟨m.vers, m.random, m.sessionId, m.suite, m.compression, false, [], [], false⟩
      (shE1 c m ++ shE2 c m ++ shE3 c m) = some m := by
  rw [← sItems_concat]
  have := foldMany_concat' (serverExtStep c) (sEnc c m) (sUpd m) (sPresent m)
    (fun x hx => by
      cases x
      · exact shE1_ne c m hx
      · exact shE2_ne c m hx
      · exact shE3_ne c m hx)
    (fun st x r hx => by
      cases x
      · exact serverExtStep_e1 c hc m hw hx st r
      · exact serverExtStep_e2 c hc m hw hx st r
      · exact serverExtStep_e3 c hc m hx st r)
    (sItems m) f ⟨m.vers, m.random, m.sessionId, m.suite, m.compression, false, [], [], false⟩
    (sItems_present m) (by have := sItems_length m; omega)
  rw [this, sItems_fold m hw]

theorem shE_length (c : Codes) (m : ServerHello) (hw : SHwf m) :
    (shE1 c m ++ shE2 c m ++ shE3 c m).length = Spec.Codec.serverExtLen m := by
  have ho := hw.ocsp
  unfold shE1 shE2 shE3 Spec.Codec.serverExtLen
  cases hoc : m.ocsp <;> cases hak : m.sniAck <;> (rw [hoc] at ho) <;>
    (by_cases ha : m.alpn.length > 0) <;> simp_all [be16, be24] <;> omega

/-- body-level round trip of ServerHello (shared by both stacks) -/
theorem rt_serverHelloBody (c : Codes) (hc : HelloCodes c) (m : ServerHello) (hw : SHwf m) :
    ∃ body, encServerHelloBody c m = some body ∧ decServerHelloBody c body = some m ∧ body.length < 16777216 := by
  have hsid : m.sessionId.length < 256 := by have := hw.sid; omega
  have hel := shE_length c m hw
  have htot := hw.total
  have hex : ∃ ex, extBlock (shE1 c m ++ shE2 c m ++ shE3 c m) = some ex ∧ ex.length < 65540 ∧
      (∀ m0 : ServerHello, m0 = ⟨m.vers, m.random, m.sessionId, m.suite, m.compression, false, [], [], false⟩ →
        (if isEmpty ex then some m0 else
          match readVec16 ex with
          | none => none
          | some (exts, s6) => if !isEmpty s6 then none else foldMany (serverExtStep c) exts.length m0 exts) = some m) := by
    by_cases he : (shE1 c m ++ shE2 c m ++ shE3 c m).length > 0
    · have hlt : (shE1 c m ++ shE2 c m ++ shE3 c m).length < 65536 := by omega
      refine ⟨be16 (shE1 c m ++ shE2 c m ++ shE3 c m).length ++ (shE1 c m ++ shE2 c m ++ shE3 c m),
        by simp only [extBlock, he, ↓reduceIte, vec16_of_lt hlt], by rw [List.length_append, be16_length]; omega, ?_⟩
      intro m0 hm0
      have hne : isEmpty (be16 (shE1 c m ++ shE2 c m ++ shE3 c m).length ++ (shE1 c m ++ shE2 c m ++ shE3 c m)) = false := by
        simp [be16, isEmpty]
      have hv := readVec16_append hlt ([] : Bytes)
      simp only [List.append_nil] at hv
      rw [hne, hv, hm0]
      simp only [Bool.false_eq_true, ↓reduceIte, isEmpty, Bool.not_true]
      apply server_loop c hc m hw
      -- every extension is at least 4 bytes long, so a non-empty block has length ≥ 3
      have : Spec.Codec.serverExtLen m = 0 ∨ 3 ≤ Spec.Codec.serverExtLen m := by
        unfold Spec.Codec.serverExtLen; split <;> split <;> split <;> omega
      omega
    · have hnil : shE1 c m ++ shE2 c m ++ shE3 c m = [] := List.eq_nil_of_length_eq_zero (by omega)
      refine ⟨[], by simp [extBlock, hnil], by simp, ?_⟩
      intro m0 hm0
      simp only [isEmpty, ↓reduceIte, hm0]
      -- no extension present: the fields are the defaults
      have hz : Spec.Codec.serverExtLen m = 0 := by rw [← hel, hnil]; rfl
      have ho := hw.ocsp
      have h3 : m.ocsp = false ∧ m.alpn = [] ∧ m.sniAck = false := by
        unfold Spec.Codec.serverExtLen at hz
        refine ⟨?_, ?_, ?_⟩
        · cases h : m.ocsp
          · rfl
          · rw [h] at hz; simp at hz
        · apply List.eq_nil_of_length_eq_zero
          by_cases h : m.alpn.length > 0
          · simp [h] at hz
          · omega
        · cases h : m.sniAck
          · rfl
          · rw [h] at hz; simp at hz
      obtain ⟨h31, h32, h33⟩ := h3
      have h34 : m.ocspResponse = [] := by
        rw [h31] at ho
        apply List.eq_nil_of_length_eq_zero
        have : ¬ (0 < m.ocspResponse.length) := by simpa using ho.symm
        omega
      cases m
      simp_all
  obtain ⟨ex, hex1, hex2, hex3⟩ := hex
  have hrl : m.random.length = c.randomLen := by rw [hc.rnd]; exact hw.rnd
  refine ⟨m.vers.bytes ++ m.random ++ (u8 m.sessionId.length :: m.sessionId) ++ m.suite.bytes ++ [m.compression] ++ ex, ?_, ?_, ?_⟩
  · simp only [encServerHelloBody, encServerExtensions_eq c m hw, exactly, hrl, ↓reduceIte, vec8_of_lt hsid, hex1]
  · have h1 := readBytes_append m.random ((u8 m.sessionId.length :: m.sessionId) ++ m.suite.bytes ++ [m.compression] ++ ex)
    rw [hrl] at h1
    have h2 := readVec8_append hsid (m.suite.bytes ++ [m.compression] ++ ex)
    simp only [List.append_assoc, List.cons_append, W16.bytes, List.nil_append] at h1 h2
    simp only [decServerHelloBody, W16.bytes, List.append_assoc, List.cons_append, List.nil_append, readW16, h1, h2, readU8]
    exact hex3 _ rfl
  · simp only [List.length_append, W16.bytes, List.length_cons, List.length_nil]
    have := hw.rnd
    omega

/-! ### lifting a body round trip to the two header forms -/

theorem skip4 (t : UInt8) (n : Nat) (body : Bytes) : skip 4 (t :: (be24 n ++ body)) = some body := by
  simp [skip, be24]

theorem ofOption_ne_panic {α : Type} (o : Option α) : Outcome.ofOption o ≠ .panic := by
  cases o <;> simp [Outcome.ofOption]

theorem rt_serverHello_tlcp (c : Codes) (hc : HelloCodes c) (m : ServerHello)
    (hw : Spec.Codec.wfServerHello m = true) :
    ∃ b, encServerHello c m = some b ∧ unmarshalServerHello c b = .ok m := by
  obtain ⟨body, h1, h2, h3⟩ := rt_serverHelloBody c hc m (shwf_of hw)
  refine ⟨u8 c.tServerHello :: (be24 body.length ++ body), by simp only [encServerHello, h1, vec24_of_lt h3], ?_⟩
  rw [unmarshalServerHello, guardT_pass _ _ h3, decServerHello, skip4]
  simp only [h2]; rfl

theorem total_serverHello_tlcp (c : Codes) (b : Bytes) : unmarshalServerHello c b ≠ .panic := by
  apply guardT_ne_panic
  unfold decServerHello
  split
  · simp
  · exact ofOption_ne_panic _

theorem rt_serverHello_dtlcp (c : Codes) (hc : HelloCodes c) (r : Lemmas.CodecDtlcp.Ready c c.tServerHello)
    (h : DHdr) (m : ServerHello) (hw : Spec.Codec.wfServerHello m = true)
    (hh : ∀ body, encServerHelloBody c m = some body → Spec.Codec.wfDHdr h body.length = true) :
    ∃ b body, encServerHelloBody c m = some body ∧ Model.CodecDtlcp.encServerHello c h m = some b ∧
      Model.CodecDtlcp.decServerHello c b = .ok (⟨h.seq, 0, body.length⟩, m) := by
  obtain ⟨body, h1, h2, h3⟩ := rt_serverHelloBody c hc m (shwf_of hw)
  refine ⟨Lemmas.CodecDtlcp.chdr (u8 c.tServerHello) body.length h.seq ++ body, body, h1, ?_, ?_⟩
  · simp only [Model.CodecDtlcp.encServerHello, h1, Lemmas.CodecDtlcp.header_complete _ _ _ (hh body h1)]
  · unfold Model.CodecDtlcp.decServerHello
    rw [Lemmas.CodecDtlcp.guard_pass c r.hl _ _ h3, Lemmas.CodecDtlcp.unmarshalHeader_complete _ _ h3]
    simp [h2]

theorem total_serverHello_dtlcp (c : Codes) (r : Lemmas.CodecDtlcp.Ready c c.tServerHello) (b : Bytes) :
    Model.CodecDtlcp.decServerHello c b ≠ .panic := by
  unfold Model.CodecDtlcp.decServerHello
  apply Lemmas.CodecDtlcp.guard_ne_panic c r.hl
  split
  · simp
  · split
    · simp
    · split <;> simp

/-! ### ClientHello -/

/-- `code`, then the extension data `vec16(inner)` wrapped once more -/
def wrap2 (code : Nat) (inner : Bytes) : Bytes :=
  be16 code ++ (be16 (be16 inner.length ++ inner).length ++ (be16 inner.length ++ inner))

theorem wrap2_length (code : Nat) (inner : Bytes) : (wrap2 code inner).length = 6 + inner.length := by
  simp [wrap2, be16]; omega

theorem wrap2_ne (code : Nat) (inner : Bytes) : wrap2 code inner ≠ [] := by simp [wrap2, be16]

theorem ext_wrap2 (code : Nat) {inner : Bytes} (h : inner.length + 2 < 65536) :
    ext code (vec16x2 (some inner)) = some (wrap2 code inner) := by
  have h1 : inner.length < 65536 := by omega
  have h2 : (be16 inner.length ++ inner).length < 65536 := by rw [List.length_append, be16_length]; omega
  simp only [vec16x2, vec16_of_lt h1, ext, vec16_of_lt h2, wrap2]

theorem clientExtStep_wrap2 (c : Codes) (st : ClientHello) {code : Nat} (hcode : code < 65536) {inner : Bytes}
    (h : inner.length + 2 < 65536) (r : Bytes) {m' : ClientHello}
    (hcase : clientExtCase c st code (be16 inner.length ++ inner) = some (m', [], false)) :
    clientExtStep c st (wrap2 code inner ++ r) = some (m', r) := by
  have h2 : (be16 inner.length ++ inner).length < 65536 := by rw [List.length_append, be16_length]; omega
  have hv := readVec16_append h2 r
  simp only [List.append_assoc] at hv
  simp only [clientExtStep, wrap2, List.append_assoc, readU16_be16 hcode, hv, hcase, isEmpty_nil, Bool.or_true, ↓reduceIte]

theorem readVec16_inner {inner : Bytes} (h : inner.length + 2 < 65536) :
    readVec16 (be16 inner.length ++ inner) = some (inner, []) := by
  have := readVec16_append (c := inner) (by omega) ([] : Bytes)
  simpa using this

theorem isEmpty_false_of_pos {s : Bytes} (h : s.length > 0) : isEmpty s = false := by
  cases s with
  | nil => simp at h
  | cons _ _ => rfl

/-- SNI -/
def sniInner (name : Bytes) : Bytes := 0 :: (be16 name.length ++ name)

def sniUpd (name : Bytes) (st : ClientHello) : ClientHello :=
  if st.serverName.length ≠ 0 then st else { st with serverName := name }

theorem case_sni (c : Codes) (hc : HelloCodes c) (st : ClientHello) (name : Bytes) (h0 : name.length > 0)
    (h1 : name.length + 5 < 65536) (hdot : Spec.Codec.noTrailingDot name = true) :
    clientExtCase c st c.extServerName (be16 (sniInner name).length ++ sniInner name) = some (sniUpd name st, [], false) := by
  have hl : (sniInner name).length + 2 < 65536 := by simp [sniInner, be16]; omega
  have hne : isEmpty (sniInner name) = false := rfl
  have hv := readVec16_append (c := name) (by omega) ([] : Bytes)
  simp only [List.append_nil] at hv
  have hne2 : isEmpty name = false := isEmpty_false_of_pos h0
  have hld : lastDot name = false := by
    unfold Spec.Codec.noTrailingDot at hdot
    unfold lastDot
    cases hg : name.getLast? with
    | none => rfl
    | some b => rw [hg] at hdot; simp only at hdot ⊢; simpa using hdot
  have hstep : sniStep st (sniInner name) = some (sniUpd name st, []) := by
    simp only [sniStep, sniInner, readU8, hv, hne2, Bool.false_eq_true, ↓reduceIte, ne_eq, not_true_eq_false, hld, sniUpd]
    split <;> rfl
  have hf : foldMany sniStep (sniInner name).length st (sniInner name) = some (sniUpd name st) := by
    have := foldMany_step sniStep ((sniInner name).length - 1) st (sniUpd name st) (sniInner name) [] (by simp [sniInner])
      (by simpa using hstep)
    have hlen : (sniInner name).length = ((sniInner name).length - 1) + 1 := by simp [sniInner]
    rw [hlen]
    simp only [List.append_nil] at this
    rw [this, foldMany_nil]
  simp only [clientExtCase, ↓reduceIte, readVec16_inner hl, hne, Bool.false_eq_true, hf]

/-- trusted authorities -/
def taEnc (t : TA) : Bytes := if t.ty == 2 then t.ty :: (be16 t.id.length ++ t.id) else t.ty :: t.id

theorem encTA_eq (c : Codes) (hc : HelloCodes c) (t : TA) (hw : Spec.Codec.wfTA t = true) : encTA c t = some (taEnc t) := by
  unfold Spec.Codec.wfTA at hw
  unfold encTA taEnc
  rw [hc.pre, hc.keyH, hc.certH, hc.x509]
  by_cases h0 : t.ty = 0
  · have hid : t.id = [] := by
      simp only [h0, beq_self_eq_true, ↓reduceIte, beq_iff_eq] at hw
      exact List.eq_nil_of_length_eq_zero hw
    simp [h0, hid]
  · have h0' : ¬ (t.ty.toNat = 0) := fun h => h0 (UInt8.toNat_inj.mp h)
    by_cases h45 : t.ty = 4 ∨ t.ty = 5
    · have : t.ty.toNat = 4 ∨ t.ty.toNat = 5 := by rcases h45 with h | h <;> simp [h]
      have h2 : ¬ (t.ty == 2) = true := by rcases h45 with h | h <;> simp [h]
      simp [h0', this, h2]
    · have h45' : ¬ (t.ty.toNat = 4 ∨ t.ty.toNat = 5) := by
        intro h; apply h45
        rcases h with h | h
        · left; exact UInt8.toNat_inj.mp h
        · right; exact UInt8.toNat_inj.mp h
      by_cases h2 : t.ty = 2
      · have hl : t.id.length < 65536 := by
          simp only [h2] at hw
          simp at hw; exact hw.2
        simp [h0', h45', h2, prefixed, vec16_of_lt hl]
      · exfalso
        have b0 : (t.ty == 0) = false := by simpa using h0
        have b2 : (t.ty == 2) = false := by simpa using h2
        have b45 : (t.ty == 4 || t.ty == 5) = false := by
          simp only [Bool.or_eq_false_iff, beq_eq_false_iff_ne, ne_eq]
          exact ⟨fun h => h45 (Or.inl h), fun h => h45 (Or.inr h)⟩
        simp [b0, b2, b45] at hw

theorem concatMapM_encTA (c : Codes) (hc : HelloCodes c) (tas : List TA) (hw : ∀ t ∈ tas, Spec.Codec.wfTA t = true) :
    concatMapM (encTA c) tas = some (concatMap taEnc tas) := by
  induction tas with
  | nil => rfl
  | cons t ts ih =>
    simp only [concatMapM, encTA_eq c hc t (hw t List.mem_cons_self),
      ih (fun x hx => hw x (List.mem_cons_of_mem _ hx)), concatMap]

theorem taStep_item (c : Codes) (hc : HelloCodes c) (st : ClientHello) (t : TA) (hw : Spec.Codec.wfTA t = true) (r : Bytes) :
    taStep c st (taEnc t ++ r) = some ({ st with tas := st.tas ++ [t] }, r) := by
  unfold Spec.Codec.wfTA at hw
  unfold taStep taEnc
  rw [hc.pre, hc.keyH, hc.certH, hc.x509, hc.hash]
  by_cases h0 : t.ty = 0
  · have hid : t.id = [] := by
      simp only [h0, beq_self_eq_true, ↓reduceIte, beq_iff_eq] at hw
      exact List.eq_nil_of_length_eq_zero hw
    cases t with
    | mk ty id => simp only at h0 hid; subst h0; subst hid; simp [readU8]
  · have h0' : ¬ (t.ty.toNat = 0) := fun h => h0 (UInt8.toNat_inj.mp h)
    by_cases h45 : t.ty = 4 ∨ t.ty = 5
    · have hn : t.ty.toNat = 4 ∨ t.ty.toNat = 5 := by rcases h45 with h | h <;> simp [h]
      have h2 : ¬ (t.ty == 2) = true := by rcases h45 with h | h <;> simp [h]
      have hlen : t.id.length = 32 := by
        have b0 : (t.ty == 0) = false := by simpa using h0
        have b45 : (t.ty == 4 || t.ty == 5) = true := by rcases h45 with h | h <;> simp [h]
        simpa [b0, b45] using hw
      have hrb := readBytes_append t.id r
      rw [hlen] at hrb
      cases t with
      | mk ty id => simp only at *; simp [readU8, h0', hn, h2, hrb]
    · have h45' : ¬ (t.ty.toNat = 4 ∨ t.ty.toNat = 5) := by
        intro h; apply h45
        rcases h with h | h
        · left; exact UInt8.toNat_inj.mp h
        · right; exact UInt8.toNat_inj.mp h
      by_cases h2 : t.ty = 2
      · have hl : t.id.length < 65536 := by
          simp only [h2] at hw
          simp at hw; exact hw.2
        have hv := readVec16_append hl r
        cases t with
        | mk ty id =>
          simp only at *
          subst h2
          simp only [List.append_assoc] at hv
          simp [readU8, hv]
      · exfalso
        have b0 : (t.ty == 0) = false := by simpa using h0
        have b2 : (t.ty == 2) = false := by simpa using h2
        have b45 : (t.ty == 4 || t.ty == 5) = false := by
          simp only [Bool.or_eq_false_iff, beq_eq_false_iff_ne, ne_eq]
          exact ⟨fun h => h45 (Or.inl h), fun h => h45 (Or.inr h)⟩
        simp [b0, b2, b45] at hw

theorem taEnc_ne (t : TA) : taEnc t ≠ [] := by unfold taEnc; split <;> simp

theorem foldl_tas (st : ClientHello) (tas : List TA) :
    tas.foldl (fun s t => { s with tas := s.tas ++ [t] }) st = { st with tas := st.tas ++ tas } := by
  induction tas generalizing st with
  | nil => simp
  | cons t ts ih => simp only [List.foldl_cons, ih]; simp

theorem case_tas (c : Codes) (hc : HelloCodes c) (st : ClientHello) (tas : List TA) (h0 : tas.length > 0)
    (hw : ∀ t ∈ tas, Spec.Codec.wfTA t = true) (hl : (concatMap taEnc tas).length + 2 < 65536) :
    clientExtCase c st c.extTrustedCAKeys (be16 (concatMap taEnc tas).length ++ concatMap taEnc tas) =
      some ({ st with tas := st.tas ++ tas }, [], false) := by
  have hne1 : c.extTrustedCAKeys ≠ c.extServerName := by rw [hc.tca, hc.sni]; decide
  have hge := concatMap_length_ge taEnc (fun _ => True) (fun x _ => taEnc_ne x) tas (fun _ _ => trivial)
  have hne : isEmpty (concatMap taEnc tas) = false := isEmpty_false_of_pos (by omega)
  have hf := foldMany_concat' (taStep c) taEnc (fun s t => { s with tas := s.tas ++ [t] })
    (fun t => Spec.Codec.wfTA t = true) (fun x _ => taEnc_ne x) (fun s x r hx => taStep_item c hc s x hx r)
    tas (concatMap taEnc tas).length st hw hge
  rw [foldl_tas] at hf
  simp only [clientExtCase, hne1, ↓reduceIte, readVec16_inner hl, hne, Bool.false_eq_true, hf]

/-- status_request -/
def statusExt (c : Codes) : Bytes := be16 c.extStatusRequest ++ (be16 5 ++ [1, 0, 0, 0, 0])

theorem step_status (c : Codes) (hc : HelloCodes c) (st : ClientHello) (r : Bytes) :
    clientExtStep c st (statusExt c ++ r) = some ({ st with ocsp := true }, r) := by
  have hne1 : c.extStatusRequest ≠ c.extServerName := by rw [hc.status, hc.sni]; decide
  have hne2 : c.extStatusRequest ≠ c.extTrustedCAKeys := by rw [hc.status, hc.tca]; decide
  have hv : readVec16 (be16 5 ++ ([1, 0, 0, 0, 0] ++ r)) = some ([1, 0, 0, 0, 0], r) := by
    have := readVec16_append (c := [1, 0, 0, 0, 0]) (by decide) r
    simpa using this
  have h0 : readVec16 [0, 0, 0, 0] = some ([], [0, 0]) := by decide
  have h1 : readVec16 [0, 0] = some ([], []) := by decide
  simp only [clientExtStep, statusExt, List.append_assoc, readU16_be16 (show c.extStatusRequest < 65536 by rw [hc.status]; decide),
    hv, clientExtCase, hne1, hne2, ↓reduceIte, readU8, h0, h1, isEmpty_nil, Bool.or_true]
  rfl

/-- 16-bit item lists (curves, signature algorithms) -/
theorem w16s_ne {l : List W16} (h : l.length > 0) : isEmpty (w16s l) = false := by
  apply isEmpty_false_of_pos; rw [w16s_length]; omega

theorem listMode_default {mode : Nat} (hm : mode ≤ 1) (l : List W16) : listMode mode [] l = l := by
  unfold listMode
  split
  · rfl
  · split
    · rfl
    · omega

theorem case_curves (c : Codes) (hc : HelloCodes c) (st : ClientHello) (l : List W16) (h0 : l.length > 0)
    (hl : (w16s l).length + 2 < 65536) :
    clientExtCase c st c.extSupportedCurves (be16 (w16s l).length ++ w16s l) =
      some ({ st with curves := listMode c.curvesMode st.curves l }, [], false) := by
  have hne1 : c.extSupportedCurves ≠ c.extServerName := by rw [hc.curves, hc.sni]; decide
  have hne2 : c.extSupportedCurves ≠ c.extTrustedCAKeys := by rw [hc.curves, hc.tca]; decide
  have hne3 : c.extSupportedCurves ≠ c.extStatusRequest := by rw [hc.curves, hc.status]; decide
  have hm := many_w16s l (w16s l).length (by rw [w16s_length]; omega)
  simp only [clientExtCase, hne1, hne2, hne3, ↓reduceIte, readVec16_inner hl, w16s_ne h0, Bool.false_eq_true, hm]

theorem case_sigs (c : Codes) (hc : HelloCodes c) (st : ClientHello) (l : List W16) (h0 : l.length > 0)
    (hl : (w16s l).length + 2 < 65536) :
    clientExtCase c st c.extSignatureAlgorithms (be16 (w16s l).length ++ w16s l) =
      some ({ st with sigAlgs := listMode c.sigAlgsMode st.sigAlgs l }, [], false) := by
  have hne1 : c.extSignatureAlgorithms ≠ c.extServerName := by rw [hc.sigs, hc.sni]; decide
  have hne2 : c.extSignatureAlgorithms ≠ c.extTrustedCAKeys := by rw [hc.sigs, hc.tca]; decide
  have hne3 : c.extSignatureAlgorithms ≠ c.extStatusRequest := by rw [hc.sigs, hc.status]; decide
  have hne4 : c.extSignatureAlgorithms ≠ c.extSupportedCurves := by rw [hc.sigs, hc.curves]; decide
  have hm := many_w16s l (w16s l).length (by rw [w16s_length]; omega)
  simp only [clientExtCase, hne1, hne2, hne3, hne4, ↓reduceIte, readVec16_inner hl, w16s_ne h0, Bool.false_eq_true, hm]

/-- ALPN -/
def alpnEnc (p : Bytes) : Bytes := u8 p.length :: p

def AlpnOk (p : Bytes) : Prop := 0 < p.length ∧ p.length < 256

theorem concatMapM_alpn (l : List Bytes) (hw : ∀ p ∈ l, AlpnOk p) : concatMapM alpnItem l = some (concatMap alpnEnc l) := by
  induction l with
  | nil => rfl
  | cons p ps ih =>
    simp only [concatMapM, alpnItem, vec8_of_lt (hw p List.mem_cons_self).2,
      ih (fun x hx => hw x (List.mem_cons_of_mem _ hx)), concatMap, alpnEnc]

theorem alpnStep_item (st : ClientHello) (p : Bytes) (hw : AlpnOk p) (r : Bytes) :
    alpnStep st (alpnEnc p ++ r) = some ({ st with alpn := st.alpn ++ [p] }, r) := by
  have hv := readVec8_append hw.2 r
  simp only [alpnStep, alpnEnc, List.cons_append] at hv ⊢
  simp only [hv, isEmpty_false_of_pos hw.1, Bool.false_eq_true, ↓reduceIte]

theorem foldl_alpn (st : ClientHello) (l : List Bytes) :
    l.foldl (fun s p => { s with alpn := s.alpn ++ [p] }) st = { st with alpn := st.alpn ++ l } := by
  induction l generalizing st with
  | nil => simp
  | cons t ts ih => simp only [List.foldl_cons, ih]; simp

theorem case_alpn (c : Codes) (hc : HelloCodes c) (st : ClientHello) (l : List Bytes) (h0 : l.length > 0)
    (hw : ∀ p ∈ l, AlpnOk p) (hl : (concatMap alpnEnc l).length + 2 < 65536) :
    clientExtCase c st c.extALPN (be16 (concatMap alpnEnc l).length ++ concatMap alpnEnc l) =
      some ({ st with alpn := st.alpn ++ l }, [], false) := by
  have hne1 : c.extALPN ≠ c.extServerName := by rw [hc.alpn, hc.sni]; decide
  have hne2 : c.extALPN ≠ c.extTrustedCAKeys := by rw [hc.alpn, hc.tca]; decide
  have hne3 : c.extALPN ≠ c.extStatusRequest := by rw [hc.alpn, hc.status]; decide
  have hne4 : c.extALPN ≠ c.extSupportedCurves := by rw [hc.alpn, hc.curves]; decide
  have hne5 : c.extALPN ≠ c.extSignatureAlgorithms := by rw [hc.alpn, hc.sigs]; decide
  have hge := concatMap_length_ge alpnEnc (fun _ => True) (fun x _ => by simp [alpnEnc]) l (fun _ _ => trivial)
  have hne : isEmpty (concatMap alpnEnc l) = false := isEmpty_false_of_pos (by omega)
  have hf := foldMany_concat' alpnStep alpnEnc (fun s p => { s with alpn := s.alpn ++ [p] }) AlpnOk
    (fun x _ => by simp [alpnEnc]) (fun s x r hx => alpnStep_item s x hx r) l (concatMap alpnEnc l).length st hw hge
  rw [foldl_alpn] at hf
  simp only [clientExtCase, hne1, hne2, hne3, hne4, hne5, ↓reduceIte, readVec16_inner hl, hne, Bool.false_eq_true, hf]

theorem case_cid (c : Codes) (hc : HelloCodes c) (st : ClientHello) (id : Bytes) (hl : id.length + 2 < 65536) :
    clientExtCase c st c.extClientID (be16 id.length ++ id) = some ({ st with clientId := id }, [], false) := by
  have hne1 : c.extClientID ≠ c.extServerName := by rw [hc.cid, hc.sni]; decide
  have hne2 : c.extClientID ≠ c.extTrustedCAKeys := by rw [hc.cid, hc.tca]; decide
  have hne3 : c.extClientID ≠ c.extStatusRequest := by rw [hc.cid, hc.status]; decide
  have hne4 : c.extClientID ≠ c.extSupportedCurves := by rw [hc.cid, hc.curves]; decide
  have hne5 : c.extClientID ≠ c.extSignatureAlgorithms := by rw [hc.cid, hc.sigs]; decide
  have hne6 : c.extClientID ≠ c.extALPN := by rw [hc.cid, hc.alpn]; decide
  simp only [clientExtCase, hne1, hne2, hne3, hne4, hne5, hne6, ↓reduceIte, readVec16_inner hl]

/-! #### the seven optional client extensions as a filtered list -/

inductive CExt where
  | sni | tas | status | curves | sigs | alpn | cid

def cAll : List CExt := [.sni, .tas, .status, .curves, .sigs, .alpn, .cid]

def cEnc (c : Codes) (m : ClientHello) : CExt → Bytes
  | .sni => wrap2 c.extServerName (sniInner m.serverName)
  | .tas => wrap2 c.extTrustedCAKeys (concatMap taEnc m.tas)
  | .status => statusExt c
  | .curves => wrap2 c.extSupportedCurves (w16s m.curves)
  | .sigs => wrap2 c.extSignatureAlgorithms (w16s m.sigAlgs)
  | .alpn => wrap2 c.extALPN (concatMap alpnEnc m.alpn)
  | .cid => wrap2 c.extClientID m.clientId

def cUpd (c : Codes) (m : ClientHello) (st : ClientHello) : CExt → ClientHello
  | .sni => sniUpd m.serverName st
  | .tas => { st with tas := st.tas ++ m.tas }
  | .status => { st with ocsp := true }
  | .curves => { st with curves := listMode c.curvesMode st.curves m.curves }
  | .sigs => { st with sigAlgs := listMode c.sigAlgsMode st.sigAlgs m.sigAlgs }
  | .alpn => { st with alpn := st.alpn ++ m.alpn }
  | .cid => { st with clientId := m.clientId }

def cOn (m : ClientHello) : CExt → Bool
  | .sni => decide (m.serverName.length > 0)
  | .tas => decide (m.tas.length > 0)
  | .status => m.ocsp
  | .curves => decide (m.curves.length > 0)
  | .sigs => decide (m.sigAlgs.length > 0)
  | .alpn => decide (m.alpn.length > 0)
  | .cid => decide (m.clientId.length > 0)

theorem concatMap_filter {α : Type} (f : α → Bytes) (p : α → Bool) (l : List α) :
    concatMap f (l.filter p) = concatMap (fun x => if p x then f x else []) l := by
  induction l with
  | nil => rfl
  | cons x xs ih =>
    simp only [List.filter_cons]
    split <;> simp_all [concatMap]

theorem foldl_filter {α σ : Type} (upd : σ → α → σ) (p : α → Bool) (l : List α) (st : σ) :
    (l.filter p).foldl upd st = l.foldl (fun s x => if p x then upd s x else s) st := by
  induction l generalizing st with
  | nil => rfl
  | cons x xs ih =>
    simp only [List.filter_cons, List.foldl_cons]
    split <;> simp_all

structure CHwf (dtlcp : Bool) (m : ClientHello) : Prop where
  rnd : m.random.length = 32
  sid : m.sessionId.length ≤ 32
  cookie : if dtlcp then m.cookie.length < 256 else m.cookie = []
  suites : 0 < m.suites.length ∧ m.suites.length < 32768
  comp : 0 < m.compression.length ∧ m.compression.length < 256
  dot : Spec.Codec.noTrailingDot m.serverName = true
  tas : ∀ t ∈ m.tas, Spec.Codec.wfTA t = true
  alpn : ∀ p ∈ m.alpn, AlpnOk p
  total : Spec.Codec.clientExtLen m < 65536

theorem chwf_of {st : Stack} {m : ClientHello} (h : Spec.Codec.wfClientHello st m = true) :
    CHwf (decide (st = .dtlcp)) m := by
  simp only [Spec.Codec.wfClientHello, Bool.and_eq_true, beq_iff_eq, decide_eq_true_eq, Spec.Codec.allB,
    List.all_eq_true] at h
  obtain ⟨⟨⟨⟨⟨⟨⟨⟨h1, h2⟩, h3⟩, h4⟩, h5⟩, h6⟩, h7⟩, h8⟩, h9⟩ := h
  refine ⟨h1, h2, ?_, h4, h5, h6, h7, fun p hp => h8 p hp, h9⟩
  cases st
  · simp only [beq_iff_eq] at h3
    simp; exact List.eq_nil_of_length_eq_zero h3
  · simp only [decide_eq_true_eq] at h3
    simp; exact h3

theorem taEnc_length (t : TA) : (taEnc t).length = Spec.Codec.taLen t := by
  unfold taEnc Spec.Codec.taLen
  split <;> simp [be16] <;> omega

theorem tas_length (l : List TA) : (concatMap taEnc l).length = l.foldr (fun t a => Spec.Codec.taLen t + a) 0 := by
  induction l with
  | nil => rfl
  | cons t ts ih => simp only [concatMap, List.length_append, taEnc_length, List.foldr_cons, ih]

theorem alpn_length (l : List Bytes) : (concatMap alpnEnc l).length = Spec.Codec.sumLen l 1 := by
  induction l with
  | nil => rfl
  | cons t ts ih =>
    simp only [concatMap, List.length_append, alpnEnc, List.length_cons, Spec.Codec.sumLen, List.foldr_cons] at ih ⊢
    omega

def cLen (m : ClientHello) : CExt → Nat
  | .sni => if m.serverName.length > 0 then 2 + 2 + 2 + 1 + 2 + m.serverName.length else 0
  | .tas => if m.tas.length > 0 then 2 + 2 + 2 + (m.tas.foldr (fun t a => Spec.Codec.taLen t + a) 0) else 0
  | .status => if m.ocsp then 9 else 0
  | .curves => if m.curves.length > 0 then 6 + 2 * m.curves.length else 0
  | .sigs => if m.sigAlgs.length > 0 then 6 + 2 * m.sigAlgs.length else 0
  | .alpn => if m.alpn.length > 0 then 6 + Spec.Codec.sumLen m.alpn 1 else 0
  | .cid => if m.clientId.length > 0 then 6 + m.clientId.length else 0

theorem cItem_length (c : Codes) (m : ClientHello) (x : CExt) :
    (if cOn m x = true then cEnc c m x else []).length = cLen m x := by
  cases x <;> simp only [cOn, cEnc, cLen, decide_eq_true_eq] <;> split <;>
    simp_all [wrap2_length, sniInner, be16, tas_length, statusExt, w16s_length, alpn_length] <;> try omega

theorem cE_length (c : Codes) (m : ClientHello) :
    (concatMap (cEnc c m) (cAll.filter (cOn m))).length = Spec.Codec.clientExtLen m := by
  rw [concatMap_filter]
  simp only [cAll, concatMap, List.length_append, List.length_nil, Nat.add_zero, cItem_length]
  simp only [cLen, Spec.Codec.clientExtLen]
  omega

theorem cItem_le (c : Codes) (m : ClientHello) (x : CExt) (hx : x ∈ cAll) :
    cLen m x ≤ Spec.Codec.clientExtLen m := by
  simp only [cAll, List.mem_cons, List.mem_nil_iff, or_false] at hx
  unfold Spec.Codec.clientExtLen
  rcases hx with h | h | h | h | h | h | h <;> subst h <;> simp only [cLen] <;> omega

/-- the size bound of each present extension's inner data -/
theorem inner_bound (c : Codes) (m : ClientHello) (dt : Bool) (hw : CHwf dt m) (x : CExt) (hx : x ∈ cAll) (hon : cOn m x = true)
    {inner : Bytes} {code : Nat} (he : cEnc c m x = wrap2 code inner) : inner.length + 2 < 65536 := by
  have h1 := cItem_length c m x
  rw [hon] at h1
  simp only [↓reduceIte, he, wrap2_length] at h1
  have h2 := cItem_le c m x hx
  have h3 := hw.total
  omega

theorem optBytes_eq {b : Bool} {x : Option Bytes} {y : Bytes} (h : b = true → x = some y) :
    optBytes b x = some (if b = true then y else []) := by
  cases b
  · simp [optBytes]
  · simp [optBytes, h rfl]

theorem encClientExtensions_eq (c : Codes) (hc : HelloCodes c) (m : ClientHello) (dt : Bool) (hw : CHwf dt m) :
    encClientExtensions c m = some (concatMap (cEnc c m) (cAll.filter (cOn m))) := by
  rw [concatMap_filter]
  have b (x : CExt) (hx : x ∈ cAll) (hon : cOn m x = true) {inner : Bytes} {code : Nat}
      (he : cEnc c m x = wrap2 code inner) := inner_bound c m dt hw x hx hon he
  have h1 : optBytes (decide (m.serverName.length > 0)) (encSNI c m.serverName) =
      some (if cOn m .sni = true then cEnc c m .sni else []) :=
    optBytes_eq (fun hon => by
      have hb := b .sni (by simp [cAll]) hon rfl
      have hl : m.serverName.length < 65536 := by simp [sniInner, be16] at hb; omega
      simp only [encSNI, vec16_of_lt hl, prefixed]
      exact ext_wrap2 _ hb)
  have h2 : optBytes (decide (m.tas.length > 0)) (ext c.extTrustedCAKeys (vec16x2 (concatMapM (encTA c) m.tas))) =
      some (if cOn m .tas = true then cEnc c m .tas else []) :=
    optBytes_eq (fun hon => by
      rw [concatMapM_encTA c hc m.tas hw.tas]
      exact ext_wrap2 _ (b .tas (by simp [cAll]) hon rfl))
  have h3 : optBytes m.ocsp (ext c.extStatusRequest (some [1, 0, 0, 0, 0])) =
      some (if cOn m .status = true then cEnc c m .status else []) :=
    optBytes_eq (fun hon => by
      simp only [ext, cEnc, statusExt]
      have : vec16 ([1, 0, 0, 0, 0] : Bytes) = some (be16 5 ++ [1, 0, 0, 0, 0]) := by decide
      rw [this])
  have h4 : optBytes (decide (m.curves.length > 0)) (ext c.extSupportedCurves (vec16x2 (some (w16s m.curves)))) =
      some (if cOn m .curves = true then cEnc c m .curves else []) :=
    optBytes_eq (fun hon => ext_wrap2 _ (b .curves (by simp [cAll]) hon rfl))
  have h5 : optBytes (decide (m.sigAlgs.length > 0)) (ext c.extSignatureAlgorithms (vec16x2 (some (w16s m.sigAlgs)))) =
      some (if cOn m .sigs = true then cEnc c m .sigs else []) :=
    optBytes_eq (fun hon => ext_wrap2 _ (b .sigs (by simp [cAll]) hon rfl))
  have h6 : optBytes (decide (m.alpn.length > 0)) (ext c.extALPN (vec16x2 (concatMapM alpnItem m.alpn))) =
      some (if cOn m .alpn = true then cEnc c m .alpn else []) :=
    optBytes_eq (fun hon => by
      rw [concatMapM_alpn m.alpn hw.alpn]
      exact ext_wrap2 _ (b .alpn (by simp [cAll]) hon rfl))
  have h7 : optBytes (decide (m.clientId.length > 0)) (ext c.extClientID (vec16x2 (some m.clientId))) =
      some (if cOn m .cid = true then cEnc c m .cid else []) :=
    optBytes_eq (fun hon => ext_wrap2 _ (b .cid (by simp [cAll]) hon rfl))
  unfold encClientExtensions
  rw [h1, h2, h3, h4, h5, h6, h7]
  simp [cAll, concatMap]

theorem cEnc_ne (c : Codes) (m : ClientHello) (x : CExt) : cEnc c m x ≠ [] := by
  cases x <;> simp [cEnc, wrap2_ne, statusExt, be16]

theorem code_lt (c : Codes) (hc : HelloCodes c) :
    c.extServerName < 65536 ∧ c.extTrustedCAKeys < 65536 ∧ c.extSupportedCurves < 65536 ∧
    c.extSignatureAlgorithms < 65536 ∧ c.extALPN < 65536 ∧ c.extClientID < 65536 := by
  rw [hc.sni, hc.tca, hc.curves, hc.sigs, hc.alpn, hc.cid]; decide

theorem client_step (c : Codes) (hc : HelloCodes c) (m : ClientHello) (dt : Bool) (hw : CHwf dt m)
    (st : ClientHello) (x : CExt) (r : Bytes) (hx : x ∈ cAll ∧ cOn m x = true) :
    clientExtStep c st (cEnc c m x ++ r) = some (cUpd c m st x, r) := by
  obtain ⟨hx, hon⟩ := hx
  obtain ⟨l1, l2, l3, l4, l5, l6⟩ := code_lt c hc
  cases x with
  | sni =>
    have hb := inner_bound c m dt hw .sni hx hon rfl
    have h0 : m.serverName.length > 0 := by simpa [cOn] using hon
    exact clientExtStep_wrap2 c st l1 hb r
      (case_sni c hc st m.serverName h0 (by simp [sniInner, be16] at hb; omega) hw.dot)
  | tas =>
    have hb := inner_bound c m dt hw .tas hx hon rfl
    have h0 : m.tas.length > 0 := by simpa [cOn] using hon
    exact clientExtStep_wrap2 c st l2 hb r (case_tas c hc st m.tas h0 hw.tas hb)
  | status => exact step_status c hc st r
  | curves =>
    have hb := inner_bound c m dt hw .curves hx hon rfl
    have h0 : m.curves.length > 0 := by simpa [cOn] using hon
    exact clientExtStep_wrap2 c st l3 hb r (case_curves c hc st m.curves h0 hb)
  | sigs =>
    have hb := inner_bound c m dt hw .sigs hx hon rfl
    have h0 : m.sigAlgs.length > 0 := by simpa [cOn] using hon
    exact clientExtStep_wrap2 c st l4 hb r (case_sigs c hc st m.sigAlgs h0 hb)
  | alpn =>
    have hb := inner_bound c m dt hw .alpn hx hon rfl
    have h0 : m.alpn.length > 0 := by simpa [cOn] using hon
    exact clientExtStep_wrap2 c st l5 hb r (case_alpn c hc st m.alpn h0 hw.alpn hb)
  | cid =>
    have hb := inner_bound c m dt hw .cid hx hon rfl
    exact clientExtStep_wrap2 c st l6 hb r (case_cid c hc st m.clientId hb)

theorem len0 {α : Type} {l : List α} (h : ¬ l.length > 0) : l = [] := List.eq_nil_of_length_eq_zero (by omega)

theorem stp_sni (c : Codes) (m st : ClientHello) (h : st.serverName = []) :
    (if cOn m .sni = true then cUpd c m st .sni else st) = { st with serverName := m.serverName } := by
  by_cases hon : cOn m .sni = true
  · simp only [hon, ↓reduceIte, cUpd, sniUpd, h, List.length_nil, ne_eq, not_true_eq_false]
  · simp only [hon, Bool.false_eq_true, ↓reduceIte]
    have : m.serverName = [] := len0 (by simpa [cOn] using hon)
    rw [this, ← h]

theorem stp_tas (c : Codes) (m st : ClientHello) (h : st.tas = []) :
    (if cOn m .tas = true then cUpd c m st .tas else st) = { st with tas := m.tas } := by
  by_cases hon : cOn m .tas = true
  · simp only [hon, ↓reduceIte, cUpd, h, List.nil_append]
  · simp only [hon, Bool.false_eq_true, ↓reduceIte]
    have : m.tas = [] := len0 (by simpa [cOn] using hon)
    rw [this, ← h]

theorem stp_status (c : Codes) (m st : ClientHello) (h : st.ocsp = false) :
    (if cOn m .status = true then cUpd c m st .status else st) = { st with ocsp := m.ocsp } := by
  by_cases hon : cOn m .status = true
  · have : m.ocsp = true := by simpa [cOn] using hon
    simp only [hon, ↓reduceIte, cUpd, this]
  · have : m.ocsp = false := by simpa [cOn] using hon
    simp only [hon, Bool.false_eq_true, ↓reduceIte, this]
    rw [← h]

theorem stp_curves (c : Codes) (hm : c.curvesMode ≤ 1) (m st : ClientHello) (h : st.curves = []) :
    (if cOn m .curves = true then cUpd c m st .curves else st) = { st with curves := m.curves } := by
  by_cases hon : cOn m .curves = true
  · simp only [hon, ↓reduceIte, cUpd, h, listMode_default hm]
  · simp only [hon, Bool.false_eq_true, ↓reduceIte]
    have : m.curves = [] := len0 (by simpa [cOn] using hon)
    rw [this, ← h]

theorem stp_sigs (c : Codes) (hm : c.sigAlgsMode ≤ 1) (m st : ClientHello) (h : st.sigAlgs = []) :
    (if cOn m .sigs = true then cUpd c m st .sigs else st) = { st with sigAlgs := m.sigAlgs } := by
  by_cases hon : cOn m .sigs = true
  · simp only [hon, ↓reduceIte, cUpd, h, listMode_default hm]
  · simp only [hon, Bool.false_eq_true, ↓reduceIte]
    have : m.sigAlgs = [] := len0 (by simpa [cOn] using hon)
    rw [this, ← h]

theorem stp_alpn (c : Codes) (m st : ClientHello) (h : st.alpn = []) :
    (if cOn m .alpn = true then cUpd c m st .alpn else st) = { st with alpn := m.alpn } := by
  by_cases hon : cOn m .alpn = true
  · simp only [hon, ↓reduceIte, cUpd, h, List.nil_append]
  · simp only [hon, Bool.false_eq_true, ↓reduceIte]
    have : m.alpn = [] := len0 (by simpa [cOn] using hon)
    rw [this, ← h]

theorem stp_cid (c : Codes) (m st : ClientHello) (h : st.clientId = []) :
    (if cOn m .cid = true then cUpd c m st .cid else st) = { st with clientId := m.clientId } := by
  by_cases hon : cOn m .cid = true
  · simp only [hon, ↓reduceIte, cUpd]
  · simp only [hon, Bool.false_eq_true, ↓reduceIte]
    have : m.clientId = [] := len0 (by simpa [cOn] using hon)
    rw [this, ← h]

theorem client_fold (c : Codes) (hm1 : c.curvesMode ≤ 1) (hm2 : c.sigAlgsMode ≤ 1) (m : ClientHello) :
    (cAll.filter (cOn m)).foldl (cUpd c m)
      ⟨m.vers, m.random, m.sessionId, m.cookie, m.suites, m.compression, [], [], false, [], [], [], []⟩ = m := by
  rw [foldl_filter]
  simp only [cAll, List.foldl_cons, List.foldl_nil]
  rw [stp_sni c m _ rfl, stp_tas c m _ rfl, stp_status c m _ rfl, stp_curves c hm1 m _ rfl, stp_sigs c hm2 m _ rfl,
    stp_alpn c m _ rfl, stp_cid c m _ rfl]

theorem cItems_all (m : ClientHello) : ∀ x ∈ cAll.filter (cOn m), x ∈ cAll ∧ cOn m x = true := by
  intro x hx
  exact List.mem_filter.mp hx

/-- body-level round trip of ClientHello (shared by both stacks; `dt` = with the cookie vector) -/
theorem rt_clientHelloBody (c : Codes) (hc : HelloCodes c) (hm1 : c.curvesMode ≤ 1) (hm2 : c.sigAlgsMode ≤ 1)
    (dt : Bool) (m : ClientHello) (hw : CHwf dt m) :
    ∃ body, encClientHelloBody c dt m = some body ∧ decClientHelloBody c dt body = some m ∧ body.length < 16777216 := by
  have hsid : m.sessionId.length < 256 := by have := hw.sid; omega
  have hcs : (w16s m.suites).length < 65536 := by rw [w16s_length]; have := hw.suites; omega
  have hcm := hw.comp.2
  have hrl : m.random.length = c.randomLen := by rw [hc.rnd]; exact hw.rnd
  obtain ⟨E, hE⟩ : ∃ E, E = concatMap (cEnc c m) (cAll.filter (cOn m)) := ⟨_, rfl⟩
  have hel : E.length = Spec.Codec.clientExtLen m := by rw [hE]; exact cE_length c m
  have htot := hw.total
  let m0 : ClientHello := ⟨m.vers, m.random, m.sessionId, m.cookie, m.suites, m.compression, [], [], false, [], [], [], []⟩
  have hloop : ∀ f, E.length ≤ f → foldMany (clientExtStep c) f m0 E = some m := by
    intro f hf
    have hge := concatMap_length_ge (cEnc c m) (fun _ => True) (fun x _ => cEnc_ne c m x) (cAll.filter (cOn m))
      (fun _ _ => trivial)
    have := foldMany_concat' (clientExtStep c) (cEnc c m) (cUpd c m) (fun x => x ∈ cAll ∧ cOn m x = true)
      (fun x _ => cEnc_ne c m x) (fun st x r hx => client_step c hc m dt hw st x r hx)
      (cAll.filter (cOn m)) f m0 (cItems_all m) (by rw [hE] at hf; omega)
    rw [hE, this, client_fold c hm1 hm2 m]
  have hex : ∃ ex, extBlock E = some ex ∧ ex.length < 65540 ∧
      (if isEmpty ex then some m0 else
        match readVec16 ex with
        | none => none
        | some (exts, s7) => if !isEmpty s7 then none else foldMany (clientExtStep c) exts.length m0 exts) = some m := by
    by_cases he : E.length > 0
    · have hlt : E.length < 65536 := by omega
      refine ⟨be16 E.length ++ E, by simp only [extBlock, he, ↓reduceIte, vec16_of_lt hlt],
        by rw [List.length_append, be16_length]; omega, ?_⟩
      have hne : isEmpty (be16 E.length ++ E) = false := by simp [be16, isEmpty]
      have hv := readVec16_append hlt ([] : Bytes)
      simp only [List.append_nil] at hv
      rw [hne, hv]
      simp only [Bool.false_eq_true, ↓reduceIte, isEmpty_nil, Bool.not_true]
      exact hloop _ (Nat.le_refl _)
    · have hnil : E = [] := List.eq_nil_of_length_eq_zero (by omega)
      refine ⟨[], by simp [extBlock, hnil], by simp, ?_⟩
      have := hloop 0 (by omega)
      rw [hnil, foldMany_nil] at this
      simp only [isEmpty_nil, ↓reduceIte]
      exact this
  obtain ⟨ex, hex1, hex2, hex3⟩ := hex
  have hck : ∃ ck, optBytes dt (vec8 m.cookie) = some ck ∧ ck.length ≤ 256 ∧
      (∀ rest, (if dt then readVec8 (ck ++ rest) else some ([], ck ++ rest)) = some (m.cookie, rest)) := by
    have hc' := hw.cookie
    cases dt with
    | true =>
      simp only [↓reduceIte] at hc'
      refine ⟨u8 m.cookie.length :: m.cookie, by simp [optBytes, vec8_of_lt hc'], by simp; omega, ?_⟩
      intro rest
      have := readVec8_append hc' rest
      simpa using this
    | false =>
      simp only [Bool.false_eq_true, ↓reduceIte] at hc'
      exact ⟨[], by simp [optBytes], by simp, by intro rest; simp [hc']⟩
  obtain ⟨ck, hck1, hck2, hck3⟩ := hck
  refine ⟨m.vers.bytes ++ m.random ++ (u8 m.sessionId.length :: m.sessionId) ++ ck ++
    (be16 (w16s m.suites).length ++ w16s m.suites) ++ (u8 m.compression.length :: m.compression) ++ ex, ?_, ?_, ?_⟩
  · have := encClientExtensions_eq c hc m dt hw
    simp only [encClientHelloBody, this, exactly, hrl, ↓reduceIte, vec8_of_lt hsid, hck1, vec16_of_lt hcs,
      vec8_of_lt hcm, ← hE, hex1]
  · have h1 := readBytes_append m.random ((u8 m.sessionId.length :: m.sessionId) ++ ck ++
      (be16 (w16s m.suites).length ++ w16s m.suites) ++ (u8 m.compression.length :: m.compression) ++ ex)
    rw [hrl] at h1
    have h2 := readVec8_append hsid (ck ++ (be16 (w16s m.suites).length ++ w16s m.suites) ++
      (u8 m.compression.length :: m.compression) ++ ex)
    have h3 := hck3 ((be16 (w16s m.suites).length ++ w16s m.suites) ++ (u8 m.compression.length :: m.compression) ++ ex)
    have h4 := readVec16_append hcs ((u8 m.compression.length :: m.compression) ++ ex)
    have h5 := many_w16s m.suites (w16s m.suites).length (by rw [w16s_length]; omega)
    have h6 := readVec8_append hcm ex
    simp only [List.append_assoc, List.cons_append, W16.bytes, List.nil_append] at h1 h2 h3 h4 h6
    simp only [decClientHelloBody, W16.bytes, List.append_assoc, List.cons_append, List.nil_append, readW16, h1, h2, h3,
      h4, h5, h6]
    exact hex3
  · simp only [List.length_append, W16.bytes, List.length_cons, List.length_nil, be16_length]
    have := hw.rnd
    omega

theorem rt_clientHello_tlcp (c : Codes) (hc : HelloCodes c) (hm1 : c.curvesMode ≤ 1) (hm2 : c.sigAlgsMode ≤ 1)
    (m : ClientHello) (hw : Spec.Codec.wfClientHello .tlcp m = true) :
    ∃ b, encClientHello c m = some b ∧ unmarshalClientHello c b = .ok m := by
  obtain ⟨body, h1, h2, h3⟩ := rt_clientHelloBody c hc hm1 hm2 false m (chwf_of hw)
  refine ⟨u8 c.tClientHello :: (be24 body.length ++ body), by simp only [encClientHello, h1, vec24_of_lt h3], ?_⟩
  rw [unmarshalClientHello, guardT_pass _ _ h3, decClientHello, skip4]
  simp only [h2]; rfl

theorem total_clientHello_tlcp (c : Codes) (b : Bytes) : unmarshalClientHello c b ≠ .panic := by
  apply guardT_ne_panic
  unfold decClientHello
  split
  · simp
  · exact ofOption_ne_panic _

theorem rt_clientHello_dtlcp (c : Codes) (hc : HelloCodes c) (hm1 : c.curvesMode ≤ 1) (hm2 : c.sigAlgsMode ≤ 1)
    (r : Lemmas.CodecDtlcp.Ready c c.tClientHello) (h : DHdr) (m : ClientHello)
    (hw : Spec.Codec.wfClientHello .dtlcp m = true)
    (hh : ∀ body, encClientHelloBody c true m = some body → Spec.Codec.wfDHdr h body.length = true) :
    ∃ b body, encClientHelloBody c true m = some body ∧ Model.CodecDtlcp.encClientHello c h m = some b ∧
      Model.CodecDtlcp.decClientHello c b = .ok (⟨h.seq, 0, body.length⟩, m) := by
  obtain ⟨body, h1, h2, h3⟩ := rt_clientHelloBody c hc hm1 hm2 true m (chwf_of hw)
  refine ⟨Lemmas.CodecDtlcp.chdr (u8 c.tClientHello) body.length h.seq ++ body, body, h1, ?_, ?_⟩
  · simp only [Model.CodecDtlcp.encClientHello, h1, Lemmas.CodecDtlcp.header_complete _ _ _ (hh body h1)]
  · unfold Model.CodecDtlcp.decClientHello
    rw [Lemmas.CodecDtlcp.guard_pass c r.hl _ _ h3, Lemmas.CodecDtlcp.unmarshalHeader_complete _ _ h3]
    simp [h2]

theorem total_clientHello_dtlcp (c : Codes) (r : Lemmas.CodecDtlcp.Ready c c.tClientHello) (b : Bytes) :
    Model.CodecDtlcp.decClientHello c b ≠ .panic := by
  unfold Model.CodecDtlcp.decClientHello
  apply Lemmas.CodecDtlcp.guard_ne_panic c r.hl
  split
  · simp
  · split
    · simp
    · split <;> simp

end Gotlcp.Lemmas.CodecHello

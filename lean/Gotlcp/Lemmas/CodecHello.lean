/-
Lemmas for C14: the hello messages (cryptobyte based in both stacks, one shared body model).
Round trip through the extension loops, totality.
-/
import Gotlcp.Lemmas.CodecDtlcp

set_option linter.unusedSimpArgs false
set_option linter.unusedVariables false

namespace Gotlcp.Lemmas.CodecHello
open Gotlcp Gotlcp.Wire Gotlcp.Wire.Msg
open Gotlcp.Model.Codec
open Gotlcp.Lemmas.Codec
open Gotlcp.Spec.Codec (Stack Kind)

/-- the constants the hello codecs need to have the standard's values -/
structure HelloCodes (c : Codes) : Prop where
  sni : c.extServerName = 0
  tca : c.extTrustedCAKeys = 3
  status : c.extStatusRequest = 5
  curves : c.extSupportedCurves = 10
  sigs : c.extSignatureAlgorithms = 13
  alpn : c.extALPN = 16
  cid : c.extClientID = 66
  pre : c.taPreAgreed = 0
  x509 : c.taX509Name = 2
  keyH : c.taKeyHash = 4
  certH : c.taCertHash = 5
  rnd : c.randomLen = 32
  hash : c.hashLen = 32

/-! ### loops -/

theorem foldMany_step {σ : Type} (step : σ → Bytes → Option (σ × Bytes)) (f : Nat) (st st' : σ) (x r : Bytes)
    (hx : x ≠ []) (h : step st (x ++ r) = some (st', r)) :
    foldMany step (f + 1) st (x ++ r) = foldMany step f st' r := by
  cases x with
  | nil => exact absurd rfl hx
  | cons a t =>
    simp only [List.cons_append] at h ⊢
    simp only [foldMany, h]

theorem foldMany_nil {σ : Type} (step : σ → Bytes → Option (σ × Bytes)) (f : Nat) (st : σ) :
    foldMany step f st [] = some st := by
  cases f <;> rfl

/-- a loop over a concatenation of items, one iteration per item -/
theorem foldMany_concat {σ α : Type} (step : σ → Bytes → Option (σ × Bytes)) (enc : α → Bytes) (upd : σ → α → σ)
    (P : α → Prop) (hne : ∀ x, P x → enc x ≠ [])
    (hstep : ∀ st x r, P x → step st (enc x ++ r) = some (upd st x, r)) :
    ∀ (xs : List α) (f : Nat) (st : σ) (r : Bytes), (∀ x ∈ xs, P x) → xs.length ≤ f →
      foldMany step (f + r.length) st (concatMap enc xs ++ r) = foldMany step (f - xs.length + r.length) (xs.foldl upd st) r := by
  intro xs
  induction xs with
  | nil => intro f st r _ _; simp [concatMap]
  | cons x xs ih =>
    intro f st r hP hf
    have hx := hP x List.mem_cons_self
    cases f with
    | zero => simp at hf
    | succ f' =>
      simp only [concatMap, List.append_assoc, List.foldl_cons, List.length_cons]
      have e : f' + 1 + r.length = (f' + r.length) + 1 := by omega
      rw [e, foldMany_step step _ st (upd st x) (enc x) _ (hne x hx) (hstep st x _ hx)]
      rw [ih f' (upd st x) r (fun y hy => hP y (List.mem_cons_of_mem _ hy)) (by simp at hf; omega)]
      congr 1; omega

theorem foldMany_concat' {σ α : Type} (step : σ → Bytes → Option (σ × Bytes)) (enc : α → Bytes) (upd : σ → α → σ)
    (P : α → Prop) (hne : ∀ x, P x → enc x ≠ [])
    (hstep : ∀ st x r, P x → step st (enc x ++ r) = some (upd st x, r))
    (xs : List α) (f : Nat) (st : σ) (hP : ∀ x ∈ xs, P x) (hf : xs.length ≤ f) :
    foldMany step f st (concatMap enc xs) = some (xs.foldl upd st) := by
  have := foldMany_concat step enc upd P hne hstep xs f st [] hP hf
  simp only [List.length_nil, Nat.add_zero, List.append_nil] at this
  rw [this, foldMany_nil]

theorem isEmpty_nil : isEmpty ([] : Bytes) = true := rfl

theorem be16_ne_nil (n : Nat) (r : Bytes) : be16 n ++ r ≠ [] := by simp [be16]

theorem readU16_code {n : Nat} (h : n < 65536) (r : Bytes) : readU16 (be16 n ++ r) = some (n, r) := readU16_be16 h r

/-! ### ServerHello -/

def shE1 (c : Codes) (m : ServerHello) : Bytes :=
  if m.ocsp && decide (m.ocspResponse.length > 0) then
    be16 c.extStatusRequest ++ (be16 (1 :: (be24 m.ocspResponse.length ++ m.ocspResponse)).length ++
      (1 :: (be24 m.ocspResponse.length ++ m.ocspResponse)))
  else []

def shE2 (c : Codes) (m : ServerHello) : Bytes :=
  if m.alpn.length > 0 then
    be16 c.extALPN ++ (be16 (be16 (u8 m.alpn.length :: m.alpn).length ++ (u8 m.alpn.length :: m.alpn)).length ++
      (be16 (u8 m.alpn.length :: m.alpn).length ++ (u8 m.alpn.length :: m.alpn)))
  else []

def shE3 (c : Codes) (m : ServerHello) : Bytes :=
  if m.sniAck then be16 c.extServerName ++ [0, 0] else []

structure SHwf (m : ServerHello) : Prop where
  rnd : m.random.length = 32
  sid : m.sessionId.length ≤ 32
  ocsp : m.ocsp = decide (0 < m.ocspResponse.length)
  resp : 1 + 3 + m.ocspResponse.length < 65536
  alpn : m.alpn.length < 256
  total : Spec.Codec.serverExtLen m < 65536

theorem shwf_of {m : ServerHello} (h : Spec.Codec.wfServerHello m = true) : SHwf m := by
  simp only [Spec.Codec.wfServerHello, Bool.and_eq_true, beq_iff_eq, decide_eq_true_eq] at h
  obtain ⟨⟨⟨⟨⟨h1, h2⟩, h3⟩, h4⟩, h5⟩, h6⟩ := h
  exact ⟨h1, h2, h3, h4, h5, h6⟩

theorem encServerExtensions_eq (c : Codes) (m : ServerHello) (hw : SHwf m) :
    encServerExtensions c m = some (shE1 c m ++ shE2 c m ++ shE3 c m) := by
  have hr := hw.resp
  have ha := hw.alpn
  have h1 : optBytes (m.ocsp && decide (m.ocspResponse.length > 0))
      (ext c.extStatusRequest (prefixed 1 (vec24 m.ocspResponse))) =
      some (shE1 c m) := by
    unfold shE1 optBytes
    split
    · have hv : vec24 m.ocspResponse = some (be24 m.ocspResponse.length ++ m.ocspResponse) := vec24_of_lt (by omega)
      have hl : (1 :: (be24 m.ocspResponse.length ++ m.ocspResponse)).length < 65536 := by
        simp [be24]; omega
      simp only [hv, prefixed, ext, vec16_of_lt hl]
    · rfl
  have h2 : optBytes (decide (m.alpn.length > 0)) (ext c.extALPN (vec16x2 (vec8 m.alpn))) = some (shE2 c m) := by
    unfold shE2 optBytes
    split
    · rename_i hp
      have hp' : m.alpn.length > 0 := by simpa using hp
      have hl1 : (u8 m.alpn.length :: m.alpn).length < 65536 := by simp; omega
      have hl2 : (be16 (u8 m.alpn.length :: m.alpn).length ++ (u8 m.alpn.length :: m.alpn)).length < 65536 := by
        simp [be16]; omega
      simp only [vec8_of_lt ha, vec16x2, vec16_of_lt hl1, ext, vec16_of_lt hl2, hp', ↓reduceIte]
    · rename_i hp
      have hp' : ¬ m.alpn.length > 0 := by simpa using hp
      simp only [hp', ↓reduceIte]
  have h3 : optBytes m.sniAck (some (be16 c.extServerName ++ [0, 0])) = some (shE3 c m) := by
    unfold shE3 optBytes; split <;> rfl
  unfold encServerExtensions
  rw [h1, h2, h3]

theorem serverExtStep_e1 (c : Codes) (hc : HelloCodes c) (m : ServerHello) (hw : SHwf m)
    (hp : (m.ocsp && decide (m.ocspResponse.length > 0)) = true) (st : ServerHello) (r : Bytes) :
    serverExtStep c st (shE1 c m ++ r) = some ({ st with ocsp := true, ocspResponse := m.ocspResponse }, r) := by
  have hr := hw.resp
  have hl : (1 :: (be24 m.ocspResponse.length ++ m.ocspResponse)).length < 65536 := by simp [be24]; omega
  have hv := readVec24_append (c := m.ocspResponse) (by omega) ([] : Bytes)
  simp only [List.append_nil] at hv
  simp only [shE1, hp, ↓reduceIte, List.append_assoc, serverExtStep, readU16_be16 (show c.extStatusRequest < 65536 by rw [hc.status]; decide)]
  have := readVec16_append hl r
  simp only [List.append_assoc] at this
  simp only [this, serverExtCase, ↓reduceIte, readU8, ne_eq, not_true_eq_false, hv, isEmpty_nil, Bool.or_true]

theorem serverExtStep_e2 (c : Codes) (hc : HelloCodes c) (m : ServerHello) (hw : SHwf m)
    (hp : m.alpn.length > 0) (st : ServerHello) (r : Bytes) :
    serverExtStep c st (shE2 c m ++ r) = some ({ st with alpn := m.alpn }, r) := by
  have ha := hw.alpn
  have hl1 : (u8 m.alpn.length :: m.alpn).length < 65536 := by simp; omega
  have hl2 : (be16 (u8 m.alpn.length :: m.alpn).length ++ (u8 m.alpn.length :: m.alpn)).length < 65536 := by
    simp [be16]; omega
  have hne : c.extALPN ≠ c.extStatusRequest := by rw [hc.alpn, hc.status]; decide
  have h1 := readVec16_append hl2 r
  have h2 := readVec16_append hl1 ([] : Bytes)
  have h3 := readVec8_append ha ([] : Bytes)
  simp only [List.append_nil, List.append_assoc] at h1 h2 h3
  have hne2 : isEmpty m.alpn = false := by
    cases hm : m.alpn with
    | nil => rw [hm] at hp; simp at hp
    | cons _ _ => rfl
  have hne3 : isEmpty (u8 m.alpn.length :: m.alpn) = false := rfl
  simp only [shE2, hp, ↓reduceIte, List.append_assoc, serverExtStep,
    readU16_be16 (show c.extALPN < 65536 by rw [hc.alpn]; decide), h1, serverExtCase, hne, h2, hne3,
    Bool.false_eq_true, h3, hne2, isEmpty_nil, Bool.not_true, Bool.or_self, Bool.or_true, ↓reduceIte]

theorem serverExtStep_e3 (c : Codes) (hc : HelloCodes c) (m : ServerHello) (hp : m.sniAck = true) (st : ServerHello) (r : Bytes) :
    serverExtStep c st (shE3 c m ++ r) = some ({ st with sniAck := true }, r) := by
  have hne1 : c.extServerName ≠ c.extStatusRequest := by rw [hc.sni, hc.status]; decide
  have hne2 : c.extServerName ≠ c.extALPN := by rw [hc.sni, hc.alpn]; decide
  have h1 : readVec16 (0 :: 0 :: r) = some ([], r) := by simp [readVec16, readU16, readBytes, nat16]
  simp only [shE3, hp, ↓reduceIte, List.append_assoc, serverExtStep,
    readU16_be16 (show c.extServerName < 65536 by rw [hc.sni]; decide), List.cons_append, List.nil_append, h1,
    serverExtCase, hne1, hne2, List.length_nil, ne_eq, not_true_eq_false, isEmpty_nil, Bool.or_true, ↓reduceIte]

theorem shE1_ne (c : Codes) (m : ServerHello) (hp : (m.ocsp && decide (m.ocspResponse.length > 0)) = true) : shE1 c m ≠ [] := by
  simp [shE1, hp, be16]
theorem shE2_ne (c : Codes) (m : ServerHello) (hp : m.alpn.length > 0) : shE2 c m ≠ [] := by
  simp [shE2, hp, be16]
theorem shE3_ne (c : Codes) (m : ServerHello) (hp : m.sniAck = true) : shE3 c m ≠ [] := by
  simp [shE3, hp, be16]

inductive SExt where
  | ocsp | alpn | ack

def sEnc (c : Codes) (m : ServerHello) : SExt → Bytes
  | .ocsp => shE1 c m
  | .alpn => shE2 c m
  | .ack => shE3 c m

def sUpd (m : ServerHello) (st : ServerHello) : SExt → ServerHello
  | .ocsp => { st with ocsp := true, ocspResponse := m.ocspResponse }
  | .alpn => { st with alpn := m.alpn }
  | .ack => { st with sniAck := true }

def sPresent (m : ServerHello) : SExt → Prop
  | .ocsp => (m.ocsp && decide (m.ocspResponse.length > 0)) = true
  | .alpn => m.alpn.length > 0
  | .ack => m.sniAck = true

def sItems (m : ServerHello) : List SExt :=
  (if m.ocsp && decide (m.ocspResponse.length > 0) then [SExt.ocsp] else []) ++
  (if m.alpn.length > 0 then [SExt.alpn] else []) ++ (if m.sniAck then [SExt.ack] else [])

theorem sItems_concat (c : Codes) (m : ServerHello) :
    concatMap (sEnc c m) (sItems m) = shE1 c m ++ shE2 c m ++ shE3 c m := by
  unfold sItems shE1 shE2 shE3
  split <;> split <;> split <;> simp [concatMap, sEnc, shE1, shE2, shE3, *]

theorem sItems_present (m : ServerHello) : ∀ x ∈ sItems m, sPresent m x := by
  intro x hx
  unfold sItems at hx
  simp only [List.mem_append] at hx
  rcases hx with (hx | hx) | hx
  · split at hx
    · rename_i h; simp at hx; subst hx; exact h
    · simp at hx
  · split at hx
    · rename_i h; simp at hx; subst hx; exact h
    · simp at hx
  · split at hx
    · rename_i h; simp at hx; subst hx; exact h
    · simp at hx

theorem sItems_length (m : ServerHello) : (sItems m).length ≤ 3 := by
  unfold sItems
  split <;> split <;> split <;> simp

theorem sItems_fold (m : ServerHello) (hw : SHwf m) :
    (sItems m).foldl (sUpd m) ⟨m.vers, m.random, m.sessionId, m.suite, m.compression, false, [], [], false⟩ = m := by
  have ho := hw.ocsp
  cases m with
  | mk vers random sid suite cm ocsp resp alpn ack =>
    clear hw
    cases resp <;> cases alpn <;> cases ack <;> cases ocsp <;>
      first
        | (exfalso; simp at ho; done)
        | simp [sItems, sUpd]

/-- the extension loop over the optional server extensions gives back the message -/
theorem server_loop (c : Codes) (hc : HelloCodes c) (m : ServerHello) (hw : SHwf m) (f : Nat) (hf : 3 ≤ f) :
    foldMany (serverExtStep c) f ⟨m.vers, m.random, m.sessionId, m.suite, m.compression, false, [], [], false⟩
      (shE1 c m ++ shE2 c m ++ shE3 c m) = some m := by
  rw [← sItems_concat]
  have := foldMany_concat' (serverExtStep c) (sEnc c m) (sUpd m) (sPresent m)
    (fun x hx => by
      cases x
      · exact shE1_ne c m hx
      · exact shE2_ne c m hx
      · exact shE3_ne c m hx)
    (fun st x r hx => by
      cases x
      · exact serverExtStep_e1 c hc m hw hx st r
      · exact serverExtStep_e2 c hc m hw hx st r
      · exact serverExtStep_e3 c hc m hx st r)
    (sItems m) f ⟨m.vers, m.random, m.sessionId, m.suite, m.compression, false, [], [], false⟩
    (sItems_present m) (by have := sItems_length m; omega)
  rw [this, sItems_fold m hw]

theorem shE_length (c : Codes) (m : ServerHello) (hw : SHwf m) :
    (shE1 c m ++ shE2 c m ++ shE3 c m).length = Spec.Codec.serverExtLen m := by
  have ho := hw.ocsp
  unfold shE1 shE2 shE3 Spec.Codec.serverExtLen
  cases hoc : m.ocsp <;> cases hak : m.sniAck <;> (rw [hoc] at ho) <;>
    (by_cases ha : m.alpn.length > 0) <;> simp_all [be16, be24] <;> omega

/-- body-level round trip of ServerHello (shared by both stacks) -/
theorem rt_serverHelloBody (c : Codes) (hc : HelloCodes c) (m : ServerHello) (hw : SHwf m) :
    ∃ body, encServerHelloBody c m = some body ∧ decServerHelloBody c body = some m ∧ body.length < 16777216 := by
  have hsid : m.sessionId.length < 256 := by have := hw.sid; omega
  have hel := shE_length c m hw
  have htot := hw.total
  have hex : ∃ ex, extBlock (shE1 c m ++ shE2 c m ++ shE3 c m) = some ex ∧ ex.length < 65540 ∧
      (∀ m0 : ServerHello, m0 = ⟨m.vers, m.random, m.sessionId, m.suite, m.compression, false, [], [], false⟩ →
        (if isEmpty ex then some m0 else
          match readVec16 ex with
          | none => none
          | some (exts, s6) => if !isEmpty s6 then none else foldMany (serverExtStep c) exts.length m0 exts) = some m) := by
    by_cases he : (shE1 c m ++ shE2 c m ++ shE3 c m).length > 0
    · have hlt : (shE1 c m ++ shE2 c m ++ shE3 c m).length < 65536 := by omega
      refine ⟨be16 (shE1 c m ++ shE2 c m ++ shE3 c m).length ++ (shE1 c m ++ shE2 c m ++ shE3 c m),
        by simp only [extBlock, he, ↓reduceIte, vec16_of_lt hlt], by rw [List.length_append, be16_length]; omega, ?_⟩
      intro m0 hm0
      have hne : isEmpty (be16 (shE1 c m ++ shE2 c m ++ shE3 c m).length ++ (shE1 c m ++ shE2 c m ++ shE3 c m)) = false := by
        simp [be16, isEmpty]
      have hv := readVec16_append hlt ([] : Bytes)
      simp only [List.append_nil] at hv
      rw [hne, hv, hm0]
      simp only [Bool.false_eq_true, ↓reduceIte, isEmpty, Bool.not_true]
      apply server_loop c hc m hw
      -- every extension is at least 4 bytes long, so a non-empty block has length ≥ 3
      have : Spec.Codec.serverExtLen m = 0 ∨ 3 ≤ Spec.Codec.serverExtLen m := by
        unfold Spec.Codec.serverExtLen; split <;> split <;> split <;> omega
      omega
    · have hnil : shE1 c m ++ shE2 c m ++ shE3 c m = [] := List.eq_nil_of_length_eq_zero (by omega)
      refine ⟨[], by simp [extBlock, hnil], by simp, ?_⟩
      intro m0 hm0
      simp only [isEmpty, ↓reduceIte, hm0]
      -- no extension present: the fields are the defaults
      have hz : Spec.Codec.serverExtLen m = 0 := by rw [← hel, hnil]; rfl
      have ho := hw.ocsp
      have h3 : m.ocsp = false ∧ m.alpn = [] ∧ m.sniAck = false := by
        unfold Spec.Codec.serverExtLen at hz
        refine ⟨?_, ?_, ?_⟩
        · cases h : m.ocsp
          · rfl
          · rw [h] at hz; simp at hz
        · apply List.eq_nil_of_length_eq_zero
          by_cases h : m.alpn.length > 0
          · simp [h] at hz
          · omega
        · cases h : m.sniAck
          · rfl
          · rw [h] at hz; simp at hz
      obtain ⟨h31, h32, h33⟩ := h3
      have h34 : m.ocspResponse = [] := by
        rw [h31] at ho
        apply List.eq_nil_of_length_eq_zero
        have : ¬ (0 < m.ocspResponse.length) := by simpa using ho.symm
        omega
      cases m
      simp_all
  obtain ⟨ex, hex1, hex2, hex3⟩ := hex
  have hrl : m.random.length = c.randomLen := by rw [hc.rnd]; exact hw.rnd
  refine ⟨m.vers.bytes ++ m.random ++ (u8 m.sessionId.length :: m.sessionId) ++ m.suite.bytes ++ [m.compression] ++ ex, ?_, ?_, ?_⟩
  · simp only [encServerHelloBody, encServerExtensions_eq c m hw, exactly, hrl, ↓reduceIte, vec8_of_lt hsid, hex1]
  · have h1 := readBytes_append m.random ((u8 m.sessionId.length :: m.sessionId) ++ m.suite.bytes ++ [m.compression] ++ ex)
    rw [hrl] at h1
    have h2 := readVec8_append hsid (m.suite.bytes ++ [m.compression] ++ ex)
    simp only [List.append_assoc, List.cons_append, W16.bytes, List.nil_append] at h1 h2
    simp only [decServerHelloBody, W16.bytes, List.append_assoc, List.cons_append, List.nil_append, readW16, h1, h2, readU8]
    exact hex3 _ rfl
  · simp only [List.length_append, W16.bytes, List.length_cons, List.length_nil]
    have := hw.rnd
    omega

/-! ### lifting a body round trip to the two header forms -/

theorem skip4 (t : UInt8) (n : Nat) (body : Bytes) : skip 4 (t :: (be24 n ++ body)) = some body := by
  simp [skip, be24]

theorem ofOption_ne_panic {α : Type} (o : Option α) : Outcome.ofOption o ≠ .panic := by
  cases o <;> simp [Outcome.ofOption]

theorem rt_serverHello_tlcp (c : Codes) (hc : HelloCodes c) (m : ServerHello)
    (hw : Spec.Codec.wfServerHello m = true) :
    ∃ b, encServerHello c m = some b ∧ unmarshalServerHello c b = .ok m := by
  obtain ⟨body, h1, h2, h3⟩ := rt_serverHelloBody c hc m (shwf_of hw)
  refine ⟨u8 c.tServerHello :: (be24 body.length ++ body), by simp only [encServerHello, h1, vec24_of_lt h3], ?_⟩
  rw [unmarshalServerHello, guardT_pass _ _ h3, decServerHello, skip4, h2]; rfl

theorem total_serverHello_tlcp (c : Codes) (b : Bytes) : unmarshalServerHello c b ≠ .panic := by
  apply guardT_ne_panic
  unfold decServerHello
  split
  · simp
  · exact ofOption_ne_panic _

theorem rt_serverHello_dtlcp (c : Codes) (hc : HelloCodes c) (r : Lemmas.CodecDtlcp.Ready c c.tServerHello)
    (h : DHdr) (m : ServerHello) (hw : Spec.Codec.wfServerHello m = true)
    (hh : ∀ body, encServerHelloBody c m = some body → Spec.Codec.wfDHdr h body.length = true) :
    ∃ b body, encServerHelloBody c m = some body ∧ Model.CodecDtlcp.encServerHello c h m = some b ∧
      Model.CodecDtlcp.decServerHello c b = .ok (⟨h.seq, 0, body.length⟩, m) := by
  obtain ⟨body, h1, h2, h3⟩ := rt_serverHelloBody c hc m (shwf_of hw)
  refine ⟨Lemmas.CodecDtlcp.chdr (u8 c.tServerHello) body.length h.seq ++ body, body, h1, ?_, ?_⟩
  · simp only [Model.CodecDtlcp.encServerHello, h1, Lemmas.CodecDtlcp.header_complete _ _ _ (hh body h1)]
  · unfold Model.CodecDtlcp.decServerHello
    rw [Lemmas.CodecDtlcp.guard_pass c r.hl _ _ h3, Lemmas.CodecDtlcp.unmarshalHeader_complete _ _ h3]
    simp [h2]

theorem total_serverHello_dtlcp (c : Codes) (r : Lemmas.CodecDtlcp.Ready c c.tServerHello) (b : Bytes) :
    Model.CodecDtlcp.decServerHello c b ≠ .panic := by
  unfold Model.CodecDtlcp.decServerHello
  apply Lemmas.CodecDtlcp.guard_ne_panic c r.hl
  split
  · simp
  · split
    · simp
    · split <;> simp

end Gotlcp.Lemmas.CodecHello

/-
Helper lemmas for the heap half of C11 (`Gotlcp.Model.LRUHeap`): which objects an execution
can have evicted, and why an object that was not evicted keeps every field when the storage
of the fields an eviction overwrites is never shared.
-/
import Gotlcp.Model.LRUHeap
import Gotlcp.Lemmas.LRU

set_option linter.unusedSimpArgs false

namespace Gotlcp.Lemmas.LRUHeap
open Gotlcp.Model.LRU
open Gotlcp.Model.LRUHeap
open Gotlcp.Lemmas.LRU

/-- the session objects a sequence of operations hands to the cache -/
def putObjs : List Op → List ObjId
  | [] => []
  | .put _ (some o) :: ops => o :: putObjs ops
  | _ :: ops => putObjs ops

/-- **The storage of the fields an eviction overwrites is never shared**: two references to the
same backing array of a field in `deep` belong to the same object. (Fields outside `deep` —
the session identifier, the peer certificates — may be shared freely: that is what
`SessionState.clone()` and a connection's `peerCertificates` do.) -/
def DeepUnshared (deep : List Field) (alloc : List Ref) : Prop :=
  ∀ r₁ ∈ alloc, ∀ r₂ ∈ alloc, r₁.field = r₂.field → r₁.buf = r₂.buf → r₁.field ∈ deep → r₁.obj = r₂.obj

/-- executable form of `DeepUnshared` (used by the oracle on observed allocations) -/
def deepUnshared (deep : List Field) (alloc : List Ref) : Bool :=
  alloc.all fun r₁ => alloc.all fun r₂ =>
    !(r₁.field == r₂.field && r₁.buf == r₂.buf && deep.contains r₁.field) || r₁.obj == r₂.obj

theorem deepUnshared_iff (deep : List Field) (alloc : List Ref) :
    deepUnshared deep alloc = true ↔ DeepUnshared deep alloc := by
  unfold deepUnshared DeepUnshared
  simp only [List.all_eq_true, Bool.or_eq_true, Bool.not_eq_true', Bool.and_eq_false_iff,
    beq_iff_eq, List.contains_iff_mem, beq_eq_false_iff_ne, ne_eq]
  constructor
  · intro h r₁ h₁ r₂ h₂ hf hb hd
    rcases h r₁ h₁ r₂ h₂ with ((hne | hne) | hne) | he
    · exact absurd hf hne
    · exact absurd hb hne
    · exact absurd hd (by simpa using hne)
    · exact he
  · intro h r₁ h₁ r₂ h₂
    by_cases hf : r₁.field = r₂.field
    · by_cases hb : r₁.buf = r₂.buf
      · by_cases hd : r₁.field ∈ deep
        · exact Or.inr (h r₁ h₁ r₂ h₂ hf hb hd)
        · exact Or.inl (Or.inr (by simpa using hd))
      · exact Or.inl (Or.inl (Or.inr hb))
    · exact Or.inl (Or.inl (Or.inl hf))

/-- An object that has not been evicted keeps every field, provided every field the eviction
overwrites in place has unshared storage. -/
theorem status_ok_of_not_evicted (E : Evict) (deep : List Field)
    (hsub : ∀ f ∈ E.inPlace, f ∈ deep) (alloc : List Ref) (hd : DeepUnshared deep alloc)
    (evicted : List ObjId) (r : Ref) (hr : r ∈ alloc) (hne : r.obj ∉ evicted) :
    status E alloc evicted r = .ok := by
  unfold status
  have h1 : evicted.contains r.obj = false := by
    cases h : evicted.contains r.obj with
    | false => rfl
    | true => exact absurd (List.contains_iff_mem.mp h) hne
  simp only [h1, Bool.false_and, Bool.false_eq_true, if_false]
  cases hb : bufCleared E alloc evicted r.field r.buf with
  | false => simp
  | true =>
    exfalso
    unfold bufCleared at hb
    simp only [Bool.and_eq_true, List.any_eq_true, beq_iff_eq] at hb
    obtain ⟨hin, r', hr', ⟨hbuf, hf⟩, hev⟩ := hb
    have hfd : r'.field ∈ deep := by rw [hf]; exact hsub _ (List.contains_iff_mem.mp hin)
    have := hd r' hr' r hr hf hbuf hfd
    rw [← this] at hne
    exact hne (List.contains_iff_mem.mp hev)

/-! ### which objects can be evicted -/

theorem mem_live_cons {k : Key} {v : Option ObjId} {q : List Entry} {o : ObjId}
    (h : o ∈ List.filterMap (·.val) (⟨k, v⟩ :: q)) : v = some o ∨ o ∈ q.filterMap (·.val) := by
  cases v with
  | none => simp only [List.filterMap_cons] at h; exact Or.inr h
  | some x =>
    simp only [List.filterMap_cons, List.mem_cons] at h
    rcases h with rfl | h
    · exact Or.inl rfl
    · exact Or.inr h

theorem live_of_remove {q : List Entry} {k : Key} {o : ObjId}
    (h : o ∈ (remove q k).filterMap (·.val)) : o ∈ q.filterMap (·.val) := by
  unfold remove at h
  exact ((List.filter_sublist).filterMap _).subset h

theorem live_of_dropLast {q : List Entry} {o : ObjId}
    (h : o ∈ q.dropLast.filterMap (·.val)) : o ∈ q.filterMap (·.val) :=
  ((List.dropLast_sublist q).filterMap _).subset h

theorem live_of_getLast {q : List Entry} {back : Entry} {o : ObjId}
    (h : q.getLast? = some back) (hv : back.val = some o) : o ∈ q.filterMap (·.val) :=
  List.mem_filterMap.mpr ⟨back, List.mem_of_getLast? h, hv⟩

/-- one `Put`: whatever is reachable or evicted afterwards was reachable or evicted before, or
is the object just stored -/
theorem put_reach (b : Bool) (s : State) (k : Key) (v : Option ObjId) (o : ObjId)
    (h : o ∈ live (put b s k v) ∨ o ∈ (put b s k v).zeroed) :
    o ∈ live s ∨ o ∈ s.zeroed ∨ v = some o := by
  unfold put at h
  unfold live at *
  split at h
  · cases v with
    | none =>
      rcases h with h | h
      · exact Or.inl (live_of_remove h)
      · exact Or.inr (Or.inl h)
    | some x =>
      rcases h with h | h
      · rcases mem_live_cons h with h | h
        · exact Or.inr (Or.inr h)
        · exact Or.inl (live_of_remove h)
      · exact Or.inr (Or.inl h)
  · split at h
    · rcases h with h | h
      · exact Or.inl h
      · exact Or.inr (Or.inl h)
    · split at h
      · rcases h with h | h
        · rcases mem_live_cons h with h | h
          · exact Or.inr (Or.inr h)
          · exact Or.inl h
        · exact Or.inr (Or.inl h)
      · split at h
        · rcases h with h | h
          · rcases mem_live_cons h with h | h
            · exact Or.inr (Or.inr h)
            · simp at h
          · exact Or.inr (Or.inl h)
        · rename_i back hb
          rcases h with h | h
          · rcases mem_live_cons h with h | h
            · exact Or.inr (Or.inr h)
            · exact Or.inl (live_of_dropLast h)
          · cases hv : back.val with
            | none => simp only [hv] at h; exact Or.inr (Or.inl h)
            | some ob =>
              simp only [hv, List.mem_cons] at h
              rcases h with rfl | h
              · exact Or.inl (live_of_getLast hb hv)
              · exact Or.inr (Or.inl h)

theorem get_reach (s : State) (k : Key) (o : ObjId)
    (h : o ∈ live (Model.LRU.get s k).1 ∨ o ∈ (Model.LRU.get s k).1.zeroed) :
    o ∈ live s ∨ o ∈ s.zeroed := by
  unfold Model.LRU.get at h
  unfold live at *
  split at h
  · split at h <;> exact h
  · split at h
    · rename_i v hf
      rcases h with h | h
      · rcases mem_live_cons h with h | h
        · left
          unfold findVal at hf
          obtain ⟨e, he, hev⟩ := Option.map_eq_some_iff.mp hf
          exact List.mem_filterMap.mpr ⟨e, List.mem_of_find?_eq_some he, by rw [hev, h]⟩
        · exact Or.inl (live_of_remove h)
      · exact Or.inr h
    · exact h

/-- whatever a run has evicted (or still holds) was evicted or held at the start, or was stored
by one of its operations -/
theorem run_reach (b : Bool) (s : State) (ops : List Op) (o : ObjId)
    (h : o ∈ live (run b s ops).1 ∨ o ∈ (run b s ops).1.zeroed) :
    o ∈ live s ∨ o ∈ s.zeroed ∨ o ∈ putObjs ops := by
  induction ops generalizing s with
  | nil =>
    rcases h with h | h
    · exact Or.inl h
    · exact Or.inr (Or.inl h)
  | cons op ops ih =>
    simp only [run] at h
    rcases ih _ h with h' | h' | h'
    · cases op with
      | put k v =>
        rcases put_reach b s k v o (Or.inl h') with h'' | h'' | h''
        · exact Or.inl h''
        · exact Or.inr (Or.inl h'')
        · subst h''; exact Or.inr (Or.inr (by simp [putObjs]))
      | get k =>
        rcases get_reach s k o (Or.inl h') with h'' | h''
        · exact Or.inl h''
        · exact Or.inr (Or.inl h'')
    · cases op with
      | put k v =>
        rcases put_reach b s k v o (Or.inr h') with h'' | h'' | h''
        · exact Or.inl h''
        · exact Or.inr (Or.inl h'')
        · subst h''; exact Or.inr (Or.inr (by simp [putObjs]))
      | get k =>
        rcases get_reach s k o (Or.inr h') with h'' | h''
        · exact Or.inl h''
        · exact Or.inr (Or.inl h'')
    · refine Or.inr (Or.inr ?_)
      cases op with
      | put k v =>
        cases v with
        | none => exact h'
        | some x => simp only [putObjs, List.mem_cons]; exact Or.inr h'
      | get k => exact h'

end Gotlcp.Lemmas.LRUHeap

/-
Helper lemmas for C04, record layer: the primitive laws (`Laws`), list surgery around the record
header, padding, and the four round-trip lemmas (stack × cipher kind) that
`Props.C04_record_roundtrip` combines.  Core Lean only.
-/
import Gotlcp.Lemmas.KeySchedule

set_option linter.unusedSimpArgs false
set_option linter.unusedVariables false

namespace Gotlcp.Lemmas.KeyScheduleRecord
open Gotlcp.Crypto
open Gotlcp.Lemmas.KeySchedule
open Gotlcp.Model.KeySchedule

@[simp] theorem ofNat_mod (x : Nat) : UInt8.ofNat (x % 256) = UInt8.ofNat x := by
  apply UInt8.toNat_inj.mp; simp

theorem len16_eq (n : Nat) : len16 n = be 2 n := by
  simp [len16, be]

theorem be1 (n : Nat) : be 1 n = [UInt8.ofNat n] := by simp [be]


/-- The laws of the primitives the record-layer theorems assume (hypotheses, never axioms):
fixed MAC length; the block function pair is a length-preserving permutation of 16-byte blocks;
AEAD opening inverts sealing and the tag has a fixed length. -/
structure Laws (P : Prims) : Prop where
  hmac_len : ∀ k m, (P.hmac k m).length = P.hLen
  enc_len : ∀ k b, b.length = 16 → (P.enc k b).length = 16
  dec_enc : ∀ k b, b.length = 16 → P.dec k (P.enc k b) = b
  open_seal : ∀ k n ad p, P.aeadOpen k n ad (P.aeadSeal k n ad p) = some p
  seal_len : ∀ k n ad p, (P.aeadSeal k n ad p).length = p.length + P.tagLen

theorem len16_length (n : Nat) : (len16 n).length = 2 := rfl

/-- shape of the record after `setLen`, for a header of the right length -/
theorem setLen_shape (S : Src) (hdr x : Bytes) (n : Nat) (hh : hdr.length = S.recordHeaderLen) :
    setLen S (hdr ++ x) n = hdr.take (S.recordHeaderLen - 2) ++ len16 n ++ x := by
  unfold setLen
  rw [List.take_append_of_le_length (by omega), List.drop_append_of_le_length (by omega),
    List.drop_of_length_le (by omega)]
  simp

theorem drop_shape (hl : Nat) (hdr x : Bytes) (n : Nat) (hh : hdr.length = hl) (h2 : 2 ≤ hl) :
    (hdr.take (hl - 2) ++ len16 n ++ x).drop hl = x := by
  have : (hdr.take (hl - 2) ++ len16 n).length = hl := by
    simp [List.length_take, len16_length]; omega
  rw [List.drop_append_of_le_length (by omega), List.drop_of_length_le (by omega)]; simp

theorem cbc_encrypt_decrypt (E D : Bytes → Bytes)
    (hlen : ∀ b, b.length = 16 → (E b).length = 16) (hinv : ∀ b, b.length = 16 → D (E b) = b)
    (iv data : Bytes) (hiv : iv.length = 16) (hd : data.length % 16 = 0) :
    CBC.decrypt D iv (CBC.encrypt E iv data) = data ∧ (CBC.encrypt E iv data).length = data.length := by
  have hn : data.length = 16 * (data.length / 16) := by omega
  obtain ⟨h1, h2⟩ := cbc_roundtrip E D hlen hinv (data.length / 16) iv data hiv hn
  unfold CBC.decrypt CBC.encrypt
  have : (CBC.encN E (data.length / 16) iv data).length / 16 = data.length / 16 := by rw [h2]; omega
  rw [this, h1, h2]
  exact ⟨rfl, by omega⟩

/-- the padding `encrypt` appends is what `extractPadding` accepts and removes -/
theorem extractPadding_pad (body : Bytes) (pl : Nat) (h1 : 1 ≤ pl) (h2 : pl ≤ 16) :
    extractPadding (body ++ List.replicate pl (UInt8.ofNat (pl - 1))) = (pl, true) := by
  unfold extractPadding
  have hne : List.replicate pl (UInt8.ofNat (pl - 1)) ≠ [] := by
    intro h; have := congrArg List.length h; simp at this; omega
  have hlast : (body ++ List.replicate pl (UInt8.ofNat (pl - 1))).getLast? = some (UInt8.ofNat (pl - 1)) := by
    obtain ⟨m, rfl⟩ : ∃ m, pl = m + 1 := ⟨pl - 1, by omega⟩
    rw [List.replicate_succ', ← List.append_assoc]
    simp
  rw [hlast]
  have hp : (UInt8.ofNat (pl - 1)).toNat = pl - 1 := by
    simp; omega
  simp only [hp]
  have e : pl - 1 + 1 = pl := by omega
  rw [e]
  have hdrop : (body ++ List.replicate pl (UInt8.ofNat (pl - 1))).drop ((body ++ List.replicate pl (UInt8.ofNat (pl - 1))).length - pl)
      = List.replicate pl (UInt8.ofNat (pl - 1)) := by
    have : (body ++ List.replicate pl (UInt8.ofNat (pl - 1))).length - pl = body.length := by simp
    rw [this, List.drop_append_of_le_length (by omega), List.drop_of_length_le (by omega)]; simp
  rw [hdrop]
  have hall : (List.replicate pl (UInt8.ofNat (pl - 1))).all (· == UInt8.ofNat (pl - 1)) = true := by
    simp [List.all_eq_true]
  have hle : pl ≤ (body ++ List.replicate pl (UInt8.ofNat (pl - 1))).length := by simp
  simp [hall, hle]


theorem roundUp_le (a x : Nat) (hx : x % 16 = 0) (ha : a ≤ x) : roundUp a 16 ≤ x := by
  unfold roundUp; omega



theorem roundtrip_aead_tlcp (P : Prims) (L : Laws P) (k : DirKeys) (next : Option Cipher) (seq hdr payload rand : Bytes)
    (hseq : seq.length = 8) (hhdr : hdr.length = 5) (hlen : hdr.drop 3 = len16 payload.length) :
    match encrypt P srcTlcp .tlcp ⟨some (.aead k), next, seq⟩ hdr payload rand with
    | .ok (rec, h') => decrypt P srcTlcp .tlcp ⟨some (.aead k), next, seq⟩ rec = .ok (payload, h')
    | .panic => incSeq seq = none
    | .alert _ => False := by
  have hS : srcTlcp.recordHeaderLen = 5 := rfl
  have hen : explicitNonceLen srcTlcp (some (.aead k)) = 8 := rfl
  have h8 : seq.take 8 = seq := List.take_of_length_le (by omega)
  have hne : (seq.length == 0) = false := by simp [hseq]
  simp only [encrypt, hen, h8, hne]
  simp only [Bool.false_eq_true, if_false]
  generalize hct : P.aeadSeal k.key (prefixNonce srcTlcp k.iv seq) (adEncrypt srcTlcp .tlcp seq (hdr ++ seq) payload) payload = ct
  have hctl : ct.length = payload.length + P.tagLen := by rw [← hct, L.seal_len]
  rw [List.append_assoc, setLen_shape srcTlcp hdr (seq ++ ct) _ (by rw [hhdr]; rfl)]
  cases hi : incSeq seq with
  | none => simp
  | some s' =>
    simp only []
    unfold decrypt
    simp only [hS, hen]
    rw [drop_shape 5 hdr (seq ++ ct) _ hhdr (by omega)]
    have e1 : (seq ++ ct).take 8 = seq := by rw [List.take_append_of_le_length (by omega), h8]
    have e2 : (seq ++ ct).drop 8 = ct := by rw [List.drop_append_of_le_length (by omega), List.drop_of_length_le (by omega)]; simp
    have e3 : ¬ (seq ++ ct).length < 8 := by simp; omega
    have e4 : ¬ ct.length < P.tagLen := by omega
    simp only [e1, e2, e3, e4, if_false, hne, Bool.false_eq_true, hi]
    have e5 : ct.length - P.tagLen = payload.length := by omega
    have e6 : (hdr.take (5 - 2) ++ len16 (List.length (hdr ++ (seq ++ ct)) - 5) ++ (seq ++ ct)).take 3 = hdr.take 3 := by
      have hl3 : (hdr.take (5 - 2)).length = 3 := by simp [List.length_take, hhdr]
      rw [List.append_assoc, List.take_append_of_le_length (by omega)]
      simp [List.take_take]
    have e7 : seq ++ hdr.take 3 ++ len16 payload.length = adEncrypt srcTlcp .tlcp seq (hdr ++ seq) payload := by
      have a1 : (hdr ++ seq).take 5 = hdr := by
        rw [List.take_append_of_le_length (by omega)]; exact List.take_of_length_le (by omega)
      simp only [adEncrypt, hS]
      rw [a1, ← hlen, List.append_assoc, List.take_append_drop]
    rw [e5, e6, e7, ← hct, L.open_seal]


theorem roundtrip_cbc_tlcp (P : Prims) (L : Laws P) (k : DirKeys) (next : Option Cipher) (seq hdr payload rand : Bytes)
    (hseq : seq.length = 8) (hhdr : hdr.length = 5) (hlen : hdr.drop 3 = len16 payload.length) (hrand : 16 ≤ rand.length) :
    match encrypt P srcTlcp .tlcp ⟨some (.cbc k), next, seq⟩ hdr payload rand with
    | .ok (rec, h') => decrypt P srcTlcp .tlcp ⟨some (.cbc k), next, seq⟩ rec = .ok (payload, h')
    | .panic => incSeq seq = none
    | .alert _ => False := by
  have hS : srcTlcp.recordHeaderLen = 5 := rfl
  have hen : explicitNonceLen srcTlcp (some (.cbc k)) = 16 := rfl
  have hivl : (rand.take 16).length = 16 := by simp [List.length_take]; omega
  simp only [encrypt, hen]
  generalize rand.take 16 = iv at hivl
  have hmh : macHeader srcTlcp .tlcp (hdr ++ iv) = hdr := by
    simp only [macHeader, hS]
    rw [List.take_append_of_le_length (by omega)]; exact List.take_of_length_le (by omega)
  simp only [hmh]
  have hmacl : (tls10MAC P k.mac seq hdr payload).length = P.hLen := by simp [tls10MAC, L.hmac_len]
  generalize hmac : tls10MAC P k.mac seq hdr payload = mac at hmacl
  generalize hpl : 16 - (payload.length + mac.length) % 16 = pl
  have hpl1 : 1 ≤ pl := by omega
  have hpl2 : pl ≤ 16 := by omega
  generalize hdst : payload ++ mac ++ List.replicate pl (UInt8.ofNat (pl - 1)) = dst
  have hdl : dst.length = payload.length + mac.length + pl := by rw [← hdst]; simp; omega
  have hd16 : dst.length % 16 = 0 := by omega
  obtain ⟨hcd, hcl⟩ := cbc_encrypt_decrypt (P.enc k.key) (P.dec k.key) (L.enc_len k.key) (L.dec_enc k.key) iv dst hivl hd16
  generalize hC : CBC.encrypt (P.enc k.key) iv dst = C at hcd hcl
  rw [List.append_assoc, setLen_shape srcTlcp hdr (iv ++ C) _ (by rw [hhdr]; rfl)]
  cases hi : incSeq seq with
  | none => simp
  | some s' =>
    simp only []
    unfold decrypt
    simp only [hS, hen]
    rw [drop_shape 5 hdr (iv ++ C) _ hhdr (by omega)]
    have e1 : (iv ++ C).take 16 = iv := by rw [List.take_append_of_le_length (by omega)]; exact List.take_of_length_le (by omega)
    have e2 : (iv ++ C).drop 16 = C := by rw [List.drop_append_of_le_length (by omega), List.drop_of_length_le (by omega)]; simp
    have e3 : ((iv ++ C).length % 16 != 0 || decide ((iv ++ C).length < 16 + roundUp (P.hLen + 1) 16)) = false := by
      have := roundUp_le (P.hLen + 1) dst.length hd16 (by omega)
      simp; omega
    simp only [e1, e2, e3, hcd, Bool.false_eq_true, if_false]
    rw [← hdst, extractPadding_pad (payload ++ mac) pl hpl1 hpl2]
    simp only []
    have f0 : (payload ++ mac ++ List.replicate pl (UInt8.ofNat (pl - 1))).length = payload.length + mac.length + pl := by
      rw [hdst]; exact hdl
    have f1 : (payload ++ mac ++ List.replicate pl (UInt8.ofNat (pl - 1))).length - P.hLen - pl = payload.length := by
      rw [f0]; omega
    have f2 : ¬ (payload ++ mac ++ List.replicate pl (UInt8.ofNat (pl - 1))).length < P.hLen := by rw [f0]; omega
    have f3 : (payload ++ mac ++ List.replicate pl (UInt8.ofNat (pl - 1))).take payload.length = payload := by
      rw [List.append_assoc, List.take_append_of_le_length (by omega)]; exact List.take_of_length_le (by omega)
    have f4 : ((payload ++ mac ++ List.replicate pl (UInt8.ofNat (pl - 1))).drop payload.length).take P.hLen = mac := by
      rw [List.append_assoc, List.drop_append_of_le_length (by omega), List.drop_of_length_le (by omega)]
      simp only [List.nil_append]
      rw [List.take_append_of_le_length (by omega)]; exact List.take_of_length_le (by omega)
    have f5 : (setLen srcTlcp (List.take (5 - 2) hdr ++ len16 ((hdr ++ (iv ++ C)).length - 5) ++ (iv ++ C)) payload.length).take 5 = hdr := by
      have hl3 : (hdr.take (5 - 2)).length = 3 := by simp [List.length_take, hhdr]
      have hh : (List.take (5 - 2) hdr ++ len16 ((hdr ++ (iv ++ C)).length - 5)).length = srcTlcp.recordHeaderLen := by
        rw [hS]; simp [hl3, len16_length]
      rw [setLen_shape srcTlcp _ (iv ++ C) _ hh, hS]
      have hl5 : ((List.take (5 - 2) hdr ++ len16 ((hdr ++ (iv ++ C)).length - 5)).take (5 - 2) ++ len16 payload.length).length = 5 := by
        simp [List.length_take, hl3, len16_length]
      rw [List.take_append_of_le_length (by omega), List.take_of_length_le (by omega),
        List.take_append_of_le_length (by omega), List.take_take]
      have : min (5 - 2) (5 - 2) = 3 := rfl
      rw [this, ← hlen, List.take_append_drop]
    simp only [f1, f2, f3, f4, f5, if_false, hmac, hi, beq_self_eq_true, Bool.and_true, if_true]
theorem getD_take (l : Bytes) (n i : Nat) (d : UInt8) (h : i < n) : (l.take n).getD i d = l.getD i d := by
  simp [List.getD_eq_getElem?_getD, List.getElem?_take, h]

theorem getD_append_left (l l' : Bytes) (i : Nat) (d : UInt8) (h : i < l.length) : (l ++ l').getD i d = l.getD i d := by
  simp [List.getD_eq_getElem?_getD, List.getElem?_append_left h]

theorem roundtrip_aead_dtlcp (P : Prims) (L : Laws P) (k : DirKeys) (next : Option Cipher) (seq hdr payload rand : Bytes)
    (hseq : seq.length = 8) (hhdr : hdr.length = 13) :
    match encrypt P srcDtlcp .dtlcp ⟨some (.aead k), next, seq⟩ hdr payload rand with
    | .ok (rec, h') => decrypt P srcDtlcp .dtlcp ⟨some (.aead k), next, seq⟩ rec = .ok (payload, h')
    | .panic => False
    | .alert _ => False := by
  have hS : srcDtlcp.recordHeaderLen = 13 := rfl
  have hen : explicitNonceLen srcDtlcp (some (.aead k)) = 8 := rfl
  have h8 : seq.take 8 = seq := List.take_of_length_le (by omega)
  have hne : (seq.length == 0) = false := by simp [hseq]
  simp only [encrypt, hen, h8, hne]
  simp only [Bool.false_eq_true, if_false]
  generalize hct : P.aeadSeal k.key (prefixNonce srcDtlcp k.iv seq) (adEncrypt srcDtlcp .dtlcp seq (hdr ++ seq) payload) payload = ct
  have hctl : ct.length = payload.length + P.tagLen := by rw [← hct, L.seal_len]
  rw [List.append_assoc, setLen_shape srcDtlcp hdr (seq ++ ct) _ (by rw [hhdr]; rfl)]
  unfold decrypt
  simp only [hS, hen]
  rw [drop_shape 13 hdr (seq ++ ct) _ hhdr (by omega)]
  have e1 : (seq ++ ct).take 8 = seq := by rw [List.take_append_of_le_length (by omega), h8]
  have e2 : (seq ++ ct).drop 8 = ct := by rw [List.drop_append_of_le_length (by omega), List.drop_of_length_le (by omega)]; simp
  have e3 : ¬ (seq ++ ct).length < 8 := by simp; omega
  have e4 : ¬ ct.length < P.tagLen := by omega
  simp only [e1, e2, e3, e4, if_false, hne, Bool.false_eq_true]
  have e5 : ct.length - P.tagLen = payload.length := by omega
  have g : ∀ i, i < 3 → (hdr.take (13 - 2) ++ len16 (List.length (hdr ++ (seq ++ ct)) - 13) ++ (seq ++ ct)).getD i 0 = (hdr ++ seq).getD i 0 := by
    intro i hi
    rw [List.append_assoc, getD_append_left _ _ _ _ (by simp [List.length_take]; omega), getD_take _ _ _ _ (by omega),
      getD_append_left _ _ _ _ (by omega)]
  rw [e5, g 0 (by omega), g 1 (by omega), g 2 (by omega)]
  have e7 : seq ++ [(hdr ++ seq).getD 0 0] ++ [(hdr ++ seq).getD 1 0, (hdr ++ seq).getD 2 0] ++ len16 payload.length
      = adEncrypt srcDtlcp .dtlcp seq (hdr ++ seq) payload := rfl
  rw [e7, ← hct, L.open_seal]

theorem roundtrip_cbc_dtlcp (P : Prims) (L : Laws P) (k : DirKeys) (next : Option Cipher) (seq hdr payload rand : Bytes)
    (hhdr : hdr.length = 13) (hlen : hdr.drop 11 = len16 payload.length) (hrand : 16 ≤ rand.length) :
    match encrypt P srcDtlcp .dtlcp ⟨some (.cbc k), next, seq⟩ hdr payload rand with
    | .ok (rec, h') => decrypt P srcDtlcp .dtlcp ⟨some (.cbc k), next, seq⟩ rec = .ok (payload, h')
    | .panic => False
    | .alert _ => False := by
  have hS : srcDtlcp.recordHeaderLen = 13 := rfl
  have hen : explicitNonceLen srcDtlcp (some (.cbc k)) = 16 := rfl
  have hivl : (rand.take 16).length = 16 := by simp [List.length_take]; omega
  simp only [encrypt, hen]
  generalize rand.take 16 = iv at hivl
  have hd11 : hdr.getD 11 0 = (len16 payload.length).getD 0 0 ∧ hdr.getD 12 0 = (len16 payload.length).getD 1 0 := by
    rw [← hlen]; simp [List.getD_eq_getElem?_getD, List.getElem?_drop]
  have hmh : macHeader srcDtlcp .dtlcp (hdr ++ iv) = [hdr.getD 0 0, hdr.getD 1 0, hdr.getD 2 0] ++ len16 payload.length := by
    simp only [macHeader, hS]
    rw [getD_append_left _ _ _ _ (by omega), getD_append_left _ _ _ _ (by omega), getD_append_left _ _ _ _ (by omega),
      getD_append_left _ _ _ _ (by omega), getD_append_left _ _ _ _ (by omega), hd11.1, hd11.2]
    rfl
  simp only [hmh]
  generalize hH : [hdr.getD 0 0, hdr.getD 1 0, hdr.getD 2 0] ++ len16 payload.length = H
  have hmacl : (tls10MAC P k.mac seq H payload).length = P.hLen := by simp [tls10MAC, L.hmac_len]
  generalize hmac : tls10MAC P k.mac seq H payload = mac at hmacl
  generalize hpl : 16 - (payload.length + mac.length) % 16 = pl
  have hpl1 : 1 ≤ pl := by omega
  have hpl2 : pl ≤ 16 := by omega
  generalize hdst : payload ++ mac ++ List.replicate pl (UInt8.ofNat (pl - 1)) = dst
  have hdl : dst.length = payload.length + mac.length + pl := by rw [← hdst]; simp; omega
  have hd16 : dst.length % 16 = 0 := by omega
  obtain ⟨hcd, hcl⟩ := cbc_encrypt_decrypt (P.enc k.key) (P.dec k.key) (L.enc_len k.key) (L.dec_enc k.key) iv dst hivl hd16
  generalize hC : CBC.encrypt (P.enc k.key) iv dst = C at hcd hcl
  rw [List.append_assoc, setLen_shape srcDtlcp hdr (iv ++ C) _ (by rw [hhdr]; rfl)]
  unfold decrypt
  simp only [hS, hen]
  rw [drop_shape 13 hdr (iv ++ C) _ hhdr (by omega)]
  have e1 : (iv ++ C).take 16 = iv := by rw [List.take_append_of_le_length (by omega)]; exact List.take_of_length_le (by omega)
  have e2 : (iv ++ C).drop 16 = C := by rw [List.drop_append_of_le_length (by omega), List.drop_of_length_le (by omega)]; simp
  have e3 : ((iv ++ C).length % 16 != 0 || decide ((iv ++ C).length < 16 + roundUp (P.hLen + 1) 16)) = false := by
    have := roundUp_le (P.hLen + 1) dst.length hd16 (by omega)
    simp; omega
  simp only [e1, e2, e3, hcd, Bool.false_eq_true, if_false]
  rw [← hdst, extractPadding_pad (payload ++ mac) pl hpl1 hpl2]
  simp only []
  have f0 : (payload ++ mac ++ List.replicate pl (UInt8.ofNat (pl - 1))).length = payload.length + mac.length + pl := by
    rw [hdst]; exact hdl
  have f1 : (payload ++ mac ++ List.replicate pl (UInt8.ofNat (pl - 1))).length - P.hLen - pl = payload.length := by
    rw [f0]; omega
  have f2 : ¬ (payload ++ mac ++ List.replicate pl (UInt8.ofNat (pl - 1))).length < P.hLen := by rw [f0]; omega
  have f3 : (payload ++ mac ++ List.replicate pl (UInt8.ofNat (pl - 1))).take payload.length = payload := by
    rw [List.append_assoc, List.take_append_of_le_length (by omega)]; exact List.take_of_length_le (by omega)
  have f4 : ((payload ++ mac ++ List.replicate pl (UInt8.ofNat (pl - 1))).drop payload.length).take P.hLen = mac := by
    rw [List.append_assoc, List.drop_append_of_le_length (by omega), List.drop_of_length_le (by omega)]
    simp only [List.nil_append]
    rw [List.take_append_of_le_length (by omega)]; exact List.take_of_length_le (by omega)
  have g : ∀ i, i < 3 → (hdr.take (13 - 2) ++ len16 (List.length (hdr ++ (iv ++ C)) - 13) ++ (iv ++ C)).getD i 0 = hdr.getD i 0 := by
    intro i hi
    rw [List.append_assoc, getD_append_left _ _ _ _ (by simp [List.length_take]; omega), getD_take _ _ _ _ (by omega)]
  simp only [f1, f2, f3, f4, g 0 (by omega), g 1 (by omega), g 2 (by omega), hH, if_false, hmac, beq_self_eq_true, Bool.and_true, if_true]

/-! ### records of an independent sender: the explicit GCM nonce is the sender's choice

The standard's sealing (`Spec.KeySchedule.sealGCM`) with ANY 8-byte explicit nonce — not only the
copy of the sequence number gotlcp's own `encrypt` writes — is opened by the model's `decrypt`. -/

theorem open_foreign_nonce_tlcp (P : Prims) (L : Laws P) (k : DirKeys) (next : Option Cipher)
    (typ ver epoch seq : Nat) (e content : Bytes) (he : e.length = 8) (hiv : k.iv.length = 4) :
    match decrypt P srcTlcp .tlcp ⟨some (.aead k), next, Spec.KeySchedule.seqNum .tlcp epoch seq⟩
        (Spec.KeySchedule.sealGCM P ⟨k.mac, k.key, k.iv⟩ .tlcp typ ver epoch seq e content) with
    | .ok (pt, _) => pt = content
    | .panic => incSeq (Spec.KeySchedule.seqNum .tlcp epoch seq) = none
    | .alert _ => False := by
  have hS : srcTlcp.recordHeaderLen = 5 := rfl
  have hen : explicitNonceLen srcTlcp (some (.aead k)) = 8 := rfl
  simp only [Spec.KeySchedule.sealGCM, Spec.KeySchedule.header, Spec.KeySchedule.gcmNonce,
    Spec.KeySchedule.additionalData, Spec.KeySchedule.pseudoHeader, Spec.KeySchedule.seqNum]
  generalize hct : P.aeadSeal k.key (k.iv ++ e) (be 8 seq ++ be 1 typ ++ be 2 ver ++ be 2 content.length) content = ct
  have hctl : ct.length = content.length + P.tagLen := by rw [← hct, L.seal_len]
  have hh : (be 1 typ ++ be 2 ver ++ be 2 (e.length + ct.length)).length = 5 := by simp [length_be]
  unfold decrypt
  simp only [hS, hen]
  have d1 : (be 1 typ ++ be 2 ver ++ be 2 (e.length + ct.length) ++ e ++ ct).drop 5 = e ++ ct := by
    rw [List.append_assoc, List.drop_append_of_le_length (by omega), List.drop_of_length_le (by omega)]; simp
  have t3 : (be 1 typ ++ be 2 ver ++ be 2 (e.length + ct.length) ++ e ++ ct).take 3 = be 1 typ ++ be 2 ver := by
    simp [be]
  rw [d1, t3]
  have e1 : (e ++ ct).take 8 = e := by rw [List.take_append_of_le_length (by omega)]; exact List.take_of_length_le (by omega)
  have e2 : (e ++ ct).drop 8 = ct := by rw [List.drop_append_of_le_length (by omega), List.drop_of_length_le (by omega)]; simp
  have e3 : ¬ (e ++ ct).length < 8 := by simp; omega
  have e4 : ¬ ct.length < P.tagLen := by omega
  have e5 : ct.length - P.tagLen = content.length := by omega
  have hne : (e.length == 0) = false := by simp [he]
  have pn : prefixNonce srcTlcp k.iv e = k.iv ++ e := by
    simp only [prefixNonce]
    have a : srcTlcp.noncePrefixLen = 4 := rfl
    have b : srcTlcp.aeadNonceLen = 12 := rfl
    rw [a, b, List.take_of_length_le (by omega), List.take_of_length_le (by omega)]
  simp only [e1, e2, e3, e4, e5, if_false, hne, Bool.false_eq_true, pn, len16_eq]
  rw [← hct, ← List.append_assoc (be 8 seq), L.open_seal]
  cases hi : incSeq (be 8 seq) <;> simp

theorem open_foreign_nonce_dtlcp (P : Prims) (L : Laws P) (k : DirKeys) (next : Option Cipher)
    (typ ver epoch seq : Nat) (e content : Bytes) (he : e.length = 8) (hiv : k.iv.length = 4) :
    match decrypt P srcDtlcp .dtlcp ⟨some (.aead k), next, Spec.KeySchedule.seqNum .dtlcp epoch seq⟩
        (Spec.KeySchedule.sealGCM P ⟨k.mac, k.key, k.iv⟩ .dtlcp typ ver epoch seq e content) with
    | .ok (pt, _) => pt = content
    | .panic => False
    | .alert _ => False := by
  have hS : srcDtlcp.recordHeaderLen = 13 := rfl
  have hen : explicitNonceLen srcDtlcp (some (.aead k)) = 8 := rfl
  simp only [Spec.KeySchedule.sealGCM, Spec.KeySchedule.header, Spec.KeySchedule.gcmNonce,
    Spec.KeySchedule.additionalData, Spec.KeySchedule.pseudoHeader, Spec.KeySchedule.seqNum]
  generalize hct : P.aeadSeal k.key (k.iv ++ e) (be 2 epoch ++ be 6 seq ++ be 1 typ ++ be 2 ver ++ be 2 content.length) content = ct
  have hctl : ct.length = content.length + P.tagLen := by rw [← hct, L.seal_len]
  generalize hsq : be 2 epoch ++ be 6 seq = sq at *
  have hsql : sq.length = 8 := by rw [← hsq]; simp [length_be]
  have hb : be 1 typ ++ be 2 ver = [UInt8.ofNat typ, UInt8.ofNat (ver / 256), UInt8.ofNat ver] := by simp [be]
  have hrec : be 1 typ ++ be 2 ver ++ be 2 epoch ++ be 6 seq ++ be 2 (e.length + ct.length) ++ e ++ ct
      = [UInt8.ofNat typ, UInt8.ofNat (ver / 256), UInt8.ofNat ver] ++ (sq ++ be 2 (e.length + ct.length)) ++ (e ++ ct) := by
    rw [hb, ← hsq]; simp
  rw [hrec]
  unfold decrypt
  simp only [hS, hen]
  have d1 : ([UInt8.ofNat typ, UInt8.ofNat (ver / 256), UInt8.ofNat ver] ++ (sq ++ be 2 (e.length + ct.length)) ++ (e ++ ct)).drop 13 = e ++ ct := by
    rw [List.drop_append_of_le_length (by simp [length_be, hsql]), List.drop_of_length_le (by simp [length_be, hsql])]; simp
  rw [d1]
  have e1 : (e ++ ct).take 8 = e := by rw [List.take_append_of_le_length (by omega)]; exact List.take_of_length_le (by omega)
  have e2 : (e ++ ct).drop 8 = ct := by rw [List.drop_append_of_le_length (by omega), List.drop_of_length_le (by omega)]; simp
  have e3 : ¬ (e ++ ct).length < 8 := by simp; omega
  have e4 : ¬ ct.length < P.tagLen := by omega
  have e5 : ct.length - P.tagLen = content.length := by omega
  have hne : (e.length == 0) = false := by simp [he]
  have pn : prefixNonce srcDtlcp k.iv e = k.iv ++ e := by
    simp only [prefixNonce]
    have a : srcDtlcp.noncePrefixLen = 4 := rfl
    have b : srcDtlcp.aeadNonceLen = 12 := rfl
    rw [a, b, List.take_of_length_le (by omega), List.take_of_length_le (by omega)]
  have g0 : ([UInt8.ofNat typ, UInt8.ofNat (ver / 256), UInt8.ofNat ver] ++ (sq ++ be 2 (e.length + ct.length)) ++ (e ++ ct)).getD 0 0 = UInt8.ofNat typ := by simp
  have g1 : ([UInt8.ofNat typ, UInt8.ofNat (ver / 256), UInt8.ofNat ver] ++ (sq ++ be 2 (e.length + ct.length)) ++ (e ++ ct)).getD 1 0 = UInt8.ofNat (ver / 256) := by simp
  have g2 : ([UInt8.ofNat typ, UInt8.ofNat (ver / 256), UInt8.ofNat ver] ++ (sq ++ be 2 (e.length + ct.length)) ++ (e ++ ct)).getD 2 0 = UInt8.ofNat ver := by simp
  simp only [e1, e2, e3, e4, e5, if_false, hne, Bool.false_eq_true, pn, len16_eq, g0, g1, g2]
  have had : sq ++ [UInt8.ofNat typ] ++ [UInt8.ofNat (ver / 256), UInt8.ofNat ver] ++ be 2 content.length
      = sq ++ be 1 typ ++ be 2 ver ++ be 2 content.length := by
    rw [List.append_assoc sq (be 1 typ), hb]; simp
  rw [had, ← hct, L.open_seal]

end Gotlcp.Lemmas.KeyScheduleRecord

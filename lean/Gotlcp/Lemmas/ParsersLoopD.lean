/-
Helper lemmas for C09 (b), (c), datagram stack: what one iteration of the loop of dtlcp
readRecordOrCCS does to the input still to come, to the handshake buffer and to the reassembly
buffers (`Gotlcp.Model.ParsersLoopD`).
-/
import Gotlcp.Model.ParsersLoopD
import Gotlcp.Lemmas.Parsers

namespace Gotlcp.Lemmas.ParsersLoopD
open Gotlcp Gotlcp.Model.Parsers Gotlcp.Model.ParsersLoopD Gotlcp.Lemmas.Parsers

theorem muD_nil : muD [] = 0 := rfl
theorem muD_cons (d : Bytes) (ds : List Bytes) : muD (d :: ds) = d.length + 1 + muD ds := rfl

/-- everything `dispatch` can do to a state -/
structure DispSpec (L : LimitsD) (s : StD) (e dlv : Bool) (data : Bytes) (s' : StD) (p : PassD) : Prop where
  dgrams_eq : s'.dgrams = s.dgrams
  raw_cases : s'.raw = s.raw ∨ s'.raw = []
  complete_eq : s'.complete = s.complete
  pending_eq : s'.pending = s.pending
  inErr_keep : (∀ r, p ≠ .done (.err r)) → s'.inErr = s.inErr
  hand_cases : (s'.hand = s.hand ∧ ∀ e' d', p = .again e' d' → d' = dlv ∨ d' = true) ∨
    (s'.hand = s.hand ++ data ∧ ¬(s.complete = true ∧ L.refusePostHs = true) ∧
      (p = .done (.ok ()) ∨ ∃ e', p = .again e' true))
  retry_keeps : p = .retry → s'.hand = s.hand ∧ s'.retry = s.retry ∧ ¬(dlv = true ∧ L.deliveredGuard = true)
  no_panic : p ≠ .done .panic
  no_stuck : p ≠ .done (.err .stuck)

theorem dispatch_spec (L : LimitsD) (lib : LibD) (s : StD) (e dlv : Bool) (typ : UInt8) (data : Bytes) :
    DispSpec L s e dlv data (dispatch L lib s e dlv typ data).1 (dispatch L lib s e dlv typ data).2 := by
  unfold dispatch
  simp only [setErr]
  split
  · split
    · exact ⟨rfl, Or.inl rfl, rfl, rfl, by simp, Or.inl ⟨rfl, by simp⟩, by simp, by simp, by simp⟩
    · rename_i h2
      have h2' : data.length = 2 := by omega
      rw [idx_lt (by omega), idx_lt (by omega)]
      simp only
      split
      · exact ⟨rfl, Or.inl rfl, rfl, rfl, by simp, Or.inl ⟨rfl, by simp⟩, by simp, by simp, by simp⟩
      · split
        · split
          · exact ⟨rfl, Or.inr rfl, rfl, rfl, by simp, Or.inl ⟨rfl, by simp⟩, by simp, by simp, by simp⟩
          · rename_i hg
            exact ⟨rfl, Or.inr rfl, rfl, rfl, by simp, Or.inl ⟨rfl, by simp⟩, fun _ => ⟨rfl, rfl, by simpa using hg⟩, by simp, by simp⟩
        · exact ⟨rfl, Or.inl rfl, rfl, rfl, by simp, Or.inl ⟨rfl, by simp⟩, by simp, by simp, by simp⟩
  split
  · split
    · exact ⟨rfl, Or.inl rfl, rfl, rfl, by simp, Or.inl ⟨rfl, by simp⟩, by simp, by simp, by simp⟩
    · rename_i h1
      have h1' : data.length = 1 := by omega
      rw [idx_lt (by omega)]
      simp only
      repeat' split
      all_goals exact ⟨rfl, Or.inl rfl, rfl, rfl, by simp, Or.inl ⟨rfl, by simp⟩, by simp, by simp, by simp⟩
  split
  · repeat' split
    all_goals exact ⟨rfl, Or.inl rfl, rfl, rfl, by simp, Or.inl ⟨rfl, by simp⟩, by simp, by simp, by simp⟩
  split
  · repeat' split
    all_goals first
      | exact ⟨rfl, Or.inl rfl, rfl, rfl, by simp, Or.inl ⟨rfl, by simp⟩, by simp, by simp, by simp⟩
      | (refine ⟨rfl, Or.inl rfl, rfl, rfl, by simp, Or.inr ⟨rfl, ?_, ?_⟩, by simp, by simp, by simp⟩
         · simp_all
         · simp)
  · exact ⟨rfl, Or.inl rfl, rfl, rfl, by simp, Or.inl ⟨rfl, by simp⟩, by simp, by simp, by simp⟩

theorem splitD_ok (hdr mc : Nat) (h13 : 13 ≤ hdr) (hv : Bool) (v : Nat) (buf : Bytes) (first : Bool) (sp : SplitD)
    (h : splitD hdr mc hv v buf first = .ok sp) :
    sp.record.length + sp.rest.length = buf.length ∧ hdr ≤ sp.record.length := by
  unfold splitD at h
  split at h
  · simp at h
  rename_i hl
  rw [sliceTo_le (by omega)] at h
  simp only [bind_ok] at h
  have e : ∀ i, i < 13 → i < (List.take hdr buf).length := by
    intro i hi; simp only [List.length_take]; omega
  rw [idx_lt (e 0 (by omega)), bind_ok, idx_lt (e 1 (by omega)), bind_ok, idx_lt (e 2 (by omega)), bind_ok,
    idx_lt (e 3 (by omega)), bind_ok, idx_lt (e 4 (by omega)), bind_ok, idx_lt (e 5 (by omega)), bind_ok,
    idx_lt (e 6 (by omega)), bind_ok, idx_lt (e 7 (by omega)), bind_ok, idx_lt (e 8 (by omega)), bind_ok,
    idx_lt (e 9 (by omega)), bind_ok, idx_lt (e 10 (by omega)), bind_ok, idx_lt (e 11 (by omega)), bind_ok,
    idx_lt (e 12 (by omega)), bind_ok] at h
  split at h
  · simp at h
  split at h
  · simp at h
  split at h
  · simp at h
  split at h
  · simp at h
  rename_i hn
  rw [sliceTo_le (by omega), bind_ok, sliceFrom_le (by omega), bind_ok] at h
  simp only [pure_eq, Outcome.ok.injEq] at h
  subst h
  simp only [List.length_take, List.length_drop]
  omega

/-- decryption does not expand a record -/
def DecLen (lib : LibD) : Prop := ∀ r d, lib.dec r = some d → d.length ≤ r.length

/-- top of the loop -/
structure FetchSpec (L : LimitsD) (s : StD) (dlv : Bool) (s' : StD) (o : Option PassD) : Prop where
  hand_eq : s'.hand = s.hand
  complete_eq : s'.complete = s.complete
  pending_eq : s'.pending = s.pending
  retry_eq : s'.retry = s.retry
  inErr_eq : s'.inErr = s.inErr
  mu_le : s'.mu ≤ s.mu
  raw_D : s.raw.length ≤ L.maxCiphertext + L.hdr → s'.raw.length ≤ L.maxCiphertext + L.hdr
  raw_mono : dlv = true → L.deliveredGuard = true → s'.raw.length ≤ s.raw.length
  ended : ∀ p, o = some p → (p = .done (.ok ()) ∧ dlv = true) ∨ p = .done (.err .timeout)
  cont : o = none → s'.mu < s.mu ∨ (L.hdr ≤ s'.raw.length ∧ s'.raw = s.raw ∧ s'.dgrams = s.dgrams)

theorem fetchD_spec (L : LimitsD) (s : StD) (dlv : Bool) : FetchSpec L s dlv (fetchD L s dlv).1 (fetchD L s dlv).2 := by
  unfold fetchD
  simp only
  split
  · rename_i hg
    simp only [Bool.and_eq_true, decide_eq_true_eq] at hg
    exact ⟨rfl, rfl, rfl, rfl, rfl, by simp [StD.mu], by simp, by simp, by intro p hp; cases hp; exact Or.inl ⟨rfl, hg.1.2⟩, by simp⟩
  rename_i hg
  split
  · rename_i hlt
    split
    · exact ⟨rfl, rfl, rfl, rfl, rfl, Nat.le_refl _, fun h => h, fun _ _ => Nat.le_refl _, by intro p hp; cases hp; exact Or.inr rfl, by simp⟩
    · rename_i d ds hd
      refine ⟨rfl, rfl, rfl, rfl, rfl, ?_, ?_, ?_, by simp, ?_⟩
      · simp only [StD.mu, hd, muD_cons, List.length_take]; omega
      · intro _; simp only [List.length_take]; omega
      · intro h1 h2
        exfalso
        simp only [Bool.and_eq_true, decide_eq_true_eq, not_and, Bool.not_eq_true] at hg
        have := hg ⟨hlt, h1⟩
        rw [h2] at this; cases this
      · intro _; left
        simp only [StD.mu, hd, muD_cons, List.length_take]; omega
  · rename_i hge
    exact ⟨rfl, rfl, rfl, rfl, rfl, Nat.le_refl _, fun h => h, fun _ _ => Nat.le_refl _, by simp, fun _ => Or.inr ⟨by simp only; omega, rfl, rfl⟩⟩

/-- header, decryption, epoch and replay checks -/
structure CheckSpec (L : LimitsD) (s : StD) (e dlv : Bool) (s' : StD) (q : Prep) : Prop where
  hand_eq : s'.hand = s.hand
  complete_eq : s'.complete = s.complete
  pending_eq : s'.pending = s.pending
  dgrams_eq : s'.dgrams = s.dgrams
  raw_le : s'.raw.length ≤ s.raw.length
  again : ∀ e' d', q = .result (.again e' d') → (s'.raw.length < s.raw.length ∨ s.raw.length < L.hdr) ∧ d' = dlv ∧ e' = e
  no_retry : q ≠ .result .retry
  no_ok : q ≠ .result (.done (.ok ()))
  no_panic : q ≠ .result (.done .panic)
  no_stuck : q ≠ .result (.done (.err .stuck))
  record : ∀ typ data, q = .record typ data →
    s'.raw.length + L.hdr ≤ s.raw.length ∧ data.length ≤ L.maxPlaintext ∧ data.length + s'.raw.length ≤ s.raw.length ∧
    (typ = 21 → s'.retry = s.retry) ∧ s'.inErr = s.inErr

theorem checkD_spec (L : LimitsD) (lib : LibD) (h13 : 13 ≤ L.hdr) (hdec : DecLen lib) (s : StD) (e dlv : Bool) :
    CheckSpec L s e dlv (checkD L lib s e dlv).1 (checkD L lib s e dlv).2 := by
  unfold checkD
  simp only [setErr]
  split
  · rename_i hlt
    split
    · exact ⟨rfl, rfl, rfl, rfl, by simp, by intro e' d' h; injection h with h; injection h with h1 h2; exact ⟨Or.inr hlt, h2.symm, h1.symm⟩, by simp, by simp, by simp, by simp, by simp⟩
    · exact ⟨rfl, rfl, rfl, rfl, Nat.le_refl _, by simp, by simp, by simp, by simp, by simp, by simp⟩
  rename_i hge
  have hnp := splitD_no_panic L.hdr L.maxCiphertext h13 s.haveVers s.vers s.raw (s.hand.length == 0)
  cases hs : splitD L.hdr L.maxCiphertext s.haveVers s.vers s.raw (s.hand.length == 0) with
  | panic => exact absurd hs hnp
  | err e' =>
    simp only
    split
    · exact ⟨rfl, rfl, rfl, rfl, by simp, by intro e'' d' h; injection h with h; injection h with h1 h2; exact ⟨Or.inl (by simp only [List.length_nil]; omega), h2.symm, h1.symm⟩, by simp, by simp, by simp, by simp, by simp⟩
    · refine ⟨rfl, rfl, rfl, rfl, Nat.le_refl _, by simp, by simp, by simp, by simp, ?_, by simp⟩
      intro h; injection h with h; injection h with h; injection h with h; subst h
      unfold splitD at hs
      revert hs
      orun
  | ok sp =>
    obtain ⟨hsum, hrec⟩ := splitD_ok L.hdr L.maxCiphertext h13 s.haveVers s.vers s.raw _ sp hs
    simp only
    have hrest : sp.rest.length + L.hdr ≤ s.raw.length := by omega
    cases hp : (if s.prot = true then lib.dec sp.record else some (List.drop L.hdr sp.record)) with
    | none =>
      simp only
      split
      · exact ⟨rfl, rfl, rfl, rfl, by simp only; omega, by intro e'' d' h; injection h with h; injection h with h1 h2; exact ⟨Or.inl (by simp only; omega), h2.symm, h1.symm⟩, by simp, by simp, by simp, by simp, by simp⟩
      · exact ⟨rfl, rfl, rfl, rfl, Nat.le_refl _, by simp, by simp, by simp, by simp, by simp, by simp⟩
    | some data =>
      have hdl : data.length ≤ sp.record.length := by
        split at hp
        · exact hdec _ _ hp
        · injection hp with hp; rw [← hp, List.length_drop]; omega
      simp only
      split
      · exact ⟨rfl, rfl, rfl, rfl, by simp only; omega, by intro e'' d' h; injection h with h; injection h with h1 h2; exact ⟨Or.inl (by simp only; omega), h2.symm, h1.symm⟩, by simp, by simp, by simp, by simp, by simp⟩
      split
      · exact ⟨rfl, rfl, rfl, rfl, by simp only; omega, by intro e'' d' h; injection h with h; injection h with h1 h2; exact ⟨Or.inl (by simp only; omega), h2.symm, h1.symm⟩, by simp, by simp, by simp, by simp, by simp⟩
      split
      · exact ⟨rfl, rfl, rfl, rfl, Nat.le_refl _, by simp, by simp, by simp, by simp, by simp, by simp⟩
      split
      · exact ⟨rfl, rfl, rfl, rfl, Nat.le_refl _, by simp, by simp, by simp, by simp, by simp, by simp⟩
      · rename_i hmp _
        refine ⟨rfl, rfl, rfl, rfl, by simp only; omega, by simp, by simp, by simp, by simp, by simp, ?_⟩
        intro typ d h
        injection h with h1 h2
        subst h2
        refine ⟨by simp only; omega, by omega, by simp only; omega, ?_, rfl⟩
        intro ht
        have h21 : sp.typ = 21 := by rw [h1]; exact ht
        simp [h21]

/-- the effect of one iteration of the loop of readRecordOrCCS -/
structure IterSpec (L : LimitsD) (s : StD) (e dlv : Bool) (s' : StD) (p : PassD) : Prop where
  mu_le : s'.mu ≤ s.mu
  progress : ((∃ e' d', p = .again e' d') ∨ p = .retry) → s'.mu < s.mu
  ok_progress : p = .done (.ok ()) → s'.mu < s.mu ∨ dlv = true
  complete_eq : s'.complete = s.complete
  pending_eq : s'.pending = s.pending
  raw_D : s.raw.length ≤ L.maxCiphertext + L.hdr → s'.raw.length ≤ L.maxCiphertext + L.hdr
  phi_D : s.raw.length ≤ L.maxCiphertext + L.hdr → s'.hand.length + s'.raw.length ≤ s.hand.length + (L.maxCiphertext + L.hdr)
  phi_mono : dlv = true → L.deliveredGuard = true → s'.hand.length + s'.raw.length ≤ s.hand.length + s.raw.length
  flag_hand : ∀ e' d', p = .again e' d' → d' = true ∨ (d' = dlv ∧ s'.hand = s.hand)
  retry_hand : p = .retry → s'.hand = s.hand ∧ ¬(dlv = true ∧ L.deliveredGuard = true)
  frozen : s.complete = true → L.refusePostHs = true → s'.hand = s.hand
  no_panic : p ≠ .done .panic
  no_stuck : p ≠ .done (.err .stuck)

theorem iter_spec (L : LimitsD) (lib : LibD) (h13 : 13 ≤ L.hdr) (hdec : DecLen lib) (s : StD) (e dlv : Bool) :
    IterSpec L s e dlv (iter L lib s e dlv).1 (iter L lib s e dlv).2 := by
  unfold iter prep
  have fs := fetchD_spec L s dlv
  generalize fetchD L s dlv = f at *
  obtain ⟨s1, o⟩ := f
  simp only at fs ⊢
  cases o with
  | some p =>
    simp only
    rcases fs.ended p rfl with ⟨rfl, hd⟩ | rfl
    · exact ⟨fs.mu_le, by simp, fun _ => Or.inr hd, fs.complete_eq, fs.pending_eq, fs.raw_D,
        fun h => by rw [fs.hand_eq]; have := fs.raw_D h; omega,
        fun a b => by rw [fs.hand_eq]; have := fs.raw_mono a b; omega,
        by simp, by simp, fun _ _ => fs.hand_eq, by simp, by simp⟩
    · exact ⟨fs.mu_le, by simp, by simp, fs.complete_eq, fs.pending_eq, fs.raw_D,
        fun h => by rw [fs.hand_eq]; have := fs.raw_D h; omega,
        fun a b => by rw [fs.hand_eq]; have := fs.raw_mono a b; omega,
        by simp, by simp, fun _ _ => fs.hand_eq, by simp, by simp⟩
  | none =>
    simp only
    have cs := checkD_spec L lib h13 hdec s1 e dlv
    generalize checkD L lib s1 e dlv = c at *
    obtain ⟨s2, q⟩ := c
    simp only at cs ⊢
    have mu2 : s2.mu ≤ s1.mu := by simp only [StD.mu, cs.dgrams_eq]; have := cs.raw_le; omega
    have hcont := fs.cont rfl
    cases q with
    | result p =>
      simp only
      refine ⟨by have := fs.mu_le; omega, ?_, ?_, by rw [cs.complete_eq, fs.complete_eq], by rw [cs.pending_eq, fs.pending_eq], ?_, ?_, ?_, ?_, ?_, ?_, ?_, ?_⟩
      · rintro (⟨e', d', rfl⟩ | rfl)
        · obtain ⟨h1, _, _⟩ := cs.again e' d' rfl
          rcases hcont with hc | ⟨hc, _, _⟩
          · omega
          · have : s2.mu < s1.mu := by
              simp only [StD.mu, cs.dgrams_eq]; rcases h1 with h1 | h1 <;> omega
            have := fs.mu_le; omega
        · exact absurd rfl cs.no_retry
      · intro h; subst h; exact absurd rfl cs.no_ok
      · intro h; have := fs.raw_D h; have := cs.raw_le; omega
      · intro h; rw [cs.hand_eq, fs.hand_eq]; have := fs.raw_D h; have := cs.raw_le; omega
      · intro a b; rw [cs.hand_eq, fs.hand_eq]; have := fs.raw_mono a b; have := cs.raw_le; omega
      · intro e' d' h; subst h
        obtain ⟨_, h2, _⟩ := cs.again e' d' rfl
        exact Or.inr ⟨h2, by rw [cs.hand_eq, fs.hand_eq]⟩
      · intro h; subst h; exact absurd rfl cs.no_retry
      · intro _ _; rw [cs.hand_eq, fs.hand_eq]
      · intro h; subst h; exact cs.no_panic rfl
      · intro h; subst h; exact cs.no_stuck rfl
    | record typ data =>
      simp only
      obtain ⟨r1, r2, r3, r4, r5⟩ := cs.record typ data rfl
      have ds := dispatch_spec L lib s2 e dlv typ data
      generalize dispatch L lib s2 e dlv typ data = d at *
      obtain ⟨s3, p⟩ := d
      simp only at ds ⊢
      have raw3 : s3.raw.length ≤ s2.raw.length := by
        rcases ds.raw_cases with h | h <;> simp [h]
      have mu3 : s3.mu ≤ s2.mu := by simp only [StD.mu, ds.dgrams_eq]; omega
      have mu21 : s2.mu + L.hdr ≤ s1.mu := by simp only [StD.mu, cs.dgrams_eq]; omega
      have hand2 : s2.hand = s.hand := by rw [cs.hand_eq, fs.hand_eq]
      have hh : s3.hand.length ≤ s.hand.length + data.length := by
        rcases ds.hand_cases with ⟨h, _⟩ | ⟨h, _, _⟩
        · rw [h, hand2]; omega
        · rw [h, hand2, List.length_append]; omega
      refine ⟨by have := fs.mu_le; omega, fun _ => by have := fs.mu_le; omega, fun _ => Or.inl (by have := fs.mu_le; omega),
        by rw [ds.complete_eq, cs.complete_eq, fs.complete_eq], by rw [ds.pending_eq, cs.pending_eq, fs.pending_eq], ?_, ?_, ?_, ?_, ?_, ?_, ds.no_panic, ds.no_stuck⟩
      · intro h; have := fs.raw_D h; have := cs.raw_le; omega
      · intro h; have := fs.raw_D h; omega
      · intro a b; have := fs.raw_mono a b; omega
      · intro e' d' h
        rcases ds.hand_cases with ⟨h1, h2⟩ | ⟨_, _, h3⟩
        · rcases h2 e' d' h with h2 | h2
          · exact Or.inr ⟨h2, by rw [h1, hand2]⟩
          · exact Or.inl h2
        · rcases h3 with h3 | ⟨e'', h3⟩
          · rw [h] at h3; cases h3
          · rw [h] at h3; injection h3 with _ h3; exact Or.inl h3
      · intro h
        obtain ⟨a, _, c⟩ := ds.retry_keeps h
        exact ⟨by rw [a, hand2], c⟩
      · intro hc hr
        rcases ds.hand_cases with ⟨h1, _⟩ | ⟨_, h2, _⟩
        · rw [h1, hand2]
        · exact absurd ⟨by rw [cs.complete_eq, fs.complete_eq]; exact hc, hr⟩ h2

/-- the effect of the loop of readRecordOrCCS (with its retries) -/
structure LoopSpec (L : LimitsD) (s : StD) (dlv : Bool) (s' : StD) (r : Outcome Unit) : Prop where
  mu_le : s'.mu ≤ s.mu
  ok_progress : r = .ok () → s'.mu < s.mu ∨ dlv = true
  complete_eq : s'.complete = s.complete
  pending_eq : s'.pending = s.pending
  raw_D : s.raw.length ≤ L.maxCiphertext + L.hdr → s'.raw.length ≤ L.maxCiphertext + L.hdr
  phi_D : L.deliveredGuard = true → s.raw.length ≤ L.maxCiphertext + L.hdr →
    s'.hand.length + s'.raw.length ≤ s.hand.length + (L.maxCiphertext + L.hdr)
  phi_mono : dlv = true → L.deliveredGuard = true → s'.hand.length + s'.raw.length ≤ s.hand.length + s.raw.length
  frozen : s.complete = true → L.refusePostHs = true → s'.hand = s.hand
  no_panic : r ≠ .panic
  no_stuck : r ≠ .err .stuck

theorem readLoop_spec (L : LimitsD) (lib : LibD) (h13 : 13 ≤ L.hdr) (hdec : DecLen lib) (s : StD) (e dlv : Bool) :
    LoopSpec L s dlv (readLoop L lib s e dlv).1 (readLoop L lib s e dlv).2 := by
  induction s, e, dlv using readLoop.induct L lib with
  | case1 s e dlv s1 r hi =>
    have sp := iter_spec L lib h13 hdec s e dlv
    rw [hi] at sp
    unfold readLoop
    simp only [hi]
    have a1 : s1.mu ≤ s.mu := sp.mu_le
    have a2 : PassD.done r = .done (.ok ()) → s1.mu < s.mu ∨ dlv = true := sp.ok_progress
    have a3 : s1.complete = s.complete := sp.complete_eq
    have a4 : s1.pending = s.pending := sp.pending_eq
    have a5 : s.raw.length ≤ L.maxCiphertext + L.hdr → s1.raw.length ≤ L.maxCiphertext + L.hdr := sp.raw_D
    have a6 : s.raw.length ≤ L.maxCiphertext + L.hdr → s1.hand.length + s1.raw.length ≤ s.hand.length + (L.maxCiphertext + L.hdr) := sp.phi_D
    have a7 : dlv = true → L.deliveredGuard = true → s1.hand.length + s1.raw.length ≤ s.hand.length + s.raw.length := sp.phi_mono
    have a8 : s.complete = true → L.refusePostHs = true → s1.hand = s.hand := sp.frozen
    exact ⟨a1, fun h => a2 (by rw [h]), a3, a4, a5, fun _ => a6, a7, a8, fun h => sp.no_panic (by rw [h]), fun h => sp.no_stuck (by rw [h])⟩
  | case2 s e dlv s1 e' d hi hlt ih =>
    have sp := iter_spec L lib h13 hdec s e dlv
    rw [hi] at sp
    unfold readLoop
    simp only [hi, hlt, ↓reduceDIte]
    have a3 : s1.complete = s.complete := sp.complete_eq
    have a4 : s1.pending = s.pending := sp.pending_eq
    have a5 : s.raw.length ≤ L.maxCiphertext + L.hdr → s1.raw.length ≤ L.maxCiphertext + L.hdr := sp.raw_D
    have a6 : s.raw.length ≤ L.maxCiphertext + L.hdr → s1.hand.length + s1.raw.length ≤ s.hand.length + (L.maxCiphertext + L.hdr) := sp.phi_D
    have a7 : dlv = true → L.deliveredGuard = true → s1.hand.length + s1.raw.length ≤ s.hand.length + s.raw.length := sp.phi_mono
    have a8 : s.complete = true → L.refusePostHs = true → s1.hand = s.hand := sp.frozen
    have a9 : d = true ∨ (d = dlv ∧ s1.hand = s.hand) := sp.flag_hand e' d rfl
    refine ⟨by have := ih.mu_le; omega, fun _ => Or.inl (by have := ih.mu_le; omega), by rw [ih.complete_eq, a3], by rw [ih.pending_eq, a4],
      fun h => ih.raw_D (a5 h), ?_, ?_, fun hc hr => by rw [ih.frozen (by rw [a3]; exact hc) hr]; exact a8 hc hr, ih.no_panic, ih.no_stuck⟩
    · intro hg hD
      rcases a9 with hd | ⟨hd, hh⟩
      · have := ih.phi_mono hd hg
        have := a6 hD
        omega
      · have := ih.phi_D hg (a5 hD)
        rw [hh] at this
        exact this
    · intro hd hg
      have h1 := a7 hd hg
      have hd' : d = true := by rcases a9 with h | ⟨h, _⟩; exact h; rw [h]; exact hd
      have := ih.phi_mono hd' hg
      omega
  | case3 s e dlv s1 e' d hi hnlt =>
    exfalso
    have sp := iter_spec L lib h13 hdec s e dlv
    rw [hi] at sp
    have : s1.mu < s.mu := sp.progress (Or.inl ⟨e', d, rfl⟩)
    exact hnlt this
  | case4 s e dlv s1 hi s2 hgt =>
    have sp := iter_spec L lib h13 hdec s e dlv
    rw [hi] at sp
    unfold readLoop
    simp only [hi]
    simp only [s2] at hgt
    simp only [hgt, ↓reduceIte, setErr]
    have a1 : s1.mu ≤ s.mu := sp.mu_le
    have a3 : s1.complete = s.complete := sp.complete_eq
    have a4 : s1.pending = s.pending := sp.pending_eq
    have a5 : s.raw.length ≤ L.maxCiphertext + L.hdr → s1.raw.length ≤ L.maxCiphertext + L.hdr := sp.raw_D
    have a6 : s.raw.length ≤ L.maxCiphertext + L.hdr → s1.hand.length + s1.raw.length ≤ s.hand.length + (L.maxCiphertext + L.hdr) := sp.phi_D
    have a7 : dlv = true → L.deliveredGuard = true → s1.hand.length + s1.raw.length ≤ s.hand.length + s.raw.length := sp.phi_mono
    have a8 : s.complete = true → L.refusePostHs = true → s1.hand = s.hand := sp.frozen
    exact ⟨a1, by simp, a3, a4, a5, fun _ => a6, a7, a8, by simp, by simp⟩
  | case5 s e dlv s1 hi s2 hle hlt ih =>
    have sp := iter_spec L lib h13 hdec s e dlv
    rw [hi] at sp
    unfold readLoop
    simp only [hi]
    simp only [s2] at hle hlt ih
    simp only [hle, ↓reduceIte, hlt, ↓reduceDIte]
    have a3 : s1.complete = s.complete := sp.complete_eq
    have a4 : s1.pending = s.pending := sp.pending_eq
    have a5 : s.raw.length ≤ L.maxCiphertext + L.hdr → s1.raw.length ≤ L.maxCiphertext + L.hdr := sp.raw_D
    have a6 : s.raw.length ≤ L.maxCiphertext + L.hdr → s1.hand.length + s1.raw.length ≤ s.hand.length + (L.maxCiphertext + L.hdr) := sp.phi_D
    have a7 : dlv = true → L.deliveredGuard = true → s1.hand.length + s1.raw.length ≤ s.hand.length + s.raw.length := sp.phi_mono
    have a8 : s.complete = true → L.refusePostHs = true → s1.hand = s.hand := sp.frozen
    have a9 : s1.hand = s.hand := (sp.retry_hand rfl).1
    have a10 : ¬(dlv = true ∧ L.deliveredGuard = true) := (sp.retry_hand rfl).2
    refine ⟨by have := ih.mu_le; omega, fun _ => Or.inl (by have := ih.mu_le; omega), by rw [ih.complete_eq]; exact a3, by rw [ih.pending_eq]; exact a4,
      fun h => ih.raw_D (a5 h), ?_, ?_, fun hc hr => by rw [ih.frozen (by show s1.complete = true; rw [a3]; exact hc) hr]; exact a9, ih.no_panic, ih.no_stuck⟩
    · intro hg hD
      have h := ih.phi_D hg (a5 hD)
      have hh : ({ s1 with retry := s1.retry + 1 } : StD).hand.length = s.hand.length := by
        show s1.hand.length = _; rw [a9]
      omega
    · intro hd hg
      exact absurd ⟨hd, hg⟩ a10
  | case6 s e dlv s1 hi s2 hle hnlt =>
    exfalso
    have sp := iter_spec L lib h13 hdec s e dlv
    rw [hi] at sp
    have : s1.mu < s.mu := sp.progress (Or.inr rfl)
    simp only [s2] at hnlt
    exact hnlt this

/-- `readRecord` = the entry checks + the loop started with `delivered = false` -/
theorem readRecord_spec (L : LimitsD) (lib : LibD) (h13 : 13 ≤ L.hdr) (hdec : DecLen lib) (s : StD) (e : Bool) :
    LoopSpec L s false (readRecord L lib s e).1 (readRecord L lib s e).2 := by
  unfold readRecord
  split
  · exact ⟨Nat.le_refl _, by simp, rfl, rfl, fun h => h, fun _ h => by show s.hand.length + s.raw.length ≤ _; omega, by simp, fun _ _ => rfl, by simp, by simp⟩
  split
  · exact ⟨Nat.le_refl _, by simp, rfl, rfl, fun h => h, fun _ h => by show s.hand.length + s.raw.length ≤ _; omega, by simp, fun _ _ => rfl, by simp, by simp⟩
  exact readLoop_spec L lib h13 hdec s e false

/-! ### the loops of readHandshake -/

structure UntilSpecD (L : LimitsD) (s : StD) (need : Nat) (s' : StD) (r : Outcome Unit) : Prop where
  mu_le : s'.mu ≤ s.mu
  enough : r = .ok () → need ≤ s'.hand.length
  progress : s.hand.length < need → r = .ok () → s'.mu < s.mu
  hand_le : ∀ B, L.deliveredGuard = true → s.raw.length ≤ L.maxCiphertext + L.hdr → s.hand.length ≤ B →
    need + (L.maxCiphertext + L.hdr) ≤ B + 1 → s'.hand.length ≤ B
  hand_frozen : s.complete = true → L.refusePostHs = true → s'.hand = s.hand
  complete_eq : s'.complete = s.complete
  pending_eq : s'.pending = s.pending
  raw_D : s.raw.length ≤ L.maxCiphertext + L.hdr → s'.raw.length ≤ L.maxCiphertext + L.hdr
  no_panic : r ≠ .panic
  no_stuck : r ≠ .err .stuck

theorem readUntil_spec (L : LimitsD) (lib : LibD) (need : Nat) (h13 : 13 ≤ L.hdr) (hdec : DecLen lib) (s : StD) :
    UntilSpecD L s need (readUntil L lib s need).1 (readUntil L lib s need).2 := by
  induction s using readUntil.induct L lib need with
  | case1 s h =>
    unfold readUntil
    simp only [h, ↓reduceIte]
    exact ⟨Nat.le_refl _, fun _ => h, fun hl _ => absurd h (by omega), fun B _ _ hb _ => hb, fun _ _ => rfl, rfl, rfl, fun h => h, by simp, by simp⟩
  | case2 s h s1 hr hlt ih =>
    have rs := readRecord_spec L lib h13 hdec s false
    rw [hr] at rs
    have b1 : s1.complete = s.complete := rs.complete_eq
    have b2 : s1.pending = s.pending := rs.pending_eq
    have b3 : s.raw.length ≤ L.maxCiphertext + L.hdr → s1.raw.length ≤ L.maxCiphertext + L.hdr := rs.raw_D
    have b4 : L.deliveredGuard = true → s.raw.length ≤ L.maxCiphertext + L.hdr →
      s1.hand.length + s1.raw.length ≤ s.hand.length + (L.maxCiphertext + L.hdr) := rs.phi_D
    have b5 : s.complete = true → L.refusePostHs = true → s1.hand = s.hand := rs.frozen
    unfold readUntil
    simp only [h, ↓reduceIte, hr, hlt, ↓reduceDIte]
    refine ⟨by have := ih.mu_le; omega, ih.enough, fun _ _ => by have := ih.mu_le; omega, ?_, ?_, by rw [ih.complete_eq, b1], by rw [ih.pending_eq, b2], fun h => ih.raw_D (b3 h), ih.no_panic, ih.no_stuck⟩
    · intro B hg hD hb hn
      apply ih.hand_le B hg (b3 hD) _ hn
      have := b4 hg hD
      omega
    · intro hc hrf
      rw [ih.hand_frozen (by rw [b1]; exact hc) hrf]; exact b5 hc hrf
  | case3 s h s1 hr hnlt =>
    exfalso
    have rs := readRecord_spec L lib h13 hdec s false
    rw [hr] at rs
    have : s1.mu < s.mu ∨ false = true := rs.ok_progress rfl
    rcases this with h | h
    · exact hnlt h
    · cases h
  | case4 s h s1 r hne hr =>
    have rs := readRecord_spec L lib h13 hdec s false
    rw [hr] at rs
    have b0 : s1.mu ≤ s.mu := rs.mu_le
    have b1 : s1.complete = s.complete := rs.complete_eq
    have b2 : s1.pending = s.pending := rs.pending_eq
    have b3 : s.raw.length ≤ L.maxCiphertext + L.hdr → s1.raw.length ≤ L.maxCiphertext + L.hdr := rs.raw_D
    have b4 : L.deliveredGuard = true → s.raw.length ≤ L.maxCiphertext + L.hdr →
      s1.hand.length + s1.raw.length ≤ s.hand.length + (L.maxCiphertext + L.hdr) := rs.phi_D
    have b5 : s.complete = true → L.refusePostHs = true → s1.hand = s.hand := rs.frozen
    have np : r ≠ .panic := rs.no_panic
    have ns : r ≠ .err .stuck := rs.no_stuck
    unfold readUntil
    simp only [h, ↓reduceIte, hr]
    cases r with
    | ok u => exact absurd rfl hne
    | panic => exact absurd rfl np
    | err w =>
      refine ⟨b0, by simp, by simp, ?_, b5, b1, b2, b3, by simp, ns⟩
      intro B hg hD hb hn
      have := b4 hg hD
      omega

theorem frameD_frag (mh hh : Nat) (h12 : 12 ≤ hh) (hand : Bytes) (f : FragD) (h : frameD mh hh hand = .ok (.frag f)) :
    f.bodyLen ≤ mh ∧ f.fragOff + f.fragLen ≤ f.bodyLen ∧ f.rest.length ≤ hand.length := by
  unfold frameD at h
  split at h
  · simp at h
  rename_i hl
  rw [idx_lt (by omega), bind_ok, idx_lt (by omega), bind_ok, idx_lt (by omega), bind_ok,
    idx_lt (by omega), bind_ok, idx_lt (by omega), bind_ok, idx_lt (by omega), bind_ok,
    idx_lt (by omega), bind_ok, idx_lt (by omega), bind_ok, idx_lt (by omega), bind_ok] at h
  simp only at h
  split at h
  · simp at h
  split at h
  · simp at h
  split at h
  · simp at h
  rename_i h1 h2 h3
  rw [sliceTo_le (by omega), bind_ok, sliceFrom_le (by omega), bind_ok] at h
  have e : ∀ i, i < 12 → i < (List.take (hh + be24 hand[9] hand[10] hand[11]) hand).length := by
    intro i hi; simp only [List.length_take]; omega
  rw [idx_lt (e 0 (by omega)), bind_ok, idx_lt (e 4 (by omega)), bind_ok, idx_lt (e 5 (by omega)), bind_ok,
    sliceFrom_le (by simp only [List.length_take]; omega), bind_ok] at h
  simp only [pure_eq, Outcome.ok.injEq, FrameD.frag.injEq] at h
  subst h
  simp only [List.length_drop]
  omega

theorem frameD_need (mh hh : Nat) (h12 : 12 ≤ hh) (hand : Bytes) (fr : FrameD) (h : frameD mh hh hand = .ok fr)
    (hl : hh ≤ hand.length) : fragLenOf hand ≤ mh := by
  match hand, hl with
  | a0 :: a1 :: a2 :: a3 :: a4 :: a5 :: a6 :: a7 :: a8 :: a9 :: a10 :: a11 :: tl, hl =>
    unfold frameD at h
    rw [if_neg (by omega)] at h
    simp only [idx, List.length_cons, show ∀ n : Nat, 1 < n + 1 + 1 + 1 + 1 + 1 + 1 + 1 + 1 + 1 + 1 + 1 + 1 by omega,
      show ∀ n : Nat, 2 < n + 1 + 1 + 1 + 1 + 1 + 1 + 1 + 1 + 1 + 1 + 1 + 1 by omega,
      show ∀ n : Nat, 3 < n + 1 + 1 + 1 + 1 + 1 + 1 + 1 + 1 + 1 + 1 + 1 + 1 by omega,
      show ∀ n : Nat, 6 < n + 1 + 1 + 1 + 1 + 1 + 1 + 1 + 1 + 1 + 1 + 1 + 1 by omega,
      show ∀ n : Nat, 7 < n + 1 + 1 + 1 + 1 + 1 + 1 + 1 + 1 + 1 + 1 + 1 + 1 by omega,
      show ∀ n : Nat, 8 < n + 1 + 1 + 1 + 1 + 1 + 1 + 1 + 1 + 1 + 1 + 1 + 1 by omega,
      show ∀ n : Nat, 9 < n + 1 + 1 + 1 + 1 + 1 + 1 + 1 + 1 + 1 + 1 + 1 + 1 by omega,
      show ∀ n : Nat, 10 < n + 1 + 1 + 1 + 1 + 1 + 1 + 1 + 1 + 1 + 1 + 1 + 1 by omega,
      show ∀ n : Nat, 11 < n + 1 + 1 + 1 + 1 + 1 + 1 + 1 + 1 + 1 + 1 + 1 + 1 by omega,
      ↓reduceDIte, bind_ok, List.getElem_cons_succ, List.getElem_cons_zero] at h
    unfold fragLenOf
    simp only
    split at h
    · simp at h
    split at h
    · simp at h
    omega
  | [], hl => simp at hl; omega
  | [_], hl => simp at hl; omega
  | [_, _], hl => simp at hl; omega
  | [_, _, _], hl => simp at hl; omega
  | [_, _, _, _], hl => simp at hl; omega
  | [_, _, _, _, _], hl => simp at hl; omega
  | [_, _, _, _, _, _], hl => simp at hl; omega
  | [_, _, _, _, _, _, _], hl => simp at hl; omega
  | [_, _, _, _, _, _, _, _], hl => simp at hl; omega
  | [_, _, _, _, _, _, _, _, _], hl => simp at hl; omega
  | [_, _, _, _, _, _, _, _, _, _], hl => simp at hl; omega
  | [_, _, _, _, _, _, _, _, _, _, _], hl => simp at hl; omega

/-! ### reassembly buffers -/

theorem lookup_mem {p : List PBuf} {seq : Nat} {fb : PBuf} (h : lookup p seq = some fb) : fb ∈ p ∧ fb.seq = seq := by
  unfold lookup at h
  exact ⟨List.mem_of_find?_eq_some h, by simpa using List.find?_some h⟩

theorem filter_ne_length_lt (seq : Nat) (t : List PBuf) (h : ∃ fb ∈ t, fb.seq = seq) :
    (t.filter (fun b => b.seq != seq)).length + 1 ≤ t.length := by
  induction t with
  | nil => obtain ⟨fb, hm, _⟩ := h; cases hm
  | cons a u ih =>
    simp only [List.filter_cons]
    by_cases ha : a.seq = seq
    · simp only [ha, bne_self_eq_false, Bool.false_eq_true, ↓reduceIte, List.length_cons]
      have := List.length_filter_le (fun b : PBuf => b.seq != seq) u
      omega
    · have hne : (a.seq != seq) = true := by simpa using ha
      simp only [hne, ↓reduceIte, List.length_cons]
      obtain ⟨fb, hm, hs⟩ := h
      rcases List.mem_cons.mp hm with h1 | h1
      · exact absurd (h1 ▸ hs) ha
      · have := ih ⟨fb, h1, hs⟩
        omega

theorem erase_length_lt {p : List PBuf} {seq : Nat} {fb : PBuf} (h : lookup p seq = some fb) :
    (erase p seq).length + 1 ≤ p.length := by
  obtain ⟨hm, hs⟩ := lookup_mem h
  exact filter_ne_length_lt seq p ⟨fb, hm, hs⟩

theorem add_n (b : PBuf) (off len : Nat) : (b.add off len).n = b.n := by
  unfold PBuf.add; split <;> rfl

theorem new_n (seq total M : Nat) (h : total ≤ M) (h1 : 1 ≤ M) : (PBuf.new seq total).n ≤ M := by
  unfold PBuf.new; simp only; split <;> omega


/-- every reassembly buffer holds a message of at most `M` bytes -/
def PendOk (M : Nat) (p : List PBuf) : Prop := ∀ b ∈ p, b.n ≤ M

/-- the effect of one iteration of the loop of readHandshake -/
structure FragSpec (L : LimitsD) (lib : LibD) (s : StD) (s' : StD) : Prop where
  mu_le : s'.mu ≤ s.mu
  complete_eq : s'.complete = s.complete
  raw_D : s.raw.length ≤ L.maxCiphertext + L.hdr → s'.raw.length ≤ L.maxCiphertext + L.hdr
  hand_le : ∀ B, L.deliveredGuard = true → s.raw.length ≤ L.maxCiphertext + L.hdr → s.hand.length ≤ B →
    L.hsHdr + L.maxHandshake + (L.maxCiphertext + L.hdr) ≤ B + 1 → s'.hand.length ≤ B
  hand_frozen : s.complete = true → L.refusePostHs = true → s'.hand.length ≤ s.hand.length
  pend_len : s'.pending.length ≤ s.pending.length + 1
  pend_ok : ∀ M, L.maxHandshake ≤ M → 1 ≤ M → PendOk M s.pending → PendOk M s'.pending
  mu_lt : s.hand.length < L.hsHdr → (readUntil L lib s L.hsHdr).2 = .ok () → s'.mu < s.mu

theorem pendOk_filter {M : Nat} {p : List PBuf} (f : PBuf → Bool) (h : PendOk M p) : PendOk M (p.filter f) :=
  fun b hb => h b (List.mem_filter.mp hb).1

theorem fragStep_spec (L : LimitsD) (lib : LibD) (h13 : 13 ≤ L.hdr) (h12 : 12 ≤ L.hsHdr) (hdec : DecLen lib) (s : StD) :
    FragSpec L lib s (fragStep L lib s).1 ∧
    (∀ r, (fragStep L lib s).2 = .done r → r ≠ .panic ∧ r ≠ .err .stuck) := by
  unfold fragStep
  have u1 := readUntil_spec L lib L.hsHdr h13 hdec s
  generalize hq : readUntil L lib s L.hsHdr = q1 at *
  obtain ⟨s1, r1⟩ := q1
  simp only at u1 ⊢
  -- a state reached from s1 without touching more than hand (shrinking), pending and inErr
  have base1 : ∀ x : StD, x.mu = s1.mu → x.complete = s1.complete → x.raw = s1.raw → x.hand.length ≤ s1.hand.length →
      x.pending = s1.pending → FragSpec L lib s x := by
    intro x hm hc hr hh hp
    refine ⟨by rw [hm]; exact u1.mu_le, by rw [hc, u1.complete_eq], fun h => by rw [hr]; exact u1.raw_D h, ?_, ?_, by rw [hp, u1.pending_eq]; omega, ?_, ?_⟩
    · intro B hg hD hb hB
      have := u1.hand_le B hg hD hb (by omega)
      omega
    · intro hcp hrf
      rw [u1.hand_frozen hcp hrf] at hh; exact hh
    · intro M _ _ hp0; rw [hp, u1.pending_eq]; exact hp0
    · intro hl hr1; rw [hq] at hr1; rw [hm]; exact u1.progress hl hr1
  cases r1 with
  | err e => exact ⟨base1 s1 rfl rfl rfl (Nat.le_refl _) rfl, by intro r h; injection h with h; subst h; exact ⟨by simp, by intro h; injection h with h; exact u1.no_stuck (by rw [h])⟩⟩
  | panic => exact absurd rfl u1.no_panic
  | ok u =>
    have hl1 : L.hsHdr ≤ s1.hand.length := u1.enough rfl
    simp only
    cases hf1 : frameD L.maxHandshake L.hsHdr s1.hand with
    | panic => exact absurd hf1 (frameD_no_panic _ _ h12 _)
    | err e =>
      simp only [setErr]
      refine ⟨base1 _ rfl rfl rfl (Nat.le_refl _) rfl, ?_⟩
      intro r h; injection h with h; subst h
      refine ⟨by simp, ?_⟩
      intro h; injection h with h; subst h
      unfold frameD at hf1
      revert hf1
      orun
    | ok fr1 =>
      have hneed := frameD_need L.maxHandshake L.hsHdr h12 s1.hand fr1 hf1 hl1
      simp only
      have u2 := readUntil_spec L lib (L.hsHdr + fragLenOf s1.hand) h13 hdec s1
      generalize readUntil L lib s1 (L.hsHdr + fragLenOf s1.hand) = q2 at *
      obtain ⟨s2, r2⟩ := q2
      simp only at u2 ⊢
      -- a state reached from s2 the same way, with a pending list `pp`
      have base2 : ∀ (x : StD) (pp : List PBuf), x.mu = s2.mu → x.complete = s2.complete → x.raw = s2.raw →
          x.hand.length ≤ s2.hand.length → x.pending = pp → pp.length ≤ s2.pending.length + 1 →
          (∀ M, L.maxHandshake ≤ M → 1 ≤ M → PendOk M s2.pending → PendOk M pp) → FragSpec L lib s x := by
        intro x pp hm hc hr hh hp hpl hpo
        refine ⟨by rw [hm]; have := u2.mu_le; have := u1.mu_le; omega, by rw [hc, u2.complete_eq, u1.complete_eq],
          fun h => by rw [hr]; exact u2.raw_D (u1.raw_D h), ?_, ?_, ?_, ?_, ?_⟩
        · intro B hg hD hb hB
          have a := u1.hand_le B hg hD hb (by omega)
          have := u2.hand_le B hg (u1.raw_D hD) a (by omega)
          omega
        · intro hcp hrf
          have e1 := u1.hand_frozen hcp hrf
          have e2 := u2.hand_frozen (by rw [u1.complete_eq]; exact hcp) hrf
          rw [e2, e1] at hh; exact hh
        · rw [hp]; rw [u2.pending_eq, u1.pending_eq] at hpl; exact hpl
        · intro M h1 h2 hp0
          rw [hp]; exact hpo M h1 h2 (by rw [u2.pending_eq, u1.pending_eq]; exact hp0)
        · intro hl hr1; rw [hq] at hr1; rw [hm]; have := u1.progress hl hr1; have := u2.mu_le; omega
      have same2 : ∀ x : StD, x.mu = s2.mu → x.complete = s2.complete → x.raw = s2.raw →
          x.hand.length ≤ s2.hand.length → x.pending = s2.pending → FragSpec L lib s x :=
        fun x hm hc hr hh hp => base2 x s2.pending hm hc hr hh hp (by omega) (fun _ _ _ h => h)
      cases r2 with
      | err e => exact ⟨same2 s2 rfl rfl rfl (Nat.le_refl _) rfl, by intro r h; injection h with h; subst h; exact ⟨by simp, by intro h; injection h with h; exact u2.no_stuck (by rw [h])⟩⟩
      | panic => exact absurd rfl u2.no_panic
      | ok u' =>
        simp only
        cases hf2 : frameD L.maxHandshake L.hsHdr s2.hand with
        | panic => exact absurd hf2 (frameD_no_panic _ _ h12 _)
        | err e =>
          simp only [setErr]
          refine ⟨same2 _ rfl rfl rfl (Nat.le_refl _) rfl, ?_⟩
          intro r h; injection h with h; subst h
          refine ⟨by simp, ?_⟩
          intro h; injection h with h; subst h
          unfold frameD at hf2
          revert hf2
          orun
        | ok fr2 =>
          cases fr2 with
          | needMore => exact ⟨same2 s2 rfl rfl rfl (Nat.le_refl _) rfl, by intro r h; injection h with h; subst h; simp⟩
          | frag f =>
            obtain ⟨fb1, fb2, fb3⟩ := frameD_frag L.maxHandshake L.hsHdr h12 s2.hand f hf2
            simp only [setErr]
            -- the three exits of `finish` on a state x with pending list pp
            have fin : ∀ (x : StD) (pp : List PBuf) (len : Nat), x.mu = s2.mu → x.complete = s2.complete → x.raw = s2.raw →
                x.hand.length ≤ s2.hand.length → x.pending = pp → pp.length ≤ s2.pending.length + 1 →
                (∀ M, L.maxHandshake ≤ M → 1 ≤ M → PendOk M s2.pending → PendOk M pp) →
                FragSpec L lib s
                  (if (!knownTypeD f.typ) = true then ({ x with inErr := true }, FragPass.done (.err .unexpected))
                   else if (!lib.unmarshalOk f.body) = true then ({ x with inErr := true }, .done (.err .unexpected))
                   else (x, .done (.ok (f.typ, len)))).1 ∧
                (∀ r, (if (!knownTypeD f.typ) = true then ({ x with inErr := true }, FragPass.done (.err .unexpected))
                   else if (!lib.unmarshalOk f.body) = true then ({ x with inErr := true }, .done (.err .unexpected))
                   else (x, .done (.ok (f.typ, len)))).2 = .done r → r ≠ .panic ∧ r ≠ .err .stuck) := by
              intro x pp len hm hc hr hh hp hpl hpo
              split
              · exact ⟨base2 _ pp hm hc hr hh hp hpl hpo, by intro r h; injection h with h; subst h; simp⟩
              split
              · exact ⟨base2 _ pp hm hc hr hh hp hpl hpo, by intro r h; injection h with h; subst h; simp⟩
              · exact ⟨base2 _ pp hm hc hr hh hp hpl hpo, by intro r h; injection h with h; subst h; simp⟩
            have hfl : (List.filter (fun b => !lib.stale b.seq) s2.pending).length ≤ s2.pending.length :=
              List.length_filter_le _ _
            split
            · -- fragmented
              cases hlk : lookup (List.filter (fun b => !lib.stale b.seq) s2.pending) f.msgSeq with
              | some fb =>
                obtain ⟨hmem, _⟩ := lookup_mem hlk
                have hel := erase_length_lt hlk
                simp only
                split
                · exact ⟨base2 { s2 with hand := f.rest, pending := (List.filter (fun b => !lib.stale b.seq) s2.pending), inErr := true } (List.filter (fun b => !lib.stale b.seq) s2.pending) rfl rfl rfl fb3 rfl (by omega) (fun M _ _ h => pendOk_filter _ h), by intro r h; injection h with h; subst h; simp⟩
                split
                · refine ⟨base2 { s2 with hand := f.rest, pending := fb.add f.fragOff f.fragLen :: erase (List.filter (fun b => !lib.stale b.seq) s2.pending) f.msgSeq } _ rfl rfl rfl fb3 rfl (by simp only [List.length_cons]; omega) ?_, by intro r h; cases h⟩
                  intro M hM h1 hp0 b hb
                  rcases List.mem_cons.mp hb with rfl | hb
                  · rw [add_n]; exact pendOk_filter _ hp0 _ hmem
                  · unfold erase at hb; exact pendOk_filter _ (pendOk_filter _ hp0) _ hb
                · apply fin { s2 with hand := f.rest, pending := erase (List.filter (fun b => !lib.stale b.seq) s2.pending) f.msgSeq } (erase (List.filter (fun b => !lib.stale b.seq) s2.pending) f.msgSeq) _ rfl rfl rfl fb3 rfl
                  · unfold erase; have := List.length_filter_le (fun b : PBuf => b.seq != f.msgSeq) (List.filter (fun b => !lib.stale b.seq) s2.pending); omega
                  · intro M _ _ hp0; unfold erase; exact pendOk_filter _ (pendOk_filter _ hp0)
              | none =>
                simp only
                split
                · refine ⟨base2 { s2 with hand := f.rest, pending := (PBuf.new f.msgSeq f.bodyLen).add f.fragOff f.fragLen :: (List.filter (fun b => !lib.stale b.seq) s2.pending) } _ rfl rfl rfl fb3 rfl (by simp only [List.length_cons]; omega) ?_, by intro r h; cases h⟩
                  intro M hM h1 hp0 b hb
                  rcases List.mem_cons.mp hb with rfl | hb
                  · rw [add_n]; exact new_n _ _ _ (by omega) h1
                  · exact pendOk_filter _ hp0 _ hb
                · apply fin { s2 with hand := f.rest, pending := (List.filter (fun b => !lib.stale b.seq) s2.pending) } (List.filter (fun b => !lib.stale b.seq) s2.pending) _ rfl rfl rfl fb3 rfl
                  · omega
                  · intro M _ _ hp0; exact pendOk_filter _ hp0
            · exact fin { s2 with hand := f.rest } s2.pending _ rfl rfl rfl fb3 rfl (by omega) (fun _ _ _ h => h)

/-- the effect of `readHandshake` started with `reads0` fragment reads already spent -/
structure HsSpecD (L : LimitsD) (lib : LibD) (s : StD) (reads0 : Nat) (s' : StD) (r : Outcome (UInt8 × Nat)) : Prop where
  mu_le : s'.mu ≤ s.mu
  complete_eq : s'.complete = s.complete
  raw_D : s.raw.length ≤ L.maxCiphertext + L.hdr → s'.raw.length ≤ L.maxCiphertext + L.hdr
  hand_le : ∀ B, L.deliveredGuard = true → s.raw.length ≤ L.maxCiphertext + L.hdr → s.hand.length ≤ B →
    L.hsHdr + L.maxHandshake + (L.maxCiphertext + L.hdr) ≤ B + 1 → s'.hand.length ≤ B
  hand_frozen : s.complete = true → L.refusePostHs = true → s'.hand.length ≤ s.hand.length
  pend_len : s'.pending.length + reads0 ≤ s.pending.length + L.maxFragments ∨ s'.pending.length ≤ s.pending.length
  pend_ok : ∀ M, L.maxHandshake ≤ M → 1 ≤ M → PendOk M s.pending → PendOk M s'.pending
  no_panic : r ≠ .panic
  no_stuck : r ≠ .err .stuck

theorem fragLoop_spec (L : LimitsD) (lib : LibD) (h13 : 13 ≤ L.hdr) (h12 : 12 ≤ L.hsHdr) (hdec : DecLen lib)
    (s : StD) (reads0 : Nat) :
    HsSpecD L lib s reads0 (fragLoop L lib s reads0).1 (fragLoop L lib s reads0).2 := by
  induction s, reads0 using fragLoop.induct L lib with
  | case1 s reads0 reads hgt =>
    unfold fragLoop
    simp only [reads] at hgt
    simp only [hgt, ↓reduceIte, setErr]
    exact ⟨Nat.le_refl _, rfl, fun h => h, fun B _ _ hb _ => hb, fun _ _ => Nat.le_refl _, Or.inr (Nat.le_refl _), fun _ _ _ h => h, by simp, by simp⟩
  | case2 s reads0 reads hle s1 r hst =>
    have fs := fragStep_spec L lib h13 h12 hdec s
    rw [hst] at fs
    obtain ⟨f1, f2⟩ := fs
    obtain ⟨n1, n2⟩ := f2 r rfl
    unfold fragLoop
    simp only [reads] at hle
    simp only [hle, ↓reduceIte, hst]
    have pl : s1.pending.length ≤ s.pending.length + 1 := f1.pend_len
    exact ⟨f1.mu_le, f1.complete_eq, f1.raw_D, f1.hand_le, f1.hand_frozen, Or.inl (by omega), f1.pend_ok, n1, n2⟩
  | case3 s reads0 reads hle s1 hst hlt ih =>
    have fs := fragStep_spec L lib h13 h12 hdec s
    rw [hst] at fs
    obtain ⟨f1, _⟩ := fs
    unfold fragLoop
    simp only [reads] at hle hlt ih
    simp only [hle, ↓reduceIte, hst, hlt, ↓reduceDIte]
    have pl : s1.pending.length ≤ s.pending.length + 1 := f1.pend_len
    have m1 : s1.mu ≤ s.mu := f1.mu_le
    have c1 : s1.complete = s.complete := f1.complete_eq
    refine ⟨by have := ih.mu_le; omega, by rw [ih.complete_eq, c1], fun h => ih.raw_D (f1.raw_D h), ?_, ?_, ?_, fun M a b h => ih.pend_ok M a b (f1.pend_ok M a b h), ih.no_panic, ih.no_stuck⟩
    · intro B hg hD hb hB
      exact ih.hand_le B hg (f1.raw_D hD) (f1.hand_le B hg hD hb hB) hB
    · intro hc hr
      have a := ih.hand_frozen (by rw [c1]; exact hc) hr
      have b : s1.hand.length ≤ s.hand.length := f1.hand_frozen hc hr
      omega
    · rcases ih.pend_len with h | h
      · left; omega
      · left; omega
  | case4 s reads0 reads hle s1 hst hnlt =>
    exfalso
    simp only [reads] at hle hnlt
    omega

theorem readHandshake_spec (L : LimitsD) (lib : LibD) (h13 : 13 ≤ L.hdr) (h12 : 12 ≤ L.hsHdr) (hdec : DecLen lib) (s : StD) :
    HsSpecD L lib s 0 (readHandshake L lib s).1 (readHandshake L lib s).2 :=
  fragLoop_spec L lib h13 h12 hdec s 0


/-- an iteration that does not end in an error went through its first `readUntil` -/
theorem fragStep_first (L : LimitsD) (lib : LibD) (s : StD)
    (h : (fragStep L lib s).2 = .more ∨ ∃ x, (fragStep L lib s).2 = .done (.ok x)) :
    (readUntil L lib s L.hsHdr).2 = .ok () := by
  unfold fragStep at h
  generalize readUntil L lib s L.hsHdr = q at *
  obtain ⟨s1, r1⟩ := q
  cases r1 with
  | ok u => rfl
  | err e => simp at h
  | panic => simp at h

/-- `readHandshake` that starts without a buffered header and delivers a message consumed input -/
theorem fragLoop_progress (L : LimitsD) (lib : LibD) (h13 : 13 ≤ L.hdr) (h12 : 12 ≤ L.hsHdr) (hdec : DecLen lib)
    (s : StD) (reads0 : Nat) (hl : s.hand.length < L.hsHdr) (x : UInt8 × Nat)
    (hok : (fragLoop L lib s reads0).2 = .ok x) : (fragLoop L lib s reads0).1.mu < s.mu := by
  unfold fragLoop at hok ⊢
  simp only at hok ⊢
  split at hok
  · simp at hok
  rename_i hle
  rw [if_neg hle]
  have fs := (fragStep_spec L lib h13 h12 hdec s).1
  cases hst : fragStep L lib s with
  | mk s1 p =>
    rw [hst] at fs hok
    cases p with
    | done r =>
      simp only at hok ⊢
      subst hok
      have := fragStep_first L lib s (Or.inr ⟨x, by rw [hst]⟩)
      exact fs.mu_lt hl this
    | more =>
      simp only at hok ⊢
      have hfirst := fragStep_first L lib s (Or.inl (by rw [hst]))
      have h1 : s1.mu < s.mu := fs.mu_lt hl hfirst
      split
      · have := (fragLoop_spec L lib h13 h12 hdec s1 (reads0 + 1)).mu_le
        omega
      · rename_i hn; exfalso; omega

theorem cookieLoop_spec (L : LimitsD) (lib : LibD) (h13 : 13 ≤ L.hdr) (h12 : 12 ≤ L.hsHdr) (hdec : DecLen lib)
    (s : StD) (k : Nat) : (cookieLoop L lib s k).2 ≠ .panic ∧ (cookieLoop L lib s k).2 ≠ .err .stuck ∧
      (cookieLoop L lib s k).1.mu ≤ s.mu := by
  induction s, k using cookieLoop.induct L lib with
  | case1 s k h => unfold cookieLoop; simp [h]
  | case2 s k h s0 s1 t n hr hne =>
    unfold cookieLoop
    simp only [h, Bool.false_eq_true, ↓reduceIte]
    simp only [s0] at hr
    simp only [hr, hne, ↓reduceIte]
    have sp := readHandshake_spec L lib h13 h12 hdec { s with hand := [], raw := [] }
    rw [hr] at sp
    have : s1.mu ≤ StD.mu { s with hand := [], raw := [] } := sp.mu_le
    refine ⟨by simp, by simp, ?_⟩
    simp only [StD.mu, List.length_nil] at this ⊢
    omega
  | case3 s k h s0 s1 t n hr hne hlt ih =>
    unfold cookieLoop
    simp only [h, Bool.false_eq_true, ↓reduceIte]
    simp only [s0] at hr
    simp only [hr, hne, Bool.false_eq_true, ↓reduceIte, hlt, ↓reduceDIte]
    exact ⟨ih.1, ih.2.1, by have := ih.2.2; omega⟩
  | case4 s k h s0 s1 t n hr hne hnlt =>
    exfalso
    simp only [s0] at hr
    have hp := fragLoop_progress L lib h13 h12 hdec { s with hand := [], raw := [] } 0 (by simp only [List.length_nil]; omega) (t, n)
      (by show (readHandshake L lib _).2 = _; rw [hr])
    have e : (fragLoop L lib { s with hand := [], raw := [] } 0).1 = s1 := by
      show (readHandshake L lib _).1 = _; rw [hr]
    rw [e] at hp
    simp only [StD.mu, List.length_nil] at hp hnlt
    omega
  | case5 s k h s0 s1 e hr =>
    unfold cookieLoop
    simp only [h, Bool.false_eq_true, ↓reduceIte]
    simp only [s0] at hr
    simp only [hr]
    have sp := readHandshake_spec L lib h13 h12 hdec { s with hand := [], raw := [] }
    rw [hr] at sp
    have : s1.mu ≤ StD.mu { s with hand := [], raw := [] } := sp.mu_le
    have ns : Outcome.err e ≠ Outcome.err Why.stuck := sp.no_stuck
    refine ⟨by simp, ?_, ?_⟩
    · intro hh; injection hh with hh; subst hh; exact ns rfl
    · simp only [StD.mu, List.length_nil] at this ⊢; omega
  | case6 s k h s0 s1 hr =>
    exfalso
    simp only [s0] at hr
    have sp := readHandshake_spec L lib h13 h12 hdec { s with hand := [], raw := [] }
    rw [hr] at sp
    exact sp.no_panic rfl

/-! ### sequences of receive operations -/

/-- the memory invariant of the datagram stack after `k` calls of readHandshake -/
def MemInvD (L : LimitsD) (Bh M k : Nat) (s : StD) : Prop :=
  s.raw.length ≤ L.maxCiphertext + L.hdr ∧ s.hand.length ≤ Bh ∧ s.pending.length ≤ L.maxFragments * k ∧ PendOk M s.pending

def hsCount : List OpD → Nat
  | [] => 0
  | .hs :: ops => hsCount ops + 1
  | _ :: ops => hsCount ops

theorem applyD_inv (L : LimitsD) (lib : LibD) (h13 : 13 ≤ L.hdr) (h12 : 12 ≤ L.hsHdr) (hdec : DecLen lib)
    (hrf : L.refusePostHs = true) (hg : L.deliveredGuard = true) (Bh M : Nat)
    (hBh : L.hsHdr + L.maxHandshake + (L.maxCiphertext + L.hdr) ≤ Bh + 1) (hM : L.maxHandshake ≤ M) (h1 : 1 ≤ M)
    (s : StD) (op : OpD) (k : Nat) (hi : MemInvD L Bh M k s) :
    MemInvD L Bh M (k + (if op = .hs then 1 else 0)) (applyD L lib s op) := by
  obtain ⟨ir, ih, ip, io⟩ := hi
  cases op with
  | hs =>
    have sp := readHandshake_spec L lib h13 h12 hdec s
    refine ⟨sp.raw_D ir, sp.hand_le Bh hg ir ih hBh, ?_, sp.pend_ok M hM h1 io⟩
    show (readHandshake L lib s).1.pending.length ≤ L.maxFragments * (k + 1)
    rcases sp.pend_len with h | h
    · rw [Nat.mul_add]; omega
    · rw [Nat.mul_add]; omega
  | finish =>
    refine ⟨ir, ih, ?_, ?_⟩
    · show ([] : List PBuf).length ≤ _; simp
    · intro b hb; cases hb
  | read =>
    show MemInvD L Bh M (k + 0) (if s.complete = true then (readRecord L lib { s with readBuf := 0 } false).1 else s)
    split
    · rename_i hc
      have sp := readRecord_spec L lib h13 hdec { s with readBuf := 0 } false
      refine ⟨sp.raw_D ir, ?_, ?_, ?_⟩
      · rw [sp.frozen hc hrf]; exact ih
      · rw [sp.pending_eq]; exact ip
      · rw [sp.pending_eq]; exact io
    · exact ⟨ir, ih, ip, io⟩

theorem runD_inv (L : LimitsD) (lib : LibD) (h13 : 13 ≤ L.hdr) (h12 : 12 ≤ L.hsHdr) (hdec : DecLen lib)
    (hrf : L.refusePostHs = true) (hg : L.deliveredGuard = true) (Bh M : Nat)
    (hBh : L.hsHdr + L.maxHandshake + (L.maxCiphertext + L.hdr) ≤ Bh + 1) (hM : L.maxHandshake ≤ M) (h1 : 1 ≤ M)
    (ops : List OpD) (s : StD) (k : Nat) (hi : MemInvD L Bh M k s) :
    MemInvD L Bh M (k + hsCount ops) (runD L lib s ops) := by
  induction ops generalizing s k with
  | nil => exact hi
  | cons op ops ih =>
    unfold runD
    have h := applyD_inv L lib h13 h12 hdec hrf hg Bh M hBh hM h1 s op k hi
    have := ih _ _ h
    cases op with
    | hs => simp only [hsCount, ↓reduceIte] at this ⊢; rw [show k + (hsCount ops + 1) = k + 1 + hsCount ops by omega]; exact this
    | finish => simp only [hsCount, reduceCtorEq, ↓reduceIte, Nat.add_zero] at this ⊢; exact this
    | read => simp only [hsCount, reduceCtorEq, ↓reduceIte, Nat.add_zero] at this ⊢; exact this

end Gotlcp.Lemmas.ParsersLoopD

/-
Helper lemmas for C06, sending side (model `Gotlcp.Model.RecordTx`).
-/
import Gotlcp.Model.RecordTx

set_option linter.unusedSimpArgs false
set_option linter.unusedVariables false

namespace Gotlcp.Lemmas.C06Tx
open Gotlcp.Model.RecordTx
open Gotlcp

/-- what the split loop needs from `maxPayloadSizeForWrite`: for every state the answer is
between 1 and the plaintext limit -/
def GoodMax (P : Params) (dyn : Bool) (k : Kind) (app : Bool) : Prop :=
  ∀ s : TxState, 0 < (maxPayload P dyn k app s).1 ∧ (maxPayload P dyn k app s).1 ≤ (P.maxPlaintext : Int)

theorem splitLoop_spec (P : Params) (dyn : Bool) (k : Kind) (app : Bool)
    (hg : GoodMax P dyn k app) :
    ∀ (fuel : Nat) (s : TxState) (data : Bytes), data.length ≤ fuel →
      ∃ rs s', splitLoop P dyn k app fuel s data = some (rs, s') ∧ rs.flatten = data ∧
        (∀ r ∈ rs, 0 < r.length ∧ r.length ≤ P.maxPlaintext) := by
  intro fuel
  induction fuel with
  | zero =>
    intro s data h
    have : data = [] := List.eq_nil_of_length_eq_zero (by omega)
    subst this
    exact ⟨[], s, by simp [splitLoop], rfl, by simp⟩
  | succ fuel ih =>
    intro s data h
    cases data with
    | nil => exact ⟨[], s, by simp [splitLoop], rfl, by simp⟩
    | cons d ds =>
      obtain ⟨hpos, hle⟩ := hg s
      simp only [splitLoop]
      -- the chosen record size m
      generalize hm : (if (maxPayload P dyn k app s).1 < ((d :: ds).length : Int)
        then (maxPayload P dyn k app s).1 else ((d :: ds).length : Int)) = m
      have hm0 : 0 < m := by
        rw [← hm]; split
        · exact hpos
        · simp only [List.length_cons]; omega
      have hmle : m ≤ ((d :: ds).length : Int) := by
        rw [← hm]; split <;> omega
      have hmmax : m ≤ (P.maxPlaintext : Int) := by
        rw [← hm]; split <;> omega
      have hnot : ¬ m ≤ 0 := by omega
      simp only [hnot, ↓reduceIte]
      have hmn : 0 < m.toNat ∧ m.toNat ≤ (d :: ds).length ∧ m.toNat ≤ P.maxPlaintext := by omega
      have hdrop : ((d :: ds).drop m.toNat).length ≤ fuel := by
        simp only [List.length_drop]; simp only [List.length_cons] at h hmn ⊢; omega
      obtain ⟨rs, s', hrun, hflat, hall⟩ := ih
        { (maxPayload P dyn k app s).2 with
          bytesSent := (maxPayload P dyn k app s).2.bytesSent + P.recordHeaderLen + cipherLen P k m.toNat }
        ((d :: ds).drop m.toNat) hdrop
      rw [hrun]
      refine ⟨(d :: ds).take m.toNat :: rs, s', rfl, ?_, ?_⟩
      · show (d :: ds).take m.toNat ++ rs.flatten = d :: ds
        rw [hflat, List.take_append_drop]
      · intro r hr
        simp only [List.mem_cons] at hr
        rcases hr with hr | hr
        · subst hr
          simp only [List.length_take]
          omega
        · exact hall r hr

theorem sum_length_flatten (rs : List Bytes) : (rs.map (·.length)).sum = rs.flatten.length := by
  induction rs with
  | nil => rfl
  | cons r rs ih =>
    simp only [List.map_cons, List.sum_cons, List.flatten_cons, List.length_append, ih]

end Gotlcp.Lemmas.C06Tx

/-
Helper lemmas for C09 (a): symbolic execution of the checked-index models of
`Gotlcp.Model.Parsers`, and the no-panic results for arbitrary guard parameters that are
large enough (the property theorems instantiate them with the regenerated facts).
-/
import Gotlcp.Model.Parsers

namespace Gotlcp.Lemmas.Parsers
open Gotlcp Gotlcp.Model.Parsers Gotlcp.Model.Parsers.Outcome

theorem idx_lt {b : Bytes} {i : Nat} (h : i < b.length) : idx b i = .ok b[i] := by
  simp [idx, h]
theorem idxAny_lt {α : Type} {b : List α} {i : Nat} (h : i < b.length) : idxAny b i = .ok b[i] := by
  simp [idxAny, h]
theorem sliceFrom_le {b : Bytes} {i : Nat} (h : i ≤ b.length) : sliceFrom b i = .ok (b.drop i) := by
  simp [sliceFrom, h]
theorem sliceTo_le {b : Bytes} {i : Nat} (h : i ≤ b.length) : sliceTo b i = .ok (b.take i) := by
  simp [sliceTo, h]
theorem slice_le {b : Bytes} {i j : Nat} (h : i ≤ j ∧ j ≤ b.length) : slice b i j = .ok ((b.take j).drop i) := by
  simp [slice, h]
theorem setIdx_lt {b : Bytes} {i : Nat} {v : UInt8} (h : i < b.length) : setIdx b i v = .ok (b.set i v) := by
  simp [setIdx, h]

@[simp] theorem bind_ok {α β} (a : α) (f : α → Outcome β) : (Outcome.ok a >>= f) = f a := rfl
@[simp] theorem bind_err {α β} (e : Why) (f : α → Outcome β) : ((Outcome.err e : Outcome α) >>= f) = .err e := rfl
@[simp] theorem bind_panic {α β} (f : α → Outcome β) : ((Outcome.panic : Outcome α) >>= f) = .panic := rfl
@[simp] theorem pure_eq {α} (a : α) : (pure a : Outcome α) = .ok a := rfl

/-- side conditions of the accessors: linear arithmetic over list lengths -/
macro "olen" : tactic => `(tactic| first
  | omega
  | (simp only [List.length_drop, List.length_take, List.length_set] at *; omega))

/-- one step of symbolic execution of a model in the `Outcome` monad -/
macro "ostep" : tactic => `(tactic| first
  | simp only [bind_ok, bind_err, bind_panic, pure_eq]
  | (rw [idx_lt (by olen)]; try simp only [bind_ok])
  | (rw [idxAny_lt (by olen)]; try simp only [bind_ok])
  | (rw [sliceFrom_le (by olen)]; try simp only [bind_ok])
  | (rw [sliceTo_le (by olen)]; try simp only [bind_ok])
  | (rw [setIdx_lt (by olen)]; try simp only [bind_ok])
  | (rw [slice_le (by olen)]; try simp only [bind_ok])
  | (split <;> try (simp; done))
  | dsimp only)

macro "orun" : tactic => `(tactic| ((repeat ostep) <;> try simp))

/-! ### key agreement, arbitrary guards -/

theorem eccPckxParse_no_panic (g : KxGuards) (h1 : 2 ≤ g.eccCkxMinLen) (h2 : 3 ≤ g.eccCkxCipherMin)
    (hc : Bool) (ct : Bytes) : eccPckxParse g hc ct ≠ .panic := by
  unfold eccPckxParse
  orun

theorem eccPckx_no_panic (g : KxGuards) (h1 : 2 ≤ g.eccCkxMinLen) (h2 : 3 ≤ g.eccCkxCipherMin)
    (hc isDec : Bool) (lib : KxLib) (ct : Bytes) : eccPckx g hc isDec lib ct ≠ .panic := by
  unfold eccPckx
  have := eccPckxParse_no_panic g h1 h2 hc ct
  cases h : eccPckxParse g hc ct with
  | panic => exact absurd h this
  | err e => simp
  | ok c =>
    simp only [bind_ok]
    orun

theorem eccPskx_no_panic (g : KxGuards) (h : 1 ≤ g.eccSkxMaxShort) (lib : KxLib) (peer : List KeyKind) (key : Bytes) :
    eccPskx g lib peer key ≠ .panic := by
  unfold eccPskx
  orun

theorem eccGckx_no_panic (g : KxGuards) (h : g.eccGckxChecked = true) (lib : KxLib) (peer : List KeyKind) :
    eccGckx g lib peer ≠ .panic := by
  unfold eccGckx
  orun

/-- well-formedness of the `switch len(ciphertext)` table of `getECDHEPublicKey`: the byte
that holds the point length, and the 2-byte prefix when it is read, lie inside a body of the
accepted length -/
def ShapesOk (l : List (Nat × Nat × Bool)) : Prop :=
  ∀ s ∈ l, s.2.1 < s.1 ∧ (s.2.2 = true → 2 ≤ s.1)

theorem dhePub_no_panic (g : KxGuards) (h : ShapesOk g.dhePubShapes) (lib : KxLib) (ct : Bytes) :
    dhePub g lib ct ≠ .panic := by
  unfold dhePub
  cases hf : g.dhePubShapes.find? (fun s => s.1 == ct.length) with
  | none => simp
  | some s =>
    obtain ⟨L, st, v⟩ := s
    have hm := List.mem_of_find?_eq_some hf
    have hp := List.find?_some hf
    have hL : L = ct.length := by simpa using hp
    obtain ⟨h1, h2⟩ := h _ hm
    simp only at h1 h2
    subst hL
    cases v with
    | false => simp only [Bool.false_eq_true, ↓reduceIte]; orun
    | true =>
      have := h2 rfl
      simp only [↓reduceIte]
      orun

theorem dhePckx_no_panic (g : KxGuards) (h : ShapesOk g.dhePubShapes) (lib : KxLib) (peer : List KeyKind) (ct : Bytes) :
    dhePckx g lib peer ct ≠ .panic := by
  unfold dhePckx
  have := dhePub_no_panic g h lib ct
  orun
  exact this

theorem dhePskxHead_no_panic (g : KxGuards) (h1 : 4 ≤ g.dheSkxMinLen)
    (lib : KxLib) (peer : List KeyKind) (key : Bytes) : dhePskxHead g lib peer key ≠ .panic := by
  unfold dhePskxHead
  orun

theorem dhePskxHead_ok (g : KxGuards) (lib : KxLib) (peer : List KeyKind) (key : Bytes) (sc : KeyKind) (pl : Nat)
    (h1 : 4 ≤ g.dheSkxMinLen) (h : dhePskxHead g lib peer key = .ok (sc, pl)) : 4 + pl ≤ key.length ∧ 2 ≤ peer.length := by
  unfold dhePskxHead at h
  split at h
  · simp at h
  rename_i hp
  rw [idxAny_lt (by omega)] at h
  simp only [bind_ok] at h
  split at h
  · simp at h
  rename_i hk
  rw [idx_lt (by omega)] at h
  simp only [bind_ok] at h
  split at h
  · simp at h
  rename_i hl
  rw [sliceTo_le (by omega)] at h
  simp only [bind_ok] at h
  rw [sliceFrom_le (by simp only [List.length_take]; omega)] at h
  simp only [bind_ok] at h
  split at h
  · simp at h
  simp only [pure_eq, Outcome.ok.injEq, Prod.mk.injEq] at h
  omega

theorem dhePskxTail_no_panic (g : KxGuards) (h2 : 2 ≤ g.dheSkxSigHdrMin) (lib : KxLib) (sc : KeyKind) (pl : Nat)
    (key : Bytes) (hk : 4 + pl ≤ key.length) : dhePskxTail g lib sc pl key ≠ .panic := by
  unfold dhePskxTail
  orun

theorem dhePskx_no_panic (g : KxGuards) (h1 : 4 ≤ g.dheSkxMinLen) (h2 : 2 ≤ g.dheSkxSigHdrMin)
    (lib : KxLib) (peer : List KeyKind) (key : Bytes) : (dhePskx g lib peer key).1 ≠ .panic := by
  unfold dhePskx
  have hh := dhePskxHead_no_panic g h1 lib peer key
  cases h : dhePskxHead g lib peer key with
  | panic => exact absurd h hh
  | err e => simp
  | ok r =>
    obtain ⟨sc, pl⟩ := r
    exact dhePskxTail_no_panic g h2 lib sc pl key (dhePskxHead_ok g lib peer key sc pl h1 h).1

/-- `ka.peerTmpKey` is only ever set when the server presented two certificates -/
theorem dhePskx_tmp (g : KxGuards) (h1 : 4 ≤ g.dheSkxMinLen) (lib : KxLib) (peer : List KeyKind) (key : Bytes)
    (h : (dhePskx g lib peer key).2 = true) : 2 ≤ peer.length := by
  unfold dhePskx at h
  cases hh : dhePskxHead g lib peer key with
  | panic => simp [hh] at h
  | err e => simp [hh] at h
  | ok r =>
    obtain ⟨sc, pl⟩ := r
    exact (dhePskxHead_ok g lib peer key sc pl h1 hh).2

theorem dheGckx_no_panic (g : KxGuards) (h1 : g.dheGckxNilCheck = true) (h2 : 2 ≤ g.dheGckxPeerMin)
    (lib : KxLib) (tmp : Bool) (enc : EncPriv) (peer : List KeyKind) : dheGckx g lib tmp enc peer ≠ .panic := by
  unfold dheGckx
  simp only [h1, Bool.and_true]
  orun

/-! ### record protection -/

theorem idxInt_ok {b : Bytes} {i : Int} (h0 : 0 ≤ i) (h1 : i.toNat < b.length) : idxInt b i = .ok b[i.toNat] := by
  unfold idxInt
  rw [if_neg (by omega), idx_lt h1]

theorem extractPadding_loop_no_panic (payload : Bytes) (pl : UInt8) (fuel i : Nat) (good : Bool)
    (h : i + fuel ≤ payload.length) : extractPadding.loop payload pl i fuel good ≠ .panic := by
  induction fuel generalizing i good with
  | zero => simp [extractPadding.loop]
  | succ n ih =>
    unfold extractPadding.loop
    rw [idxInt_ok (by omega) (by omega)]
    simp only [bind_ok]
    exact ih (i + 1) _ (by omega)

theorem extractPadding_no_panic (payload : Bytes) : extractPadding payload ≠ .panic := by
  unfold extractPadding
  split
  · simp
  rename_i hl
  rw [idx_lt (by omega)]
  simp only [bind_ok]
  have := extractPadding_loop_no_panic payload payload[payload.length - 1]
    (if 256 > payload.length then payload.length else 256) 0 (decide (payload[payload.length - 1].toNat + 1 ≤ payload.length))
    (by split <;> omega)
  cases hh : extractPadding.loop payload payload[payload.length - 1] 0
      (if 256 > payload.length then payload.length else 256) (decide (payload[payload.length - 1].toNat + 1 ≤ payload.length)) with
  | panic => exact absurd hh this
  | err e => simp
  | ok g => simp

theorem decrypt_no_panic (dtls : Bool) (hdr : Nat) (k : CipherKind) (lib : DecLib) (seq : Nat) (record : Bytes)
    (h5 : 5 ≤ hdr) (hr : hdr ≤ record.length) (hb : ∀ bs ms, k = .cbc bs ms → 0 < bs)
    (hs : dtls = true ∨ seq + 1 < 2 ^ 64) : decrypt dtls hdr k lib seq record ≠ .panic := by
  unfold decrypt
  have hs' : dtls = false → seq + 1 < 2 ^ 64 := by
    intro h; rcases hs with h' | h'
    · simp [h] at h'
    · exact h'
  clear hs
  cases k with
  | none => cases dtls <;> orun <;> (first | (have := hs' rfl; omega) | (exfalso; simp_all; done))
  | aead en ov =>
    cases dtls <;> orun <;> (first | (have := hs' rfl; omega) | (exfalso; simp_all; done))
  | cbc bs ms =>
    have hbs := hb bs ms rfl
    rw [idx_lt (by omega)]; simp only [bind_ok]
    rw [sliceFrom_le (by omega)]; simp only [bind_ok]
    rw [if_neg (by omega)]
    split
    · simp
    rename_i hlen
    rw [sliceTo_le (by omega)]; simp only [bind_ok]
    rw [sliceFrom_le (by omega)]; simp only [bind_ok]
    have hep := extractPadding_no_panic (lib.cbcDecrypt (List.drop bs (List.drop hdr record)))
    cases he : extractPadding (lib.cbcDecrypt (List.drop bs (List.drop hdr record))) with
    | panic => exact absurd he hep
    | err e => simp
    | ok r =>
      obtain ⟨pl, pg⟩ := r
      simp only [bind_ok]
      have hl := lib.cbcLen (List.drop bs (List.drop hdr record))
      cases dtls <;> orun <;> (first | (have := hs' rfl; omega) | (exfalso; simp_all; done))

/-! ### framing and record headers -/

theorem frameT_no_panic (maxHandshake : Nat) (hand : Bytes) : frameT maxHandshake hand ≠ .panic := by
  unfold frameT
  orun

theorem frameD_no_panic (maxHandshake hdrLen : Nat) (h : 12 ≤ hdrLen) (hand : Bytes) :
    frameD maxHandshake hdrLen hand ≠ .panic := by
  unfold frameD
  orun

theorem headerT_no_panic (hdrLen : Nat) (h : 5 ≤ hdrLen) (raw : Bytes) (hr : hdrLen ≤ raw.length) :
    headerT hdrLen raw ≠ .panic := by
  unfold headerT
  orun

theorem splitD_no_panic (hdrLen maxCiphertext : Nat) (h : 13 ≤ hdrLen) (haveVers : Bool) (vers : Nat) (buf : Bytes)
    (first : Bool) : splitD hdrLen maxCiphertext haveVers vers buf first ≠ .panic := by
  unfold splitD
  orun

end Gotlcp.Lemmas.Parsers

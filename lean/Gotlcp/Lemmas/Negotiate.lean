/-
Helper lemmas for C01: the negotiation model instantiated with the *documented* tables
(`refParams`) computes exactly what the spec prescribes.  `Props/C01.lean` shows that the
tables regenerated from the Go source are the documented ones.
-/
import Gotlcp.Model.Negotiate
import Gotlcp.Spec.NegotiateSpec

set_option linter.unusedSimpArgs false
set_option linter.unusedVariables false

namespace Gotlcp.Lemmas.Negotiate
open Gotlcp.Negotiate
open Gotlcp.Model.Negotiate
open Gotlcp.Spec.Negotiate

/-- the documented tables: one version, the documented priority order, the four suites with
their key-exchange flags, the six policies in documented order, and the code shapes the
documentation describes -/
def refParams : Params :=
  { versions := [0x0101],
    pref := [0xe053, 0xe013, 0xe051, 0xe011],
    disabled := [],
    known := [(0xe011, 3), (0xe013, 2), (0xe051, 3), (0xe053, 2)],
    flagECDHE := 1, flagECSign := 2,
    ecdheIds := [0xe051, 0xe011],
    authIota := [0, 1, 2, 3, 4, 5],
    requires := [2, 4, 5],
    serverPrefFirst := true, alpnServerFirst := true, clientEcdheGuard := true,
    encCertNeedsSig := true, resumeHonoursPolicy := true, resumeSuiteGuards := true, cloneMissing := [] }

/-! ### small list facts -/

theorem find?_congr' {α} {l : List α} {p q : α → Bool} (h : ∀ x, x ∈ l → p x = q x) :
    l.find? p = l.find? q := by
  induction l with
  | nil => rfl
  | cons a t ih =>
    have ha := h a (List.mem_cons_self ..)
    have ht : ∀ x, x ∈ t → p x = q x := fun x hx => h x (List.mem_cons_of_mem _ hx)
    simp only [List.find?, ha, ih ht]

theorem filter_congr' {α} {l : List α} {p q : α → Bool} (h : ∀ x, x ∈ l → p x = q x) :
    l.filter p = l.filter q := by
  induction l with
  | nil => rfl
  | cons a t ih =>
    have ha := h a (List.mem_cons_self ..)
    have ht : ∀ x, x ∈ t → p x = q x := fun x hx => h x (List.mem_cons_of_mem _ hx)
    simp only [List.filter, ha, ih ht]

theorem contains_filter' (l : List Nat) (q : Nat → Bool) (a : Nat) :
    (l.filter q).contains a = (l.contains a && q a) := by
  induction l with
  | nil => simp
  | cons b t ih =>
    by_cases hq : q b = true
    · simp only [List.filter, hq, List.contains_cons, ih]
      by_cases hab : (a == b) = true
      · have : a = b := by simpa using hab
        subst this; simp [hq]
      · simp [hab]
    · have hq' : q b = false := by simpa using hq
      simp only [List.filter, hq', List.contains_cons, ih]
      by_cases hab : (a == b) = true
      · have : a = b := by simpa using hab
        subst this; simp [hq']
      · simp [hab]

/-! ### Clone -/

theorem cloneClient_ref (c : ClientCfg) : cloneClient refParams c = c := by
  unfold cloneClient
  cases c with | mk a b c d e f g h i j k cl =>
  cases cl <;> simp [refParams]

theorem cloneServer_ref (s : ServerCfg) : cloneServer refParams s = s := by
  unfold cloneServer
  cases s with | mk a b c d e f g h i j k l cl =>
  cases cl <;> simp [refParams]

/-! ### versions -/

theorem supportedVersions_ref (mn mx : Nat) :
    supportedVersions refParams mn mx = if versionOK mn mx then [0x0101] else [] := by
  unfold supportedVersions versionOK docVersion
  simp only [refParams, List.filter_cons, List.filter_nil]
  have key : (!(mn != 0 && decide (257 < mn)) && !(mx != 0 && decide (257 > mx))) =
      ((mn == 0 || decide (mn ≤ 257)) && (mx == 0 || decide (257 ≤ mx))) := by
    rw [Bool.eq_iff_iff]; simp
  rw [key]

theorem versionsFromMax_ref : versionsFromMax refParams 0x0101 = [0x0101] := by decide

theorem mutualVersion_ref (mn mx : Nat) :
    mutualVersion refParams mn mx [0x0101] = if versionOK mn mx then some 0x0101 else none := by
  unfold mutualVersion
  rw [supportedVersions_ref]
  by_cases h : versionOK mn mx = true <;> simp [h, List.find?]

/-! ### cipher suites -/

theorem find?_filter' {α} (l : List α) (p q : α → Bool) :
    (l.filter p).find? q = l.find? (fun a => p a && q a) := by
  induction l with
  | nil => rfl
  | cons a t ih =>
    by_cases hp : p a = true
    · simp only [List.filter, hp, List.find?, Bool.true_and, ih]
    · have hp' : p a = false := by simpa using hp
      simp only [List.filter, hp', List.find?, Bool.false_and, ih]

theorem mem_docOrder {id : Nat} (h : id ∈ docOrder) :
    id = 0xe053 ∨ id = 0xe013 ∨ id = 0xe051 ∨ id = 0xe011 := by
  simpa [docOrder, ECC_GCM, ECC_CBC, ECDHE_GCM, ECDHE_CBC] using h

theorem mutual_ref (cs : Option (List Nat)) (id : Nat) (h : id ∈ docOrder) :
    mutualCipherSuite refParams (configSuites refParams cs) id = enabled cs id := by
  rcases mem_docOrder h with h | h | h | h <;> subst h <;> cases cs <;>
    simp [mutualCipherSuite, configSuites, flagsOf, refParams, enabled, docOrder,
      ECC_GCM, ECC_CBC, ECDHE_GCM, ECDHE_CBC, List.find?]

theorem hasAuth_eq (c : ClientCfg) : hasAuthKeyPair c = clientHasSig c := by
  unfold hasAuthKeyPair clientHasSig
  cases c.getCert <;> simp <;> omega

theorem hasEnc_eq (c : ClientCfg) : hasEncKeyPair c = clientHasEnc c := by
  unfold hasEncKeyPair clientHasEnc
  cases c.getKECert <;> simp <;> omega

theorem ecdheIds_ref (id : Nat) (h : id ∈ docOrder) : refParams.ecdheIds.contains id = isECDHE id := by
  rcases mem_docOrder h with h | h | h | h <;> subst h <;> decide

/-- `makeClientHello` offers, in documented order, the enabled suites the client has keys for -/
theorem offered_ref (c : ClientCfg) :
    offeredSuites refParams c =
      docOrder.filter (fun id => enabled c.suites id && (!isECDHE id || (clientHasSig c && clientHasEnc c))) := by
  unfold offeredSuites
  show List.filter _ docOrder = _
  apply filter_congr'
  intro id hid
  rw [mutual_ref _ _ hid, ecdheIds_ref _ hid, hasAuth_eq, hasEnc_eq]
  simp [refParams]

theorem cipherSuiteOk_ref (k : KeyFlags) (id : Nat) (h : id ∈ docOrder) :
    (match flagsOf refParams id with
     | none => false
     | some f => cipherSuiteOk refParams k f) = (k.ecSignOk && k.ecDecryptOk) := by
  cases k with | mk k0 k1 k2 k3 k4 =>
  rcases mem_docOrder h with h | h | h | h <;> subst h <;>
    cases k1 <;> cases k2 <;>
    simp [flagsOf, refParams, List.find?, cipherSuiteOk]

/-- the server picks the first suite, in documented order, that it enabled, has keys for and
the client offered -/
theorem serverPick_ref (k : KeyFlags) (s : ServerCfg) (offered : List Nat) :
    serverPick refParams k s offered =
      docOrder.find? (fun id => enabled s.suites id && ((k.ecSignOk && k.ecDecryptOk) && offered.contains id)) := by
  unfold serverPick selectCipherSuite
  simp only [show refParams.serverPrefFirst = true from rfl, if_true]
  show List.find? _ (List.filter _ docOrder) = _
  rw [find?_filter']
  apply find?_congr'
  intro id hid
  have h1 := cipherSuiteOk_ref k id hid
  have h2 : (configSuites refParams s.suites).contains id = enabled s.suites id := by
    have := mutual_ref s.suites id hid
    unfold mutualCipherSuite at this
    rcases mem_docOrder hid with h | h | h | h <;> subst h <;>
      simpa [flagsOf, refParams, List.find?] using this
  rw [h2]
  cases k with | mk k0 k1 k2 k3 k4 =>
  rcases mem_docOrder hid with h | h | h | h <;> subst h <;>
    cases k1 <;> cases k2 <;>
    simp [flagsOf, refParams, List.find?, cipherSuiteOk]

/-! ### ALPN -/

theorem alpnInner_hit (a : String) (bs : List String) (fb : Bool) (h : bs.contains a = true) :
    (alpnInner a true bs fb).1 = some a := by
  induction bs generalizing fb with
  | nil => simp at h
  | cons b t ih =>
    unfold alpnInner
    by_cases hab : (a == b) = true
    · simp [hab]
    · have hab' : (a == b) = false := by simpa using hab
      have ht : t.contains a = true := by
        simp only [List.contains_cons, hab', Bool.false_or] at h; exact h
      simp only [hab', Bool.false_eq_true, if_false]
      exact ih _ ht

theorem sbeq_comm (a b : String) : (a == b) = (b == a) := by
  cases h : (a == b) with
  | true => have : a = b := by simpa using h
            subst this; simp
  | false =>
    have hne : a ≠ b := by simpa using h
    have : (b == a) = false := by
      simp only [beq_eq_false_iff_ne, ne_eq]
      exact fun e => hne e.symm
    rw [this]

theorem alpnInner_miss (a : String) (bs : List String) (fb : Bool) (h : bs.contains a = false) :
    alpnInner a true bs fb = (none, fb || (a == "h2" && bs.contains "http/1.1")) := by
  induction bs generalizing fb with
  | nil => simp [alpnInner]
  | cons b t ih =>
    unfold alpnInner
    simp only [List.contains_cons, Bool.or_eq_false_iff] at h
    obtain ⟨hab, ht⟩ := h
    simp only [hab, Bool.false_eq_true, if_false, if_true]
    rw [ih _ ht, List.contains_cons, sbeq_comm "http/1.1" b]
    cases fb <;> cases (a == "h2") <;> cases (b == "http/1.1") <;> cases (t.contains "http/1.1") <;> rfl

theorem alpnOuter_hit (server client : List String) (fb : Bool) (r : String)
    (h : server.find? (fun a => client.contains a) = some r) :
    (alpnOuter true server client fb).1 = some r := by
  induction server generalizing fb with
  | nil => simp at h
  | cons a t ih =>
    unfold alpnOuter
    rw [List.find?_cons] at h
    cases hc : client.contains a with
    | true =>
      simp only [hc] at h
      have : a = r := Option.some.inj h
      subst this
      have h1 := alpnInner_hit a client fb hc
      cases hx : alpnInner a true client fb with
      | mk x y => rw [hx] at h1; simp only at h1; subst h1; rfl
    | false =>
      simp only [hc] at h
      rw [alpnInner_miss a client fb hc]
      exact ih _ h

theorem alpnOuter_miss (server client : List String) (fb : Bool)
    (h : server.find? (fun a => client.contains a) = none) :
    alpnOuter true server client fb = (none, fb || (server.contains "h2" && client.contains "http/1.1")) := by
  induction server generalizing fb with
  | nil => simp [alpnOuter]
  | cons a t ih =>
    unfold alpnOuter
    rw [List.find?_cons] at h
    cases hc : client.contains a with
    | true => simp only [hc] at h; cases h
    | false =>
      simp only [hc] at h
      rw [alpnInner_miss a client fb hc]
      simp only
      rw [ih _ h, List.contains_cons, sbeq_comm "h2" a]
      cases fb <;> cases (a == "h2") <;> cases (t.contains "h2") <;> cases (client.contains "http/1.1") <;> rfl

/-- `negotiateALPN` is the documented rule -/
theorem negotiateALPN_ref (server client : List String) :
    negotiateALPN refParams server client = alpnRule server client := by
  unfold negotiateALPN alpnRule
  simp only [show refParams.alpnServerFirst = true from rfl, if_true]
  split
  · rfl
  · cases hf : server.find? (fun sp => client.contains sp) with
    | some r =>
      have h1 := alpnOuter_hit server client false r hf
      cases hx : alpnOuter true server client false with
      | mk x y => rw [hx] at h1; simp only at h1; subst h1; rfl
    | none =>
      rw [alpnOuter_miss server client false hf]
      cases server.contains "h2" <;> cases client.contains "http/1.1" <;> rfl

/-- the client's `checkALPN` accepts whatever the documented rule selects -/
theorem checkALPN_of_rule (server client : List String) (proto : String)
    (h : alpnRule server client = some proto) : checkALPN client proto = true := by
  unfold alpnRule at h
  unfold checkALPN
  by_cases hp : (proto == "") = true
  · simp [hp]
  · have hp' : (proto == "") = false := by simpa using hp
    simp only [hp', Bool.false_eq_true, if_false]
    split at h
    · have : proto = "" := by simpa using h.symm
      simp [this] at hp
    · rename_i he
      simp only [Bool.or_eq_true, not_or, Bool.not_eq_true] at he
      cases hf : server.find? (fun sp => client.contains sp) with
      | some r =>
        rw [hf] at h
        have hr : r = proto := by simpa using h
        subst hr
        have := List.find?_some hf
        simp only [he.2, Bool.false_eq_true, if_false]
        exact this
      | none =>
        rw [hf] at h
        simp only at h
        split at h
        · have : proto = "" := by simpa using h.symm
          simp [this] at hp
        · cases h

/-! ### client authentication -/

theorem authVal_ref (a : ClientAuth) : authVal refParams a = a.idx := by cases a <;> rfl

/-- the client-authentication stage succeeds exactly under the documented policy rule, and
then leaves the server with exactly the certificates the spec names -/
theorem authStage_ref (c : ClientCfg) (s : ServerCfg) (suite : Nat) (h : suite ∈ docOrder) :
    (authOK c s suite = true → clientAuthStage refParams c s suite = .ok (clientCertsSeen c s suite)) ∧
    (authOK c s suite = false → isOk (clientAuthStage refParams c s suite) = false) := by
  unfold clientAuthStage certRequested authPolice clientCerts serverCheckCerts requiresClientCert
    authOK clientCertsSeen requested presented clientHasSig clientHasEnc
  simp only [authVal_ref, ecdheIds_ref suite h]
  cases c with | mk csu n gc gk fam al sn ip ca mn mx cl =>
  cases s with | mk ssu sn2 sgc sgk sk ek sal auth cas sca smn smx scl =>
  simp only
  generalize isECDHE suite = e
  rcases n with _ | _ | n <;> cases gc <;> cases gk <;> cases fam <;> cases auth <;> cases cas <;> cases e <;>
    simp [refParams, ClientAuth.idx, CAKind.accepts, CAKind.verifies, requiresCert, verifiesCert, isOk]

/-- what `checkForResumption` and `doResumeHandshake` re-check on the recorded certificates
holds for the certificates a successful full handshake recorded -/
theorem resume_checks_ref (c : ClientCfg) (s : ServerCfg) (suite : Nat) (h : suite ∈ docOrder)
    (hao : authOK c s suite = true) :
    (requiresClientCert refParams s.auth && !decide ((clientCertsSeen c s suite).length ≠ 0)) = false ∧
    (decide ((clientCertsSeen c s suite).length ≠ 0) && authVal refParams s.auth == authVal refParams .noClientCert) =
      (s.auth == .noClientCert && !(clientCertsSeen c s suite).isEmpty) ∧
    isOk (serverCheckCerts refParams c s suite (clientCertsSeen c s suite) true) = true := by
  revert hao
  unfold serverCheckCerts requiresClientCert
    authOK clientCertsSeen requested presented clientHasSig clientHasEnc
  simp only [authVal_ref, ecdheIds_ref suite h]
  cases c with | mk csu n gc gk fam al sn ip ca mn mx cl =>
  cases s with | mk ssu sn2 sgc sgk sk ek sal auth cas sca smn smx scl =>
  simp only
  generalize isECDHE suite = e
  rcases n with _ | _ | n <;> cases gc <;> cases gk <;> cases fam <;> cases auth <;> cases cas <;> cases e <;>
    simp [refParams, ClientAuth.idx, CAKind.accepts, CAKind.verifies, requiresCert, verifiesCert, isOk]

/-! ### the whole handshake -/

theorem serverHasCerts_eq (s : ServerCfg) :
    serverHasCerts s = ((decide (s.nCerts ≥ 1) || s.getCert) && (decide (s.nCerts ≥ 2) || s.getKECert)) := by
  unfold serverHasCerts
  rcases hn : s.nCerts with _ | _ | n <;> cases s.getCert <;> cases s.getKECert <;> simp

theorem docOrder_contains {id : Nat} (h : id ∈ docOrder) : docOrder.contains id = true := by
  simpa using h

theorem pick_none (c : ClientCfg) (s : ServerCfg) (k : KeyFlags) (offered : List Nat)
    (hk : (k.ecSignOk && k.ecDecryptOk) = false) : serverPick refParams k s offered = none := by
  rw [serverPick_ref, hk]
  simp

theorem pick_ref (c : ClientCfg) (s : ServerCfg) (k : KeyFlags)
    (hc : serverHasCerts s = true) (h1 : s.sigKey = .sm2) (h2 : s.encKey = .sm2)
    (hk : (k.ecSignOk && k.ecDecryptOk) = true) :
    serverPick refParams k s (offeredSuites refParams c) = mutualSuite c s := by
  rw [serverPick_ref, offered_ref, hk]
  unfold mutualSuite
  apply find?_congr'
  intro id hid
  rw [contains_filter', docOrder_contains hid]
  unfold usable serverHasKeys
  rw [← serverHasCerts_eq, hc, h1, h2]
  cases enabled s.suites id <;> cases enabled c.suites id <;> simp

theorem nokeys_mutual_none (c : ClientCfg) (s : ServerCfg) (h : serverHasKeys s = false) :
    mutualSuite c s = none := by
  unfold mutualSuite
  rw [List.find?_eq_none]
  intro id _
  simp [usable, h]

theorem offered_contains_of_usable (c : ClientCfg) (s : ServerCfg) (suite : Nat)
    (hm : suite ∈ docOrder) (hu : usable c s suite = true) :
    mutualCipherSuite refParams (offeredSuites refParams c) suite = true := by
  unfold mutualCipherSuite
  rw [offered_ref, contains_filter', docOrder_contains hm]
  unfold usable at hu
  simp only [Bool.and_eq_true] at hu
  obtain ⟨⟨⟨h1, _⟩, _⟩, h4⟩ := hu
  rw [h1, h4]
  rcases mem_docOrder hm with h | h | h | h <;> subst h <;> simp [flagsOf, refParams, List.find?]

theorem negotiate_ref (c : ClientCfg) (s : ServerCfg) :
    (compatible c s = true → negotiate refParams c s = .ok (expected c s)) ∧
    (compatible c s = false → isOk (negotiate refParams c s) = false) := by
  unfold negotiate handshake compatible expected expectedWith
  simp only [cloneClient_ref, cloneServer_ref, supportedVersions_ref, negotiateALPN_ref]
  cases hvc : versionOK c.minV c.maxV with
  | false => simp [isOk]
  | true =>
    simp only [if_true, versionsFromMax_ref, mutualVersion_ref]
    cases hvs : versionOK s.minV s.maxV with
    | false => simp [isOk]
    | true =>
      simp only [if_true]
      cases ha : alpnRule s.alpn c.alpn with
      | none => simp [isOk]
      | some proto =>
        simp only [Bool.true_and, Option.isSome_some, Option.getD_some]
        have hcv : ([257] : List Nat).contains 257 = true := by decide
        simp only [hcv, Bool.not_true, Bool.false_eq_true, if_false]
        cases hsc : serverHasCerts s with
        | false =>
          have : serverHasKeys s = false := by unfold serverHasKeys; rw [← serverHasCerts_eq, hsc]; simp
          simp [nokeys_mutual_none c s this, isOk]
        | true =>
          simp only [Bool.not_true, Bool.false_eq_true, if_false]
          by_cases hkeys : s.sigKey = .sm2 ∧ s.encKey = .sm2
          · obtain ⟨hsig, henc⟩ := hkeys
            simp only [keyFlags, hsig, henc]
            rw [pick_ref c s _ hsc hsig henc (by rfl)]
            cases hm : mutualSuite c s with
            | none => exact ⟨by simp, by simp [isOk]⟩
            | some suite =>
              have hmem : suite ∈ docOrder := List.mem_of_find?_eq_some hm
              have hus : usable c s suite = true := List.find?_some hm
              simp only [offered_contains_of_usable c s suite hmem hus, checkALPN_of_rule _ _ _ ha,
                Bool.not_true, Bool.false_eq_true, if_false, Option.getD_some]
              have hne : (KeyKind.sm2 != KeyKind.sm2) = false := by decide
              simp only [hne, Bool.false_eq_true, if_false]
              obtain ⟨h1, h2⟩ := authStage_ref c s suite hmem
              cases hao : authOK c s suite with
              | true =>
                rw [h1 hao]
                refine ⟨fun _ => ?_, by simp⟩
                simp [docVersion, sniOf]
              | false =>
                have h3 := h2 hao
                refine ⟨by simp, fun _ => ?_⟩
                cases hst : clientAuthStage refParams c s suite with
                | error e => rfl
                | ok certs => rw [hst] at h3; simp [isOk] at h3
          · have hk : serverHasKeys s = false := by
              unfold serverHasKeys
              cases hsig : s.sigKey <;> cases henc : s.encKey <;> simp_all
            rw [nokeys_mutual_none c s hk]
            refine ⟨by simp, fun _ => ?_⟩
            cases hsig : s.sigKey <;> cases henc : s.encKey <;> simp only [keyFlags, hsig, henc] <;>
              first
              | rfl
              | (exfalso; exact hkeys ⟨hsig, henc⟩)
              | (rw [pick_none c s _ _ (by rfl)]; rfl)
              | (cases serverPick refParams _ s (offeredSuites refParams c) with
                 | none => rfl
                 | some suite =>
                   simp only []
                   split
                   · rfl
                   · split
                     · rfl
                     · simp [isOk])

theorem compatible_parts (c : ClientCfg) (s : ServerCfg) (h : compatible c s = true) :
    versionOK c.minV c.maxV = true ∧ versionOK s.minV s.maxV = true ∧
    (∃ proto, alpnRule s.alpn c.alpn = some proto) ∧
    (∃ suite, mutualSuite c s = some suite ∧ authOK c s suite = true) := by
  unfold compatible at h
  simp only [Bool.and_eq_true] at h
  obtain ⟨⟨⟨h1, h2⟩, h3⟩, h4⟩ := h
  refine ⟨h1, h2, ?_, ?_⟩
  · cases ha : alpnRule s.alpn c.alpn with
    | none => rw [ha] at h3; simp at h3
    | some p => exact ⟨p, rfl⟩
  · cases hm : mutualSuite c s with
    | none => rw [hm] at h4; simp at h4
    | some suite => rw [hm] at h4; exact ⟨suite, rfl, h4⟩

theorem usable_keys (c : ClientCfg) (s : ServerCfg) (suite : Nat) (h : usable c s suite = true) :
    serverHasKeys s = true ∧ enabled s.suites suite = true := by
  unfold usable at h
  simp only [Bool.and_eq_true] at h
  exact ⟨h.1.2, h.1.1.2⟩

/-- the next connection between the same configurations: resumed iff both sides cache -/
theorem negotiateNext_ref (c : ClientCfg) (s : ServerCfg) (h : compatible c s = true) :
    negotiateNext refParams c s (expected c s) = .ok (expectedNext c s) := by
  obtain ⟨hvc, hvs, ⟨proto, ha⟩, ⟨suite, hm, hao⟩⟩ := compatible_parts c s h
  have hmem : suite ∈ docOrder := List.mem_of_find?_eq_some hm
  have hus : usable c s suite = true := List.find?_some hm
  obtain ⟨hkeys, hen⟩ := usable_keys c s suite hus
  have hk := hkeys
  unfold serverHasKeys at hk
  simp only [Bool.and_eq_true, beq_iff_eq] at hk
  obtain ⟨⟨hcerts, hsig⟩, henc⟩ := hk
  have hsc : serverHasCerts s = true := by rw [serverHasCerts_eq]; simpa using hcerts
  have hoff := offered_contains_of_usable c s suite hmem hus
  unfold negotiateNext handshake expectedNext expectedWith expected expectedWith sessionOf resumable
  simp only [cloneClient_ref, cloneServer_ref, supportedVersions_ref, negotiateALPN_ref, hvc, hvs, if_true,
    versionsFromMax_ref, mutualVersion_ref, ha, hm, Option.getD_some, hsc, Bool.not_true, Bool.false_eq_true,
    if_false, keyFlags, hsig, henc]
  have hcv : ([257] : List Nat).contains 257 = true := by decide
  simp only [hcv, Bool.not_true, Bool.false_eq_true, if_false]
  obtain ⟨hr1, hr2, hr3⟩ := resume_checks_ref c s suite hmem hao
  have hres : serverResumes refParams
      { ecSignOk := true, ecDecryptOk := true, rsaDecryptOk := false, rsaSignOk := false } s 257
      (offeredSuites refParams c)
      { vers := docVersion, suite := suite, clientPeer := [.S, .E], serverPeer := clientCertsSeen c s suite } =
      !(s.auth == .noClientCert && !(clientCertsSeen c s suite).isEmpty) := by
    unfold serverResumes selectCipherSuite
    unfold mutualCipherSuite at hoff
    simp only [Bool.and_eq_true] at hoff
    have h2 : (configSuites refParams s.suites).contains suite = true := by
      have := mutual_ref s.suites suite hmem
      unfold mutualCipherSuite at this
      rw [hen] at this
      simp only [Bool.and_eq_true] at this
      exact this.1
    simp only [show refParams.resumeHonoursPolicy = true from rfl, show refParams.resumeSuiteGuards = true from rfl,
      if_true, Bool.true_and, hr1, hr2, Bool.not_false,
      hoff.1, h2, docVersion, List.find?]
    rcases mem_docOrder hmem with e | e | e | e <;> subst e <;>
      simp [flagsOf, refParams, List.find?, cipherSuiteOk]
  simp only [hres, show refParams.resumeHonoursPolicy = true from rfl, Bool.true_and, hr3, Bool.not_true,
    Bool.false_eq_true, if_false]
  generalize hg : (s.auth == ClientAuth.noClientCert && !(clientCertsSeen c s suite).isEmpty) = g
  cases hcc : c.cache <;> cases hsca : s.cache <;> cases g
  all_goals simp only [Bool.and_false, Bool.false_and, Bool.and_self, Bool.false_eq_true, if_false, if_true,
    Bool.not_false, Bool.not_true, Bool.and_true]
  all_goals first
    | (rw [pick_ref c s _ hsc hsig henc (by rfl), hm]
       simp only [hoff, checkALPN_of_rule _ _ _ ha, Bool.not_true, Bool.false_eq_true, if_false]
       have hne : (KeyKind.sm2 != KeyKind.sm2) = false := by decide
       simp only [hne, Bool.false_eq_true, if_false, (authStage_ref c s suite hmem).1 hao]
       simp [docVersion, sniOf])
    | (simp only [hoff, hr3, checkALPN_of_rule _ _ _ ha, Bool.not_true, Bool.false_eq_true, if_false]
       simp [docVersion, sniOf, hr3])


/-! ### consequences used by the property theorems -/

/-- success or failure, and the agreed parameters on success -/
def outcome (r : Except Failure Agreed) : Option Agreed := r.toOption

/-- the failure, if any -/
def failureOf : Except Failure Agreed → Option Failure
  | .ok _ => none
  | .error e => some e

theorem outcome_ref (c : ClientCfg) (s : ServerCfg) :
    outcome (negotiate refParams c s) = if compatible c s then some (expected c s) else none := by
  obtain ⟨h1, h2⟩ := negotiate_ref c s
  cases hc : compatible c s with
  | true => rw [h1 hc]; rfl
  | false =>
    have := h2 hc
    cases hn : negotiate refParams c s with
    | error e => rfl
    | ok a => rw [hn] at this; simp [isOk] at this

/-- the spec looks at configured suites only through membership -/
theorem usable_congr (c c' : ClientCfg) (s s' : ServerCfg)
    (hc : ∀ id, enabled c.suites id = enabled c'.suites id)
    (hs : ∀ id, enabled s.suites id = enabled s'.suites id)
    (h1 : clientHasSig c = clientHasSig c') (h2 : clientHasEnc c = clientHasEnc c')
    (h3 : serverHasKeys s = serverHasKeys s') (id : Nat) :
    usable c s id = usable c' s' id := by
  unfold usable
  rw [hc, hs, h1, h2, h3]

theorem enabled_perm (l l' : List Nat) (h : l.Perm l') (id : Nat) :
    enabled (some l) id = enabled (some l') id := by
  unfold enabled
  exact h.contains_eq

end Gotlcp.Lemmas.Negotiate

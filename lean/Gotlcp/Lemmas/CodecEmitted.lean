/-
Lemmas for C14: what the constructors emit lies within the standard's ranges.
-/
import Gotlcp.Model.CodecEmitted
import Gotlcp.Spec.CodecSpec

set_option linter.unusedSimpArgs false
set_option linter.unusedVariables false

namespace Gotlcp.Lemmas.CodecEmitted
open Gotlcp Gotlcp.Wire Gotlcp.Wire.Msg Gotlcp.Model.Emitted
open Gotlcp.Spec.Codec (Stack Kind)

/-- what the statements need of the constants -/
structure GoodParams (p : EmitParams) : Prop where
  rnd : p.randLen = 32
  sid : p.sidLen ≤ 32
  suites : p.suites.length < 32768
  types : 0 < p.certTypes.length ∧ p.certTypes.length < 256
  fin : p.finishedLen = 12

theorem emitted_wf_clientHello (p : EmitParams) (gp : GoodParams p) (st : Stack) (m : ClientHello)
    (h : emittedClientHello p (decide (st = .dtlcp)) m = true) : Spec.Codec.wfClientHello st m = true := by
  simp only [emittedClientHello, Bool.and_eq_true, beq_iff_eq, decide_eq_true_eq, List.all_eq_true] at h
  obtain ⟨⟨⟨⟨⟨⟨⟨⟨⟨⟨⟨⟨⟨h1, h2⟩, h3⟩, h4⟩, h5⟩, h6⟩, h7⟩, h8⟩, h9⟩, h10⟩, h11⟩, h12⟩, h13⟩, h14⟩ := h
  have g1 := gp.rnd; have g2 := gp.sid; have g3 := gp.suites
  simp only [Spec.Codec.wfClientHello, Bool.and_eq_true, beq_iff_eq, decide_eq_true_eq, Spec.Codec.allB,
    List.all_eq_true]
  refine ⟨⟨⟨⟨⟨⟨⟨⟨by omega, by omega⟩, ?_⟩, by omega⟩, by rw [h7]; simp⟩, h8⟩, h9⟩, h12⟩, h14⟩
  cases st
  · simpa using h4
  · simpa using h4

theorem emitted_wf_serverHello (p : EmitParams) (gp : GoodParams p) (m : ServerHello)
    (h : emittedServerHello p m = true) : Spec.Codec.wfServerHello m = true := by
  simp only [emittedServerHello, Bool.and_eq_true, beq_iff_eq, decide_eq_true_eq] at h
  obtain ⟨⟨⟨⟨⟨⟨⟨⟨h1, h2⟩, h3⟩, h4⟩, h5⟩, h6⟩, h7⟩, h8⟩, h9⟩ := h
  have g1 := gp.rnd; have g2 := gp.sid
  simp only [Spec.Codec.wfServerHello, Bool.and_eq_true, beq_iff_eq, decide_eq_true_eq]
  exact ⟨⟨⟨⟨⟨by omega, by omega⟩, h6⟩, h7⟩, h8⟩, h9⟩

theorem emitted_wf_certificate (m : Certificate) (h : emittedCertificate m = true) :
    Spec.Codec.wfCertificate m = true := by
  simp only [emittedCertificate, Bool.and_eq_true, decide_eq_true_eq] at h
  simp only [Spec.Codec.wfCertificate, Spec.Codec.allB, Bool.and_eq_true, decide_eq_true_eq]
  exact ⟨h.1.2, h.2⟩

theorem emitted_wf_certificateRequest (p : EmitParams) (gp : GoodParams p) (m : CertificateRequest)
    (h : emittedCertificateRequest p m = true) : Spec.Codec.wfCertificateRequest m = true := by
  simp only [emittedCertificateRequest, Bool.and_eq_true, beq_iff_eq, decide_eq_true_eq] at h
  obtain ⟨⟨h1, h2⟩, h3⟩ := h
  have g := gp.types
  have hl : m.types.length = p.certTypes.length := by rw [h1]; simp
  simp only [Spec.Codec.wfCertificateRequest, Spec.Codec.allB, Bool.and_eq_true, decide_eq_true_eq]
  exact ⟨⟨by omega, h2⟩, h3⟩

theorem emitted_wf_keyExchange (k : Kind) (hk : k = .clientKeyExchange ∨ k = .serverKeyExchange) (m : Blob)
    (h : emittedKeyExchange m = true) : Spec.Codec.wfBlob k m = true := by
  simp only [emittedKeyExchange, decide_eq_true_eq] at h
  rcases hk with hk | hk <;> subst hk <;> simp [Spec.Codec.wfBlob, h.2]

theorem emitted_wf_certificateVerify (m : Blob) (h : emittedCertificateVerify m = true) :
    Spec.Codec.wfBlob .certificateVerify m = true := by
  simp only [emittedCertificateVerify, decide_eq_true_eq] at h
  simp [Spec.Codec.wfBlob, h.2]

theorem emitted_wf_finished (p : EmitParams) (gp : GoodParams p) (m : Blob) (h : emittedFinished p m = true) :
    Spec.Codec.wfBlob .finished m = true := by
  simp only [emittedFinished, beq_iff_eq] at h
  simp [Spec.Codec.wfBlob, h, gp.fin]

theorem emitted_wf_helloVerifyRequest (p : EmitParams) (m : HelloVerifyRequest)
    (h : emittedHelloVerifyRequest p m = true) : Spec.Codec.wfHelloVerifyRequest m = true := by
  simp only [emittedHelloVerifyRequest, Bool.and_eq_true, beq_iff_eq, decide_eq_true_eq] at h
  simp [Spec.Codec.wfHelloVerifyRequest, h.2.2]

theorem wfDHdr_of_emitted {h : DHdr} {n : Nat} (he : emittedDHdr h = true) (hn : n < 16777216) :
    Spec.Codec.wfDHdr h n = true := by
  simp only [emittedDHdr, Bool.and_eq_true, beq_iff_eq] at he
  simp [Spec.Codec.wfDHdr, he.1, he.2, hn]

end Gotlcp.Lemmas.CodecEmitted

/-
Helper lemmas for C16: the representation invariant tying the 64-bit bitmap of
`Gotlcp.Model.Replay.Window` to the set of accepted sequence numbers of
`Gotlcp.Spec.ReplaySpec`, and its preservation by `check`.
-/
import Gotlcp.Model.Replay
import Gotlcp.Spec.ReplaySpec

namespace Gotlcp.Lemmas.Replay
open Gotlcp.Model.Replay
open Gotlcp.Spec

/-! ### bits of a `uint64` -/

theorem bit_one (i : Nat) : (1#64).getLsbD i = decide (i = 0) := by
  rw [BitVec.getLsbD_one]; simp

theorem bit_one_shl (d i : Nat) : (1#64 <<< d).getLsbD i = decide (i = d ∧ i < 64) := by
  rw [BitVec.getLsbD_shiftLeft, bit_one]
  by_cases h : i = d ∧ i < 64
  · obtain ⟨h1, h2⟩ := h; subst h1; simp [h2]
  · rw [decide_eq_false h]
    by_cases h64 : i < 64
    · have hne : i ≠ d := fun e => h ⟨e, h64⟩
      by_cases hlt : i < d
      · simp [hlt]
      · have : i - d ≠ 0 := by omega
        simp [this]
    · simp [h64]

theorem and_bit_ne_zero (x : BitVec 64) (d : Nat) (hd : d < 64) :
    (x &&& (1#64 <<< d) ≠ 0#64) ↔ x.getLsbD d = true := by
  constructor
  · intro h
    cases hx : x.getLsbD d with
    | true => rfl
    | false =>
      exfalso; apply h
      apply BitVec.eq_of_getLsbD_eq
      intro i hi
      rw [BitVec.getLsbD_and, bit_one_shl, BitVec.getLsbD_zero]
      by_cases e : i = d
      · subst e; simp [hx]
      · have : ¬ (i = d ∧ i < 64) := fun c => e c.1
        rw [decide_eq_false this]; simp
  · intro hx h0
    have : (x &&& (1#64 <<< d)).getLsbD d = true := by
      rw [BitVec.getLsbD_and, bit_one_shl, hx]; simp [hd]
    rw [h0, BitVec.getLsbD_zero] at this
    exact Bool.false_ne_true this

/-! ### the reference's `newest` -/

theorem newest_ge (seen : List Nat) : ∀ x ∈ seen, x ≤ ReplaySpec.newest seen := by
  induction seen with
  | nil => intro x hx; cases hx
  | cons y ys ih =>
    intro x hx
    simp only [ReplaySpec.newest]
    cases hx with
    | head => exact Nat.le_max_left _ _
    | tail _ h => exact Nat.le_trans (ih x h) (Nat.le_max_right _ _)

theorem newest_le (seen : List Nat) (r : Nat) (h : ∀ x ∈ seen, x ≤ r) : ReplaySpec.newest seen ≤ r := by
  induction seen with
  | nil => simp [ReplaySpec.newest]
  | cons y ys ih =>
    simp only [ReplaySpec.newest]
    have h1 : y ≤ r := h y (List.mem_cons_self)
    have h2 := ih (fun x hx => h x (List.mem_cons_of_mem _ hx))
    exact Nat.max_le.mpr ⟨h1, h2⟩

/-! ### representation invariant -/

/-- `W` is the width `check` compares distances with (`span`), `seen` the set of sequence
numbers accepted so far. -/
structure Inv (W : Nat) (seen : List Nat) (w : Window) : Prop where
  /-- a set bit stands for an accepted number -/
  sound : ∀ i, w.bitmap.getLsbD i = true → i ≤ w.right ∧ (w.right - i) ∈ seen
  /-- inside the width every accepted number has its bit -/
  complete : ∀ i, i < W → i ≤ w.right → (w.right - i) ∈ seen → w.bitmap.getLsbD i = true
  /-- nothing accepted lies right of the edge -/
  le : ∀ x ∈ seen, x ≤ w.right
  /-- the edge is the newest accepted number (0 before the first) -/
  top : (seen = [] ∧ w.right = 0) ∨ w.right ∈ seen

theorem Inv.newest_eq {W : Nat} {seen : List Nat} {w : Window} (h : Inv W seen w) :
    ReplaySpec.newest seen = w.right := by
  apply Nat.le_antisymm (newest_le seen w.right h.le)
  cases h.top with
  | inl e => omega
  | inr m => exact newest_ge seen _ m

theorem inv_new (p : Params) (n : Int) (W : Nat) : Inv W [] (newWindow p n) := by
  refine ⟨?_, ?_, ?_, Or.inl ⟨rfl, rfl⟩⟩
  · intro i hi
    simp [newWindow] at hi
  · intro i _ _ hm; cases hm
  · intro x hx; cases hx

/-! `check`, one equation per branch of the Go function -/

theorem check_right (p : Params) (w : Window) (s : Nat) (h : s > w.right) :
    check p w s = ({ right := s, size := w.size,
                     bitmap := (if s - w.right ≥ span p w then 0#64 else w.bitmap <<< (s - w.right)) ||| 1#64 }, true) := by
  simp only [check, h, if_true]

theorem check_left (p : Params) (w : Window) (s : Nat) (h : ¬ s > w.right) (hd : w.right - s ≥ span p w) :
    check p w s = (w, false) := by
  simp only [check, h, hd, if_true, if_false]

theorem check_dup (p : Params) (w : Window) (s : Nat) (h : ¬ s > w.right) (hd : ¬ w.right - s ≥ span p w)
    (hb : w.bitmap &&& (1#64 <<< (w.right - s)) ≠ 0#64) : check p w s = (w, false) := by
  simp only [check, h, hd, hb, if_true, if_false, ne_eq, not_false_eq_true]

theorem check_fresh (p : Params) (w : Window) (s : Nat) (h : ¬ s > w.right) (hd : ¬ w.right - s ≥ span p w)
    (hb : ¬ w.bitmap &&& (1#64 <<< (w.right - s)) ≠ 0#64) :
    check p w s = ({ right := w.right, size := w.size, bitmap := w.bitmap ||| (1#64 <<< (w.right - s)) }, true) := by
  simp only [check, h, hd, hb, if_false]

theorem check_size (p : Params) (w : Window) (s : Nat) : (check p w s).1.size = w.size := by
  by_cases h : s > w.right
  · rw [check_right p w s h]
  · by_cases hd : w.right - s ≥ span p w
    · rw [check_left p w s h hd]
    · by_cases hb : w.bitmap &&& (1#64 <<< (w.right - s)) ≠ 0#64
      · rw [check_dup p w s h hd hb]
      · rw [check_fresh p w s h hd hb]

theorem check_span (p : Params) (w : Window) (s : Nat) : span p (check p w s).1 = span p w := by
  unfold span
  rw [check_size]

theorem accept_eq (W : Nat) (seen : List Nat) (s r : Nat) (hr : ReplaySpec.newest seen = r) :
    ReplaySpec.accept W seen s = (!seen.contains s && (decide (s > r) || decide (r - s < W))) := by
  unfold ReplaySpec.accept; rw [hr]

/-- One step: with a width of at most 64 the answer of `check` is the reference's, and the
invariant is carried to the reference's next state. -/
theorem check_step (p : Params) (w : Window) (seen : List Nat) (s : Nat)
    (hW : span p w ≤ 64) (h : Inv (span p w) seen w) :
    (check p w s).2 = ReplaySpec.accept (span p w) seen s ∧
    Inv (span p w) (ReplaySpec.step (span p w) seen s).1 (check p w s).1 := by
  have hnew := h.newest_eq
  unfold ReplaySpec.step
  rw [accept_eq _ _ _ _ hnew]
  by_cases hgt : s > w.right
  · -- 情况1
    rw [check_right p w s hgt]
    have hns : seen.contains s = false := by
      cases hc : seen.contains s with
      | false => rfl
      | true =>
        have := h.le s (by simpa using hc)
        omega
    simp only [hns, hgt, decide_true, Bool.not_false, Bool.true_or, Bool.and_self, if_true, true_and]
    refine ⟨?_, ?_, ?_, Or.inr (List.mem_cons_self)⟩
    · -- sound
      intro i hi
      dsimp only at hi ⊢
      simp only [BitVec.getLsbD_or, bit_one, Bool.or_eq_true, decide_eq_true_eq] at hi
      cases hi with
      | inr h0 => subst h0; exact ⟨Nat.zero_le _, by simp⟩
      | inl hb =>
        split at hb
        · simp at hb
        · rename_i hd
          rw [BitVec.getLsbD_shiftLeft] at hb
          simp only [Bool.and_eq_true, decide_eq_true_eq, Bool.not_eq_true', decide_eq_false_iff_not] at hb
          obtain ⟨⟨_, hge⟩, hb⟩ := hb
          obtain ⟨h1, h2⟩ := h.sound _ hb
          refine ⟨by omega, ?_⟩
          have e : s - i = w.right - (i - (s - w.right)) := by omega
          rw [e]; exact List.mem_cons_of_mem _ h2
    · -- complete
      intro i hiW his hm
      dsimp only at his hm ⊢
      simp only [BitVec.getLsbD_or, bit_one, Bool.or_eq_true, decide_eq_true_eq]
      by_cases hi0 : i = 0
      · exact Or.inr hi0
      · left
        have hm' : s - i ∈ seen := by
          rcases List.mem_cons.mp hm with e | hm'
          · omega
          · exact hm'
        have hle := h.le _ hm'
        split
        · rename_i hd; omega
        · rename_i hd
          rw [BitVec.getLsbD_shiftLeft]
          have hb := h.complete (i - (s - w.right)) (by omega) (by omega)
            (by have e : w.right - (i - (s - w.right)) = s - i := by omega
                rw [e]; exact hm')
          have h64 : i < 64 := by omega
          have hnl : ¬ i < s - w.right := by omega
          simp [h64, hnl, hb]
    · intro x hx
      dsimp only
      rcases List.mem_cons.mp hx with e | hx
      · omega
      · have := h.le x hx; omega
  · have hle : s ≤ w.right := Nat.le_of_not_gt hgt
    by_cases hd : w.right - s ≥ span p w
    · -- 情况2
      rw [check_left p w s hgt hd]
      have : ¬ w.right - s < span p w := by omega
      simp [hgt, this, h]
    · have hlt : w.right - s < span p w := by omega
      have h64 : w.right - s < 64 := by omega
      have e : w.right - (w.right - s) = s := by omega
      by_cases hbit : w.bitmap &&& (1#64 <<< (w.right - s)) ≠ 0#64
      · -- 情况3, duplicate
        rw [check_dup p w s hgt hd hbit]
        rw [and_bit_ne_zero _ _ h64] at hbit
        obtain ⟨_, hm⟩ := h.sound _ hbit
        rw [e] at hm
        simp [hm, h]
      · -- 情况3, fresh
        rw [check_fresh p w s hgt hd hbit]
        rw [and_bit_ne_zero _ _ h64] at hbit
        have hns : seen.contains s = false := by
          cases hc : seen.contains s with
          | false => rfl
          | true =>
            exfalso; apply hbit
            apply h.complete _ hlt (by omega)
            rw [e]; simpa using hc
        simp only [hns, hlt, decide_true, Bool.not_false, Bool.or_true, Bool.and_self, if_true, true_and]
        refine ⟨?_, ?_, ?_, ?_⟩
        · intro i hi
          dsimp only at hi ⊢
          simp only [BitVec.getLsbD_or, bit_one_shl, Bool.or_eq_true, decide_eq_true_eq] at hi
          cases hi with
          | inl hb =>
            obtain ⟨h1, h2⟩ := h.sound _ hb
            exact ⟨h1, List.mem_cons_of_mem _ h2⟩
          | inr he =>
            obtain ⟨he, _⟩ := he
            subst he
            refine ⟨by omega, ?_⟩
            rw [e]; exact List.mem_cons_self
        · intro i hiW hir hm
          dsimp only at hir hm ⊢
          simp only [BitVec.getLsbD_or, bit_one_shl, Bool.or_eq_true, decide_eq_true_eq]
          rcases List.mem_cons.mp hm with heq | hm'
          · right; omega
          · exact Or.inl (h.complete i hiW hir hm')
        · intro x hx
          dsimp only
          rcases List.mem_cons.mp hx with heq | hx
          · omega
          · exact h.le x hx
        · right
          dsimp only
          cases h.top with
          | inl e0 =>
            have : s = w.right := by omega
            rw [this]; exact List.mem_cons_self
          | inr m => exact List.mem_cons_of_mem _ m

/-- all histories: the answers are the reference's -/
theorem run_refines (p : Params) (ss : List Nat) : ∀ (w : Window) (seen : List Nat),
    span p w ≤ 64 → Inv (span p w) seen w →
    (run p w ss).2 = (ReplaySpec.run (span p w) seen ss).2 := by
  induction ss with
  | nil => intro w seen _ _; rfl
  | cons s ss ih =>
    intro w seen hW h
    obtain ⟨h1, h2⟩ := check_step p w seen s hW h
    simp only [run, ReplaySpec.run]
    have hs := check_span p w s
    have ih' := ih (check p w s).1 (ReplaySpec.step (span p w) seen s).1 (by rw [hs]; exact hW) (by rw [hs]; exact h2)
    rw [hs] at ih'
    rw [ih']
    congr 1
    rw [h1]
    unfold ReplaySpec.step
    split <;> simp_all

/-- all histories: what is accepted is new -/
theorem accepted_fresh (p : Params) (ss : List Nat) : ∀ (w : Window) (seen : List Nat),
    span p w ≤ 64 → Inv (span p w) seen w →
    (accepted p w ss).Nodup ∧ ∀ x ∈ accepted p w ss, x ∉ seen := by
  induction ss with
  | nil => intro w seen _ _; exact ⟨List.nodup_nil, fun x hx => by cases hx⟩
  | cons s ss ih =>
    intro w seen hW h
    obtain ⟨h1, h2⟩ := check_step p w seen s hW h
    have hs := check_span p w s
    have ih' := ih (check p w s).1 (ReplaySpec.step (span p w) seen s).1 (by rw [hs]; exact hW) (by rw [hs]; exact h2)
    simp only [accepted]
    cases hb : (check p w s).2 with
    | false =>
      simp only [Bool.false_eq_true, if_false]
      have hacc : ReplaySpec.accept (span p w) seen s = false := by rw [← h1]; exact hb
      simp only [ReplaySpec.step, hacc, Bool.false_eq_true, if_false] at ih'
      exact ih'
    | true =>
      simp only [if_true]
      have hacc : ReplaySpec.accept (span p w) seen s = true := by rw [← h1]; exact hb
      simp only [ReplaySpec.step, hacc, if_true] at ih'
      obtain ⟨hn, hf⟩ := ih'
      have hsn : s ∉ seen := by
        unfold ReplaySpec.accept at hacc
        simp only [Bool.and_eq_true, Bool.not_eq_true'] at hacc
        intro hm
        have : seen.contains s = true := by simpa using hm
        rw [this] at hacc
        exact Bool.noConfusion hacc.1
      refine ⟨List.nodup_cons.mpr ⟨fun hm => hf s hm (List.mem_cons_self), hn⟩, ?_⟩
      intro x hx
      cases hx with
      | head => exact hsn
      | tail _ hx => exact fun hm => hf x hx (List.mem_cons_of_mem _ hm)

/-! ### the reference satisfies the property for every demanded width not above its own -/

theorem reference_judged_ok (W Wmin : Nat) (hmin : Wmin ≤ W) (ss : List Nat) : ∀ (i : Nat) (seen : List Nat),
    ReplaySpec.judgeFrom Wmin i seen (ss.zip (ReplaySpec.run W seen ss).2) = none := by
  induction ss with
  | nil => intro i seen; rfl
  | cons s ss ih =>
    intro i seen
    simp only [ReplaySpec.run, ReplaySpec.step]
    cases hacc : ReplaySpec.accept W seen s with
    | true =>
      simp only [if_true, List.zip_cons_cons, ReplaySpec.judgeFrom]
      have hc : seen.contains s = false := by
        unfold ReplaySpec.accept at hacc
        simp only [Bool.and_eq_true, Bool.not_eq_true'] at hacc
        exact hacc.1
      simp only [hc, Bool.and_false, Bool.false_eq_true, if_false, Bool.not_true, Bool.false_and]
      exact ih (i + 1) (s :: seen)
    | false =>
      simp only [Bool.false_eq_true, if_false, List.zip_cons_cons, ReplaySpec.judgeFrom, Bool.false_and,
        Bool.not_false, Bool.true_and]
      have : (!seen.contains s && (decide (s > ReplaySpec.newest seen) || decide (ReplaySpec.newest seen - s < Wmin))) = false := by
        unfold ReplaySpec.accept at hacc
        cases hc : seen.contains s with
        | true => simp
        | false =>
          rw [hc] at hacc
          simp only [Bool.not_false, Bool.true_and, Bool.or_eq_false_iff, decide_eq_false_iff_not] at hacc ⊢
          exact ⟨hacc.1, by omega⟩
      rw [this]
      simp only [Bool.false_eq_true, if_false]
      exact ih (i + 1) seen

/-! ### parameters for which the width is `clamp size` -/

/-- the regenerated parameters describe a tree in which the width can never exceed the
64 bits of the bitmap: floor 32, and a ceiling of 64 in `newReplayWindow` or in `check` -/
def goodParams (p : Params) : Bool :=
  p.floor == 32 &&
  (p.newCeil == some 64 || p.spanCeil == some 64) &&
  (p.newCeil == none || p.newCeil == some 64) &&
  (p.spanCeil == none || p.spanCeil == some 64)

theorem span_new (p : Params) (hp : goodParams p = true) (n : Int) :
    span p (newWindow p n) = ReplaySpec.clamp n := by
  obtain ⟨fl, nc, sc, df⟩ := p
  simp only [goodParams, Bool.and_eq_true, Bool.or_eq_true, beq_iff_eq] at hp
  obtain ⟨⟨⟨hf, h1⟩, h2⟩, h3⟩ := hp
  subst hf
  unfold span newWindow ReplaySpec.clamp
  rcases h2 with h2 | h2 <;> rcases h3 with h3 | h3 <;> subst h2 <;> subst h3 <;> simp at h1 ⊢ <;>
    (repeat' split) <;> omega

end Gotlcp.Lemmas.Replay

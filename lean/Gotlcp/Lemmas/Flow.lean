/-
Helper lemmas for C08.

* `accepts_eq_of_bisim`: two acceptors related by a bisimulation (given as a finite list of
  pairs of control states, closed under every symbol of the alphabet) accept the same words —
  for ALL words, by induction; the counter of ignorable records is handled once, generically.
* `specAuto`: the standard language `Spec.StandardFlow.inLang` as such an acceptor
  (derivatives of the set of legal flows), with `specAuto_correct`.
* structural facts about the standard language (`core`, no trailing symbols, the bound on
  consecutive warning alerts) used by the corollaries.
-/
import Gotlcp.Model.Flow
import Gotlcp.Spec.StandardFlow

namespace Gotlcp.Lemmas.Flow
open Gotlcp.Flow
open Gotlcp.Model.Flow
open Gotlcp.Spec.StandardFlow

/-! ### generic -/

theorem runFrom_dead {Q : Type} (A : Auto Q) (max : Nat) (w : List Kind) :
    A.runFrom max .dead w = .dead := by
  induction w with
  | nil => rfl
  | cons k ks ih => simpa [Auto.runFrom, Auto.feed] using ih

theorem runFrom_cons {Q : Type} (A : Auto Q) (max : Nat) (s : St Q) (k : Kind) (ks : List Kind) :
    A.runFrom max s (k :: ks) = A.runFrom max (A.feed max s k) ks := rfl

/-- outcomes related by `R` -/
def relOut {Q1 Q2 : Type} (R : Q1 → Q2 → Bool) : Outcome Q1 → Outcome Q2 → Bool
  | .retry a, .retry b => R a b
  | .goOn a r, .goOn b r' => (r == r') && R a b
  | .fail, .fail => true
  | _, _ => false

/-- the finite check: every related pair steps to related outcomes on every symbol and agrees on acceptance -/
def checkPairs {Q1 Q2 : Type} [DecidableEq Q1] [DecidableEq Q2] (A : Auto Q1) (B : Auto Q2)
    (pairs : List (Q1 × Q2)) : Bool :=
  pairs.all fun p =>
    (A.accepting p.1 == B.accepting p.2) &&
    Kind.all.all fun k => relOut (fun a b => pairs.contains (a, b)) (A.next p.1 k) (B.next p.2 k)

theorem accepts_eq_of_bisim {Q1 Q2 : Type} [DecidableEq Q1] [DecidableEq Q2]
    (A : Auto Q1) (B : Auto Q2) (pairs : List (Q1 × Q2)) (h : checkPairs A B pairs = true)
    (max : Nat) (w : List Kind) :
    ∀ (a : Q1) (b : Q2) (n : Nat), pairs.contains (a, b) = true →
      A.acceptingSt (A.runFrom max (.run a n) w) = B.acceptingSt (B.runFrom max (.run b n) w) := by
  induction w with
  | nil =>
    intro a b n hab
    have hm : (a, b) ∈ pairs := by simpa using hab
    have := (List.all_eq_true.mp h) (a, b) hm
    simp only [Bool.and_eq_true, beq_iff_eq] at this
    simpa [Auto.runFrom, Auto.acceptingSt] using this.1
  | cons k ks ih =>
    intro a b n hab
    have hm : (a, b) ∈ pairs := by simpa using hab
    have hp := (List.all_eq_true.mp h) (a, b) hm
    simp only [Bool.and_eq_true] at hp
    have hk := (List.all_eq_true.mp hp.2) k (Kind.mem_all k)
    rw [runFrom_cons, runFrom_cons]
    simp only [Auto.feed]
    cases hA : A.next a k with
    | retry a' =>
      cases hB : B.next b k with
      | retry b' =>
        rw [hA, hB] at hk
        simp only [relOut] at hk
        by_cases hn : n + 1 > max
        · simp [hn, runFrom_dead, Auto.acceptingSt]
        · simp only [hn, if_false]
          exact ih a' b' (n + 1) hk
      | goOn b' r => rw [hA, hB] at hk; simp [relOut] at hk
      | fail => rw [hA, hB] at hk; simp [relOut] at hk
    | goOn a' r =>
      cases hB : B.next b k with
      | retry b' => rw [hA, hB] at hk; simp [relOut] at hk
      | goOn b' r' =>
        rw [hA, hB] at hk
        simp only [relOut, Bool.and_eq_true, beq_iff_eq] at hk
        obtain ⟨hr, hR⟩ := hk
        subst hr
        exact ih a' b' _ hR
      | fail => rw [hA, hB] at hk; simp [relOut] at hk
    | fail =>
      cases hB : B.next b k with
      | retry b' => rw [hA, hB] at hk; simp [relOut] at hk
      | goOn b' r => rw [hA, hB] at hk; simp [relOut] at hk
      | fail => simp [runFrom_dead, Auto.acceptingSt]

/-- pairs reachable from `todo`, breadth first (`fuel` bounds the number of rounds) -/
def closure {Q1 Q2 : Type} [DecidableEq Q1] [DecidableEq Q2] (A : Auto Q1) (B : Auto Q2) :
    Nat → List (Q1 × Q2) → List (Q1 × Q2) → List (Q1 × Q2)
  | 0, _, seen => seen
  | _ + 1, [], seen => seen
  | fuel + 1, p :: todo, seen =>
    if seen.contains p then closure A B fuel todo seen else
    let succ := Kind.all.filterMap fun k =>
      match A.next p.1 k, B.next p.2 k with
      | .retry a, .retry b => some (a, b)
      | .goOn a _, .goOn b _ => some (a, b)
      | _, _ => none
    closure A B fuel (todo ++ succ) (seen ++ [p])

/-- the pairs reachable from `(a, b)` contain it and form a bisimulation -/
def bisimFrom {Q1 Q2 : Type} [DecidableEq Q1] [DecidableEq Q2] (A : Auto Q1) (B : Auto Q2) (a : Q1) (b : Q2) : Bool :=
  (closure A B 400 [(a, b)] []).contains (a, b) && checkPairs A B (closure A B 400 [(a, b)] [])

theorem accepts_eq_of_bisimFrom {Q1 Q2 : Type} [DecidableEq Q1] [DecidableEq Q2]
    (A : Auto Q1) (B : Auto Q2) (a : Q1) (b : Q2) (h : bisimFrom A B a b = true)
    (max : Nat) (w : List Kind) : A.accepts max a w = B.accepts max b w := by
  unfold bisimFrom at h
  simp only [Bool.and_eq_true] at h
  exact accepts_eq_of_bisim A B _ h.2 max w a b 0 h.1

/-! ### the standard language as an acceptor -/

abbrev Flows := List (List Kind)

def deriv (F : Flows) (k : Kind) : Flows :=
  F.filterMap fun f => match f with
    | x :: xs => if k = x then some xs else none
    | [] => none

def specNext (F : Flows) (k : Kind) : Outcome Flows :=
  if k = .warningAlert then
    let F' := F.filter (fun f => !f.isEmpty)
    if F'.isEmpty then .fail else .retry F'
  else
    let F' := deriv F k
    if F'.isEmpty then .fail else .goOn F' k.isHandshake

def specAuto : Auto Flows := { next := specNext, accepting := fun F => F.contains [] }

theorem matchFlow_nil_word (f : List Kind) (n : Nat) : matchFlow f [] n = f.isEmpty := by
  cases f <;> simp [matchFlow]

theorem any_isEmpty_eq_contains (F : Flows) : F.any (fun f => f.isEmpty) = F.contains [] := by
  induction F with
  | nil => rfl
  | cons f fs ih =>
    cases f with
    | nil => simp
    | cons x xs => simpa using ih

theorem any_matchFlow_nil (F : Flows) (n : Nat) :
    F.any (fun f => matchFlow f [] n) = F.contains [] := by
  have : (fun f => matchFlow f [] n) = (fun f : List Kind => f.isEmpty) := by
    funext f; exact matchFlow_nil_word f n
  rw [this]
  exact any_isEmpty_eq_contains F

theorem matchFlow_warn (f : List Kind) (ks : List Kind) (n : Nat) :
    matchFlow f (.warningAlert :: ks) n =
      (!f.isEmpty && (decide (n + 1 ≤ maxIgnorable) && matchFlow f ks (n + 1))) := by
  cases f with
  | nil => simp [matchFlow]
  | cons x xs => simp [matchFlow]

theorem matchFlow_other (f : List Kind) (k : Kind) (ks : List Kind) (n : Nat) (hk : k ≠ .warningAlert) :
    matchFlow f (k :: ks) n =
      (match f with
       | x :: xs => if k = x then matchFlow xs ks (if k.isHandshake then 0 else n) else false
       | [] => false) := by
  cases f with
  | nil => simp [matchFlow]
  | cons x xs => simp [matchFlow, hk]

theorem any_filter_nonempty (F : Flows) (g : List Kind → Bool) :
    (F.filter (fun f => !f.isEmpty)).any g = F.any (fun f => !f.isEmpty && g f) := by
  induction F with
  | nil => rfl
  | cons f fs ih =>
    cases f with
    | nil => simp [List.filter, ih]
    | cons x xs => simp [List.filter, ih]

theorem any_deriv (F : Flows) (k : Kind) (g : List Kind → Bool) :
    (deriv F k).any g = F.any (fun f => match f with
      | x :: xs => if k = x then g xs else false
      | [] => false) := by
  induction F with
  | nil => rfl
  | cons f fs ih =>
    cases f with
    | nil => simpa [deriv, List.filterMap] using ih
    | cons x xs =>
      by_cases hx : k = x
      · simp only [deriv, List.filterMap, hx, if_true, List.any_cons] at ih ⊢
        rw [ih]
      · simp only [deriv, List.filterMap, hx, if_false, List.any_cons, Bool.false_or] at ih ⊢
        rw [ih]

theorem any_false_of_isEmpty {α : Type} (l : List α) (g : α → Bool) (h : l.isEmpty = true) : l.any g = false := by
  cases l with
  | nil => rfl
  | cons a as => simp at h

theorem feed_warn (F : Flows) (n : Nat) :
    specAuto.feed maxIgnorable (.run F n) .warningAlert =
      (if (F.filter (fun f => !f.isEmpty)).isEmpty then .dead
       else if n + 1 > maxIgnorable then .dead else .run (F.filter (fun f => !f.isEmpty)) (n + 1)) := by
  simp only [Auto.feed, specAuto, specNext, if_true]
  by_cases he : (F.filter (fun f => !f.isEmpty)).isEmpty = true
  · simp [he]
  · simp [he]

theorem feed_other (F : Flows) (n : Nat) (k : Kind) (hk : k ≠ .warningAlert) :
    specAuto.feed maxIgnorable (.run F n) k =
      (if (deriv F k).isEmpty then .dead else .run (deriv F k) (if k.isHandshake then 0 else n)) := by
  simp only [Auto.feed, specAuto, specNext, hk, if_false]
  by_cases he : (deriv F k).isEmpty = true
  · simp [he]
  · simp [he]

/-- the derivative automaton computes exactly `matchFlow` on every member -/
theorem specAuto_run (w : List Kind) : ∀ (F : Flows) (n : Nat),
    specAuto.acceptingSt (specAuto.runFrom maxIgnorable (.run F n) w) = F.any (fun f => matchFlow f w n) := by
  induction w with
  | nil =>
    intro F n
    simp only [Auto.runFrom, List.foldl_nil, Auto.acceptingSt, specAuto]
    exact (any_matchFlow_nil F n).symm
  | cons k ks ih =>
    intro F n
    rw [runFrom_cons]
    by_cases hk : k = .warningAlert
    · subst hk
      have hrhs : F.any (fun f => matchFlow f (.warningAlert :: ks) n) =
          (F.filter (fun f => !f.isEmpty)).any (fun f => decide (n + 1 ≤ maxIgnorable) && matchFlow f ks (n + 1)) := by
        rw [any_filter_nonempty]
        congr 1
        funext f
        exact matchFlow_warn f ks n
      rw [hrhs, feed_warn]
      by_cases he : (F.filter (fun f => !f.isEmpty)).isEmpty = true
      · rw [if_pos he, runFrom_dead, any_false_of_isEmpty _ _ he]
        rfl
      · rw [if_neg he]
        by_cases hn : n + 1 > maxIgnorable
        · have hle : ¬ (n + 1 ≤ maxIgnorable) := by omega
          rw [if_pos hn, runFrom_dead]
          simp [Auto.acceptingSt, hle]
        · have hle : n + 1 ≤ maxIgnorable := by omega
          rw [if_neg hn]
          simp only [hle, decide_true, Bool.true_and]
          exact ih _ _
    · have hrhs : F.any (fun f => matchFlow f (k :: ks) n) =
          (deriv F k).any (fun f => matchFlow f ks (if k.isHandshake then 0 else n)) := by
        rw [any_deriv]
        congr 1
        funext f
        exact matchFlow_other f k ks n hk
      rw [hrhs, feed_other F n k hk]
      by_cases he : (deriv F k).isEmpty = true
      · rw [if_pos he, runFrom_dead, any_false_of_isEmpty _ _ he]
        rfl
      · rw [if_neg he]
        exact ih _ _

theorem specAuto_correct (F : Flows) (w : List Kind) :
    specAuto.accepts maxIgnorable F w = inLang F w := by
  simp only [Auto.accepts, inLang]
  exact specAuto_run w F 0

/-! ### structure of the standard language -/

/-- the word without its warning alerts -/
def core (w : List Kind) : List Kind := w.filter (fun k => k != .warningAlert)

theorem core_append (a b : List Kind) : core (a ++ b) = core a ++ core b := by
  simp [core, List.filter_append]

/-- a legal flow never contains a warning alert -/
def warnFree (f : List Kind) : Bool := f.all (fun k => k != .warningAlert)

theorem matchFlow_core : ∀ (w f : List Kind) (n : Nat), warnFree f = true → matchFlow f w n = true → core w = f := by
  intro w
  induction w with
  | nil =>
    intro f n _ h
    cases f with
    | nil => rfl
    | cons x xs => simp [matchFlow] at h
  | cons k ks ih =>
    intro f n hf h
    cases f with
    | nil => simp [matchFlow] at h
    | cons x xs =>
      by_cases hk : k = .warningAlert
      · subst hk
        simp only [matchFlow, if_true, Bool.and_eq_true, decide_eq_true_eq] at h
        have := ih (x :: xs) (n + 1) hf h.2
        simpa [core] using this
      · simp only [matchFlow, hk, if_false] at h
        by_cases hx : k = x
        · subst hx
          simp only [if_true] at h
          have hxs : warnFree xs = true := by
            simp only [warnFree, List.all_cons, Bool.and_eq_true] at hf
            exact hf.2
          have := ih xs _ hxs h
          simp only [core, List.filter] at this ⊢
          have hne : (k != Kind.warningAlert) = true := by simpa using hk
          simp [hne, this]
        · simp [hx] at h

theorem inLang_core (F : Flows) (hF : F.all warnFree = true) (w : List Kind) (h : inLang F w = true) :
    core w ∈ F := by
  simp only [inLang, List.any_eq_true] at h
  obtain ⟨f, hf, hm⟩ := h
  have hwf : warnFree f = true := (List.all_eq_true.mp hF) f hf
  rw [matchFlow_core w f 0 hwf hm]
  exact hf

/-- `m` warning alerts in a row need `n + m ≤ 16` -/
theorem matchFlow_warns (m : Nat) : ∀ (f b : List Kind) (n : Nat),
    matchFlow f (List.replicate m .warningAlert ++ b) n = true → m = 0 ∨ n + m ≤ maxIgnorable := by
  induction m with
  | zero => intro _ _ _ _; exact Or.inl rfl
  | succ m ih =>
    intro f b n h
    right
    cases f with
    | nil => simp [List.replicate, matchFlow] at h
    | cons x xs =>
      simp only [List.replicate, List.cons_append, matchFlow, if_true, Bool.and_eq_true, decide_eq_true_eq] at h
      rcases ih (x :: xs) b (n + 1) h.2 with h0 | hle
      · subst h0; omega
      · omega

theorem matchFlow_long_warn_run : ∀ (a f b : List Kind) (n : Nat),
    matchFlow f (a ++ List.replicate (maxIgnorable + 1) .warningAlert ++ b) n = false := by
  intro a
  induction a with
  | nil =>
    intro f b n
    cases hm : matchFlow f ([] ++ List.replicate (maxIgnorable + 1) Kind.warningAlert ++ b) n with
    | false => rfl
    | true =>
      rcases matchFlow_warns (maxIgnorable + 1) f b n (by simpa using hm) with h0 | hle
      · omega
      · omega
  | cons k ks ih =>
    intro f b n
    cases f with
    | nil => simp [matchFlow]
    | cons x xs =>
      simp only [List.cons_append, matchFlow]
      by_cases hk : k = .warningAlert
      · simp only [hk, if_true, Bool.and_eq_false_iff]
        right
        simpa using ih (x :: xs) b (n + 1)
      · simp only [hk, if_false]
        by_cases hx : k = x
        · simp only [hx, if_true]
          simpa using ih xs b _
        · simp [hx]

theorem inLang_long_warn_run (F : Flows) (a b : List Kind) :
    inLang F (a ++ List.replicate (maxIgnorable + 1) .warningAlert ++ b) = false := by
  simp only [inLang, List.any_eq_false]
  intro f _
  have := matchFlow_long_warn_run a f b 0
  simpa using this

end Gotlcp.Lemmas.Flow

namespace Gotlcp.Lemmas.Flow
open Gotlcp.Flow
open Gotlcp.Spec.StandardFlow

/-! ### corollaries about any set of warning-free flows -/

/-- no two equal adjacent symbols -/
def noAdjDup : List Kind → Bool
  | a :: b :: rest => (a != b) && noAdjDup (b :: rest)
  | _ => true

theorem noAdjDup_dup (x y : List Kind) (k : Kind) : noAdjDup (x ++ k :: k :: y) = false := by
  induction x with
  | nil => simp [noAdjDup]
  | cons a as ih =>
    cases as with
    | nil => simp only [List.cons_append, List.nil_append, noAdjDup] at ih ⊢; simp
    | cons b bs => simp only [List.cons_append, noAdjDup] at ih ⊢; simp [ih]

theorem core_warns (m : List Kind) (hm : ∀ x ∈ m, x = Kind.warningAlert) : core m = [] := by
  induction m with
  | nil => rfl
  | cons a as ih =>
    have ha : a = Kind.warningAlert := hm a (List.mem_cons_self ..)
    have := ih (fun x hx => hm x (List.mem_cons_of_mem _ hx))
    simp [core, ha] at this ⊢
    exact this

theorem core_single (k : Kind) (hk : k ≠ .warningAlert) : core [k] = [k] := by
  simp [core, hk]

/-- a repeated message (warning alerts in between or not) is never accepted -/
theorem inLang_repeat (F : Flows) (hF : F.all warnFree = true) (hD : F.all noAdjDup = true)
    (a m b : List Kind) (k : Kind) (hk : k ≠ .warningAlert) (hm : ∀ x ∈ m, x = Kind.warningAlert) :
    inLang F (a ++ [k] ++ m ++ [k] ++ b) = false := by
  cases h : inLang F (a ++ [k] ++ m ++ [k] ++ b) with
  | false => rfl
  | true =>
    have hc := inLang_core F hF _ h
    simp only [core_append, core_warns m hm, core_single k hk, List.append_nil] at hc
    have hd := (List.all_eq_true.mp hD) _ hc
    have : noAdjDup (core a ++ k :: k :: core b) = false := noAdjDup_dup _ _ _
    simp only [List.append_assoc, List.cons_append, List.nil_append] at hd
    rw [this] at hd
    exact absurd hd (by simp)

theorem mem_core (w : List Kind) (k : Kind) (hk : k ≠ .warningAlert) (h : k ∈ w) : k ∈ core w := by
  simp only [core, List.mem_filter]
  exact ⟨h, by simpa using hk⟩

/-- a message kind that occurs in no legal flow makes any word containing it unacceptable -/
theorem inLang_foreign (F : Flows) (hF : F.all warnFree = true) (k : Kind) (hk : k ≠ .warningAlert)
    (hnot : F.all (fun f => !f.contains k) = true) (w : List Kind) (hw : k ∈ w) : inLang F w = false := by
  cases h : inLang F w with
  | false => rfl
  | true =>
    have hc := inLang_core F hF _ h
    have := (List.all_eq_true.mp hnot) _ hc
    have hmem := mem_core w k hk hw
    simp at this
    exact absurd hmem this

/-- removing a message from a legal word never gives a legal word, provided no legal flow is
another legal flow with one symbol erased -/
def noOmission (F : Flows) : Bool :=
  F.all fun f => (List.range f.length).all fun j => !F.contains (f.eraseIdx j)

theorem eraseIdx_middle (x y : List Kind) (k : Kind) : (x ++ k :: y).eraseIdx x.length = x ++ y := by
  induction x with
  | nil => rfl
  | cons a as ih => simp [ih]

theorem inLang_omission (F : Flows) (hF : F.all warnFree = true) (hO : noOmission F = true)
    (a b : List Kind) (k : Kind) (hk : k ≠ .warningAlert)
    (h : inLang F (a ++ [k] ++ b) = true) : inLang F (a ++ b) = false := by
  cases h2 : inLang F (a ++ b) with
  | false => rfl
  | true =>
    have hc := inLang_core F hF _ h
    have hc2 := inLang_core F hF _ h2
    simp only [core_append, core_single k hk] at hc hc2
    have h1 := (List.all_eq_true.mp hO) _ hc
    have hlen : (core a).length < (core a ++ [k] ++ core b).length := by simp
    have h3 := (List.all_eq_true.mp h1) (core a).length (List.mem_range.mpr hlen)
    have he : (core a ++ [k] ++ core b).eraseIdx (core a).length = core a ++ core b := by
      have := eraseIdx_middle (core a) (core b) k
      simpa [List.append_assoc] using this
    rw [he] at h3
    simp at h3
    exact absurd hc2 h3

end Gotlcp.Lemmas.Flow

namespace Gotlcp.Lemmas.Flow
open Gotlcp.Flow
open Gotlcp.Model.Flow
open Gotlcp.Spec.StandardFlow

/-! ### flows with ignorable duplicates (DTLCP) as an acceptor -/

abbrev FlowsI := List (List Item)

def derivI (F : FlowsI) (k : Kind) : FlowsI :=
  F.filterMap fun f => match f with
    | (x, ign) :: xs => if k = x then some xs else if ign.contains k then some ((x, ign) :: xs) else none
    | [] => none

def specNextI (F : FlowsI) (k : Kind) : Outcome FlowsI :=
  if k = .warningAlert then
    let F' := F.filter (fun f => !f.isEmpty)
    if F'.isEmpty then .fail else .retry F'
  else
    let F' := derivI F k
    if F'.isEmpty then .fail else .goOn F' k.isHandshake

def specAutoI : Auto FlowsI := { next := specNextI, accepting := fun F => F.contains [] }

theorem matchItems_nil_word (f : List Item) (n : Nat) : matchItems f [] n = f.isEmpty := by
  cases f <;> simp [matchItems]

theorem anyI_isEmpty_eq_contains (F : FlowsI) : F.any (fun f => f.isEmpty) = F.contains [] := by
  induction F with
  | nil => rfl
  | cons f fs ih =>
    cases f with
    | nil => simp
    | cons x xs => simpa using ih

theorem matchItems_warn (f : List Item) (ks : List Kind) (n : Nat) :
    matchItems f (.warningAlert :: ks) n =
      (!f.isEmpty && (decide (n + 1 ≤ maxIgnorable) && matchItems f ks (n + 1))) := by
  cases f with
  | nil => simp [matchItems]
  | cons x xs => obtain ⟨a, ign⟩ := x; simp [matchItems]

theorem matchItems_other (f : List Item) (k : Kind) (ks : List Kind) (n : Nat) (hk : k ≠ .warningAlert) :
    matchItems f (k :: ks) n =
      (match f with
       | (x, ign) :: xs =>
         if k = x then matchItems xs ks (if k.isHandshake then 0 else n)
         else if ign.contains k then matchItems ((x, ign) :: xs) ks (if k.isHandshake then 0 else n) else false
       | [] => false) := by
  cases f with
  | nil => simp [matchItems]
  | cons x xs => obtain ⟨a, ign⟩ := x; simp [matchItems, hk]

theorem anyI_filter_nonempty (F : FlowsI) (g : List Item → Bool) :
    (F.filter (fun f => !f.isEmpty)).any g = F.any (fun f => !f.isEmpty && g f) := by
  induction F with
  | nil => rfl
  | cons f fs ih =>
    cases f with
    | nil => simp [List.filter, ih]
    | cons x xs => simp [List.filter, ih]

theorem any_derivI (F : FlowsI) (k : Kind) (g : List Item → Bool) :
    (derivI F k).any g = F.any (fun f => match f with
      | (x, ign) :: xs => if k = x then g xs else if ign.contains k then g ((x, ign) :: xs) else false
      | [] => false) := by
  induction F with
  | nil => rfl
  | cons f fs ih =>
    cases f with
    | nil => simpa [derivI, List.filterMap] using ih
    | cons x xs =>
      obtain ⟨a, ign⟩ := x
      by_cases hx : k = a
      · simp only [derivI, List.filterMap, hx, if_true, List.any_cons] at ih ⊢
        rw [ih]
      · by_cases hi : ign.contains k = true
        · simp only [derivI, List.filterMap, hx, if_false, hi, if_true, List.any_cons] at ih ⊢
          rw [ih]
        · simp only [derivI, List.filterMap, hx, if_false, hi, List.any_cons] at ih ⊢
          simp only [Bool.false_eq_true, if_false, Bool.false_or]
          rw [ih]

theorem feedI_warn (F : FlowsI) (n : Nat) :
    specAutoI.feed maxIgnorable (.run F n) .warningAlert =
      (if (F.filter (fun f => !f.isEmpty)).isEmpty then .dead
       else if n + 1 > maxIgnorable then .dead else .run (F.filter (fun f => !f.isEmpty)) (n + 1)) := by
  simp only [Auto.feed, specAutoI, specNextI, if_true]
  by_cases he : (F.filter (fun f => !f.isEmpty)).isEmpty = true
  · simp [he]
  · simp [he]

theorem feedI_other (F : FlowsI) (n : Nat) (k : Kind) (hk : k ≠ .warningAlert) :
    specAutoI.feed maxIgnorable (.run F n) k =
      (if (derivI F k).isEmpty then .dead else .run (derivI F k) (if k.isHandshake then 0 else n)) := by
  simp only [Auto.feed, specAutoI, specNextI, hk, if_false]
  by_cases he : (derivI F k).isEmpty = true
  · simp [he]
  · simp [he]

theorem specAutoI_run (w : List Kind) : ∀ (F : FlowsI) (n : Nat),
    specAutoI.acceptingSt (specAutoI.runFrom maxIgnorable (.run F n) w) = F.any (fun f => matchItems f w n) := by
  induction w with
  | nil =>
    intro F n
    simp only [Auto.runFrom, List.foldl_nil, Auto.acceptingSt, specAutoI]
    have : (fun f => matchItems f [] n) = (fun f : List Item => f.isEmpty) := by
      funext f; exact matchItems_nil_word f n
    rw [this]
    exact (anyI_isEmpty_eq_contains F).symm
  | cons k ks ih =>
    intro F n
    rw [runFrom_cons]
    by_cases hk : k = .warningAlert
    · subst hk
      have hrhs : F.any (fun f => matchItems f (.warningAlert :: ks) n) =
          (F.filter (fun f => !f.isEmpty)).any (fun f => decide (n + 1 ≤ maxIgnorable) && matchItems f ks (n + 1)) := by
        rw [anyI_filter_nonempty]
        congr 1
        funext f
        exact matchItems_warn f ks n
      rw [hrhs, feedI_warn]
      by_cases he : (F.filter (fun f => !f.isEmpty)).isEmpty = true
      · rw [if_pos he, runFrom_dead, any_false_of_isEmpty _ _ he]
        rfl
      · rw [if_neg he]
        by_cases hn : n + 1 > maxIgnorable
        · have hle : ¬ (n + 1 ≤ maxIgnorable) := by omega
          rw [if_pos hn, runFrom_dead]
          simp [Auto.acceptingSt, hle]
        · have hle : n + 1 ≤ maxIgnorable := by omega
          rw [if_neg hn]
          simp only [hle, decide_true, Bool.true_and]
          exact ih _ _
    · have hrhs : F.any (fun f => matchItems f (k :: ks) n) =
          (derivI F k).any (fun f => matchItems f ks (if k.isHandshake then 0 else n)) := by
        rw [any_derivI]
        congr 1
        funext f
        exact matchItems_other f k ks n hk
      rw [hrhs, feedI_other F n k hk]
      by_cases he : (derivI F k).isEmpty = true
      · rw [if_pos he, runFrom_dead, any_false_of_isEmpty _ _ he]
        rfl
      · rw [if_neg he]
        exact ih _ _

theorem specAutoI_correct (F : FlowsI) (w : List Kind) :
    specAutoI.accepts maxIgnorable F w = inLangI F w := by
  simp only [Auto.accepts, inLangI]
  exact specAutoI_run w F 0

end Gotlcp.Lemmas.Flow

/-
C14, property theorems about the TRANSLATED cryptobyte-based decoders (part Small; see DESIGN.md 12.4).
Same namespace as Props/C14.lean; listed in checks/C14.json under extra_props_files.

`Gotlcp.Src.tlcp.codec.*` / `Gotlcp.Src.dtlcp.codec.*` are regenerated from {tlcp,dtlcp}/handshake_messages.go
by `harness/cmd/go2lean` on every run (statement by statement; `cryptobyte.String` is the stub `cbString`
whose methods are specified in `Gotlcp.Tie.CbString`).  `Gotlcp.Tie.CodecSmall` / `CodecSmallDtlcp` prove each
decoder of this part equal to a closed form and the closed form equal to the hand model
(`Gotlcp.Model.Codec` / `Model.CodecDtlcp`, instantiated with the regenerated facts).  So for EVERY receiver
value and EVERY byte string the translated `finishedMsg.unmarshal`, `certificateVerifyMsg.unmarshal` (both
stacks) and `helloVerifyRequestMsg.unmarshal` return `(m', true)` with the model's fields exactly when the model
accepts and `(m', false)` exactly when it refuses; the round-trip / strictness / re-encoding theorems of
Props/C14.lean, stated about the model, are restated below for the source text.  `dtlcpUnmarshalHeader` and
`readUint64` are specified directly.
-/
import Gotlcp.Props.C14
import Gotlcp.Tie.CodecSmall
import Gotlcp.Tie.CodecSmallDtlcp

namespace Gotlcp.Props.C14
open Gotlcp Gotlcp.Wire Gotlcp.Wire.Msg
open Gotlcp.Model.Codec

/-! ## tlcp -/

section SrcSmallTlcp
open Gotlcp.Tie.UnmarshalTlcpCodec Gotlcp.Tie.CodecSmall

/-- the literals in the translated text (message types 20 and 15) are the regenerated facts the model is
instantiated with, and both decoders are in the guarded list -/
theorem C14_src_codes_small_tlcp :
    Src.untranslated = [] ∧
    u8 codesT.tFinished = UInt8.ofBitVec 20#8 ∧ u8 codesT.tCertificateVerify = UInt8.ofBitVec 15#8 ∧
    codesT.complete.contains codesT.tFinished = true ∧ codesT.complete.contains codesT.tCertificateVerify = true := by
  decide

/-- `finishedMsg.unmarshal`: the exact result for every receiver and every byte string (also says what is
left in the receiver on refusal: untouched when the guard refuses, `raw` set and `verifyData` kept when the
vector cannot be read) -/
theorem C14_src_finished_closed_tlcp (m : Src.tlcp.codec.finishedMsg) (data : List (BitVec 8)) :
    Src.tlcp.codec.finishedMsg.unmarshal m data = .ok (finSpec m data) :=
  finished_eq m data

/-- `finishedMsg.unmarshal`: accepted with the model's verify_data, or refused like the model -/
theorem C14_src_finished_tlcp (m : Src.tlcp.codec.finishedMsg) (data : List (BitVec 8)) :
    Agree (fun m' => (⟨abs m'.verifyData⟩ : Blob)) (Src.tlcp.codec.finishedMsg.unmarshal m data)
      (unmarshalFinished codesT (abs data)) :=
  tie_codec_finished m data

theorem C14_src_certificateVerify_closed_tlcp (m : Src.tlcp.codec.certificateVerifyMsg) (data : List (BitVec 8)) :
    Src.tlcp.codec.certificateVerifyMsg.unmarshal m data = .ok (cvSpec m data) :=
  certificateVerify_eq m data

/-- `certificateVerifyMsg.unmarshal`: accepted with the model's signature, or refused like the model -/
theorem C14_src_certificateVerify_tlcp (m : Src.tlcp.codec.certificateVerifyMsg) (data : List (BitVec 8)) :
    Agree (fun m' => (⟨abs m'.signature⟩ : Blob)) (Src.tlcp.codec.certificateVerifyMsg.unmarshal m data)
      (unmarshalCertificateVerify codesT (abs data)) :=
  tie_codec_certificateVerify m data

/-- whatever the TRANSLATED decoder accepts the model accepts with the same field -/
theorem C14_src_accept_is_model_accept_finished_tlcp (m m' : Src.tlcp.codec.finishedMsg) (data : List (BitVec 8))
    (h : Src.tlcp.codec.finishedMsg.unmarshal m data = .ok (m', true)) :
    unmarshalFinished codesT (abs data) = .ok ⟨abs m'.verifyData⟩ := by
  have e := agree_accept (C14_src_finished_tlcp m data) h
  exact e

theorem C14_src_accept_is_model_accept_certificateVerify_tlcp (m m' : Src.tlcp.codec.certificateVerifyMsg)
    (data : List (BitVec 8)) (h : Src.tlcp.codec.certificateVerifyMsg.unmarshal m data = .ok (m', true)) :
    unmarshalCertificateVerify codesT (abs data) = .ok ⟨abs m'.signature⟩ := by
  have e := agree_accept (C14_src_certificateVerify_tlcp m data) h
  exact e

/-- strictness (`C14_strict_finished_tlcp` through the tie): what the translated decoder accepts has
exactly the standard's shape — no trailing bytes, the length fields agree -/
theorem C14_src_strict_finished_tlcp (m m' : Src.tlcp.codec.finishedMsg) (data : List (BitVec 8))
    (h : Src.tlcp.codec.finishedMsg.unmarshal m data = .ok (m', true)) :
    Spec.Codec.shape .tlcp .finished (abs data) = true :=
  C14_strict_finished_tlcp _ _ (C14_src_accept_is_model_accept_finished_tlcp m m' data h)

theorem C14_src_strict_certificateVerify_tlcp (m m' : Src.tlcp.codec.certificateVerifyMsg) (data : List (BitVec 8))
    (h : Src.tlcp.codec.certificateVerifyMsg.unmarshal m data = .ok (m', true)) :
    Spec.Codec.shape .tlcp .certificateVerify (abs data) = true :=
  C14_strict_certificateVerify_tlcp _ _ (C14_src_accept_is_model_accept_certificateVerify_tlcp m m' data h)

/-- round trip (`C14_roundtrip_finished_tlcp` through the tie): the encoding of a well-formed Finished is
accepted by the translated decoder, whatever the receiver held, and decodes to the same verify_data -/
theorem C14_src_roundtrip_finished_tlcp (m : Blob) (hw : Spec.Codec.wfBlob .finished m = true)
    (m0 : Src.tlcp.codec.finishedMsg) :
    ∃ data, encFinished codesT m = some (abs data) ∧
      ∃ m', Src.tlcp.codec.finishedMsg.unmarshal m0 data = .ok (m', true) ∧ (⟨abs m'.verifyData⟩ : Blob) = m := by
  obtain ⟨b, h1, h2, _⟩ := C14_roundtrip_finished_tlcp m hw
  refine ⟨unabs b, by rw [abs_unabs]; exact h1, ?_⟩
  have ha := C14_src_finished_tlcp m0 (unabs b)
  rw [abs_unabs, h2] at ha
  exact ha

theorem C14_src_roundtrip_certificateVerify_tlcp (m : Blob) (hw : Spec.Codec.wfBlob .certificateVerify m = true)
    (m0 : Src.tlcp.codec.certificateVerifyMsg) :
    ∃ data, encCertificateVerify codesT m = some (abs data) ∧
      ∃ m', Src.tlcp.codec.certificateVerifyMsg.unmarshal m0 data = .ok (m', true) ∧
        (⟨abs m'.signature⟩ : Blob) = m := by
  obtain ⟨b, h1, h2, _⟩ := C14_roundtrip_certificateVerify_tlcp m hw
  refine ⟨unabs b, by rw [abs_unabs]; exact h1, ?_⟩
  have ha := C14_src_certificateVerify_tlcp m0 (unabs b)
  rw [abs_unabs, h2] at ha
  exact ha

/-- re-encoding (`C14_reencode_finished_tlcp` through the tie): bytes the spec's strict decoder accepts are
accepted by the translated decoder with the same verify_data, and are the encoding of what was decoded -/
theorem C14_src_reencode_finished_tlcp (data : List (BitVec 8)) (h : DHdr) (m : Blob)
    (hs : Spec.Codec.strictBlob .tlcp .finished (abs data) = some (h, m)) (m0 : Src.tlcp.codec.finishedMsg) :
    ∃ m', Src.tlcp.codec.finishedMsg.unmarshal m0 data = .ok (m', true) ∧ (⟨abs m'.verifyData⟩ : Blob) = m ∧
      encFinished codesT m = some (abs data) := by
  obtain ⟨h1, h2, _⟩ := C14_reencode_finished_tlcp (abs data) h m hs
  have ha := C14_src_finished_tlcp m0 data
  rw [h2] at ha
  obtain ⟨m', e1, e2⟩ := ha
  exact ⟨m', e1, e2, h1⟩

theorem C14_src_reencode_certificateVerify_tlcp (data : List (BitVec 8)) (h : DHdr) (m : Blob)
    (hs : Spec.Codec.strictBlob .tlcp .certificateVerify (abs data) = some (h, m))
    (m0 : Src.tlcp.codec.certificateVerifyMsg) :
    ∃ m', Src.tlcp.codec.certificateVerifyMsg.unmarshal m0 data = .ok (m', true) ∧ (⟨abs m'.signature⟩ : Blob) = m ∧
      encCertificateVerify codesT m = some (abs data) := by
  obtain ⟨h1, h2, _⟩ := C14_reencode_certificateVerify_tlcp (abs data) h m hs
  have ha := C14_src_certificateVerify_tlcp m0 data
  rw [h2] at ha
  obtain ⟨m', e1, e2⟩ := ha
  exact ⟨m', e1, e2, h1⟩

/-- `readUint64` (tlcp): never an error; succeeds exactly on 8 or more bytes, then it consumed 8 bytes and
`out` is their big-endian value; on failure `out` is untouched and the String lost 4 bytes if it had that
many (the first `ReadUint32` succeeded), none otherwise -/
theorem C14_src_readUint64_tlcp (s : List (BitVec 8)) (out : BitVec 64) :
    ∃ s' v ok, Src.tlcp.codec.readUint64 s out = .ok (s', v, ok) ∧
      (ok = true ↔ 8 ≤ s.length) ∧
      (ok = true → s' = s.drop 8 ∧ v.toNat = beNat (s.take 8)) ∧
      (ok = false → v = out ∧ s' = if 4 ≤ s.length then s.drop 4 else s) :=
  readUint64_spec s out

-- non-vacuity: a 12-byte Finished and a 3-byte CertificateVerify through the translated decoders …
example : Src.tlcp.codec.finishedMsg.unmarshal {} [20, 0, 0, 12, 1, 2, 3, 4, 5, 6, 7, 8, 9, 10, 11, 12] =
    .ok ({ raw := [20, 0, 0, 12, 1, 2, 3, 4, 5, 6, 7, 8, 9, 10, 11, 12],
           verifyData := [1, 2, 3, 4, 5, 6, 7, 8, 9, 10, 11, 12] }, true) := by
  rw [C14_src_finished_closed_tlcp]; exact congrArg Except.ok (by decide)
example : Src.tlcp.codec.certificateVerifyMsg.unmarshal {} [15, 0, 0, 5, 0, 3, 0x30, 0x44, 1] =
    .ok ({ raw := [15, 0, 0, 5, 0, 3, 0x30, 0x44, 1], signature := [0x30, 0x44, 1] }, true) := by
  rw [C14_src_certificateVerify_closed_tlcp]; exact congrArg Except.ok (by decide)
-- … one trailing byte inside the body (inner length 2, three bytes follow): refused, `raw` set, signature kept
example : Src.tlcp.codec.certificateVerifyMsg.unmarshal { signature := [7] } [15, 0, 0, 5, 0, 2, 0x30, 0x44, 1] =
    .ok ({ raw := [15, 0, 0, 5, 0, 2, 0x30, 0x44, 1], signature := [0x30, 0x44] }, false) := by
  rw [C14_src_certificateVerify_closed_tlcp]; exact congrArg Except.ok (by decide)
-- … a Finished whose outer length disagrees with the data: refused by the guard, receiver untouched
example : Src.tlcp.codec.finishedMsg.unmarshal { verifyData := [9] } [20, 0, 0, 13, 1, 2, 3, 4, 5, 6, 7, 8, 9, 10, 11, 12] =
    .ok ({ verifyData := [9] }, false) := by
  rw [C14_src_finished_closed_tlcp]; exact congrArg Except.ok (by decide)
-- … and the model on the same bytes
example : unmarshalFinished codesT (abs [20, 0, 0, 12, 1, 2, 3, 4, 5, 6, 7, 8, 9, 10, 11, 12]) =
    .ok ⟨[1, 2, 3, 4, 5, 6, 7, 8, 9, 10, 11, 12]⟩ := by decide
-- `readUint64`: 8 bytes, and 5 bytes (the first half is consumed, the answer is false)
example : Src.tlcp.codec.readUint64 [1, 2, 3, 4, 5, 6, 7, 8, 9] 0 = .ok ([9], 0x0102030405060708#64, true) := by
  rw [readUint64_eq]; exact congrArg Except.ok (by decide)
example : Src.tlcp.codec.readUint64 [1, 2, 3, 4, 5] 77 = .ok ([5], 77#64, false) := by
  rw [readUint64_eq]; exact congrArg Except.ok (by decide)

end SrcSmallTlcp

/-! ## dtlcp -/

section SrcSmallDtlcp
open Gotlcp.Model.CodecDtlcp
open Gotlcp.Tie.UnmarshalDtlcpCodec (hdrView N24)
open Gotlcp.Tie.UnmarshalDtlcp (u16At u24At)
open Gotlcp.Tie.CodecSmallDtlcp
open Gotlcp.Tie.CodecSmall (unabs beNat)

/-- bytes of the translation → bytes of the model (dtlcp tie) -/
local notation "absD" => Gotlcp.Tie.UnmarshalDtlcpCodec.abs
local notation "AgreeD" => Gotlcp.Tie.UnmarshalDtlcpCodec.Agree

/-- the literals in the translated text (message types 20, 15, 3; `maxHandshake` 65536) are the regenerated
facts the model is instantiated with, and the three decoders are in the guarded list -/
theorem C14_src_codes_small_dtlcp :
    Src.untranslated = [] ∧
    u8 codesD.tFinished = UInt8.ofBitVec 20#8 ∧ u8 codesD.tCertificateVerify = UInt8.ofBitVec 15#8 ∧
    u8 codesD.tHelloVerifyRequest = UInt8.ofBitVec 3#8 ∧
    codesD.complete.contains codesD.tFinished = true ∧ codesD.complete.contains codesD.tCertificateVerify = true ∧
    codesD.complete.contains codesD.tHelloVerifyRequest = true ∧ codesD.maxHandshake = 65536 ∧ codesD.hl = 12 := by
  decide

/-- `dtlcpUnmarshalHeader`: never an error; `ok` exactly when `data` has its 12 header bytes and
fragment_length does not exceed the bytes after them; then the outputs are exactly the big-endian fields of
the header and `body` is the fragment_length-byte prefix of the rest (the whole rest when
fragment_length = 0); when not `ok`, every output is its zero value -/
theorem C14_src_unmarshalHeader_dtlcp (data : List (BitVec 8)) :
    ∃ t bl seq fo fl body ok,
      Src.dtlcp.codec.dtlcpUnmarshalHeader data = .ok (t, bl, seq, fo, fl, body, ok) ∧
      (ok = true ↔ 12 ≤ data.length ∧ N24 data 9 ≤ data.length - 12) ∧
      (ok = true →
        t = data.getD 0 0#8 ∧ bl = u24At data 1 ∧ seq = u16At data 4 ∧ fo = u24At data 6 ∧ fl = u24At data 9 ∧
        bl.toNat = N24 data 1 ∧ fo.toNat = N24 data 6 ∧ fl.toNat = N24 data 9 ∧
        body = if N24 data 9 = 0 then data.drop 12 else (data.drop 12).take (N24 data 9)) ∧
      (ok = false → t = 0#8 ∧ bl = 0#32 ∧ seq = 0#16 ∧ fo = 0#32 ∧ fl = 0#32 ∧ body = []) :=
  unmarshalHeader_spec data

/-- `dtlcpUnmarshalHeader` is the model's `unmarshalHeader` on the same bytes: both refuse, or both return the
same type, length, header fields and body -/
theorem C14_src_unmarshalHeader_model_dtlcp (data : List (BitVec 8)) :
    ∃ t bl seq fo fl body ok,
      Src.dtlcp.codec.dtlcpUnmarshalHeader data = .ok (t, bl, seq, fo, fl, body, ok) ∧
      Model.CodecDtlcp.unmarshalHeader (absD data) =
        if ok then some (UInt8.ofBitVec t, bl.toNat, hdrView seq fo fl, absD body) else none :=
  ⟨_, _, _, _, _, _, _, unmarshalHeader_eq data, model_unmarshalHeader data⟩

theorem C14_src_finished_closed_dtlcp (m : Src.dtlcp.codec.finishedMsg) (data : List (BitVec 8)) :
    Src.dtlcp.codec.finishedMsg.unmarshal m data = .ok (finSpec m data) :=
  finished_eq m data

/-- `finishedMsg.unmarshal`: accepted with the model's header fields and verify_data, or refused like the model -/
theorem C14_src_finished_dtlcp (m : Src.dtlcp.codec.finishedMsg) (data : List (BitVec 8)) :
    AgreeD (fun m' => (hdrView m'.messageSeq m'.fragmentOffset m'.fragmentLength, (⟨absD m'.verifyData⟩ : Blob)))
      (Src.dtlcp.codec.finishedMsg.unmarshal m data) (decFinished codesD (absD data)) :=
  tie_codec_finished m data

theorem C14_src_certificateVerify_closed_dtlcp (m : Src.dtlcp.codec.certificateVerifyMsg) (data : List (BitVec 8)) :
    Src.dtlcp.codec.certificateVerifyMsg.unmarshal m data = .ok (cvSpec m data) :=
  certificateVerify_eq m data

/-- `certificateVerifyMsg.unmarshal`: header fields and signature -/
theorem C14_src_certificateVerify_dtlcp (m : Src.dtlcp.codec.certificateVerifyMsg) (data : List (BitVec 8)) :
    AgreeD (fun m' => (hdrView m'.messageSeq m'.fragmentOffset m'.fragmentLength, (⟨absD m'.signature⟩ : Blob)))
      (Src.dtlcp.codec.certificateVerifyMsg.unmarshal m data) (decCertificateVerify codesD (absD data)) :=
  tie_codec_certificateVerify m data

theorem C14_src_helloVerifyRequest_closed_dtlcp (m : Src.dtlcp.codec.helloVerifyRequestMsg) (data : List (BitVec 8)) :
    Src.dtlcp.codec.helloVerifyRequestMsg.unmarshal m data = .ok (hvrSpec m data) :=
  helloVerifyRequest_eq m data

/-- `helloVerifyRequestMsg.unmarshal`: header fields, server_version and cookie -/
theorem C14_src_helloVerifyRequest_dtlcp (m : Src.dtlcp.codec.helloVerifyRequestMsg) (data : List (BitVec 8)) :
    AgreeD (fun m' => (hdrView m'.messageSeq m'.fragmentOffset m'.fragmentLength,
        (⟨W16.ofNat m'.serverVersion.toNat, absD m'.cookie⟩ : HelloVerifyRequest)))
      (Src.dtlcp.codec.helloVerifyRequestMsg.unmarshal m data) (decHelloVerifyRequest codesD (absD data)) :=
  tie_codec_helloVerifyRequest m data

/-- whatever the TRANSLATED decoder accepts the model accepts with the same header and body fields -/
theorem C14_src_accept_is_model_accept_finished_dtlcp (m m' : Src.dtlcp.codec.finishedMsg) (data : List (BitVec 8))
    (h : Src.dtlcp.codec.finishedMsg.unmarshal m data = .ok (m', true)) :
    decFinished codesD (absD data) =
      .ok (hdrView m'.messageSeq m'.fragmentOffset m'.fragmentLength, ⟨absD m'.verifyData⟩) := by
  have e := agree_accept (C14_src_finished_dtlcp m data) h
  exact e

theorem C14_src_accept_is_model_accept_certificateVerify_dtlcp (m m' : Src.dtlcp.codec.certificateVerifyMsg)
    (data : List (BitVec 8)) (h : Src.dtlcp.codec.certificateVerifyMsg.unmarshal m data = .ok (m', true)) :
    decCertificateVerify codesD (absD data) =
      .ok (hdrView m'.messageSeq m'.fragmentOffset m'.fragmentLength, ⟨absD m'.signature⟩) := by
  have e := agree_accept (C14_src_certificateVerify_dtlcp m data) h
  exact e

theorem C14_src_accept_is_model_accept_helloVerifyRequest_dtlcp (m m' : Src.dtlcp.codec.helloVerifyRequestMsg)
    (data : List (BitVec 8)) (h : Src.dtlcp.codec.helloVerifyRequestMsg.unmarshal m data = .ok (m', true)) :
    decHelloVerifyRequest codesD (absD data) =
      .ok (hdrView m'.messageSeq m'.fragmentOffset m'.fragmentLength,
        ⟨W16.ofNat m'.serverVersion.toNat, absD m'.cookie⟩) := by
  have e := agree_accept (C14_src_helloVerifyRequest_dtlcp m data) h
  exact e

/-- strictness through the tie: what the translated decoders accept has exactly the standard's shape -/
theorem C14_src_strict_finished_dtlcp (m m' : Src.dtlcp.codec.finishedMsg) (data : List (BitVec 8))
    (h : Src.dtlcp.codec.finishedMsg.unmarshal m data = .ok (m', true)) :
    Spec.Codec.shape .dtlcp .finished (absD data) = true :=
  C14_strict_finished_dtlcp _ _ (C14_src_accept_is_model_accept_finished_dtlcp m m' data h)

theorem C14_src_strict_certificateVerify_dtlcp (m m' : Src.dtlcp.codec.certificateVerifyMsg) (data : List (BitVec 8))
    (h : Src.dtlcp.codec.certificateVerifyMsg.unmarshal m data = .ok (m', true)) :
    Spec.Codec.shape .dtlcp .certificateVerify (absD data) = true :=
  C14_strict_certificateVerify_dtlcp _ _ (C14_src_accept_is_model_accept_certificateVerify_dtlcp m m' data h)

theorem C14_src_strict_helloVerifyRequest_dtlcp (m m' : Src.dtlcp.codec.helloVerifyRequestMsg) (data : List (BitVec 8))
    (h : Src.dtlcp.codec.helloVerifyRequestMsg.unmarshal m data = .ok (m', true)) :
    Spec.Codec.shape .dtlcp .helloVerifyRequest (absD data) = true :=
  C14_strict_helloVerifyRequest_dtlcp _ _ (C14_src_accept_is_model_accept_helloVerifyRequest_dtlcp m m' data h)

/-- round trip through the tie: the encoding of a well-formed message (complete-message header) is accepted
by the translated decoder, whatever the receiver held, with the same header and body fields -/
theorem C14_src_roundtrip_finished_dtlcp (h : DHdr) (m : Blob) (hm : Spec.Codec.wfBlob .finished m = true)
    (hw : Spec.Codec.wfDHdr h m.data.length = true) (m0 : Src.dtlcp.codec.finishedMsg) :
    ∃ data, Model.CodecDtlcp.encFinished codesD h m = some (absD data) ∧
      ∃ m', Src.dtlcp.codec.finishedMsg.unmarshal m0 data = .ok (m', true) ∧
        (hdrView m'.messageSeq m'.fragmentOffset m'.fragmentLength, (⟨absD m'.verifyData⟩ : Blob)) =
          (⟨h.seq, 0, m.data.length⟩, m) := by
  obtain ⟨b, h1, h2, _⟩ := C14_roundtrip_finished_dtlcp h m hm hw
  refine ⟨unabs b, by rw [abs_unabs]; exact h1, ?_⟩
  have ha := C14_src_finished_dtlcp m0 (unabs b)
  rw [abs_unabs, h2] at ha
  exact ha

theorem C14_src_roundtrip_certificateVerify_dtlcp (h : DHdr) (m : Blob)
    (hm : Spec.Codec.wfBlob .certificateVerify m = true) (hw : Spec.Codec.wfDHdr h (2 + m.data.length) = true)
    (m0 : Src.dtlcp.codec.certificateVerifyMsg) :
    ∃ data, Model.CodecDtlcp.encCertificateVerify codesD h m = some (absD data) ∧
      ∃ m', Src.dtlcp.codec.certificateVerifyMsg.unmarshal m0 data = .ok (m', true) ∧
        (hdrView m'.messageSeq m'.fragmentOffset m'.fragmentLength, (⟨absD m'.signature⟩ : Blob)) =
          (⟨h.seq, 0, 2 + m.data.length⟩, m) := by
  obtain ⟨b, h1, h2, _⟩ := C14_roundtrip_certificateVerify_dtlcp h m hm hw
  refine ⟨unabs b, by rw [abs_unabs]; exact h1, ?_⟩
  have ha := C14_src_certificateVerify_dtlcp m0 (unabs b)
  rw [abs_unabs, h2] at ha
  exact ha

theorem C14_src_roundtrip_helloVerifyRequest_dtlcp (h : DHdr) (m : HelloVerifyRequest)
    (hm : Spec.Codec.wfHelloVerifyRequest m = true) (hw : Spec.Codec.wfDHdr h (3 + m.cookie.length) = true)
    (m0 : Src.dtlcp.codec.helloVerifyRequestMsg) :
    ∃ data, encHelloVerifyRequest codesD h m = some (absD data) ∧
      ∃ m', Src.dtlcp.codec.helloVerifyRequestMsg.unmarshal m0 data = .ok (m', true) ∧
        (hdrView m'.messageSeq m'.fragmentOffset m'.fragmentLength,
          (⟨W16.ofNat m'.serverVersion.toNat, absD m'.cookie⟩ : HelloVerifyRequest)) =
          (⟨h.seq, 0, 3 + m.cookie.length⟩, m) := by
  obtain ⟨b, h1, h2, _⟩ := C14_roundtrip_helloVerifyRequest_dtlcp h m hm hw
  refine ⟨unabs b, by rw [abs_unabs]; exact h1, ?_⟩
  have ha := C14_src_helloVerifyRequest_dtlcp m0 (unabs b)
  rw [abs_unabs, h2] at ha
  exact ha

/-- re-encoding through the tie: bytes the spec's strict decoder accepts are accepted by the translated
decoder with the same header and body fields, and are the encoding of what was decoded -/
theorem C14_src_reencode_finished_dtlcp (data : List (BitVec 8)) (h : DHdr) (m : Blob)
    (hs : Spec.Codec.strictBlob .dtlcp .finished (absD data) = some (h, m)) (m0 : Src.dtlcp.codec.finishedMsg) :
    ∃ m', Src.dtlcp.codec.finishedMsg.unmarshal m0 data = .ok (m', true) ∧
      (hdrView m'.messageSeq m'.fragmentOffset m'.fragmentLength, (⟨absD m'.verifyData⟩ : Blob)) = (h, m) ∧
      Model.CodecDtlcp.encFinished codesD h m = some (absD data) := by
  obtain ⟨h1, h2, _⟩ := C14_reencode_finished_dtlcp (absD data) h m hs
  have ha := C14_src_finished_dtlcp m0 data
  rw [h2] at ha
  obtain ⟨m', e1, e2⟩ := ha
  exact ⟨m', e1, e2, h1⟩

theorem C14_src_reencode_certificateVerify_dtlcp (data : List (BitVec 8)) (h : DHdr) (m : Blob)
    (hs : Spec.Codec.strictBlob .dtlcp .certificateVerify (absD data) = some (h, m))
    (m0 : Src.dtlcp.codec.certificateVerifyMsg) :
    ∃ m', Src.dtlcp.codec.certificateVerifyMsg.unmarshal m0 data = .ok (m', true) ∧
      (hdrView m'.messageSeq m'.fragmentOffset m'.fragmentLength, (⟨absD m'.signature⟩ : Blob)) = (h, m) ∧
      Model.CodecDtlcp.encCertificateVerify codesD h m = some (absD data) := by
  obtain ⟨h1, h2, _⟩ := C14_reencode_certificateVerify_dtlcp (absD data) h m hs
  have ha := C14_src_certificateVerify_dtlcp m0 data
  rw [h2] at ha
  obtain ⟨m', e1, e2⟩ := ha
  exact ⟨m', e1, e2, h1⟩

theorem C14_src_reencode_helloVerifyRequest_dtlcp (data : List (BitVec 8)) (h : DHdr) (m : HelloVerifyRequest)
    (hs : Spec.Codec.strictHelloVerifyRequest (absD data) = some (h, m))
    (m0 : Src.dtlcp.codec.helloVerifyRequestMsg) :
    ∃ m', Src.dtlcp.codec.helloVerifyRequestMsg.unmarshal m0 data = .ok (m', true) ∧
      (hdrView m'.messageSeq m'.fragmentOffset m'.fragmentLength,
        (⟨W16.ofNat m'.serverVersion.toNat, absD m'.cookie⟩ : HelloVerifyRequest)) = (h, m) ∧
      encHelloVerifyRequest codesD h m = some (absD data) := by
  obtain ⟨h1, h2, _⟩ := C14_reencode_helloVerifyRequest_dtlcp (absD data) h m hs
  have ha := C14_src_helloVerifyRequest_dtlcp m0 data
  rw [h2] at ha
  obtain ⟨m', e1, e2⟩ := ha
  exact ⟨m', e1, e2, h1⟩

/-- `readUint64` (dtlcp; the same term as in tlcp) -/
theorem C14_src_readUint64_dtlcp (s : List (BitVec 8)) (out : BitVec 64) :
    ∃ s' v ok, Src.dtlcp.codec.readUint64 s out = .ok (s', v, ok) ∧
      (ok = true ↔ 8 ≤ s.length) ∧
      (ok = true → s' = s.drop 8 ∧ v.toNat = beNat (s.take 8)) ∧
      (ok = false → v = out ∧ s' = if 4 ≤ s.length then s.drop 4 else s) :=
  Gotlcp.Tie.CodecSmall.readUint64_spec s out

-- non-vacuity.  A HelloVerifyRequest (message_seq 1, version 1.1, cookie aa bb cc) …
example : Src.dtlcp.codec.helloVerifyRequestMsg.unmarshal { cookie := [9] }
      [3, 0, 0, 6, 0, 1, 0, 0, 0, 0, 0, 6, 1, 1, 3, 0xaa, 0xbb, 0xcc] =
    .ok ({ raw := [3, 0, 0, 6, 0, 1, 0, 0, 0, 0, 0, 6, 1, 1, 3, 0xaa, 0xbb, 0xcc], serverVersion := 0x0101#16,
           cookie := [0xaa, 0xbb, 0xcc], messageSeq := 1#16, fragmentOffset := 0#32, fragmentLength := 6#32 }, true) := by
  rw [C14_src_helloVerifyRequest_closed_dtlcp]; exact congrArg Except.ok (by decide)
-- … with a cookie length that leaves a trailing byte: refused; the receiver was reset and the fields read so far stay
example : Src.dtlcp.codec.helloVerifyRequestMsg.unmarshal { cookie := [9] }
      [3, 0, 0, 6, 0, 1, 0, 0, 0, 0, 0, 6, 1, 1, 2, 0xaa, 0xbb, 0xcc] =
    .ok ({ raw := [3, 0, 0, 6, 0, 1, 0, 0, 0, 0, 0, 6, 1, 1, 2, 0xaa, 0xbb, 0xcc], serverVersion := 0x0101#16,
           cookie := [0xaa, 0xbb], messageSeq := 1#16, fragmentOffset := 0#32, fragmentLength := 6#32 }, false) := by
  rw [C14_src_helloVerifyRequest_closed_dtlcp]; exact congrArg Except.ok (by decide)
-- … a Finished with 12 bytes of verify_data, and the model on the same bytes
example : Src.dtlcp.codec.finishedMsg.unmarshal {}
      [20, 0, 0, 12, 0, 5, 0, 0, 0, 0, 0, 12, 1, 2, 3, 4, 5, 6, 7, 8, 9, 10, 11, 12] =
    .ok ({ raw := [20, 0, 0, 12, 0, 5, 0, 0, 0, 0, 0, 12, 1, 2, 3, 4, 5, 6, 7, 8, 9, 10, 11, 12],
           verifyData := [1, 2, 3, 4, 5, 6, 7, 8, 9, 10, 11, 12], messageSeq := 5#16, fragmentOffset := 0#32,
           fragmentLength := 12#32 }, true) := by
  rw [C14_src_finished_closed_dtlcp]; exact congrArg Except.ok (by decide)
example : decFinished codesD (absD [20, 0, 0, 12, 0, 5, 0, 0, 0, 0, 0, 12, 1, 2, 3, 4, 5, 6, 7, 8, 9, 10, 11, 12]) =
    .ok (⟨(0, 5), 0, 12⟩, ⟨[1, 2, 3, 4, 5, 6, 7, 8, 9, 10, 11, 12]⟩) := by decide
-- … a fragment (fragment_offset 4) is refused by the guard, the receiver untouched
example : Src.dtlcp.codec.finishedMsg.unmarshal { verifyData := [9] }
      [20, 0, 0, 12, 0, 5, 0, 0, 4, 0, 0, 8, 1, 2, 3, 4, 5, 6, 7, 8] = .ok ({ verifyData := [9] }, false) := by
  rw [C14_src_finished_closed_dtlcp]; exact congrArg Except.ok (by decide)
-- … a CertificateVerify
example : Src.dtlcp.codec.certificateVerifyMsg.unmarshal {} [15, 0, 0, 5, 0, 2, 0, 0, 0, 0, 0, 5, 0, 3, 0x30, 0x44, 1] =
    .ok ({ raw := [15, 0, 0, 5, 0, 2, 0, 0, 0, 0, 0, 5, 0, 3, 0x30, 0x44, 1], signature := [0x30, 0x44, 1],
           messageSeq := 2#16, fragmentOffset := 0#32, fragmentLength := 5#32 }, true) := by
  rw [C14_src_certificateVerify_closed_dtlcp]; exact congrArg Except.ok (by decide)
-- `dtlcpUnmarshalHeader` alone also parses FRAGMENTS: fragment_length 2 of a 5-byte rest, and refuses 3 of 2
example : Src.dtlcp.codec.dtlcpUnmarshalHeader [11, 0, 0, 9, 0, 1, 0, 0, 4, 0, 0, 2, 7, 8, 9, 10, 11] =
    .ok (11#8, 9#32, 1#16, 4#32, 2#32, [7, 8], true) := by
  rw [unmarshalHeader_eq]; rfl
example : Src.dtlcp.codec.dtlcpUnmarshalHeader [11, 0, 0, 9, 0, 1, 0, 0, 4, 0, 0, 3, 7, 8] =
    .ok (0#8, 0#32, 0#16, 0#32, 0#32, [], false) := by
  rw [unmarshalHeader_eq]; rfl

end SrcSmallDtlcp

end Gotlcp.Props.C14

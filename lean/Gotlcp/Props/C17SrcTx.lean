/-
C17, property theorems about the TRANSLATED sender-side handshake fragmentation
(`Src.dtlcp.tx.Conn.writeHandshakeRecord`; see DESIGN.md 12.4).  Same namespace as Props/C17.lean;
listed in checks/C17.json under extra_props_files.

`Src.dtlcp.tx.Conn.writeHandshakeRecord c msg transcript` is regenerated from dtlcp/conn.go on every run, over
the view described in `Gotlcp.Tie.TxFragment` (`c.sent`: the payloads handed to the record layer, in order;
`c.writeErrAt`: the failing call of `writeRecordLocked`, negative for none; `msg.data`: what `marshal()` returns).
The theorems give the closed form of what is sent — for every view, message and transcript — and feed it to the
TRANSLATED receiver (`Src.dtlcp.newFragmentBuffer / addFragment / complete / assembled`).
-/
import Gotlcp.Generated.Src
import Gotlcp.Tie.TxFragment
import Gotlcp.Tie.TxFragmentE2E
import Gotlcp.Tie.TxFragmentModel
import Gotlcp.Props.C17

set_option linter.unusedSimpArgs false
set_option linter.unusedVariables false

namespace Gotlcp.Props.C17
open Gotlcp.Src.dtlcp.tx
open Gotlcp.Tie.TxFragment (maxPayload fragments fragRec hdr be3 seqOf sumLen)
open Gotlcp.Tie.TxFragmentE2E (parseFrag parseTotal)

/-- **The translated sender is the model.** For every view, every message whose `marshal()` succeeds and every
transcript: when the model `Model.Fragment.writeHandshake` (on the same bytes and the view's maximum payload) yields
records `rs` — one record, or the fragments of `fragmentize` — the translated function hands down records `l` that
are byte for byte `rs`, up to the failing write of the view if there is one; when the model refuses
(`errTooShort`, `errPmtuTooSmall`) the translated function returns an error and sends nothing.  In both cases the
transcript has received the unfragmented message (`writeHandshakeT`'s first component).  This replaces the
text-matching facts about the statements of `writeHandshakeRecord` that `C17_facts` / `C17_transcript_facts` used
to pin: the model's sender theorems above are about the function text in the tree. -/
theorem C17_src_tx_is_model (c : Conn) (msg : goMsg) (tr : goTranscript)
    (hlen : msg.data.length ≤ 2 ^ 32 - 16384) (hf : msg.fails = false) :
    (∀ rs, Tie.TxFragmentModel.modelRecords
        (Model.Fragment.writeHandshake (msg.data.map Tie.Fragment.ob) (maxPayload c).toNat) = some rs →
      ∃ l : List (List (BitVec 8)), l.map (fun r => r.map Tie.Fragment.ob) = rs ∧
        Conn.writeHandshakeRecord c msg tr = .ok
          ({ c with sent := c.sent ++ l.take (Tie.TxFragment.okWrites c l.length) },
           { tr with written := tr.written ++ msg.data },
           sumLen (l.take (Tie.TxFragment.okWrites c l.length)),
           if Tie.TxFragment.okWrites c l.length < l.length then some Go.Error.other else none)) ∧
    (Tie.TxFragmentModel.modelRecords
        (Model.Fragment.writeHandshake (msg.data.map Tie.Fragment.ob) (maxPayload c).toNat) = none →
      Conn.writeHandshakeRecord c msg tr = .ok
        (c, { tr with written := tr.written ++ msg.data }, 0, some Go.Error.other)) ∧
    (Model.Fragment.writeHandshakeT (msg.data.map Tie.Fragment.ob) (maxPayload c).toNat).1
      = msg.data.map Tie.Fragment.ob := by
  have hm := Tie.TxFragmentModel.txPlan_model (maxPayload c) (Tie.TxFragment.maxPayload_range c).1 msg.data (by omega)
  refine ⟨?_, ?_, rfl⟩
  · intro rs hrs
    rw [hrs] at hm
    cases hp : Tie.TxFragment.txPlan (maxPayload c) msg.data with
    | none => rw [hp] at hm; cases hm
    | some l =>
      rw [hp] at hm
      injection hm with hm
      exact ⟨l, hm, Tie.TxFragment.src_sends c msg tr hlen hf l hp⟩
  · intro hn
    rw [hn] at hm
    cases hp : Tie.TxFragment.txPlan (maxPayload c) msg.data with
    | none => exact Tie.TxFragment.src_refuses c msg tr hlen hf hp
    | some l => rw [hp] at hm; cases hm

/-- the writes of this call do not fail: the failing call of the view lies before or after them -/
def NoFail (c : Conn) (k : Nat) : Prop :=
  c.writeErrAt < (c.sent.length : Int) ∨ (c.sent.length : Int) + (k : Int) ≤ c.writeErrAt

theorem okWrites_noFail (c : Conn) (k : Nat) (h : NoFail c k) : Tie.TxFragment.okWrites c k = k := by
  unfold Tie.TxFragment.okWrites NoFail at *
  rw [if_neg (by omega)]

/-- **Unfragmented when it fits.** `len(data) ≤ maxPayload`: one record, the message itself; the transcript
receives `data`; the returned count is `len(data)`. -/
theorem C17_src_tx_single_record (c : Conn) (msg : goMsg) (tr : goTranscript)
    (hlen : msg.data.length ≤ 2 ^ 32 - 16384) (hf : msg.fails = false)
    (hfit : (msg.data.length : Int) ≤ maxPayload c) (hw : NoFail c 1) :
    Conn.writeHandshakeRecord c msg tr = .ok
      ({ c with sent := c.sent ++ [msg.data] }, { tr with written := tr.written ++ msg.data },
       (msg.data.length : Int), none) := by
  rw [Tie.TxFragment.src_sends c msg tr hlen hf _ (Tie.TxFragment.txPlan_single _ _ hfit)]
  have : Tie.TxFragment.okWrites c [msg.data].length = 1 := okWrites_noFail c 1 hw
  rw [this]
  simp [sumLen]

/-- **Refused.** A message that does not fit and is not longer than the 12-byte header, or a maximum payload
that leaves no room for a fragment body (`maxPayload ≤ 12`): an error, nothing is sent (the transcript has
already received `data`). -/
theorem C17_src_tx_refused (c : Conn) (msg : goMsg) (tr : goTranscript)
    (hlen : msg.data.length ≤ 2 ^ 32 - 16384) (hf : msg.fails = false)
    (hbig : ¬ (msg.data.length : Int) ≤ maxPayload c) (h : msg.data.length ≤ 12 ∨ maxPayload c ≤ 12) :
    Conn.writeHandshakeRecord c msg tr = .ok
      (c, { tr with written := tr.written ++ msg.data }, 0, some Go.Error.other) :=
  Tie.TxFragment.src_refuses c msg tr hlen hf (Tie.TxFragment.txPlan_refuse _ _ hbig h)

/-- a failing `marshal()`: its error, nothing sent, the transcript untouched -/
theorem C17_src_tx_marshal_error (c : Conn) (msg : goMsg) (tr : goTranscript) (hf : msg.fails = true) :
    Conn.writeHandshakeRecord c msg tr = .ok (c, tr, 0, some Go.Error.other) :=
  Tie.TxFragment.src_marshal_fails c msg tr hf

/-- **Closed form of the fragments.** A message `data = header ++ body` that does not fit, with `maxPayload > 12`
and no failing write: exactly the records `fragments type message_seq body (maxPayload − 12)` are appended to
`c.sent` — fragment `i` is `hdr(type, |body|, message_seq, i·m, len_i) ++ body[i·m, i·m + len_i)` with
`m = maxPayload − 12`, `len_i = min m (|body| − i·m)`, `i < ⌈|body|/m⌉`; type and `message_seq` are bytes 0 and
4..5 of `data` —; the transcript receives the UNFRAGMENTED `data`, once; the returned count is the sum of the
record lengths. -/
theorem C17_src_tx_fragments (c : Conn) (msg : goMsg) (tr : goTranscript)
    (hlen : msg.data.length ≤ 2 ^ 32 - 16384) (hf : msg.fails = false)
    (hbig : ¬ (msg.data.length : Int) ≤ maxPayload c) (h12 : 12 < msg.data.length) (hmp : 12 < maxPayload c)
    (hw : NoFail c (fragments (msg.data.getD 0 0#8) (seqOf msg.data) (msg.data.drop 12) (maxPayload c - 12).toNat).length) :
    Conn.writeHandshakeRecord c msg tr = .ok
      ({ c with sent := c.sent ++
          fragments (msg.data.getD 0 0#8) (seqOf msg.data) (msg.data.drop 12) (maxPayload c - 12).toNat },
       { tr with written := tr.written ++ msg.data },
       sumLen (fragments (msg.data.getD 0 0#8) (seqOf msg.data) (msg.data.drop 12) (maxPayload c - 12).toNat),
       none) := by
  rw [Tie.TxFragment.src_sends c msg tr hlen hf _ (Tie.TxFragment.txPlan_frag _ _ hbig h12 hmp)]
  rw [okWrites_noFail c _ hw, if_neg (by omega), List.take_length]

/-- **The fragments cover the body exactly.** For every body and every fragment body size `m ≥ 1`: the list has
`⌈|body|/m⌉` elements; element `i` is the 12-byte header with offset `i·m` and length `len_i = min m (|body| − i·m)`,
`1 ≤ len_i ≤ m`, followed by exactly `len_i` body bytes (so offsets chain: `off_0 = 0`, `off_{i+1} = off_i + len_i`
until the last one ends at `|body|`); and the fragment bodies, concatenated in order, are the body — no gap, no
overlap, nothing beyond the end. -/
theorem C17_src_tx_fragments_cover_exactly (t : BitVec 8) (seq : BitVec 16) (body : List (BitVec 8)) (m : Nat)
    (hm : 1 ≤ m) :
    (fragments t seq body m).length = (body.length + m - 1) / m ∧
    (∀ i, i < (body.length + m - 1) / m →
      i * m < body.length ∧ 1 ≤ min m (body.length - i * m) ∧
      (i * m + min m (body.length - i * m) = (i + 1) * m ∨ i * m + min m (body.length - i * m) = body.length) ∧
      (fragments t seq body m)[i]? = some
        (hdr t (BitVec.ofNat 32 body.length) seq (BitVec.ofNat 32 (i * m))
            (BitVec.ofNat 32 (min m (body.length - i * m)))
          ++ (body.drop (i * m)).take (min m (body.length - i * m))) ∧
      ((body.drop (i * m)).take (min m (body.length - i * m))).length = min m (body.length - i * m)) ∧
    (fragments t seq body m).flatMap (fun r => r.drop 12) = body := by
  refine ⟨by simp [fragments], ?_, ?_⟩
  · intro i hi
    have hlt : i * m < body.length := by
      have := (Nat.lt_iff_add_one_le.mp hi)
      rw [Nat.le_div_iff_mul_le (by omega), Nat.add_mul] at this
      omega
    refine ⟨hlt, by omega, ?_, ?_, ?_⟩
    · rw [Nat.add_mul]; omega
    · simp only [fragments, List.getElem?_map, List.getElem?_range hi, Option.map_some, fragRec]
    · rw [List.length_take, List.length_drop]; omega
  · rw [← Tie.TxFragment.fragsFrom_eq_fragments t seq body m hm (body.length + 1) (by omega)]
    have := Tie.TxFragment.fragsFrom_concat t seq body m hm (body.length + 1) 0 (by omega)
    rw [this]; rfl

/-- **END TO END, translated sender → translated receiver.** Take the fragments the translated sender produces
for a body of `1 … 2^24 − 1` bytes at any fragment body size `m ≥ 1`; deliver them in ANY order with ANY
duplication (`l` is any list containing exactly these records, each at least once — every permutation and every
multiset super-list); parse each 12-byte header as `readHandshake` does and hand `(offset, length, body)` to the
translated `addFragment`, starting from the translated `newFragmentBuffer(total)`: every fragment announces
`total = |body|`, every one is accepted, `complete()` is true and `assembled()` is exactly `body`. -/
theorem C17_src_tx_sender_receiver (t : BitVec 8) (seq : BitVec 16) (body : List (BitVec 8))
    (hb : 0 < body.length) (h24 : body.length < 2 ^ 24) (m : Nat) (hm : 1 ≤ m) (l : List (List (BitVec 8)))
    (hsub : ∀ r ∈ l, r ∈ fragments t seq body m) (hall : ∀ r ∈ fragments t seq body m, r ∈ l) :
    (∀ r ∈ l, parseTotal r = BitVec.ofNat 32 body.length) ∧
    Tie.Fragment.srcSession (BitVec.ofNat 32 body.length) (l.map parseFrag)
      = .ok (l.map (fun _ => true), true, body) :=
  Tie.TxFragmentE2E.sender_receiver t seq body hb h24 m hm l hsub hall

/-- … in particular for every permutation of the fragment list -/
theorem C17_src_tx_sender_receiver_perm (t : BitVec 8) (seq : BitVec 16) (body : List (BitVec 8))
    (hb : 0 < body.length) (h24 : body.length < 2 ^ 24) (m : Nat) (hm : 1 ≤ m) (l : List (List (BitVec 8)))
    (hp : l.Perm (fragments t seq body m)) :
    Tie.Fragment.srcSession (BitVec.ofNat 32 body.length) (l.map parseFrag)
      = .ok (l.map (fun _ => true), true, body) :=
  Tie.TxFragmentE2E.sender_receiver_perm t seq body hb h24 m hm l hp

/-- **The whole path, from the call of `writeHandshakeRecord`.** A message `data` (more than 12 bytes, body below
`2^24` bytes) that does not fit the maximum payload of the view, `maxPayload > 12`, no failing write: the records
the call appends to `c.sent`, delivered in any order with any duplication and reassembled by the translated
receiver, give back exactly `data[12:]` — and the sender's transcript holds exactly `data`. -/
theorem C17_src_tx_end_to_end (c : Conn) (msg : goMsg) (tr : goTranscript) (hf : msg.fails = false)
    (h12 : 12 < msg.data.length) (h24 : msg.data.length < 2 ^ 24 + 12)
    (hbig : ¬ (msg.data.length : Int) ≤ maxPayload c) (hmp : 12 < maxPayload c)
    (hw : NoFail c (fragments (msg.data.getD 0 0#8) (seqOf msg.data) (msg.data.drop 12) (maxPayload c - 12).toNat).length) :
    ∃ c' n, Conn.writeHandshakeRecord c msg tr = .ok (c', { tr with written := tr.written ++ msg.data }, n, none) ∧
      c'.sent.take c.sent.length = c.sent ∧
      ∀ l : List (List (BitVec 8)),
        (∀ r ∈ l, r ∈ c'.sent.drop c.sent.length) → (∀ r ∈ c'.sent.drop c.sent.length, r ∈ l) →
        (∀ r ∈ l, parseTotal r = BitVec.ofNat 32 (msg.data.length - 12)) ∧
        Tie.Fragment.srcSession (BitVec.ofNat 32 (msg.data.length - 12)) (l.map parseFrag)
          = .ok (l.map (fun _ => true), true, msg.data.drop 12) := by
  refine ⟨_, _, C17_src_tx_fragments c msg tr (by omega) hf hbig h12 hmp hw, ?_, ?_⟩
  · simp
  · intro l hsub hall
    have hd : ∀ F : List (List (BitVec 8)), (c.sent ++ F).drop c.sent.length = F := fun F => by simp
    simp only [hd] at hsub hall
    have hl : (msg.data.drop 12).length = msg.data.length - 12 := List.length_drop
    have := C17_src_tx_sender_receiver (msg.data.getD 0 0#8) (seqOf msg.data) (msg.data.drop 12)
      (by omega) (by omega) (maxPayload c - 12).toNat (by omega) l hsub hall
    rw [hl] at this
    exact this

/-- **The 24-bit bound is real.** The length fields of the fragment header have three bytes: for every body
below `2^32` bytes the receiver reads the announced length modulo `2^24` — a body of exactly `2^24` bytes is
announced as an EMPTY message.  (The sender does not check; `readHandshake` bounds messages by `maxHandshake`.) -/
theorem C17_src_tx_length_field_is_24_bits (t : BitVec 8) (seq : BitVec 16) (body : List (BitVec 8)) (o len : Nat)
    (hL : body.length < 2 ^ 32) :
    parseTotal (fragRec t seq body o len) = BitVec.ofNat 32 (body.length % 2 ^ 24) ∧
    (body.length = 2 ^ 24 → parseTotal (fragRec t seq body o len) = 0#32) := by
  have h := Tie.TxFragmentE2E.parseTotal_fragRec_mod t seq body o len hL
  refine ⟨h, ?_⟩
  intro e
  rw [h, e]

/-- non-vacuity, the TRANSLATED sender and receiver run by the kernel: a 40-byte body (message of 52 bytes) on an
unprotected view at PMTU 45 (maximum payload 32, fragment bodies of 20 bytes) leaves as two fragments of 20 bytes
with offsets 0 and 20, the transcript holds the 52 unfragmented bytes; the two records fed to the translated
receiver reversed and duplicated (second, first, second, first) are all accepted and rebuild the 40 bytes; the
hypotheses of `C17_src_tx_fragments` / `C17_src_tx_end_to_end` hold of this view. -/
example :
    let bs (l : List Nat) : List (BitVec 8) := l.map (BitVec.ofNat 8)
    let body := bs (List.range 40)
    let msg : goMsg := { data := bs [11,0,0,40, 0,3, 0,0,0, 0,0,40] ++ body }
    let c0 : Conn := { config := { PMTU := 45 }, writeErrAt := -1 }
    let f0 := bs [11,0,0,40, 0,3, 0,0,0, 0,0,20] ++ body.take 20
    let f1 := bs [11,0,0,40, 0,3, 0,0,20, 0,0,20] ++ body.drop 20
    maxPayload c0 = 32 ∧
    fragments 11#8 3#16 body 20 = [f0, f1] ∧
    (Conn.writeHandshakeRecord c0 msg {}).toOption = some ({ c0 with sent := [f0, f1] }, { written := msg.data }, 64, none) ∧
    (Tie.Fragment.srcSession 40#32 ([f1, f0, f1, f0].map parseFrag)).toOption
      = some ([true, true, true, true], true, body) ∧
    (Tie.Fragment.srcSession 40#32 ([f1, f1].map parseFrag)).toOption.map (fun r => r.2.1) = some false := by
  decide

end Gotlcp.Props.C17

/-
C17, property theorems about the TRANSLATED sender-side handshake fragmentation
(`Src.dtlcp.tx.Conn.writeHandshakeRecord`; see DESIGN.md 12.4).  Same namespace as Props/C17.lean;
listed in checks/C17.json under extra_props_files.
-/
import Gotlcp.Generated.Src

namespace Gotlcp.Props.C17

end Gotlcp.Props.C17

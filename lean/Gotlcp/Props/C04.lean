/-
C04 — key schedule and record protection match an independent reading of GB/T 38636.

Property theorems only (helpers: `Gotlcp.Lemmas.KeySchedule`).  The *model*
(`Gotlcp.Model.KeySchedule`) mirrors the Go functions and is parameterised by the regenerated
source facts (`srcTlcp`, `srcDtlcp`, built from `Gotlcp.Facts`); the *spec*
(`Gotlcp.Spec.KeySchedule`) is written from the standard.  All statements hold for every
input, every key, every MAC / block cipher / AEAD satisfying the stated laws (hypotheses, not
axioms; `Laws` is inhabited, see `C04_laws_satisfiable`).

That the Lean-native SM3 / SM4 / GCM *are* the national algorithms is not proved here: it is
checked by the known-answer tests in `Gotlcp/Crypto/*.lean` at build time and by comparing them
with emmansun/gmsm on every correspondence run (see checks/C04.json, trusted base).
-/
import Gotlcp.Lemmas.KeyScheduleRecord
import Gotlcp.Lemmas.KeyScheduleWrite
import Gotlcp.Lemmas.KeyScheduleRx
import Gotlcp.Tie.PaddingDtlcp
import Gotlcp.Tie.Seq
import Gotlcp.Tie.KeySched
import Gotlcp.Generated.Facts

set_option linter.unusedSimpArgs false
set_option linter.unusedVariables false

namespace Gotlcp.Props.C04
open Gotlcp.Crypto
open Gotlcp.Lemmas.KeySchedule
open Gotlcp.Lemmas.KeyScheduleRecord
open Gotlcp.Lemmas.KeyScheduleWrite
open Gotlcp.Lemmas.KeyScheduleRx
open Gotlcp.Model.KeySchedule

/-! ### the regenerated facts the other theorems (and the model) rely on -/

/-- the expected shape of the source, per stack -/
def factsOK (S : Src)
    (masterSeed masterArgs masterOut keySeed keyArgs keyLenExpr resultNames cSum sSum finUse
      ksArgsC ksResC ksArgsS ksResS : List String)
    (sliceOrder : List (String × String)) : Bool :=
  S.labelMaster == Spec.KeySchedule.labelMaster &&
  S.labelKeyExpansion == Spec.KeySchedule.labelKeyExpansion &&
  S.labelClientFinished == Spec.KeySchedule.labelClientFinished &&
  S.labelServerFinished == Spec.KeySchedule.labelServerFinished &&
  S.masterLen == Spec.KeySchedule.masterLen &&
  S.verifyLen == Spec.KeySchedule.verifyLen &&
  S.noncePrefixLen == Spec.KeySchedule.fixedIVLen &&
  S.aeadNonceLen == Spec.KeySchedule.fixedIVLen + Spec.KeySchedule.explicitNonceLen &&
  masterSeed == ["clientRandom", "serverRandom"] &&
  masterArgs == ["masterSecret", "preMasterSecret", "masterSecretLabel", "seed"] &&
  masterOut == ["masterSecretLength"] &&
  keySeed == ["serverRandom", "clientRandom"] &&
  keyArgs == ["keyMaterial", "masterSecret", "keyExpansionLabel", "seed"] &&
  keyLenExpr == ["n", "2*macLen+2*keyLen+2*ivLen"] &&
  sliceOrder == [("clientMAC", "macLen"), ("serverMAC", "macLen"), ("clientKey", "keyLen"),
                 ("serverKey", "keyLen"), ("clientIV", "ivLen"), ("serverIV", "ivLen")] &&
  resultNames == ["keyMaterial", "clientMAC", "serverMAC", "clientKey", "serverKey", "clientIV", "serverIV"] &&
  cSum == ["finishedVerifyLength", "masterSecret", "clientFinishedLabel", "h.Sum()"] &&
  sSum == ["finishedVerifyLength", "masterSecret", "serverFinishedLabel", "h.Sum()"] &&
  -- client sends clientSum and checks serverSum; the server the converse
  finUse == ["clientSum", "serverSum", "serverSum", "clientSum"] &&
  -- establishKeys: own hello random first on the client, the client's first on the server
  ksArgsC == ["c.vers", "hs.suite", "hs.masterSecret", "hs.hello.random", "hs.serverHello.random",
              "hs.suite.macLen", "hs.suite.keyLen", "hs.suite.ivLen"] &&
  ksArgsS == ["c.vers", "hs.suite", "hs.masterSecret", "hs.clientHello.random", "hs.hello.random",
              "hs.suite.macLen", "hs.suite.keyLen", "hs.suite.ivLen"] &&
  ksResC == ["workKey", "clientMAC", "serverMAC", "clientKey", "serverKey", "clientIV", "serverIV"] &&
  ksResS == ksResC &&
  -- the `isRead` flag of the CBC constructor follows the direction
  S.clientInCBC.getD 3 "" == "true" && S.clientOutCBC.getD 3 "" == "false" &&
  S.serverInCBC.getD 3 "" == "true" && S.serverOutCBC.getD 3 "" == "false"

theorem C04_facts :
    Facts.missing = [] ∧
    factsOK srcTlcp Facts.tlcp.masterSeedOrder Facts.tlcp.masterPrfArgs Facts.tlcp.masterOutLen
      Facts.tlcp.keySeedOrder Facts.tlcp.keyPrfArgs Facts.tlcp.keyBlockLenExpr Facts.tlcp.keysResultNames
      Facts.tlcp.clientSumArgs Facts.tlcp.serverSumArgs Facts.tlcp.finishedUse
      Facts.tlcp.establishClientKsArgs Facts.tlcp.establishClientKsResults
      Facts.tlcp.establishServerKsArgs Facts.tlcp.establishServerKsResults Facts.tlcp.sliceOrder = true ∧
    factsOK srcDtlcp Facts.dtlcp.masterSeedOrder Facts.dtlcp.masterPrfArgs Facts.dtlcp.masterOutLen
      Facts.dtlcp.keySeedOrder Facts.dtlcp.keyPrfArgs Facts.dtlcp.keyBlockLenExpr Facts.dtlcp.keysResultNames
      Facts.dtlcp.clientSumArgs Facts.dtlcp.serverSumArgs Facts.dtlcp.finishedUse
      Facts.dtlcp.establishClientKsArgs Facts.dtlcp.establishClientKsResults
      Facts.dtlcp.establishServerKsArgs Facts.dtlcp.establishServerKsResults Facts.dtlcp.sliceOrder = true ∧
    Facts.tlcp.recordHeaderLen = 5 ∧ Facts.dtlcp.recordHeaderLen = 13 ∧
    -- who writes the sequence-number state
    Facts.tlcp.seqWriters = ["halfConn.changeCipherSpec", "halfConn.incSeq"] ∧
    Facts.tlcp.incSeqCallers = ["halfConn.decrypt", "halfConn.encrypt"] ∧
    Facts.tlcp.incSeqPanicsOnWrap = true ∧
    Facts.dtlcp.seqWriters = ["Conn.ReadFrom", "Conn.readRecordOrCCS", "Conn.setWriteSeq", "halfConn.changeCipherSpec"] ∧
    Facts.dtlcp.writeSeqWriters = ["Conn.writeRecordLocked"] ∧
    Facts.tlcp.ccsZeroesSeq = true ∧ Facts.tlcp.ccsInstallsNext = true ∧
    Facts.dtlcp.ccsZeroesSeq = true ∧ Facts.dtlcp.ccsInstallsNext = true ∧
    Facts.tlcp.writeRecordCCS = ["err := c.out.changeCipherSpec()"] ∧
    Facts.dtlcp.writeRecordCCS = ["err := c.out.changeCipherSpec()", "c.writeEpoch++", "c.writeSeq = 0"] ∧
    -- the per-record loop of writeRecordLocked: the statements that touch the sequence state, in
    -- order, around the hand-over to the transport ("write"); nothing in the error branch of the
    -- write ("write-err:…") nor anywhere else hands a number back, and dtlcp advances writeSeq
    -- BEFORE the write — a sealed record has consumed its number whatever the transport answers
    Facts.tlcp.writeRecordPerRecord = ["encrypt", "write"] ∧
    Facts.dtlcp.writeRecordPerRecord = ["c.setWriteSeq()", "encrypt", "c.writeSeq++", "write"] ∧
    srcTlcp.seqConsumedOnWriteError = true ∧ srcDtlcp.seqConsumedOnWriteError = true ∧
    -- the receive paths (tlcp Read; dtlcp Read and ReadFrom) take the content of a record from
    -- `c.in.decrypt` ONLY, and UNCONDITIONALLY (no if / else / case above the call): what `rxDeliver`
    -- transcribes and `C04_rx_delivers_only_authentic` is about
    Facts.tlcp.rxContentSources = ["Conn.readRecordOrCCS|-|data, typ, err := c.in.decrypt(record)"] ∧
    Facts.dtlcp.rxContentSources = ["Conn.ReadFrom|-|plaintext, actualTyp, err := c.in.decrypt(record)",
      "Conn.readRecordOrCCS|-|data, typ, err := c.in.decrypt(record)"] ∧
    -- what enters the additional data / the MAC
    Facts.tlcp.encryptADParts = ["|", "hc.seq[:]...", "record[:recordHeaderLen]..."] ∧
    Facts.tlcp.decryptADParts = ["|", "hc.seq[:]...", "record[:3]...", "byte(n >> 8), byte(n)"] ∧
    Facts.dtlcp.encryptADParts = ["|", "hc.seq[:]...", "record[0]", "record[1], record[2]",
      "byte(len(payload) >> 8), byte(len(payload))"] ∧
    Facts.dtlcp.decryptADParts = ["|", "hc.seq[:]...", "record[0]", "record[1], record[2]", "byte(n >> 8), byte(n)"] ∧
    Facts.tlcp.encryptMACArgs.drop 7 = ["hc.mac", "hc.scratchBuf[:0]", "hc.seq[:]", "record[:recordHeaderLen]", "payload", "nil"] ∧
    Facts.tlcp.decryptMACArgs = ["hc.mac", "hc.scratchBuf[:0]", "hc.seq[:]", "record[:recordHeaderLen]", "payload[:n]", "payload[n+macSize:]"] ∧
    Facts.dtlcp.encryptMACArgs.drop 7 = ["hc.mac", "hc.scratchBuf[:0]", "hc.seq[:]", "macHeader", "payload", "nil"] ∧
    Facts.dtlcp.decryptMACArgs = ["hc.mac", "hc.scratchBuf[:0]", "hc.seq[:]", "macHeader", "payload[:n]", "payload[n+macSize:]"] ∧
    Facts.dtlcp.macHeaderEnc.drop 6 = ["record[0]", "record[1]", "record[2]", "record[recordHeaderLen-2]", "record[recordHeaderLen-1]"] ∧
    Facts.dtlcp.macHeaderDec = ["record[0]", "record[1]", "record[2]", "byte(n >> 8)", "byte(n)"] ∧
    Facts.tlcp.tls10MACWrites = ["seq", "header", "data", "Sum"] ∧
    Facts.dtlcp.tls10MACWrites = ["seq", "header", "data", "Sum"] ∧
    Facts.tlcp.encryptCopies.take 2 = ["explicitNonce", "hc.seq[:]"] ∧
    Facts.dtlcp.encryptCopies.take 2 = ["explicitNonce", "hc.seq[:]"] ∧
    Facts.tlcp.prefixNonceSealCopy = ["f.nonce[4:]", "nonce"] ∧ Facts.tlcp.prefixNonceOpenCopy = ["f.nonce[4:]", "nonce"] ∧
    Facts.dtlcp.prefixNonceSealCopy = ["f.nonce[4:]", "nonce"] ∧ Facts.dtlcp.prefixNonceOpenCopy = ["f.nonce[4:]", "nonce"] ∧
    Facts.dtlcp.setWriteSeqSrc = ["c.out.seq[0]=byte(c.writeEpoch >> 8)", "c.out.seq[1]=byte(c.writeEpoch)",
      "c.out.seq[2]=byte(c.writeSeq >> 40)", "c.out.seq[3]=byte(c.writeSeq >> 32)", "c.out.seq[4]=byte(c.writeSeq >> 24)",
      "c.out.seq[5]=byte(c.writeSeq >> 16)", "c.out.seq[6]=byte(c.writeSeq >> 8)", "c.out.seq[7]=byte(c.writeSeq)"] := by
  decide

/-! ### P_hash -/

/-- The loop of `pHash` computes P_hash of the standard, for every secret, seed and output
length and any MAC with a fixed non-zero output length. -/
theorem C04_phash_is_P_SM3 (hm : Bytes → Bytes → Bytes) (h : Nat) (hl : ∀ k m, (hm k m).length = h) (hpos : 0 < h)
    (secret seed : Bytes) (n : Nat) :
    pHash hm secret seed n = PRF.pHash hm h secret seed n :=
  pHash_eq hm h secret seed hl hpos n

/-- … hence `prf12`, the master secret, the key block and both Finished values of the model
are the standard's, with the labels and seed orders the source actually contains. -/
theorem C04_key_schedule (P : Prims) (hl : ∀ k m, (P.hmac k m).length = P.hLen) (hpos : 0 < P.hLen)
    (st : Stack) (pre master cr sr transcript : Bytes) :
    masterFromPreMasterSecret P (srcOf st) pre cr sr = Spec.KeySchedule.masterSecret P pre cr sr ∧
    clientSum P (srcOf st) master transcript = Spec.KeySchedule.verifyData P master .client transcript ∧
    serverSum P (srcOf st) master transcript = Spec.KeySchedule.verifyData P master .server transcript := by
  have hf := C04_facts
  cases st <;>
  · refine ⟨?_, ?_, ?_⟩ <;>
    · simp only [masterFromPreMasterSecret, clientSum, serverSum, prf12, Spec.KeySchedule.masterSecret,
        Spec.KeySchedule.verifyData, Spec.KeySchedule.prf, PRF.prf, Spec.KeySchedule.finishedLabel]
      rw [C04_phash_is_P_SM3 P.hmac P.hLen hl hpos]
      rfl

/-- non-vacuity: the Lean-native HMAC-SM3 satisfies the hypotheses, so the theorem applies to
the very functions the oracle runs -/
theorem sm_hmac_length : ∀ k m, (sm.hmac k m).length = sm.hLen := by
  intro k m; simp only [sm]; exact HMAC.sm3_length k m
theorem sm_hLen_pos : 0 < sm.hLen := by simp only [sm]; decide

example (st : Stack) (pre cr sr : Bytes) :
    masterFromPreMasterSecret sm (srcOf st) pre cr sr = Spec.KeySchedule.masterSecret sm pre cr sr :=
  (C04_key_schedule sm sm_hmac_length sm_hLen_pos st pre [] cr sr []).1

/-! ### cutting the key block -/

def specStack : Stack → Spec.KeySchedule.Stack
  | .tlcp => .tlcp
  | .dtlcp => .dtlcp

def suiteTable : Stack → List (Nat × Nat × Nat × Nat × Nat × Bool × String)
  | .tlcp => Facts.tlcp.suiteTable
  | .dtlcp => Facts.dtlcp.suiteTable

/-- the six slices of the model as a spec key block -/
def asKeyBlock (sl : List (String × Bytes)) : Spec.KeySchedule.KeyBlock :=
  ⟨lookup sl "clientMAC", lookup sl "serverMAC", lookup sl "clientKey", lookup sl "serverKey",
   lookup sl "clientIV", lookup sl "serverIV"⟩

/-- For every row (id, keyLen, macLen, ivLen, _, isAEAD, _) of the extracted `cipherSuites` table
of either stack: the standard knows the suite, its documented lengths and mode are the row's,
the key-material length is the standard's, and cutting ANY key material in the order the source
cuts it (`Facts.*.sliceOrder`) yields the standard's partition client MAC, server MAC, client
key, server key, client IV, server IV. -/
theorem C04_slicing (st : Stack) :
    ∀ row ∈ suiteTable st, ∃ sp, Spec.KeySchedule.suite row.1 = some sp ∧
      sp.keyLen = row.2.1 ∧ sp.macLen = row.2.2.1 ∧ sp.ivLen = row.2.2.2.1 ∧
      (sp.mode = .gcm ↔ row.2.2.2.2.2.1 = true) ∧
      2 * row.2.2.1 + 2 * row.2.1 + 2 * row.2.2.2.1 = Spec.KeySchedule.keyBlockLen sp ∧
      ∀ km : Bytes,
        asKeyBlock (cutSlices row.2.2.1 row.2.1 row.2.2.2.1 (srcOf st).sliceOrder km) = Spec.KeySchedule.cut sp km := by
  cases st <;>
  · intro row hrow
    simp only [suiteTable, Facts.tlcp.suiteTable, Facts.dtlcp.suiteTable, List.mem_cons, List.mem_nil_iff, or_false] at hrow
    rcases hrow with rfl | rfl | rfl | rfl <;>
    · refine ⟨_, rfl, rfl, rfl, rfl, by decide, rfl, ?_⟩
      intro km
      rfl

/-- the whole `keysFromMasterSecret` of the model is the standard's key block -/
theorem C04_key_block (P : Prims) (hl : ∀ k m, (P.hmac k m).length = P.hLen) (hpos : 0 < P.hLen) (st : Stack)
    (master cr sr : Bytes) :
    ∀ row ∈ suiteTable st, ∀ sp, Spec.KeySchedule.suite row.1 = some sp →
      asKeyBlock (keysFromMasterSecret P (srcOf st) master cr sr row.2.2.1 row.2.1 row.2.2.2.1)
        = Spec.KeySchedule.keyBlock P sp master cr sr := by
  intro row hrow sp hsp
  obtain ⟨sp', h1, _, _, _, _, hlen, hcut⟩ := C04_slicing st row hrow
  rw [hsp] at h1; injection h1 with h1; subst h1
  unfold keysFromMasterSecret Spec.KeySchedule.keyBlock
  rw [hcut, hlen]
  congr 1
  cases st <;>
  · simp only [prf12, Spec.KeySchedule.prf, PRF.prf]
    rw [C04_phash_is_P_SM3 P.hmac P.hLen hl hpos]
    rfl

/-! ### which keys protect which direction -/

/-- the named slices of a key block, as `keysFromMasterSecret` returns them -/
def named (kb : Spec.KeySchedule.KeyBlock) : List (String × Bytes) :=
  [("clientMAC", kb.clientMAC), ("serverMAC", kb.serverMAC), ("clientKey", kb.clientKey),
   ("serverKey", kb.serverKey), ("clientIV", kb.clientIV), ("serverIV", kb.serverIV)]

def specKeys (k : DirKeys) : Spec.KeySchedule.DirKeys := ⟨k.mac, k.key, k.iv⟩

/-- From the extracted `establishKeys` of both sides and both stacks: each side installs ITS OWN
write keys for `c.out` and THE PEER's write keys for `c.in` (CBC: MAC key, key, IV; AEAD: key and
4-byte write IV, no MAC key), for every key block. -/
theorem C04_directional (st : Stack) (kb : Spec.KeySchedule.KeyBlock) :
    -- CBC suites
    specKeys (establishKeys (srcOf st) true false (named kb)).out = Spec.KeySchedule.writeKeys kb .client ∧
    specKeys (establishKeys (srcOf st) true false (named kb)).in = Spec.KeySchedule.readKeys kb .client ∧
    specKeys (establishKeys (srcOf st) false false (named kb)).out = Spec.KeySchedule.writeKeys kb .server ∧
    specKeys (establishKeys (srcOf st) false false (named kb)).in = Spec.KeySchedule.readKeys kb .server ∧
    -- AEAD suites
    specKeys (establishKeys (srcOf st) true true (named kb)).out = { Spec.KeySchedule.writeKeys kb .client with mac := [] } ∧
    specKeys (establishKeys (srcOf st) true true (named kb)).in = { Spec.KeySchedule.readKeys kb .client with mac := [] } ∧
    specKeys (establishKeys (srcOf st) false true (named kb)).out = { Spec.KeySchedule.writeKeys kb .server with mac := [] } ∧
    specKeys (establishKeys (srcOf st) false true (named kb)).in = { Spec.KeySchedule.readKeys kb .server with mac := [] } := by
  cases st <;> exact ⟨rfl, rfl, rfl, rfl, rfl, rfl, rfl, rfl⟩

/-- the two ends agree: what one side writes with is what the other reads with -/
theorem C04_directional_agree (st : Stack) (kb : Spec.KeySchedule.KeyBlock) (aead : Bool) :
    (establishKeys (srcOf st) true aead (named kb)).out = (establishKeys (srcOf st) false aead (named kb)).in ∧
    (establishKeys (srcOf st) false aead (named kb)).out = (establishKeys (srcOf st) true aead (named kb)).in := by
  cases st <;> cases aead <;> exact ⟨rfl, rfl⟩

example : (establishKeys srcTlcp true false (named ⟨[1], [2], [3], [4], [5], [6]⟩)).out = ⟨[1], [3], [5]⟩ ∧
          (establishKeys srcTlcp true false (named ⟨[1], [2], [3], [4], [5], [6]⟩)).in = ⟨[2], [4], [6]⟩ := by decide

/-! ### nonces never repeat under one key -/

/-- the 12-byte GCM nonce the model builds in `encrypt` (explicit nonce := hc.seq) is the
standard's write IV ‖ explicit nonce with the sequence number as explicit part -/
theorem C04_nonce_is_iv_seq (st : Stack) (iv seq : Bytes) (hiv : iv.length = 4) (hseq : seq.length = 8) :
    prefixNonce (srcOf st) iv (seq.take (explicitNonceLen (srcOf st) (some (.aead ⟨[], [], iv⟩)))) =
      Spec.KeySchedule.gcmNonce iv seq := by
  have h4 : iv.take 4 = iv := List.take_of_length_le (by omega)
  have h8 : seq.take 8 = seq := List.take_of_length_le (by omega)
  cases st <;>
  · simp only [prefixNonce, explicitNonceLen, Spec.KeySchedule.gcmNonce]
    show iv.take 4 ++ ((seq.take 8).take 8) = iv ++ seq
    rw [h8, h8, h4]

/-- TLCP: sequence numbers below 2^64 give pairwise different nonces (and `incSeq` refuses to
wrap, see `C04_seq_resets_only_on_ccs`). DTLCP: within one epoch sequence numbers below 2^48
give different nonces, and different epochs (below 2^16) always do. -/
theorem C04_nonce_injective (iv : Bytes) :
    (∀ i j, i < 2 ^ 64 → j < 2 ^ 64 → i ≠ j →
      Spec.KeySchedule.gcmNonce iv (Spec.KeySchedule.seqNum .tlcp 0 i) ≠ Spec.KeySchedule.gcmNonce iv (Spec.KeySchedule.seqNum .tlcp 0 j)) ∧
    (∀ e e' i j, e < 2 ^ 16 → e' < 2 ^ 16 → i < 2 ^ 48 → j < 2 ^ 48 → (e, i) ≠ (e', j) →
      Spec.KeySchedule.gcmNonce iv (Spec.KeySchedule.seqNum .dtlcp e i) ≠ Spec.KeySchedule.gcmNonce iv (Spec.KeySchedule.seqNum .dtlcp e' j)) := by
  constructor
  · intro i j hi hj hne h
    simp only [Spec.KeySchedule.gcmNonce, Spec.KeySchedule.seqNum, List.append_cancel_left_eq] at h
    exact hne (be_inj 8 i j (by simpa using hi) (by simpa using hj) h)
  · intro e e' i j he he' hi hj hne h
    simp only [Spec.KeySchedule.gcmNonce, Spec.KeySchedule.seqNum, List.append_cancel_left_eq] at h
    have hl : (be 2 e).length = (be 2 e').length := by rw [length_be, length_be]
    obtain ⟨h1, h2⟩ := List.append_inj h hl
    have := be_inj 2 e e' (by simpa using he) (by simpa using he') h1
    have := be_inj 6 i j (by simpa using hi) (by simpa using hj) h2
    apply hne; simp [*]

/-- the same for the model's own encoding: what `setWriteSeq` puts into `out.seq` -/
theorem C04_nonce_injective_model (w w' : WriteSide)
    (he : w.writeEpoch < 2 ^ 16) (he' : w'.writeEpoch < 2 ^ 16) (hs : w.writeSeq < 2 ^ 48) (hs' : w'.writeSeq < 2 ^ 48)
    (hne : (w.writeEpoch, w.writeSeq) ≠ (w'.writeEpoch, w'.writeSeq)) :
    (setWriteSeq w).out.seq ≠ (setWriteSeq w').out.seq := by
  intro h
  simp only [setWriteSeq] at h
  have hl : (be 2 w.writeEpoch).length = (be 2 w'.writeEpoch).length := by rw [length_be, length_be]
  obtain ⟨h1, h2⟩ := List.append_inj h hl
  have := be_inj 2 _ _ (by simpa using he) (by simpa using he') h1
  have := be_inj 6 _ _ (by simpa using hs) (by simpa using hs') h2
  apply hne; simp [*]

/-- Tightness (a modelled limit of the implementation, not of the standard): `writeSeq` is a
uint64 of which 48 bits are transmitted and there is no wrap check in dtlcp's
`writeRecordLocked`, so record number 2^48 of an epoch would reuse the nonce of record 0. -/
example : (setWriteSeq ⟨Half.init, 1, 2 ^ 48⟩).out.seq = (setWriteSeq ⟨Half.init, 1, 0⟩).out.seq := by decide
example : Spec.KeySchedule.seqNum .dtlcp 1 (2 ^ 48) = Spec.KeySchedule.seqNum .dtlcp 1 0 := by decide
/-- … whereas TLCP's `incSeq` panics instead of wrapping -/
example : incSeq (List.replicate 8 255) = none := by decide
example : incSeq [0, 0, 0, 0, 0, 0, 0, 255] = some [0, 0, 0, 0, 0, 0, 1, 0] := by decide

/-! ### what is authenticated -/

/-- For the header `writeRecordLocked` builds and the sequence number it installs, the bytes the
model feeds to the AEAD as additional data and to the HMAC are exactly the standard's
seq_num ‖ type ‖ version ‖ length (‖ content): the 64-bit sequence number (DTLCP: epoch ‖ 48-bit
sequence number, which is also what `setWriteSeq` writes and what the 13-byte header carries),
type, version and plaintext length are all covered, for both stacks, any field values. -/
theorem C04_ad_covers (st : Stack) (h : Half) (typ ver epoch seq : Nat) (payload explicit : Bytes) :
    let S := srcOf st
    let w : WriteSide := ⟨h, epoch, seq⟩
    let hdr := buildHeader st w typ ver payload.length
    let hcseq := Spec.KeySchedule.seqNum (specStack st) epoch seq
    hdr = Spec.KeySchedule.header (specStack st) typ ver epoch seq payload.length ∧
    adEncrypt S st hcseq (hdr ++ explicit) payload
      = Spec.KeySchedule.additionalData (specStack st) typ ver epoch seq payload.length ∧
    hcseq ++ macHeader S st (hdr ++ explicit) ++ payload
      = Spec.KeySchedule.macInput (specStack st) typ ver epoch seq payload ∧
    (st = .dtlcp → (setWriteSeq w).out.seq = hcseq) := by
  cases st
  · simp [srcOf, srcTlcp, Facts.tlcp.recordHeaderLen, buildHeader, adEncrypt, macHeader, specStack,
      Spec.KeySchedule.header, Spec.KeySchedule.additionalData, Spec.KeySchedule.macInput,
      Spec.KeySchedule.pseudoHeader, Spec.KeySchedule.seqNum, len16_eq, be1]
    simp [be]
  · simp [srcOf, srcDtlcp, Facts.dtlcp.recordHeaderLen, buildHeader, adEncrypt, macHeader, specStack, setWriteSeq,
      Spec.KeySchedule.header, Spec.KeySchedule.additionalData, Spec.KeySchedule.macInput,
      Spec.KeySchedule.pseudoHeader, Spec.KeySchedule.seqNum, len16_eq, be1]
    simp [be]


/-! ### round trip -/

/-- a well-formed record header on entry of `encrypt`: the stack's header length, the last two
bytes holding the plaintext length — what `writeRecordLocked` builds (`C04_header_wellformed`) -/
def HeaderOK (st : Stack) (hdr payload : Bytes) : Prop :=
  hdr.length = (srcOf st).recordHeaderLen ∧ hdr.drop ((srcOf st).recordHeaderLen - 2) = len16 payload.length

theorem C04_header_wellformed (st : Stack) (w : WriteSide) (typ vers : Nat) (payload : Bytes) :
    HeaderOK st (buildHeader st w typ vers payload.length) payload := by
  cases st
  · exact ⟨rfl, rfl⟩
  · constructor
    · simp [buildHeader, length_be, len16_length]; rfl
    · have : (srcOf .dtlcp).recordHeaderLen - 2 = ([UInt8.ofNat typ] ++ len16 vers ++ be 2 w.writeEpoch ++ be 6 w.writeSeq).length := by
        simp [length_be, len16_length]; rfl
      rw [this]; simp [buildHeader]

/-- `decrypt k seq (encrypt k seq hdr p) = ok p` — for BOTH stacks (5- and 13-byte headers), BOTH
cipher kinds (CBC + HMAC with explicit IV and padding; AEAD with explicit nonce), every key, every
8-byte sequence number, every payload, every source of IV bytes, and ANY primitives satisfying
`Laws` (the block function pair is a permutation on 16-byte blocks, `open ∘ seal = id`, fixed MAC
length). The receiver ends in the state the sender ends in (TLCP: both sequence numbers advanced
by one). A TLCP sender at sequence number 2^64-1 panics instead (no wrap). -/
theorem C04_record_roundtrip (P : Prims) (L : Laws P) (st : Stack) (c : Cipher) (next : Option Cipher)
    (seq hdr payload rand : Bytes) (hseq : seq.length = 8) (hh : HeaderOK st hdr payload) (hrand : 16 ≤ rand.length) :
    match encrypt P (srcOf st) st ⟨some c, next, seq⟩ hdr payload rand with
    | .ok (rec, h') => decrypt P (srcOf st) st ⟨some c, next, seq⟩ rec = .ok (payload, h')
    | .panic => st = .tlcp ∧ incSeq seq = none
    | .alert _ => False := by
  obtain ⟨h1, h2⟩ := hh
  cases st with
  | tlcp =>
    cases c with
    | aead k =>
      have h := roundtrip_aead_tlcp P L k next seq hdr payload rand hseq h1 h2
      revert h; simp only [srcOf]
      generalize encrypt P srcTlcp .tlcp ⟨some (.aead k), next, seq⟩ hdr payload rand = r
      intro h; cases r <;> simp_all
    | cbc k =>
      have h := roundtrip_cbc_tlcp P L k next seq hdr payload rand hseq h1 h2 hrand
      revert h; simp only [srcOf]
      generalize encrypt P srcTlcp .tlcp ⟨some (.cbc k), next, seq⟩ hdr payload rand = r
      intro h; cases r <;> simp_all
  | dtlcp =>
    cases c with
    | aead k =>
      have h := roundtrip_aead_dtlcp P L k next seq hdr payload rand hseq h1
      revert h; simp only [srcOf]
      generalize encrypt P srcDtlcp .dtlcp ⟨some (.aead k), next, seq⟩ hdr payload rand = r
      intro h; cases r <;> simp_all
    | cbc k =>
      have h := roundtrip_cbc_dtlcp P L k next seq hdr payload rand h1 h2 hrand
      revert h; simp only [srcOf]
      generalize encrypt P srcDtlcp .dtlcp ⟨some (.cbc k), next, seq⟩ hdr payload rand = r
      intro h; cases r <;> simp_all

/-- the laws are jointly satisfiable (a transparent toy instance) … -/
def toy : Prims where
  hash := id
  hmac := fun _ _ => List.replicate 32 0
  hLen := 32
  enc := fun _ b => b
  dec := fun _ b => b
  aeadSeal := fun _ _ _ p => p ++ List.replicate 16 0
  aeadOpen := fun _ _ _ ct => some (ct.take (ct.length - 16))
  tagLen := 16

theorem C04_laws_satisfiable : Laws toy where
  hmac_len := by intro k m; simp [toy]
  enc_len := by intro k b h; simpa [toy] using h
  dec_enc := by intro k b h; rfl
  open_seal := by intro k n ad p; simp [toy]
  seal_len := by intro k n ad p; simp [toy]

/-- … and the hypotheses of the round trip hold on a concrete non-trivial record -/
example :
    (match encrypt toy srcDtlcp .dtlcp ⟨some (.cbc ⟨[1], [2], [3]⟩), none, be 2 1 ++ be 6 7⟩
        (buildHeader .dtlcp ⟨Half.init, 1, 7⟩ 23 257 3) [10, 20, 30] (List.replicate 16 9) with
      | .ok (rec, _) => decrypt toy srcDtlcp .dtlcp ⟨some (.cbc ⟨[1], [2], [3]⟩), none, be 2 1 ++ be 6 7⟩ rec
      | _ => .panic) = .ok ([10, 20, 30], ⟨some (.cbc ⟨[1], [2], [3]⟩), none, be 2 1 ++ be 6 7⟩) := by decide

/-! ### records of an independent sender -/

/-- The receiver opens what ANY conforming sender seals: for both stacks, every key with a 4-byte
write IV, every type / version / epoch / sequence number, every content and EVERY 8-byte explicit
nonce `e` — the sender's choice (RFC 5288 section 3: it "MAY be the 64-bit sequence number"; a
counter with a random start, all-zero, anything) — the model's `decrypt`, with the sequence
number of the record loaded as the receive paths load it, opens the standard's SM4-GCM sealing
`Spec.KeySchedule.sealGCM` (nonce = write IV ‖ e, additional data = seq_num + type + version +
length) to exactly the content, for any AEAD with `open ∘ seal = id`.  `C04_record_roundtrip` is the
instance `e` = sequence number, the only one gotlcp's own `encrypt` produces.  (TLCP at sequence
number 2^64-1: the receiver's `incSeq` panics, as the sender's would.) -/
theorem C04_open_any_explicit_nonce (P : Prims) (L : Laws P) (st : Stack) (k : DirKeys) (next : Option Cipher)
    (typ ver epoch seq : Nat) (e content : Bytes) (he : e.length = 8) (hiv : k.iv.length = 4) :
    match decrypt P (srcOf st) st ⟨some (.aead k), next, Spec.KeySchedule.seqNum (specStack st) epoch seq⟩
        (Spec.KeySchedule.sealGCM P (specKeys k) (specStack st) typ ver epoch seq e content) with
    | .ok (pt, _) => pt = content
    | .panic => st = .tlcp ∧ incSeq (Spec.KeySchedule.seqNum (specStack st) epoch seq) = none
    | .alert _ => False := by
  cases st with
  | tlcp =>
    have h := open_foreign_nonce_tlcp P L k next typ ver epoch seq e content he hiv
    revert h; simp only [srcOf, specStack, specKeys]
    generalize decrypt P srcTlcp .tlcp _ _ = r
    intro h; cases r <;> simp_all
  | dtlcp =>
    have h := open_foreign_nonce_dtlcp P L k next typ ver epoch seq e content he hiv
    revert h; simp only [srcOf, specStack, specKeys]
    generalize decrypt P srcDtlcp .dtlcp _ _ = r
    intro h; cases r <;> simp_all

/-- non-vacuity: a DTLCP record for epoch 1 / sequence number 7 whose explicit nonce is all-ones
(resp. a TLCP record with an all-zero one) opens to its content -/
example :
    decrypt toy srcDtlcp .dtlcp ⟨some (.aead ⟨[], [2], [3, 3, 3, 3]⟩), none, be 2 1 ++ be 6 7⟩
      (Spec.KeySchedule.sealGCM toy ⟨[], [2], [3, 3, 3, 3]⟩ .dtlcp 23 257 1 7 (List.replicate 8 255) [10, 20, 30])
      = .ok ([10, 20, 30], ⟨some (.aead ⟨[], [2], [3, 3, 3, 3]⟩), none, be 2 1 ++ be 6 7⟩) := by decide
example :
    (match decrypt toy srcTlcp .tlcp ⟨some (.aead ⟨[], [2], [3, 3, 3, 3]⟩), none, be 8 7⟩
      (Spec.KeySchedule.sealGCM toy ⟨[], [2], [3, 3, 3, 3]⟩ .tlcp 23 257 0 7 (List.replicate 8 0) [10, 20, 30]) with
     | .ok (pt, h) => (pt, h.seq) | _ => ([], [])) = ([10, 20, 30], be 8 8) := by decide

/-! ### explicit IV / explicit nonce (DESIGN: C04_cbc_iv_fresh) -/

/-- What travels in the clear in front of the ciphertext: for CBC the 16 bytes just read from the
random source (a fresh IV per record — its unpredictability is the RNG's, trusted), for the AEAD
the 8-byte sequence number (unique per key by `C04_seq_resets_only_on_ccs` and
`C04_nonce_injective`). -/
theorem C04_explicit_part (P : Prims) (st : Stack) (c : Cipher) (next : Option Cipher) (seq hdr payload rand rec : Bytes)
    (h' : Half) (hseq : seq.length = 8) (hh : hdr.length = (srcOf st).recordHeaderLen) (hrand : 16 ≤ rand.length)
    (he : encrypt P (srcOf st) st ⟨some c, next, seq⟩ hdr payload rand = .ok (rec, h')) :
    match c with
    | .cbc _ => ((rec.drop (srcOf st).recordHeaderLen).take 16) = rand.take 16
    | .aead _ => ((rec.drop (srcOf st).recordHeaderLen).take 8) = seq := by
  have hl2 : 2 ≤ (srcOf st).recordHeaderLen := by cases st <;> decide
  have h8 : seq.take 8 = seq := List.take_of_length_le (by omega)
  have hivl : (rand.take 16).length = 16 := by simp [List.length_take]; omega
  have key : ∀ (x y : Bytes) (n : Nat), rec = setLen (srcOf st) (hdr ++ x ++ y) n → rec.drop (srcOf st).recordHeaderLen = x ++ y := by
    intro x y n hr
    rw [hr, List.append_assoc, setLen_shape (srcOf st) hdr (x ++ y) n hh, drop_shape _ hdr (x ++ y) n hh hl2]
  unfold encrypt at he
  cases c with
  | cbc k =>
    have hen : explicitNonceLen (srcOf st) (some (.cbc k)) = 16 := by cases st <;> rfl
    simp only [hen] at he
    cases st with
    | dtlcp =>
      simp only [] at he
      injection he with he; injection he with he _
      simp only []
      rw [key _ _ _ he.symm, List.take_append_of_le_length (by omega)]; exact List.take_of_length_le (by omega)
    | tlcp =>
      simp only [] at he
      cases hi : incSeq seq with
      | none => simp [hi] at he
      | some s =>
        simp only [hi] at he
        injection he with he; injection he with he _
        simp only []
        rw [key _ _ _ he.symm, List.take_append_of_le_length (by omega)]; exact List.take_of_length_le (by omega)
  | aead k =>
    have hen : explicitNonceLen (srcOf st) (some (.aead k)) = 8 := by cases st <;> rfl
    simp only [hen, h8] at he
    cases st with
    | dtlcp =>
      simp only [] at he
      injection he with he; injection he with he _
      simp only []
      rw [key _ _ _ he.symm, List.take_append_of_le_length (by omega)]; exact h8
    | tlcp =>
      simp only [] at he
      cases hi : incSeq seq with
      | none => simp [hi] at he
      | some s =>
        simp only [hi] at he
        injection he with he; injection he with he _
        simp only []
        rw [key _ _ _ he.symm, List.take_append_of_le_length (by omega)]; exact h8

/-! ### the sequence number -/

/-- The sequence number of a half connection changes in exactly two ways.
`encrypt` / `decrypt` (TLCP, cipher active): it advances by exactly one and every other field is
untouched — or the call panics, which happens precisely when all 64 bits are set (no wrap).
DTLCP: `encrypt` / `decrypt` leave it alone (it is loaded from writeEpoch/writeSeq resp. the
record header). `changeCipherSpec`: it becomes zero, and only together with the installation of
the pending cipher. No other function writes it (`C04_facts`: seqWriters / incSeqCallers). -/
theorem C04_seq_resets_only_on_ccs (P : Prims) (st : Stack) (h : Half) (record payload rand : Bytes) :
    (∀ rec h', encrypt P (srcOf st) st h record payload rand = .ok (rec, h') →
        h'.cipher = h.cipher ∧ h'.next = h.next ∧
        (st = .dtlcp ∨ h.cipher = none → h'.seq = h.seq) ∧
        (st = .tlcp → h.cipher ≠ none → fromBE h'.seq = fromBE h.seq + 1 ∧ h'.seq.length = h.seq.length)) ∧
    (encrypt P (srcOf st) st h record payload rand = .panic → st = .tlcp ∧ ∀ b ∈ h.seq, b = 255) ∧
    (∀ h', changeCipherSpec (srcOf st) h = .ok h' →
        h'.seq = zeroSeq ∧ h.next ≠ none ∧ h'.cipher = h.next ∧ h'.next = none) ∧
    (h.next = none → changeCipherSpec (srcOf st) h = .alert (srcOf st).alertInternalError) := by
  refine ⟨?_, ?_, ?_, ?_⟩
  · intro rec h' he
    unfold encrypt at he
    cases hc : h.cipher with
    | none =>
      simp only [hc] at he
      injection he with he; injection he with _ he; subst he
      simp [hc]
    | some c =>
      simp only [hc] at he
      cases st with
      | dtlcp =>
        simp only [] at he
        injection he with he; injection he with _ he; subst he
        simp [hc]
      | tlcp =>
        simp only [] at he
        cases hi : incSeq h.seq with
        | none => simp [hi] at he
        | some s =>
          simp only [hi] at he
          injection he with he; injection he with _ he; subst he
          have := incSeq_some _ _ hi
          simp [hc, this]
  · intro he
    unfold encrypt at he
    cases hc : h.cipher with
    | none => simp [hc] at he
    | some c =>
      simp only [hc] at he
      cases st with
      | dtlcp => simp at he
      | tlcp =>
        simp only [] at he
        cases hi : incSeq h.seq with
        | some s => simp [hi] at he
        | none =>
          refine ⟨rfl, ?_⟩
          unfold incSeq at hi
          cases hr : incSeqRev h.seq.reverse with
          | some r => simp [hr] at hi
          | none =>
            have := (incSeqRev_none _).mp hr
            intro b hb
            exact this b (by simpa using hb)
  · intro h' hcs
    unfold changeCipherSpec at hcs
    cases hn : h.next with
    | none => simp [hn] at hcs
    | some c =>
      simp only [hn] at hcs
      injection hcs with hcs; subst hcs
      simp
  · intro hn
    simp [changeCipherSpec, hn]

/-! ### a failed transport write -/

/-- **Whatever the transport answers, a sealed record consumes its sequence number.**  One record
through `writeRecordLocked` — handed over successfully (`sent = true`) or with `c.write` failing
(`sent = false`, the function returns early) — leaves the write side exactly one step further:
tlcp `out.seq` + 1, dtlcp `writeSeq` + 1 in the same epoch; cipher and epoch are untouched.  Hence the
record a later `sendAlertLocked` seals (close_notify, an alert of the read path) is never sealed
under the number of the failed one.  (Rests on `C04_facts`: no statement of the per-record loop
after `encrypt` writes the sequence state — in particular not the error branch of the transport
write — and dtlcp's `c.writeSeq++` stands before the write.) -/
theorem C04_write_consumes_seq (P : Prims) (st : Stack) (w : WriteSide) (typ vers : Nat) (chunk rand : Bytes)
    (sent : Bool) (rec : Bytes) (w' : WriteSide)
    (hc : w.out.cipher ≠ none) (hb : st = .dtlcp → w.writeSeq + 1 < 2 ^ 64)
    (h : writeOneT P (srcOf st) st w typ vers chunk rand sent = .ok (rec, w')) :
    sealKey st w' = sealKey st w + 1 ∧ w'.writeEpoch = w.writeEpoch ∧ w'.out.cipher = w.out.cipher ∧
    (st = .tlcp → w'.out.seq.length = w.out.seq.length) :=
  write_consumes_seq P st w typ vers chunk rand sent rec w' hc hb h

/-- **No sequence number / GCM nonce is used twice, whatever the transport does.**  For every
history of records handed to the transport of one connection state (any types, contents, IV bytes,
and ANY pattern of transport failures — in particular a failed application-data write followed by
the close_notify of `Close` or an alert of the read path), the 8-byte values the records are sealed
under (MAC sequence number, additional data, explicit GCM nonce — `C04_explicit_part`,
`C04_nonce_is_iv_seq`) are pairwise different.  DTLCP: for fewer than 2^48 records per epoch (the
modelled limit, see above); TLCP: `incSeq` panics instead of wrapping, which ends the history. -/
theorem C04_seal_numbers_never_repeat (P : Prims) (st : Stack) (vers : Nat) :
    ∀ (hist : List (Nat × Bytes × Bytes × Bool)) (w : WriteSide),
      w.out.cipher ≠ none → (st = .dtlcp → w.writeSeq + hist.length ≤ 2 ^ 48) →
      ((writeHistory P (srcOf st) st vers w hist).map (·.1)).Pairwise (· ≠ ·) := by
  intro hist
  induction hist with
  | nil => intro w _ _; simp [writeHistory]
  | cons e rest ih =>
    intro w hc hb
    obtain ⟨typ, chunk, rand, sent⟩ := e
    simp only [writeHistory]
    cases hw : writeOneT P (srcOf st) st w typ vers chunk rand sent with
    | ok r =>
      obtain ⟨rec, w'⟩ := r
      simp only [List.map_cons, List.pairwise_cons]
      have hb64 : st = .dtlcp → w.writeSeq + 1 < 2 ^ 64 := by
        intro h; have := hb h; simp only [List.length_cons] at this
        have : (2:Nat) ^ 48 < 2 ^ 64 := by decide
        omega
      obtain ⟨k1, k2, k3, k4⟩ := C04_write_consumes_seq P st w typ vers chunk rand sent rec w' hc hb64 hw
      have hb' : st = .dtlcp → w'.writeSeq + rest.length ≤ 2 ^ 48 := by
        intro h; have := hb h; simp only [List.length_cons] at this
        have e : w'.writeSeq = w.writeSeq + 1 := by subst h; simpa [sealKey] using k1
        omega
      constructor
      · intro x hx
        obtain ⟨w'', e1, e2, e3, e4, e5⟩ := history_keys P st vers rest w' (by rw [k3]; exact hc) hb' x hx
        rw [e1]
        apply nextSealSeq_ne st w w'' (by rw [e3, k2]) (fun h => by rw [e4 h, k4 h])
        · intro h
          refine ⟨?_, e5 h⟩
          have := hb h; simp only [List.length_cons] at this; omega
        · omega
      · exact ih w' (by rw [k3]; exact hc) hb'
    | alert a => simp
    | panic => simp

/-- non-vacuity and the scenario itself: application data whose transport write FAILS, then a
close_notify — both stacks, toy primitives: two records, sealed under 5 and 6 -/
example :
    (writeHistory toy srcTlcp .tlcp 0x0101 ⟨⟨some (.aead ⟨[], [2], [3, 3, 3, 3]⟩), none, be 8 5⟩, 0, 0⟩
      [(23, [1, 2, 3], [], false), (21, [1, 0], [], true)]).map (·.1) = [be 8 5, be 8 6] := by decide
example :
    (writeHistory toy srcDtlcp .dtlcp 0x0101 ⟨⟨some (.aead ⟨[], [2], [3, 3, 3, 3]⟩), none, zeroSeq⟩, 1, 5⟩
      [(23, [1, 2, 3], [], false), (21, [1, 0], [], true)]).map (·.1) = [be 2 1 ++ be 6 5, be 2 1 ++ be 6 6] := by decide


/-! ### the receiving side: nothing that was not sealed under the direction's key is handed on -/

def modeOf : Cipher → Spec.KeySchedule.Mode
  | .cbc _ => .cbc
  | .aead _ => .gcm

def keysOf : Cipher → DirKeys
  | .cbc k => k
  | .aead k => k

/-- **Whatever `halfConn.decrypt` hands on is authentic.**  For both stacks, both cipher kinds, every
key (AEAD: 4-byte write IV), every header (type, version, epoch, sequence number) and EVERY body —
sealed by anyone, rewritten, or never protected at all — and ANY MAC / block function / AEAD (no law
is assumed): if the model's `decrypt`, under an installed cipher and with the sequence number loaded
as the receive paths load it, returns a content `x`, then `x` is authentic in the standard's sense
(`Spec.KeySchedule.Authentic`): GCM — the AEAD opened the ciphertext to `x` under the cipher's key,
write IV ‖ explicit nonce and additional data seq_num (DTLCP: epoch ‖ sequence_number) + type +
version + length; CBC — `x` is the front of the decryption under the cipher's key and is followed by
HMAC(MAC key, seq_num + type + version + length + x).  A plaintext body has no way through. -/
theorem C04_delivered_is_authentic (P : Prims) (st : Stack) (c : Cipher) (next : Option Cipher)
    (typ ver epoch seq : Nat) (body x : Bytes) (h' : Half)
    (hiv : ∀ k, c = .aead k → k.iv.length = 4)
    (h : decrypt P (srcOf st) st ⟨some c, next, Spec.KeySchedule.seqNum (specStack st) epoch seq⟩
        (Spec.KeySchedule.header (specStack st) typ ver epoch seq body.length ++ body) = .ok (x, h')) :
    Spec.KeySchedule.Authentic P (modeOf c) (specKeys (keysOf c)) (specStack st) typ ver epoch seq body x := by
  cases st with
  | tlcp =>
    cases c with
    | aead k => exact authentic_aead_tlcp P k next typ ver epoch seq body x h' (hiv k rfl) h
    | cbc k => exact authentic_cbc_tlcp P k next typ ver epoch seq body x h' h
  | dtlcp =>
    cases c with
    | aead k => exact authentic_aead_dtlcp P k next typ ver epoch seq body x h' (hiv k rfl) h
    | cbc k => exact authentic_cbc_dtlcp P k next typ ver epoch seq body x h' h

/-- **The receive path hands only authentic content to the record-type switch.**  `rxDeliver` is
`Conn.readRecordOrCCS` from the bytes of a record to `switch typ` (the place where application data
is given to `Read`, alerts are acted upon, handshake / ChangeCipherSpec records are looked at) on a
connection whose read cipher is installed: for every record — any type, any epoch, any sequence
number, any body, at any moment after the peer's ChangeCipherSpec — what arrives there carries the
type of the header, is authentic under the installed cipher's keys with the header's epoch and
sequence number (TLCP: the implicit counter), type, version and length, the version is the
connection's and (DTLCP) the epoch is not older than the read epoch.  So a record that was never
protected — plaintext behind an epoch-0 header included — yields nothing, whatever the connection
is waiting for (its dwell period, the first application record, …). -/
theorem C04_rx_delivers_only_authentic (P : Prims) (st : Stack) (c : Cipher) (next : Option Cipher) (sq : Bytes)
    (vers readEpoch typ ver epoch seq : Nat) (body x : Bytes) (t : Nat)
    (hiv : ∀ k, c = .aead k → k.iv.length = 4)
    (ht : typ < 256) (hv : ver < 65536) (he : epoch < 65536)
    (hsq : st = .tlcp → sq = be 8 seq)
    (h : rxDeliver P (srcOf st) st ⟨⟨some c, next, sq⟩, vers, readEpoch⟩
        (Spec.KeySchedule.header (specStack st) typ ver epoch seq body.length ++ body) = some (t, x)) :
    t = typ ∧ ver = vers ∧ (st = .dtlcp → readEpoch ≤ epoch) ∧
    Spec.KeySchedule.Authentic P (modeOf c) (specKeys (keysOf c)) (specStack st) typ ver epoch seq body x := by
  have hb3 : be 1 typ ++ be 2 ver = [UInt8.ofNat typ, UInt8.ofNat (ver / 256), UInt8.ofNat ver] := by simp [be]
  have htyp : (UInt8.ofNat typ).toNat = typ := by simp; omega
  have two : ∀ n, n < 65536 → (UInt8.ofNat (n / 256)).toNat * 256 + (UInt8.ofNat n).toNat = n := by
    intro n hn; simp; omega
  have hver := two ver hv
  have hep := two epoch he
  cases st with
  | tlcp =>
    have hS : (srcOf .tlcp).recordHeaderLen = 5 := rfl
    have hrec : Spec.KeySchedule.header .tlcp typ ver epoch seq body.length ++ body
        = [UInt8.ofNat typ, UInt8.ofNat (ver / 256), UInt8.ofNat ver] ++ be 2 body.length ++ body := by
      simp only [Spec.KeySchedule.header]; rw [hb3]
    have hdec := fun y => C04_delivered_is_authentic P .tlcp c next typ ver epoch seq body y
    simp only [specStack, Spec.KeySchedule.seqNum] at hdec h
    rw [hsq rfl] at h
    unfold rxDeliver at h
    simp only [hS] at h
    split at h
    · simp at h
    · rw [hrec] at h
      have g0 : ([UInt8.ofNat typ, UInt8.ofNat (ver / 256), UInt8.ofNat ver] ++ be 2 body.length ++ body).getD 0 0 = UInt8.ofNat typ := by simp
      have g1 : ([UInt8.ofNat typ, UInt8.ofNat (ver / 256), UInt8.ofNat ver] ++ be 2 body.length ++ body).getD 1 0 = UInt8.ofNat (ver / 256) := by simp
      have g2 : ([UInt8.ofNat typ, UInt8.ofNat (ver / 256), UInt8.ofNat ver] ++ be 2 body.length ++ body).getD 2 0 = UInt8.ofNat ver := by simp
      simp only [g0, g1, g2, htyp, hver] at h
      split at h
      · simp at h
      · rename_i hvv
        split at h
        · simp at h
        · rw [← hrec] at h
          split at h
          · rename_i data hh heq
            obtain ⟨e1, e2⟩ := (Prod.mk.inj (Option.some.inj h))
            subst e2
            exact ⟨e1.symm, (by simpa using hvv), (by intro hc; cases hc), hdec _ hh hiv heq⟩
          · simp at h
  | dtlcp =>
    have hS : (srcOf .dtlcp).recordHeaderLen = 13 := rfl
    have hdec := fun y => C04_delivered_is_authentic P .dtlcp c next typ ver epoch seq body y
    simp only [specStack, Spec.KeySchedule.seqNum] at hdec h
    have hrec := dtlcp_record_shape typ ver epoch seq body
    unfold rxDeliver at h
    simp only [hS] at h
    split at h
    · simp at h
    · rw [hrec] at h
      have hel : (be 2 epoch ++ be 6 seq).length = 8 := by simp [length_be]
      have g0 : ([UInt8.ofNat typ, UInt8.ofNat (ver / 256), UInt8.ofNat ver] ++ ((be 2 epoch ++ be 6 seq) ++ be 2 body.length) ++ body).getD 0 0 = UInt8.ofNat typ := by simp
      have g1 : ([UInt8.ofNat typ, UInt8.ofNat (ver / 256), UInt8.ofNat ver] ++ ((be 2 epoch ++ be 6 seq) ++ be 2 body.length) ++ body).getD 1 0 = UInt8.ofNat (ver / 256) := by simp
      have g2 : ([UInt8.ofNat typ, UInt8.ofNat (ver / 256), UInt8.ofNat ver] ++ ((be 2 epoch ++ be 6 seq) ++ be 2 body.length) ++ body).getD 2 0 = UInt8.ofNat ver := by simp
      have g3 : ([UInt8.ofNat typ, UInt8.ofNat (ver / 256), UInt8.ofNat ver] ++ ((be 2 epoch ++ be 6 seq) ++ be 2 body.length) ++ body).getD 3 0 = UInt8.ofNat (epoch / 256) := by simp [be]
      have g4 : ([UInt8.ofNat typ, UInt8.ofNat (ver / 256), UInt8.ofNat ver] ++ ((be 2 epoch ++ be 6 seq) ++ be 2 body.length) ++ body).getD 4 0 = UInt8.ofNat epoch := by simp [be]
      have hs8 : (([UInt8.ofNat typ, UInt8.ofNat (ver / 256), UInt8.ofNat ver] ++ ((be 2 epoch ++ be 6 seq) ++ be 2 body.length) ++ body).drop 3).take 8
          = be 2 epoch ++ be 6 seq := by
        simp only [List.append_assoc]
        rw [List.drop_append_of_le_length (by simp), List.drop_of_length_le (by simp)]
        simp only [List.nil_append]
        rw [← List.append_assoc (be 2 epoch), List.take_append_of_le_length (by omega), List.take_of_length_le (by omega)]
      simp only [g0, g1, g2, g3, g4, htyp, hver, hep, hs8] at h
      split at h
      · simp at h
      · rename_i hvv
        split at h
        · simp at h
        · rw [← hrec] at h
          split at h
          · rename_i data hh heq
            split at h
            · simp at h
            · rename_i hle
              obtain ⟨e1, e2⟩ := (Prod.mk.inj (Option.some.inj h))
              subst e2
              exact ⟨e1.symm, (by simpa using hvv), (by intro _; omega), hdec _ hh hiv heq⟩
          · simp at h

/-- The standard's own receiver (`Spec.KeySchedule.receive`, which judges every receive-path case of
the correspondence run) hands on authentic content only, of the negotiated version and (DTLCP) of the
read state's epoch — the same predicate the implementation's receive path is proved to satisfy. -/
theorem C04_spec_receive_authentic (P : Prims) (st : Spec.KeySchedule.Stack) (rs : Spec.KeySchedule.ReadState)
    (ver : Nat) (rec x : Bytes) (t : Nat) (h : Spec.KeySchedule.receive P st rs ver rec = some (t, x)) :
    ∃ p, Spec.KeySchedule.parse st rec = some (p, []) ∧ p.typ = t ∧ p.ver = ver ∧ (st = .dtlcp → p.epoch = rs.epoch) ∧
      Spec.KeySchedule.Authentic P rs.mode rs.keys st p.typ p.ver p.epoch
        (if st = .tlcp then rs.seq else p.seq) p.body x := by
  cases st with
  | tlcp =>
    simp only [Spec.KeySchedule.receive] at h
    split at h
    · rename_i p hp
      split at h
      · simp at h
      · rename_i hv
        split at h
        · simp at h
        · split at h
          · rename_i y hy
            obtain ⟨e1, e2⟩ := Prod.mk.inj (Option.some.inj h)
            subst e2
            exact ⟨p, hp, e1, (by simpa using hv), (by intro hc; cases hc),
              (by simpa using openBody_authentic P rs.mode rs.keys .tlcp p.typ p.ver p.epoch _ p.body _ hy)⟩
          · simp at h
    · simp at h
  | dtlcp =>
    simp only [Spec.KeySchedule.receive] at h
    split at h
    · rename_i p hp
      split at h
      · simp at h
      · rename_i hv
        split at h
        · simp at h
        · rename_i hepo
          split at h
          · rename_i y hy
            obtain ⟨e1, e2⟩ := Prod.mk.inj (Option.some.inj h)
            subst e2
            exact ⟨p, hp, e1, (by simpa using hv), (by intro _; simpa using hepo),
              (by simpa using openBody_authentic P rs.mode rs.keys .dtlcp p.typ p.ver p.epoch _ p.body _ hy)⟩
          · simp at h
    · simp at h

/-- non-vacuity: a DTLCP CBC record sealed by the standard for epoch 1 / sequence number 7 reaches the
type switch with its content … -/
example :
    rxDeliver toy srcDtlcp .dtlcp ⟨⟨some (.cbc ⟨[1], [2], [3]⟩), none, zeroSeq⟩, 0x0101, 1⟩
      (Spec.KeySchedule.sealCBC toy ⟨[1], [2], [3]⟩ .dtlcp 23 0x0101 1 7 (List.replicate 16 9) [10, 20, 30])
      = some (23, [10, 20, 30]) := by decide
/-- … while the same content, NEVER PROTECTED, behind an epoch-0 (or epoch-1) application-data header
yields nothing — 64 plaintext bytes, long enough to pass every length check; TLCP likewise -/
example :
    rxDeliver toy srcDtlcp .dtlcp ⟨⟨some (.cbc ⟨[1], [2], [3]⟩), none, zeroSeq⟩, 0x0101, 1⟩
      (Spec.KeySchedule.header .dtlcp 23 0x0101 0 7 64 ++ (List.range 64).map UInt8.ofNat) = none := by decide
example :
    rxDeliver toy srcDtlcp .dtlcp ⟨⟨some (.cbc ⟨[1], [2], [3]⟩), none, zeroSeq⟩, 0x0101, 1⟩
      (Spec.KeySchedule.header .dtlcp 23 0x0101 1 7 64 ++ (List.range 64).map UInt8.ofNat) = none := by decide
example :
    rxDeliver toy srcTlcp .tlcp ⟨⟨some (.cbc ⟨[1], [2], [3]⟩), none, be 8 7⟩, 0x0101, 0⟩
      (Spec.KeySchedule.header .tlcp 21 0x0101 0 0 64 ++ (List.range 64).map UInt8.ofNat) = none := by decide
example :
    Spec.KeySchedule.receive toy .dtlcp ⟨.cbc, ⟨[1], [2], [3]⟩, 1, 0⟩ 0x0101
      (Spec.KeySchedule.header .dtlcp 23 0x0101 0 7 64 ++ (List.range 64).map UInt8.ofNat) = none := by decide
example :
    Spec.KeySchedule.receive toy .dtlcp ⟨.cbc, ⟨[1], [2], [3]⟩, 1, 0⟩ 0x0101
      (Spec.KeySchedule.sealCBC toy ⟨[1], [2], [3]⟩ .dtlcp 23 0x0101 1 7 (List.replicate 16 9) [10, 20, 30])
      = some (23, [10, 20, 30]) := by decide

/-! ### the padding check of the TRANSLATED source, both stacks -/

/-- **`extractPadding` as it stands in the source of BOTH stacks** (`Gotlcp.Src.tlcp` /
`Gotlcp.Src.dtlcp`, regenerated from conn.go on every run and tied to the bit-level model by
`Tie.Padding.tie_extractPadding` / `Tie.PaddingDtlcp.tie_extractPadding_dtlcp`) computes, for every
decrypted CBC payload (any length up to 2^31; records are at most 2^14 + 2048 bytes), exactly the
contract the model of `decrypt` uses: it never panics, `good` is all-ones exactly when the last
`padding_length + 1` bytes — up to all 256 of them, not only those of the last cipher block — equal
`padding_length`, and then that many bytes are removed; otherwise `good = 0` and one byte is
removed (so the MAC check runs on the longest possible content). -/
theorem C04_src_extractPadding (payload : List (BitVec 8)) (hlen : payload.length ≤ 2 ^ 31) :
    let c := extractPadding (payload.map UInt8.ofBitVec)
    Src.tlcp.extractPadding payload = .ok ((c.1 : Int), if c.2 then 255#8 else 0#8) ∧
    Src.dtlcp.extractPadding payload = .ok ((c.1 : Int), if c.2 then 255#8 else 0#8) := by
  have hlen' : (payload.map UInt8.ofBitVec).length ≤ 2 ^ 31 := by simpa using hlen
  have key : ∀ p : Bytes, p.length ≤ 2 ^ 31 →
      (Model.RecordRx.extractPadding p).2.toBitVec = if (extractPadding p).2 then 255#8 else 0#8 := by
    intro p hp
    rw [contract_eq p hp]
    cases hl : p.getLast? with
    | none =>
      have : p = [] := by simpa using hl
      subst this; rfl
    | some l =>
      obtain ⟨c1, c2⟩ := Lemmas.RecordRx.extractPadding_correct p l hl hp
      by_cases hv : Lemmas.RecordRx.ValidPad p l
      · rw [c1 hv]; rfl
      · rw [c2 hv]; rfl
  simp only []
  rw [Tie.Padding.tie_extractPadding, Tie.PaddingDtlcp.tie_extractPadding_dtlcp, key _ hlen', contract_eq _ hlen']
  exact ⟨rfl, rfl⟩

/-- … in the terms of the standard (6.3.3.4.2): a decrypted payload ending in a well-formed padding
of ANY legal length `p ≤ 255` is accepted with `p + 1` bytes removed; if any one of the `p` padding
bytes in front of the length byte differs — wherever it lies, also farther than one cipher block
from the end — the padding is rejected. Both stacks, the translated source. -/
theorem C04_src_long_padding (body : List (BitVec 8)) (p : Nat) (hp : p ≤ 255)
    (hlen : body.length + p + 1 ≤ 2 ^ 31) :
    Src.dtlcp.extractPadding (body ++ List.replicate (p + 1) (BitVec.ofNat 8 p)) = .ok ((p : Int) + 1, 255#8) ∧
    Src.tlcp.extractPadding (body ++ List.replicate (p + 1) (BitVec.ofNat 8 p)) = .ok ((p : Int) + 1, 255#8) ∧
    ∀ (i : Nat) (b : BitVec 8), i < p → b ≠ BitVec.ofNat 8 p →
      Src.dtlcp.extractPadding (body ++ (List.replicate (p + 1) (BitVec.ofNat 8 p)).set i b) = .ok (1, 0#8) ∧
      Src.tlcp.extractPadding (body ++ (List.replicate (p + 1) (BitVec.ofNat 8 p)).set i b) = .ok (1, 0#8) := by
  let l : UInt8 := UInt8.ofBitVec (BitVec.ofNat 8 p)
  have hlp : l.toNat = p := by
    show (BitVec.ofNat 8 p).toNat = p
    simp only [BitVec.toNat_ofNat]; omega
  have good : extractPadding ((body ++ List.replicate (p + 1) (BitVec.ofNat 8 p)).map UInt8.ofBitVec) = (p + 1, true) := by
    rw [List.map_append, List.map_replicate]
    rw [contract_tail _ _ l (by simp [hlp]) (by simp [List.getLast?_replicate]; rfl)]
    have : (List.replicate (p + 1) l).all (· == l) = true := by simp
    rw [if_pos this, hlp]
  refine ⟨?_, ?_, ?_⟩
  · have := (C04_src_extractPadding (body ++ List.replicate (p + 1) (BitVec.ofNat 8 p)) (by simp; omega)).2
    simp only [good] at this
    exact this
  · have := (C04_src_extractPadding (body ++ List.replicate (p + 1) (BitVec.ofNat 8 p)) (by simp; omega)).1
    simp only [good] at this
    exact this
  · intro i b hi hb
    have bad : extractPadding ((body ++ (List.replicate (p + 1) (BitVec.ofNat 8 p)).set i b).map UInt8.ofBitVec) = (1, false) := by
      rw [List.map_append, List.map_set, List.map_replicate]
      have hlast : ((List.replicate (p + 1) l).set i (UInt8.ofBitVec b)).getLast? = some l := by
        rw [List.getLast?_eq_getElem?]
        simp only [List.length_set, List.length_replicate, Nat.add_sub_cancel]
        rw [List.getElem?_set_ne (by omega)]
        simp
      rw [contract_tail _ _ l (by simp [hlp]) hlast]
      have hall : ((List.replicate (p + 1) l).set i (UInt8.ofBitVec b)).all (· == l) = false := by
        rw [Bool.eq_false_iff]
        intro h
        rw [List.all_eq_true] at h
        have hm : UInt8.ofBitVec b ∈ (List.replicate (p + 1) l).set i (UInt8.ofBitVec b) :=
          List.mem_set (by simp; omega) _
        have := h _ hm
        simp only [beq_iff_eq] at this
        apply hb
        have : (UInt8.ofBitVec b).toBitVec = l.toBitVec := by rw [this]
        exact this
      simp only [hall, Bool.false_eq_true, if_false]
    have hl2 : (body ++ (List.replicate (p + 1) (BitVec.ofNat 8 p)).set i b).length ≤ 2 ^ 31 := by simp; omega
    obtain ⟨t1, t2⟩ := C04_src_extractPadding _ hl2
    simp only [bad] at t1 t2
    exact ⟨t2, t1⟩

-- a record with 252 bytes of padding through the translated dtlcp code: accepted; the same with
-- the first padding byte (252 bytes from the end) damaged: rejected
example : Src.dtlcp.extractPadding ([1#8, 2#8, 3#8] ++ List.replicate 253 252#8) = .ok (253, 255#8) :=
  (C04_src_long_padding [1#8, 2#8, 3#8] 252 (by omega) (by decide)).1
example : Src.dtlcp.extractPadding ([1#8, 2#8, 3#8] ++ (List.replicate 253 252#8).set 0 0xaa#8) = .ok (1, 0#8) :=
  ((C04_src_long_padding [1#8, 2#8, 3#8] 252 (by omega) (by decide)).2.2 0 0xaa#8 (by omega) (by decide)).1
-- small ones by evaluation of the translated text itself (`toOption`: `Except` has no `DecidableEq`)
example : (Src.dtlcp.extractPadding ([9#8] ++ List.replicate 18 17#8)).toOption = some (18, 255#8) := by decide
example : (Src.dtlcp.extractPadding ([9#8] ++ (List.replicate 18 17#8).set 0 0xaa#8)).toOption = some (1, 0#8) := by decide


/-! ### sequence numbers of the SOURCE TEXT

tlcp `halfConn.incSeq` and dtlcp `Conn.setWriteSeq` are regenerated from the Go source on every run
(`Gotlcp.Src`); `Gotlcp.Tie.Seq` proves them equal to the models used above for every value. -/

/-- The translated `incSeq` increments the 8-byte sequence number exactly as the model does, for
every value; the only failure is the "sequence number wraparound" panic at 2^64 − 1 (`none`), so a
record sequence number (= GCM nonce, MAC input) is never reused under one key. -/
theorem C04_src_incSeq (hc : Src.tlcp.halfConn) (b0 b1 b2 b3 b4 b5 b6 b7 : BitVec 8)
    (h : hc.seq = [b0, b1, b2, b3, b4, b5, b6, b7]) :
    Tie.Seq.incResult (Src.tlcp.halfConn.incSeq hc) = incSeq (Tie.Seq.toBytes hc.seq) :=
  (Tie.Seq.tie_incSeq hc b0 b1 b2 b3 b4 b5 b6 b7 h).1

/-- The translated `setWriteSeq` loads `epoch ‖ 48-bit sequence number` (big-endian) into the
8 bytes that `encrypt` MACs / uses as the GCM nonce, and cannot panic. -/
theorem C04_src_setWriteSeq (c : Src.dtlcp.Conn) (h : c.out.seq.length = 8) :
    ∃ c', Src.dtlcp.Conn.setWriteSeq c = .ok c'
      ∧ Tie.Seq.toBytes c'.out.seq = be 2 c.writeEpoch.toNat ++ be 6 c.writeSeq.toNat := by
  obtain ⟨c', h1, h2, _⟩ := Tie.Seq.tie_setWriteSeq c h
  exact ⟨c', h1, h2⟩

/-- … hence two different (epoch, sequence number < 2^48) pairs give different nonce bytes in the
translated source as well -/
theorem C04_src_nonce_injective (c d : Src.dtlcp.Conn) (hc : c.out.seq.length = 8) (hd : d.out.seq.length = 8)
    (sc : c.writeSeq.toNat < 2 ^ 48) (sd : d.writeSeq.toNat < 2 ^ 48)
    (hne : (c.writeEpoch, c.writeSeq) ≠ (d.writeEpoch, d.writeSeq))
    (c' d' : Src.dtlcp.Conn) (ec : Src.dtlcp.Conn.setWriteSeq c = .ok c') (ed : Src.dtlcp.Conn.setWriteSeq d = .ok d') :
    c'.out.seq ≠ d'.out.seq := by
  obtain ⟨c2, h1, h2⟩ := C04_src_setWriteSeq c hc
  obtain ⟨d2, g1, g2⟩ := C04_src_setWriteSeq d hd
  rw [ec] at h1; rw [ed] at g1
  cases h1; cases g1
  intro e
  have e' : be 2 c.writeEpoch.toNat ++ be 6 c.writeSeq.toNat = be 2 d.writeEpoch.toNat ++ be 6 d.writeSeq.toNat := by
    rw [← h2, ← g2, e]
  have hl : (be 2 c.writeEpoch.toNat).length = (be 2 d.writeEpoch.toNat).length := by rw [length_be, length_be]
  obtain ⟨e1, e2⟩ := List.append_inj e' hl
  have he := be_inj 2 _ _ (by have := c.writeEpoch.isLt; simpa using this) (by have := d.writeEpoch.isLt; simpa using this) e1
  have hs := be_inj 6 _ _ (by simpa using sc) (by simpa using sd) e2
  apply hne
  rw [Prod.mk.injEq]
  exact ⟨BitVec.eq_of_toNat_eq he, BitVec.eq_of_toNat_eq hs⟩

example : Tie.Seq.incResult (Src.tlcp.halfConn.incSeq { seq := [0#8, 0#8, 0#8, 0#8, 0#8, 0#8, 1#8, 255#8] })
    = some [0, 0, 0, 0, 0, 0, 2, 0] := by decide
example : Tie.Seq.incResult (Src.tlcp.halfConn.incSeq { seq := List.replicate 8 255#8 }) = none := by decide


/-! ### key schedule of the SOURCE TEXT

`pHash`, `prf12`, `prfForVersion` (view: every suite uses `prf12(sm3.New)`), `masterFromPreMasterSecret`
and `keysFromMasterSecret` of both stacks are regenerated from prf.go on every run (`Gotlcp.Src`);
`Gotlcp.Tie.KeySched` proves them equal to the models above for every input.  The keyed hash is the
parameter `ext.hmac` of the translated code; the statements hold for every `ext` whose MAC output has
a fixed positive length (HMAC-SM3: 32) — labels, seed order, output lengths and the cutting order come
from the translated text itself, not from the regex facts of `C04_facts`. -/

theorem C04_src_translated : Src.untranslated = [] := by decide

/-- The translated `pHash` of both stacks returns normally for every `result`, `secret`, `seed` (no
panic, the loop bound is never reached) and fills `result` with P_hash of the standard. -/
theorem C04_src_phash_is_P_SM3 (ext : Go.Extern) (h : Nat) (hl : ∀ k x, (ext.hmac .sm3 k x).length = h) (hpos : 0 < h)
    (result secret seed : List (BitVec 8)) :
    (∃ r, Src.tlcp.pHash ext result secret seed .sm3 = .ok r ∧
      Tie.KeySched.toBytes r = PRF.pHash (Tie.KeySched.hm ext .sm3) h (Tie.KeySched.toBytes secret)
        (Tie.KeySched.toBytes seed) result.length) ∧
    (∃ r, Src.dtlcp.pHash ext result secret seed .sm3 = .ok r ∧
      Tie.KeySched.toBytes r = PRF.pHash (Tie.KeySched.hm ext .sm3) h (Tie.KeySched.toBytes secret)
        (Tie.KeySched.toBytes seed) result.length) := by
  have hl' := Tie.KeySched.hm_length ext .sm3 h hl
  constructor
  · obtain ⟨r, h1, _, h3⟩ := Tie.KeySched.tie_pHash ext .sm3 h hl hpos result secret seed
    exact ⟨r, h1, by rw [h3, C04_phash_is_P_SM3 _ h hl' hpos]⟩
  · obtain ⟨r, h1, _, h3⟩ := Tie.KeySched.tie_pHash_dtlcp ext .sm3 h hl hpos result secret seed
    exact ⟨r, h1, by rw [h3, C04_phash_is_P_SM3 _ h hl' hpos]⟩

/-- The translated `masterFromPreMasterSecret` of both stacks returns, for every pre-master secret and
every pair of randoms, the standard's `PRF(pre, "master secret", client_random ‖ server_random)[0..47]`
— which is also what the model says (`P` is any `Prims` whose HMAC is the translated code's). -/
theorem C04_src_master_secret (ext : Go.Extern) (P : Prims) (hP : P.hmac = Tie.KeySched.hm ext .sm3)
    (hl : ∀ k x, (ext.hmac .sm3 k x).length = P.hLen) (hpos : 0 < P.hLen)
    (v : BitVec 16) (pre cr sr : List (BitVec 8)) :
    (∀ s, ∃ m, Src.tlcp.masterFromPreMasterSecret ext v s pre cr sr = .ok m ∧
      Tie.KeySched.toBytes m = Spec.KeySchedule.masterSecret P (Tie.KeySched.toBytes pre) (Tie.KeySched.toBytes cr)
        (Tie.KeySched.toBytes sr) ∧
      Tie.KeySched.toBytes m = masterFromPreMasterSecret P (srcOf .tlcp) (Tie.KeySched.toBytes pre)
        (Tie.KeySched.toBytes cr) (Tie.KeySched.toBytes sr)) ∧
    (∀ s, ∃ m, Src.dtlcp.masterFromPreMasterSecret ext v s pre cr sr = .ok m ∧
      Tie.KeySched.toBytes m = Spec.KeySchedule.masterSecret P (Tie.KeySched.toBytes pre) (Tie.KeySched.toBytes cr)
        (Tie.KeySched.toBytes sr) ∧
      Tie.KeySched.toBytes m = masterFromPreMasterSecret P (srcOf .dtlcp) (Tie.KeySched.toBytes pre)
        (Tie.KeySched.toBytes cr) (Tie.KeySched.toBytes sr)) := by
  have hlP : ∀ k m, (P.hmac k m).length = P.hLen := by
    rw [hP]; exact Tie.KeySched.hm_length ext .sm3 P.hLen hl
  constructor
  · intro s
    obtain ⟨m, h1, h2⟩ := Tie.KeySched.tie_master ext P hP hl hpos v s pre cr sr
    exact ⟨m, h1, h2, by rw [h2, (C04_key_schedule P hlP hpos .tlcp _ [] _ _ []).1]⟩
  · intro s
    obtain ⟨m, h1, h2⟩ := Tie.KeySched.tie_master_dtlcp ext P hP hl hpos v s pre cr sr
    exact ⟨m, h1, h2, by rw [h2, (C04_key_schedule P hlP hpos .dtlcp _ [] _ _ []).1]⟩

/-- The translated `keysFromMasterSecret` of both stacks, for every master secret, every pair of
randoms and the lengths of any suite parameters: returns normally, and its six slices are the
standard's key block — `PRF(master, "key expansion", server_random ‖ client_random)` cut as client MAC,
server MAC, client key, server key, client IV, server IV. -/
theorem C04_src_key_block (ext : Go.Extern) (P : Prims) (hP : P.hmac = Tie.KeySched.hm ext .sm3)
    (hl : ∀ k x, (ext.hmac .sm3 k x).length = P.hLen) (hpos : 0 < P.hLen)
    (v : BitVec 16) (sp : Spec.KeySchedule.SuiteParams) (master cr sr : List (BitVec 8)) :
    (∀ s, ∃ rest cMAC sMAC cKey sKey cIV sIV,
      Src.tlcp.keysFromMasterSecret ext v s master cr sr sp.macLen sp.keyLen sp.ivLen
        = .ok (rest, cMAC, sMAC, cKey, sKey, cIV, sIV) ∧
      (⟨Tie.KeySched.toBytes cMAC, Tie.KeySched.toBytes sMAC, Tie.KeySched.toBytes cKey, Tie.KeySched.toBytes sKey,
        Tie.KeySched.toBytes cIV, Tie.KeySched.toBytes sIV⟩ : Spec.KeySchedule.KeyBlock)
        = Spec.KeySchedule.keyBlock P sp (Tie.KeySched.toBytes master) (Tie.KeySched.toBytes cr) (Tie.KeySched.toBytes sr)) ∧
    (∀ s, ∃ rest cMAC sMAC cKey sKey cIV sIV,
      Src.dtlcp.keysFromMasterSecret ext v s master cr sr sp.macLen sp.keyLen sp.ivLen
        = .ok (rest, cMAC, sMAC, cKey, sKey, cIV, sIV) ∧
      (⟨Tie.KeySched.toBytes cMAC, Tie.KeySched.toBytes sMAC, Tie.KeySched.toBytes cKey, Tie.KeySched.toBytes sKey,
        Tie.KeySched.toBytes cIV, Tie.KeySched.toBytes sIV⟩ : Spec.KeySchedule.KeyBlock)
        = Spec.KeySchedule.keyBlock P sp (Tie.KeySched.toBytes master) (Tie.KeySched.toBytes cr) (Tie.KeySched.toBytes sr)) := by
  constructor
  · intro s
    have := Tie.KeySched.tie_keys ext P hP hl hpos v s master cr sr sp.macLen sp.keyLen sp.ivLen
      (by omega) (by omega) (by omega) sp.mode
    simpa only [Int.toNat_natCast] using this
  · intro s
    have := Tie.KeySched.tie_keys_dtlcp ext P hP hl hpos v s master cr sr sp.macLen sp.keyLen sp.ivLen
      (by omega) (by omega) (by omega) sp.mode
    simpa only [Int.toNat_natCast] using this

/-- non-vacuity: the Lean-native HMAC-SM3 (the MAC the oracle runs), seen as an `Extern`, satisfies the
hypotheses — so the translated source computes `Spec.KeySchedule.masterSecret sm` on every input -/
example (v : BitVec 16) (s : Src.tlcp.cipherSuite) (pre cr sr : List (BitVec 8)) :
    ∃ m, Src.tlcp.masterFromPreMasterSecret (Tie.KeySched.extOf sm.hmac) v s pre cr sr = .ok m ∧
      Tie.KeySched.toBytes m = Spec.KeySchedule.masterSecret sm (Tie.KeySched.toBytes pre) (Tie.KeySched.toBytes cr)
        (Tie.KeySched.toBytes sr) := by
  obtain ⟨m, h1, h2, _⟩ := (C04_src_master_secret (Tie.KeySched.extOf sm.hmac) sm (Tie.KeySched.hm_extOf sm.hmac .sm3).symm
    (Tie.KeySched.extOf_length sm.hmac sm.hLen sm_hmac_length .sm3) sm_hLen_pos v pre cr sr).1 s
  exact ⟨m, h1, h2⟩

/-- a toy keyed hash with 4-byte output that depends on the key, on every input byte and on their
order (for evaluating the translated text inside the kernel) -/
def toyExt : Go.Extern :=
  ⟨fun _ k x => [(k ++ x).foldl (fun a b => a * 3#8 + b) 0#8, BitVec.ofNat 8 (k.length + x.length), x.headD 0#8, x.getLastD 0#8]⟩

def toyPrims : Prims := { sm with hmac := Tie.KeySched.hm toyExt .sm3, hLen := 4 }

-- the translated text evaluated (`toOption`: `Except` has no `DecidableEq`): 6 bytes = one whole MAC
-- output and the first half of the second; both stacks
example : (Src.tlcp.pHash toyExt (List.replicate 6 0#8) [1#8] [2#8, 3#8] .sm3).toOption
    = some [0x3c#8, 0x07#8, 0x12#8, 0x03#8, 0xd9#8, 0x07#8] := by decide
example : (Src.dtlcp.pHash toyExt (List.replicate 6 0#8) [1#8] [2#8, 3#8] .sm3).toOption
    = some [0x3c#8, 0x07#8, 0x12#8, 0x03#8, 0xd9#8, 0x07#8] := by decide
-- … against the standard's P_hash, the master secret and the key block, computed by the spec
example : ((Src.tlcp.pHash toyExt (List.replicate 6 0#8) [1#8] [2#8, 3#8] .sm3).toOption.map Tie.KeySched.toBytes)
    = some (PRF.pHash toyPrims.hmac 4 [1] [2, 3] 6) := by decide
set_option maxRecDepth 8192 in
example : ((Src.tlcp.masterFromPreMasterSecret toyExt 0x0101#16 {} [7#8] [1#8] [2#8]).toOption.map Tie.KeySched.toBytes)
    = some (Spec.KeySchedule.masterSecret toyPrims [7] [1] [2]) := by decide
set_option maxRecDepth 8192 in
example : ((Src.dtlcp.masterFromPreMasterSecret toyExt 0x0101#16 {} [7#8] [1#8] [2#8]).toOption.map Tie.KeySched.toBytes)
    = some (Spec.KeySchedule.masterSecret toyPrims [7] [1] [2]) := by decide
-- swapping the randoms gives another secret (the toy MAC sees the order)
set_option maxRecDepth 8192 in
example : Spec.KeySchedule.masterSecret toyPrims [7] [1] [2] ≠ Spec.KeySchedule.masterSecret toyPrims [7] [2] [1] := by decide
set_option maxRecDepth 8192 in
example : ((Src.tlcp.keysFromMasterSecret toyExt 0x0101#16 {} [7#8] [1#8] [2#8] 1 2 3).toOption.map
      fun r => (⟨Tie.KeySched.toBytes r.2.1, Tie.KeySched.toBytes r.2.2.1, Tie.KeySched.toBytes r.2.2.2.1,
        Tie.KeySched.toBytes r.2.2.2.2.1, Tie.KeySched.toBytes r.2.2.2.2.2.1, Tie.KeySched.toBytes r.2.2.2.2.2.2⟩ :
        Spec.KeySchedule.KeyBlock))
    = some (Spec.KeySchedule.keyBlock toyPrims ⟨.cbc, 1, 2, 3⟩ [7] [1] [2]) := by decide
-- a negative length is Go's `makeslice: len out of range` panic (outside the theorem's hypothesis)
example : (Src.tlcp.keysFromMasterSecret toyExt 0x0101#16 {} [7#8] [1#8] [2#8] (-1) 2 1).toOption = none := by decide

end Gotlcp.Props.C04

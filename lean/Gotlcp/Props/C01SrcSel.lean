/-
C01, property theorems about the TRANSLATED cipher-suite selection / resumption decision
(`Src.<stack>.sel`; see DESIGN.md 12.4).  Same namespace as Props/C01.lean; listed in checks/C01.json under
extra_props_files.

`Gotlcp.Src.{tlcp,dtlcp}.sel.*` are regenerated from the Go source on every run: `Config.cipherSuites`,
`mutualCipherSuite`, `selectCipherSuite`, `serverHandshakeState.cipherSuiteOk`,
`serverHandshakeState.pickCipherSuite`, `clientHandshakeState.pickCipherSuite` and the tables
`cipherSuitesPreferenceOrder`, `disabledCipherSuites`, `defaultCipherSuites`.  The statements below are about THOSE
definitions: for every suite table `tbl` (the package-level map `cipherSuites` is a parameter), every answer `nn` to
`CipherSuites != nil`, every handshake state whose pointers `hs.c`, `hs.c.config`, `hs.clientHello` (server) /
`hs.c`, `hs.hello`, `hs.serverHello` (client) are non-nil — outside these hypotheses the Go code panics, and the
translation returns the nil-dereference error (`C01_src_sel_nil_panics_*`) —, every configured list, every offer.

THE PROPERTY (`C01_src_sel_pick_first_*`): the suite the server picks is the FIRST entry of the documented priority
order (ECC-GCM, ECC-CBC, ECDHE-GCM, ECDHE-CBC: `C01_src_sel_tables`) that is configured on the server, offered by
the client, present in the table, and admitted by `cipherSuiteOk` (the server has keys for it); the pick fails —
handshake_failure, a non-nil error — exactly when no entry qualifies (`C01_src_sel_pick_fails_iff_*`); it does not
depend on the ORDER of the server's configured list nor on the order of the client's offer
(`C01_src_sel_order_independent_*`); the client accepts exactly a suite it offered and the table knows
(`C01_src_sel_client_accepts_iff_*`), and therefore accepts whatever the server picked from its offer
(`C01_src_sel_agreement_*`).  `C01_src_sel_is_model_*`: the translated functions ARE the model functions
(`serverPick`, `selectCipherSuite`, `cipherSuiteOk`, `configSuites`, `mutualCipherSuite`, and the guards of
`serverResumes`) of the model instance `factsP st` that the theorems of Props/C01.lean are about — which is where
`factsP`'s `pref`, `disabled`, `serverPrefFirst`, `resumeSuiteGuards` and the policy-guard half of
`resumeHonoursPolicy` come from (literals of `Model/Negotiate.lean`, not text-matching facts).
-/
import Gotlcp.Tie.Select
import Gotlcp.Tie.ResumeDecision
import Gotlcp.Model.NegotiateFacts

set_option linter.unusedSimpArgs false
set_option linter.unusedVariables false

namespace Gotlcp.Props.C01
open Gotlcp.Model.Negotiate
open Gotlcp.Tie.Select

/-- Every function the translator was asked for was translated, and the model instance of Props/C01.lean takes
its preference order, its (empty) list of disabled suites, "the server's preference list is the outer loop", the
two flag constants, and the resumption guards from the values the ties prove about the translated text. -/
theorem C01_src_sel_translated :
    Src.untranslated = [] ∧ ∀ st, TreeParams (factsP st) ∧ Gotlcp.Tie.ResumeDecision.TreeResume (factsP st) :=
  ⟨by decide, fun st => by
    cases st <;> exact ⟨⟨rfl, rfl, by decide, by decide, rfl⟩, ⟨by decide, by decide, by decide, rfl⟩⟩⟩

/-- The preference order literal of the source, in BOTH stacks, is the documented priority order
ECC-GCM, ECC-CBC, ECDHE-GCM, ECDHE-CBC = [0xe053, 0xe013, 0xe051, 0xe011]; no suite is disabled; the default
list (`Config.CipherSuites == nil`) is the whole order. -/
theorem C01_src_sel_tables :
    Src.tlcp.sel.cipherSuitesPreferenceOrder = [0xe053#16, 0xe013#16, 0xe051#16, 0xe011#16] ∧
    Src.dtlcp.sel.cipherSuitesPreferenceOrder = [0xe053#16, 0xe013#16, 0xe051#16, 0xe011#16] ∧
    Src.tlcp.sel.cipherSuitesPreferenceOrder.map (·.toNat) =
      [Facts.tlcp.ECC_SM4_GCM_SM3, Facts.tlcp.ECC_SM4_CBC_SM3, Facts.tlcp.ECDHE_SM4_GCM_SM3, Facts.tlcp.ECDHE_SM4_CBC_SM3] ∧
    Src.dtlcp.sel.cipherSuitesPreferenceOrder.map (·.toNat) =
      [Facts.dtlcp.ECC_SM4_GCM_SM3, Facts.dtlcp.ECC_SM4_CBC_SM3, Facts.dtlcp.ECDHE_SM4_GCM_SM3, Facts.dtlcp.ECDHE_SM4_CBC_SM3] ∧
    Src.tlcp.sel.disabledCipherSuites = [] ∧ Src.dtlcp.sel.disabledCipherSuites = [] ∧
    Src.tlcp.sel.defaultCipherSuites = Src.tlcp.sel.cipherSuitesPreferenceOrder ∧
    Src.dtlcp.sel.defaultCipherSuites = Src.dtlcp.sel.cipherSuitesPreferenceOrder ∧
    prefOrder = [0xe053#16, 0xe013#16, 0xe051#16, 0xe011#16] ∧
    ∀ st, (factsP st).pref = prefOrder.map (·.toNat) ∧ (factsP st).disabled = [] := by
  refine ⟨by decide, by decide, by decide, by decide, by decide, by decide, by decide, by decide, rfl, fun st => ?_⟩
  cases st <;> exact ⟨by decide, rfl⟩

/-! ### TLCP -/

section tlcp
open Gotlcp.Src.tlcp.sel Gotlcp.Tie.Select.tlcp

/-- the model's table `p.known` as a table parameter: the entry of an id carries that id and the model's flags -/
def tblOf_tlcp (p : Params) : BitVec 16 → Option cipherSuite :=
  fun id => (flagsOf p id.toNat).map fun f => { id := id, flags := (f : Int) }

/-- … it is a table the model's table describes (so `C01_src_sel_is_model_tlcp` is not vacuous), and its entries
carry their own id -/
theorem C01_src_sel_table_exists_tlcp (p : Params) :
    TblAbs cipherSuite.flags p (tblOf_tlcp p) ∧ ∀ id s, tblOf_tlcp p id = some s → s.id = id := by
  constructor
  · intro id
    unfold tblOf_tlcp
    cases flagsOf p id.toNat <;> rfl
  · intro id s h
    unfold tblOf_tlcp at h
    cases hf : flagsOf p id.toNat with
    | none => rw [hf] at h; cases h
    | some f => rw [hf] at h; cases h; rfl

/-- `selectCipherSuite(ids, supported, ok)` never panics and returns the table entry of the FIRST id in `ids` whose
table entry exists, satisfies `ok`, and which occurs in `supported` (`List.find?` form); `mutualCipherSuite(have,
want)` is the table entry of `want` when `have` contains it, else nil; `Config.cipherSuites()` is the configured
list when non-nil, else the default list. -/
theorem C01_src_sel_select_tlcp (tbl : BitVec 16 → Option cipherSuite) (ids supported have_ : List (BitVec 16))
    (want : BitVec 16) (ok : cipherSuite → Bool) (nn : List (BitVec 16) → Bool) (cfg : Config) :
    selectCipherSuite tbl ids supported ok =
      .ok ((ids.find? fun id => match tbl id with
                                 | none => false
                                 | some s => ok s && supported.contains id).bind tbl) ∧
    mutualCipherSuite tbl have_ want = (if have_.contains want = true then tbl want else none) ∧
    Config.cipherSuites nn cfg = (if nn cfg.CipherSuites = true then cfg.CipherSuites else defaultCipherSuites) := by
  refine ⟨?_, mutual_eq tbl have_ want, ?_⟩
  · rw [select_eq]
    unfold selectSpec selectId
    congr 3
    funext id
    unfold admits
    cases tbl id <;> rfl
  · rw [cfgSuites_eq, tables_eq.2.2.1]; rfl

/-- `cipherSuiteOk` reads the five key flags and bits 1 (`suiteECSign`) and 0 (`suiteECDHE`) of the suite's flags:
with bit 1 it demands an SM2 signing key AND an SM2 decryption key — dropping either check would admit a suite the
server has no keys for —; without bit 1 but with bit 0, ECDHE support and an RSA signing key; with neither, an RSA
decryption key.  All four suites of the preference order carry bit 1. -/
theorem C01_src_sel_cipherSuiteOk_tlcp (hs : serverHandshakeState) (c : cipherSuite) :
    serverHandshakeState.cipherSuiteOk hs c =
      (if intBit c.flags 1 = true then hs.ecSignOk && hs.ecDecryptOk
       else if intBit c.flags 0 = true then hs.ecdheOk && hs.rsaSignOk
       else hs.rsaDecryptOk) ∧
    (∀ f : Nat, c.flags = (f : Int) → f = 2 ∨ f = 3 →
      (serverHandshakeState.cipherSuiteOk hs c = true ↔ hs.ecSignOk = true ∧ hs.ecDecryptOk = true)) := by
  refine ⟨cipherSuiteOk_eq hs c, fun f hf h23 => ?_⟩
  have h1 : intBit (f : Int) 1 = true := by
    rw [intBit_natCast _ _ (by omega)]
    rcases h23 with h | h <;> subst h <;> decide
  rw [cipherSuiteOk_eq, hf]
  simp only [okFlags, h1, if_true, keys, Bool.and_eq_true]

/-- THE PROPERTY on the translated server: `pickCipherSuite` never panics (non-nil `hs.c`, `hs.c.config`,
`hs.clientHello`) and EITHER stores in `hs.suite` the table entry `s` of the FIRST entry of the priority order that
is configured on the server (`Config.cipherSuites()`), offered by the client, present in the table and admitted by
`cipherSuiteOk`, sets `c.cipherSuite = s.id`, sends no alert and returns a nil error, OR — when no entry of the
priority order qualifies — leaves `hs.suite` nil, appends handshake_failure (40) to `c.alerts` and returns a non-nil
error.  Nothing else in the state changes. -/
theorem C01_src_sel_pick_first_tlcp (tbl : BitVec 16 → Option cipherSuite) (nn : List (BitVec 16) → Bool)
    (hs : serverHandshakeState) (c : Conn) (cfg : Config) (ch : clientHelloMsg)
    (hc : hs.c = some c) (hcfg : c.config = some cfg) (hch : hs.clientHello = some ch) :
    ∃ hs' e, serverHandshakeState.pickCipherSuite tbl nn hs = .ok (hs', e) ∧
      ((∃ id s, FirstSuch prefOrder
            (Good tbl (Config.cipherSuites nn cfg) ch.cipherSuites (serverHandshakeState.cipherSuiteOk hs)) id ∧
          tbl id = some s ∧ e = none ∧
          hs' = { hs with suite := some s, c := some { c with cipherSuite := s.id } }) ∨
       ((∀ id, id ∈ prefOrder →
            ¬ Good tbl (Config.cipherSuites nn cfg) ch.cipherSuites (serverHandshakeState.cipherSuiteOk hs) id) ∧
          e = some Go.Error.other ∧
          hs' = { hs with suite := none, c := some { c with alerts := c.alerts ++ [40#8] } })) := by
  have hok : (fun s : cipherSuite => okFlags (keys hs) s.flags) = serverHandshakeState.cipherSuiteOk hs :=
    funext fun s => (cipherSuiteOk_eq hs s).symm
  rw [pick_eq tbl nn hs c cfg ch hc hcfg hch, hok]
  cases hp : pickSpec tbl (Config.cipherSuites nn cfg) ch.cipherSuites (serverHandshakeState.cipherSuiteOk hs) with
  | some s =>
    obtain ⟨id, hfirst, hid⟩ := (pickSpec_eq_some _ _ _ _ _).mp hp
    exact ⟨_, _, rfl, Or.inl ⟨id, s, hfirst, hid, rfl, rfl⟩⟩
  | none =>
    exact ⟨_, _, rfl, Or.inr ⟨(pickSpec_eq_none _ _ _ _).mp hp, rfl, rfl⟩⟩

/-- … it FAILS (non-nil error) exactly when no entry of the priority order is configured, offered, in the table
and admitted; and the first qualifying entry is unique, so the outcome is determined by these four sets alone. -/
theorem C01_src_sel_pick_fails_iff_tlcp (tbl : BitVec 16 → Option cipherSuite) (nn : List (BitVec 16) → Bool)
    (hs : serverHandshakeState) (c : Conn) (cfg : Config) (ch : clientHelloMsg)
    (hc : hs.c = some c) (hcfg : c.config = some cfg) (hch : hs.clientHello = some ch)
    (hs' : serverHandshakeState) (e : Option Go.Error)
    (h : serverHandshakeState.pickCipherSuite tbl nn hs = .ok (hs', e)) :
    (e ≠ none ↔ ∀ id, id ∈ prefOrder →
      ¬ Good tbl (Config.cipherSuites nn cfg) ch.cipherSuites (serverHandshakeState.cipherSuiteOk hs) id) ∧
    (e ≠ none ↔ hs'.suite = none) ∧
    (∀ id, FirstSuch prefOrder
        (Good tbl (Config.cipherSuites nn cfg) ch.cipherSuites (serverHandshakeState.cipherSuiteOk hs)) id →
      e = none ∧ hs'.suite = tbl id ∧ (tbl id).isSome = true) := by
  obtain ⟨hs2, e2, h2, hcase⟩ := C01_src_sel_pick_first_tlcp tbl nn hs c cfg ch hc hcfg hch
  rw [h] at h2
  simp only [Except.ok.injEq, Prod.mk.injEq] at h2
  obtain ⟨rfl, rfl⟩ := h2
  rcases hcase with ⟨id, s, hfirst, hid, he, hst⟩ | ⟨hnone, he, hst⟩
  · subst he; subst hst
    refine ⟨⟨fun h => absurd rfl h, fun hn => ?_⟩, ⟨fun h => absurd rfl h, fun h => by cases h⟩, fun id' hf' => ?_⟩
    · obtain ⟨b, a, hb, hg, _⟩ := hfirst
      exact absurd hg (hn id (by rw [hb]; simp))
    · have := firstSuch_unique hf' hfirst
      subst this
      exact ⟨rfl, hid.symm, by rw [hid]; rfl⟩
  · subst he; subst hst
    refine ⟨⟨fun _ => hnone, fun _ h => by cases h⟩, ⟨fun _ => rfl, fun _ h => by cases h⟩, fun id' hf' => ?_⟩
    obtain ⟨b, a, hb, hg, _⟩ := hf'
    exact absurd hg (hnone id' (by rw [hb]; simp))

/-- ORDER INDEPENDENCE: replace the server's configured list and the client's offer by lists with the same MEMBERS
(any permutation, any repetition): the translated `pickCipherSuite` ends with the same `hs.suite` and the same
error.  Only the documented priority order decides. -/
theorem C01_src_sel_order_independent_tlcp (tbl : BitVec 16 → Option cipherSuite) (nn : List (BitVec 16) → Bool)
    (hs : serverHandshakeState) (c : Conn) (cfg cfg' : Config) (ch ch' : clientHelloMsg)
    (hc : hs.c = some c) (hcfg : c.config = some cfg) (hch : hs.clientHello = some ch)
    (hcfg' : ∀ x, x ∈ Config.cipherSuites nn cfg ↔ x ∈ Config.cipherSuites nn cfg')
    (hch' : ∀ x, x ∈ ch.cipherSuites ↔ x ∈ ch'.cipherSuites) :
    (serverHandshakeState.pickCipherSuite tbl nn hs).map (fun r => (r.1.suite, r.2)) =
    (serverHandshakeState.pickCipherSuite tbl nn
      { hs with c := some { c with config := some cfg' }, clientHello := some ch' }).map (fun r => (r.1.suite, r.2)) := by
  rw [pick_eq tbl nn hs c cfg ch hc hcfg hch,
    pick_eq tbl nn { hs with c := some { c with config := some cfg' }, clientHello := some ch' }
      { c with config := some cfg' } cfg' ch' rfl rfl rfl,
    pickSpec_congr tbl _ _ _ _ _ hcfg' hch']
  have hk : keys { hs with c := some { c with config := some cfg' }, clientHello := some ch' } = keys hs := rfl
  rw [hk]
  cases pickSpec tbl (Config.cipherSuites nn cfg') ch'.cipherSuites (fun s => okFlags (keys hs) s.flags) <;> rfl

/-- Outside the non-nil hypotheses the Go code panics (nil pointer dereference) and the translation says so: the
server's `pickCipherSuite` when `hs.c`, `hs.c.config` or `hs.clientHello` is nil, the client's when `hs.c`,
`hs.hello` or `hs.serverHello` is nil. -/
theorem C01_src_sel_nil_panics_tlcp (tbl : BitVec 16 → Option cipherSuite) (nn : List (BitVec 16) → Bool) :
    (∀ hs : serverHandshakeState, ¬ (∃ c cfg ch, hs.c = some c ∧ c.config = some cfg ∧ hs.clientHello = some ch) →
      serverHandshakeState.pickCipherSuite tbl nn hs = .error nilDeref) ∧
    (∀ hs : clientHandshakeState, ¬ (∃ c h sh, hs.c = some c ∧ hs.hello = some h ∧ hs.serverHello = some sh) →
      clientHandshakeState.pickCipherSuite tbl hs = .error nilDeref) :=
  ⟨fun hs h => pick_nil tbl nn hs h, fun hs h => clientPick_nil tbl hs h⟩

/-- The translated CLIENT accepts the suite of the ServerHello exactly when it is one the ClientHello offered and
the table knows; then `hs.suite` is its table entry and `c.cipherSuite` that entry's id; otherwise handshake_failure
(40) is recorded, the error is non-nil and `hs.suite` is nil.  Never a panic (non-nil `hs.c`, `hs.hello`,
`hs.serverHello`). -/
theorem C01_src_sel_client_accepts_iff_tlcp (tbl : BitVec 16 → Option cipherSuite) (hs : clientHandshakeState)
    (c : Conn) (h : clientHelloMsg) (sh : serverHelloMsg)
    (hc : hs.c = some c) (hh : hs.hello = some h) (hsh : hs.serverHello = some sh) :
    ∃ hs' e, clientHandshakeState.pickCipherSuite tbl hs = .ok (hs', e) ∧
      (e = none ↔ sh.cipherSuite ∈ h.cipherSuites ∧ (tbl sh.cipherSuite).isSome = true) ∧
      (e = none → ∃ s, tbl sh.cipherSuite = some s ∧
        hs' = { hs with suite := some s, c := some { c with cipherSuite := s.id } }) ∧
      (e ≠ none → e = some Go.Error.other ∧
        hs' = { hs with suite := none, c := some { c with alerts := c.alerts ++ [40#8] } }) := by
  rw [clientPick_eq tbl hs c h sh hc hh hsh]
  unfold mutualSpec
  cases hm : h.cipherSuites.contains sh.cipherSuite with
  | false =>
    simp only [Bool.false_eq_true, if_false]
    refine ⟨_, _, rfl, ?_, ?_, ?_⟩
    · constructor
      · intro h0; cases h0
      · rintro ⟨h1, _⟩
        have : h.cipherSuites.contains sh.cipherSuite = true := by simpa using h1
        rw [hm] at this; cases this
    · intro h0; cases h0
    · intro _; exact ⟨rfl, rfl⟩
  | true =>
    have hmem : sh.cipherSuite ∈ h.cipherSuites := by simpa using hm
    simp only [if_true]
    cases ht : tbl sh.cipherSuite with
    | none =>
      refine ⟨_, _, rfl, ?_, ?_, ?_⟩
      · constructor
        · intro h0; cases h0
        · rintro ⟨_, h2⟩; cases h2
      · intro h0; cases h0
      · intro _; exact ⟨rfl, rfl⟩
    | some s =>
      refine ⟨_, _, rfl, ?_, ?_, ?_⟩
      · exact ⟨fun _ => ⟨hmem, rfl⟩, fun _ => rfl⟩
      · intro _; exact ⟨s, rfl, rfl⟩
      · intro h0; exact absurd rfl h0

/-- AGREEMENT on the suite, translated server and translated client: for a table whose entries carry their own id
(the shape of the `cipherSuites` map), when the server picks `s` from the ClientHello's offer and announces `s.id`
in the ServerHello, the client — holding the ClientHello it sent — accepts, with the same table entry `s`, and both
connections record `cipherSuite = s.id`. -/
theorem C01_src_sel_agreement_tlcp (tbl : BitVec 16 → Option cipherSuite) (htbl : ∀ id s, tbl id = some s → s.id = id)
    (nn : List (BitVec 16) → Bool) (hs : serverHandshakeState) (c : Conn) (cfg : Config) (ch : clientHelloMsg)
    (hc : hs.c = some c) (hcfg : c.config = some cfg) (hch : hs.clientHello = some ch)
    (hs' : serverHandshakeState) (s : cipherSuite)
    (hpick : serverHandshakeState.pickCipherSuite tbl nn hs = .ok (hs', none)) (hsuite : hs'.suite = some s)
    (chs : clientHandshakeState) (cc : Conn) (h : clientHelloMsg) (sh : serverHelloMsg)
    (hcc : chs.c = some cc) (hh : chs.hello = some h) (hsh : chs.serverHello = some sh)
    (hoffer : h.cipherSuites = ch.cipherSuites) (hannounce : sh.cipherSuite = s.id) :
    clientHandshakeState.pickCipherSuite tbl chs =
      .ok ({ chs with suite := some s, c := some { cc with cipherSuite := s.id } }, none) ∧
    hs'.c = some { c with cipherSuite := s.id } := by
  obtain ⟨hs2, e2, h2, hcase⟩ := C01_src_sel_pick_first_tlcp tbl nn hs c cfg ch hc hcfg hch
  rw [hpick] at h2
  simp only [Except.ok.injEq, Prod.mk.injEq] at h2
  obtain ⟨rfl, rfl⟩ := h2
  rcases hcase with ⟨id, s', hfirst, hid, _, hst⟩ | ⟨_, he, _⟩
  · subst hst
    simp only [Option.some.injEq] at hsuite
    subst hsuite
    obtain ⟨_, _, _, ⟨_, hoff, _⟩, _⟩ := hfirst
    have hsid : s'.id = id := htbl id s' hid
    refine ⟨?_, rfl⟩
    rw [clientPick_eq tbl chs cc h sh hcc hh hsh]
    unfold mutualSpec
    have : h.cipherSuites.contains id = true := by
      rw [hoffer]; simpa using hoff
    simp only [hannounce, hsid, hid, this, if_true]
  · cases he

/-- The translated functions ARE the model the theorems of Props/C01.lean are about (the model of either stack,
`st'`), for every table `tbl` the model's suite table describes (`TblAbs`; `tblOf_tlcp` is one): `Config.cipherSuites`
is `configSuites`, `cipherSuiteOk` is `cipherSuiteOk` on every flags value (all branches), `mutualCipherSuite` is
non-nil when `mutualCipherSuite` is, `selectCipherSuite` returns the table entry of the id `selectCipherSuite`
returns, `pickCipherSuite` is `serverPick` (success: suite stored, id recorded, no alert; failure: alert 40, error),
and the decision of `checkForResumption` on a found session is `serverResumes`. -/
theorem C01_src_sel_is_model_tlcp (st' : Stack) (tbl : BitVec 16 → Option cipherSuite)
    (hT : TblAbs cipherSuite.flags (factsP st') tbl) :
    (∀ (nn : List (BitVec 16) → Bool) (cfg : Config),
      (Config.cipherSuites nn cfg).map (·.toNat) = configSuites (factsP st') (absSuites nn cfg.CipherSuites)) ∧
    (∀ (hs : serverHandshakeState) (c : cipherSuite) (f : Nat), c.flags = (f : Int) →
      serverHandshakeState.cipherSuiteOk hs c = cipherSuiteOk (factsP st') (keys hs) f) ∧
    (∀ (have_ : List (BitVec 16)) (want : BitVec 16),
      (Src.tlcp.sel.mutualCipherSuite tbl have_ want).isSome =
        mutualCipherSuite (factsP st') (have_.map (·.toNat)) want.toNat) ∧
    (∀ (ok : cipherSuite → Bool) (okM : Nat → Bool), (∀ s (f : Nat), s.flags = (f : Int) → ok s = okM f) →
      ∀ ids supported : List (BitVec 16),
        Src.tlcp.sel.selectCipherSuite tbl ids supported ok = .ok ((selectId tbl ids supported ok).bind tbl) ∧
        (selectId tbl ids supported ok).map (·.toNat) =
          selectCipherSuite (factsP st') (ids.map (·.toNat)) (supported.map (·.toNat)) okM) ∧
    (∀ (nn : List (BitVec 16) → Bool) (hs : serverHandshakeState) (c : Conn) (cfg : Config) (ch : clientHelloMsg),
      hs.c = some c → c.config = some cfg → hs.clientHello = some ch →
      ∀ s : Gotlcp.Negotiate.ServerCfg, s.suites = absSuites nn cfg.CipherSuites →
        match serverPick (factsP st') (keys hs) s (ch.cipherSuites.map (·.toNat)) with
        | some n => ∃ id su, id.toNat = n ∧ tbl id = some su ∧
            serverHandshakeState.pickCipherSuite tbl nn hs = .ok (pickOk hs c su, none)
        | none => serverHandshakeState.pickCipherSuite tbl nn hs = .ok (pickFail hs c, some Go.Error.other)) ∧
    (∀ (nn : List (BitVec 16) → Bool) (hs : serverHandshakeState) (c : Conn) (cfg : Config) (ch : clientHelloMsg)
      (sst : SessionState) (s : Gotlcp.Negotiate.ServerCfg) (sess : Session),
      s.suites = absSuites nn cfg.CipherSuites → cfg.ClientAuth = ((authVal (factsP st') s.auth : Nat) : Int) →
      sess.vers = sst.vers.toNat → sess.suite = sst.cipherSuite.toNat →
      sess.serverPeer.length = sst.peerCertificates.length →
        Gotlcp.Tie.ResumeDecision.tlcp.decision tbl nn hs c cfg ch sst =
          serverResumes (factsP st') (keys hs) s c.vers.toNat (ch.cipherSuites.map (·.toNat)) sess) := by
  obtain ⟨hp, hr⟩ := C01_src_sel_translated.2 st'
  exact ⟨fun nn cfg => tie_cfgSuites _ hp nn cfg, fun hs c f hf => tie_cipherSuiteOk _ hp hs c f hf,
    fun hv w => tie_mutualCipherSuite _ tbl hT hv w,
    fun ok okM hok ids sup => tie_selectCipherSuite _ tbl hT ok okM hok ids sup,
    fun nn hs c cfg ch hc hcfg hch s hs' => tie_pickCipherSuite _ hp tbl hT nn hs c cfg ch hc hcfg hch s hs',
    fun nn hs c cfg ch sst s sess h1 h2 h3 h4 h5 =>
      Gotlcp.Tie.ResumeDecision.tlcp.tie_resumeDecision _ hp hr tbl hT nn hs c cfg ch sst s h1 h2 sess h3 h4 h5⟩

end tlcp

/-! ### DTLCP (the same statements about `Gotlcp.Src.dtlcp.sel`) -/

section dtlcp
open Gotlcp.Src.dtlcp.sel Gotlcp.Tie.Select.dtlcp

/-- the model's table `p.known` as a table parameter: the entry of an id carries that id and the model's flags -/
def tblOf_dtlcp (p : Params) : BitVec 16 → Option cipherSuite :=
  fun id => (flagsOf p id.toNat).map fun f => { id := id, flags := (f : Int) }

/-- … it is a table the model's table describes (so `C01_src_sel_is_model_dtlcp` is not vacuous), and its entries
carry their own id -/
theorem C01_src_sel_table_exists_dtlcp (p : Params) :
    TblAbs cipherSuite.flags p (tblOf_dtlcp p) ∧ ∀ id s, tblOf_dtlcp p id = some s → s.id = id := by
  constructor
  · intro id
    unfold tblOf_dtlcp
    cases flagsOf p id.toNat <;> rfl
  · intro id s h
    unfold tblOf_dtlcp at h
    cases hf : flagsOf p id.toNat with
    | none => rw [hf] at h; cases h
    | some f => rw [hf] at h; cases h; rfl

/-- `selectCipherSuite(ids, supported, ok)` never panics and returns the table entry of the FIRST id in `ids` whose
table entry exists, satisfies `ok`, and which occurs in `supported` (`List.find?` form); `mutualCipherSuite(have,
want)` is the table entry of `want` when `have` contains it, else nil; `Config.cipherSuites()` is the configured
list when non-nil, else the default list. -/
theorem C01_src_sel_select_dtlcp (tbl : BitVec 16 → Option cipherSuite) (ids supported have_ : List (BitVec 16))
    (want : BitVec 16) (ok : cipherSuite → Bool) (nn : List (BitVec 16) → Bool) (cfg : Config) :
    selectCipherSuite tbl ids supported ok =
      .ok ((ids.find? fun id => match tbl id with
                                 | none => false
                                 | some s => ok s && supported.contains id).bind tbl) ∧
    mutualCipherSuite tbl have_ want = (if have_.contains want = true then tbl want else none) ∧
    Config.cipherSuites nn cfg = (if nn cfg.CipherSuites = true then cfg.CipherSuites else defaultCipherSuites) := by
  refine ⟨?_, mutual_eq tbl have_ want, ?_⟩
  · rw [select_eq]
    unfold selectSpec selectId
    congr 3
    funext id
    unfold admits
    cases tbl id <;> rfl
  · rw [cfgSuites_eq, tables_eq.2.2.1]; rfl

/-- `cipherSuiteOk` reads the five key flags and bits 1 (`suiteECSign`) and 0 (`suiteECDHE`) of the suite's flags:
with bit 1 it demands an SM2 signing key AND an SM2 decryption key — dropping either check would admit a suite the
server has no keys for —; without bit 1 but with bit 0, ECDHE support and an RSA signing key; with neither, an RSA
decryption key.  All four suites of the preference order carry bit 1. -/
theorem C01_src_sel_cipherSuiteOk_dtlcp (hs : serverHandshakeState) (c : cipherSuite) :
    serverHandshakeState.cipherSuiteOk hs c =
      (if intBit c.flags 1 = true then hs.ecSignOk && hs.ecDecryptOk
       else if intBit c.flags 0 = true then hs.ecdheOk && hs.rsaSignOk
       else hs.rsaDecryptOk) ∧
    (∀ f : Nat, c.flags = (f : Int) → f = 2 ∨ f = 3 →
      (serverHandshakeState.cipherSuiteOk hs c = true ↔ hs.ecSignOk = true ∧ hs.ecDecryptOk = true)) := by
  refine ⟨cipherSuiteOk_eq hs c, fun f hf h23 => ?_⟩
  have h1 : intBit (f : Int) 1 = true := by
    rw [intBit_natCast _ _ (by omega)]
    rcases h23 with h | h <;> subst h <;> decide
  rw [cipherSuiteOk_eq, hf]
  simp only [okFlags, h1, if_true, keys, Bool.and_eq_true]

/-- THE PROPERTY on the translated server: `pickCipherSuite` never panics (non-nil `hs.c`, `hs.c.config`,
`hs.clientHello`) and EITHER stores in `hs.suite` the table entry `s` of the FIRST entry of the priority order that
is configured on the server (`Config.cipherSuites()`), offered by the client, present in the table and admitted by
`cipherSuiteOk`, sets `c.cipherSuite = s.id`, sends no alert and returns a nil error, OR — when no entry of the
priority order qualifies — leaves `hs.suite` nil, appends handshake_failure (40) to `c.alerts` and returns a non-nil
error.  Nothing else in the state changes. -/
theorem C01_src_sel_pick_first_dtlcp (tbl : BitVec 16 → Option cipherSuite) (nn : List (BitVec 16) → Bool)
    (hs : serverHandshakeState) (c : Conn) (cfg : Config) (ch : clientHelloMsg)
    (hc : hs.c = some c) (hcfg : c.config = some cfg) (hch : hs.clientHello = some ch) :
    ∃ hs' e, serverHandshakeState.pickCipherSuite tbl nn hs = .ok (hs', e) ∧
      ((∃ id s, FirstSuch prefOrder
            (Good tbl (Config.cipherSuites nn cfg) ch.cipherSuites (serverHandshakeState.cipherSuiteOk hs)) id ∧
          tbl id = some s ∧ e = none ∧
          hs' = { hs with suite := some s, c := some { c with cipherSuite := s.id } }) ∨
       ((∀ id, id ∈ prefOrder →
            ¬ Good tbl (Config.cipherSuites nn cfg) ch.cipherSuites (serverHandshakeState.cipherSuiteOk hs) id) ∧
          e = some Go.Error.other ∧
          hs' = { hs with suite := none, c := some { c with alerts := c.alerts ++ [40#8] } })) := by
  have hok : (fun s : cipherSuite => okFlags (keys hs) s.flags) = serverHandshakeState.cipherSuiteOk hs :=
    funext fun s => (cipherSuiteOk_eq hs s).symm
  rw [pick_eq tbl nn hs c cfg ch hc hcfg hch, hok]
  cases hp : pickSpec tbl (Config.cipherSuites nn cfg) ch.cipherSuites (serverHandshakeState.cipherSuiteOk hs) with
  | some s =>
    obtain ⟨id, hfirst, hid⟩ := (pickSpec_eq_some _ _ _ _ _).mp hp
    exact ⟨_, _, rfl, Or.inl ⟨id, s, hfirst, hid, rfl, rfl⟩⟩
  | none =>
    exact ⟨_, _, rfl, Or.inr ⟨(pickSpec_eq_none _ _ _ _).mp hp, rfl, rfl⟩⟩

/-- … it FAILS (non-nil error) exactly when no entry of the priority order is configured, offered, in the table
and admitted; and the first qualifying entry is unique, so the outcome is determined by these four sets alone. -/
theorem C01_src_sel_pick_fails_iff_dtlcp (tbl : BitVec 16 → Option cipherSuite) (nn : List (BitVec 16) → Bool)
    (hs : serverHandshakeState) (c : Conn) (cfg : Config) (ch : clientHelloMsg)
    (hc : hs.c = some c) (hcfg : c.config = some cfg) (hch : hs.clientHello = some ch)
    (hs' : serverHandshakeState) (e : Option Go.Error)
    (h : serverHandshakeState.pickCipherSuite tbl nn hs = .ok (hs', e)) :
    (e ≠ none ↔ ∀ id, id ∈ prefOrder →
      ¬ Good tbl (Config.cipherSuites nn cfg) ch.cipherSuites (serverHandshakeState.cipherSuiteOk hs) id) ∧
    (e ≠ none ↔ hs'.suite = none) ∧
    (∀ id, FirstSuch prefOrder
        (Good tbl (Config.cipherSuites nn cfg) ch.cipherSuites (serverHandshakeState.cipherSuiteOk hs)) id →
      e = none ∧ hs'.suite = tbl id ∧ (tbl id).isSome = true) := by
  obtain ⟨hs2, e2, h2, hcase⟩ := C01_src_sel_pick_first_dtlcp tbl nn hs c cfg ch hc hcfg hch
  rw [h] at h2
  simp only [Except.ok.injEq, Prod.mk.injEq] at h2
  obtain ⟨rfl, rfl⟩ := h2
  rcases hcase with ⟨id, s, hfirst, hid, he, hst⟩ | ⟨hnone, he, hst⟩
  · subst he; subst hst
    refine ⟨⟨fun h => absurd rfl h, fun hn => ?_⟩, ⟨fun h => absurd rfl h, fun h => by cases h⟩, fun id' hf' => ?_⟩
    · obtain ⟨b, a, hb, hg, _⟩ := hfirst
      exact absurd hg (hn id (by rw [hb]; simp))
    · have := firstSuch_unique hf' hfirst
      subst this
      exact ⟨rfl, hid.symm, by rw [hid]; rfl⟩
  · subst he; subst hst
    refine ⟨⟨fun _ => hnone, fun _ h => by cases h⟩, ⟨fun _ => rfl, fun _ h => by cases h⟩, fun id' hf' => ?_⟩
    obtain ⟨b, a, hb, hg, _⟩ := hf'
    exact absurd hg (hnone id' (by rw [hb]; simp))

/-- ORDER INDEPENDENCE: replace the server's configured list and the client's offer by lists with the same MEMBERS
(any permutation, any repetition): the translated `pickCipherSuite` ends with the same `hs.suite` and the same
error.  Only the documented priority order decides. -/
theorem C01_src_sel_order_independent_dtlcp (tbl : BitVec 16 → Option cipherSuite) (nn : List (BitVec 16) → Bool)
    (hs : serverHandshakeState) (c : Conn) (cfg cfg' : Config) (ch ch' : clientHelloMsg)
    (hc : hs.c = some c) (hcfg : c.config = some cfg) (hch : hs.clientHello = some ch)
    (hcfg' : ∀ x, x ∈ Config.cipherSuites nn cfg ↔ x ∈ Config.cipherSuites nn cfg')
    (hch' : ∀ x, x ∈ ch.cipherSuites ↔ x ∈ ch'.cipherSuites) :
    (serverHandshakeState.pickCipherSuite tbl nn hs).map (fun r => (r.1.suite, r.2)) =
    (serverHandshakeState.pickCipherSuite tbl nn
      { hs with c := some { c with config := some cfg' }, clientHello := some ch' }).map (fun r => (r.1.suite, r.2)) := by
  rw [pick_eq tbl nn hs c cfg ch hc hcfg hch,
    pick_eq tbl nn { hs with c := some { c with config := some cfg' }, clientHello := some ch' }
      { c with config := some cfg' } cfg' ch' rfl rfl rfl,
    pickSpec_congr tbl _ _ _ _ _ hcfg' hch']
  have hk : keys { hs with c := some { c with config := some cfg' }, clientHello := some ch' } = keys hs := rfl
  rw [hk]
  cases pickSpec tbl (Config.cipherSuites nn cfg') ch'.cipherSuites (fun s => okFlags (keys hs) s.flags) <;> rfl

/-- Outside the non-nil hypotheses the Go code panics (nil pointer dereference) and the translation says so: the
server's `pickCipherSuite` when `hs.c`, `hs.c.config` or `hs.clientHello` is nil, the client's when `hs.c`,
`hs.hello` or `hs.serverHello` is nil. -/
theorem C01_src_sel_nil_panics_dtlcp (tbl : BitVec 16 → Option cipherSuite) (nn : List (BitVec 16) → Bool) :
    (∀ hs : serverHandshakeState, ¬ (∃ c cfg ch, hs.c = some c ∧ c.config = some cfg ∧ hs.clientHello = some ch) →
      serverHandshakeState.pickCipherSuite tbl nn hs = .error nilDeref) ∧
    (∀ hs : clientHandshakeState, ¬ (∃ c h sh, hs.c = some c ∧ hs.hello = some h ∧ hs.serverHello = some sh) →
      clientHandshakeState.pickCipherSuite tbl hs = .error nilDeref) :=
  ⟨fun hs h => pick_nil tbl nn hs h, fun hs h => clientPick_nil tbl hs h⟩

/-- The translated CLIENT accepts the suite of the ServerHello exactly when it is one the ClientHello offered and
the table knows; then `hs.suite` is its table entry and `c.cipherSuite` that entry's id; otherwise handshake_failure
(40) is recorded, the error is non-nil and `hs.suite` is nil.  Never a panic (non-nil `hs.c`, `hs.hello`,
`hs.serverHello`). -/
theorem C01_src_sel_client_accepts_iff_dtlcp (tbl : BitVec 16 → Option cipherSuite) (hs : clientHandshakeState)
    (c : Conn) (h : clientHelloMsg) (sh : serverHelloMsg)
    (hc : hs.c = some c) (hh : hs.hello = some h) (hsh : hs.serverHello = some sh) :
    ∃ hs' e, clientHandshakeState.pickCipherSuite tbl hs = .ok (hs', e) ∧
      (e = none ↔ sh.cipherSuite ∈ h.cipherSuites ∧ (tbl sh.cipherSuite).isSome = true) ∧
      (e = none → ∃ s, tbl sh.cipherSuite = some s ∧
        hs' = { hs with suite := some s, c := some { c with cipherSuite := s.id } }) ∧
      (e ≠ none → e = some Go.Error.other ∧
        hs' = { hs with suite := none, c := some { c with alerts := c.alerts ++ [40#8] } }) := by
  rw [clientPick_eq tbl hs c h sh hc hh hsh]
  unfold mutualSpec
  cases hm : h.cipherSuites.contains sh.cipherSuite with
  | false =>
    simp only [Bool.false_eq_true, if_false]
    refine ⟨_, _, rfl, ?_, ?_, ?_⟩
    · constructor
      · intro h0; cases h0
      · rintro ⟨h1, _⟩
        have : h.cipherSuites.contains sh.cipherSuite = true := by simpa using h1
        rw [hm] at this; cases this
    · intro h0; cases h0
    · intro _; exact ⟨rfl, rfl⟩
  | true =>
    have hmem : sh.cipherSuite ∈ h.cipherSuites := by simpa using hm
    simp only [if_true]
    cases ht : tbl sh.cipherSuite with
    | none =>
      refine ⟨_, _, rfl, ?_, ?_, ?_⟩
      · constructor
        · intro h0; cases h0
        · rintro ⟨_, h2⟩; cases h2
      · intro h0; cases h0
      · intro _; exact ⟨rfl, rfl⟩
    | some s =>
      refine ⟨_, _, rfl, ?_, ?_, ?_⟩
      · exact ⟨fun _ => ⟨hmem, rfl⟩, fun _ => rfl⟩
      · intro _; exact ⟨s, rfl, rfl⟩
      · intro h0; exact absurd rfl h0

/-- AGREEMENT on the suite, translated server and translated client: for a table whose entries carry their own id
(the shape of the `cipherSuites` map), when the server picks `s` from the ClientHello's offer and announces `s.id`
in the ServerHello, the client — holding the ClientHello it sent — accepts, with the same table entry `s`, and both
connections record `cipherSuite = s.id`. -/
theorem C01_src_sel_agreement_dtlcp (tbl : BitVec 16 → Option cipherSuite) (htbl : ∀ id s, tbl id = some s → s.id = id)
    (nn : List (BitVec 16) → Bool) (hs : serverHandshakeState) (c : Conn) (cfg : Config) (ch : clientHelloMsg)
    (hc : hs.c = some c) (hcfg : c.config = some cfg) (hch : hs.clientHello = some ch)
    (hs' : serverHandshakeState) (s : cipherSuite)
    (hpick : serverHandshakeState.pickCipherSuite tbl nn hs = .ok (hs', none)) (hsuite : hs'.suite = some s)
    (chs : clientHandshakeState) (cc : Conn) (h : clientHelloMsg) (sh : serverHelloMsg)
    (hcc : chs.c = some cc) (hh : chs.hello = some h) (hsh : chs.serverHello = some sh)
    (hoffer : h.cipherSuites = ch.cipherSuites) (hannounce : sh.cipherSuite = s.id) :
    clientHandshakeState.pickCipherSuite tbl chs =
      .ok ({ chs with suite := some s, c := some { cc with cipherSuite := s.id } }, none) ∧
    hs'.c = some { c with cipherSuite := s.id } := by
  obtain ⟨hs2, e2, h2, hcase⟩ := C01_src_sel_pick_first_dtlcp tbl nn hs c cfg ch hc hcfg hch
  rw [hpick] at h2
  simp only [Except.ok.injEq, Prod.mk.injEq] at h2
  obtain ⟨rfl, rfl⟩ := h2
  rcases hcase with ⟨id, s', hfirst, hid, _, hst⟩ | ⟨_, he, _⟩
  · subst hst
    simp only [Option.some.injEq] at hsuite
    subst hsuite
    obtain ⟨_, _, _, ⟨_, hoff, _⟩, _⟩ := hfirst
    have hsid : s'.id = id := htbl id s' hid
    refine ⟨?_, rfl⟩
    rw [clientPick_eq tbl chs cc h sh hcc hh hsh]
    unfold mutualSpec
    have : h.cipherSuites.contains id = true := by
      rw [hoffer]; simpa using hoff
    simp only [hannounce, hsid, hid, this, if_true]
  · cases he

/-- The translated functions ARE the model the theorems of Props/C01.lean are about (the model of either stack,
`st'`), for every table `tbl` the model's suite table describes (`TblAbs`; `tblOf_dtlcp` is one): `Config.cipherSuites`
is `configSuites`, `cipherSuiteOk` is `cipherSuiteOk` on every flags value (all branches), `mutualCipherSuite` is
non-nil when `mutualCipherSuite` is, `selectCipherSuite` returns the table entry of the id `selectCipherSuite`
returns, `pickCipherSuite` is `serverPick` (success: suite stored, id recorded, no alert; failure: alert 40, error),
and the decision of `checkForResumption` on a found session is `serverResumes`. -/
theorem C01_src_sel_is_model_dtlcp (st' : Stack) (tbl : BitVec 16 → Option cipherSuite)
    (hT : TblAbs cipherSuite.flags (factsP st') tbl) :
    (∀ (nn : List (BitVec 16) → Bool) (cfg : Config),
      (Config.cipherSuites nn cfg).map (·.toNat) = configSuites (factsP st') (absSuites nn cfg.CipherSuites)) ∧
    (∀ (hs : serverHandshakeState) (c : cipherSuite) (f : Nat), c.flags = (f : Int) →
      serverHandshakeState.cipherSuiteOk hs c = cipherSuiteOk (factsP st') (keys hs) f) ∧
    (∀ (have_ : List (BitVec 16)) (want : BitVec 16),
      (Src.dtlcp.sel.mutualCipherSuite tbl have_ want).isSome =
        mutualCipherSuite (factsP st') (have_.map (·.toNat)) want.toNat) ∧
    (∀ (ok : cipherSuite → Bool) (okM : Nat → Bool), (∀ s (f : Nat), s.flags = (f : Int) → ok s = okM f) →
      ∀ ids supported : List (BitVec 16),
        Src.dtlcp.sel.selectCipherSuite tbl ids supported ok = .ok ((selectId tbl ids supported ok).bind tbl) ∧
        (selectId tbl ids supported ok).map (·.toNat) =
          selectCipherSuite (factsP st') (ids.map (·.toNat)) (supported.map (·.toNat)) okM) ∧
    (∀ (nn : List (BitVec 16) → Bool) (hs : serverHandshakeState) (c : Conn) (cfg : Config) (ch : clientHelloMsg),
      hs.c = some c → c.config = some cfg → hs.clientHello = some ch →
      ∀ s : Gotlcp.Negotiate.ServerCfg, s.suites = absSuites nn cfg.CipherSuites →
        match serverPick (factsP st') (keys hs) s (ch.cipherSuites.map (·.toNat)) with
        | some n => ∃ id su, id.toNat = n ∧ tbl id = some su ∧
            serverHandshakeState.pickCipherSuite tbl nn hs = .ok (pickOk hs c su, none)
        | none => serverHandshakeState.pickCipherSuite tbl nn hs = .ok (pickFail hs c, some Go.Error.other)) ∧
    (∀ (nn : List (BitVec 16) → Bool) (hs : serverHandshakeState) (c : Conn) (cfg : Config) (ch : clientHelloMsg)
      (sst : SessionState) (s : Gotlcp.Negotiate.ServerCfg) (sess : Session),
      s.suites = absSuites nn cfg.CipherSuites → cfg.ClientAuth = ((authVal (factsP st') s.auth : Nat) : Int) →
      sess.vers = sst.vers.toNat → sess.suite = sst.cipherSuite.toNat →
      sess.serverPeer.length = sst.peerCertificates.length →
        Gotlcp.Tie.ResumeDecision.dtlcp.decision tbl nn hs c cfg ch sst =
          serverResumes (factsP st') (keys hs) s c.vers.toNat (ch.cipherSuites.map (·.toNat)) sess) := by
  obtain ⟨hp, hr⟩ := C01_src_sel_translated.2 st'
  exact ⟨fun nn cfg => tie_cfgSuites _ hp nn cfg, fun hs c f hf => tie_cipherSuiteOk _ hp hs c f hf,
    fun hv w => tie_mutualCipherSuite _ tbl hT hv w,
    fun ok okM hok ids sup => tie_selectCipherSuite _ tbl hT ok okM hok ids sup,
    fun nn hs c cfg ch hc hcfg hch s hs' => tie_pickCipherSuite _ hp tbl hT nn hs c cfg ch hc hcfg hch s hs',
    fun nn hs c cfg ch sst s sess h1 h2 h3 h4 h5 =>
      Gotlcp.Tie.ResumeDecision.dtlcp.tie_resumeDecision _ hp hr tbl hT nn hs c cfg ch sst s h1 h2 sess h3 h4 h5⟩

end dtlcp

/-! ### non-vacuity: the translated code evaluated by the kernel -/

section examples
open Gotlcp.Src.tlcp.sel

/-- the table of this tree (ids with their flags), as a table parameter -/
def tblEx : BitVec 16 → Option cipherSuite := tblOf_tlcp (factsP .tlcp)

def nnEx : List (BitVec 16) → Bool := fun l => !l.isEmpty

def srvEx (cfgS offer : List (BitVec 16)) (sign dec : Bool) : serverHandshakeState :=
  { c := some { config := some { CipherSuites := cfgS }, vers := 0x0101#16 },
    clientHello := some { cipherSuites := offer }, ecSignOk := sign, ecDecryptOk := dec }

/-- what the examples look at: no panic, the id of `hs.suite`, the error, `c.cipherSuite`, `c.alerts` -/
structure PickOut where
  ok : Bool
  suite : Option (BitVec 16)
  err : Option Go.Error
  cs : Option (BitVec 16)
  alerts : Option (List (BitVec 8))
deriving DecidableEq, Repr

def outEx (r : Except String (serverHandshakeState × Option Go.Error)) : PickOut :=
  match r with
  | .ok x => ⟨true, x.1.suite.map (·.id), x.2, x.1.c.map (·.cipherSuite), x.1.c.map (·.alerts)⟩
  | .error _ => ⟨false, none, none, none, none⟩

def outExC (r : Except String (clientHandshakeState × Option Go.Error)) : PickOut :=
  match r with
  | .ok x => ⟨true, x.1.suite.map (·.id), x.2, x.1.c.map (·.cipherSuite), x.1.c.map (·.alerts)⟩
  | .error _ => ⟨false, none, none, none, none⟩

/-- the server's priority, not the order of its configured list nor of the offer: configured [CBC, GCM], offered
[CBC, GCM, ECDHE-CBC] → ECC-GCM; the offer reversed, the configured list reversed → still ECC-GCM; default list
(nil) with an offer of the two ECDHE suites → ECDHE-GCM; no common suite → alert 40 and an error; a common suite
but no decryption key → alert 40 and an error -/
example :
    outEx (serverHandshakeState.pickCipherSuite tblEx nnEx (srvEx [0xe013#16, 0xe053#16] [0xe013#16, 0xe053#16, 0xe011#16] true true)) =
      ⟨true, some 0xe053#16, none, some 0xe053#16, some []⟩ ∧
    outEx (serverHandshakeState.pickCipherSuite tblEx nnEx (srvEx [0xe053#16, 0xe013#16] [0xe011#16, 0xe053#16, 0xe013#16] true true)) =
      ⟨true, some 0xe053#16, none, some 0xe053#16, some []⟩ ∧
    outEx (serverHandshakeState.pickCipherSuite tblEx nnEx (srvEx [] [0xe011#16, 0xe051#16, 0x7777#16] true true)) =
      ⟨true, some 0xe051#16, none, some 0xe051#16, some []⟩ ∧
    outEx (serverHandshakeState.pickCipherSuite tblEx nnEx (srvEx [0xe013#16] [0xe053#16] true true)) =
      ⟨true, none, some Go.Error.other, some 0#16, some [40#8]⟩ ∧
    outEx (serverHandshakeState.pickCipherSuite tblEx nnEx (srvEx [0xe013#16] [0xe013#16] true false)) =
      ⟨true, none, some Go.Error.other, some 0#16, some [40#8]⟩ := by decide

/-- a nil pointer is a panic; the client accepts what it offered and refuses what it did not (alert 40) -/
example :
    outEx (serverHandshakeState.pickCipherSuite tblEx nnEx { srvEx [] [] true true with clientHello := none }) =
      ⟨false, none, none, none, none⟩ ∧
    outExC (clientHandshakeState.pickCipherSuite tblEx
        { c := some {}, hello := some { cipherSuites := [0xe013#16] }, serverHello := some { cipherSuite := 0xe013#16 } }) =
      ⟨true, some 0xe013#16, none, some 0xe013#16, some []⟩ ∧
    outExC (clientHandshakeState.pickCipherSuite tblEx
        { c := some {}, hello := some { cipherSuites := [0xe013#16] }, serverHello := some { cipherSuite := 0xe053#16 } }) =
      ⟨true, none, some Go.Error.other, some 0#16, some [40#8]⟩ := by
  decide

/-- `FirstSuch` and `Good` are satisfiable: in the first example above ECC-GCM is the first good entry -/
example : FirstSuch prefOrder (Good tblEx [0xe013#16, 0xe053#16] [0xe013#16, 0xe053#16, 0xe011#16]
    (serverHandshakeState.cipherSuiteOk (srvEx [] [] true true))) 0xe053#16 :=
  ⟨[], [0xe013#16, 0xe051#16, 0xe011#16], rfl, ⟨by decide, by decide, ⟨{ id := 0xe053#16, flags := 2 }, by decide, by decide⟩⟩,
    fun y hy => by cases hy⟩

end examples

end Gotlcp.Props.C01

/-
C01, property theorems about the TRANSLATED cipher-suite selection / resumption decision
(`Src.<stack>.sel`; see DESIGN.md 12.4).  Same namespace as Props/C01.lean; listed in checks/C01.json under
extra_props_files.
-/
import Gotlcp.Generated.Src

namespace Gotlcp.Props.C01

end Gotlcp.Props.C01

/-
C10, property theorems about the TRANSLATED cipher-suite selection / resumption decision
(`Src.<stack>.sel`; see DESIGN.md 12.4).  Same namespace as Props/C10.lean; listed in checks/C10.json under
extra_props_files.

`Gotlcp.Src.{tlcp,dtlcp}.sel.serverHandshakeState.checkForResumption` (the server's decision to resume) and
`clientHandshakeState.serverResumedSession` / `processServerHello` (the client's acceptance) are regenerated from the
Go source on every run.  The statements below are about THOSE definitions: for every suite table `tbl`, every
answer `nn` to `CipherSuites != nil` and `nb` to `hello.sessionId != nil`, every session cache (the stub `goCache`: an
association list whose `Get` returns the first entry under the key), every handshake state whose pointers `hs.c`,
`hs.c.config`, `hs.clientHello` (server) / `hs.c`, `hs.hello`, `hs.serverHello` (client) are non-nil.

* `C10_src_sel_resume_iff_*`: the server resumes EXACTLY when a cache is configured, the offered id is non-empty,
  the cache holds it (first match) with a non-nil state `st`, the client-authentication policy and the recorded
  client certificates agree, `st.vers` is the connection's version, the client still offers `st.cipherSuite`, and
  `selectCipherSuite([st.cipherSuite], configured, cipherSuiteOk)` finds a suite;
* `C10_src_sel_refused_*`: whenever one of the policy / version / suite conditions fails for the session found,
  resumption is REFUSED, without an error and without touching the connection: the fall-back is transparent
  (`C10_src_sel_fallback_transparent_*`: the `pickCipherSuite` that follows picks what it would have picked had no
  session been offered);
* `C10_src_sel_resumed_suite_*`: a resumed handshake uses the session's OWN suite (the table entry of
  `st.cipherSuite`), which the configuration in use still enables, the key types still admit and the client still
  offers; `C10_src_sel_client_*`: the client reports "resumed" exactly when it holds a session, sent a non-nil id and
  got a non-empty identical id back, with the session's version, the session's suite and a master secret — a
  different version or suite is refused with handshake_failure (40), a missing master secret with
  internal_error (80); `C10_src_sel_resumption_agreement_*`: what the server resumes the client accepts;
* the panics (`C10_src_sel_panics_*`): nil `hs.c` / `hs.c.config` / `hs.clientHello` only; whatever the cache
  answers nothing fails (`C10_src_sel_total_*`) — a cache that answers `(nil, true)` is refused like a miss
  (finding F65: the unrepaired code dereferenced the nil state and panicked; found because the closed form of the
  translated text had an error leaf there, reproduced on the real code, repaired in /repo 6bb3289);
* `C10_src_sel_is_model_*`: the translated decision is `Model.Resumption.checkForResumption`'s, through an
  abstraction of the lookup; this is what the guards of the model rest on — the text fact `resServerGuards` is no
  longer pinned by `C10_facts`.
-/
import Gotlcp.Tie.ResumeDecision
import Gotlcp.Oracle.C10

set_option linter.unusedSimpArgs false
set_option linter.unusedVariables false

namespace Gotlcp.Props.C10
open Gotlcp.Tie.Select
open Gotlcp.Tie.ResumeDecision

/-- every function the translator was asked for was translated; the policy table the model tie needs -/
theorem C10_src_sel_translated :
    Src.untranslated = [] ∧ Oracle.C10.tlcpParams.requires = [2, 4, 5] ∧ Oracle.C10.dtlcpParams.requires = [2, 4, 5] := by
  decide

/-! ### TLCP -/

section tlcp
open Gotlcp.Src.tlcp.sel Gotlcp.Tie.Select.tlcp Gotlcp.Tie.ResumeDecision.tlcp

/-- `selectCipherSuite` on the one-element list `[x]`, on the translated text -/
theorem select_single_tlcp (tbl : BitVec 16 → Option cipherSuite) (x : BitVec 16) (supported : List (BitVec 16))
    (ok : cipherSuite → Bool) (s : cipherSuite) :
    selectCipherSuite tbl [x] supported ok = .ok (some s) ↔ tbl x = some s ∧ ok s = true ∧ x ∈ supported := by
  rw [select_eq]
  simp only [Except.ok.injEq]
  exact selectSpec_singleton tbl x supported ok s

/-- RESUME IFF.  The translated `checkForResumption` returns true EXACTLY when: a session cache is configured; the
ClientHello's session id is non-empty; the FIRST cache entry under `hex(session id)` holds a non-nil state `st`; a
policy for which `requiresClientCert` holds finds client certificates recorded in `st`; a session with recorded
client certificates is not resumed under NoClientCert (0); `st.vers` is the connection's version; the ClientHello
still offers `st.cipherSuite`; and `selectCipherSuite([st.cipherSuite], c.config.cipherSuites(), hs.cipherSuiteOk)`
returns a suite `s`.  Then `hs.sessionState = st`, `hs.suite = s`, and nothing else changed. -/
theorem C10_src_sel_resume_iff_tlcp (tbl : BitVec 16 → Option cipherSuite) (nn : List (BitVec 16) → Bool)
    (hs : serverHandshakeState) (c : Conn) (cfg : Config) (ch : clientHelloMsg)
    (hc : hs.c = some c) (hcfg : c.config = some cfg) (hch : hs.clientHello = some ch) (hs' : serverHandshakeState) :
    serverHandshakeState.checkForResumption tbl nn hs = .ok (hs', true) ↔
      ∃ cache e st s,
        cfg.SessionCache = some cache ∧ ch.sessionId ≠ [] ∧
        cache.entries.find? (fun e => e.key == Go.hexEncode ch.sessionId) = some e ∧ e.state = some st ∧
        (requiresClientCert cfg.ClientAuth = true → st.peerCertificates ≠ []) ∧
        (st.peerCertificates ≠ [] → cfg.ClientAuth ≠ 0) ∧
        st.vers = c.vers ∧ st.cipherSuite ∈ ch.cipherSuites ∧
        selectCipherSuite tbl [st.cipherSuite] (Config.cipherSuites nn cfg) (serverHandshakeState.cipherSuiteOk hs) =
          .ok (some s) ∧
        hs' = { hs with sessionState := some st, suite := some s } := by
  rw [cfr_true_iff tbl nn hs c cfg ch hc hcfg hch]
  constructor
  · rintro ⟨st, s, ⟨⟨cache, e, h1, h2, h3⟩, h4, h5, h6, h7, h8, h9, h10, h11⟩, rfl⟩
    exact ⟨cache, e, st, s, h1, h4, h2, h3, h5, h6, h7, h8, (select_single_tlcp _ _ _ _ _).mpr ⟨h9, h10, h11⟩, rfl⟩
  · rintro ⟨cache, e, st, s, h1, h4, h2, h3, h5, h6, h7, h8, hsel, rfl⟩
    obtain ⟨h9, h10, h11⟩ := (select_single_tlcp _ _ _ _ _).mp hsel
    exact ⟨st, s, ⟨⟨cache, e, h1, h2, h3⟩, h4, h5, h6, h7, h8, h9, h10, h11⟩, rfl⟩

/-- REFUSED.  Let the cache hold the session `st` under the offered id (first match).  If the policy requires a
client certificate and `st` records none, or `st` records one and the policy is NoClientCert, or `st.vers` is not
the connection's version, or the client no longer offers `st.cipherSuite`, or the configuration in use no longer
enables it, or the table does not know it, or the key types do not admit it — then `checkForResumption` returns
FALSE, with no error; the state it leaves differs from the one it found only in `hs.sessionState` (and possibly
`hs.suite = nil`): the connection, the ClientHello and the key flags are untouched, no alert is sent. -/
theorem C10_src_sel_refused_tlcp (tbl : BitVec 16 → Option cipherSuite) (nn : List (BitVec 16) → Bool)
    (hs : serverHandshakeState) (c : Conn) (cfg : Config) (ch : clientHelloMsg) (cache : goCache) (e : goCacheEntry)
    (st : SessionState)
    (hc : hs.c = some c) (hcfg : c.config = some cfg) (hch : hs.clientHello = some ch)
    (hcache : cfg.SessionCache = some cache) (hsid : ch.sessionId ≠ [])
    (hf : cache.entries.find? (fun e => e.key == Go.hexEncode ch.sessionId) = some e) (hst : e.state = some st)
    (hbad : (requiresClientCert cfg.ClientAuth = true ∧ st.peerCertificates = []) ∨
            (st.peerCertificates ≠ [] ∧ cfg.ClientAuth = 0) ∨
            st.vers ≠ c.vers ∨ st.cipherSuite ∉ ch.cipherSuites ∨ st.cipherSuite ∉ Config.cipherSuites nn cfg ∨
            tbl st.cipherSuite = none ∨
            (∀ s, tbl st.cipherSuite = some s → serverHandshakeState.cipherSuiteOk hs s = false)) :
    ∃ hs', serverHandshakeState.checkForResumption tbl nn hs = .ok (hs', false) ∧
      hs'.c = hs.c ∧ hs'.clientHello = hs.clientHello ∧ keys hs' = keys hs ∧ hs'.sessionState = some st ∧
      (hs'.suite = hs.suite ∨ hs'.suite = none) := by
  obtain ⟨hs', hres⟩ := cfr_found tbl nn hs c cfg ch cache e st hc hcfg hch hcache hsid hf hst
  have hd : decision tbl nn hs c cfg ch st = false := by
    cases hdd : decision tbl nn hs c cfg ch st with
    | false => rfl
    | true =>
      rw [hdd] at hres
      obtain ⟨st2, s2, ⟨⟨cache2, e2, k1, k2, k3⟩, _, k5, k6, k7, k8, k9, k10, k11⟩, _⟩ :=
        (cfr_true_iff tbl nn hs c cfg ch hc hcfg hch hs').mp hres
      rw [hcache] at k1
      cases k1
      rw [hf] at k2
      cases k2
      rw [hst] at k3
      cases k3
      rcases hbad with ⟨b1, b2⟩ | ⟨b1, b2⟩ | b | b | b | b | b
      · exact absurd b2 (k5 b1)
      · exact absurd b2 (k6 b1)
      · exact absurd k7 b
      · exact absurd k8 b
      · exact absurd k11 b
      · rw [b] at k9; cases k9
      · rw [b s2 k9] at k10; cases k10
  rw [hd] at hres
  obtain ⟨ss, hfr⟩ := cfr_false_frame tbl nn hs c cfg ch hc hcfg hch hs' hres
  have hss : hs'.sessionState = some st := by
    rw [cfr_eq tbl nn hs c cfg ch hc hcfg hch] at hres
    unfold cfrSpec at hres
    have h0 : ch.sessionId.isEmpty = false := (isEmpty_eq_false_iff _).mpr hsid
    simp only [hcache, h0, Bool.false_eq_true, if_false, hf, hst] at hres
    split at hres
    · cases hres; rfl
    · split at hres
      · cases hres; rfl
      · split at hres
        · cases hres; rfl
        · split at hres
          · cases hres; rfl
          · split at hres <;> cases hres <;> rfl
  refine ⟨hs', hres, ?_, ?_, ?_, hss, ?_⟩ <;> rcases hfr with h | h <;> subst h
  · rfl
  · rfl
  · rfl
  · rfl
  · rfl
  · rfl
  · exact Or.inl rfl
  · exact Or.inr rfl

/-- TRANSPARENT FALL-BACK.  After a refused resumption (`checkForResumption` returned false) the server's
`pickCipherSuite` picks exactly the suite, sends exactly the alerts and returns exactly the error it would have
without any session having been offered. -/
theorem C10_src_sel_fallback_transparent_tlcp (tbl : BitVec 16 → Option cipherSuite) (nn : List (BitVec 16) → Bool)
    (hs : serverHandshakeState) (c : Conn) (cfg : Config) (ch : clientHelloMsg)
    (hc : hs.c = some c) (hcfg : c.config = some cfg) (hch : hs.clientHello = some ch) (hs' : serverHandshakeState)
    (h : serverHandshakeState.checkForResumption tbl nn hs = .ok (hs', false)) :
    (serverHandshakeState.pickCipherSuite tbl nn hs').map (fun r => (r.1.suite, r.1.c, r.2)) =
    (serverHandshakeState.pickCipherSuite tbl nn hs).map (fun r => (r.1.suite, r.1.c, r.2)) := by
  obtain ⟨ss, hfr⟩ := cfr_false_frame tbl nn hs c cfg ch hc hcfg hch hs' h
  rw [pick_eq tbl nn hs c cfg ch hc hcfg hch]
  rcases hfr with h | h <;> subst h
  · rw [pick_eq tbl nn { hs with sessionState := ss } c cfg ch hc hcfg hch]
    have hk : keys { hs with sessionState := ss } = keys hs := rfl
    rw [hk]
    cases pickSpec tbl (Config.cipherSuites nn cfg) ch.cipherSuites (fun s => okFlags (keys hs) s.flags) <;> rfl
  · rw [pick_eq tbl nn { hs with sessionState := ss, suite := none } c cfg ch hc hcfg hch]
    have hk : keys { hs with sessionState := ss, suite := none } = keys hs := rfl
    rw [hk]
    cases pickSpec tbl (Config.cipherSuites nn cfg) ch.cipherSuites (fun s => okFlags (keys hs) s.flags) <;> rfl

/-- THE RESUMED SUITE.  When the translated `checkForResumption` returns true, the handshake state holds a session
`st` and a suite `s` such that: `s` is the table entry of the session's OWN suite id; the configuration in use
still enables that id; the client still offers it; the key types still admit `s`; the session has the connection's
version; and (tables whose entries carry their own id) `s.id = st.cipherSuite`. -/
theorem C10_src_sel_resumed_suite_tlcp (tbl : BitVec 16 → Option cipherSuite) (nn : List (BitVec 16) → Bool)
    (hs : serverHandshakeState) (c : Conn) (cfg : Config) (ch : clientHelloMsg)
    (hc : hs.c = some c) (hcfg : c.config = some cfg) (hch : hs.clientHello = some ch) (hs' : serverHandshakeState)
    (h : serverHandshakeState.checkForResumption tbl nn hs = .ok (hs', true)) :
    ∃ st s, hs'.sessionState = some st ∧ hs'.suite = some s ∧ tbl st.cipherSuite = some s ∧
      st.cipherSuite ∈ Config.cipherSuites nn cfg ∧ st.cipherSuite ∈ ch.cipherSuites ∧
      serverHandshakeState.cipherSuiteOk hs s = true ∧ st.vers = c.vers ∧
      ((∀ id x, tbl id = some x → x.id = id) → s.id = st.cipherSuite) ∧
      hs'.c = hs.c ∧ hs'.clientHello = hs.clientHello := by
  obtain ⟨st, s, ⟨_, _, _, _, k7, k8, k9, k10, k11⟩, rfl⟩ := (cfr_true_iff tbl nn hs c cfg ch hc hcfg hch hs').mp h
  exact ⟨st, s, rfl, rfl, k9, k11, k8, k10, k7, fun ht => ht _ _ k9, rfl, rfl⟩

/-- PANICS.  `checkForResumption` panics when `hs.c` or `hs.c.config` is nil and, with a session cache configured,
when `hs.clientHello` is nil (without one it returns false before touching the ClientHello) — and in NO other
case.  In particular a cache that answers `(nil, true)` for the offered id is REFUSED like a miss: false, no error,
`hs.sessionState = nil`, nothing else changed (finding F65, repaired: the unrepaired code went on to
`len(hs.sessionState.peerCertificates)` and panicked; the repository's own `lruSessionCache` never stores a nil
state, a foreign `SessionCache` may). -/
theorem C10_src_sel_panics_tlcp (tbl : BitVec 16 → Option cipherSuite) (nn : List (BitVec 16) → Bool)
    (hs : serverHandshakeState) :
    (hs.c = none ∨ (∃ c, hs.c = some c ∧ c.config = none) →
      serverHandshakeState.checkForResumption tbl nn hs = .error nilDeref) ∧
    (∀ c cfg, hs.c = some c → c.config = some cfg → cfg.SessionCache = none →
      serverHandshakeState.checkForResumption tbl nn hs = .ok (hs, false)) ∧
    (∀ c cfg cache, hs.c = some c → c.config = some cfg → cfg.SessionCache = some cache → hs.clientHello = none →
      serverHandshakeState.checkForResumption tbl nn hs = .error nilDeref) ∧
    (∀ c cfg ch cache e, hs.c = some c → c.config = some cfg → hs.clientHello = some ch →
      cfg.SessionCache = some cache → ch.sessionId ≠ [] →
      cache.entries.find? (fun e => e.key == Go.hexEncode ch.sessionId) = some e → e.state = none →
      serverHandshakeState.checkForResumption tbl nn hs = .ok ({ hs with sessionState := none }, false)) :=
  ⟨cfr_nil_conn tbl nn hs, fun c cfg h1 h2 h3 => cfr_no_cache tbl nn hs c cfg h1 h2 h3,
    fun c cfg cache h1 h2 h3 h4 => cfr_nil_hello tbl nn hs c cfg cache h1 h2 h3 h4,
    fun c cfg ch cache e h1 h2 h3 h4 h5 h6 h7 => cfr_nil_state tbl nn hs c cfg ch h1 h2 h3 ⟨cache, e, h4, h5, h6, h7⟩⟩

/-- TOTAL: with non-nil `hs.c`, `hs.c.config`, `hs.clientHello`, `checkForResumption` returns — for EVERY cache
content, a `(nil, true)` answer included: no panic, and it has no loop that could run away. -/
theorem C10_src_sel_total_tlcp (tbl : BitVec 16 → Option cipherSuite) (nn : List (BitVec 16) → Bool)
    (hs : serverHandshakeState) (c : Conn) (cfg : Config) (ch : clientHelloMsg)
    (hc : hs.c = some c) (hcfg : c.config = some cfg) (hch : hs.clientHello = some ch) :
    ∃ hs' b, serverHandshakeState.checkForResumption tbl nn hs = .ok (hs', b) := by
  obtain ⟨r, hr⟩ := cfr_total tbl nn hs c cfg ch hc hcfg hch
  exact ⟨r.1, r.2, hr⟩

/-- THE CLIENT.  `processServerHello` never panics (non-nil `hs.c`, `hs.hello`, `hs.serverHello`) and reports
"resumed" EXACTLY when: the ServerHello's suite is one the client offered and the table knows (`s`), the compression
method is null, the ALPN protocol is acceptable, the client holds a session, it sent a non-nil session id, the server
echoed a non-empty identical id, the session has the connection's version, the session's suite is `s.id`, and the
session has a master secret.  Then the error is nil, `hs.masterSecret` is a copy of the session's, the
connection's peer certificates are the session's, `c.cipherSuite = s.id`. -/
theorem C10_src_sel_client_resumed_iff_tlcp (tbl : BitVec 16 → Option cipherSuite) (nb : List (BitVec 8) → Bool)
    (hs : clientHandshakeState) (c : Conn) (h : clientHelloMsg) (sh : serverHelloMsg)
    (hc : hs.c = some c) (hh : hs.hello = some h) (hsh : hs.serverHello = some sh) :
    ∃ hs' b e, clientHandshakeState.processServerHello tbl nb hs = .ok (hs', b, e) ∧
      (b = true ↔ ∃ s sess,
        mutualCipherSuite tbl h.cipherSuites sh.cipherSuite = some s ∧ sh.compressionMethod = 0#8 ∧
        checkALPN h.alpnProtocols sh.alpnProtocol = none ∧
        hs.session = some sess ∧ nb h.sessionId = true ∧ sh.sessionId ≠ [] ∧ sh.sessionId = h.sessionId ∧
        sess.vers = c.vers ∧ sess.cipherSuite = s.id ∧ sess.masterSecret ≠ []) ∧
      (b = true → e = none ∧ ∃ s sess, hs.session = some sess ∧ hs'.suite = some s ∧
        hs'.masterSecret = sess.masterSecret ∧
        hs'.c = some { c with cipherSuite := s.id, clientProtocol := sh.alpnProtocol,
                              peerCertificates := sess.peerCertificates }) := by
  rw [psh_eq tbl nb hs c h sh hc hh hsh]
  refine ⟨(pshSpec tbl nb hs c h sh).1, (pshSpec tbl nb hs c h sh).2.1, (pshSpec tbl nb hs c h sh).2.2, rfl, ?_, ?_⟩
  · rw [psh_true_iff]
    unfold accepted echoed
    rw [mutual_eq, checkALPN_eq]
    constructor
    · rintro ⟨s, sess, ⟨a1, a2, a3⟩, a4, a5, a6, a7, a8⟩
      simp only [Bool.and_eq_true, Bool.not_eq_true', beq_iff_eq] at a5
      exact ⟨s, sess, a1, a2, a3, a4, a5.1.1, (isEmpty_eq_false_iff _).mp a5.1.2, a5.2, a6, a7, a8⟩
    · rintro ⟨s, sess, a1, a2, a3, a4, b1, b2, b3, a6, a7, a8⟩
      refine ⟨s, sess, ⟨a1, a2, a3⟩, a4, ?_, a6, a7, a8⟩
      simp only [Bool.and_eq_true, Bool.not_eq_true', beq_iff_eq]
      exact ⟨⟨b1, (isEmpty_eq_false_iff _).mpr b2⟩, b3⟩
  · intro hb
    obtain ⟨s, sess, ha, hsess, he, hv, hsu, hms⟩ := (psh_true_iff tbl nb hs c h sh).mp hb
    have g1 : (sess.vers != c.vers || sess.cipherSuite != s.id) = false := by simp [hv, hsu]
    have g2 : sess.masterSecret.isEmpty = false := (isEmpty_eq_false_iff _).mpr hms
    have hval := psh_resumed tbl nb hs c h sh s sess ha hsess he
    simp only [g1, g2, Bool.false_eq_true, if_false] at hval
    rw [hval]
    exact ⟨rfl, s, sess, hsess, rfl, rfl, rfl⟩

/-- THE CLIENT REFUSES a resumption it cannot trust: the suite, compression method and protocol accepted, a session
held and its id echoed — but the session's version is not the connection's, or its suite is not the negotiated one:
handshake_failure (40) and an error; or it has no master secret: internal_error (80) and an error.  Never
"resumed", never a nil error. -/
theorem C10_src_sel_client_refuses_tlcp (tbl : BitVec 16 → Option cipherSuite) (nb : List (BitVec 8) → Bool)
    (hs : clientHandshakeState) (c : Conn) (h : clientHelloMsg) (sh : serverHelloMsg)
    (hc : hs.c = some c) (hh : hs.hello = some h) (hsh : hs.serverHello = some sh)
    (s : cipherSuite) (sess : SessionState)
    (hm : mutualCipherSuite tbl h.cipherSuites sh.cipherSuite = some s) (hcomp : sh.compressionMethod = 0#8)
    (halpn : checkALPN h.alpnProtocols sh.alpnProtocol = none) (hsess : hs.session = some sess)
    (hnb : nb h.sessionId = true) (hne : sh.sessionId ≠ []) (hecho : sh.sessionId = h.sessionId) :
    (sess.vers ≠ c.vers ∨ sess.cipherSuite ≠ s.id →
      clientHandshakeState.processServerHello tbl nb hs =
        .ok ({ hs with suite := some s, c := some { c with cipherSuite := s.id, clientProtocol := sh.alpnProtocol,
                                                           alerts := c.alerts ++ [40#8] } },
             false, some Go.Error.other)) ∧
    (sess.vers = c.vers → sess.cipherSuite = s.id → sess.masterSecret = [] →
      clientHandshakeState.processServerHello tbl nb hs =
        .ok ({ hs with suite := some s, c := some { c with cipherSuite := s.id, clientProtocol := sh.alpnProtocol,
                                                           alerts := c.alerts ++ [80#8] } },
             false, some Go.Error.other)) := by
  have ha : accepted tbl h sh s := ⟨by rw [← mutual_eq]; exact hm, hcomp, by rw [← checkALPN_eq]; exact halpn⟩
  have he : echoed nb h sh = true := by
    unfold echoed
    simp only [Bool.and_eq_true, Bool.not_eq_true', beq_iff_eq]
    exact ⟨⟨hnb, (isEmpty_eq_false_iff _).mpr hne⟩, hecho⟩
  rw [psh_eq tbl nb hs c h sh hc hh hsh, psh_resumed tbl nb hs c h sh s sess ha hsess he]
  constructor
  · intro hbad
    have g1 : (sess.vers != c.vers || sess.cipherSuite != s.id) = true := by
      rcases hbad with b | b <;> simp [b]
    simp only [g1, if_true]
    rfl
  · intro hv hsu hms
    have g1 : (sess.vers != c.vers || sess.cipherSuite != s.id) = false := by simp [hv, hsu]
    have g2 : sess.masterSecret.isEmpty = true := by rw [hms]; rfl
    simp only [g1, g2, Bool.false_eq_true, if_false, if_true]
    rfl

/-- outside the non-nil hypotheses the client's `processServerHello` panics -/
theorem C10_src_sel_client_nil_panics_tlcp (tbl : BitVec 16 → Option cipherSuite) (nb : List (BitVec 8) → Bool)
    (hs : clientHandshakeState) (h : ¬ ∃ c hl sh, hs.c = some c ∧ hs.hello = some hl ∧ hs.serverHello = some sh) :
    clientHandshakeState.processServerHello tbl nb hs = .error nilDeref :=
  psh_nil tbl nb hs h

/-- RESUMPTION AGREEMENT, translated server and translated client (tables whose entries carry their own id): when
the server resumes — `checkForResumption` true, session `st`, suite `s` — and answers with `s.id`, the offered id,
null compression and an acceptable protocol, a client that offered what the server saw, sent that (non-nil) id and
holds a session with the same version and suite and a master secret reports "resumed" with the same suite. -/
theorem C10_src_sel_resumption_agreement_tlcp (tbl : BitVec 16 → Option cipherSuite)
    (htbl : ∀ id x, tbl id = some x → x.id = id) (nn : List (BitVec 16) → Bool) (nb : List (BitVec 8) → Bool)
    (hs : serverHandshakeState) (c : Conn) (cfg : Config) (ch : clientHelloMsg)
    (hc : hs.c = some c) (hcfg : c.config = some cfg) (hch : hs.clientHello = some ch) (hs' : serverHandshakeState)
    (hres : serverHandshakeState.checkForResumption tbl nn hs = .ok (hs', true))
    (st : SessionState) (s : cipherSuite) (hst : hs'.sessionState = some st) (hsu : hs'.suite = some s)
    (chs : clientHandshakeState) (cc : Conn) (h : clientHelloMsg) (sh : serverHelloMsg) (sess : SessionState)
    (hcc : chs.c = some cc) (hh : chs.hello = some h) (hsh : chs.serverHello = some sh)
    (hoffer : h.cipherSuites = ch.cipherSuites) (hid : h.sessionId = ch.sessionId) (hnb : nb h.sessionId = true)
    (hannounce : sh.cipherSuite = s.id) (hecho : sh.sessionId = ch.sessionId) (hcomp : sh.compressionMethod = 0#8)
    (halpn : checkALPN h.alpnProtocols sh.alpnProtocol = none)
    (hsess : chs.session = some sess) (hv : sess.vers = cc.vers) (hcs : sess.cipherSuite = st.cipherSuite)
    (hms : sess.masterSecret ≠ []) :
    ∃ chs', clientHandshakeState.processServerHello tbl nb chs = .ok (chs', true, none) ∧ chs'.suite = some s ∧
      chs'.masterSecret = sess.masterSecret := by
  obtain ⟨st2, s2, ⟨_, hsid, _, _, _, k8, k9, _, _⟩, rfl⟩ := (cfr_true_iff tbl nn hs c cfg ch hc hcfg hch hs').mp hres
  simp only [Option.some.injEq] at hst hsu
  subst hst; subst hsu
  have hsid2 : s2.id = st2.cipherSuite := htbl _ _ k9
  have hm : mutualSpec tbl h.cipherSuites sh.cipherSuite = some s2 := by
    unfold mutualSpec
    have : h.cipherSuites.contains sh.cipherSuite = true := by
      rw [hoffer, hannounce, hsid2]; simpa using k8
    rw [this, hannounce, hsid2]
    simpa using k9
  have ha : accepted tbl h sh s2 := ⟨hm, hcomp, by rw [← checkALPN_eq]; exact halpn⟩
  have he : echoed nb h sh = true := by
    unfold echoed
    simp only [Bool.and_eq_true, Bool.not_eq_true', beq_iff_eq]
    exact ⟨⟨hnb, (isEmpty_eq_false_iff _).mpr (by rw [hecho]; exact hsid)⟩, by rw [hecho, hid]⟩
  rw [psh_eq tbl nb chs cc h sh hcc hh hsh, psh_resumed tbl nb chs cc h sh s2 sess ha hsess he]
  have g1 : (sess.vers != cc.vers || sess.cipherSuite != s2.id) = false := by simp [hv, hcs, hsid2]
  have g2 : sess.masterSecret.isEmpty = false := (isEmpty_eq_false_iff _).mpr hms
  simp only [g1, g2, Bool.false_eq_true, if_false]
  exact ⟨_, rfl, rfl, rfl⟩

/-- The translated decision IS the decision of the model the theorems of Props/C10.lean are about
(`Model.Resumption.checkForResumption`, with the parameters of either stack), whenever the cache stub answers the
one lookup as the model's LRU does (`LookAbs`), the model's connection describes the Go configuration (policy,
version, offer, enabled suites) and every enabled suite is in the table with usable keys (the model has no table
and no key types).  In particular the model's five guards are the translated code's. -/
theorem C10_src_sel_is_model_tlcp (p : Model.Resumption.Params)
    (hp : p = Oracle.C10.tlcpParams ∨ p = Oracle.C10.dtlcpParams)
    (w : Model.Resumption.World) (mc : Model.Resumption.Conn) (off : List Nat) (x : Nat)
    (tbl : BitVec 16 → Option cipherSuite) (nn : List (BitVec 16) → Bool) (hs : serverHandshakeState)
    (c : Conn) (cfg : Config) (ch : clientHelloMsg) (cache : goCache)
    (hc : hs.c = some c) (hcfg : c.config = some cfg) (hch : hs.clientHello = some ch)
    (hcache : cfg.SessionCache = some cache) (hsid : ch.sessionId ≠ [])
    (hauth : cfg.ClientAuth = ((mc.auth : Nat) : Int)) (hvers : c.vers.toNat = p.version)
    (hoff : off = ch.cipherSuites.map (·.toNat)) (hss : mc.ssuites = (Config.cipherSuites nn cfg).map (·.toNat))
    (husable : ∀ id, id ∈ Config.cipherSuites nn cfg →
      ∃ s, tbl id = some s ∧ serverHandshakeState.cipherSuiteOk hs s = true)
    (hlook : LookAbs w mc.server x cache (Go.hexEncode ch.sessionId)) :
    ∃ hs', serverHandshakeState.checkForResumption tbl nn hs =
      .ok (hs', (Model.Resumption.checkForResumption p w mc off (some x)).2.isSome) := by
  have hreq : p.requires = [2, 4, 5] := by
    rcases hp with h | h <;> subst h
    · exact C10_src_sel_translated.2.1
    · exact C10_src_sel_translated.2.2
  exact tie_model_checkForResumption p hreq w mc off x tbl nn hs c cfg ch cache hc hcfg hch hcache hsid hauth hvers
    hoff hss husable hlook

end tlcp

/-! ### DTLCP (the same statements about `Gotlcp.Src.dtlcp.sel`) -/

section dtlcp
open Gotlcp.Src.dtlcp.sel Gotlcp.Tie.Select.dtlcp Gotlcp.Tie.ResumeDecision.dtlcp

/-- `selectCipherSuite` on the one-element list `[x]`, on the translated text -/
theorem select_single_dtlcp (tbl : BitVec 16 → Option cipherSuite) (x : BitVec 16) (supported : List (BitVec 16))
    (ok : cipherSuite → Bool) (s : cipherSuite) :
    selectCipherSuite tbl [x] supported ok = .ok (some s) ↔ tbl x = some s ∧ ok s = true ∧ x ∈ supported := by
  rw [select_eq]
  simp only [Except.ok.injEq]
  exact selectSpec_singleton tbl x supported ok s

/-- RESUME IFF.  The translated `checkForResumption` returns true EXACTLY when: a session cache is configured; the
ClientHello's session id is non-empty; the FIRST cache entry under `hex(session id)` holds a non-nil state `st`; a
policy for which `requiresClientCert` holds finds client certificates recorded in `st`; a session with recorded
client certificates is not resumed under NoClientCert (0); `st.vers` is the connection's version; the ClientHello
still offers `st.cipherSuite`; and `selectCipherSuite([st.cipherSuite], c.config.cipherSuites(), hs.cipherSuiteOk)`
returns a suite `s`.  Then `hs.sessionState = st`, `hs.suite = s`, and nothing else changed. -/
theorem C10_src_sel_resume_iff_dtlcp (tbl : BitVec 16 → Option cipherSuite) (nn : List (BitVec 16) → Bool)
    (hs : serverHandshakeState) (c : Conn) (cfg : Config) (ch : clientHelloMsg)
    (hc : hs.c = some c) (hcfg : c.config = some cfg) (hch : hs.clientHello = some ch) (hs' : serverHandshakeState) :
    serverHandshakeState.checkForResumption tbl nn hs = .ok (hs', true) ↔
      ∃ cache e st s,
        cfg.SessionCache = some cache ∧ ch.sessionId ≠ [] ∧
        cache.entries.find? (fun e => e.key == Go.hexEncode ch.sessionId) = some e ∧ e.state = some st ∧
        (requiresClientCert cfg.ClientAuth = true → st.peerCertificates ≠ []) ∧
        (st.peerCertificates ≠ [] → cfg.ClientAuth ≠ 0) ∧
        st.vers = c.vers ∧ st.cipherSuite ∈ ch.cipherSuites ∧
        selectCipherSuite tbl [st.cipherSuite] (Config.cipherSuites nn cfg) (serverHandshakeState.cipherSuiteOk hs) =
          .ok (some s) ∧
        hs' = { hs with sessionState := some st, suite := some s } := by
  rw [cfr_true_iff tbl nn hs c cfg ch hc hcfg hch]
  constructor
  · rintro ⟨st, s, ⟨⟨cache, e, h1, h2, h3⟩, h4, h5, h6, h7, h8, h9, h10, h11⟩, rfl⟩
    exact ⟨cache, e, st, s, h1, h4, h2, h3, h5, h6, h7, h8, (select_single_dtlcp _ _ _ _ _).mpr ⟨h9, h10, h11⟩, rfl⟩
  · rintro ⟨cache, e, st, s, h1, h4, h2, h3, h5, h6, h7, h8, hsel, rfl⟩
    obtain ⟨h9, h10, h11⟩ := (select_single_dtlcp _ _ _ _ _).mp hsel
    exact ⟨st, s, ⟨⟨cache, e, h1, h2, h3⟩, h4, h5, h6, h7, h8, h9, h10, h11⟩, rfl⟩

/-- REFUSED.  Let the cache hold the session `st` under the offered id (first match).  If the policy requires a
client certificate and `st` records none, or `st` records one and the policy is NoClientCert, or `st.vers` is not
the connection's version, or the client no longer offers `st.cipherSuite`, or the configuration in use no longer
enables it, or the table does not know it, or the key types do not admit it — then `checkForResumption` returns
FALSE, with no error; the state it leaves differs from the one it found only in `hs.sessionState` (and possibly
`hs.suite = nil`): the connection, the ClientHello and the key flags are untouched, no alert is sent. -/
theorem C10_src_sel_refused_dtlcp (tbl : BitVec 16 → Option cipherSuite) (nn : List (BitVec 16) → Bool)
    (hs : serverHandshakeState) (c : Conn) (cfg : Config) (ch : clientHelloMsg) (cache : goCache) (e : goCacheEntry)
    (st : SessionState)
    (hc : hs.c = some c) (hcfg : c.config = some cfg) (hch : hs.clientHello = some ch)
    (hcache : cfg.SessionCache = some cache) (hsid : ch.sessionId ≠ [])
    (hf : cache.entries.find? (fun e => e.key == Go.hexEncode ch.sessionId) = some e) (hst : e.state = some st)
    (hbad : (requiresClientCert cfg.ClientAuth = true ∧ st.peerCertificates = []) ∨
            (st.peerCertificates ≠ [] ∧ cfg.ClientAuth = 0) ∨
            st.vers ≠ c.vers ∨ st.cipherSuite ∉ ch.cipherSuites ∨ st.cipherSuite ∉ Config.cipherSuites nn cfg ∨
            tbl st.cipherSuite = none ∨
            (∀ s, tbl st.cipherSuite = some s → serverHandshakeState.cipherSuiteOk hs s = false)) :
    ∃ hs', serverHandshakeState.checkForResumption tbl nn hs = .ok (hs', false) ∧
      hs'.c = hs.c ∧ hs'.clientHello = hs.clientHello ∧ keys hs' = keys hs ∧ hs'.sessionState = some st ∧
      (hs'.suite = hs.suite ∨ hs'.suite = none) := by
  obtain ⟨hs', hres⟩ := cfr_found tbl nn hs c cfg ch cache e st hc hcfg hch hcache hsid hf hst
  have hd : decision tbl nn hs c cfg ch st = false := by
    cases hdd : decision tbl nn hs c cfg ch st with
    | false => rfl
    | true =>
      rw [hdd] at hres
      obtain ⟨st2, s2, ⟨⟨cache2, e2, k1, k2, k3⟩, _, k5, k6, k7, k8, k9, k10, k11⟩, _⟩ :=
        (cfr_true_iff tbl nn hs c cfg ch hc hcfg hch hs').mp hres
      rw [hcache] at k1
      cases k1
      rw [hf] at k2
      cases k2
      rw [hst] at k3
      cases k3
      rcases hbad with ⟨b1, b2⟩ | ⟨b1, b2⟩ | b | b | b | b | b
      · exact absurd b2 (k5 b1)
      · exact absurd b2 (k6 b1)
      · exact absurd k7 b
      · exact absurd k8 b
      · exact absurd k11 b
      · rw [b] at k9; cases k9
      · rw [b s2 k9] at k10; cases k10
  rw [hd] at hres
  obtain ⟨ss, hfr⟩ := cfr_false_frame tbl nn hs c cfg ch hc hcfg hch hs' hres
  have hss : hs'.sessionState = some st := by
    rw [cfr_eq tbl nn hs c cfg ch hc hcfg hch] at hres
    unfold cfrSpec at hres
    have h0 : ch.sessionId.isEmpty = false := (isEmpty_eq_false_iff _).mpr hsid
    simp only [hcache, h0, Bool.false_eq_true, if_false, hf, hst] at hres
    split at hres
    · cases hres; rfl
    · split at hres
      · cases hres; rfl
      · split at hres
        · cases hres; rfl
        · split at hres
          · cases hres; rfl
          · split at hres <;> cases hres <;> rfl
  refine ⟨hs', hres, ?_, ?_, ?_, hss, ?_⟩ <;> rcases hfr with h | h <;> subst h
  · rfl
  · rfl
  · rfl
  · rfl
  · rfl
  · rfl
  · exact Or.inl rfl
  · exact Or.inr rfl

/-- TRANSPARENT FALL-BACK.  After a refused resumption (`checkForResumption` returned false) the server's
`pickCipherSuite` picks exactly the suite, sends exactly the alerts and returns exactly the error it would have
without any session having been offered. -/
theorem C10_src_sel_fallback_transparent_dtlcp (tbl : BitVec 16 → Option cipherSuite) (nn : List (BitVec 16) → Bool)
    (hs : serverHandshakeState) (c : Conn) (cfg : Config) (ch : clientHelloMsg)
    (hc : hs.c = some c) (hcfg : c.config = some cfg) (hch : hs.clientHello = some ch) (hs' : serverHandshakeState)
    (h : serverHandshakeState.checkForResumption tbl nn hs = .ok (hs', false)) :
    (serverHandshakeState.pickCipherSuite tbl nn hs').map (fun r => (r.1.suite, r.1.c, r.2)) =
    (serverHandshakeState.pickCipherSuite tbl nn hs).map (fun r => (r.1.suite, r.1.c, r.2)) := by
  obtain ⟨ss, hfr⟩ := cfr_false_frame tbl nn hs c cfg ch hc hcfg hch hs' h
  rw [pick_eq tbl nn hs c cfg ch hc hcfg hch]
  rcases hfr with h | h <;> subst h
  · rw [pick_eq tbl nn { hs with sessionState := ss } c cfg ch hc hcfg hch]
    have hk : keys { hs with sessionState := ss } = keys hs := rfl
    rw [hk]
    cases pickSpec tbl (Config.cipherSuites nn cfg) ch.cipherSuites (fun s => okFlags (keys hs) s.flags) <;> rfl
  · rw [pick_eq tbl nn { hs with sessionState := ss, suite := none } c cfg ch hc hcfg hch]
    have hk : keys { hs with sessionState := ss, suite := none } = keys hs := rfl
    rw [hk]
    cases pickSpec tbl (Config.cipherSuites nn cfg) ch.cipherSuites (fun s => okFlags (keys hs) s.flags) <;> rfl

/-- THE RESUMED SUITE.  When the translated `checkForResumption` returns true, the handshake state holds a session
`st` and a suite `s` such that: `s` is the table entry of the session's OWN suite id; the configuration in use
still enables that id; the client still offers it; the key types still admit `s`; the session has the connection's
version; and (tables whose entries carry their own id) `s.id = st.cipherSuite`. -/
theorem C10_src_sel_resumed_suite_dtlcp (tbl : BitVec 16 → Option cipherSuite) (nn : List (BitVec 16) → Bool)
    (hs : serverHandshakeState) (c : Conn) (cfg : Config) (ch : clientHelloMsg)
    (hc : hs.c = some c) (hcfg : c.config = some cfg) (hch : hs.clientHello = some ch) (hs' : serverHandshakeState)
    (h : serverHandshakeState.checkForResumption tbl nn hs = .ok (hs', true)) :
    ∃ st s, hs'.sessionState = some st ∧ hs'.suite = some s ∧ tbl st.cipherSuite = some s ∧
      st.cipherSuite ∈ Config.cipherSuites nn cfg ∧ st.cipherSuite ∈ ch.cipherSuites ∧
      serverHandshakeState.cipherSuiteOk hs s = true ∧ st.vers = c.vers ∧
      ((∀ id x, tbl id = some x → x.id = id) → s.id = st.cipherSuite) ∧
      hs'.c = hs.c ∧ hs'.clientHello = hs.clientHello := by
  obtain ⟨st, s, ⟨_, _, _, _, k7, k8, k9, k10, k11⟩, rfl⟩ := (cfr_true_iff tbl nn hs c cfg ch hc hcfg hch hs').mp h
  exact ⟨st, s, rfl, rfl, k9, k11, k8, k10, k7, fun ht => ht _ _ k9, rfl, rfl⟩

/-- PANICS.  `checkForResumption` panics when `hs.c` or `hs.c.config` is nil and, with a session cache configured,
when `hs.clientHello` is nil (without one it returns false before touching the ClientHello) — and in NO other
case.  In particular a cache that answers `(nil, true)` for the offered id is REFUSED like a miss: false, no error,
`hs.sessionState = nil`, nothing else changed (finding F65, repaired: the unrepaired code went on to
`len(hs.sessionState.peerCertificates)` and panicked; the repository's own `lruSessionCache` never stores a nil
state, a foreign `SessionCache` may). -/
theorem C10_src_sel_panics_dtlcp (tbl : BitVec 16 → Option cipherSuite) (nn : List (BitVec 16) → Bool)
    (hs : serverHandshakeState) :
    (hs.c = none ∨ (∃ c, hs.c = some c ∧ c.config = none) →
      serverHandshakeState.checkForResumption tbl nn hs = .error nilDeref) ∧
    (∀ c cfg, hs.c = some c → c.config = some cfg → cfg.SessionCache = none →
      serverHandshakeState.checkForResumption tbl nn hs = .ok (hs, false)) ∧
    (∀ c cfg cache, hs.c = some c → c.config = some cfg → cfg.SessionCache = some cache → hs.clientHello = none →
      serverHandshakeState.checkForResumption tbl nn hs = .error nilDeref) ∧
    (∀ c cfg ch cache e, hs.c = some c → c.config = some cfg → hs.clientHello = some ch →
      cfg.SessionCache = some cache → ch.sessionId ≠ [] →
      cache.entries.find? (fun e => e.key == Go.hexEncode ch.sessionId) = some e → e.state = none →
      serverHandshakeState.checkForResumption tbl nn hs = .ok ({ hs with sessionState := none }, false)) :=
  ⟨cfr_nil_conn tbl nn hs, fun c cfg h1 h2 h3 => cfr_no_cache tbl nn hs c cfg h1 h2 h3,
    fun c cfg cache h1 h2 h3 h4 => cfr_nil_hello tbl nn hs c cfg cache h1 h2 h3 h4,
    fun c cfg ch cache e h1 h2 h3 h4 h5 h6 h7 => cfr_nil_state tbl nn hs c cfg ch h1 h2 h3 ⟨cache, e, h4, h5, h6, h7⟩⟩

/-- TOTAL: with non-nil `hs.c`, `hs.c.config`, `hs.clientHello`, `checkForResumption` returns — for EVERY cache
content, a `(nil, true)` answer included: no panic, and it has no loop that could run away. -/
theorem C10_src_sel_total_dtlcp (tbl : BitVec 16 → Option cipherSuite) (nn : List (BitVec 16) → Bool)
    (hs : serverHandshakeState) (c : Conn) (cfg : Config) (ch : clientHelloMsg)
    (hc : hs.c = some c) (hcfg : c.config = some cfg) (hch : hs.clientHello = some ch) :
    ∃ hs' b, serverHandshakeState.checkForResumption tbl nn hs = .ok (hs', b) := by
  obtain ⟨r, hr⟩ := cfr_total tbl nn hs c cfg ch hc hcfg hch
  exact ⟨r.1, r.2, hr⟩

/-- THE CLIENT.  `processServerHello` never panics (non-nil `hs.c`, `hs.hello`, `hs.serverHello`) and reports
"resumed" EXACTLY when: the ServerHello's suite is one the client offered and the table knows (`s`), the compression
method is null, the ALPN protocol is acceptable, the client holds a session, it sent a non-nil session id, the server
echoed a non-empty identical id, the session has the connection's version, the session's suite is `s.id`, and the
session has a master secret.  Then the error is nil, `hs.masterSecret` is a copy of the session's, the
connection's peer certificates are the session's, `c.cipherSuite = s.id`. -/
theorem C10_src_sel_client_resumed_iff_dtlcp (tbl : BitVec 16 → Option cipherSuite) (nb : List (BitVec 8) → Bool)
    (hs : clientHandshakeState) (c : Conn) (h : clientHelloMsg) (sh : serverHelloMsg)
    (hc : hs.c = some c) (hh : hs.hello = some h) (hsh : hs.serverHello = some sh) :
    ∃ hs' b e, clientHandshakeState.processServerHello tbl nb hs = .ok (hs', b, e) ∧
      (b = true ↔ ∃ s sess,
        mutualCipherSuite tbl h.cipherSuites sh.cipherSuite = some s ∧ sh.compressionMethod = 0#8 ∧
        checkALPN h.alpnProtocols sh.alpnProtocol = none ∧
        hs.session = some sess ∧ nb h.sessionId = true ∧ sh.sessionId ≠ [] ∧ sh.sessionId = h.sessionId ∧
        sess.vers = c.vers ∧ sess.cipherSuite = s.id ∧ sess.masterSecret ≠ []) ∧
      (b = true → e = none ∧ ∃ s sess, hs.session = some sess ∧ hs'.suite = some s ∧
        hs'.masterSecret = sess.masterSecret ∧
        hs'.c = some { c with cipherSuite := s.id, clientProtocol := sh.alpnProtocol,
                              peerCertificates := sess.peerCertificates }) := by
  rw [psh_eq tbl nb hs c h sh hc hh hsh]
  refine ⟨(pshSpec tbl nb hs c h sh).1, (pshSpec tbl nb hs c h sh).2.1, (pshSpec tbl nb hs c h sh).2.2, rfl, ?_, ?_⟩
  · rw [psh_true_iff]
    unfold accepted echoed
    rw [mutual_eq, checkALPN_eq]
    constructor
    · rintro ⟨s, sess, ⟨a1, a2, a3⟩, a4, a5, a6, a7, a8⟩
      simp only [Bool.and_eq_true, Bool.not_eq_true', beq_iff_eq] at a5
      exact ⟨s, sess, a1, a2, a3, a4, a5.1.1, (isEmpty_eq_false_iff _).mp a5.1.2, a5.2, a6, a7, a8⟩
    · rintro ⟨s, sess, a1, a2, a3, a4, b1, b2, b3, a6, a7, a8⟩
      refine ⟨s, sess, ⟨a1, a2, a3⟩, a4, ?_, a6, a7, a8⟩
      simp only [Bool.and_eq_true, Bool.not_eq_true', beq_iff_eq]
      exact ⟨⟨b1, (isEmpty_eq_false_iff _).mpr b2⟩, b3⟩
  · intro hb
    obtain ⟨s, sess, ha, hsess, he, hv, hsu, hms⟩ := (psh_true_iff tbl nb hs c h sh).mp hb
    have g1 : (sess.vers != c.vers || sess.cipherSuite != s.id) = false := by simp [hv, hsu]
    have g2 : sess.masterSecret.isEmpty = false := (isEmpty_eq_false_iff _).mpr hms
    have hval := psh_resumed tbl nb hs c h sh s sess ha hsess he
    simp only [g1, g2, Bool.false_eq_true, if_false] at hval
    rw [hval]
    exact ⟨rfl, s, sess, hsess, rfl, rfl, rfl⟩

/-- THE CLIENT REFUSES a resumption it cannot trust: the suite, compression method and protocol accepted, a session
held and its id echoed — but the session's version is not the connection's, or its suite is not the negotiated one:
handshake_failure (40) and an error; or it has no master secret: internal_error (80) and an error.  Never
"resumed", never a nil error. -/
theorem C10_src_sel_client_refuses_dtlcp (tbl : BitVec 16 → Option cipherSuite) (nb : List (BitVec 8) → Bool)
    (hs : clientHandshakeState) (c : Conn) (h : clientHelloMsg) (sh : serverHelloMsg)
    (hc : hs.c = some c) (hh : hs.hello = some h) (hsh : hs.serverHello = some sh)
    (s : cipherSuite) (sess : SessionState)
    (hm : mutualCipherSuite tbl h.cipherSuites sh.cipherSuite = some s) (hcomp : sh.compressionMethod = 0#8)
    (halpn : checkALPN h.alpnProtocols sh.alpnProtocol = none) (hsess : hs.session = some sess)
    (hnb : nb h.sessionId = true) (hne : sh.sessionId ≠ []) (hecho : sh.sessionId = h.sessionId) :
    (sess.vers ≠ c.vers ∨ sess.cipherSuite ≠ s.id →
      clientHandshakeState.processServerHello tbl nb hs =
        .ok ({ hs with suite := some s, c := some { c with cipherSuite := s.id, clientProtocol := sh.alpnProtocol,
                                                           alerts := c.alerts ++ [40#8] } },
             false, some Go.Error.other)) ∧
    (sess.vers = c.vers → sess.cipherSuite = s.id → sess.masterSecret = [] →
      clientHandshakeState.processServerHello tbl nb hs =
        .ok ({ hs with suite := some s, c := some { c with cipherSuite := s.id, clientProtocol := sh.alpnProtocol,
                                                           alerts := c.alerts ++ [80#8] } },
             false, some Go.Error.other)) := by
  have ha : accepted tbl h sh s := ⟨by rw [← mutual_eq]; exact hm, hcomp, by rw [← checkALPN_eq]; exact halpn⟩
  have he : echoed nb h sh = true := by
    unfold echoed
    simp only [Bool.and_eq_true, Bool.not_eq_true', beq_iff_eq]
    exact ⟨⟨hnb, (isEmpty_eq_false_iff _).mpr hne⟩, hecho⟩
  rw [psh_eq tbl nb hs c h sh hc hh hsh, psh_resumed tbl nb hs c h sh s sess ha hsess he]
  constructor
  · intro hbad
    have g1 : (sess.vers != c.vers || sess.cipherSuite != s.id) = true := by
      rcases hbad with b | b <;> simp [b]
    simp only [g1, if_true]
    rfl
  · intro hv hsu hms
    have g1 : (sess.vers != c.vers || sess.cipherSuite != s.id) = false := by simp [hv, hsu]
    have g2 : sess.masterSecret.isEmpty = true := by rw [hms]; rfl
    simp only [g1, g2, Bool.false_eq_true, if_false, if_true]
    rfl

/-- outside the non-nil hypotheses the client's `processServerHello` panics -/
theorem C10_src_sel_client_nil_panics_dtlcp (tbl : BitVec 16 → Option cipherSuite) (nb : List (BitVec 8) → Bool)
    (hs : clientHandshakeState) (h : ¬ ∃ c hl sh, hs.c = some c ∧ hs.hello = some hl ∧ hs.serverHello = some sh) :
    clientHandshakeState.processServerHello tbl nb hs = .error nilDeref :=
  psh_nil tbl nb hs h

/-- RESUMPTION AGREEMENT, translated server and translated client (tables whose entries carry their own id): when
the server resumes — `checkForResumption` true, session `st`, suite `s` — and answers with `s.id`, the offered id,
null compression and an acceptable protocol, a client that offered what the server saw, sent that (non-nil) id and
holds a session with the same version and suite and a master secret reports "resumed" with the same suite. -/
theorem C10_src_sel_resumption_agreement_dtlcp (tbl : BitVec 16 → Option cipherSuite)
    (htbl : ∀ id x, tbl id = some x → x.id = id) (nn : List (BitVec 16) → Bool) (nb : List (BitVec 8) → Bool)
    (hs : serverHandshakeState) (c : Conn) (cfg : Config) (ch : clientHelloMsg)
    (hc : hs.c = some c) (hcfg : c.config = some cfg) (hch : hs.clientHello = some ch) (hs' : serverHandshakeState)
    (hres : serverHandshakeState.checkForResumption tbl nn hs = .ok (hs', true))
    (st : SessionState) (s : cipherSuite) (hst : hs'.sessionState = some st) (hsu : hs'.suite = some s)
    (chs : clientHandshakeState) (cc : Conn) (h : clientHelloMsg) (sh : serverHelloMsg) (sess : SessionState)
    (hcc : chs.c = some cc) (hh : chs.hello = some h) (hsh : chs.serverHello = some sh)
    (hoffer : h.cipherSuites = ch.cipherSuites) (hid : h.sessionId = ch.sessionId) (hnb : nb h.sessionId = true)
    (hannounce : sh.cipherSuite = s.id) (hecho : sh.sessionId = ch.sessionId) (hcomp : sh.compressionMethod = 0#8)
    (halpn : checkALPN h.alpnProtocols sh.alpnProtocol = none)
    (hsess : chs.session = some sess) (hv : sess.vers = cc.vers) (hcs : sess.cipherSuite = st.cipherSuite)
    (hms : sess.masterSecret ≠ []) :
    ∃ chs', clientHandshakeState.processServerHello tbl nb chs = .ok (chs', true, none) ∧ chs'.suite = some s ∧
      chs'.masterSecret = sess.masterSecret := by
  obtain ⟨st2, s2, ⟨_, hsid, _, _, _, k8, k9, _, _⟩, rfl⟩ := (cfr_true_iff tbl nn hs c cfg ch hc hcfg hch hs').mp hres
  simp only [Option.some.injEq] at hst hsu
  subst hst; subst hsu
  have hsid2 : s2.id = st2.cipherSuite := htbl _ _ k9
  have hm : mutualSpec tbl h.cipherSuites sh.cipherSuite = some s2 := by
    unfold mutualSpec
    have : h.cipherSuites.contains sh.cipherSuite = true := by
      rw [hoffer, hannounce, hsid2]; simpa using k8
    rw [this, hannounce, hsid2]
    simpa using k9
  have ha : accepted tbl h sh s2 := ⟨hm, hcomp, by rw [← checkALPN_eq]; exact halpn⟩
  have he : echoed nb h sh = true := by
    unfold echoed
    simp only [Bool.and_eq_true, Bool.not_eq_true', beq_iff_eq]
    exact ⟨⟨hnb, (isEmpty_eq_false_iff _).mpr (by rw [hecho]; exact hsid)⟩, by rw [hecho, hid]⟩
  rw [psh_eq tbl nb chs cc h sh hcc hh hsh, psh_resumed tbl nb chs cc h sh s2 sess ha hsess he]
  have g1 : (sess.vers != cc.vers || sess.cipherSuite != s2.id) = false := by simp [hv, hcs, hsid2]
  have g2 : sess.masterSecret.isEmpty = false := (isEmpty_eq_false_iff _).mpr hms
  simp only [g1, g2, Bool.false_eq_true, if_false]
  exact ⟨_, rfl, rfl, rfl⟩

/-- The translated decision IS the decision of the model the theorems of Props/C10.lean are about
(`Model.Resumption.checkForResumption`, with the parameters of either stack), whenever the cache stub answers the
one lookup as the model's LRU does (`LookAbs`), the model's connection describes the Go configuration (policy,
version, offer, enabled suites) and every enabled suite is in the table with usable keys (the model has no table
and no key types).  In particular the model's five guards are the translated code's. -/
theorem C10_src_sel_is_model_dtlcp (p : Model.Resumption.Params)
    (hp : p = Oracle.C10.tlcpParams ∨ p = Oracle.C10.dtlcpParams)
    (w : Model.Resumption.World) (mc : Model.Resumption.Conn) (off : List Nat) (x : Nat)
    (tbl : BitVec 16 → Option cipherSuite) (nn : List (BitVec 16) → Bool) (hs : serverHandshakeState)
    (c : Conn) (cfg : Config) (ch : clientHelloMsg) (cache : goCache)
    (hc : hs.c = some c) (hcfg : c.config = some cfg) (hch : hs.clientHello = some ch)
    (hcache : cfg.SessionCache = some cache) (hsid : ch.sessionId ≠ [])
    (hauth : cfg.ClientAuth = ((mc.auth : Nat) : Int)) (hvers : c.vers.toNat = p.version)
    (hoff : off = ch.cipherSuites.map (·.toNat)) (hss : mc.ssuites = (Config.cipherSuites nn cfg).map (·.toNat))
    (husable : ∀ id, id ∈ Config.cipherSuites nn cfg →
      ∃ s, tbl id = some s ∧ serverHandshakeState.cipherSuiteOk hs s = true)
    (hlook : LookAbs w mc.server x cache (Go.hexEncode ch.sessionId)) :
    ∃ hs', serverHandshakeState.checkForResumption tbl nn hs =
      .ok (hs', (Model.Resumption.checkForResumption p w mc off (some x)).2.isSome) := by
  have hreq : p.requires = [2, 4, 5] := by
    rcases hp with h | h <;> subst h
    · exact C10_src_sel_translated.2.1
    · exact C10_src_sel_translated.2.2
  exact tie_model_checkForResumption p hreq w mc off x tbl nn hs c cfg ch cache hc hcfg hch hcache hsid hauth hvers
    hoff hss husable hlook

end dtlcp

/-! ### non-vacuity: the translated code evaluated by the kernel -/

section examples
open Gotlcp.Src.tlcp.sel

def tblEx : BitVec 16 → Option cipherSuite := fun id =>
  if id == 0xe053#16 ∨ id == 0xe013#16 then some { id := id, flags := 2 }
  else if id == 0xe051#16 ∨ id == 0xe011#16 then some { id := id, flags := 3 } else none

def nnEx : List (BitVec 16) → Bool := fun l => !l.isEmpty
def nbEx : List (BitVec 8) → Bool := fun l => !l.isEmpty

/-- the session the examples resume: version 0x0101, ECC-CBC -/
def stEx : SessionState := { vers := 0x0101#16, cipherSuite := 0xe013#16 }

/-- a server state: cache with `entries`, policy, offered id, offer, configured list -/
def srvEx (entries : List goCacheEntry) (auth : Int) (sid : List (BitVec 8)) (offer cfgS : List (BitVec 16)) :
    serverHandshakeState :=
  { c := some { config := some { CipherSuites := cfgS, ClientAuth := auth, SessionCache := some { entries := entries } },
                vers := 0x0101#16 },
    clientHello := some { sessionId := sid, cipherSuites := offer }, ecSignOk := true, ecDecryptOk := true }

/-- what the examples look at: no panic, the verdict, the id of `hs.suite`, the suite of `hs.sessionState` -/
structure CfrOut where
  ok : Bool
  resumed : Bool
  suite : Option (BitVec 16)
  session : Option (BitVec 16)
deriving DecidableEq, Repr

def outEx (r : Except String (serverHandshakeState × Bool)) : CfrOut :=
  match r with
  | .ok x => ⟨true, x.2, x.1.suite.map (·.id), x.1.sessionState.map (·.cipherSuite)⟩
  | .error _ => ⟨false, false, none, none⟩

def keyEx : List (BitVec 8) := Go.hexEncode [1#8, 0xab#8]

/-- resumed with the session's own suite (although ECC-GCM is offered, enabled and preferred); refused when the client
no longer offers the suite, when the configuration no longer enables it, when the version differs, under a policy
that requires a certificate the session does not record, with a recorded certificate under NoClientCert; a miss;
the first match decides; `(nil, true)` is refused like a miss (F65 repaired) -/
example :
    outEx (serverHandshakeState.checkForResumption tblEx nnEx
      (srvEx [⟨keyEx, some stEx⟩] 0 [1#8, 0xab#8] [0xe053#16, 0xe013#16] [])) = ⟨true, true, some 0xe013#16, some 0xe013#16⟩ ∧
    outEx (serverHandshakeState.checkForResumption tblEx nnEx
      (srvEx [⟨keyEx, some stEx⟩] 0 [1#8, 0xab#8] [0xe053#16] [])) = ⟨true, false, none, some 0xe013#16⟩ ∧
    outEx (serverHandshakeState.checkForResumption tblEx nnEx
      (srvEx [⟨keyEx, some stEx⟩] 0 [1#8, 0xab#8] [0xe053#16, 0xe013#16] [0xe053#16])) = ⟨true, false, none, some 0xe013#16⟩ ∧
    outEx (serverHandshakeState.checkForResumption tblEx nnEx
      (srvEx [⟨keyEx, some { stEx with vers := 0x0102#16 }⟩] 0 [1#8, 0xab#8] [0xe013#16] [])) = ⟨true, false, none, some 0xe013#16⟩ ∧
    outEx (serverHandshakeState.checkForResumption tblEx nnEx
      (srvEx [⟨keyEx, some stEx⟩] 4 [1#8, 0xab#8] [0xe013#16] [])) = ⟨true, false, none, some 0xe013#16⟩ ∧
    outEx (serverHandshakeState.checkForResumption tblEx nnEx
      (srvEx [⟨keyEx, some { stEx with peerCertificates := [{}] }⟩] 0 [1#8, 0xab#8] [0xe013#16] [])) = ⟨true, false, none, some 0xe013#16⟩ ∧
    outEx (serverHandshakeState.checkForResumption tblEx nnEx
      (srvEx [⟨keyEx, some { stEx with peerCertificates := [{}] }⟩] 4 [1#8, 0xab#8] [0xe013#16] [])) = ⟨true, true, some 0xe013#16, some 0xe013#16⟩ ∧
    outEx (serverHandshakeState.checkForResumption tblEx nnEx
      (srvEx [⟨keyEx, some stEx⟩] 0 [2#8] [0xe013#16] [])) = ⟨true, false, none, none⟩ ∧
    outEx (serverHandshakeState.checkForResumption tblEx nnEx
      (srvEx [⟨keyEx, some { stEx with cipherSuite := 0xe053#16 }⟩, ⟨keyEx, some stEx⟩] 0 [1#8, 0xab#8] [0xe013#16] [])) =
        ⟨true, false, none, some 0xe053#16⟩ ∧
    outEx (serverHandshakeState.checkForResumption tblEx nnEx
      (srvEx [⟨keyEx, none⟩] 0 [1#8, 0xab#8] [0xe013#16] [])) = ⟨true, false, none, none⟩ := by decide

/-- what the client examples look at -/
structure PshOut where
  ok : Bool
  resumed : Bool
  err : Option Go.Error
  alerts : Option (List (BitVec 8))
  master : List (BitVec 8)
  nPeer : Option Nat
deriving DecidableEq, Repr

def outExC (r : Except String (clientHandshakeState × Bool × Option Go.Error)) : PshOut :=
  match r with
  | .ok x => ⟨true, x.2.1, x.2.2, x.1.c.map (·.alerts), x.1.masterSecret, x.1.c.map (·.peerCertificates.length)⟩
  | .error _ => ⟨false, false, none, none, [], none⟩

def cliEx (sh : serverHelloMsg) (sess : Option SessionState) (sid : List (BitVec 8)) : clientHandshakeState :=
  { c := some { vers := 0x0101#16 }, serverHello := some sh,
    hello := some { sessionId := sid, cipherSuites := [0xe013#16, 0xe053#16] }, session := sess }

/-- accepted (master secret copied, two peer certificates taken over); another suite: alert 40; another version:
alert 40; no master secret: alert 80; another id echoed: a full handshake, no error -/
example :
    outExC (clientHandshakeState.processServerHello tblEx nbEx
      (cliEx { cipherSuite := 0xe013#16, sessionId := [7#8] }
        (some { stEx with masterSecret := [1#8, 2#8], peerCertificates := [{}, {}] }) [7#8])) =
      ⟨true, true, none, some [], [1#8, 2#8], some 2⟩ ∧
    outExC (clientHandshakeState.processServerHello tblEx nbEx
      (cliEx { cipherSuite := 0xe053#16, sessionId := [7#8] } (some { stEx with masterSecret := [1#8] }) [7#8])) =
      ⟨true, false, some Go.Error.other, some [40#8], [], some 0⟩ ∧
    outExC (clientHandshakeState.processServerHello tblEx nbEx
      (cliEx { cipherSuite := 0xe013#16, sessionId := [7#8] } (some { stEx with masterSecret := [1#8], vers := 0x0100#16 }) [7#8])) =
      ⟨true, false, some Go.Error.other, some [40#8], [], some 0⟩ ∧
    outExC (clientHandshakeState.processServerHello tblEx nbEx
      (cliEx { cipherSuite := 0xe013#16, sessionId := [7#8] } (some stEx) [7#8])) =
      ⟨true, false, some Go.Error.other, some [80#8], [], some 0⟩ ∧
    outExC (clientHandshakeState.processServerHello tblEx nbEx
      (cliEx { cipherSuite := 0xe013#16, sessionId := [8#8] } (some { stEx with masterSecret := [1#8] }) [7#8])) =
      ⟨true, false, none, some [], [], some 0⟩ := by decide

end examples

end Gotlcp.Props.C10

/-
C10, property theorems about the TRANSLATED cipher-suite selection / resumption decision
(`Src.<stack>.sel`; see DESIGN.md 12.4).  Same namespace as Props/C10.lean; listed in checks/C10.json under
extra_props_files.
-/
import Gotlcp.Generated.Src

namespace Gotlcp.Props.C10

end Gotlcp.Props.C10

/-
C13 — concurrent use of one connection: the LOCK PROTOCOL of `tlcp.Conn` / `dtlcp.Conn`.

What is proved here (over the interleaving model `Model/Locks.lean`, for every number of
threads and every schedule):
  * `C13_lock_order_acyclic`        no reachable lock-cycle deadlock when every thread acquires in
                                    rank order; instantiated with the lock programs re-extracted
                                    from the Go AST (handshakeMutex → in → out → workKeyMu)
  * `C13_write_whole`               all records of one Write leave under ONE `out` section ⇒ the
                                    peer's stream is a whole interleaving of the payloads
  * `C13_read_no_loss_dup`          bytes leave the input buffer under `in` ⇒ what the readers got,
                                    in critical-section order, plus what is left, is what arrived
  * `C13_handshake_once`            handshakeFn runs at most once; every caller returns its result
  * `C13_close_excludes_new_writes` after Close set the low bit of activeCall no call passes the CAS
                                    loop, the bit stays, exactly one Close wins
  * `C13_close_never_waits_for_handshake`  goroutines parked in a transport read (handshake, Read)
                                    hold no mutex Close needs before it closes the transport
  * `C13_deadline_setters_never_wait`  SetDeadline / SetReadDeadline / SetWriteDeadline need no mutex
                                    that any method holds across a transport read OR write: they
                                    run to their end whatever the other goroutines are parked on
                                    (a Write stuck on a peer that stopped reading holds `out`)
  * `C13_write_section`, `C13_code` the section of Write after the handshake, walked WITH its loops,
                                    is `out.Lock(); loop { transport write }; out.Unlock()`: the
                                    mutex is taken outside the record loop, once per call
  * `C13_pa_facts`, `C13_pa_unblockers_never_wait`, `C13_pa_parked_call_can_be_unblocked`
                                    the ADAPTER's public object (pa.ProtocolSwitchServerConn), every
                                    method it declares: its first Read / Write is parked in the header
                                    peek WITH the object's mutex held; Close and the deadline setters
                                    (declared or promoted) need no mutex held across anything blocking
  * `C13_checker_sound_complete`    the executable `isWholeInterleaving` used by the oracle on the
                                    REAL peer stream decides `WholeInterleaving`
  * `C13_facts`, `C13_code`         the facts of THIS tree the instantiations rely on
What is NOT proved (runtime observations only, see checks/C13.json): data-race freedom of field
accesses under the Go memory model, scheduler behaviour, Close unblocking a blocked syscall.
-/
import Gotlcp.Lemmas.Locks
import Gotlcp.Model.LocksPA
import Gotlcp.Generated.Facts

set_option linter.unusedSimpArgs false

namespace Gotlcp.Props.C13
open Gotlcp Gotlcp.Model.Locks Gotlcp.Spec.Locks Gotlcp.Lemmas.Locks

/-! ### the verified checker -/

theorem C13_checker_sound_complete {α : Type} [BEq α] [LawfulBEq α] (stream : List α)
    (payloads : List (List α)) :
    isWholeInterleaving stream payloads = true ↔ WholeInterleaving stream payloads :=
  isWhole_iff stream payloads

example : isWholeInterleaving [3, 4, 5, 1, 2, 6] [[1, 2], [3, 4, 5], [6]] = true := by decide
/-- a torn write: `[3,4,5]` split around `[1,2]` -/
example : isWholeInterleaving [3, 4, 1, 2, 5, 6] [[1, 2], [3, 4, 5], [6]] = false := by decide
/-- a duplicated payload -/
example : isWholeInterleaving [1, 2, 1, 2] [[1, 2]] = false := by decide
/-- prefix ambiguity needs the backtracking: `[1]` and `[1,2]` -/
example : isWholeInterleaving [1, 2, 1] [[1], [1, 2]] = true := by decide

/-! ### lock order -/

/-- GENERAL: if every thread's program acquires in an order compatible with one strict order
(`rank`), releases only what it holds and ends holding nothing, then no state reachable by
any interleaving is a deadlock (some thread not finished, no thread able to move). -/
theorem C13_lock_order_general {α : Type} (rank : Nat → Nat) (s0 s : State (LockM α))
    (h0 : ∀ th ∈ s0.ths, ordered rank th.held th.prog = true) (hr : Reach (LockM α) s0 s) :
    ¬ Deadlocked (LockM α) s :=
  no_deadlock_of_ordered rank s (Reach.inv (OrdInv rank) hr h0 (ordInv_step rank))

/-- the order handshakeMutex(0) → in(1) → out(2) → workKeyMu(3, a leaf: taken under
handshakeMutex+in by establishKeys and alone by Close) extracted from THIS tree: every recorded
(held, acquired) pair goes up, and every per-method program obeys the discipline -/
theorem C13_lock_order_extracted :
    (∀ p ∈ Facts.tlcp.lockPairs ++ Facts.dtlcp.lockPairs ++ Facts.pa.lockPairs, p.1 < p.2) ∧
    (∀ p ∈ Facts.tlcp.lockProgs ++ Facts.dtlcp.lockProgs ++ Facts.pa.lockProgs,
      ordered id [] (ofEvents Unit p.2) = true ∧
      ∀ q ∈ pairsOf [] p.2, q ∈ Facts.tlcp.lockPairs ++ Facts.dtlcp.lockPairs) := by
  decide

/-- INSTANCE: any number of goroutines, each performing any sequence of API calls of one
stack (Read, Write, Close, CloseWrite, Handshake, ConnectionState, deadline setters, ReadFrom,
WriteTo, the internal alert / handshake-record writers) on one connection, in any interleaving:
no reachable state is a lock-cycle deadlock. -/
theorem C13_lock_order_acyclic (progs : List (String × List (Nat × Nat)))
    (hprogs : progs = Facts.tlcp.lockProgs ∨ progs = Facts.dtlcp.lockProgs ∨ progs = Facts.pa.lockProgs)
    (goroutines : List (List (List (Nat × Nat))))
    (hcalls : ∀ calls ∈ goroutines, ∀ c ∈ calls, c ∈ progs.map (·.2))
    (s : State (LockM Unit)) (hr : Reach (LockM Unit) ⟨goroutines.map callerThread, {}⟩ s) :
    ¬ Deadlocked (LockM Unit) s := by
  apply C13_lock_order_general id _ s _ hr
  intro th hth
  simp only [List.mem_map] at hth
  obtain ⟨calls, hc, rfl⟩ := hth
  apply ordered_calls (progs.map (·.2)) _ calls (hcalls calls hc)
  intro p hp
  simp only [List.mem_map] at hp
  obtain ⟨q, hq, rfl⟩ := hp
  have := C13_lock_order_extracted.2 q
  rcases hprogs with rfl | rfl | rfl
  · exact (this (by simp [hq])).1
  · exact (this (by simp [hq])).1
  · exact (this (by simp [hq])).1

/-- non-vacuity: two goroutines (Write ‖ Read) really run and finish in the model -/
example :
    let s0 : State (LockM Unit) := ⟨[callerThread [lookupProg Facts.tlcp.lockProgs "Write"],
      callerThread [lookupProg Facts.tlcp.lockProgs "Read"]], {}⟩
    ((run (LockM Unit) s0 (List.replicate 40 0 ++ List.replicate 40 1)).ths.all (fun t => t.prog.isEmpty)) = true := by
  decide

/-- the discipline is not vacuous: a method taking `in` while holding `out` is rejected, and
two such threads do deadlock in the model -/
example : ordered id [] ([.acq 2, .acq 1, .rel 1, .rel 2] : List (Act Unit)) = false := by decide
example :
    let s0 : State (LockM Unit) := ⟨[{ prog := [.acq 1, .acq 2, .rel 2, .rel 1] },
      { prog := [.acq 2, .acq 1, .rel 1, .rel 2] }], {}⟩
    let s := run (LockM Unit) s0 [0, 1]
    (stepAt (LockM Unit) s 0).isNone && (stepAt (LockM Unit) s 1).isNone = true := by
  decide

/-! ### Write keeps payloads whole -/

/-- for any number of writers with any payloads (a payload = the list of records of one Write):
in every reachable state the stream handed to the transport is whole payloads of finished
writers followed by a prefix of the payload of the one writer inside `out` -/
theorem C13_write_whole_prefix {α : Type} (payloads : List (List α)) (s : State (LockM α))
    (hr : Reach (LockM α) (writers payloads) s) :
    ∃ (done : List (List α)) (cur : List α), s.sh.stream = done.flatten ++ cur ∧
      (∀ d ∈ done, d ∈ payloads) ∧ (cur = [] ∨ ∃ p ∈ payloads, cur <+: p) := by
  obtain ⟨⟨D, cur, h1, h2, h3, _, h5⟩, hp⟩ := winv_reach payloads s hr
  refine ⟨D, cur, h1, ?_, ?_⟩
  · intro d hd
    have := (h2.mem_iff).mp hd
    simp only [List.mem_map, List.mem_filter] at this
    obtain ⟨u, ⟨hu, _⟩, rfl⟩ := this
    rw [← hp]; exact List.mem_map.mpr ⟨u, hu, rfl⟩
  · rcases h5 with h | ⟨u, hu, hh⟩
    · exact Or.inl h
    · right
      rcases h3 u hu with hf | hf | ⟨rest, hpay, _, _⟩
      · simp [holdsOut, holds, hf.1] at hh
      · simp [holdsOut, holds, hf.1] at hh
      · exact ⟨u.pay, by rw [← hp]; exact List.mem_map.mpr ⟨u, hu, rfl⟩, ⟨rest, hpay.symm⟩⟩

/-- … and once all writers have returned, the stream is an interleaving of WHOLE payloads:
each exactly once, contiguous -/
theorem C13_write_whole {α : Type} (payloads : List (List α)) (s : State (LockM α))
    (hr : Reach (LockM α) (writers payloads) s) (hfin : ∀ th ∈ s.ths, th.prog = []) :
    WholeInterleaving s.sh.stream payloads := by
  obtain ⟨⟨D, cur, h1, h2, h3, _, h5⟩, hp⟩ := winv_reach payloads s hr
  have hall : s.ths.filter isFin = s.ths :=
    List.filter_eq_self.mpr (fun u hu => by simp [isFin, hfin u hu])
  have hcur : cur = [] := by
    rcases h5 with h | ⟨u, hu, hh⟩
    · exact h
    · rcases h3 u hu with hf | hf | ⟨rest, _, _, hprog⟩
      · simp [holdsOut, holds, hf.1] at hh
      · simp [holdsOut, holds, hf.1] at hh
      · rw [hfin u hu] at hprog; simp at hprog
  refine ⟨D, ?_, by rw [h1, hcur]; simp⟩
  rw [hall, hp] at h2; exact h2

/-- the writers do finish in the model, torn-free, under an adversarial-looking schedule -/
example :
    let s := run (LockM Nat) (writers [[1, 2, 3], [7, 8], [9]]) [1, 0, 2, 1, 1, 0, 0, 2, 1, 0, 0, 0, 0, 0, 2, 2, 2]
    s.ths.all (fun t => t.prog.isEmpty) && (s.sh.stream == [7, 8, 1, 2, 3, 9]) = true := by decide

/-- the same writers WITHOUT holding `out` across their records (what the model does when the
extracted Write section is not one critical section) can tear a payload -/
example :
    let s0 : State (LockM Nat) := ⟨[{ prog := [.acq 2, .emit 1, .rel 2, .acq 2, .emit 2, .rel 2] },
      { prog := [.acq 2, .emit 7, .rel 2, .acq 2, .emit 8, .rel 2] }], {}⟩
    let s := run (LockM Nat) s0 [0, 0, 0, 1, 1, 1, 0, 0, 0, 1, 1, 1]
    s.sh.stream = [1, 7, 2, 8] ∧ isWholeInterleaving s.sh.stream [[1, 2], [7, 8]] = false := by decide

/-! ### Read neither loses nor duplicates -/

/-- any number of readers, each performing any sequence of Reads with any buffer sizes:
in every reachable state, (results of the completed Reads in critical-section order) ++ (what
is still buffered) = what arrived.  Every byte is returned to exactly one Read, in order. -/
theorem C13_read_no_loss_dup {α : Type} (sizes : List (List Nat)) (arrived : List α)
    (s : State (LockM α)) (hr : Reach (LockM α) (readers sizes arrived) s) :
    arrived = s.sh.reads.flatten ++ s.sh.input :=
  (rinv_reach sizes arrived s hr).1

/-- in terms of the checker: what arrived is a whole interleaving of the readers' chunks and
the rest (this is the form the oracle evaluates on the real reads) -/
theorem C13_read_chunks_whole {α : Type} (sizes : List (List Nat)) (arrived : List α)
    (s : State (LockM α)) (hr : Reach (LockM α) (readers sizes arrived) s) :
    WholeInterleaving arrived (s.sh.reads ++ [s.sh.input]) :=
  ⟨_, List.Perm.refl _, by rw [C13_read_no_loss_dup sizes arrived s hr]; simp⟩

example :
    let s := run (LockM Nat) (readers [[2, 2], [3]] [1, 2, 3, 4, 5, 6, 7, 8]) [0, 1, 0, 0, 1, 0, 1, 1, 1, 1, 0, 0, 0, 0]
    s.sh.reads = [[1, 2], [3, 4, 5], [6, 7]] ∧ s.sh.input = [8] := by decide

/-- without `in` (same body, no mutex) two readers return the same bytes -/
example :
    let s0 : State (LockM Nat) := ⟨[mkReader false [2], mkReader false [2]], { input := [1, 2, 3, 4] }⟩
    let s := run (LockM Nat) s0 [0, 1, 0, 1]
    s.sh.reads = [[1, 2], [1, 2]] ∧ s.sh.input = [] := by decide

/-! ### Handshake runs once -/

/-- `n` goroutines enter handshakeContext (directly or through Read / Write) at any times:
handshakeFn is executed at most once, and every caller that has returned got the result of
that one execution (`outcome 0`; `none` = nil error). -/
theorem C13_handshake_once {ε : Type} (outcome : Nat → Option ε) (n : Nat)
    (s : State (HsM ε true outcome)) (hr : Reach _ (hsInit outcome n) s) :
    s.sh.runs ≤ 1 ∧ ∀ pc ∈ s.ths, ∀ r, pc = HsPc.done r → (s.sh.runs = 1 ∧ r = outcome 0) := by
  have h := hinv_reach outcome n s hr
  exact ⟨h.runs_le, fun pc hpc r hc => h.res pc hpc r (Or.inr (Or.inr hc))⟩

/-- all callers do return in the model (three callers, failing handshake): same error each -/
example :
    let s := run (HsM String true (fun _ => some "bad certificate")) (hsInit _ 3)
      [0, 1, 2, 1, 1, 1, 1, 0, 1, 1, 0, 0, 0, 2, 2, 2, 2]
    s.ths.all (fun pc => match pc with | .done (some "bad certificate") => true | _ => false) = true ∧
      s.sh.runs = 1 := by decide

/-- without the re-check under handshakeMutex (model parameter `recheck = false`) the handshake
runs twice -/
example :
    let s := run (HsM String false (fun _ => none)) ⟨[.start, .start], {}⟩ [0, 1, 0, 0, 0, 0, 0, 0, 1, 1, 1, 1, 1, 1]
    s.sh.runs = 2 := by decide

/-! ### Close excludes new writes -/

/-- `w` Write-like calls and `c` Close calls race on a fresh connection.  In every reachable
state: activeCall = 2·(calls inside) + (closed bit); at most one Close has won.  And from any
reachable state in which the closed bit is set, along every continuation the bit stays set and
the number of calls inside never grows: no call passes the CAS loop after Close. -/
theorem C13_close_excludes_new_writes (w c : Nat) (s : State AcM) (hr : Reach AcM (acInit w c) s) :
    (s.sh = 2 * ((s.ths.filter isIn).length : Int) + ((s.ths.filter isWon).length : Int)) ∧
    (s.ths.filter isWon).length ≤ 1 ∧
    (s.sh % 2 = 1 → ∀ t, Reach AcM s t →
      t.sh % 2 = 1 ∧ (t.ths.filter isIn).length ≤ (s.ths.filter isIn).length) := by
  have h := ainv_reach w c s hr
  refine ⟨h.value, h.once, fun hodd t ht => ?_⟩
  exact (closed_forever s t h hodd ht).2

/-- a call that loads activeCall after the bit is set is refused -/
theorem C13_close_refuses (others : List AcPc) (ac : Int) (hodd : ac % 2 = 1) :
    acStep others ac .wLoad = some (.wRefused, ac) ∧ acStep others ac .cLoad = some (.cRefused, ac) := by
  simp [acStep, hodd]

/-- the race both ways: Close wins while a Write is between load and CAS → the CAS fails, the
Write re-loads and is refused; and a second Close is refused -/
example :
    let s := run AcM (acInit 1 2) [0, 1, 1, 0, 0, 2]
    s.ths = [.wRefused, .cWon 0, .cRefused] ∧ s.sh = 1 := by decide

/-! ### Close does not wait for the handshake or for readers -/

/-- what the extracted programs say (both stacks): no mutex that `Close` acquires before its
(last) transport close is ever held across a transport read by any method.  In particular Close
takes neither handshakeMutex nor `in` before closing the transport. -/
theorem C13_close_locks_extracted :
    (∀ progs ∈ [Facts.tlcp.lockProgs, Facts.dtlcp.lockProgs],
      let close := lookupProg progs "Close"
      (beforeLastClose close ++ close.drop (beforeLastClose close).length = close) ∧
      (∃ e ∈ close, e.1 = 8) ∧
      (∀ l ∈ acquires (ofEvents Unit (beforeLastClose close)), ∀ p ∈ progs, l ∉ heldAtReads [] p.2)) ∧
    (∀ l ∈ [lkHandshake, lkIn], (∃ p ∈ Facts.tlcp.lockProgs, l ∈ heldAtReads [] p.2) ∧
      (∃ p ∈ Facts.dtlcp.lockProgs, l ∈ heldAtReads [] p.2)) := by
  decide

/-- "Close unblocks pending calls", the part a lock model can carry: however many other
goroutines are PARKED (never scheduled again) while holding mutexes that some method holds
across a transport read — a Handshake waiting for the peer under handshakeMutex + in, a Read
under in — a goroutine calling `Close` runs, on its own, up to and including its transport
close: it never needs a mutex such a goroutine holds.  (What is not covered: Close takes `out`
for close_notify; a goroutine parked in a transport WRITE under `out` that is not a Write-like
call — those make tlcp's Close skip close_notify, fact `closeSkipsNotifyWhenCallInFlight`, and
dtlcp closes the transport first — can delay Close, as in crypto/tls.  That the blocked calls
then really return is a runtime observation: scenario `silent`.) -/
theorem C13_close_never_waits_for_handshake (progs : List (String × List (Nat × Nat)))
    (hprogs : progs = Facts.tlcp.lockProgs ∨ progs = Facts.dtlcp.lockProgs)
    (a b : List (Thread Unit))
    (hparked : ∀ u ∈ a ++ b, ∀ l ∈ u.held, ∃ p ∈ progs, l ∈ heldAtReads [] p.2)
    (sh : Shared Unit) :
    ∃ th' sh', Reach (LockM Unit)
        ⟨a ++ ({ prog := ofEvents Unit (lookupProg progs "Close") } : Thread Unit) :: b, sh⟩
        ⟨a ++ th' :: b, sh'⟩ ∧
      th'.prog = ofEvents Unit ((lookupProg progs "Close").drop (beforeLastClose (lookupProg progs "Close")).length) := by
  have hmem : progs ∈ [Facts.tlcp.lockProgs, Facts.dtlcp.lockProgs] := by
    rcases hprogs with rfl | rfl <;> simp
  obtain ⟨hsplit, _, hdisj⟩ := C13_close_locks_extracted.1 progs hmem
  have hord : ordered id [] (ofEvents Unit (lookupProg progs "Close")) = true := by
    have h := C13_lock_order_extracted.2
    rcases hprogs with rfl | rfl
    · exact (h ("Close", lookupProg Facts.tlcp.lockProgs "Close") (by decide)).1
    · exact (h ("Close", lookupProg Facts.dtlcp.lockProgs "Close") (by decide)).1
  apply solo_run id a b (ofEvents Unit (beforeLastClose (lookupProg progs "Close"))) _ _ sh
  · show ofEvents Unit (lookupProg progs "Close") = _
    rw [← ofEvents_append, hsplit]
  · exact hord
  · intro u hu l hl hacq
    obtain ⟨p, hp, hheld⟩ := hparked u hu l hl
    exact hdisj l hacq p hp hheld

/-- non-vacuity: a handshake parked in its transport read (holding handshakeMutex and `in`) and a
Read parked under `in` do not stop Close in the model … -/
example :
    let parked : Thread Unit := { held := [lkIn, lkHandshake], prog := [.skip, .rel lkIn, .rel lkHandshake] }
    let s0 : State (LockM Unit) := ⟨[parked, callerThread [lookupProg Facts.tlcp.lockProgs "Close"]], {}⟩
    (run (LockM Unit) s0 (List.replicate 12 1)).ths.map (fun t => t.prog.length) = [3, 0] := by decide
/-- … whereas a Close that first asks ConnectionState (handshakeMutex) stays blocked behind it -/
example :
    let parked : Thread Unit := { held := [lkIn, lkHandshake], prog := [.skip, .rel lkIn, .rel lkHandshake] }
    let s0 : State (LockM Unit) := ⟨[parked, { prog := [.skip, .acq lkHandshake, .rel lkHandshake, .skip] }], {}⟩
    (run (LockM Unit) s0 (List.replicate 12 1)).ths.map (fun t => t.prog.length) = [3, 3] := by decide

/-! ### the deadline setters do not wait for blocked I/O -/

/-- what the extracted programs say (both stacks): the three deadline setters exist and acquire
no mutex that ANY method holds across a transport read or a transport write.  (Today they
acquire none at all.)  Not vacuous: handshakeMutex, `in` and `out` are all held across transport
I/O by some method — `out` by Write, across the transport write of every record. -/
theorem C13_deadline_setters_extracted :
    (∀ progs ∈ [Facts.tlcp.lockProgs, Facts.dtlcp.lockProgs],
      ∀ name ∈ ["SetDeadline", "SetReadDeadline", "SetWriteDeadline"],
        (∃ p ∈ progs, p.1 = name) ∧
        ∀ l ∈ acquires (ofEvents Unit (lookupProg progs name)), ∀ p ∈ progs, l ∉ heldAtIO [] p.2) ∧
    (∀ l ∈ [lkHandshake, lkIn, lkOut], (∃ p ∈ Facts.tlcp.lockProgs, l ∈ heldAtIO [] p.2) ∧
      (∃ p ∈ Facts.dtlcp.lockProgs, l ∈ heldAtIO [] p.2)) ∧
    lkOut ∈ heldAtIO [] (lookupProg Facts.tlcp.lockProgs "Write") ∧
    lkOut ∈ heldAtIO [] (lookupProg Facts.dtlcp.lockProgs "Write") := by
  decide

/-- "no deadlock between a blocked call and a deadline setter": however many other goroutines
are PARKED (never scheduled again) in transport I/O — a Write whose peer stopped reading, under
`out`; a Read under `in`; a handshake under handshakeMutex + `in` — holding whatever mutexes the
extracted programs hold there, a goroutine calling SetDeadline, SetReadDeadline or
SetWriteDeadline runs to the END of the call on its own.  (That the transport deadline then makes
the parked call return is the transport's contract and a runtime observation: scenario `stall`.) -/
theorem C13_deadline_setters_never_wait (progs : List (String × List (Nat × Nat)))
    (hprogs : progs = Facts.tlcp.lockProgs ∨ progs = Facts.dtlcp.lockProgs)
    (name : String) (hname : name ∈ ["SetDeadline", "SetReadDeadline", "SetWriteDeadline"])
    (a b : List (Thread Unit))
    (hparked : ∀ u ∈ a ++ b, ∀ l ∈ u.held, ∃ p ∈ progs, l ∈ heldAtIO [] p.2)
    (sh : Shared Unit) :
    ∃ th' sh', Reach (LockM Unit)
        ⟨a ++ ({ prog := ofEvents Unit (lookupProg progs name) } : Thread Unit) :: b, sh⟩
        ⟨a ++ th' :: b, sh'⟩ ∧ th'.prog = [] := by
  have hmem : progs ∈ [Facts.tlcp.lockProgs, Facts.dtlcp.lockProgs] := by
    rcases hprogs with rfl | rfl <;> simp
  obtain ⟨⟨q, hq, hqn⟩, hdisj⟩ := C13_deadline_setters_extracted.1 progs hmem name hname
  have hord : ordered id [] (ofEvents Unit (lookupProg progs name)) = true := by
    have h := C13_lock_order_extracted.2
    have hl : lookupProg progs name ∈ progs.map (·.2) := by
      unfold lookupProg
      cases hf : progs.find? (fun p => p.1 == name) with
      | none =>
        have := List.find?_eq_none.mp hf q hq
        simp [hqn] at this
      | some r => exact List.mem_map.mpr ⟨r, List.mem_of_find?_eq_some hf, rfl⟩
    obtain ⟨r, hr, hre⟩ := List.mem_map.mp hl
    rw [← hre]
    rcases hprogs with rfl | rfl
    · exact (h r (by simp [hr])).1
    · exact (h r (by simp [hr])).1
  apply solo_run id a b (ofEvents Unit (lookupProg progs name)) [] _ sh
  · simp
  · exact hord
  · intro u hu l hl hacq
    obtain ⟨p, hp, hheld⟩ := hparked u hu l hl
    exact hdisj l hacq p hp hheld

/-- non-vacuity: a Write parked in its transport write (holding `out`) does not stop the
extracted SetWriteDeadline in the model … -/
example :
    let parked : Thread Unit := { held := [lkOut], prog := [.emit (), .rel lkOut] }
    let s0 : State (LockM Unit) := ⟨[parked, callerThread [[(12, 0)], lookupProg Facts.tlcp.lockProgs "SetWriteDeadline"]], {}⟩
    (run (LockM Unit) s0 (List.replicate 6 1)).ths.map (fun t => t.prog.length) = [2, 0] := by decide
/-- … whereas a setter that goes through the write half (`out.Lock(); …; out.Unlock()`) stays
blocked behind it for ever: the parked Write is waiting for exactly that call -/
example :
    let parked : Thread Unit := { held := [lkOut], prog := [.emit (), .rel lkOut] }
    let s0 : State (LockM Unit) := ⟨[parked, { prog := ofEvents Unit [(0, 2), (1, 2)] }], {}⟩
    (run (LockM Unit) s0 (List.replicate 6 1)).ths.map (fun t => t.prog.length) = [2, 2] := by decide

/-! ### the adapter's public object: Close and the deadline setters do not queue behind the first call -/

open Gotlcp.Model.LocksPA Gotlcp.Model.PA in
/-- what the extracted programs of `pa.ProtocolSwitchServerConn` say — the programs of EVERY method
the type declares (`swProgs`; today Read, Write, ProtectedConn and the internal conn / detect /
protected) and of the four calls of the `net.Conn` contract that get a parked goroutine back
(`swUnblockers`: the declared method if there is one, else the method promoted from the embedded raw
connection, which goes straight to the transport):
the object has one mutex; every program obeys the lock discipline; none of the four unblocking
calls acquires a mutex that ANY method holds at a place where it can be parked (transport read,
transport write, call into the selected stack).  Not vacuous: the mutex IS held across a transport
read by `Read` and by `Write` (the header peek of `detect()`), and nothing holds it across the call
into the selected stack. -/
theorem C13_pa_facts :
    Facts.pa.swEmbedsRawConn = true ∧
    Facts.pa.swLockNames = ["ProtocolSwitchServerConn.lock"] ∧
    Facts.pa.swUnblockers.map (·.1) = ["Close", "SetDeadline", "SetReadDeadline", "SetWriteDeadline"] ∧
    (∀ p ∈ Facts.pa.swProgs ++ Facts.pa.swUnblockers, ordered id [] (ofEvents Unit p.2) = true) ∧
    (∀ u ∈ Facts.pa.swUnblockers, ∀ l ∈ acquires (ofEvents Unit u.2),
      ∀ p ∈ Facts.pa.swProgs, l ∉ heldAtBlocking [] p.2) ∧
    (∀ m ∈ ["Read", "Write"], (∃ p ∈ Facts.pa.swProgs, p.1 = m) ∧
      0 ∈ heldAtBlocking [] (lookupProg Facts.pa.swProgs m) ∧
      (∃ e ∈ lookupProg Facts.pa.swProgs m, e.1 = evIntoStack)) := by
  decide

open Gotlcp.Model.LocksPA in
/-- "Close unblocks pending calls" / "no deadlock" for the adapter's public object, the part a lock
model can carry: however many goroutines are PARKED (never scheduled again) inside methods of the
object — each holding whatever mutexes the extracted programs hold at a blocking place, e.g. the
first `Read` inside `detect()` waiting for the client's record header with `c.lock` held, and any
number of further calls queued behind it — a goroutine calling `Close`, `SetDeadline`,
`SetReadDeadline` or `SetWriteDeadline` runs to the END of the call on its own.  (That the closed
transport / the passed deadline then makes the parked call return is the transport's contract and a
runtime observation: scenario `pafirst`.) -/
theorem C13_pa_unblockers_never_wait (name : String)
    (hname : name ∈ ["Close", "SetDeadline", "SetReadDeadline", "SetWriteDeadline"])
    (a b : List (Thread Unit))
    (hparked : ∀ u ∈ a ++ b, ∀ l ∈ u.held, ∃ p ∈ Facts.pa.swProgs, l ∈ heldAtBlocking [] p.2)
    (sh : Shared Unit) :
    ∃ th' sh', Reach (LockM Unit)
        ⟨a ++ ({ prog := ofEvents Unit (lookupProg Facts.pa.swUnblockers name) } : Thread Unit) :: b, sh⟩
        ⟨a ++ th' :: b, sh'⟩ ∧ th'.prog = [] := by
  obtain ⟨_, _, hnames, hord, hdisj, _⟩ := C13_pa_facts
  have hmem : ∃ u ∈ Facts.pa.swUnblockers, u.2 = lookupProg Facts.pa.swUnblockers name := by
    have hin : name ∈ Facts.pa.swUnblockers.map (·.1) := by rw [hnames]; exact hname
    obtain ⟨q, hq, hqn⟩ := List.mem_map.mp hin
    unfold lookupProg
    cases hf : Facts.pa.swUnblockers.find? (fun p => p.1 == name) with
    | none =>
      have := List.find?_eq_none.mp hf q hq
      simp [hqn] at this
    | some r => exact ⟨r, List.mem_of_find?_eq_some hf, rfl⟩
  obtain ⟨u, hu, hue⟩ := hmem
  rw [← hue]
  apply solo_run id a b (ofEvents Unit u.2) [] _ sh
  · simp
  · exact hord u (List.mem_append_right _ hu)
  · intro t ht l hl hacq
    obtain ⟨p, hp, hheld⟩ := hparked t ht l hl
    exact hdisj u hu l hacq p hp hheld

open Gotlcp.Model.LocksPA Gotlcp.Model.PA in
/-- the scenario itself on the extracted programs, for EVERY method the object declares (not a
fixed list: a method added tomorrow is quantified over): goroutine 0 is parked in the method at its
first transport read or at its call into the selected stack, holding what the program holds there,
and does not move; goroutine 1 makes one of the four unblocking calls: that call returns.  (This is
the function the oracle predicts scenario `pafirst` with.) -/
theorem C13_pa_parked_call_can_be_unblocked :
    ∀ m ∈ Facts.pa.swProgs, ∀ k ∈ parkKinds, ∀ u ∈ Facts.pa.swUnblockers,
      unblockerReturns Facts.pa.swProgs Facts.pa.swUnblockers m.1 k u.1 = true := by decide

open Gotlcp.Model.LocksPA Gotlcp.Model.PA in
/-- non-vacuity: the first `Read` IS parked with the mutex held, and the promoted Close gets past it … -/
example : parkAt evTransportRead [] (lookupProg Facts.pa.swProgs "Read") = some ([0], [(1, 0), (0, 0), (1, 0), (12, 0)]) ∧
    pafirstReturns Facts.pa.swProgs Facts.pa.swUnblockers 5 "Read" 0 "close" = true := by decide

open Gotlcp.Model.LocksPA Gotlcp.Model.PA in
/-- … whereas a declared `Close` that first looks the installed stack up under the mutex
(`c.lock.Lock(); w := c.wrapped; c.lock.Unlock(); w.Close() / c.Conn.Close()`) never returns while
the client is silent — the parked `Read` is waiting for exactly that call — although it is fine
once the header has arrived; and a deadline setter written the same way is stuck just the same -/
example :
    pafirstReturns Facts.pa.swProgs [("Close", [(0, 0), (1, 0), (12, 0), (8, 0)])] 5 "Read" 0 "close" = false ∧
    pafirstReturns Facts.pa.swProgs [("Close", [(0, 0), (1, 0), (12, 0), (8, 0)])] 5 "Write" 3 "close" = false ∧
    pafirstReturns Facts.pa.swProgs [("Close", [(0, 0), (1, 0), (12, 0), (8, 0)])] 5 "Read" 5 "close" = true ∧
    pafirstReturns Facts.pa.swProgs [("SetDeadline", [(0, 0), (1, 0), (13, 0)])] 5 "Write" 0 "d" = false := by decide

/-! ### facts of this tree -/

/-- The facts the instantiations above rely on, re-extracted from the Go AST on every run:
only the three connection mutexes and the leaf mutex of the work key (index 3, nothing is
acquired while it is held) occur; in `Write` (both stacks) and `WriteTo` everything
after the handshake is exactly ONE section `out.Lock(); <record loop>; out.Unlock()`;
every transport write is guarded (see `emitsGuarded`), every consumption of plaintext input
happens under `in`; the Write-like calls enter through the `activeCall` CAS loop and Close
sets the bit once; handshakeContext re-checks under the mutex and is the only caller of
handshakeFn and the only writer of handshakeErr; the work key is touched only by Close and by
establishKeys, both under workKeyMu; pa's `wrapped` is never read outside `lock`, written only by detect, and detect re-checks it
after taking the lock (its callers test it, RELEASE the lock, then call detect).  The last two
are about plain field accesses, which the lock model does not cover: they pin the shape of the
repairs F46 / F20 so that a regression also moves a fact, but the evidence for them is the race
detector. -/
theorem C13_facts :
    Facts.tlcp.lockNames = ["Conn.handshakeMutex", "Conn.in", "Conn.out", "Conn.workKeyMu"] ∧
    Facts.dtlcp.lockNames = ["Conn.handshakeMutex", "Conn.in", "Conn.out", "Conn.workKeyMu"] ∧
    Facts.pa.lockNames = ["ProtocolSwitchServerConn.lock"] ∧
    tailAfterHandshake (lookupProg Facts.tlcp.lockProgs "Write") = [(0, 2), (2, 0), (1, 2)] ∧
    tailAfterHandshake (lookupProg Facts.dtlcp.lockProgs "Write") = [(0, 2), (2, 0), (1, 2)] ∧
    tailAfterHandshake (lookupProg Facts.dtlcp.lockProgs "WriteTo") = [(0, 2), (2, 0), (1, 2)] ∧
    (∀ p ∈ Facts.tlcp.lockProgs, emitsGuarded false [] p.2 = true ∧ consumesGuarded [] p.2 = true) ∧
    (∀ p ∈ Facts.dtlcp.lockProgs, emitsGuarded true [] p.2 = true ∧ consumesGuarded [] p.2 = true) ∧
    Facts.tlcp.readersHoldIn = ["Read"] ∧ Facts.dtlcp.readersHoldIn = ["Read", "ReadFrom"] ∧
    Facts.tlcp.activeCallEnter = ["Write"] ∧
    Facts.dtlcp.activeCallEnter = ["Read", "Write", "ReadFrom", "WriteTo"] ∧
    Facts.tlcp.activeCallCloseSetsBitOnce = true ∧ Facts.dtlcp.activeCallCloseSetsBitOnce = true ∧
    Facts.tlcp.hsRecheckUnderMutex = true ∧ Facts.dtlcp.hsRecheckUnderMutex = true ∧
    Facts.tlcp.hsFastPathOnStatus = true ∧ Facts.dtlcp.hsFastPathOnStatus = true ∧
    Facts.tlcp.handshakeFnCallSites = ["Conn.handshakeContext"] ∧
    Facts.dtlcp.handshakeFnCallSites = ["Conn.handshakeContext"] ∧
    Facts.tlcp.handshakeErrWriters = ["Conn.handshakeContext"] ∧
    Facts.dtlcp.handshakeErrWriters = ["Conn.handshakeContext"] ∧
    Facts.tlcp.closeWipesKeyUnderWorkKeyMu = true ∧ Facts.dtlcp.closeWipesKeyUnderWorkKeyMu = true ∧
    Facts.tlcp.establishKeysHoldWorkKeyMu =
      ["clientHandshakeState.establishKeys", "serverHandshakeState.establishKeys"] ∧
    Facts.dtlcp.establishKeysHoldWorkKeyMu =
      ["clientHandshakeState.establishKeys", "serverHandshakeState.establishKeys"] ∧
    Facts.tlcp.workKeyUsers =
      ["Conn.Close", "clientHandshakeState.establishKeys", "serverHandshakeState.establishKeys"] ∧
    Facts.dtlcp.workKeyUsers =
      ["Conn.Close", "clientHandshakeState.establishKeys", "serverHandshakeState.establishKeys"] ∧
    (∀ p ∈ Facts.tlcp.lockPairs ++ Facts.dtlcp.lockPairs, p.1 = 3 → False) ∧
    Facts.tlcp.closeSkipsNotifyWhenCallInFlight = true ∧
    Facts.pa.wrappedAccessUnlocked = [] ∧ Facts.pa.detectRechecksUnderLock = true ∧
    Facts.pa.wrappedWriters = ["detect"] ∧
    Facts.missing = [] := by
  decide

/-- The application-data section of `Write` (both stacks) and `WriteTo` — the method body after
its handshake call, walked with loop markers — is exactly
`out.Lock(); LOOP { transport write }; out.Unlock()`: `out` is acquired OUTSIDE the record loop,
once per call, and nothing else is locked or unlocked inside it.  And the cut is the right one:
without its markers the section is the tail of the plain program of the method (after the last
release of handshakeMutex), so nothing of the method was left out between the two. -/
theorem C13_write_section :
    sectionEvents (lookupProg Facts.tlcp.lockWriteSections "Write") = [(0, 2), (10, 0), (2, 0), (11, 0), (1, 2)] ∧
    sectionEvents (lookupProg Facts.dtlcp.lockWriteSections "Write") = [(0, 2), (10, 0), (2, 0), (11, 0), (1, 2)] ∧
    sectionEvents (lookupProg Facts.dtlcp.lockWriteSections "WriteTo") = [(0, 2), (10, 0), (2, 0), (11, 0), (1, 2)] ∧
    tailAfterHandshake (stripLoops (lookupProg Facts.tlcp.lockWriteSections "Write")) =
      tailAfterHandshake (lookupProg Facts.tlcp.lockProgs "Write") ∧
    tailAfterHandshake (stripLoops (lookupProg Facts.dtlcp.lockWriteSections "Write")) =
      tailAfterHandshake (lookupProg Facts.dtlcp.lockProgs "Write") ∧
    tailAfterHandshake (stripLoops (lookupProg Facts.dtlcp.lockWriteSections "WriteTo")) =
      tailAfterHandshake (lookupProg Facts.dtlcp.lockProgs "WriteTo") ∧
    Facts.tlcp.lockWriteSections.map (·.1) = ["Write"] ∧
    Facts.dtlcp.lockWriteSections.map (·.1) = ["Write", "WriteTo"] := by
  decide

theorem flatMap_emit {α : Type} (payload : List α) :
    payload.flatMap (fun x => [Act.emit x]) = payload.map Act.emit := by
  induction payload with
  | nil => rfl
  | cons x r ih => simp [List.flatMap_cons, ih]

/-- the model's writer IS the extracted Write section, its record loop run once per record of the
payload (both stacks, and WriteTo), for every payload -/
theorem C13_code {α : Type} (payload : List α) :
    expandWrite payload (sectionEvents (lookupProg Facts.tlcp.lockWriteSections "Write")) = writerProg payload ∧
    expandWrite payload (sectionEvents (lookupProg Facts.dtlcp.lockWriteSections "Write")) = writerProg payload ∧
    expandWrite payload (sectionEvents (lookupProg Facts.dtlcp.lockWriteSections "WriteTo")) = writerProg payload := by
  have h := C13_write_section
  rw [h.1, h.2.1, h.2.2.1]
  simp [expandWrite, expandWriteF, splitLoop, iteration, writerProg, lkOut, flatMap_emit]

/-- what the expansion does with a section that takes `out` INSIDE a loop over slices of the
caller's buffer (`for … { out.Lock(); loop { transport write }; out.Unlock() }`): one critical
section per iteration — the program of the torn-write example above, not `writerProg` -/
example :
    expandWrite [1, 2] [(10, 0), (0, 2), (10, 0), (2, 0), (11, 0), (1, 2), (11, 0)] =
      ([.acq 2, .emit 1, .rel 2, .acq 2, .emit 2, .rel 2] : List (Act Nat)) ∧
    expandWrite [1, 2] [(10, 0), (0, 2), (10, 0), (2, 0), (11, 0), (1, 2), (11, 0)] ≠ writerProg [1, 2] := by
  decide

end Gotlcp.Props.C13
